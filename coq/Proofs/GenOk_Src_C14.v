(* Proofs/GenOk_Src_C14.v — source tie for C14: the definitions regenerated from the text of IPAddress's arithmetic,
   bitwise and view methods equal the width-level model (Model/Ip.v) and the object-level model (Model/AddrOps.v).
   Method parameters are ints (for an IPAddress operand `int(other)` is its __int__(), i.e. operand_int). *)
From NV Require Import Base.Tac Base.PyVal Model.Ip Model.AddrOps Model.SrcPrelude Gen.pysrc_gen Proofs.GenOk_Src_Const.
Open Scope Z_scope.

(* in-place forms: the generated definition returns the value assigned to self._value *)
Lemma src_iadd_ok ver w v n : src_IPAddress_iadd ver w v n = addr_iadd w v n.
Proof. reflexivity. Qed.
Lemma src_isub_ok ver w v n : src_IPAddress_isub ver w v n = addr_isub w v n.
Proof. reflexivity. Qed.
Lemma src_obj_iadd_ok ver v n : inplace ver v (src_IPAddress_iadd ver (width ver) v n) = obj_iadd ver v n.
Proof. reflexivity. Qed.
Lemma src_obj_isub_ok ver v n : inplace ver v (src_IPAddress_isub ver (width ver) v n) = obj_isub ver v n.
Proof. reflexivity. Qed.

(* forms returning a new object *)
Lemma src_add_ok ver v n : src_IPAddress_add ver (width ver) v n = obj_add ver v n.
Proof. unfold src_IPAddress_add, obj_add, addr_add, addr_iadd, in_range_w, bind, obj_new, mk_addr. cbv zeta.
  destruct ((0 <=? v + n) && (v + n <=? max_int_w (width ver))); reflexivity. Qed.
Lemma src_sub_ok ver v n : src_IPAddress_sub ver (width ver) v n = obj_sub ver v n.
Proof. unfold src_IPAddress_sub, obj_sub, addr_sub, addr_isub, in_range_w, bind, obj_new, mk_addr. cbv zeta.
  destruct ((0 <=? v - n) && (v - n <=? max_int_w (width ver))); reflexivity. Qed.
Lemma src_rsub_ok ver v n : src_IPAddress_rsub ver (width ver) v n = obj_rsub ver v n.
Proof. unfold src_IPAddress_rsub, obj_rsub, addr_rsub, in_range_w, bind, obj_new, mk_addr. cbv zeta.
  destruct ((0 <=? n - v) && (n - v <=? max_int_w (width ver))); reflexivity. Qed.

Lemma src_or_ok ver w v o : src_IPAddress_or ver w v (operand_int o) = obj_or ver v o.
Proof. reflexivity. Qed.
Lemma src_and_ok ver w v o : src_IPAddress_and ver w v (operand_int o) = obj_and ver v o.
Proof. reflexivity. Qed.
Lemma src_xor_ok ver w v o : src_IPAddress_xor ver w v (operand_int o) = obj_xor ver v o.
Proof. reflexivity. Qed.
Lemma src_lshift_ok ver w v n : src_IPAddress_lshift ver w v n = obj_lshift ver v n.
Proof. reflexivity. Qed.
Lemma src_rshift_ok ver w v n : src_IPAddress_rshift ver w v n = obj_rshift ver v n.
Proof. reflexivity. Qed.

Lemma src_int_ok ver w v : src_IPAddress_int ver w v = view_int v.
Proof. reflexivity. Qed.
Lemma src_index_ok ver w v : src_IPAddress_index ver w v = view_index v.
Proof. reflexivity. Qed.
Lemma src_nonzero_ok ver w v : src_IPAddress_nonzero ver w v = view_bool v.
Proof. reflexivity. Qed.

(* ---- width level: for a valid version the value component is the width-level model (Model/Ip.v) ---- *)
Lemma mk_addr_snd ver x : valid_ver ver = true -> omap snd (mk_addr ver x) = ctor_w (width ver) x.
Proof.
  unfold mk_addr, addr_of_int_ver, ctor_w, valid_ver, width. intros H.
  destruct (ver =? 4); [destruct (in_range_w 32 x); reflexivity|].
  destruct (ver =? 6); [destruct (in_range_w 128 x); reflexivity|discriminate].
Qed.

Section W.
Variables ver v n : Z.
Hypothesis Hver : valid_ver ver = true.
Let w := width ver.

Lemma src_or_w : omap snd (src_IPAddress_or ver w v n) = addr_or w v n.
Proof. apply mk_addr_snd, Hver. Qed.
Lemma src_and_w : omap snd (src_IPAddress_and ver w v n) = addr_and w v n.
Proof. apply mk_addr_snd, Hver. Qed.
Lemma src_xor_w : omap snd (src_IPAddress_xor ver w v n) = addr_xor w v n.
Proof. apply mk_addr_snd, Hver. Qed.
Lemma src_lshift_w : omap snd (src_IPAddress_lshift ver w v n) = addr_lshift w v n.
Proof. unfold src_IPAddress_lshift, addr_lshift. destruct (n <? 0); [reflexivity|apply mk_addr_snd, Hver]. Qed.
Lemma src_rshift_w : omap snd (src_IPAddress_rshift ver w v n) = addr_rshift w v n.
Proof. unfold src_IPAddress_rshift, addr_rshift. destruct (n <? 0); [reflexivity|apply mk_addr_snd, Hver]. Qed.

(* after the explicit range test the constructor's own check is redundant *)
Lemma checked_ctor x :
  omap snd (if (0 <=? x) && (x <=? max_int_w w) then mk_addr ver x else Raise IndexError) =
  (if in_range_w w x then Ok x else Raise IndexError).
Proof.
  unfold in_range_w. destruct ((0 <=? x) && (x <=? max_int_w w)) eqn:E; [|reflexivity].
  rewrite mk_addr_ok; [reflexivity|exact Hver|exact E].
Qed.
Lemma src_add_w : omap snd (src_IPAddress_add ver w v n) = addr_add w v n.
Proof. apply checked_ctor. Qed.
Lemma src_sub_w : omap snd (src_IPAddress_sub ver w v n) = addr_sub w v n.
Proof. apply checked_ctor. Qed.
Lemma src_rsub_w : omap snd (src_IPAddress_rsub ver w v n) = addr_rsub w v n.
Proof. apply checked_ctor. Qed.
End W.

Lemma C14_tie_ok :
  (forall ver w v n,
     src_IPAddress_iadd ver w v n = addr_iadd w v n /\
     src_IPAddress_isub ver w v n = addr_isub w v n /\
     src_IPAddress_lshift ver w v n = obj_lshift ver v n /\
     src_IPAddress_rshift ver w v n = obj_rshift ver v n /\
     src_IPAddress_int ver w v = view_int v /\
     src_IPAddress_index ver w v = view_index v /\
     src_IPAddress_nonzero ver w v = view_bool v) /\
  (forall ver w v o,
     src_IPAddress_or ver w v (operand_int o) = obj_or ver v o /\
     src_IPAddress_and ver w v (operand_int o) = obj_and ver v o /\
     src_IPAddress_xor ver w v (operand_int o) = obj_xor ver v o) /\
  (forall ver v n,
     inplace ver v (src_IPAddress_iadd ver (width ver) v n) = obj_iadd ver v n /\
     inplace ver v (src_IPAddress_isub ver (width ver) v n) = obj_isub ver v n /\
     src_IPAddress_add ver (width ver) v n = obj_add ver v n /\
     src_IPAddress_sub ver (width ver) v n = obj_sub ver v n /\
     src_IPAddress_rsub ver (width ver) v n = obj_rsub ver v n) /\
  (forall ver v n, valid_ver ver = true ->
     let w := width ver in
     omap snd (src_IPAddress_add ver w v n) = addr_add w v n /\
     omap snd (src_IPAddress_sub ver w v n) = addr_sub w v n /\
     omap snd (src_IPAddress_rsub ver w v n) = addr_rsub w v n /\
     omap snd (src_IPAddress_or ver w v n) = addr_or w v n /\
     omap snd (src_IPAddress_and ver w v n) = addr_and w v n /\
     omap snd (src_IPAddress_xor ver w v n) = addr_xor w v n /\
     omap snd (src_IPAddress_lshift ver w v n) = addr_lshift w v n /\
     omap snd (src_IPAddress_rshift ver w v n) = addr_rshift w v n) /\
  (src_ipv4_version = 4 /\ src_ipv6_version = 6 /\
   src_ipv4_width = width src_ipv4_version /\ src_ipv6_width = width src_ipv6_version /\
   src_ipv4_max_int = max_int_w src_ipv4_width /\ src_ipv6_max_int = max_int_w src_ipv6_width /\
   src_ipv4_max_int = max_int 4 /\ src_ipv6_max_int = max_int 6).
Proof.
  split; [intros; repeat split; reflexivity|]. split; [intros; repeat split; reflexivity|].
  split; [intros; split; [reflexivity|]; split; [reflexivity|]; split; [apply src_add_ok|];
          split; [apply src_sub_ok|apply src_rsub_ok]|].
  split; [|exact src_consts_ok]. intros ver v n H. cbn zeta.
  split; [apply src_add_w, H|]. split; [apply src_sub_w, H|]. split; [apply src_rsub_w, H|].
  split; [apply src_or_w, H|]. split; [apply src_and_w, H|]. split; [apply src_xor_w, H|].
  split; [apply src_lshift_w, H|apply src_rshift_w, H].
Qed.
