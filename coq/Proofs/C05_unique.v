(* Proofs/C05_unique.v -- iter_unique_ips (Model/UniqueIps.v): for well-formed arguments it returns normally, yields exactly the
   addresses of the union of the arguments (= of the merged blocks), and yields none of them twice.  Built on C05_merge
   (cidr_merge returns the canonical list of the union) and on the sortedness of canonical lists (Base/Canon.v). *)
From NV Require Import Base.Tac Base.PyVal Base.Bits Base.Canon Model.Ip Model.Span Model.Sets Model.Merge Model.UniqueIps
  Proofs.C02 Proofs.NetDen Proofs.C05.
From Coq Require Import Sorting.Sorted.
Import ListNotations.
Open Scope Z_scope.

Lemma in_net_addrs n ver x : In (ver, x) (net_addrs n) <-> ver = nver n /\ nf n <= x <= nl n.
Proof.
  unfold net_addrs. rewrite in_map_iff. split.
  - intros (i & E & Hi). apply in_seq in Hi. inversion E. subst. split; [reflexivity|]. lia.
  - intros (-> & Hx). exists (Z.to_nat (x - nf n)). split; [f_equal; lia|]. apply in_seq. lia.
Qed.

Lemma in_net_addrs_den n ver x : In (ver, x) (net_addrs n) <-> in_net n ver x.
Proof. rewrite in_net_addrs. unfold in_net. intuition. Qed.

Lemma in_flat_addrs l ver x : In (ver, x) (flat_map net_addrs l) <-> den l ver x.
Proof.
  rewrite in_flat_map. unfold den. split; intros (n & Hn & H); exists n; (split; [exact Hn|]); apply in_net_addrs_den; exact H.
Qed.

(* the addresses of one block, as integers, ascend strictly *)
Lemma net_addrs_snd_sorted n : StronglySorted Z.lt (map snd (net_addrs n)).
Proof.
  unfold net_addrs. rewrite map_map. cbn [snd]. generalize (Z.to_nat (nl n - nf n + 1)). generalize (nf n). generalize 0%nat.
  intros s f k. revert s. induction k as [|k IH]; intros s; [constructor|].
  cbn [seq map]. constructor; [apply IH|].
  apply Forall_forall. intros y Hy. apply in_map_iff in Hy. destruct Hy as (i & <- & Hi). apply in_seq in Hi. lia.
Qed.

Lemma sorted_app l1 l2 : StronglySorted Z.lt l1 -> StronglySorted Z.lt l2 -> (forall a b, In a l1 -> In b l2 -> a < b) ->
  StronglySorted Z.lt (l1 ++ l2).
Proof.
  intros H1 H2 H. induction H1 as [|a l1 H1 IH Ha]; [exact H2|]. cbn [app]. constructor.
  - apply IH. intros x y Hx Hy. apply H; [right; exact Hx|exact Hy].
  - apply Forall_app. split; [exact Ha|]. apply Forall_forall. intros y Hy. apply H; [left; reflexivity|exact Hy].
Qed.

Lemma sorted_nodup l : StronglySorted Z.lt l -> NoDup l.
Proof.
  induction 1 as [|a l H IH Ha]; constructor; [|exact IH].
  intros Hin. rewrite Forall_forall in Ha. specialize (Ha _ Hin). lia.
Qed.

(* one family: blocks sorted by `below` give ascending addresses *)
Lemma fam_sorted w (l : list net) : 0 <= w ->
  (forall n, In n l -> wf_net n /\ width (nver n) = w) -> StronglySorted (below w) (map net_blk l) ->
  StronglySorted Z.lt (map snd (flat_map net_addrs l)).
Proof.
  intros Hw Hwf Hs. induction l as [|n t IH]; [constructor|].
  cbn [flat_map map] in *. rewrite map_app. inversion Hs as [|? ? Hs' Hall]; subst.
  apply sorted_app; [apply net_addrs_snd_sorted|apply IH; [intros m Hm; apply Hwf; right; exact Hm|exact Hs']|].
  intros a b Ha Hb. apply in_map_iff in Ha. destruct Ha as ([va xa] & <- & Ha). apply in_net_addrs in Ha. destruct Ha as (_ & Ha).
  apply in_map_iff in Hb. destruct Hb as ([vb xb] & <- & Hb). apply in_flat_map in Hb. destruct Hb as (m & Hm & Hb).
  apply in_net_addrs in Hb. destruct Hb as (_ & Hb). cbn [snd].
  rewrite Forall_forall in Hall. specialize (Hall (net_blk m) (in_map net_blk _ _ Hm)).
  destruct (Hwf n (or_introl eq_refl)) as (Wn & En). destruct (Hwf m (or_intror Hm)) as (Wm & Em).
  unfold below, bsize, net_blk in Hall. cbn [bv bp] in Hall.
  pose proof (nl_eq n Wn) as Ln. rewrite En in Ln. lia.
Qed.

Lemma fam_ver ver l n : In n (fam ver l) -> nver n = ver /\ In n l.
Proof. unfold fam. rewrite filter_In. intros (H & E). split; [lia|exact H]. Qed.

Lemma nodup_fam ver w l : 0 <= w -> width ver = w -> Forall wfh l -> canon w (fam_blks ver l) ->
  NoDup (flat_map net_addrs (fam ver l)).
Proof.
  intros Hw Ew Hwf (_ & Hs & _).
  assert (Hs' : StronglySorted Z.lt (map snd (flat_map net_addrs (fam ver l)))).
  { apply (fam_sorted w); [exact Hw| |exact Hs].
    intros n Hn. destruct (fam_ver _ _ _ Hn) as (Ev & Hl). rewrite Forall_forall in Hwf. destruct (Hwf _ Hl) as (W & _).
    split; [exact W|rewrite Ev; exact Ew]. }
  apply sorted_nodup in Hs'. exact (NoDup_map_inv _ _ Hs').
Qed.

Lemma flat_addrs_ver ver l a : In a (flat_map net_addrs (fam ver l)) -> fst a = ver.
Proof.
  intros H. apply in_flat_map in H. destruct H as (n & Hn & Ha). destruct a as [v x]. apply in_net_addrs in Ha.
  destruct Ha as (-> & _). apply (fam_ver _ _ _ Hn).
Qed.

Lemma nodup_app {A} (l1 l2 : list A) : NoDup l1 -> NoDup l2 -> (forall a, In a l1 -> In a l2 -> False) -> NoDup (l1 ++ l2).
Proof.
  intros H1 H2 H. induction H1 as [|a l1 Ha H1 IH]; [exact H2|]. cbn [app]. constructor.
  - intros Hin. apply in_app_or in Hin. destruct Hin as [Hin|Hin]; [exact (Ha Hin)|exact (H a (or_introl eq_refl) Hin)].
  - apply IH. intros x Hx Hy. exact (H x (or_intror Hx) Hy).
Qed.

Lemma canon_nets_nodup l : canon_nets l -> NoDup (flat_map net_addrs l).
Proof.
  intros (Hwf & El & C4 & C6). rewrite El. rewrite flat_map_app. apply nodup_app.
  - apply (nodup_fam 4 32); [lia|reflexivity|exact Hwf|exact C4].
  - apply (nodup_fam 6 128); [lia|reflexivity|exact Hwf|exact C6].
  - intros a H4 H6. apply flat_addrs_ver in H4. apply flat_addrs_ver in H6. lia.
Qed.

Theorem unique_ips_spec items : Forall wf_mitem items ->
  exists ips, unique_ips items = Ok ips /\ NoDup ips /\ (forall ver x, In (ver, x) ips <-> den_items items ver x).
Proof.
  intros Hwf. destruct (C05_merge items Hwf) as (l & E & Hc & Hd).
  exists (flat_map net_addrs l). unfold unique_ips. rewrite E. cbn [bind]. split; [reflexivity|]. split; [apply canon_nets_nodup, Hc|].
  intros ver x. rewrite in_flat_addrs. apply Hd.
Qed.
