(* Proofs/C16.v — IPv4/IPv6 conversion is lossless and refuses what cannot convert. *)
From NV Require Import Base.Tac Base.PyVal Base.Bits Model.Ip Model.Conv.
Open Scope Z_scope.

(* ---- constants ---- *)
Lemma max4 : max_int 4 = 4294967295. Proof. reflexivity. Qed.
Lemma max6 : max_int 6 = 2 ^ 128 - 1. Proof. reflexivity. Qed.
Lemma maxw32 : max_int_w 32 = 4294967295. Proof. reflexivity. Qed.
Lemma maxw128 : max_int_w 128 = 2 ^ 128 - 1. Proof. reflexivity. Qed.
Lemma w4 : width 4 = 32. Proof. reflexivity. Qed.
Lemma w6 : width 6 = 128. Proof. reflexivity. Qed.
Lemma p32 : 2 ^ 32 = 4294967296. Proof. reflexivity. Qed.
Lemma p128 : 2 ^ 128 = 340282366920938463463374607431768211456. Proof. reflexivity. Qed.
Lemma lo_val : 0xffff00000000 = 65535 * 2 ^ 32. Proof. reflexivity. Qed.
Lemma hi_val : 0xffffffffffff = 65536 * 2 ^ 32 - 1. Proof. reflexivity. Qed.

(* the two embedding blocks, as CIDR blocks of the IPv6 space (first/last of Model.Ip) *)
Lemma mapped_block : net_first 128 0xffff00000000 96 = 0xffff00000000 /\
                     net_last 128 0xffff00000000 96 = 0xffffffffffff.
Proof. split; vm_compute; reflexivity. Qed.
Lemma compat_block : net_first 128 0 96 = 0 /\ net_last 128 0 96 = 0xffffffff.
Proof. split; vm_compute; reflexivity. Qed.

(* ---- constructors ---- *)
Lemma ctor4 v : 0 <= v < 2 ^ 32 -> addr_of_int_ver v 4 = Ok (4, v).
Proof.
  intros H. rewrite p32 in H. unfold addr_of_int_ver, in_range_w. rewrite maxw32.
  change (4 =? 4) with true. cbv iota.
  destruct ((0 <=? v) && (v <=? 4294967295)) eqn:E; [reflexivity|lia].
Qed.

Lemma ctor4_bad v : ~ 0 <= v < 2 ^ 32 -> addr_of_int_ver v 4 = Raise AddrFormatError.
Proof.
  intros H. rewrite p32 in H. unfold addr_of_int_ver, in_range_w. rewrite maxw32.
  change (4 =? 4) with true. cbv iota.
  destruct ((0 <=? v) && (v <=? 4294967295)) eqn:E; [lia|reflexivity].
Qed.

Lemma ctor6 v : 0 <= v < 2 ^ 128 -> addr_of_int_ver v 6 = Ok (6, v).
Proof.
  intros H. unfold addr_of_int_ver, in_range_w. rewrite maxw128.
  change (6 =? 4) with false. change (6 =? 6) with true. cbv iota.
  rewrite p128 in *.
  destruct ((0 <=? v) && (v <=? 340282366920938463463374607431768211456 - 1)) eqn:E; [reflexivity|lia].
Qed.

Lemma int_to_str_ok v : 0 <= v < 2 ^ 32 -> ipv4_int_to_str v = Ok v.
Proof.
  intros H. rewrite p32 in H. unfold ipv4_int_to_str. rewrite max4.
  destruct ((0 <=? v) && (v <=? 4294967295)) eqn:E; [reflexivity|lia].
Qed.

Lemma text_ok a p : 0 <= p <= 32 -> net_of_text_v4 a p = Ok {| nver := 4; nval := a; nplen := p |}.
Proof.
  intros H. unfold net_of_text_v4. rewrite w4.
  destruct ((0 <=? p) && (p <=? 32)) eqn:E; [reflexivity|lia].
Qed.

Lemma tuple6_ok v p : 0 <= v < 2 ^ 128 -> 0 <= p <= 128 ->
  net_of_tuple 6 v p = Ok {| nver := 6; nval := v; nplen := p |}.
Proof.
  intros Hv Hp. unfold net_of_tuple. rewrite max6, w6. rewrite p128 in *.
  destruct ((0 <=? v) && (v <=? 340282366920938463463374607431768211456 - 1)) eqn:E; [|lia].
  destruct ((0 <=? p) && (p <=? 128)) eqn:E2; [reflexivity|lia].
Qed.

(* ---- v >> 32 ---- *)
Lemma shr32_iff v k : Z.shiftr v 32 = k <-> k * 2 ^ 32 <= v < (k + 1) * 2 ^ 32.
Proof.
  rewrite Z.shiftr_div_pow2 by lia. rewrite p32. split; intros H; lia_dm.
Qed.

Lemma low32_mapped a : 0 <= a < 2 ^ 32 -> (0xffff00000000 + a) mod 2 ^ 32 = a.
Proof.
  intros H. rewrite lo_val, Z.add_comm, Z.mod_add by (rewrite p32; lia). apply Z.mod_small; lia.
Qed.

Lemma land32_mod v : Z.land v 0xffffffff = v mod 2 ^ 32.
Proof. change 0xffffffff with (2 ^ 32 - 1). apply land_ones_mod. lia. Qed.

(* ---- recognise ---- *)
Lemma mapped_iff v : is_ipv4_mapped 6 v = true <-> 0xffff00000000 <= v <= 0xffffffffffff.
Proof.
  unfold is_ipv4_mapped. change (6 =? 6) with true. rewrite andb_true_l, Z.eqb_eq, shr32_iff.
  rewrite lo_val, hi_val. change (0xffff) with 65535. lia.
Qed.

Lemma compat_iff v : is_ipv4_compat 6 v = true <-> 0 <= v <= 0xffffffff.
Proof.
  unfold is_ipv4_compat. change (6 =? 6) with true. rewrite andb_true_l, Z.eqb_eq, shr32_iff.
  rewrite p32. lia.
Qed.

Lemma recognise_v4 v : is_ipv4_mapped 4 v = false /\ is_ipv4_compat 4 v = false.
Proof. split; reflexivity. Qed.

Lemma recognise_all :
  (forall v, is_ipv4_mapped 6 v = true <-> 0xffff00000000 <= v <= 0xffffffffffff) /\
  (forall v, is_ipv4_compat 6 v = true <-> 0 <= v <= 0xffffffff) /\
  (forall v, is_ipv4_mapped 6 v = true <->
             net_first 128 0xffff00000000 96 <= v <= net_last 128 0xffff00000000 96) /\
  (forall v, is_ipv4_compat 6 v = true <-> net_first 128 0 96 <= v <= net_last 128 0 96) /\
  (forall v, is_ipv4_mapped 4 v = false /\ is_ipv4_compat 4 v = false) /\
  (forall v, is_ipv4_mapped 6 v = true -> is_ipv4_compat 6 v = true -> False).
Proof.
  destruct mapped_block as [m1 m2], compat_block as [c1 c2].
  split; [exact mapped_iff|]. split; [exact compat_iff|].
  split; [intros v; rewrite m1, m2; apply mapped_iff|].
  split; [intros v; rewrite c1, c2; apply compat_iff|].
  split; [exact recognise_v4|].
  intros v Hm Hc. apply mapped_iff in Hm. apply compat_iff in Hc. lia.
Qed.

(* ---- embed ---- *)
Lemma embed_addr a : 0 <= a < 2 ^ 32 ->
  addr_ipv6 4 a false = Ok (6, 0xffff00000000 + a) /\
  addr_ipv6 4 a true = Ok (6, a) /\
  (0xffff00000000 + a) mod 2 ^ 32 = a /\ a mod 2 ^ 32 = a /\
  Z.land (0xffff00000000 + a) 0xffffffff = a /\ Z.land a 0xffffffff = a /\
  is_ipv4_mapped 6 (0xffff00000000 + a) = true /\ is_ipv4_compat 6 a = true.
Proof.
  intros H. pose proof (low32_mapped a H) as Hl.
  assert (Hs : a mod 2 ^ 32 = a) by (apply Z.mod_small; lia).
  rewrite !land32_mod, Hl, Hs.
  assert (H6 : 0 <= a < 2 ^ 128) by (rewrite p32 in H; rewrite p128; lia).
  assert (H6' : 0 <= 0xffff00000000 + a < 2 ^ 128) by (rewrite p32 in H; rewrite p128; lia).
  unfold addr_ipv6. change (4 =? 6) with false. change (4 =? 4) with true. cbv iota.
  rewrite (ctor6 a H6). cbn [bind negb]. rewrite (ctor6 _ H6').
  repeat (split; [reflexivity|]).
  split; [apply mapped_iff|apply compat_iff]; rewrite p32 in H; lia.
Qed.

Lemma embed_net a p : 0 <= a < 2 ^ 32 -> 0 <= p <= 32 ->
  net_ipv6 4 a p false = Ok {| nver := 6; nval := 0xffff00000000 + a; nplen := p + 96 |} /\
  net_ipv6 4 a p true = Ok {| nver := 6; nval := a; nplen := p + 96 |}.
Proof.
  intros H Hp.
  assert (H6 : 0 <= a < 2 ^ 128) by (rewrite p32 in H; rewrite p128; lia).
  assert (H6' : 0 <= 0xffff00000000 + a < 2 ^ 128) by (rewrite p32 in H; rewrite p128; lia).
  unfold net_ipv6. change (4 =? 6) with false. change (4 =? 4) with true. cbv iota.
  rewrite (tuple6_ok a (p + 96)), (tuple6_ok (0xffff00000000 + a) (p + 96)) by lia.
  split; reflexivity.
Qed.

(* ---- ipv4(): complete functional description on IPv6 objects ---- *)
Lemma addr_ipv4_v6 v :
  addr_ipv4 6 v =
    if (0 <=? v) && (v <=? 0xffffffff) then Ok (4, v)
    else if (0xffff00000000 <=? v) && (v <=? 0xffffffffffff) then Ok (4, v - 0xffff00000000)
    else Raise AddrConversionError.
Proof.
  unfold addr_ipv4. change (6 =? 4) with false. change (6 =? 6) with true. cbv iota.
  rewrite max4. change 0xffffffff with 4294967295.
  destruct ((0 <=? v) && (v <=? 4294967295)) eqn:E.
  - apply ctor4. rewrite p32. lia.
  - destruct ((0xffff00000000 <=? v) && (v <=? 0xffffffffffff)) eqn:E2; [|reflexivity].
    apply ctor4. rewrite p32. lia.
Qed.

Lemma net_ipv4_v6 v p : p <= 128 ->
  net_ipv4 6 v p =
    if p <? 96 then Raise AddrConversionError
    else if (0 <=? v) && (v <=? 0xffffffff) then Ok {| nver := 4; nval := v; nplen := p - 96 |}
    else if (0xffff00000000 <=? v) && (v <=? 0xffffffffffff)
         then Ok {| nver := 4; nval := v - 0xffff00000000; nplen := p - 96 |}
    else Raise AddrConversionError.
Proof.
  intros Hp. unfold net_ipv4. change (6 =? 4) with false. change (6 =? 6) with true. cbv iota.
  rewrite max4. change 0xffffffff with 4294967295.
  case_ltb p 96; [reflexivity|].
  destruct ((0 <=? v) && (v <=? 4294967295)) eqn:E.
  - rewrite int_to_str_ok by (rewrite p32; lia). cbn [bind]. apply text_ok. lia.
  - destruct ((0xffff00000000 <=? v) && (v <=? 0xffffffffffff)) eqn:E2; [|reflexivity].
    rewrite int_to_str_ok by (rewrite p32; lia). cbn [bind]. apply text_ok. lia.
Qed.

(* whenever ipv4() answers, the answer is the low 32 bits (never a wrong address) *)
Lemma addr_ipv4_sound v y : addr_ipv4 6 v = Ok y ->
  y = (4, v mod 2 ^ 32) /\ (is_ipv4_mapped 6 v = true \/ is_ipv4_compat 6 v = true).
Proof.
  rewrite addr_ipv4_v6. change 0xffffffff with 4294967295.
  destruct ((0 <=? v) && (v <=? 4294967295)) eqn:E.
  - intros [= <-]. split.
    + rewrite Z.mod_small by (rewrite p32; lia). reflexivity.
    + right. apply compat_iff. lia.
  - destruct ((0xffff00000000 <=? v) && (v <=? 0xffffffffffff)) eqn:E2; [|discriminate].
    intros [= <-]. split.
    + f_equal. pose proof (low32_mapped (v - 0xffff00000000)) as L.
      replace (0xffff00000000 + (v - 0xffff00000000)) with v in L by lia.
      rewrite L; [reflexivity|rewrite p32; lia].
    + left. apply mapped_iff. lia.
Qed.

Lemma net_ipv4_sound v p n : p <= 128 -> net_ipv4 6 v p = Ok n ->
  n = {| nver := 4; nval := v mod 2 ^ 32; nplen := p - 96 |} /\ 96 <= p /\
  (is_ipv4_mapped 6 v = true \/ is_ipv4_compat 6 v = true).
Proof.
  intros Hp. rewrite net_ipv4_v6 by exact Hp. change 0xffffffff with 4294967295.
  case_ltb p 96; [discriminate|].
  destruct ((0 <=? v) && (v <=? 4294967295)) eqn:E.
  - intros [= <-]. split; [|split; [lia|]].
    + rewrite Z.mod_small by (rewrite p32; lia). reflexivity.
    + right. apply compat_iff. lia.
  - destruct ((0xffff00000000 <=? v) && (v <=? 0xffffffffffff)) eqn:E2; [|discriminate].
    intros [= <-]. split; [|split; [lia|]].
    + f_equal. pose proof (low32_mapped (v - 0xffff00000000)) as L.
      replace (0xffff00000000 + (v - 0xffff00000000)) with v in L by lia.
      rewrite L; [reflexivity|rewrite p32; lia].
    + left. apply mapped_iff. lia.
Qed.

(* ---- round trip ---- *)
Lemma roundtrip_addr a c : 0 <= a < 2 ^ 32 -> addr_v6_then_v4 4 a c = Ok (4, a).
Proof.
  intros H. destruct (embed_addr a H) as (Em & Ec & _).
  unfold addr_v6_then_v4. destruct c; [rewrite Ec|rewrite Em]; cbn [bind fst snd];
    rewrite addr_ipv4_v6; change 0xffffffff with 4294967295; rewrite p32 in H.
  - destruct ((0 <=? a) && (a <=? 4294967295)) eqn:E; [reflexivity|lia].
  - destruct ((0 <=? 0xffff00000000 + a) && (0xffff00000000 + a <=? 4294967295)) eqn:E; [lia|].
    destruct ((0xffff00000000 <=? 0xffff00000000 + a) && (0xffff00000000 + a <=? 0xffffffffffff)) eqn:E2; [|lia].
    do 2 f_equal. lia.
Qed.

Lemma roundtrip_net a p c : 0 <= a < 2 ^ 32 -> 0 <= p <= 32 ->
  net_v6_then_v4 4 a p c = Ok {| nver := 4; nval := a; nplen := p |}.
Proof.
  intros H Hp. destruct (embed_net a p H Hp) as (Em & Ec).
  unfold net_v6_then_v4. destruct c; [rewrite Ec|rewrite Em]; cbn [bind nver nval nplen];
    rewrite net_ipv4_v6 by lia; change 0xffffffff with 4294967295; rewrite p32 in H;
    (case_ltb (p + 96) 96; [lia|]).
  - destruct ((0 <=? a) && (a <=? 4294967295)) eqn:E; [|lia].
    do 2 f_equal. lia.
  - destruct ((0 <=? 0xffff00000000 + a) && (0xffff00000000 + a <=? 4294967295)) eqn:E; [lia|].
    destruct ((0xffff00000000 <=? 0xffff00000000 + a) && (0xffff00000000 + a <=? 0xffffffffffff)) eqn:E2; [|lia].
    f_equal. f_equal; lia.
Qed.

(* the other direction: an IPv6 object of an embedding block is recovered from its IPv4 image
   by the embedding of the same kind *)
Lemma roundtrip_back_addr v :
  (is_ipv4_mapped 6 v = true -> addr_v4_then_v6 6 v false = Ok (6, v)) /\
  (is_ipv4_compat 6 v = true -> addr_v4_then_v6 6 v true = Ok (6, v)).
Proof.
  split; intros Hm; [apply mapped_iff in Hm|apply compat_iff in Hm];
    unfold addr_v4_then_v6; rewrite addr_ipv4_v6; change 0xffffffff with 4294967295 in *.
  - destruct ((0 <=? v) && (v <=? 4294967295)) eqn:E; [lia|].
    destruct ((0xffff00000000 <=? v) && (v <=? 0xffffffffffff)) eqn:E2; [|lia].
    cbn [bind fst snd].
    destruct (embed_addr (v - 0xffff00000000)) as (Em & _); [rewrite p32; lia|].
    rewrite Em. do 2 f_equal. lia.
  - destruct ((0 <=? v) && (v <=? 4294967295)) eqn:E; [|lia].
    cbn [bind fst snd].
    destruct (embed_addr v) as (_ & Ec & _); [rewrite p32; lia|]. exact Ec.
Qed.

Lemma roundtrip_back_net v p : 96 <= p <= 128 ->
  (is_ipv4_mapped 6 v = true ->
     net_v4_then_v6 6 v p false = Ok {| nver := 6; nval := v; nplen := p |}) /\
  (is_ipv4_compat 6 v = true ->
     net_v4_then_v6 6 v p true = Ok {| nver := 6; nval := v; nplen := p |}).
Proof.
  intros Hp.
  split; intros Hm; [apply mapped_iff in Hm|apply compat_iff in Hm];
    unfold net_v4_then_v6; rewrite net_ipv4_v6 by lia; change 0xffffffff with 4294967295 in *;
    (case_ltb p 96; [lia|]).
  - destruct ((0 <=? v) && (v <=? 4294967295)) eqn:E; [lia|].
    destruct ((0xffff00000000 <=? v) && (v <=? 0xffffffffffff)) eqn:E2; [|lia].
    cbn [bind nver nval nplen].
    destruct (embed_net (v - 0xffff00000000) (p - 96)) as (Em & _); [rewrite p32; lia|lia|].
    rewrite Em. f_equal. f_equal; lia.
  - destruct ((0 <=? v) && (v <=? 4294967295)) eqn:E; [|lia].
    cbn [bind nver nval nplen].
    destruct (embed_net v (p - 96)) as (_ & Ec); [rewrite p32; lia|lia|].
    rewrite Ec. f_equal. f_equal; lia.
Qed.

(* ---- identity ---- *)
Lemma identity_addr :
  (forall a, 0 <= a < 2 ^ 32 -> addr_ipv4 4 a = Ok (4, a)) /\
  (forall v, 0 <= v < 2 ^ 128 -> addr_ipv6 6 v false = Ok (6, v)) /\
  (forall v, 0 <= v < 2 ^ 128 ->
     addr_ipv6 6 v true = Ok (6, if is_ipv4_mapped 6 v then v - 0xffff00000000 else v)).
Proof.
  split; [|split].
  - intros a H. unfold addr_ipv4. change (4 =? 4) with true. cbv iota. apply ctor4, H.
  - intros v H. unfold addr_ipv6. change (6 =? 6) with true. cbv iota. cbn [andb]. apply ctor6, H.
  - intros v H. unfold addr_ipv6. change (6 =? 6) with true. cbv iota. cbn [andb].
    destruct (is_ipv4_mapped 6 v) eqn:M.
    + apply mapped_iff in M.
      destruct ((0xffff00000000 <=? v) && (v <=? 0xffffffffffff)) eqn:E; [|lia].
      apply ctor6. lia.
    + destruct ((0xffff00000000 <=? v) && (v <=? 0xffffffffffff)) eqn:E; [|apply ctor6, H].
      assert (is_ipv4_mapped 6 v = true) by (apply mapped_iff; lia). congruence.
Qed.

Lemma identity_net :
  (forall a p, 0 <= a < 2 ^ 32 -> 0 <= p <= 32 ->
     net_ipv4 4 a p = Ok {| nver := 4; nval := a; nplen := p |}) /\
  (forall v p, 0 <= v < 2 ^ 128 -> 0 <= p <= 128 ->
     net_ipv6 6 v p false = Ok {| nver := 6; nval := v; nplen := p |}) /\
  (forall v p, 0 <= v < 2 ^ 128 -> 0 <= p <= 128 ->
     net_ipv6 6 v p true =
       Ok {| nver := 6; nval := if is_ipv4_mapped 6 v then v - 0xffff00000000 else v; nplen := p |}).
Proof.
  split; [|split].
  - intros a p H Hp. unfold net_ipv4. change (4 =? 4) with true. cbv iota.
    rewrite int_to_str_ok by exact H. cbn [bind]. apply text_ok, Hp.
  - intros v p H Hp. unfold net_ipv6. change (6 =? 6) with true. cbv iota. cbn [andb].
    apply tuple6_ok; assumption.
  - intros v p H Hp. unfold net_ipv6. change (6 =? 6) with true. cbv iota. cbn [andb].
    destruct (is_ipv4_mapped 6 v) eqn:M.
    + apply mapped_iff in M.
      destruct ((0xffff00000000 <=? v) && (v <=? 0xffffffffffff)) eqn:E; [|lia].
      apply tuple6_ok; lia.
    + destruct ((0xffff00000000 <=? v) && (v <=? 0xffffffffffff)) eqn:E; [|apply tuple6_ok; assumption].
      assert (is_ipv4_mapped 6 v = true) by (apply mapped_iff; lia). congruence.
Qed.

(* ---- refuse ---- *)
Lemma refuse_addr v : is_ipv4_mapped 6 v = false -> is_ipv4_compat 6 v = false ->
  addr_ipv4 6 v = Raise AddrConversionError.
Proof.
  intros Hm Hc. rewrite addr_ipv4_v6.
  destruct ((0 <=? v) && (v <=? 0xffffffff)) eqn:E.
  - assert (is_ipv4_compat 6 v = true) by (apply compat_iff; lia). congruence.
  - destruct ((0xffff00000000 <=? v) && (v <=? 0xffffffffffff)) eqn:E2; [|reflexivity].
    assert (is_ipv4_mapped 6 v = true) by (apply mapped_iff; lia). congruence.
Qed.

Lemma refuse_net v p : p <= 128 ->
  p < 96 \/ (is_ipv4_mapped 6 v = false /\ is_ipv4_compat 6 v = false) ->
  net_ipv4 6 v p = Raise AddrConversionError.
Proof.
  intros Hp H. rewrite net_ipv4_v6 by exact Hp.
  case_ltb p 96; [reflexivity|]. destruct H as [H|[Hm Hc]]; [lia|].
  destruct ((0 <=? v) && (v <=? 0xffffffff)) eqn:E.
  - assert (is_ipv4_compat 6 v = true) by (apply compat_iff; lia). congruence.
  - destruct ((0xffff00000000 <=? v) && (v <=? 0xffffffffffff)) eqn:E2; [|reflexivity].
    assert (is_ipv4_mapped 6 v = true) by (apply mapped_iff; lia). congruence.
Qed.

(* the refusal stated with the integer ranges of the property text *)
Lemma refuse_addr_ranges v :
  ~ (0 <= v <= 0xffffffff) -> ~ (0xffff00000000 <= v <= 0xffffffffffff) ->
  addr_ipv4 6 v = Raise AddrConversionError.
Proof.
  intros Hc Hm. apply refuse_addr.
  - destruct (is_ipv4_mapped 6 v) eqn:M; [|reflexivity]. apply mapped_iff in M. contradiction.
  - destruct (is_ipv4_compat 6 v) eqn:C; [|reflexivity]. apply compat_iff in C. contradiction.
Qed.

Lemma refuse_net_ranges v p : p <= 128 ->
  p < 96 \/ (~ (0 <= v <= 0xffffffff) /\ ~ (0xffff00000000 <= v <= 0xffffffffffff)) ->
  net_ipv4 6 v p = Raise AddrConversionError.
Proof.
  intros Hp [H|[Hc Hm]]; apply refuse_net; try exact Hp; [left; exact H|right; split].
  - destruct (is_ipv4_mapped 6 v) eqn:M; [|reflexivity]. apply mapped_iff in M. contradiction.
  - destruct (is_ipv4_compat 6 v) eqn:C; [|reflexivity]. apply compat_iff in C. contradiction.
Qed.
