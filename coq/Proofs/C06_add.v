(* Proofs/C06_add.v — property C06, part B: the incremental mutators of IPSet keep the stored dict canonical.
   compact_single (= IPSet._compact_single_network), set_add, remove_one / set_remove, set_pop of Model/Sets.v
   against the order-free invariant SetInv of Proofs/NetDen.v. *)
From NV Require Import Base.Tac Base.PyVal Base.Bits Base.Canon Model.Ip Model.Partition Model.Span Model.Merge
  Model.Sets Proofs.C02 Proofs.C09 Proofs.NetDen.
From Coq Require Import Sorting.Sorted Sorting.Permutation.
Open Scope Z_scope.

(* ================================================================ 0. one network, in plain arithmetic *)
Definition nw (n : net) : Z := width (nver n).
Definition nS (n : net) : Z := 2 ^ (nw n - nplen n).

Lemma wfh_view n : wfh n ->
  valid_ver (nver n) = true /\ 0 <= nplen n <= nw n /\ 0 < nS n /\ (nS n | nf n) /\ 0 <= nf n /\
  nl n = nf n + nS n - 1 /\ nf n + nS n <= 2 ^ nw n /\ nval n = nf n.
Proof.
  intros (W & H). unfold hostfree in H. pose proof W as (Hv & Hval & Hp). unfold nS, nw.
  pose proof (first_last_in_range (width (nver n)) (nval n) (nplen n) Hp Hval) as (R1 & R2).
  rewrite (nl_eq n W). rewrite (nf_eq n W) in *.
  split; [exact Hv|]. split; [exact Hp|]. split; [apply pow2_pos; lia|].
  split; [apply floor2_divide; lia|]. split; [exact R1|]. split; [reflexivity|]. split; [lia|exact H].
Qed.

Lemma wf_view n : wf_net n ->
  valid_ver (nver n) = true /\ 0 <= nplen n <= nw n /\ 0 < nS n /\ (nS n | nf n) /\ 0 <= nf n /\
  nl n = nf n + nS n - 1 /\ nf n + nS n <= 2 ^ nw n /\ nf n <= nval n <= nl n.
Proof.
  intros W. pose proof W as (Hv & Hval & Hp). unfold nS, nw.
  pose proof (first_last_in_range (width (nver n)) (nval n) (nplen n) Hp Hval) as (R1 & R2).
  pose proof (floor2_bounds (nval n) (width (nver n) - nplen n) ltac:(lia)) as FB.
  rewrite (nl_eq n W). rewrite (nf_eq n W) in *.
  split; [exact Hv|]. split; [exact Hp|]. split; [apply pow2_pos; lia|].
  split; [apply floor2_divide; lia|]. split; [exact R1|]. split; [reflexivity|]. split; [lia|lia].
Qed.

Lemma nw_nonneg n : 0 <= nw n.
Proof. apply width_nonneg. Qed.

Lemma wfh_eq x y : wfh x -> wfh y -> nver x = nver y -> nf x = nf y -> nl x = nl y -> x = y.
Proof.
  intros Hx Hy Ev Ef El.
  destruct (wfh_view x Hx) as (_ & Px & _ & _ & _ & Lx & _ & Vx).
  destruct (wfh_view y Hy) as (_ & Py & _ & _ & _ & Ly & _ & Vy).
  assert (ES: nS x = nS y) by lia. unfold nS, nw in ES, Px, Py. rewrite Ev in ES, Px.
  apply Z.pow_inj_r in ES; try lia.
  destruct x as [vx ax px], y as [vy ay py]; cbn [nver nval nplen] in *. f_equal; lia.
Qed.

Lemma key_eqb_iff x y : wfh x -> wfh y -> (key_eqb x y = true <-> x = y).
Proof.
  intros Hx Hy. unfold key_eqb. rewrite !andb_true_iff, !Z.eqb_eq. split.
  - intros [[E1 E2] E3]. apply wfh_eq; assumption.
  - intros ->. auto.
Qed.

Lemma key_eqb_false x y : wfh x -> wfh y -> (key_eqb x y = false <-> x <> y).
Proof.
  intros Hx Hy. pose proof (key_eqb_iff x y Hx Hy) as K. destruct (key_eqb x y).
  - split; [discriminate|]. intros N. exfalso. apply N. now apply K.
  - split; [|reflexivity]. intros _ E. apply K in E. discriminate.
Qed.

(* a well-formed network is not empty *)
Lemma in_net_first n : wfh n -> in_net n (nver n) (nf n).
Proof. intros H. destruct (wfh_view n H) as (_ & _ & PS & _ & _ & L & _). unfold in_net. lia. Qed.

Lemma overlap_iff x y : wfh x -> wfh y ->
  (overlap x y <-> nver x = nver y /\ nf x <= nl y /\ nf y <= nl x).
Proof.
  intros Hx Hy.
  destruct (wfh_view x Hx) as (_ & _ & PSx & _ & _ & Lx & _).
  destruct (wfh_view y Hy) as (_ & _ & PSy & _ & _ & Ly & _).
  unfold overlap, in_net. split.
  - intros (ver & z & (E1 & I1) & (E2 & I2)). split; [congruence|lia].
  - intros (E & A & B). exists (nver x), (Z.max (nf x) (nf y)). split; (split; [congruence|lia]).
Qed.

Lemma overlap_sym x y : overlap x y -> overlap y x.
Proof. intros (ver & z & A & B). exists ver, z. tauto. Qed.

Lemma overlap_refl x : wfh x -> overlap x x.
Proof. intros H. exists (nver x), (nf x). split; apply in_net_first; exact H. Qed.

(* two aligned blocks of one family are nested or disjoint *)
Lemma nest_or_disj x y : wfh x -> wfh y -> nver x = nver y -> nplen x <= nplen y ->
  (nf x <= nf y /\ nl y <= nl x) \/ nl y < nf x \/ nl x < nf y.
Proof.
  intros Hx Hy Ev Hp.
  destruct (wfh_view x Hx) as (_ & Px & PSx & Dx & _ & Lx & _).
  destruct (wfh_view y Hy) as (_ & Py & PSy & Dy & _ & Ly & _).
  assert (Hdiv: (nS y | nS x)).
  { unfold nS, nw. rewrite Ev. apply pow2_divide. unfold nw in *. rewrite Ev in Px. lia. }
  destruct (Z_lt_le_dec (nl y) (nf x)) as [|A]; [right; left; assumption|].
  destruct (Z_lt_le_dec (nl x) (nf y)) as [|B]; [right; right; assumption|].
  left. pose proof (nested_of_overlap (nS y) (nS x) (nf x) (nf y) PSy Hdiv PSx Dx Dy ltac:(lia) ltac:(lia)). lia.
Qed.

(* containment forces the prefix order *)
Lemma sub_plen x y : wfh x -> wfh y -> nver x = nver y -> nf x <= nf y -> nl y <= nl x -> nplen x <= nplen y.
Proof.
  intros Hx Hy Ev A B.
  destruct (wfh_view x Hx) as (_ & Px & PSx & _ & _ & Lx & _).
  destruct (wfh_view y Hy) as (_ & Py & PSy & _ & _ & Ly & _).
  assert (nS y <= nS x) by lia. unfold nS, nw in *. rewrite Ev in *.
  destruct (Z_le_gt_dec (nplen x) (nplen y)); [assumption|exfalso].
  pose proof (pow2_lt (width (nver y) - nplen x) (width (nver y) - nplen y) ltac:(lia)). lia.
Qed.

(* ================================================================ 1. the dict as a finite set (local copies, b_) *)
Definition PDisj (d : list net) : Prop := forall a b, In a d -> In b d -> a <> b -> ~ overlap a b.
Definition NoSib (d : list net) : Prop := forall a b, In a d -> In b d -> ~ siblings a b.
Definition WD (d : list net) : Prop := Forall wfh d /\ NoDup d.
Definition SetInv' (d : list net) : Prop := WD d /\ PDisj d /\ NoSib d.

Lemma b_SetInv_iff d : SetInv d <-> SetInv' d.
Proof.
  unfold SetInv, SetInv', WD, PDisj, NoSib. split.
  - intros (F & O & S). split; [split; [exact F|]|split; [|exact S]].
    + induction O as [|a l Ha O IH]; constructor.
      * intros Hin. rewrite Forall_forall in Ha. apply (Ha a Hin). apply overlap_refl. now inversion F.
      * apply IH. now inversion F. intros; apply S; now right.
    + intros a b Ha Hb Hab. destruct (ForallOrdPairs_In O a b Ha Hb) as [E|[N|N]]; [congruence|exact N|].
      intros Ov. apply N. apply overlap_sym. exact Ov.
  - intros ((F & N) & P & S). split; [exact F|split; [|exact S]].
    clear S. induction d as [|a l IH]; constructor.
    + rewrite Forall_forall. intros x Hx. apply P; [now left|now right|]. inversion N; subst. congruence.
    + apply IH. now inversion F. now inversion N. intros x y Hx Hy. apply P; now right.
Qed.

Lemma b_dmem_iff k d : wfh k -> Forall wfh d -> (dmem k d = true <-> In k d).
Proof.
  intros Hk F. unfold dmem. rewrite existsb_exists. rewrite Forall_forall in F. split.
  - intros (x & Hx & E). apply key_eqb_iff in E; auto. now subst.
  - intros H. exists k. split; [exact H|]. apply key_eqb_iff; auto.
Qed.

Lemma b_NoDup_snoc {A} (l : list A) k : NoDup l -> ~ In k l -> NoDup (l ++ [k]).
Proof.
  induction l as [|a l IH]; intros N H; cbn.
  - constructor; [intros []|constructor].
  - inversion N; subst. constructor.
    + rewrite in_app_iff. cbn. intros [?|[->|[]]]; [contradiction|]. apply H. now left.
    + apply IH; [assumption|]. intros ?. apply H. now right.
Qed.

Lemma b_dset_spec d k : wfh k -> WD d ->
  WD (dset d k) /\ forall x, In x (dset d k) <-> In x d \/ x = k.
Proof.
  intros Hk (F & N). unfold dset. pose proof (b_dmem_iff k d Hk F) as M.
  destruct (dmem k d).
  - split; [split; assumption|]. intros x. split; [tauto|]. intros [H| ->]; [exact H|]. now apply M.
  - assert (~ In k d) by (intros H; apply M in H; discriminate).
    split; [split|].
    + apply Forall_app. split; [exact F|]. constructor; [exact Hk|constructor].
    + apply b_NoDup_snoc; assumption.
    + intros x. rewrite in_app_iff. cbn. split; [intros [?|[?|[]]]|intros [?|?]]; auto.
Qed.

Lemma b_ddel_spec d k : wfh k -> WD d -> In k d ->
  exists d', ddel d k = Ok d' /\ WD d' /\ forall x, In x d' <-> In x d /\ x <> k.
Proof.
  intros Hk (F & N). induction d as [|a l IH]; intros Hin; [destruct Hin|].
  inversion F as [|? ? Ha Fl]; subst. inversion N as [|? ? Na Nl]; subst. cbn [ddel].
  pose proof (key_eqb_iff k a Hk Ha) as E. destruct (key_eqb k a).
  - assert (k = a) by now apply E. subst a. exists l. split; [reflexivity|]. split; [split; assumption|].
    intros x. split.
    + intros Hx. split; [now right|]. intros ->. contradiction.
    + intros [[<-|Hx] Hne]; [congruence|exact Hx].
  - assert (Hne: k <> a) by (intros ->; destruct E as [_ E]; specialize (E eq_refl); discriminate).
    destruct Hin as [->|Hin]; [congruence|].
    destruct (IH Fl Nl Hin) as (l' & E' & (F' & N') & M'). exists (a :: l'). rewrite E'. cbn [bind].
    split; [reflexivity|]. split; [split|].
    + constructor; assumption.
    + constructor; [|assumption]. intros H. apply M' in H. tauto.
    + intros x. cbn [In]. rewrite M'. split.
      * intros [<-|[Hx Hn]]; [split; [now left|congruence]|split; [now right|exact Hn]].
      * intros [[<-|Hx] Hn]; [now left|right; tauto].
Qed.

Lemma b_fold_dset_spec l : forall d, Forall wfh l -> WD d ->
  WD (fold_left dset l d) /\ forall x, In x (fold_left dset l d) <-> In x d \/ In x l.
Proof.
  induction l as [|k l IH]; intros d Fl Wd; cbn [fold_left].
  - split; [exact Wd|]. intros x. cbn. tauto.
  - inversion Fl as [|? ? Hk Fl']; subst.
    destruct (b_dset_spec d k Hk Wd) as (W1 & M1).
    destruct (IH (dset d k) Fl' W1) as (W2 & M2). split; [exact W2|].
    intros x. rewrite M2, M1. cbn [In]. split; [intros [[?|?]|?]|intros [?|[?|?]]]; auto.
Qed.

Lemma b_ddel_all_spec ks : forall d, Forall wfh ks -> NoDup ks -> incl ks d -> WD d ->
  exists d', ddel_all d ks = Ok d' /\ WD d' /\ forall x, In x d' <-> In x d /\ ~ In x ks.
Proof.
  induction ks as [|k ks IH]; intros d Fk Nk Inc Wd; cbn [ddel_all].
  - exists d. split; [reflexivity|split; [exact Wd|]]. intros x. cbn. tauto.
  - inversion Fk as [|? ? Hk Fk']; subst. inversion Nk as [|? ? Nk1 Nk2]; subst.
    destruct (b_ddel_spec d k Hk Wd (Inc k (or_introl eq_refl))) as (d1 & E1 & W1 & M1).
    rewrite E1. cbn [bind].
    destruct (IH d1 Fk' Nk2) as (d2 & E2 & W2 & M2); [|exact W1|].
    { intros x Hx. apply M1. split; [apply Inc; now right|]. intros ->. contradiction. }
    exists d2. split; [exact E2|split; [exact W2|]]. intros x. rewrite M2, M1. cbn [In]. split.
    + intros [[A B] C]. split; [exact A|]. intros [<-|D]; [congruence|contradiction].
    + intros [A B]. split; [split; [exact A|]|]; intros H; apply B; auto.
Qed.

Lemma den_ext d d' : (forall x, In x d' <-> In x d) -> forall ver z, den d' ver z <-> den d ver z.
Proof. intros M ver z. unfold den. split; intros (n & Hn & I); exists n; (split; [apply M; exact Hn|exact I]). Qed.

Lemma WD_nil : WD [].
Proof. split; constructor. Qed.

(* ================================================================ 2. sibling / parent algebra *)
Lemma siblings_iff a b :
  siblings a b <-> nver a = nver b /\ nplen a = nplen b /\ nf b = nf a + nS a /\ (2 * nS a | nf a).
Proof. unfold siblings, sib, net_blk, bsize, nS, nw; cbn [bv bp]. tauto. Qed.

Lemma floor2_of_multiple v h : 0 <= h -> (2 ^ h | v) -> floor2 v h = v.
Proof. intros Hh D. pose proof (floor2_add_small v 0 h Hh D) as E. rewrite Z.add_0_r in E. apply E.
  pose proof (pow2_pos h Hh). lia. Qed.

(* building a host-bit-free network from its first address *)
Lemma mk_wfh ver v p : valid_ver ver = true -> 0 <= p <= width ver -> 0 <= v ->
  (2 ^ (width ver - p) | v) -> v + 2 ^ (width ver - p) <= 2 ^ width ver ->
  let n := {| nver := ver; nval := v; nplen := p |} in
  wfh n /\ nf n = v /\ nl n = v + 2 ^ (width ver - p) - 1.
Proof.
  intros Hv Hp H0 D Hi n.
  pose proof (pow2_pos (width ver - p) ltac:(lia)) as PS.
  assert (W: wf_net n) by (unfold wf_net, n; cbn [nver nval nplen]; split; [exact Hv|split; lia]).
  assert (F: nf n = v).
  { rewrite (nf_eq n W). unfold n; cbn [nver nval nplen]. apply floor2_of_multiple; [lia|exact D]. }
  split; [split; [exact W|unfold hostfree; rewrite F; reflexivity]|]. split; [exact F|].
  rewrite (nl_eq n W), F. reflexivity.
Qed.

Lemma bit_cases v h : 0 <= h -> (2 ^ h | v) ->
  (Z.land (Z.shiftr v h) 1 = 0 /\ (2 * 2 ^ h | v)) \/ (Z.land (Z.shiftr v h) 1 = 1 /\ (2 * 2 ^ h | v - 2 ^ h)).
Proof.
  intros Hh [k Hk]. pose proof (pow2_pos h Hh) as PS.
  rewrite Z.shiftr_div_pow2 by exact Hh. subst v. rewrite Z.div_mul by lia.
  assert (LE: Z.land k 1 = k mod 2) by (change 1 with (Z.ones 1); rewrite Z.land_ones by lia; reflexivity).
  rewrite LE.
  pose proof (Z.mod_pos_bound k 2 ltac:(lia)) as B. pose proof (Z.div_mod k 2 ltac:(lia)) as E.
  destruct (Z.eq_dec (k mod 2) 0) as [Z0|Z1]; [left|right]; (split; [lia|]); exists (k / 2); nia.
Qed.

Lemma odd_even_clash S x : 0 < S -> (2 * S | x) -> (2 * S | x + S) -> False.
Proof.
  intros HS [k Hk] [m Hm]. assert (E: S * (2 * m - 2 * k - 1) = 0) by lia.
  apply Z.mul_eq_0 in E. lia.
Qed.

Definition parent_of (a : net) : net :=
  let sw' := nw a - nplen a + 1 in
  {| nver := nver a; nval := Z.shiftl (Z.shiftr (nval a) sw') sw'; nplen := nplen a - 1 |}.
Definition cand_of (a : net) : outcome net :=
  if Z.land (Z.shiftr (nval a) (nw a - nplen a)) 1 =? 0 then net_next a else net_previous a.

Lemma net_next_ok a : wfh a -> nf a + 2 * nS a <= 2 ^ nw a ->
  net_next a = Ok {| nver := nver a; nval := nf a + nS a; nplen := nplen a |}.
Proof.
  intros H Hi. destruct (wfh_view a H) as (Hv & Hp & PS & D & F0 & L & Hi1 & V).
  pose proof H as ((_ & Hval & _) & _).
  unfold net_next. fold (nw a). rewrite (net_network_eq (nw a) (nval a) (nplen a) Hp Hval).
  rewrite (net_size_eq (nw a) (nval a) (nplen a) Hp Hval). fold (nS a).
  assert (E: floor2 (nval a) (nw a - nplen a) = nf a) by (symmetry; apply nf_eq, H). rewrite E.
  unfold max_int_w. rewrite Z.mul_1_r.
  destruct (Z.gtb_spec (nf a + nS a + (nS a - 1)) (2 ^ nw a - 1)); [lia|].
  case_ltb (nf a + nS a) 0; [lia|reflexivity].
Qed.

Lemma net_previous_ok a : wfh a -> nS a <= nf a ->
  net_previous a = Ok {| nver := nver a; nval := nf a - nS a; nplen := nplen a |}.
Proof.
  intros H Hi. destruct (wfh_view a H) as (Hv & Hp & PS & D & F0 & L & Hi1 & V).
  pose proof H as ((_ & Hval & _) & _).
  unfold net_previous. fold (nw a). rewrite (net_network_eq (nw a) (nval a) (nplen a) Hp Hval).
  rewrite (net_size_eq (nw a) (nval a) (nplen a) Hp Hval). fold (nS a).
  assert (E: floor2 (nval a) (nw a - nplen a) = nf a) by (symmetry; apply nf_eq, H). rewrite E.
  unfold max_int_w. rewrite Z.mul_1_r.
  case_ltb (nf a - nS a) 0; [lia|].
  destruct (Z.gtb_spec (nf a - nS a + (nS a - 1)) (2 ^ nw a - 1)); [lia|reflexivity].
Qed.

(* one round of the sibling-merge loop, in terms of addresses *)
Lemma step_facts a : wfh a -> nplen a <> 0 ->
  exists c, cand_of a = Ok c /\ wfh c /\ wfh (parent_of a) /\ nplen (parent_of a) = nplen a - 1 /\
    nver (parent_of a) = nver a /\ c <> a /\
    (forall ver z, in_net (parent_of a) ver z <-> in_net a ver z \/ in_net c ver z) /\
    (forall y, wfh y -> siblings a y \/ siblings y a -> y = c).
Proof.
  intros H Hp0. destruct (wfh_view a H) as (Hv & Hp & PS & D & F0 & L & Hi & V).
  set (h := nw a - nplen a) in *. assert (Hh: 0 <= h) by (unfold h; lia).
  assert (HS: nS a = 2 ^ h) by reflexivity.
  assert (D2: (2 * nS a | 2 ^ nw a)).
  { rewrite HS. rewrite <- pow2_succ by lia. apply pow2_divide. unfold h. lia. }
  assert (P2: 2 ^ (nw a - (nplen a - 1)) = 2 * nS a).
  { rewrite HS. replace (nw a - (nplen a - 1)) with (h + 1) by (unfold h; lia). apply pow2_succ; lia. }
  assert (PV: nval (parent_of a) = floor2 (nf a) (h + 1)).
  { unfold parent_of; cbn [nval]. fold h. rewrite shiftr_shiftl_floor by lia. rewrite V. reflexivity. }
  assert (PU: forall b, (2 * nS a | b) -> b <= nf a < b + 2 * nS a -> floor2 (nf a) (h + 1) = b).
  { intros b Db Ib. symmetry. apply floor2_unique; [lia| |].
    - rewrite pow2_succ by lia. rewrite <- HS. exact Db.
    - rewrite pow2_succ by lia. rewrite <- HS. exact Ib. }
  assert (PW: forall b, (2 * nS a | b) -> 0 <= b -> b <= nf a < b + 2 * nS a -> b + 2 * nS a <= 2 ^ nw a ->
     wfh (parent_of a) /\ nf (parent_of a) = b /\ nl (parent_of a) = b + 2 * nS a - 1).
  { intros b Db B0 Ib Bi.
    assert (EP: parent_of a = {| nver := nver a; nval := b; nplen := nplen a - 1 |}).
    { pose proof PV as PV'. rewrite (PU b Db Ib) in PV'. unfold parent_of in *. cbn [nval] in PV'. rewrite PV'. reflexivity. }
    rewrite EP. rewrite <- P2. apply mk_wfh; fold (nw a); try rewrite P2; try assumption; lia. }
  unfold cand_of. fold h. rewrite V.
  destruct (bit_cases (nf a) h Hh D) as [(B & Dv)|(B & Dv)]; rewrite B; rewrite <- HS in Dv.
  - (* left child: the sibling is the next block *)
    change (0 =? 0) with true. cbv iota.
    assert (Hi2: nf a + 2 * nS a <= 2 ^ nw a).
    { destruct Dv as [k Hk]. destruct D2 as [m Hm]. rewrite Hk, Hm in *. assert (k < m) by nia. nia. }
    rewrite (net_next_ok a H Hi2).
    destruct (mk_wfh (nver a) (nf a + nS a) (nplen a) Hv Hp ltac:(lia)) as (Wc & Fc & Lc); fold (nw a) (nS a).
    { apply Z.divide_add_r; [exact D|apply Z.divide_refl]. } { lia. }
    fold (nw a) (nS a) in Lc.
    set (c := {| nver := nver a; nval := nf a + nS a; nplen := nplen a |}) in *.
    destruct (PW (nf a) Dv F0 ltac:(lia) Hi2) as (Wp & Fp & Lp).
    exists c. split; [reflexivity|]. split; [exact Wc|]. split; [exact Wp|]. split; [reflexivity|].
    split; [reflexivity|]. split; [intros E; rewrite E in Fc; lia|]. split.
    + intros ver z. unfold in_net. rewrite Fp, Lp, Fc, Lc, L. change (nver (parent_of a)) with (nver a).
      change (nver c) with (nver a). split; [intros (E & I)|intros [(E & I)|(E & I)]]; try (split; [exact E|lia]).
      destruct (Z_lt_le_dec z (nf a + nS a)); [left|right]; (split; [exact E|lia]).
    + intros y Hy Sy. destruct (wfh_view y Hy) as (_ & _ & PSy & Dy & _ & Ly & _).
      destruct Sy as [Sy|Sy]; destruct (proj1 (siblings_iff _ _) Sy) as (E1 & E2 & E3 & E4).
      * assert (nS y = nS a) by (unfold nS, nw; rewrite <- E1, <- E2; reflexivity).
        apply wfh_eq; [exact Hy|exact Wc|symmetry; exact E1|lia|lia].
      * exfalso. assert (ES: nS y = nS a) by (unfold nS, nw; rewrite E1, E2; reflexivity).
        rewrite ES in *. apply (odd_even_clash (nS a) (nf y) PS E4). replace (nf y + nS a) with (nf a) by lia. exact Dv.
  - (* right child: the sibling is the previous block *)
    change (1 =? 0) with false. cbv iota.
    assert (Hi2: nS a <= nf a).
    { destruct (Z.eq_dec (nf a) 0) as [Z0|NZ].
      - exfalso. apply (odd_even_clash (nS a) (nf a - nS a) PS Dv).
        replace (nf a - nS a + nS a) with 0 by lia. apply Z.divide_0_r.
      - destruct D as [m Hm]. assert (0 < m) by nia. nia. }
    rewrite (net_previous_ok a H Hi2).
    destruct (mk_wfh (nver a) (nf a - nS a) (nplen a) Hv Hp ltac:(lia)) as (Wc & Fc & Lc); fold (nw a) (nS a).
    { apply Z.divide_sub_r; [exact D|apply Z.divide_refl]. } { lia. }
    fold (nw a) (nS a) in Lc.
    set (c := {| nver := nver a; nval := nf a - nS a; nplen := nplen a |}) in *.
    destruct (PW (nf a - nS a) Dv ltac:(lia) ltac:(lia) ltac:(lia)) as (Wp & Fp & Lp).
    exists c. split; [reflexivity|]. split; [exact Wc|]. split; [exact Wp|]. split; [reflexivity|].
    split; [reflexivity|]. split; [intros E; rewrite E in Fc; lia|]. split.
    + intros ver z. unfold in_net. rewrite Fp, Lp, Fc, Lc, L. change (nver (parent_of a)) with (nver a).
      change (nver c) with (nver a). split; [intros (E & I)|intros [(E & I)|(E & I)]]; try (split; [exact E|lia]).
      destruct (Z_lt_le_dec z (nf a)); [right|left]; (split; [exact E|lia]).
    + intros y Hy Sy. destruct (wfh_view y Hy) as (_ & _ & PSy & Dy & _ & Ly & _).
      destruct Sy as [Sy|Sy]; destruct (proj1 (siblings_iff _ _) Sy) as (E1 & E2 & E3 & E4).
      * exfalso. apply (odd_even_clash (nS a) (nf a - nS a) PS Dv). replace (nf a - nS a + nS a) with (nf a) by lia. exact E4.
      * assert (ES: nS y = nS a) by (unfold nS, nw; rewrite E1, E2; reflexivity).
        apply wfh_eq; [exact Hy|exact Wc|exact E1|lia|lia].
Qed.

Lemma net_eq_dec (x y : net) : {x = y} + {x <> y}.
Proof. decide equality; apply Z.eq_dec. Qed.

(* a /0 block has no sibling inside the address space *)
Lemma no_sibling_of_root a y : wfh a -> wfh y -> nplen a = 0 -> siblings a y \/ siblings y a -> False.
Proof.
  intros Ha Hy P0 Sy.
  destruct (wfh_view a Ha) as (_ & _ & PSa & _ & F0a & _ & Hia & _).
  destruct (wfh_view y Hy) as (_ & _ & PSy & _ & F0y & _ & Hiy & _).
  destruct Sy as [Sy|Sy]; destruct (proj1 (siblings_iff _ _) Sy) as (E1 & E2 & E3 & E4).
  - assert (nS a = 2 ^ nw a) by (unfold nS; rewrite P0; f_equal; lia).
    assert (nw y = nw a) by (unfold nw; now rewrite E1). rewrite H0 in *. lia.
  - assert (nS y = 2 ^ nw y) by (unfold nS; rewrite E2, P0; f_equal; lia).
    assert (nw y = nw a) by (unfold nw; now rewrite E1). rewrite H0 in *. lia.
Qed.

(* ================================================================ 3. the sibling-merge loop *)
Lemma merge_up_S f d a :
  merge_up (S f) d a (nw a - nplen a) =
  if nplen a =? 0 then Ok d
  else do c <- cand_of a;
       if negb (dmem c d) then Ok d
       else do d1 <- ddel d c; do d2 <- ddel d1 a;
            merge_up f (dset d2 (parent_of a)) (parent_of a) (nw a - nplen a + 1).
Proof. reflexivity. Qed.

Lemma merge_up_spec : forall fuel d added,
  Z.of_nat fuel > nplen added -> WD d -> PDisj d -> In added d ->
  (forall x y, In x d -> In y d -> siblings x y -> x = added \/ y = added) ->
  exists d', merge_up fuel d added (nw added - nplen added) = Ok d' /\ SetInv' d' /\
    forall ver z, den d' ver z <-> den d ver z.
Proof.
  induction fuel as [|f IH]; intros d a Hf Wd Pd Ia HS.
  { exfalso. destruct Wd as (Fd & _). rewrite Forall_forall in Fd.
    destruct (wfh_view a (Fd a Ia)) as (_ & Hp & _). cbn in Hf. lia. }
  pose proof Wd as (Fd & Nd). pose proof Fd as Fd'. rewrite Forall_forall in Fd'.
  pose proof (Fd' a Ia) as Wa.
  rewrite merge_up_S. destruct (Z.eqb_spec (nplen a) 0) as [E0|E0].
  - exists d. split; [reflexivity|]. split; [|tauto]. split; [exact Wd|split; [exact Pd|]].
    intros x y Hx Hy Sxy. destruct (HS x y Hx Hy Sxy) as [->| ->].
    + apply (no_sibling_of_root a y Wa (Fd' y Hy) E0). now left.
    + apply (no_sibling_of_root a x Wa (Fd' x Hx) E0). now right.
  - destruct (step_facts a Wa E0) as (c & Ec & Wc & Wp & Pp & Pv & Nca & Pden & Uniq).
    rewrite Ec. cbn [bind]. pose proof (b_dmem_iff c d Wc Fd) as M. destruct (dmem c d); cbn [negb].
    + assert (Ic: In c d) by now apply M.
      destruct (b_ddel_spec d c Wc Wd Ic) as (d1 & E1 & W1 & M1). rewrite E1. cbn [bind].
      assert (Ia1: In a d1) by (apply M1; split; [exact Ia|congruence]).
      destruct (b_ddel_spec d1 a Wa W1 Ia1) as (d2 & E2 & W2 & M2). rewrite E2. cbn [bind].
      destruct (b_dset_spec d2 (parent_of a) Wp W2) as (W3 & M3).
      set (par := parent_of a) in *. set (d3 := dset d2 par) in *.
      assert (M2': forall x, In x d2 <-> In x d /\ x <> c /\ x <> a).
      { intros x. rewrite M2, M1. tauto. }
      assert (Hpar: forall y, In y d -> y <> c -> y <> a -> ~ overlap par y).
      { intros y Iy N1 N2 (ver & z & I1 & I2). apply Pden in I1. destruct I1 as [I1|I1].
        - apply (Pd a y Ia Iy); [congruence|]. exists ver, z. tauto.
        - apply (Pd c y Ic Iy); [congruence|]. exists ver, z. tauto. }
      replace (nw a - nplen a + 1) with (nw par - nplen par)
        by (rewrite Pp; unfold nw; rewrite Pv; lia).
      destruct (IH d3 par) as (d' & Ed & Inv & Den).
      * rewrite Pp. lia.
      * exact W3.
      * intros x y Hx Hy Nxy Ov. apply M3 in Hx. apply M3 in Hy.
        destruct Hx as [Hx| ->], Hy as [Hy| ->].
        -- apply M2' in Hx. apply M2' in Hy. apply (Pd x y); tauto.
        -- apply M2' in Hx. apply (Hpar x); try tauto. apply overlap_sym. exact Ov.
        -- apply M2' in Hy. apply (Hpar y); tauto.
        -- congruence.
      * apply M3. now right.
      * intros x y Hx Hy Sxy. apply M3 in Hx. apply M3 in Hy.
        destruct Hx as [Hx| ->]; [|now left]. destruct Hy as [Hy| ->]; [|now right].
        apply M2' in Hx. apply M2' in Hy. exfalso. destruct (HS x y) as [?|?]; tauto.
      * exists d'. split; [exact Ed|split; [exact Inv|]]. intros ver z. rewrite Den. unfold den. split.
        -- intros (n & Hn & I). apply M3 in Hn. destruct Hn as [Hn| ->].
           ++ exists n. split; [apply M2' in Hn; tauto|exact I].
           ++ apply Pden in I. destruct I as [I|I]; [exists a|exists c]; tauto.
        -- intros (n & Hn & I). destruct (net_eq_dec n c) as [->|N1]; [|destruct (net_eq_dec n a) as [->|N2]].
           ++ exists par. split; [apply M3; now right|]. apply Pden. now right.
           ++ exists par. split; [apply M3; now right|]. apply Pden. now left.
           ++ exists n. split; [apply M3; left; apply M2'; tauto|exact I].
    + exists d. split; [reflexivity|]. split; [|tauto]. split; [exact Wd|split; [exact Pd|]].
      assert (Nc: ~ In c d) by (intros I; apply M in I; discriminate).
      intros x y Hx Hy Sxy. apply Nc. destruct (HS x y Hx Hy Sxy) as [->| ->].
      * rewrite <- (Uniq y (Fd' y Hy)); [exact Hy|now left].
      * rewrite <- (Uniq x (Fd' x Hx)); [exact Hx|now right].
Qed.
