(* Proofs/C06_add.v — property C06, part B: the incremental mutators of IPSet keep the stored dict canonical.
   compact_single (= IPSet._compact_single_network), set_add, remove_one / set_remove, set_pop of Model/Sets.v
   against the order-free invariant SetInv of Proofs/NetDen.v. *)
From NV Require Import Base.Tac Base.PyVal Base.Bits Base.Canon Model.Ip Model.Partition Model.Span Model.Merge
  Model.Sets Proofs.C02 Proofs.C09 Proofs.NetDen.
From Coq Require Import Sorting.Sorted Sorting.Permutation.
Open Scope Z_scope.

(* ================================================================ 0. one network, in plain arithmetic *)
Definition nw (n : net) : Z := width (nver n).
Definition nS (n : net) : Z := 2 ^ (nw n - nplen n).

Lemma wfh_view n : wfh n ->
  valid_ver (nver n) = true /\ 0 <= nplen n <= nw n /\ 0 < nS n /\ (nS n | nf n) /\ 0 <= nf n /\
  nl n = nf n + nS n - 1 /\ nf n + nS n <= 2 ^ nw n /\ nval n = nf n.
Proof.
  intros (W & H). unfold hostfree in H. pose proof W as (Hv & Hval & Hp). unfold nS, nw.
  pose proof (first_last_in_range (width (nver n)) (nval n) (nplen n) Hp Hval) as (R1 & R2).
  rewrite (nl_eq n W). rewrite (nf_eq n W) in *.
  split; [exact Hv|]. split; [exact Hp|]. split; [apply pow2_pos; lia|].
  split; [apply floor2_divide; lia|]. split; [exact R1|]. split; [reflexivity|]. split; [lia|exact H].
Qed.

Lemma wf_view n : wf_net n ->
  valid_ver (nver n) = true /\ 0 <= nplen n <= nw n /\ 0 < nS n /\ (nS n | nf n) /\ 0 <= nf n /\
  nl n = nf n + nS n - 1 /\ nf n + nS n <= 2 ^ nw n /\ nf n <= nval n <= nl n.
Proof.
  intros W. pose proof W as (Hv & Hval & Hp). unfold nS, nw.
  pose proof (first_last_in_range (width (nver n)) (nval n) (nplen n) Hp Hval) as (R1 & R2).
  pose proof (floor2_bounds (nval n) (width (nver n) - nplen n) ltac:(lia)) as FB.
  rewrite (nl_eq n W). rewrite (nf_eq n W) in *.
  split; [exact Hv|]. split; [exact Hp|]. split; [apply pow2_pos; lia|].
  split; [apply floor2_divide; lia|]. split; [exact R1|]. split; [reflexivity|]. split; [lia|lia].
Qed.

Lemma nw_nonneg n : 0 <= nw n.
Proof. apply width_nonneg. Qed.

Lemma wfh_eq x y : wfh x -> wfh y -> nver x = nver y -> nf x = nf y -> nl x = nl y -> x = y.
Proof.
  intros Hx Hy Ev Ef El.
  destruct (wfh_view x Hx) as (_ & Px & _ & _ & _ & Lx & _ & Vx).
  destruct (wfh_view y Hy) as (_ & Py & _ & _ & _ & Ly & _ & Vy).
  assert (ES: nS x = nS y) by lia. unfold nS, nw in ES, Px, Py. rewrite Ev in ES, Px.
  apply Z.pow_inj_r in ES; try lia.
  destruct x as [vx ax px], y as [vy ay py]; cbn [nver nval nplen] in *. f_equal; lia.
Qed.

Lemma key_eqb_iff x y : wfh x -> wfh y -> (key_eqb x y = true <-> x = y).
Proof.
  intros Hx Hy. unfold key_eqb. rewrite !andb_true_iff, !Z.eqb_eq. split.
  - intros [[E1 E2] E3]. apply wfh_eq; assumption.
  - intros ->. auto.
Qed.

Lemma key_eqb_false x y : wfh x -> wfh y -> (key_eqb x y = false <-> x <> y).
Proof.
  intros Hx Hy. pose proof (key_eqb_iff x y Hx Hy) as K. destruct (key_eqb x y).
  - split; [discriminate|]. intros N. exfalso. apply N. now apply K.
  - split; [|reflexivity]. intros _ E. apply K in E. discriminate.
Qed.

(* a well-formed network is not empty *)
Lemma in_net_first n : wfh n -> in_net n (nver n) (nf n).
Proof. intros H. destruct (wfh_view n H) as (_ & _ & PS & _ & _ & L & _). unfold in_net. lia. Qed.

Lemma overlap_iff x y : wfh x -> wfh y ->
  (overlap x y <-> nver x = nver y /\ nf x <= nl y /\ nf y <= nl x).
Proof.
  intros Hx Hy.
  destruct (wfh_view x Hx) as (_ & _ & PSx & _ & _ & Lx & _).
  destruct (wfh_view y Hy) as (_ & _ & PSy & _ & _ & Ly & _).
  unfold overlap, in_net. split.
  - intros (ver & z & (E1 & I1) & (E2 & I2)). split; [congruence|lia].
  - intros (E & A & B). exists (nver x), (Z.max (nf x) (nf y)). split; (split; [congruence|lia]).
Qed.

Lemma overlap_sym x y : overlap x y -> overlap y x.
Proof. intros (ver & z & A & B). exists ver, z. tauto. Qed.

Lemma overlap_refl x : wfh x -> overlap x x.
Proof. intros H. exists (nver x), (nf x). split; apply in_net_first; exact H. Qed.

(* two aligned blocks of one family are nested or disjoint *)
Lemma nest_or_disj x y : wfh x -> wfh y -> nver x = nver y -> nplen x <= nplen y ->
  (nf x <= nf y /\ nl y <= nl x) \/ nl y < nf x \/ nl x < nf y.
Proof.
  intros Hx Hy Ev Hp.
  destruct (wfh_view x Hx) as (_ & Px & PSx & Dx & _ & Lx & _).
  destruct (wfh_view y Hy) as (_ & Py & PSy & Dy & _ & Ly & _).
  assert (Hdiv: (nS y | nS x)).
  { unfold nS, nw. rewrite Ev. apply pow2_divide. unfold nw in *. rewrite Ev in Px. lia. }
  destruct (Z_lt_le_dec (nl y) (nf x)) as [|A]; [right; left; assumption|].
  destruct (Z_lt_le_dec (nl x) (nf y)) as [|B]; [right; right; assumption|].
  left. pose proof (nested_of_overlap (nS y) (nS x) (nf x) (nf y) PSy Hdiv PSx Dx Dy ltac:(lia) ltac:(lia)). lia.
Qed.

(* containment forces the prefix order *)
Lemma sub_plen x y : wfh x -> wfh y -> nver x = nver y -> nf x <= nf y -> nl y <= nl x -> nplen x <= nplen y.
Proof.
  intros Hx Hy Ev A B.
  destruct (wfh_view x Hx) as (_ & Px & PSx & _ & _ & Lx & _).
  destruct (wfh_view y Hy) as (_ & Py & PSy & _ & _ & Ly & _).
  assert (nS y <= nS x) by lia. unfold nS, nw in *. rewrite Ev in *.
  destruct (Z_le_gt_dec (nplen x) (nplen y)); [assumption|exfalso].
  pose proof (pow2_lt (width (nver y) - nplen x) (width (nver y) - nplen y) ltac:(lia)). lia.
Qed.

(* ================================================================ 1. the dict as a finite set (local copies, b_) *)
Definition PDisj (d : list net) : Prop := forall a b, In a d -> In b d -> a <> b -> ~ overlap a b.
Definition NoSib (d : list net) : Prop := forall a b, In a d -> In b d -> ~ siblings a b.
Definition WD (d : list net) : Prop := Forall wfh d /\ NoDup d.
Definition SetInv' (d : list net) : Prop := WD d /\ PDisj d /\ NoSib d.

Lemma b_SetInv_iff d : SetInv d <-> SetInv' d.
Proof.
  unfold SetInv, SetInv', WD, PDisj, NoSib. split.
  - intros (F & O & S). split; [split; [exact F|]|split; [|exact S]].
    + induction O as [|a l Ha O IH]; constructor.
      * intros Hin. rewrite Forall_forall in Ha. apply (Ha a Hin). apply overlap_refl. now inversion F.
      * apply IH. now inversion F. intros; apply S; now right.
    + intros a b Ha Hb Hab. destruct (ForallOrdPairs_In O a b Ha Hb) as [E|[N|N]]; [congruence|exact N|].
      intros Ov. apply N. apply overlap_sym. exact Ov.
  - intros ((F & N) & P & S). split; [exact F|split; [|exact S]].
    clear S. induction d as [|a l IH]; constructor.
    + rewrite Forall_forall. intros x Hx. apply P; [now left|now right|]. inversion N; subst. congruence.
    + apply IH. now inversion F. now inversion N. intros x y Hx Hy. apply P; now right.
Qed.

Lemma b_dmem_iff k d : wfh k -> Forall wfh d -> (dmem k d = true <-> In k d).
Proof.
  intros Hk F. unfold dmem. rewrite existsb_exists. rewrite Forall_forall in F. split.
  - intros (x & Hx & E). apply key_eqb_iff in E; auto. now subst.
  - intros H. exists k. split; [exact H|]. apply key_eqb_iff; auto.
Qed.

Lemma b_NoDup_snoc {A} (l : list A) k : NoDup l -> ~ In k l -> NoDup (l ++ [k]).
Proof.
  induction l as [|a l IH]; intros N H; cbn.
  - constructor; [intros []|constructor].
  - inversion N; subst. constructor.
    + rewrite in_app_iff. cbn. intros [?|[->|[]]]; [contradiction|]. apply H. now left.
    + apply IH; [assumption|]. intros ?. apply H. now right.
Qed.

Lemma b_dset_spec d k : wfh k -> WD d ->
  WD (dset d k) /\ forall x, In x (dset d k) <-> In x d \/ x = k.
Proof.
  intros Hk (F & N). unfold dset. pose proof (b_dmem_iff k d Hk F) as M.
  destruct (dmem k d).
  - split; [split; assumption|]. intros x. split; [tauto|]. intros [H| ->]; [exact H|]. now apply M.
  - assert (~ In k d) by (intros H; apply M in H; discriminate).
    split; [split|].
    + apply Forall_app. split; [exact F|]. constructor; [exact Hk|constructor].
    + apply b_NoDup_snoc; assumption.
    + intros x. rewrite in_app_iff. cbn. split; [intros [?|[?|[]]]|intros [?|?]]; auto.
Qed.

Lemma b_ddel_spec d k : wfh k -> WD d -> In k d ->
  exists d', ddel d k = Ok d' /\ WD d' /\ forall x, In x d' <-> In x d /\ x <> k.
Proof.
  intros Hk (F & N). induction d as [|a l IH]; intros Hin; [destruct Hin|].
  inversion F as [|? ? Ha Fl]; subst. inversion N as [|? ? Na Nl]; subst. cbn [ddel].
  pose proof (key_eqb_iff k a Hk Ha) as E. destruct (key_eqb k a).
  - assert (k = a) by now apply E. subst a. exists l. split; [reflexivity|]. split; [split; assumption|].
    intros x. split.
    + intros Hx. split; [now right|]. intros ->. contradiction.
    + intros [[<-|Hx] Hne]; [congruence|exact Hx].
  - assert (Hne: k <> a) by (intros ->; destruct E as [_ E]; specialize (E eq_refl); discriminate).
    destruct Hin as [->|Hin]; [congruence|].
    destruct (IH Fl Nl Hin) as (l' & E' & (F' & N') & M'). exists (a :: l'). rewrite E'. cbn [bind].
    split; [reflexivity|]. split; [split|].
    + constructor; assumption.
    + constructor; [|assumption]. intros H. apply M' in H. tauto.
    + intros x. cbn [In]. rewrite M'. split.
      * intros [<-|[Hx Hn]]; [split; [now left|congruence]|split; [now right|exact Hn]].
      * intros [[<-|Hx] Hn]; [now left|right; tauto].
Qed.

Lemma b_fold_dset_spec l : forall d, Forall wfh l -> WD d ->
  WD (fold_left dset l d) /\ forall x, In x (fold_left dset l d) <-> In x d \/ In x l.
Proof.
  induction l as [|k l IH]; intros d Fl Wd; cbn [fold_left].
  - split; [exact Wd|]. intros x. cbn. tauto.
  - inversion Fl as [|? ? Hk Fl']; subst.
    destruct (b_dset_spec d k Hk Wd) as (W1 & M1).
    destruct (IH (dset d k) Fl' W1) as (W2 & M2). split; [exact W2|].
    intros x. rewrite M2, M1. cbn [In]. split; [intros [[?|?]|?]|intros [?|[?|?]]]; auto.
Qed.

Lemma b_ddel_all_spec ks : forall d, Forall wfh ks -> NoDup ks -> incl ks d -> WD d ->
  exists d', ddel_all d ks = Ok d' /\ WD d' /\ forall x, In x d' <-> In x d /\ ~ In x ks.
Proof.
  induction ks as [|k ks IH]; intros d Fk Nk Inc Wd; cbn [ddel_all].
  - exists d. split; [reflexivity|split; [exact Wd|]]. intros x. cbn. tauto.
  - inversion Fk as [|? ? Hk Fk']; subst. inversion Nk as [|? ? Nk1 Nk2]; subst.
    destruct (b_ddel_spec d k Hk Wd (Inc k (or_introl eq_refl))) as (d1 & E1 & W1 & M1).
    rewrite E1. cbn [bind].
    destruct (IH d1 Fk' Nk2) as (d2 & E2 & W2 & M2); [|exact W1|].
    { intros x Hx. apply M1. split; [apply Inc; now right|]. intros ->. contradiction. }
    exists d2. split; [exact E2|split; [exact W2|]]. intros x. rewrite M2, M1. cbn [In]. split.
    + intros [[A B] C]. split; [exact A|]. intros [<-|D]; [congruence|contradiction].
    + intros [A B]. split; [split; [exact A|]|]; intros H; apply B; auto.
Qed.

Lemma den_ext d d' : (forall x, In x d' <-> In x d) -> forall ver z, den d' ver z <-> den d ver z.
Proof. intros M ver z. unfold den. split; intros (n & Hn & I); exists n; (split; [apply M; exact Hn|exact I]). Qed.

Lemma WD_nil : WD [].
Proof. split; constructor. Qed.

(* ================================================================ 2. sibling / parent algebra *)
Lemma siblings_iff a b :
  siblings a b <-> nver a = nver b /\ nplen a = nplen b /\ nf b = nf a + nS a /\ (2 * nS a | nf a).
Proof. unfold siblings, sib, net_blk, bsize, nS, nw; cbn [bv bp]. tauto. Qed.

Lemma floor2_of_multiple v h : 0 <= h -> (2 ^ h | v) -> floor2 v h = v.
Proof. intros Hh D. pose proof (floor2_add_small v 0 h Hh D) as E. rewrite Z.add_0_r in E. apply E.
  pose proof (pow2_pos h Hh). lia. Qed.

(* building a host-bit-free network from its first address *)
Lemma mk_wfh ver v p : valid_ver ver = true -> 0 <= p <= width ver -> 0 <= v ->
  (2 ^ (width ver - p) | v) -> v + 2 ^ (width ver - p) <= 2 ^ width ver ->
  let n := {| nver := ver; nval := v; nplen := p |} in
  wfh n /\ nf n = v /\ nl n = v + 2 ^ (width ver - p) - 1.
Proof.
  intros Hv Hp H0 D Hi n.
  pose proof (pow2_pos (width ver - p) ltac:(lia)) as PS.
  assert (W: wf_net n) by (unfold wf_net, n; cbn [nver nval nplen]; split; [exact Hv|split; lia]).
  assert (F: nf n = v).
  { rewrite (nf_eq n W). unfold n; cbn [nver nval nplen]. apply floor2_of_multiple; [lia|exact D]. }
  split; [split; [exact W|unfold hostfree; rewrite F; reflexivity]|]. split; [exact F|].
  rewrite (nl_eq n W), F. reflexivity.
Qed.

Lemma bit_cases v h : 0 <= h -> (2 ^ h | v) ->
  (Z.land (Z.shiftr v h) 1 = 0 /\ (2 * 2 ^ h | v)) \/ (Z.land (Z.shiftr v h) 1 = 1 /\ (2 * 2 ^ h | v - 2 ^ h)).
Proof.
  intros Hh [k Hk]. pose proof (pow2_pos h Hh) as PS.
  rewrite Z.shiftr_div_pow2 by exact Hh. subst v. rewrite Z.div_mul by lia.
  assert (LE: Z.land k 1 = k mod 2) by (change 1 with (Z.ones 1); rewrite Z.land_ones by lia; reflexivity).
  rewrite LE.
  pose proof (Z.mod_pos_bound k 2 ltac:(lia)) as B. pose proof (Z.div_mod k 2 ltac:(lia)) as E.
  destruct (Z.eq_dec (k mod 2) 0) as [Z0|Z1]; [left|right]; (split; [lia|]); exists (k / 2); nia.
Qed.

Lemma odd_even_clash S x : 0 < S -> (2 * S | x) -> (2 * S | x + S) -> False.
Proof.
  intros HS [k Hk] [m Hm]. assert (E: S * (2 * m - 2 * k - 1) = 0) by lia.
  apply Z.mul_eq_0 in E. lia.
Qed.

Definition parent_of (a : net) : net :=
  let sw' := nw a - nplen a + 1 in
  {| nver := nver a; nval := Z.shiftl (Z.shiftr (nval a) sw') sw'; nplen := nplen a - 1 |}.
Definition cand_of (a : net) : outcome net :=
  if Z.land (Z.shiftr (nval a) (nw a - nplen a)) 1 =? 0 then net_next a else net_previous a.

Lemma net_next_ok a : wfh a -> nf a + 2 * nS a <= 2 ^ nw a ->
  net_next a = Ok {| nver := nver a; nval := nf a + nS a; nplen := nplen a |}.
Proof.
  intros H Hi. destruct (wfh_view a H) as (Hv & Hp & PS & D & F0 & L & Hi1 & V).
  pose proof H as ((_ & Hval & _) & _).
  unfold net_next. fold (nw a). rewrite (net_network_eq (nw a) (nval a) (nplen a) Hp Hval).
  rewrite (net_size_eq (nw a) (nval a) (nplen a) Hp Hval). fold (nS a).
  assert (E: floor2 (nval a) (nw a - nplen a) = nf a) by (symmetry; apply nf_eq, H). rewrite E.
  unfold max_int_w. rewrite Z.mul_1_r.
  destruct (Z.gtb_spec (nf a + nS a + (nS a - 1)) (2 ^ nw a - 1)); [lia|].
  case_ltb (nf a + nS a) 0; [lia|reflexivity].
Qed.

Lemma net_previous_ok a : wfh a -> nS a <= nf a ->
  net_previous a = Ok {| nver := nver a; nval := nf a - nS a; nplen := nplen a |}.
Proof.
  intros H Hi. destruct (wfh_view a H) as (Hv & Hp & PS & D & F0 & L & Hi1 & V).
  pose proof H as ((_ & Hval & _) & _).
  unfold net_previous. fold (nw a). rewrite (net_network_eq (nw a) (nval a) (nplen a) Hp Hval).
  rewrite (net_size_eq (nw a) (nval a) (nplen a) Hp Hval). fold (nS a).
  assert (E: floor2 (nval a) (nw a - nplen a) = nf a) by (symmetry; apply nf_eq, H). rewrite E.
  unfold max_int_w. rewrite Z.mul_1_r.
  case_ltb (nf a - nS a) 0; [lia|].
  destruct (Z.gtb_spec (nf a - nS a + (nS a - 1)) (2 ^ nw a - 1)); [lia|reflexivity].
Qed.

(* one round of the sibling-merge loop, in terms of addresses *)
Lemma step_facts a : wfh a -> nplen a <> 0 ->
  exists c, cand_of a = Ok c /\ wfh c /\ wfh (parent_of a) /\ nplen (parent_of a) = nplen a - 1 /\
    nver (parent_of a) = nver a /\ c <> a /\
    (forall ver z, in_net (parent_of a) ver z <-> in_net a ver z \/ in_net c ver z) /\
    (forall y, wfh y -> siblings a y \/ siblings y a -> y = c).
Proof.
  intros H Hp0. destruct (wfh_view a H) as (Hv & Hp & PS & D & F0 & L & Hi & V).
  set (h := nw a - nplen a) in *. assert (Hh: 0 <= h) by (unfold h; lia).
  assert (HS: nS a = 2 ^ h) by reflexivity.
  assert (D2: (2 * nS a | 2 ^ nw a)).
  { rewrite HS. rewrite <- pow2_succ by lia. apply pow2_divide. unfold h. lia. }
  assert (P2: 2 ^ (nw a - (nplen a - 1)) = 2 * nS a).
  { rewrite HS. replace (nw a - (nplen a - 1)) with (h + 1) by (unfold h; lia). apply pow2_succ; lia. }
  assert (PV: nval (parent_of a) = floor2 (nf a) (h + 1)).
  { unfold parent_of; cbn [nval]. fold h. rewrite shiftr_shiftl_floor by lia. rewrite V. reflexivity. }
  assert (PU: forall b, (2 * nS a | b) -> b <= nf a < b + 2 * nS a -> floor2 (nf a) (h + 1) = b).
  { intros b Db Ib. symmetry. apply floor2_unique; [lia| |].
    - rewrite pow2_succ by lia. rewrite <- HS. exact Db.
    - rewrite pow2_succ by lia. rewrite <- HS. exact Ib. }
  assert (PW: forall b, (2 * nS a | b) -> 0 <= b -> b <= nf a < b + 2 * nS a -> b + 2 * nS a <= 2 ^ nw a ->
     wfh (parent_of a) /\ nf (parent_of a) = b /\ nl (parent_of a) = b + 2 * nS a - 1).
  { intros b Db B0 Ib Bi.
    assert (EP: parent_of a = {| nver := nver a; nval := b; nplen := nplen a - 1 |}).
    { pose proof PV as PV'. rewrite (PU b Db Ib) in PV'. unfold parent_of in *. cbn [nval] in PV'. rewrite PV'. reflexivity. }
    rewrite EP. rewrite <- P2. apply mk_wfh; fold (nw a); try rewrite P2; try assumption; lia. }
  unfold cand_of. fold h. rewrite V.
  destruct (bit_cases (nf a) h Hh D) as [(B & Dv)|(B & Dv)]; rewrite B; rewrite <- HS in Dv.
  - (* left child: the sibling is the next block *)
    change (0 =? 0) with true. cbv iota.
    assert (Hi2: nf a + 2 * nS a <= 2 ^ nw a).
    { destruct Dv as [k Hk]. destruct D2 as [m Hm]. rewrite Hk, Hm in *. assert (k < m) by nia. nia. }
    rewrite (net_next_ok a H Hi2).
    destruct (mk_wfh (nver a) (nf a + nS a) (nplen a) Hv Hp ltac:(lia)) as (Wc & Fc & Lc); fold (nw a) (nS a).
    { apply Z.divide_add_r; [exact D|apply Z.divide_refl]. } { lia. }
    fold (nw a) (nS a) in Lc.
    set (c := {| nver := nver a; nval := nf a + nS a; nplen := nplen a |}) in *.
    destruct (PW (nf a) Dv F0 ltac:(lia) Hi2) as (Wp & Fp & Lp).
    exists c. split; [reflexivity|]. split; [exact Wc|]. split; [exact Wp|]. split; [reflexivity|].
    split; [reflexivity|]. split; [intros E; rewrite E in Fc; lia|]. split.
    + intros ver z. unfold in_net. rewrite Fp, Lp, Fc, Lc, L. change (nver (parent_of a)) with (nver a).
      change (nver c) with (nver a). split; [intros (E & I)|intros [(E & I)|(E & I)]]; try (split; [exact E|lia]).
      destruct (Z_lt_le_dec z (nf a + nS a)); [left|right]; (split; [exact E|lia]).
    + intros y Hy Sy. destruct (wfh_view y Hy) as (_ & _ & PSy & Dy & _ & Ly & _).
      destruct Sy as [Sy|Sy]; destruct (proj1 (siblings_iff _ _) Sy) as (E1 & E2 & E3 & E4).
      * assert (nS y = nS a) by (unfold nS, nw; rewrite <- E1, <- E2; reflexivity).
        apply wfh_eq; [exact Hy|exact Wc|symmetry; exact E1|lia|lia].
      * exfalso. assert (ES: nS y = nS a) by (unfold nS, nw; rewrite E1, E2; reflexivity).
        rewrite ES in *. apply (odd_even_clash (nS a) (nf y) PS E4). replace (nf y + nS a) with (nf a) by lia. exact Dv.
  - (* right child: the sibling is the previous block *)
    change (1 =? 0) with false. cbv iota.
    assert (Hi2: nS a <= nf a).
    { destruct (Z.eq_dec (nf a) 0) as [Z0|NZ].
      - exfalso. apply (odd_even_clash (nS a) (nf a - nS a) PS Dv).
        replace (nf a - nS a + nS a) with 0 by lia. apply Z.divide_0_r.
      - destruct D as [m Hm]. assert (0 < m) by nia. nia. }
    rewrite (net_previous_ok a H Hi2).
    destruct (mk_wfh (nver a) (nf a - nS a) (nplen a) Hv Hp ltac:(lia)) as (Wc & Fc & Lc); fold (nw a) (nS a).
    { apply Z.divide_sub_r; [exact D|apply Z.divide_refl]. } { lia. }
    fold (nw a) (nS a) in Lc.
    set (c := {| nver := nver a; nval := nf a - nS a; nplen := nplen a |}) in *.
    destruct (PW (nf a - nS a) Dv ltac:(lia) ltac:(lia) ltac:(lia)) as (Wp & Fp & Lp).
    exists c. split; [reflexivity|]. split; [exact Wc|]. split; [exact Wp|]. split; [reflexivity|].
    split; [reflexivity|]. split; [intros E; rewrite E in Fc; lia|]. split.
    + intros ver z. unfold in_net. rewrite Fp, Lp, Fc, Lc, L. change (nver (parent_of a)) with (nver a).
      change (nver c) with (nver a). split; [intros (E & I)|intros [(E & I)|(E & I)]]; try (split; [exact E|lia]).
      destruct (Z_lt_le_dec z (nf a)); [right|left]; (split; [exact E|lia]).
    + intros y Hy Sy. destruct (wfh_view y Hy) as (_ & _ & PSy & Dy & _ & Ly & _).
      destruct Sy as [Sy|Sy]; destruct (proj1 (siblings_iff _ _) Sy) as (E1 & E2 & E3 & E4).
      * exfalso. apply (odd_even_clash (nS a) (nf a - nS a) PS Dv). replace (nf a - nS a + nS a) with (nf a) by lia. exact E4.
      * assert (ES: nS y = nS a) by (unfold nS, nw; rewrite E1, E2; reflexivity).
        apply wfh_eq; [exact Hy|exact Wc|exact E1|lia|lia].
Qed.

Lemma net_eq_dec (x y : net) : {x = y} + {x <> y}.
Proof. decide equality; apply Z.eq_dec. Qed.

(* a /0 block has no sibling inside the address space *)
Lemma no_sibling_of_root a y : wfh a -> wfh y -> nplen a = 0 -> siblings a y \/ siblings y a -> False.
Proof.
  intros Ha Hy P0 Sy.
  destruct (wfh_view a Ha) as (_ & _ & PSa & _ & F0a & _ & Hia & _).
  destruct (wfh_view y Hy) as (_ & _ & PSy & _ & F0y & _ & Hiy & _).
  destruct Sy as [Sy|Sy]; destruct (proj1 (siblings_iff _ _) Sy) as (E1 & E2 & E3 & E4).
  - assert (nS a = 2 ^ nw a) by (unfold nS; rewrite P0; f_equal; lia).
    assert (nw y = nw a) by (unfold nw; now rewrite E1). rewrite H0 in *. lia.
  - assert (nS y = 2 ^ nw y) by (unfold nS; rewrite E2, P0; f_equal; lia).
    assert (nw y = nw a) by (unfold nw; now rewrite E1). rewrite H0 in *. lia.
Qed.

(* ================================================================ 3. the sibling-merge loop *)
Lemma merge_up_S f d a :
  merge_up (S f) d a (nw a - nplen a) =
  if nplen a =? 0 then Ok d
  else do c <- cand_of a;
       if negb (dmem c d) then Ok d
       else do d1 <- ddel d c; do d2 <- ddel d1 a;
            merge_up f (dset d2 (parent_of a)) (parent_of a) (nw a - nplen a + 1).
Proof. reflexivity. Qed.

Lemma merge_up_spec : forall fuel d added,
  Z.of_nat fuel > nplen added -> WD d -> PDisj d -> In added d ->
  (forall x y, In x d -> In y d -> siblings x y -> x = added \/ y = added) ->
  exists d', merge_up fuel d added (nw added - nplen added) = Ok d' /\ SetInv' d' /\
    forall ver z, den d' ver z <-> den d ver z.
Proof.
  induction fuel as [|f IH]; intros d a Hf Wd Pd Ia HS.
  { exfalso. destruct Wd as (Fd & _). rewrite Forall_forall in Fd.
    destruct (wfh_view a (Fd a Ia)) as (_ & Hp & _). cbn in Hf. lia. }
  pose proof Wd as (Fd & Nd). pose proof Fd as Fd'. rewrite Forall_forall in Fd'.
  pose proof (Fd' a Ia) as Wa.
  rewrite merge_up_S. destruct (Z.eqb_spec (nplen a) 0) as [E0|E0].
  - exists d. split; [reflexivity|]. split; [|tauto]. split; [exact Wd|split; [exact Pd|]].
    intros x y Hx Hy Sxy. destruct (HS x y Hx Hy Sxy) as [->| ->].
    + apply (no_sibling_of_root a y Wa (Fd' y Hy) E0). now left.
    + apply (no_sibling_of_root a x Wa (Fd' x Hx) E0). now right.
  - destruct (step_facts a Wa E0) as (c & Ec & Wc & Wp & Pp & Pv & Nca & Pden & Uniq).
    rewrite Ec. cbn [bind]. pose proof (b_dmem_iff c d Wc Fd) as M. destruct (dmem c d); cbn [negb].
    + assert (Ic: In c d) by now apply M.
      destruct (b_ddel_spec d c Wc Wd Ic) as (d1 & E1 & W1 & M1). rewrite E1. cbn [bind].
      assert (Ia1: In a d1) by (apply M1; split; [exact Ia|congruence]).
      destruct (b_ddel_spec d1 a Wa W1 Ia1) as (d2 & E2 & W2 & M2). rewrite E2. cbn [bind].
      destruct (b_dset_spec d2 (parent_of a) Wp W2) as (W3 & M3).
      set (par := parent_of a) in *. set (d3 := dset d2 par) in *.
      assert (M2': forall x, In x d2 <-> In x d /\ x <> c /\ x <> a).
      { intros x. rewrite M2, M1. tauto. }
      assert (Hpar: forall y, In y d -> y <> c -> y <> a -> ~ overlap par y).
      { intros y Iy N1 N2 (ver & z & I1 & I2). apply Pden in I1. destruct I1 as [I1|I1].
        - apply (Pd a y Ia Iy); [congruence|]. exists ver, z. tauto.
        - apply (Pd c y Ic Iy); [congruence|]. exists ver, z. tauto. }
      replace (nw a - nplen a + 1) with (nw par - nplen par)
        by (rewrite Pp; unfold nw; rewrite Pv; lia).
      destruct (IH d3 par) as (d' & Ed & Inv & Den).
      * rewrite Pp. lia.
      * exact W3.
      * intros x y Hx Hy Nxy Ov. apply M3 in Hx. apply M3 in Hy.
        destruct Hx as [Hx| ->], Hy as [Hy| ->].
        -- apply M2' in Hx. apply M2' in Hy. apply (Pd x y); tauto.
        -- apply M2' in Hx. apply (Hpar x); try tauto. apply overlap_sym. exact Ov.
        -- apply M2' in Hy. apply (Hpar y); tauto.
        -- congruence.
      * apply M3. now right.
      * intros x y Hx Hy Sxy. apply M3 in Hx. apply M3 in Hy.
        destruct Hx as [Hx| ->]; [|now left]. destruct Hy as [Hy| ->]; [|now right].
        apply M2' in Hx. apply M2' in Hy. exfalso. destruct (HS x y) as [?|?]; tauto.
      * exists d'. split; [exact Ed|split; [exact Inv|]]. intros ver z. rewrite Den. unfold den. split.
        -- intros (n & Hn & I). apply M3 in Hn. destruct Hn as [Hn| ->].
           ++ exists n. split; [apply M2' in Hn; tauto|exact I].
           ++ apply Pden in I. destruct I as [I|I]; [exists a|exists c]; tauto.
        -- intros (n & Hn & I). destruct (net_eq_dec n c) as [->|N1]; [|destruct (net_eq_dec n a) as [->|N2]].
           ++ exists par. split; [apply M3; now right|]. apply Pden. now right.
           ++ exists par. split; [apply M3; now right|]. apply Pden. now left.
           ++ exists n. split; [apply M3; left; apply M2'; tauto|exact I].
    + exists d. split; [reflexivity|]. split; [|tauto]. split; [exact Wd|split; [exact Pd|]].
      assert (Nc: ~ In c d) by (intros I; apply M in I; discriminate).
      intros x y Hx Hy Sxy. apply Nc. destruct (HS x y Hx Hy Sxy) as [->| ->].
      * rewrite <- (Uniq y (Fd' y Hy)); [exact Hy|now left].
      * rewrite <- (Uniq x (Fd' x Hx)); [exact Hx|now right].
Qed.

(* ================================================================ 4. .cidr, supernet(), the subnet scan *)
Lemma ncidr_facts n : wf_net n ->
  wfh (ncidr n) /\ nver (ncidr n) = nver n /\ nplen (ncidr n) = nplen n /\ nf (ncidr n) = nf n /\ nl (ncidr n) = nl n.
Proof.
  intros W. pose proof W as (Hv & Hval & Hp).
  destruct (wf_view n W) as (_ & _ & PS & D & F0 & L & Hi & _).
  assert (E: ncidr n = {| nver := nver n; nval := nf n; nplen := nplen n |}).
  { unfold ncidr. rewrite (net_cidr_eq (width (nver n)) (nval n) (nplen n) Hp Hval). cbn [fst snd].
    rewrite <- (nf_eq n W). reflexivity. }
  rewrite E. destruct (mk_wfh (nver n) (nf n) (nplen n) Hv Hp F0 D Hi) as (A & B & C).
  split; [exact A|]. split; [reflexivity|]. split; [reflexivity|]. split; [exact B|]. rewrite C, L. reflexivity.
Qed.

Lemma ncidr_id a : wfh a -> ncidr a = a.
Proof.
  intros H. pose proof H as (W & _). destruct (ncidr_facts a W) as (A & B & C & D & E).
  apply wfh_eq; assumption.
Qed.

Lemma in_net_ncidr n ver z : wf_net n -> (in_net (ncidr n) ver z <-> in_net n ver z).
Proof. intros W. destruct (ncidr_facts n W) as (_ & B & _ & D & E). unfold in_net. rewrite B, D, E. tauto. Qed.

Definition sup_at (n : net) (r : Z) : net := ncidr {| nver := nver n; nval := nval (ncidr n); nplen := r |}.

Lemma supernets_from_spec n : forall fuel q, 0 <= q <= nplen n -> Z.of_nat fuel > nplen n - q ->
  forall s, In s (supernets_from fuel n q) <-> exists r, q <= r < nplen n /\ s = sup_at n r.
Proof.
  induction fuel as [|f IH]; intros q Hq Hf s; [cbn in Hf; lia|].
  cbn [supernets_from]. destruct (Z.eqb_spec q (nplen n)) as [E|E].
  - split; [intros []|]. intros (r & Hr & _). lia.
  - cbn [In]. rewrite (IH (q + 1)) by lia. fold (sup_at n q). split.
    + intros [<-|(r & Hr & Es)]; [exists q; split; [lia|reflexivity]|exists r; split; [lia|exact Es]].
    + intros (r & Hr & Es). destruct (Z.eq_dec r q) as [->|N]; [left; now symmetry|right; exists r; split; [lia|exact Es]].
Qed.

Lemma supernets_spec a : wfh a ->
  forall s, In s (supernets a) <-> exists r, 0 <= r < nplen a /\ s = sup_at a r.
Proof.
  intros H s. destruct (wfh_view a H) as (_ & Hp & _). unfold supernets. apply supernets_from_spec; lia.
Qed.

Lemma sup_at_facts a r : wfh a -> 0 <= r < nplen a ->
  wfh (sup_at a r) /\ nver (sup_at a r) = nver a /\ nplen (sup_at a r) = r /\
  nf (sup_at a r) = floor2 (nf a) (nw a - r).
Proof.
  intros H Hr. destruct (wfh_view a H) as (Hv & Hp & PS & D & F0 & L & Hi & V).
  unfold sup_at. rewrite (ncidr_id a H).
  set (X := {| nver := nver a; nval := nval a; nplen := r |}).
  assert (WX: wf_net X).
  { unfold wf_net, X; cbn [nver nval nplen]. split; [exact Hv|]. fold (nw a). split; lia. }
  destruct (ncidr_facts X WX) as (A & B & C & E & _).
  split; [exact A|]. split; [exact B|]. split; [exact C|]. rewrite E, (nf_eq X WX).
  unfold X; cbn [nver nval nplen]. rewrite V. reflexivity.
Qed.

(* a stored strict supernet of a host is found by the supernet walk *)
Lemma supernets_complete a k : wfh a -> wfh k -> nver k = nver a -> nplen k < nplen a ->
  nf k <= nf a <= nl k -> In k (supernets a).
Proof.
  intros Ha Hk Ev Hp I. apply supernets_spec; [exact Ha|].
  destruct (wfh_view k Hk) as (_ & Pk & PSk & Dk & _ & Lk & _).
  exists (nplen k). split; [lia|].
  destruct (sup_at_facts a (nplen k) Ha ltac:(lia)) as (A & B & C & E).
  assert (Ew: nw k = nw a) by (unfold nw; now rewrite Ev).
  assert (EF: nf (sup_at a (nplen k)) = nf k).
  { rewrite E. symmetry. apply floor2_unique; [lia| |].
    - rewrite <- Ew. exact Dk.
    - rewrite <- Ew. fold (nS k). lia. }
  apply wfh_eq; [exact Hk|exact A|congruence|congruence|].
  destruct (wfh_view _ A) as (_ & _ & _ & _ & _ & Ls & _).
  rewrite Lk, Ls, EF. unfold nS, nw. rewrite B, C, Ev. reflexivity.
Qed.

Lemma supernets_sound a s : wfh a -> nplen a = nw a -> In s (supernets a) ->
  wfh s /\ nver s = nver a /\ nplen s < nplen a /\ nf s <= nf a /\ nl a <= nl s.
Proof.
  intros Ha Hh Is. apply supernets_spec in Is; [|exact Ha]. destruct Is as (r & Hr & ->).
  destruct (sup_at_facts a r Ha Hr) as (A & B & C & E).
  destruct (wfh_view a Ha) as (_ & Hp & PS & _ & _ & L & _).
  destruct (wfh_view _ A) as (_ & _ & _ & _ & _ & Ls & _).
  assert (S1: nS a = 1) by (unfold nS; rewrite Hh, Z.sub_diag; reflexivity).
  pose proof (floor2_bounds (nf a) (nw a - r) ltac:(lia)) as FB.
  split; [exact A|]. split; [exact B|]. split; [lia|].
  assert (ES: nS (sup_at a r) = 2 ^ (nw a - r)) by (unfold nS, nw; rewrite B, C; reflexivity).
  rewrite Ls, E, ES. lia.
Qed.

Definition subb (a x : net) : bool :=
  negb (negb (nver x =? nver a) || key_eqb x a) && ((nf x >=? nf a) && (nl x <=? nl a)).

Lemma scan_false a : forall d acc tr, scan_subnets d a acc = (false, tr) ->
  tr = acc ++ filter (subb a) d /\
  forall k, In k d -> nver k = nver a -> key_eqb k a = false -> nf k <= nf a -> nl k >= nl a ->
    nf k >= nf a /\ nl k <= nl a.
Proof.
  induction d as [|c r IH]; intros acc tr E; cbn [scan_subnets] in E.
  - inversion E; subst. cbn. rewrite app_nil_r. split; [reflexivity|intros k []].
  - cbn [filter]. unfold subb at 1.
    destruct (negb (nver c =? nver a) || key_eqb c a) eqn:E1; cbn [negb andb].
    + destruct (IH _ _ E) as (A & B). split; [exact A|]. intros k [<-|Hk] Ev Ek; [|apply B; assumption].
      exfalso. rewrite Ev, Z.eqb_refl, Ek in E1. discriminate.
    + destruct ((nf c >=? nf a) && (nl c <=? nl a)) eqn:E2.
      * destruct (IH _ _ E) as (A & B). split; [rewrite A, <- app_assoc; reflexivity|].
        intros k [<-|Hk] Ev Ek; [|apply B; assumption]. intros _ _. lia.
      * destruct ((nf c <=? nf a) && (nl c >=? nl a)) eqn:E3; [discriminate|].
        destruct (IH _ _ E) as (A & B). split; [exact A|].
        intros k [<-|Hk] Ev Ek; [|apply B; assumption]. intros. lia.
Qed.

Lemma scan_true a : forall d acc tr, scan_subnets d a acc = (true, tr) ->
  exists k l, In k d /\ nver k = nver a /\ key_eqb k a = false /\ nf k <= nf a /\ nl k >= nl a /\
    ~ (nf k >= nf a /\ nl k <= nl a) /\ tr = acc ++ l /\ forall x, In x l -> In x d /\ subb a x = true.
Proof.
  induction d as [|c r IH]; intros acc tr E; cbn [scan_subnets] in E; [discriminate|].
  destruct (negb (nver c =? nver a) || key_eqb c a) eqn:E1.
  - destruct (IH _ _ E) as (k & l & A1 & A2 & A3 & A4 & A5 & A6 & A7 & A8).
    exists k, l. repeat (split; [first [assumption|now right]|]). intros x Hx. destruct (A8 x Hx). split; [now right|assumption].
  - destruct ((nf c >=? nf a) && (nl c <=? nl a)) eqn:E2.
    + destruct (IH _ _ E) as (k & l & A1 & A2 & A3 & A4 & A5 & A6 & A7 & A8).
      exists k, (c :: l). repeat (split; [first [assumption|now right]|]).
      split; [rewrite A7, <- app_assoc; reflexivity|].
      intros x [<-|Hx]; [split; [now left|unfold subb; rewrite E1, E2; reflexivity]|].
      destruct (A8 x Hx). split; [now right|assumption].
    + destruct ((nf c <=? nf a) && (nl c >=? nl a)) eqn:E3.
      * inversion E; subst. exists c, []. apply orb_false_iff in E1. destruct E1 as (E1 & E1').
        split; [now left|]. split; [lia|]. split; [exact E1'|]. split; [lia|]. split; [lia|]. split; [lia|].
        split; [now rewrite app_nil_r|intros x []].
      * destruct (IH _ _ E) as (k & l & A1 & A2 & A3 & A4 & A5 & A6 & A7 & A8).
        exists k, l. repeat (split; [first [assumption|now right]|]). intros x Hx. destruct (A8 x Hx). split; [now right|assumption].
Qed.

(* ================================================================ 5. _compact_single_network *)
Definition subn (x a : net) : Prop := nver x = nver a /\ nf a <= nf x /\ nl x <= nl a.

Lemma subn_dec x a : {subn x a} + {~ subn x a}.
Proof.
  unfold subn. destruct (Z.eq_dec (nver x) (nver a)), (Z_le_dec (nf a) (nf x)), (Z_le_dec (nl x) (nl a));
    (left; tauto) || (right; tauto).
Qed.

Lemma subb_iff a x : wfh a -> wfh x -> (subb a x = true <-> subn x a /\ x <> a).
Proof.
  intros Ha Hx. unfold subb, subn. pose proof (key_eqb_iff x a Hx Ha) as K.
  destruct (key_eqb x a).
  - rewrite orb_true_r. cbn. split; [discriminate|]. intros (_ & N). exfalso. apply N. now apply K.
  - rewrite orb_false_r. split.
    + intros E. split; [lia|]. intros ->. destruct K as [_ K]. specialize (K eq_refl). discriminate.
    + intros ((A & B & C) & _). lia.
Qed.

Lemma SetInv'_ext d d' : WD d' -> (forall x, In x d' <-> In x d) -> SetInv' d -> SetInv' d'.
Proof.
  intros W M (_ & P & S). split; [exact W|split].
  - intros x y Hx Hy. apply P; apply M; assumption.
  - intros x y Hx Hy. apply S; apply M; assumption.
Qed.

Lemma strict_super_plen k a : wfh k -> wfh a -> nver k = nver a -> nf k <= nf a -> nl a <= nl k -> k <> a ->
  nplen k < nplen a.
Proof.
  intros Hk Ha Ev A B N. pose proof (sub_plen k a Hk Ha Ev A B) as LE.
  destruct (Z.eq_dec (nplen k) (nplen a)) as [E|]; [exfalso|lia].
  destruct (wfh_view k Hk) as (_ & _ & _ & _ & _ & Lk & _).
  destruct (wfh_view a Ha) as (_ & _ & _ & _ & _ & La & _).
  assert (nS k = nS a) by (unfold nS, nw; now rewrite Ev, E).
  apply N. apply wfh_eq; try assumption; lia.
Qed.

Definition phase1 (d : dict) (added : net) : outcome (bool * dict) :=
  let w := width (nver added) in
  if nplen added =? w then
    (if existsb (fun s => dmem s d) (supernets added)
     then do d' <- ddel d added; Ok (true, d') else Ok (false, d))
  else
    let '(found_super, to_remove) := scan_subnets d added [] in
    if found_super then do d' <- ddel d added; Ok (true, d')
    else do d' <- ddel_all d to_remove; Ok (false, d').

Lemma compact_single_unfold d a :
  compact_single d a =
  do d1 <- phase1 d a;
  let '(finished, d2) := d1 in
  if finished then Ok d2 else merge_up (Z.to_nat (nplen a) + 1) d2 a (nw a - nplen a).
Proof. reflexivity. Qed.

Section CS.
Variables (d0 : list net) (a : net).
Hypothesis Inv0 : SetInv' d0.
Hypothesis Ha : wfh a.
Let d := dset d0 a.

Lemma cs_dset : WD d /\ forall x, In x d <-> In x d0 \/ x = a.
Proof. destruct Inv0 as (W0 & _). apply b_dset_spec; assumption. Qed.

(* a stored strict supernet: the new key is redundant, deleting it restores the old dict *)
Lemma cs_super_case s : In s d0 -> s <> a -> nver s = nver a -> nf s <= nf a -> nl a <= nl s ->
  exists d', ddel d a = Ok d' /\ SetInv' d' /\ forall ver z, den d' ver z <-> den d0 ver z \/ in_net a ver z.
Proof.
  intros Is Ns Ev A B. destruct Inv0 as (W0 & P0 & S0). destruct cs_dset as (Wd & Md).
  pose proof W0 as (F0 & _). rewrite Forall_forall in F0.
  destruct (wfh_view a Ha) as (_ & _ & PSa & _ & _ & La & _).
  assert (Na: ~ In a d0).
  { intros Ia. apply (P0 s a Is Ia Ns). apply overlap_iff; [apply F0, Is|exact Ha|]. split; [exact Ev|lia]. }
  destruct (b_ddel_spec d a Ha Wd) as (d' & E' & W' & M'); [apply Md; now right|].
  assert (M0: forall x, In x d' <-> In x d0).
  { intros x. rewrite M', Md. split; [intros [[?|?] ?]; [assumption|contradiction]|].
    intros Hx. split; [now left|]. intros ->. contradiction. }
  exists d'. split; [exact E'|]. split; [apply (SetInv'_ext d0); [exact W'|exact M0|exact Inv0]|].
  intros ver z. rewrite (den_ext d0 d' M0). split; [tauto|]. intros [H|(E & I)]; [exact H|].
  exists s. split; [exact Is|]. unfold in_net. split; [congruence|lia].
Qed.

(* no stored strict supernet, the stored subnets deleted: ready for the sibling-merge loop *)
Lemma cs_F_case d2 : In a d2 ->
  (forall x, In x d2 -> x = a \/ (In x d0 /\ ~ subn x a)) ->
  (forall x, In x d0 -> ~ subn x a -> In x d2) ->
  (forall k, In k d0 -> k <> a -> nver k = nver a -> ~ (nf k <= nf a /\ nl a <= nl k)) ->
  PDisj d2 /\ (forall x y, In x d2 -> In y d2 -> siblings x y -> x = a \/ y = a) /\
  forall ver z, den d2 ver z <-> den d0 ver z \/ in_net a ver z.
Proof.
  intros Ia H2 H3 H4. destruct Inv0 as (W0 & P0 & S0).
  pose proof W0 as (F0 & _). rewrite Forall_forall in F0.
  assert (Saa: subn a a) by (unfold subn; lia).
  assert (Hdis: forall x, In x d0 -> ~ subn x a -> ~ overlap a x).
  { intros x Ix Nx Ov. pose proof (F0 x Ix) as Hx.
    assert (Nxa: x <> a) by (intros ->; contradiction).
    apply overlap_iff in Ov; [|exact Ha|exact Hx]. destruct Ov as (Ev & O1 & O2).
    destruct (Z_le_gt_dec (nplen a) (nplen x)) as [LE|GT].
    - destruct (nest_or_disj a x Ha Hx Ev LE) as [N|[N|N]]; [|lia|lia]. apply Nx. unfold subn. split; [congruence|lia].
    - destruct (nest_or_disj x a Hx Ha (eq_sym Ev) ltac:(lia)) as [N|[N|N]]; [|lia|lia].
      apply (H4 x Ix Nxa (eq_sym Ev)). lia. }
  split; [|split].
  - intros x y Hx Hy Nxy Ov. destruct (H2 x Hx) as [->|(Ix & Sx)], (H2 y Hy) as [->|(Iy & Sy)].
    + congruence.
    + apply (Hdis y Iy Sy Ov).
    + apply (Hdis x Ix Sx). apply overlap_sym. exact Ov.
    + apply (P0 x y Ix Iy Nxy Ov).
  - intros x y Hx Hy Sxy. destruct (H2 x Hx) as [->|(Ix & Sx)]; [now left|].
    destruct (H2 y Hy) as [->|(Iy & Sy)]; [now right|]. exfalso. apply (S0 x y Ix Iy Sxy).
  - intros ver z. unfold den. split.
    + intros (n & Hn & I). destruct (H2 n Hn) as [->|(In0 & _)]; [now right|left; eauto].
    + intros [(n & Hn & I)|I]; [|exists a; tauto].
      destruct (subn_dec n a) as [(E1 & E2 & E3)|Nn]; [|exists n; split; [apply H3; assumption|exact I]].
      exists a. split; [exact Ia|]. unfold in_net in *. split; [lia|lia].
Qed.

Lemma cs_phase1 : exists fin d2, phase1 d a = Ok (fin, d2) /\
  (forall ver z, den d2 ver z <-> den d0 ver z \/ in_net a ver z) /\
  if fin then SetInv' d2
  else WD d2 /\ PDisj d2 /\ In a d2 /\ (forall x y, In x d2 -> In y d2 -> siblings x y -> x = a \/ y = a).
Proof.
  pose proof Inv0 as (W0 & P0 & S0). destruct cs_dset as (Wd & Md).
  pose proof W0 as (F0 & _). rewrite Forall_forall in F0.
  pose proof Wd as (Fd & Nd). pose proof Fd as Fd'. rewrite Forall_forall in Fd'.
  assert (Iad: In a d) by (apply Md; now right).
  unfold phase1. fold (nw a). destruct (Z.eqb_spec (nplen a) (nw a)) as [Eh|Eh].
  - (* a single address: walk its supernets *)
    destruct (existsb (fun s => dmem s d) (supernets a)) eqn:EX.
    + apply existsb_exists in EX. destruct EX as (s & Is & Ms).
      destruct (supernets_sound a s Ha Eh Is) as (Ws & Ev & Pl & A & B).
      apply (b_dmem_iff s d Ws Fd) in Ms. apply Md in Ms.
      destruct Ms as [Ms| ->]; [|lia].
      destruct (cs_super_case s Ms ltac:(intros ->; lia) Ev A B) as (d' & E' & I' & D').
      rewrite E'. cbn [bind]. exists true, d'. split; [reflexivity|split; [exact D'|exact I']].
    + exists false, d. split; [reflexivity|].
      assert (host_sub: forall x, wfh x -> subn x a -> x = a).
      { intros x Hx (E1 & E2 & E3).
        destruct (wfh_view x Hx) as (_ & _ & PSx & _ & _ & Lx & _).
        destruct (wfh_view a Ha) as (_ & _ & PSa & _ & _ & La & _).
        assert (S1: nS a = 1) by (unfold nS; rewrite Eh, Z.sub_diag; reflexivity).
        apply wfh_eq; try assumption; lia. }
      destruct (cs_F_case d Iad) as (A & B & C).
      * intros x Hx. apply Md in Hx. destruct Hx as [Hx| ->]; [|now left].
        destruct (net_eq_dec x a) as [->|N]; [now left|right]. split; [exact Hx|].
        intros Sx. apply N, host_sub; [apply F0, Hx|exact Sx].
      * intros x Hx _. apply Md. now left.
      * intros k Ik Nk Ev (A & B).
        pose proof (strict_super_plen k a (F0 k Ik) Ha Ev A B Nk) as Pl.
        destruct (wfh_view a Ha) as (_ & _ & PSa & _ & _ & La & _).
        pose proof (supernets_complete a k Ha (F0 k Ik) Ev Pl ltac:(lia)) as Isup.
        assert (T: existsb (fun s => dmem s d) (supernets a) = true).
        { apply existsb_exists. exists k. split; [exact Isup|]. apply b_dmem_iff; [apply F0, Ik|exact Fd|].
          apply Md. now left. }
        rewrite EX in T. discriminate.
      * split; [exact C|]. split; [exact Wd|]. split; [exact A|]. split; [exact Iad|exact B].
  - (* a block: scan the stored keys *)
    destruct (scan_subnets d a []) as [fs tr] eqn:ES. destruct fs.
    + destruct (scan_true a d [] tr ES) as (k & l & Ik & Ev & Ek & A & B & _).
      assert (Nk: k <> a) by (apply key_eqb_false; [apply Fd', Ik|exact Ha|exact Ek]).
      apply Md in Ik. destruct Ik as [Ik|]; [|contradiction].
      destruct (cs_super_case k Ik Nk Ev A ltac:(lia)) as (d' & E' & I' & D').
      rewrite E'. cbn [bind]. exists true, d'. split; [reflexivity|split; [exact D'|exact I']].
    + destruct (scan_false a d [] tr ES) as (Etr & NoSup). cbn [app] in Etr. subst tr.
      destruct (b_ddel_all_spec (filter (subb a) d) d) as (d2 & E2 & W2 & M2).
      * rewrite Forall_forall. intros x Hx. apply filter_In in Hx. apply Fd'. tauto.
      * apply NoDup_filter. exact Nd.
      * intros x Hx. apply filter_In in Hx. tauto.
      * exact Wd.
      * rewrite E2. cbn [bind]. exists false, d2. split; [reflexivity|].
        assert (Ia2: In a d2).
        { apply M2. split; [exact Iad|]. intros Hx. apply filter_In in Hx. destruct Hx as (_ & Hx).
          apply (subb_iff a a Ha Ha) in Hx. tauto. }
        destruct (cs_F_case d2 Ia2) as (A & B & C).
        -- intros x Hx. apply M2 in Hx. destruct Hx as (Hx & Nf). apply Md in Hx.
           destruct Hx as [Hx| ->]; [|now left]. destruct (net_eq_dec x a) as [->|N]; [now left|right].
           split; [exact Hx|]. intros Sx. apply Nf. apply filter_In. split; [apply Md; now left|].
           apply subb_iff; [exact Ha|apply F0, Hx|tauto].
        -- intros x Hx Nx. apply M2. split; [apply Md; now left|]. intros Hf. apply filter_In in Hf.
           destruct Hf as (_ & Hf). apply subb_iff in Hf; [tauto|exact Ha|apply F0, Hx].
        -- intros k Ik Nk Ev (A & B).
           destruct (NoSup k) as (A' & B'); [apply Md; now left|exact Ev| |exact A|lia|].
           { apply key_eqb_false; [apply F0, Ik|exact Ha|exact Nk]. }
           apply Nk. apply wfh_eq; [apply F0, Ik|exact Ha|exact Ev|lia|lia].
        -- split; [exact C|]. split; [exact W2|]. split; [exact A|]. split; [exact Ia2|exact B].
Qed.

Lemma cs_spec' : exists d', compact_single d a = Ok d' /\ SetInv' d' /\
  forall ver z, den d' ver z <-> den d0 ver z \/ in_net a ver z.
Proof.
  destruct cs_phase1 as (fin & d2 & E & D & R). rewrite compact_single_unfold, E. cbn [bind].
  destruct fin.
  - exists d2. split; [reflexivity|split; [exact R|exact D]].
  - destruct R as (W2 & P2 & I2 & S2).
    destruct (wfh_view a Ha) as (_ & Hp & _).
    destruct (merge_up_spec (Z.to_nat (nplen a) + 1) d2 a ltac:(lia) W2 P2 I2 S2) as (d' & E' & I' & D').
    exists d'. split; [exact E'|split; [exact I'|]]. intros ver z. rewrite D'. apply D.
Qed.
End CS.

(* C06_compact_single: after `self._cidrs[a] = True` for a host-bit-free network a on a canonical dict d0,
   _compact_single_network(a) returns normally (no KeyError / IndexError / OutOfFuel), the dict is canonical again
   and denotes den d0 ∪ a.  (Whether a was already stored, lies inside a stored key, covers stored keys or is
   disjoint from all of them needs no hypothesis: aligned blocks are nested or disjoint.) *)
Theorem compact_single_spec d0 a : SetInv d0 -> wfh a ->
  exists d', compact_single (dset d0 a) a = Ok d' /\ SetInv d' /\
    forall ver x, den d' ver x <-> den d0 ver x \/ in_net a ver x.
Proof.
  intros I H. apply b_SetInv_iff in I. destruct (cs_spec' d0 a I H) as (d' & E & I' & D).
  exists d'. split; [exact E|split; [apply b_SetInv_iff; exact I'|exact D]].
Qed.

(* ================================================================ 6. add() *)
Definition add_spec_b : Prop :=
  forall d e, SetInv d -> wf_elem e ->
    exists d', set_add d e = Ok d' /\ SetInv d' /\ forall ver x, den d' ver x <-> den d ver x \/ in_elem e ver x.

Lemma canon_of_ver l v : canon_nets l -> valid_ver v = true -> canon (width v) (fam_blks v l).
Proof.
  intros (_ & _ & C4 & C6) Hv. destruct (width_cases v Hv) as [(-> & _)|(-> & _)]; assumption.
Qed.

Lemma in_fam_blks l x : In x l -> In (net_blk x) (fam_blks (nver x) l).
Proof. intros H. unfold fam_blks, fam. apply in_map. apply filter_In. split; [exact H|apply Z.eqb_refl]. Qed.

(* a canonical list, read as a set of keys *)
Lemma canon_nets_props l : canon_nets l -> Forall wfh l /\ PDisj l /\ NoSib l.
Proof.
  intros C. pose proof C as (F & _). split; [exact F|]. rewrite Forall_forall in F. split.
  - intros x y Hx Hy Nxy (ver & z & I1 & I2).
    pose proof (F x Hx) as Wx. pose proof (F y Hy) as Wy.
    pose proof Wx as (Wx' & _). pose proof Wy as (Wy' & _). pose proof Wx' as (Vx & _).
    assert (Ev: nver y = nver x) by (destruct I1, I2; congruence).
    destruct (canon_of_ver l (nver x) C Vx) as (A & SS & _).
    pose proof (sorted_disj _ _ A SS) as Dj.
    apply in_net_inb in I1; [|exact Wx']. apply in_net_inb in I2; [|exact Wy'].
    destruct I1 as (_ & I1). destruct I2 as (_ & I2). rewrite Ev in I2.
    pose proof (in_fam_blks l x Hx) as Bx. pose proof (in_fam_blks l y Hy) as By_. rewrite Ev in By_.
    pose proof (Dj _ _ z Bx By_ I1 I2) as E. apply Nxy.
    assert (E1: nf x = nf y) by (change (bv (net_blk x) = bv (net_blk y)); now rewrite E).
    assert (E2: nplen x = nplen y) by (change (bp (net_blk x) = bp (net_blk y)); now rewrite E).
    destruct (wfh_view x Wx) as (_ & _ & _ & _ & _ & Lx & _).
    destruct (wfh_view y Wy) as (_ & _ & _ & _ & _ & Ly & _).
    assert (nS x = nS y) by (unfold nS, nw; now rewrite Ev, E2).
    apply wfh_eq; try assumption; [now symmetry|lia].
  - intros x y Hx Hy (Ev & Sb).
    pose proof (F x Hx) as ((Vx & _) & _).
    destruct (canon_of_ver l (nver x) C Vx) as (_ & _ & NS).
    apply (NS (net_blk x) (net_blk y)); [apply in_fam_blks, Hx|rewrite Ev; apply in_fam_blks, Hy|exact Sb].
Qed.

Lemma canon_nets_SetInv' l d : canon_nets l -> WD d -> (forall x, In x d <-> In x l) -> SetInv' d.
Proof.
  intros C W M. destruct (canon_nets_props l C) as (_ & P & S). split; [exact W|split].
  - intros x y Hx Hy. apply P; apply M; assumption.
  - intros x y Hx Hy. apply S; apply M; assumption.
Qed.

Lemma den_items_MNet D ver x : den_items (map MNet D) ver x <-> den D ver x.
Proof.
  unfold den_items, den. split.
  - intros (m & Hm & I). apply in_map_iff in Hm. destruct Hm as (n & <- & Hn). exists n. split; [exact Hn|exact I].
  - intros (n & Hn & I). exists (MNet n). split; [apply in_map; exact Hn|exact I].
Qed.

(* compact(): cidr_merge over the stored keys *)
Lemma b_set_compact_spec : cidr_merge_spec -> forall D, Forall wf_net D ->
  exists d', set_compact D = Ok d' /\ SetInv' d' /\ forall ver x, den d' ver x <-> den D ver x.
Proof.
  intros CM D FD. destruct (CM (map MNet D)) as (cs & E & C & Dn).
  { rewrite Forall_forall in *. intros m Hm. apply in_map_iff in Hm. destruct Hm as (n & <- & Hn). apply FD, Hn. }
  unfold set_compact. rewrite E. cbn [bind]. pose proof C as (Fc & _).
  destruct (b_fold_dset_spec cs [] Fc WD_nil) as (W & M). fold (dfromkeys cs) in W, M.
  assert (M': forall x, In x (dfromkeys cs) <-> In x cs) by (intros x; rewrite M; cbn; tauto).
  exists (dfromkeys cs). split; [reflexivity|]. split; [apply (canon_nets_SetInv' cs); assumption|].
  intros ver x. rewrite (den_ext cs _ M'), Dn. apply den_items_MNet.
Qed.

Lemma addr_net_wfh ver v : valid_ver ver = true -> 0 <= v < 2 ^ width ver ->
  wfh (addr_net ver v) /\ forall ver' x, in_net (addr_net ver v) ver' x <-> ver' = ver /\ x = v.
Proof.
  intros Hv Hr. pose proof (width_nonneg ver) as Hw.
  destruct (mk_wfh ver v (width ver) Hv ltac:(lia) ltac:(lia)) as (A & B & C).
  { rewrite Z.sub_diag. apply Z.divide_1_l. } { rewrite Z.sub_diag. change (2 ^ 0) with 1. lia. }
  rewrite Z.sub_diag in C. change (2 ^ 0) with 1 in C.
  split; [exact A|]. intros ver' x. unfold in_net. fold (addr_net ver v) in B, C. rewrite B, C.
  change (nver (addr_net ver v)) with ver. split; [intros (E & I); split; [now symmetry|lia]|intros (-> & ->); split; [reflexivity|lia]].
Qed.

Lemma net_of_int_spec i : 0 <= i < 2 ^ 128 ->
  exists ver, net_of_int i = Ok (addr_net ver i) /\ valid_ver ver = true /\ 0 <= i < 2 ^ width ver /\
    ((ver = 4 /\ 0 <= i < 2 ^ 32) \/ (ver = 6 /\ 2 ^ 32 <= i < 2 ^ 128)).
Proof.
  intros Hi. unfold net_of_int, addr_of_int.
  assert (M4: max_int 4 = 2 ^ 32 - 1) by reflexivity. assert (M6: max_int 6 = 2 ^ 128 - 1) by reflexivity.
  rewrite M4, M6.
  destruct ((0 <=? i) && (i <=? 2 ^ 32 - 1)) eqn:E1.
  - exists 4. cbn [bind fst snd]. split; [reflexivity|]. split; [reflexivity|]. change (width 4) with 32. split; [lia|left; lia].
  - destruct ((2 ^ 32 - 1 <? i) && (i <=? 2 ^ 128 - 1)) eqn:E2.
    + exists 6. cbn [bind fst snd]. split; [reflexivity|]. split; [reflexivity|]. change (width 6) with 128. split; [lia|right; lia].
    + exfalso. lia.
Qed.

Lemma SetInv_wf d : SetInv' d -> Forall wf_net d.
Proof. intros ((F & _) & _). rewrite Forall_forall in *. intros x Hx. apply F, Hx. Qed.

Theorem add_spec_proof : iprange_to_cidrs_spec -> cidr_merge_spec -> add_spec_b.
Proof.
  intros IR CM d e I We. destruct e as [i|ver v|n|ver s e']; cbn [set_add wf_elem in_elem] in *.
  - destruct (net_of_int_spec i We) as (ver & E & Hv & Hr & Cases). rewrite E. cbn [bind].
    destruct (addr_net_wfh ver i Hv Hr) as (Wa & Ia).
    destruct (compact_single_spec d (addr_net ver i) I Wa) as (d' & E' & I' & D').
    exists d'. split; [exact E'|split; [exact I'|]]. intros ver' x. rewrite D', Ia.
    split; (intros [H|H]; [now left|right]).
    + destruct H as (-> & ->). split; [reflexivity|]. destruct Cases as [(-> & ?)|(-> & ?)]; [left|right]; (split; [reflexivity|assumption]).
    + destruct H as (-> & H). split; [|reflexivity].
      destruct Cases as [(-> & ?)|(-> & ?)], H as [(-> & ?)|(-> & ?)]; try reflexivity; lia.
  - destruct We as (Hv & Hr). destruct (addr_net_wfh ver v Hv Hr) as (Wa & Ia).
    rewrite (ncidr_id _ Wa).
    destruct (compact_single_spec d (addr_net ver v) I Wa) as (d' & E' & I' & D').
    exists d'. split; [exact E'|split; [exact I'|]]. intros ver' x. rewrite D', Ia. tauto.
  - destruct (ncidr_facts n We) as (Wa & _).
    destruct (compact_single_spec d (ncidr n) I Wa) as (d' & E' & I' & D').
    exists d'. split; [exact E'|split; [exact I'|]]. intros ver' x. rewrite D', (in_net_ncidr n ver' x We). tauto.
  - destruct We as (Hv & Hs & He).
    assert (Hr1: 0 <= s < 2 ^ width ver) by lia. assert (Hr2: 0 <= e' < 2 ^ width ver) by lia.
    destruct (addr_net_wfh ver s Hv Hr1) as (W1 & I1). destruct (addr_net_wfh ver e' Hv Hr2) as (W2 & I2).
    destruct (wfh_view _ W1) as (_ & _ & PS1 & _ & _ & L1 & _). destruct (wfh_view _ W2) as (_ & _ & PS2 & _ & _ & L2 & _).
    pose proof (proj1 (I1 _ _) (in_net_first _ W1)) as (_ & F1).
    assert (F2: nl (addr_net ver e') = e').
    { assert (X: in_net (addr_net ver e') ver (nl (addr_net ver e'))) by (unfold in_net; split; [reflexivity|lia]).
      apply I2 in X. tauto. }
    destruct (IR (addr_net ver s) (addr_net ver e')) as (cs & Ecs & Ccs & Dcs);
      [apply W1|apply W2|reflexivity|rewrite F1, F2; lia|].
    rewrite Ecs. cbn [bind]. apply b_SetInv_iff in I. pose proof I as (Wd & _).
    pose proof Ccs as (Fcs & _).
    destruct (b_fold_dset_spec cs [] Fcs WD_nil) as (Wk & Mk). fold (dfromkeys cs) in Wk, Mk.
    destruct (b_fold_dset_spec (dfromkeys cs) d (proj1 Wk) Wd) as (Wu & Mu). fold (dupdate d (dfromkeys cs)) in Wu, Mu.
    destruct (b_set_compact_spec CM (dupdate d (dfromkeys cs))) as (d' & E' & I' & D').
    { destruct Wu as (Fu & _). rewrite Forall_forall in *. intros x Hx. apply Fu, Hx. }
    exists d'. split; [exact E'|split; [apply b_SetInv_iff; exact I'|]].
    intros ver' x. rewrite D'. rewrite <- F1, <- F2. change ver with (nver (addr_net ver s)) at 2.
    rewrite <- Dcs. unfold den. split.
    + intros (n & Hn & In_). apply Mu in Hn. destruct Hn as [Hn|Hn]; [left; eauto|right].
      apply Mk in Hn. destruct Hn as [[]|Hn]. eauto.
    + intros [(n & Hn & In_)|(n & Hn & In_)]; exists n; (split; [apply Mu|exact In_]); [now left|right].
      apply Mk. now right.
Qed.

(* ================================================================ 7. remove() *)
Definition remove_spec_b : Prop :=
  forall d e, SetInv d -> wf_elem e ->
    exists d', set_remove d e = Ok d' /\ SetInv d' /\ forall ver x, den d' ver x <-> den d ver x /\ ~ in_elem e ver x.

(* `other in self` for two IPNetwork objects = interval inclusion within one family *)
Lemma net_in_net_iff other self : wf_net other -> wf_net self ->
  (net_in_net other self = true <-> nver self = nver other /\ nf self <= nf other /\ nl other <= nl self).
Proof.
  intros Wo Ws.
  destruct (wf_view other Wo) as (_ & Po & PSo & Do & _ & Lo & _ & Vo).
  destruct (wf_view self Ws) as (_ & Ps & PSs & Ds & _ & Ls & _ & Vs).
  unfold net_in_net. fold (nw self). destruct (Z.eqb_spec (nver self) (nver other)) as [Ev|Ev]; cbn [negb].
  2:{ split; [discriminate|]. intros (E & _). contradiction. }
  assert (Ew: nw other = nw self) by (unfold nw; now rewrite Ev).
  rewrite andb_true_iff, Z.eqb_eq, Z.leb_le, shiftr_eq_iff by lia.
  fold (nw self) in *. assert (EF: floor2 (nval self) (nw self - nplen self) = nf self) by (symmetry; apply nf_eq, Ws).
  rewrite EF. split.
  - intros (E & Hp). split; [exact Ev|].
    pose proof (floor2_bounds (nval other) (nw self - nplen self) ltac:(lia)) as FB. rewrite E in FB. fold (nS self) in FB.
    assert (Hdiv: (nS other | nS self)) by (unfold nS; rewrite Ew; apply pow2_divide; lia).
    pose proof (nested_of_overlap (nS other) (nS self) (nf self) (nf other) PSo Hdiv PSs Ds Do ltac:(lia) ltac:(lia)). lia.
  - intros (_ & A & B). assert (Hp: nplen self <= nplen other).
    { assert (nS other <= nS self) by lia. unfold nS in H. rewrite Ew in H.
      destruct (Z_le_gt_dec (nplen self) (nplen other)); [assumption|exfalso].
      pose proof (pow2_lt (nw self - nplen self) (nw self - nplen other) ltac:(lia)). lia. }
    split; [|exact Hp]. symmetry. apply floor2_unique; [lia|exact Ds|]. fold (nS self). lia.
Qed.

Lemma find_container_some d addr c : find_container d addr = Some c -> In c d /\ net_in_net addr c = true.
Proof.
  induction d as [|x r IH]; cbn [find_container]; [discriminate|].
  destruct (net_in_net addr x) eqn:E.
  - intros H. inversion H; subst. split; [now left|exact E].
  - intros H. destruct (IH H). split; [now right|assumption].
Qed.

Lemma find_container_none d addr : find_container d addr = None -> forall c, In c d -> net_in_net addr c = false.
Proof.
  induction d as [|x r IH]; cbn [find_container]; [intros _ c []|].
  destruct (net_in_net addr x) eqn:E; [discriminate|]. intros H c [<-|Hc]; [exact E|apply IH; assumption].
Qed.

(* lemma L: an aligned block covered by a canonical dict lies inside one stored key *)
Lemma cover_one_key d a : SetInv' d -> wfh a -> (forall z, in_net a (nver a) z -> den d (nver a) z) ->
  exists B, In B d /\ nver B = nver a /\ nf B <= nf a /\ nl a <= nl B.
Proof.
  intros ((Fd & _) & _ & NS) Ha Cov. rewrite Forall_forall in Fd.
  pose proof Ha as (Wa & _). destruct (wfh_view a Ha) as (_ & Pa & PSa & _ & _ & La & _).
  set (v := nver a) in *. set (w := width v).
  assert (Hw: 0 <= w) by apply width_nonneg.
  assert (InF: forall b, In b (fam_blks v d) -> exists n, In n d /\ nver n = v /\ b = net_blk n).
  { intros b Hb. unfold fam_blks, fam in Hb. apply in_map_iff in Hb. destruct Hb as (n & <- & Hn).
    apply filter_In in Hn. destruct Hn as (Hn & E). exists n. split; [exact Hn|split; [lia|reflexivity]]. }
  destruct (L_cover w Hw (fam_blks v d)) with (h := Z.to_nat (w - nplen a)) (X := net_blk a) as (B & HB & SB).
  - intros b Hb. destruct (InF b Hb) as (n & Hn & Ev & ->). unfold w. rewrite <- Ev. apply net_blk_aligned, Fd, Hn.
  - intros b1 b2 H1 H2 Sb. destruct (InF b1 H1) as (n1 & Hn1 & Ev1 & ->). destruct (InF b2 H2) as (n2 & Hn2 & Ev2 & ->).
    apply (NS n1 n2 Hn1 Hn2). split; [congruence|]. rewrite Ev1. exact Sb.
  - apply net_blk_aligned. exact Wa.
  - cbn [net_blk bp]. unfold nw in Pa. fold v in Pa. fold w in Pa. lia.
  - intros x Hx. destruct (Cov x) as (n & Hn & I).
    { apply in_net_inb; [exact Wa|]. split; [reflexivity|exact Hx]. }
    pose proof I as (Ev & _). exists (net_blk n). split.
    + rewrite <- Ev. apply in_fam_blks, Hn.
    + apply in_net_inb in I; [|apply Fd, Hn]. destruct I as (_ & I). rewrite Ev in I. exact I.
  - destruct (InF B HB) as (n & Hn & Ev & ->). exists n. split; [exact Hn|split; [exact Ev|]].
    destruct (wfh_view n (Fd n Hn)) as (_ & _ & PSn & _ & _ & Ln & _).
    assert (ESa: 2 ^ (w - nplen a) = nS a) by reflexivity.
    assert (I1: inb w (net_blk n) (nf a)) by (apply SB; unfold inb, net_blk, bsize; cbn [bv bp]; rewrite ESa; lia).
    assert (I2: inb w (net_blk n) (nl a)) by (apply SB; unfold inb, net_blk, bsize; cbn [bv bp]; rewrite ESa; lia).
    unfold inb, net_blk, bsize in I1, I2; cbn [bv bp] in I1, I2.
    assert (ES: 2 ^ (w - nplen n) = nS n) by (unfold nS, nw, w; now rewrite Ev). rewrite ES in *. lia.
Qed.

(* a canonical list of (value, prefixlen) blocks of one family, rebuilt as IPNetwork objects *)
Lemma blks_nets w ver l : valid_ver ver = true -> width ver = w -> canon w (blks_of l) ->
  (forall x, covered w (blks_of l) x -> 0 <= x < 2 ^ w) ->
  let R := map (net_of_cblk ver) l in
  Forall wfh R /\ PDisj R /\ NoSib R /\ forall ver' x, den R ver' x <-> ver' = ver /\ covered w (blks_of l) x.
Proof.
  intros Hv Ew (A & SS & NS) Rng R.
  assert (El: forall cb, In cb l -> let r := net_of_cblk ver cb in
            wfh r /\ nf r = fst cb /\ nl r = fst cb + 2 ^ (w - snd cb) - 1 /\ net_blk r = blk_of cb).
  { intros cb Hcb r. assert (Hb: In (blk_of cb) (blks_of l)) by (apply in_map; exact Hcb).
    pose proof (A _ Hb) as Al. pose proof (aligned_pos w _ Al) as PS.
    destruct Al as (Hp & H0 & Dv). unfold bsize, blk_of in *; cbn [bv bp] in *.
    assert (Hi: 0 <= fst cb + 2 ^ (w - snd cb) - 1 < 2 ^ w).
    { apply Rng. exists (blk_of cb). split; [exact Hb|]. unfold inb, bsize, blk_of; cbn [bv bp]. lia. }
    subst w. destruct (mk_wfh ver (fst cb) (snd cb) Hv Hp H0 Dv ltac:(lia)) as (W & F & L).
    fold (net_of_cblk ver cb) in W, F, L. fold r in W, F, L.
    split; [exact W|]. split; [exact F|]. split; [exact L|]. unfold net_blk. rewrite F. reflexivity. }
  assert (InR: forall r, In r R -> exists cb, In cb l /\ r = net_of_cblk ver cb).
  { intros r Hr. apply in_map_iff in Hr. destruct Hr as (cb & <- & Hcb). eauto. }
  assert (Inb: forall cb ver' z, In cb l -> (in_net (net_of_cblk ver cb) ver' z <-> ver' = ver /\ inb w (blk_of cb) z)).
  { intros cb ver' z Hcb. destruct (El cb Hcb) as (_ & F & L & _). unfold in_net. rewrite F, L.
    change (nver (net_of_cblk ver cb)) with ver. unfold inb, bsize, blk_of; cbn [bv bp].
    split; (intros (E & I); split; [now symmetry|lia]). }
  split; [|split; [|split]].
  - rewrite Forall_forall. intros r Hr. destruct (InR r Hr) as (cb & Hcb & ->). apply (El cb Hcb).
  - intros r1 r2 H1 H2 N (ver' & z & I1 & I2).
    destruct (InR r1 H1) as (c1 & Hc1 & ->). destruct (InR r2 H2) as (c2 & Hc2 & ->).
    apply Inb in I1; [|exact Hc1]. apply Inb in I2; [|exact Hc2].
    pose proof (sorted_disj w _ A SS (blk_of c1) (blk_of c2) z (in_map _ _ _ Hc1) (in_map _ _ _ Hc2) (proj2 I1) (proj2 I2)) as E.
    apply N. f_equal. destruct c1, c2. unfold blk_of in E; cbn [fst snd] in E. inversion E. reflexivity.
  - intros r1 r2 H1 H2 (Ev & Sb).
    destruct (InR r1 H1) as (c1 & Hc1 & ->). destruct (InR r2 H2) as (c2 & Hc2 & ->).
    destruct (El c1 Hc1) as (_ & _ & _ & B1). destruct (El c2 Hc2) as (_ & _ & _ & B2).
    cbv zeta in B1, B2. rewrite B1, B2 in Sb. change (nver (net_of_cblk ver c1)) with ver in Sb. rewrite Ew in Sb.
    apply (NS (blk_of c1) (blk_of c2)); [apply in_map, Hc1|apply in_map, Hc2|exact Sb].
  - intros ver' x. unfold den, covered. split.
    + intros (r & Hr & I). destruct (InR r Hr) as (cb & Hcb & ->). apply Inb in I; [|exact Hcb].
      split; [tauto|]. exists (blk_of cb). split; [apply in_map, Hcb|tauto].
    + intros (-> & b & Hb & I). apply in_map_iff in Hb. destruct Hb as (cb & <- & Hcb).
      exists (net_of_cblk ver cb). split; [apply in_map, Hcb|]. apply Inb; [exact Hcb|tauto].
Qed.

(* the sibling of a block lying strictly inside c lies inside c as well *)
Lemma sib_inside x y c : wfh x -> wfh y -> wfh c -> siblings x y \/ siblings y x ->
  nver c = nver x -> nf c <= nf x -> nl x <= nl c -> nplen c < nplen x -> overlap y c.
Proof.
  intros Hx Hy Hc Sb Ev A B Hp.
  destruct (wfh_view x Hx) as (_ & Px & PSx & Dx & _ & Lx & _).
  destruct (wfh_view y Hy) as (_ & Py & PSy & Dy & _ & Ly & _).
  destruct (wfh_view c Hc) as (_ & Pc & PSc & Dc & _ & Lc & _).
  assert (Ew: nw c = nw x) by (unfold nw; now rewrite Ev).
  assert (D2: (2 * nS x | nS c)).
  { unfold nS. rewrite Ew. rewrite <- pow2_succ by lia. apply pow2_divide. lia. }
  apply overlap_iff; [exact Hy|exact Hc|].
  destruct Sb as [Sb|Sb]; destruct (proj1 (siblings_iff _ _) Sb) as (E1 & E2 & E3 & E4).
  - assert (ES: nS y = nS x) by (unfold nS, nw; now rewrite <- E1, <- E2).
    split; [congruence|].
    pose proof (aligned_contains_chunk (nf c) (nS c) (nf x) (2 * nS x) ltac:(lia) D2 Dc E4 ltac:(lia)). lia.
  - assert (ES: nS y = nS x) by (unfold nS, nw; now rewrite E1, E2). rewrite ES in *.
    split; [congruence|].
    assert (D3: (2 * nS x | nf c)) by (eapply Z.divide_trans; [exact D2|exact Dc]).
    pose proof (mult_lower (2 * nS x) (nf c) (nf y) (nS x) ltac:(lia) D3 E4 ltac:(lia) ltac:(lia)). lia.
Qed.

Lemma remove_one_spec d addr : SetInv d -> wf_net addr ->
  exists d', remove_one d addr = Ok d' /\ SetInv d' /\
    forall ver x, den d' ver x <-> den d ver x /\ ~ in_net addr ver x.
Proof.
  intros I Wad. destruct (ncidr_facts addr Wad) as (Wa & Va & Pa & Fa & La).
  destruct (wf_view addr Wad) as (_ & Pad & PSad & _ & _ & Lad & _).
  destruct (compact_single_spec d (ncidr addr) I Wa) as (d1 & E1 & I1 & D1).
  unfold remove_one. cbv zeta. rewrite E1. cbn [bind].
  apply b_SetInv_iff in I1. pose proof I1 as (W1 & P1 & S1). pose proof W1 as (F1 & _). rewrite Forall_forall in F1.
  destruct (cover_one_key d1 (ncidr addr) I1 Wa) as (B & HB & EvB & AB & BB).
  { intros z Hz. apply D1. now right. }
  rewrite Va, Fa in *. rewrite La in BB.
  destruct (find_container d1 addr) as [c|] eqn:FC.
  2:{ exfalso. pose proof (find_container_none d1 addr FC B HB) as N.
      assert (T: net_in_net addr B = true) by (apply net_in_net_iff; [exact Wad|apply F1, HB|tauto]).
      rewrite T in N. discriminate. }
  destruct (find_container_some d1 addr c FC) as (Ic & Nc).
  pose proof (F1 c Ic) as Wc. pose proof Wc as (Wc' & _).
  apply net_in_net_iff in Nc; [|exact Wad|exact Wc']. destruct Nc as (Ev & Ac & Bc).
  destruct (wfh_view c Wc) as (Hvc & Pc & PSc & Dc & F0c & Lc & Hic & Vc).
  set (w := width (nver c)) in *. assert (Hw: 0 <= w) by apply width_nonneg.
  assert (Ew: width (nver addr) = w) by (unfold w; now rewrite Ev).
  assert (WT: wf_cblk w (cblk_of_net c)).
  { destruct Wc' as (_ & Hval & Hp). unfold wf_cblk, cblk_of_net; cbn [fst snd]. fold w in Hval, Hp. split; lia. }
  assert (WE: wf_cblk w (cblk_of_net addr)).
  { destruct Wad as (_ & Hval & Hp). unfold wf_cblk, cblk_of_net; cbn [fst snd]. rewrite Ew in Hval, Hp. split; lia. }
  assert (FT: first_of w (cblk_of_net c) = nf c).
  { unfold first_of, cblk_of_net; cbn [fst snd]. rewrite (nf_eq c Wc'). reflexivity. }
  assert (LT: last_of w (cblk_of_net c) = nl c).
  { unfold last_of. rewrite FT. rewrite (nl_eq c Wc'). reflexivity. }
  assert (FE: first_of w (cblk_of_net addr) = nf addr).
  { unfold first_of, cblk_of_net; cbn [fst snd]. rewrite (nf_eq addr Wad), Ew. reflexivity. }
  assert (LE: last_of w (cblk_of_net addr) = nl addr).
  { unfold last_of. rewrite FE. rewrite (nl_eq addr Wad), Ew. reflexivity. }
  destruct (exclude_spec w (cblk_of_net c) (cblk_of_net addr) Hw WT WE) as (l & El & Cl & Covl).
  rewrite FT, LT, FE, LE in Covl.
  rewrite El. cbn [bind].
  destruct (b_ddel_spec d1 c Wc W1 Ic) as (d2 & E2 & W2 & M2). rewrite E2. cbn [bind].
  destruct (blks_nets w (nver c) l Hvc eq_refl Cl) as (FR & PR & SR & DR).
  { intros x Hx. apply Covl in Hx. unfold nw in Hic. fold w in Hic. lia. }
  set (R := map (net_of_cblk (nver c)) l) in *.
  destruct (b_fold_dset_spec R d2 FR W2) as (W3 & M3).
  exists (fold_left dset R d2). split; [reflexivity|].
  pose proof FR as FR'. rewrite Forall_forall in FR'.
  assert (DR': forall ver x, den R ver x <-> ver = nver c /\ nf c <= x <= nl c /\ ~ (nf addr <= x <= nl addr)).
  { intros ver x. rewrite DR, Covl. tauto. }
  assert (Rin: forall r, In r R -> nver r = nver c /\ nf c <= nf r /\ nl r <= nl c /\ r <> c /\
                 forall y, In y d1 -> y <> c -> ~ overlap r y).
  { intros r Hr. pose proof (FR' r Hr) as Wr. destruct (wfh_view r Wr) as (_ & _ & PSr & _ & _ & Lr & _).
    assert (X1: den R (nver r) (nf r)) by (exists r; split; [exact Hr|apply in_net_first, Wr]).
    assert (X2: den R (nver r) (nl r)) by (exists r; split; [exact Hr|unfold in_net; split; [reflexivity|lia]]).
    apply DR' in X1. apply DR' in X2. split; [tauto|]. split; [lia|]. split; [lia|]. split.
    - intros ->. assert (X3: den R (nver c) (nf addr)).
      { exists c. split; [exact Hr|]. unfold in_net. split; [reflexivity|lia]. }
      apply DR' in X3. lia.
    - intros y Hy Ny (ver & z & Iz1 & Iz2). apply (P1 c y Ic Hy); [congruence|].
      assert (X3: den R ver z) by (exists r; tauto). apply DR' in X3.
      exists ver, z. split; [|exact Iz2]. unfold in_net. split; [symmetry; tauto|lia]. }
  assert (Inv3: SetInv' (fold_left dset R d2)).
  { split; [exact W3|split].
    - intros x y Hx Hy Nxy Ov. apply M3 in Hx. apply M3 in Hy.
      destruct Hx as [Hx|Hx], Hy as [Hy|Hy].
      + apply M2 in Hx. apply M2 in Hy. apply (P1 x y); tauto.
      + apply M2 in Hx. destruct (Rin y Hy) as (_ & _ & _ & _ & Q). apply (Q x); try tauto. apply overlap_sym. exact Ov.
      + apply M2 in Hy. destruct (Rin x Hx) as (_ & _ & _ & _ & Q). apply (Q y); tauto.
      + apply (PR x y Hx Hy Nxy Ov).
    - assert (Mixed: forall r y, In r R -> In y d1 -> y <> c -> siblings r y \/ siblings y r -> False).
      { intros r y Hr Hy Ny Sb. destruct (Rin r Hr) as (Q1 & Q2 & Q3 & Q4 & _).
        apply (P1 y c Hy Ic Ny). apply (sib_inside r y c); try assumption.
        - apply FR', Hr. - apply F1, Hy. - now symmetry.
        - apply strict_super_plen; try assumption; [apply FR', Hr|now symmetry|congruence]. }
      intros x y Hx Hy Sxy. apply M3 in Hx. apply M3 in Hy.
      destruct Hx as [Hx|Hx], Hy as [Hy|Hy].
      + apply M2 in Hx. apply M2 in Hy. apply (S1 x y); tauto.
      + apply M2 in Hx. apply (Mixed y x); tauto.
      + apply M2 in Hy. apply (Mixed x y); tauto.
      + apply (SR x y Hx Hy Sxy). }
  split; [apply b_SetInv_iff; exact Inv3|].
  intros ver x.
  assert (Dsplit: den (fold_left dset R d2) ver x <-> (exists n, In n d1 /\ n <> c /\ in_net n ver x) \/ den R ver x).
  { unfold den. split.
    - intros (n & Hn & In_). apply M3 in Hn. destruct Hn as [Hn|Hn]; [left|right; eauto].
      apply M2 in Hn. exists n. tauto.
    - intros [(n & Hn & Nn & In_)|(n & Hn & In_)]; exists n; (split; [apply M3|exact In_]); [left; apply M2; tauto|now right]. }
  rewrite Dsplit, DR'. clear Dsplit.
  assert (Dadd: den d1 ver x <-> den d ver x \/ in_net addr ver x).
  { rewrite D1. rewrite (in_net_ncidr addr ver x Wad). tauto. }
  assert (Cin: in_net addr ver x -> in_net c ver x) by (unfold in_net; intros (E & Ix); split; [congruence|lia]).
  split.
  - intros [(n & Hn & Nn & In_)|(Ev' & Ix & Nx)].
    + assert (Nad: ~ in_net addr ver x).
      { intros Iad. apply (P1 n c Hn Ic Nn). exists ver, x. split; [exact In_|apply Cin, Iad]. }
      split; [|exact Nad]. assert (X: den d1 ver x) by (exists n; tauto). apply Dadd in X. tauto.
    + assert (Nad: ~ in_net addr ver x) by (unfold in_net; intros (_ & Iad); lia).
      split; [|exact Nad]. assert (X: den d1 ver x).
      { exists c. split; [exact Ic|]. unfold in_net. split; [now symmetry|lia]. }
      apply Dadd in X. tauto.
  - intros (Dx & Nad). assert (X: den d1 ver x) by (apply Dadd; now left).
    destruct X as (n & Hn & In_). destruct (net_eq_dec n c) as [->|Nn]; [right|left; exists n; tauto].
    destruct In_ as (E & Ix). split; [now symmetry|]. split; [lia|]. intros Iad. apply Nad.
    unfold in_net. split; [congruence|lia].
Qed.

Lemma remove_all_spec : forall l d, SetInv d -> Forall wf_net l ->
  exists d', remove_all d l = Ok d' /\ SetInv d' /\ forall ver x, den d' ver x <-> den d ver x /\ ~ den l ver x.
Proof.
  induction l as [|n l IH]; intros d I F; cbn [remove_all].
  - exists d. split; [reflexivity|split; [exact I|]]. intros ver x. split; [|tauto].
    intros H. split; [exact H|apply den_nil].
  - inversion F as [|? ? Wn Fl]; subst.
    destruct (remove_one_spec d n I Wn) as (d1 & E1 & I1 & D1). rewrite E1. cbn [bind].
    destruct (IH d1 I1 Fl) as (d2 & E2 & I2 & D2). exists d2. split; [exact E2|split; [exact I2|]].
    intros ver x. rewrite D2, D1, den_cons. tauto.
Qed.

Theorem remove_spec_proof : iprange_to_cidrs_spec -> cidr_merge_spec -> remove_spec_b.
Proof.
  intros IR _ d e I We. destruct e as [i|ver v|n|ver s e']; cbn [set_remove wf_elem in_elem] in *.
  - destruct (net_of_int_spec i We) as (ver & E & Hv & Hr & Cases). rewrite E. cbn [bind].
    destruct (addr_net_wfh ver i Hv Hr) as (Wa & Ia).
    destruct (remove_one_spec d (addr_net ver i) I (proj1 Wa)) as (d' & E' & I' & D').
    exists d'. split; [exact E'|split; [exact I'|]]. intros ver' x. rewrite D', Ia.
    assert (Q: ver' = ver /\ x = i <-> x = i /\ (ver' = 4 /\ 0 <= i < 2 ^ 32 \/ ver' = 6 /\ 2 ^ 32 <= i < 2 ^ 128)).
    { split.
      - intros (-> & ->). split; [reflexivity|]. destruct Cases as [(-> & ?)|(-> & ?)]; [left|right]; (split; [reflexivity|assumption]).
      - intros (-> & H). split; [|reflexivity].
        destruct Cases as [(-> & ?)|(-> & ?)], H as [(-> & ?)|(-> & ?)]; try reflexivity; lia. }
    rewrite Q. tauto.
  - destruct We as (Hv & Hr). destruct (addr_net_wfh ver v Hv Hr) as (Wa & Ia).
    destruct (remove_one_spec d (addr_net ver v) I (proj1 Wa)) as (d' & E' & I' & D').
    exists d'. split; [exact E'|split; [exact I'|]]. intros ver' x. rewrite D', Ia. tauto.
  - destruct (remove_one_spec d n I We) as (d' & E' & I' & D').
    exists d'. split; [exact E'|split; [exact I'|exact D']].
  - destruct We as (Hv & Hs & He).
    assert (Hr1: 0 <= s < 2 ^ width ver) by lia. assert (Hr2: 0 <= e' < 2 ^ width ver) by lia.
    destruct (addr_net_wfh ver s Hv Hr1) as (W1 & I1). destruct (addr_net_wfh ver e' Hv Hr2) as (W2 & I2).
    destruct (wfh_view _ W1) as (_ & _ & PS1 & _ & _ & L1 & _). destruct (wfh_view _ W2) as (_ & _ & PS2 & _ & _ & L2 & _).
    pose proof (proj1 (I1 _ _) (in_net_first _ W1)) as (_ & F1).
    assert (F2: nl (addr_net ver e') = e').
    { assert (X: in_net (addr_net ver e') ver (nl (addr_net ver e'))) by (unfold in_net; split; [reflexivity|lia]).
      apply I2 in X. tauto. }
    destruct (IR (addr_net ver s) (addr_net ver e')) as (cs & Ecs & Ccs & Dcs);
      [apply W1|apply W2|reflexivity|rewrite F1, F2; lia|].
    rewrite Ecs. cbn [bind]. pose proof Ccs as (Fcs & _).
    destruct (remove_all_spec cs d I) as (d' & E' & I' & D').
    { rewrite Forall_forall in *. intros x Hx. apply Fcs, Hx. }
    exists d'. split; [exact E'|split; [exact I'|]]. intros ver' x. rewrite D', Dcs, F1, F2.
    change (nver (addr_net ver s)) with ver. tauto.
Qed.

(* ================================================================ 8. pop() *)
Theorem pop_spec d : SetInv d ->
  (d = [] -> set_pop d = Raise KeyError) /\
  (d <> [] -> exists d' k, set_pop d = Ok (d', k) /\ d = d' ++ [k] /\ In k d /\ SetInv d' /\
     forall ver x, den d' ver x <-> den d ver x /\ ~ in_net k ver x).
Proof.
  intros I. split; [intros ->; reflexivity|]. intros Ne.
  apply b_SetInv_iff in I. destruct I as ((F & N) & P & S).
  unfold set_pop. destruct (rev d) as [|k r] eqn:Er.
  { exfalso. apply Ne. rewrite <- (rev_involutive d), Er. reflexivity. }
  assert (Ed: d = rev r ++ [k]) by (rewrite <- (rev_involutive d), Er; reflexivity).
  exists (rev r), k. split; [reflexivity|]. subst d.
  assert (Inc: forall x, In x (rev r) -> In x (rev r ++ [k])) by (intros x Hx; apply in_or_app; now left).
  assert (Ik: In k (rev r ++ [k])) by (apply in_or_app; right; now left).
  apply Forall_app in F. destruct F as (Fr & Fk).
  assert (Nk: ~ In k (rev r)).
  { apply NoDup_remove_2 in N. rewrite app_nil_r in N. exact N. }
  assert (Nr: NoDup (rev r)).
  { apply NoDup_remove_1 in N. rewrite app_nil_r in N. exact N. }
  split; [reflexivity|]. split; [exact Ik|]. split.
  - apply b_SetInv_iff. split; [split; assumption|split].
    + intros x y Hx Hy. apply P; apply Inc; assumption.
    + intros x y Hx Hy. apply S; apply Inc; assumption.
  - intros ver x. unfold den. split.
    + intros (n & Hn & In_). split; [exists n; split; [apply Inc, Hn|exact In_]|].
      intros Ikx. apply (P n k (Inc n Hn) Ik); [intros ->; contradiction|]. exists ver, x. tauto.
    + intros ((n & Hn & In_) & Nkx). apply in_app_or in Hn. destruct Hn as [Hn|[<-|[]]]; [exists n; tauto|contradiction].
Qed.
