(* Proofs/GenOk_Src_C04_match.v -- source tie for C04, second part: the definitions regenerated from the text of
   all_matching_cidrs / smallest_matching_cidr / largest_matching_cidr and of IPListMixin.__contains__
   (Gen/pysrc_match_gen.v) equal the hand-written model of Model/Contains.v (at the real widths, W = Ip.width).
   `ip` is an already constructed IPAddress object, `cidrs` a list of already constructed IPNetwork objects
   (`IPAddress(ip)`, `[IPNetwork(cidr) for cidr in cidrs]` are copies); `sorted(..)` is the symbol py_sorted_nets (= the
   model's Contains.py_sorted, NOT translated); `ip in cidr`, `cidr.network not in matches[-1]` call the regenerated
   IPNetwork.__contains__ / .network; `matches[-1]` is SrcPreludeSRCE.py_index (the model: last_opt); the early `break`
   ends the generated Fixpoint as it ends the model's scan.
   Hypothesis: the candidate networks are well formed (C02.wf_net: version 4 / 6, value and prefix in range) -- the code
   builds the IPAddress object `cidr.network` through the range-checking constructor and shifts by width - prefixlen, the
   model writes the network address down and carries CPython's negative-shift ValueError. *)
From NV Require Import Base.Tac Base.PyVal Base.Bits Model.Ip Model.Contains Model.SrcPrelude Model.SrcPreludeSRCE
  Model.SrcPreludeMatch Gen.pysrc_gen Gen.pysrc_match_gen
  Proofs.C02 Proofs.GenOk_Src_Const Proofs.GenOk_Src_C02 Proofs.GenOk_Src_C04.
Import ListNotations.
Open Scope Z_scope.

(* ---- IPListMixin.__contains__ ---- *)
Lemma src_net_contains_mixin_ok ver v p o :
  src_IPNetwork_contains_mixin ver (width ver) v p (operand_of o) = mixin_contains width (Net ver v p) o.
Proof.
  unfold src_IPNetwork_contains_mixin, mixin_contains.
  destruct o as [ox ov|ox ov op|ox os oe]; cbn [operand_of over]; destruct (negb (ver =? ox)); reflexivity.
Qed.
Lemma src_range_contains_mixin_ok ver w s e o :
  src_IPRange_contains_mixin ver w s e (operand_of o) = mixin_contains width (Rng ver s e) o.
Proof.
  unfold src_IPRange_contains_mixin, mixin_contains.
  destruct o as [ox ov|ox ov op|ox os oe]; cbn [operand_of over]; destruct (negb (ver =? ox)); reflexivity.
Qed.

(* ---- matches[-1] ---- *)
Lemma last_opt_app {A} (l : list A) m : last_opt l = Some m -> exists l1, l = l1 ++ [m].
Proof.
  induction l as [|x [|y r] IH]; [discriminate| |].
  - intros H; inversion H; subst. exists []. reflexivity.
  - intros H. destruct (IH H) as [l1 E]. exists (x :: l1). rewrite E. reflexivity.
Qed.
Lemma last_opt_snoc {A} (l : list A) m : last_opt (l ++ [m]) = Some m.
Proof. induction l as [|x [|y r] IH]; [reflexivity|reflexivity|exact IH]. Qed.
Lemma nth_o_last {A} (l1 : list A) m : nth_o (l1 ++ [m]) (length l1) = Ok m.
Proof. induction l1 as [|y r IH]; [reflexivity|exact IH]. Qed.
Lemma py_index_neg1 {A} (l : list A) m : last_opt l = Some m -> py_index l (-1) = Ok m.
Proof.
  intros H. destruct (last_opt_app l m H) as [l1 ->]. unfold py_index, py_norm_index. rewrite app_length. cbn [length].
  change (0 <=? -1) with false. cbn [andb].
  replace ((- Z.of_nat (length l1 + 1) <=? -1) && (-1 <? 0)) with true by lia.
  replace (Z.to_nat (Z.of_nat (length l1 + 1) + -1)) with (length l1) by lia. apply nth_o_last.
Qed.
Lemma last_opt_nonempty {A} (l : list A) : py_nonempty l = match last_opt l with Some _ => true | None => false end.
Proof. induction l as [|x [|y r] IH]; [reflexivity|reflexivity|]. cbn [py_nonempty] in *. exact IH. Qed.

(* ---- the pieces of the loop bodies on well-formed networks ---- *)
Lemma src_ip_in_ok ipver ipv c : wf_net c ->
  src_IPNetwork_contains (nver c) (width (nver c)) (nval c) (nplen c) (OAddr ipver ipv) = ip_in width ipver ipv c.
Proof. intros (_ & _ & Hp). exact (src_net_contains_ok width (nver c) (nval c) (nplen c) (Addr ipver ipv) (proj2 Hp)). Qed.

Lemma src_network_in_ok m c : wf_net m -> wf_net c ->
  (do h <- src_IPNetwork_network (nver c) (width (nver c)) (nval c) (nplen c);
   do h' <- src_IPNetwork_contains (nver m) (width (nver m)) (nval m) (nplen m) (OAddr (fst h) (snd h));
   Ok (negb h')) =
  (do inside <- net_contains width (nver m) (nval m) (nplen m) (network_of width c); Ok (negb inside)).
Proof.
  intros (_ & _ & Hmp) (Hv & Hn & Hp). rewrite (src_network_wf (nver c) (nval c) (nplen c) Hv Hp Hn). cbn [bind fst snd].
  pose proof (src_net_contains_ok width (nver m) (nval m) (nplen m) (Addr (nver c) (net_network (width (nver c)) (nval c) (nplen c))) (proj2 Hmp)) as E.
  cbn [operand_of] in E. rewrite E. reflexivity.
Qed.

(* ---- the three scans ---- *)
Lemma src_scan_all_ok ipver ipv : forall l matches, Forall wf_net l -> Forall wf_net matches ->
  src_all_matching_cidrs_loop1 (ipver, ipv) l matches = scan_all width ipver ipv l matches.
Proof.
  induction l as [|c r IH]; intros matches Hl Hm; [reflexivity|].
  inversion Hl as [|? ? Hc Hr]; subst. cbn [src_all_matching_cidrs_loop1 scan_all fst snd].
  rewrite (src_ip_in_ok ipver ipv c Hc).
  destruct (ip_in width ipver ipv c) as [[|]|]; [| |reflexivity]; cbn [bind].
  - cbv zeta. apply IH; [assumption|]. apply Forall_app; split; [assumption|]. constructor; [assumption|constructor].
  - rewrite last_opt_nonempty. destruct (last_opt matches) as [m|] eqn:E.
    + rewrite (py_index_neg1 matches m E).
      assert (Hwm : wf_net m).
      { destruct (last_opt_app matches m E) as [l1 ->]. apply Forall_app in Hm. destruct Hm as [_ Hm]. inversion Hm; assumption. }
      pose proof (src_network_in_ok m c Hwm Hc) as S.
      destruct (src_IPNetwork_network (nver c) (width (nver c)) (nval c) (nplen c)) as [h|e]; cbn [bind] in *.
      * destruct (src_IPNetwork_contains (nver m) (width (nver m)) (nval m) (nplen m) (OAddr (fst h) (snd h))) as [h'|e];
          cbn [bind] in *; destruct (net_contains width (nver m) (nval m) (nplen m) (network_of width c)) as [inside|e'];
          cbn [bind] in *; try discriminate; try (inversion S; subst; reflexivity).
        inversion S as [S']. rewrite S'. destruct (negb inside); [reflexivity|]. apply IH; assumption.
      * destruct (net_contains width (nver m) (nval m) (nplen m) (network_of width c)) as [inside|e']; cbn [bind] in *;
          [discriminate|inversion S; reflexivity].
    + cbn [bind]. apply IH; assumption.
Qed.

Lemma src_scan_smallest_ok ipver ipv : forall l mat, Forall wf_net l -> (forall m, mat = Some m -> wf_net m) ->
  src_smallest_matching_cidr_loop1 (ipver, ipv) l mat = scan_smallest width ipver ipv l mat.
Proof.
  induction l as [|c r IH]; intros mat Hl Hm; [reflexivity|].
  inversion Hl as [|? ? Hc Hr]; subst. cbn [src_smallest_matching_cidr_loop1 scan_smallest fst snd].
  rewrite (src_ip_in_ok ipver ipv c Hc).
  destruct (ip_in width ipver ipv c) as [[|]|]; [| |reflexivity]; cbn [bind].
  - cbv zeta. apply IH; [assumption|]. intros m H; inversion H; subst; assumption.
  - destruct mat as [m|].
    + pose proof (src_network_in_ok m c (Hm m eq_refl) Hc) as S.
      destruct (src_IPNetwork_network (nver c) (width (nver c)) (nval c) (nplen c)) as [h|e]; cbn [bind] in *.
      * destruct (src_IPNetwork_contains (nver m) (width (nver m)) (nval m) (nplen m) (OAddr (fst h) (snd h))) as [h'|e];
          cbn [bind] in *; destruct (net_contains width (nver m) (nval m) (nplen m) (network_of width c)) as [inside|e'];
          cbn [bind] in *; try discriminate; try (inversion S; subst; reflexivity).
        inversion S as [S']. rewrite S'. destruct (negb inside); [reflexivity|]. apply IH; assumption.
      * destruct (net_contains width (nver m) (nval m) (nplen m) (network_of width c)) as [inside|e']; cbn [bind] in *;
          [discriminate|inversion S; reflexivity].
    + cbn [bind]. apply IH; assumption.
Qed.

Lemma src_scan_largest_ok ipver ipv : forall l mat, Forall wf_net l ->
  src_largest_matching_cidr_loop1 (ipver, ipv) l mat =
    omap (fun r => match r with Some c => Some c | None => mat end) (scan_largest width ipver ipv l).
Proof.
  induction l as [|c r IH]; intros mat Hl; [reflexivity|].
  inversion Hl as [|? ? Hc Hr]; subst. cbn [src_largest_matching_cidr_loop1 scan_largest fst snd].
  rewrite (src_ip_in_ok ipver ipv c Hc).
  destruct (ip_in width ipver ipv c) as [[|]|]; [reflexivity| |reflexivity]. cbn [bind]. apply IH; assumption.
Qed.

(* sorted() keeps the candidates *)
Lemma insert_sorted_wf x l : wf_net x -> Forall wf_net l -> Forall wf_net (insert_sorted width x l).
Proof.
  intros Hx. induction 1 as [|y r Hy Hr IH]; [constructor; [exact Hx|constructor]|].
  cbn [insert_sorted]. destruct (net_lt width y x).
  - constructor; assumption.
  - constructor; [exact Hx|]. constructor; assumption.
Qed.
Lemma py_sorted_wf l : Forall wf_net l -> Forall wf_net (py_sorted width l).
Proof. induction 1 as [|x r Hx Hr IH]; [constructor|]. cbn [py_sorted]. apply insert_sorted_wf; assumption. Qed.

Lemma src_all_matching_ok ipver ipv cidrs : Forall wf_net cidrs ->
  src_all_matching_cidrs (ipver, ipv) cidrs = all_matching_cidrs width ipver ipv cidrs.
Proof.
  intros H. unfold src_all_matching_cidrs, all_matching_cidrs, py_sorted_nets. cbv zeta.
  rewrite (src_scan_all_ok ipver ipv _ [] (py_sorted_wf _ H) (Forall_nil _)).
  destruct (scan_all width ipver ipv (py_sorted width cidrs) []); reflexivity.
Qed.
Lemma src_smallest_matching_ok ipver ipv cidrs : Forall wf_net cidrs ->
  src_smallest_matching_cidr (ipver, ipv) cidrs = smallest_matching_cidr width ipver ipv cidrs.
Proof.
  intros H. unfold src_smallest_matching_cidr, smallest_matching_cidr, py_sorted_nets. cbv zeta.
  rewrite (src_scan_smallest_ok ipver ipv _ None (py_sorted_wf _ H)) by (intros m Hm; discriminate).
  destruct (scan_smallest width ipver ipv (py_sorted width cidrs) None); reflexivity.
Qed.
Lemma src_largest_matching_ok ipver ipv cidrs : Forall wf_net cidrs ->
  src_largest_matching_cidr (ipver, ipv) cidrs = largest_matching_cidr width ipver ipv cidrs.
Proof.
  intros H. unfold src_largest_matching_cidr, largest_matching_cidr, py_sorted_nets. cbv zeta.
  rewrite (src_scan_largest_ok ipver ipv _ None (py_sorted_wf _ H)).
  destruct (scan_largest width ipver ipv (py_sorted width cidrs)) as [[c|]|]; reflexivity.
Qed.

(* everything the second C04 source tie states (Props/C04_src_match.v) *)
Lemma C04_match_tie_ok :
  (forall ipver ipv cidrs, Forall wf_net cidrs ->
     src_all_matching_cidrs (ipver, ipv) cidrs = all_matching_cidrs width ipver ipv cidrs /\
     src_smallest_matching_cidr (ipver, ipv) cidrs = smallest_matching_cidr width ipver ipv cidrs /\
     src_largest_matching_cidr (ipver, ipv) cidrs = largest_matching_cidr width ipver ipv cidrs) /\
  (forall ipver ipv l matches, Forall wf_net l -> Forall wf_net matches ->
     src_all_matching_cidrs_loop1 (ipver, ipv) l matches = scan_all width ipver ipv l matches) /\
  (forall ipver ipv l mat, Forall wf_net l -> (forall m, mat = Some m -> wf_net m) ->
     src_smallest_matching_cidr_loop1 (ipver, ipv) l mat = scan_smallest width ipver ipv l mat) /\
  (forall ipver ipv l mat, Forall wf_net l ->
     src_largest_matching_cidr_loop1 (ipver, ipv) l mat =
       omap (fun r => match r with Some c => Some c | None => mat end) (scan_largest width ipver ipv l)) /\
  (forall ver v p o, src_IPNetwork_contains_mixin ver (width ver) v p (operand_of o) = mixin_contains width (Net ver v p) o) /\
  (forall ver w s e o, src_IPRange_contains_mixin ver w s e (operand_of o) = mixin_contains width (Rng ver s e) o) /\
  (forall ver w v p s e, src_IPNetwork_contains_mixin ver w v p OOther = Raise Unsupported /\
                         src_IPRange_contains_mixin ver w s e OOther = Raise Unsupported).
Proof.
  split; [intros; split; [apply src_all_matching_ok|split; [apply src_smallest_matching_ok|apply src_largest_matching_ok]]; assumption|].
  split; [exact src_scan_all_ok|]. split; [exact src_scan_smallest_ok|]. split; [exact src_scan_largest_ok|].
  split; [exact src_net_contains_mixin_ok|]. split; [exact src_range_contains_mixin_ok|]. intros; split; reflexivity.
Qed.
