(* Proofs/C20_excl.v — the `for extracted in cidr_merge(subnets): remaining = [... cidr_exclude(block, extracted)]`
   loop of SubnetSplitter.extract_subnet (Model/Splitter.v exclude_from_all / exclude_each).
   Taking the ascending canonical blocks of an initial range [F, r) of a network C out of C, one after the other,
   leaves well-formed host-bit-free blocks that are pairwise disjoint, cover exactly [r, last C] and are all
   right children of their parents — hence sibling-free with pairwise distinct prefix lengths (C20_geom). *)
From NV Require Import Base.Tac Base.PyVal Base.Bits Base.Canon Model.Ip Model.Partition Model.Splitter
  Proofs.C09 Proofs.C20_geom.
From Coq Require Import Sorting.Sorted.
Open Scope Z_scope.

(* generic list facts *)
Lemma nodup_app {A} (l1 l2 : list A) :
  NoDup l1 -> NoDup l2 -> (forall x, In x l1 -> In x l2 -> False) -> NoDup (l1 ++ l2).
Proof.
  intros N1 N2 H. induction N1 as [|a l1 Ha N1 IH]; cbn; [exact N2|]. constructor.
  - intros Hin. apply in_app_or in Hin. destruct Hin as [Hin|Hin]; [exact (Ha Hin)|]. apply (H a); [now left|exact Hin].
  - apply IH. intros x H1 H2. apply (H x); [now right|exact H2].
Qed.

Lemma blk_of_inj c c' : blk_of c = blk_of c' -> c = c'.
Proof. destruct c, c'. unfold blk_of; cbn. intros H. injection H as -> ->. reflexivity. Qed.

Lemma in_blks c l : In (blk_of c) (blks_of l) <-> In c l.
Proof.
  unfold blks_of. split; [|apply in_map]. intros H. apply in_map_iff in H. destruct H as (c' & E & H).
  apply blk_of_inj in E. now subst.
Qed.

Lemma blks_in b l : In b (blks_of l) -> exists c, b = blk_of c /\ In c l.
Proof. unfold blks_of. intros H. apply in_map_iff in H. destruct H as (c & E & H). exists c. split; [now symmetry|exact H]. Qed.

Lemma blks_app l1 l2 : blks_of (l1 ++ l2) = blks_of l1 ++ blks_of l2.
Proof. unfold blks_of. apply map_app. Qed.

Section Excl.
Variable w : Z.
Hypothesis Hw : 0 <= w.

Definition hostfree (c : cblk) : Prop := fst c = first_of w c.

Lemma aligned_hostfree c : aligned w (blk_of c) -> hostfree c.
Proof.
  intros (Hp & Hv & Hd). unfold hostfree, first_of. unfold bsize, blk_of in *; cbn [bv bp] in *.
  assert (P: 0 < 2 ^ (w - snd c)) by (apply pow2_pos; lia).
  apply Z.mod_divide in Hd; [lia|lia].
Qed.

Lemma hostfree_aligned c : wf_cblk w c -> hostfree c -> aligned w (blk_of c).
Proof.
  intros Hc Hf. pose proof (cidr_of_aligned w c Hw Hc) as A. unfold cidr_of in A. rewrite <- Hf in A.
  destruct c; exact A.
Qed.

Lemma hostfree_cidr c : hostfree c -> cidr_of w c = c.
Proof. intros H. unfold cidr_of. rewrite <- H. destruct c; reflexivity. Qed.

Lemma hostfree_last c : hostfree c -> last_of w c = fst c + 2 ^ (w - snd c) - 1.
Proof. intros H. unfold last_of. rewrite <- H. reflexivity. Qed.

Lemma inb_blk_of c x : inb w (blk_of c) x <-> fst c <= x < fst c + 2 ^ (w - snd c).
Proof. unfold inb, bsize, blk_of; cbn [bv bp]. tauto. Qed.

(* well-formed host-bit-free right children, pairwise disjoint *)
Definition good (l : list cblk) : Prop :=
  (forall c, In c l -> wf_cblk w c /\ aligned w (blk_of c) /\ rchild w (blk_of c)) /\
  NoDup l /\ disj w (blks_of l).
Definition tiles (l : list cblk) (a e : Z) : Prop := forall x, covered w (blks_of l) x <-> a <= x < e.

Lemma good_nil : good [].
Proof. split; [intros c []|split; [constructor|intros b1 b2 x []]]. Qed.

Lemma good_aligned l : good l -> forall b, In b (blks_of l) -> aligned w b.
Proof. intros (G & _) b Hb. apply blks_in in Hb. destruct Hb as (c & -> & Hc). apply G, Hc. Qed.

Lemma good_rchild l : good l -> forall b, In b (blks_of l) -> rchild w b.
Proof. intros (G & _) b Hb. apply blks_in in Hb. destruct Hb as (c & -> & Hc). apply G, Hc. Qed.

Lemma good_no_sib l : good l -> no_sib w (blks_of l).
Proof. intros G. apply rchild_no_sib, good_rchild, G. Qed.

Lemma good_tail c l : good (c :: l) -> good l /\ ~ In c l.
Proof.
  intros (G & N & D). inversion N as [|? ? Hn N']; subst. split; [|exact Hn]. split; [|split; [exact N'|]].
  - intros c' Hc'. apply G. now right.
  - intros b1 b2 x H1 H2. apply D; now right.
Qed.

Lemma sorted_nodup (l : list blk) : (forall b, In b l -> aligned w b) -> StronglySorted (below w) l -> NoDup l.
Proof.
  intros A S. induction S as [|a l S IH F]; constructor.
  - intros Hin. rewrite Forall_forall in F. specialize (F _ Hin). unfold below in F.
    pose proof (aligned_pos w a (A a (or_introl eq_refl))). lia.
  - apply IH. intros; apply A; now right.
Qed.

(* ---------------------------------------------------------------- one cidr_exclude *)
(* E disjoint from T: T.cidr comes back *)
Lemma excl_other T E : wf_cblk w T -> wf_cblk w E ->
  last_of w E < first_of w T \/ last_of w T < first_of w E -> cidr_exclude w T E = Ok [cidr_of w T].
Proof.
  intros HT HE D. destruct (partition_spec w Hw T E HT HE) as (P1 & P2 & _).
  destruct D as [D|D].
  - apply (exclude_eq w T E [] [] [cidr_of w T]). apply P1, D.
  - apply (exclude_eq w T E [cidr_of w T] [] []). apply P2, D.
Qed.

(* E an initial part of T (T may carry host bits): the rest of T, as right children *)
Lemma excl_head T m : wf_cblk w T -> wf_cblk w m -> aligned w (blk_of m) ->
  fst m = first_of w T -> fst m + 2 ^ (w - snd m) - 1 <= last_of w T ->
  exists l, cidr_exclude w T m = Ok l /\ good l /\ tiles l (fst m + 2 ^ (w - snd m)) (last_of w T + 1).
Proof.
  intros HT Hm Am Hf Hl.
  pose proof (aligned_hostfree m Am) as Fm. pose proof (hostfree_last m Fm) as Lm.
  destruct (exclude_spec w T m Hw HT Hm) as (l & E & C & Cov). exists l. split; [exact E|].
  assert (P: 0 < 2 ^ (w - snd m)) by (apply pow2_pos; destruct Hm; lia).
  assert (Til: tiles l (fst m + 2 ^ (w - snd m)) (last_of w T + 1)).
  { intros x. rewrite Cov. rewrite <- Fm, Lm. lia. }
  split; [|exact Til].
  destruct C as (Al & Srt & Ns).
  pose proof (sorted_disj w (blks_of l) Al Srt) as Dj.
  destruct (Z.eq_dec (fst m + 2 ^ (w - snd m)) (last_of w T + 1)) as [Full|Part].
  - assert (l = []).
    { assert (blks_of l = []) by (apply (empty_cover w); [exact Al|]; intros x Cx; apply Til in Cx; lia).
      destruct l; [reflexivity|discriminate]. }
    subst l. apply good_nil.
  - pose proof (cidr_of_aligned w T Hw HT) as AC.
    assert (RC: forall b, In b (blks_of l) -> rchild w b).
    { apply (right_children w Hw (blks_of l) (blk_of (cidr_of w T)) (fst m + 2 ^ (w - snd m))); auto.
      - unfold blk_of, cidr_of; cbn [bv fst]. lia.
      - intros x. rewrite (Til x). unfold bsize, blk_of, cidr_of, last_of; cbn [bv bp fst snd]. lia. }
    split; [|split].
    + intros c Hc. apply in_blks in Hc. pose proof (Al _ Hc) as Ac. split; [|split; [exact Ac|apply RC, Hc]].
      pose proof Ac as (Hp & Hv & _). unfold blk_of in Hp, Hv; cbn [bv bp] in Hp, Hv.
      assert (Cx: covered w (blks_of l) (fst c)) by (exists (blk_of c); split; [exact Hc|apply (inb_self w), Ac]).
      apply Til in Cx. destruct (cblk_facts w T Hw HT) as (_ & _ & _ & LT & _).
      split; [lia|exact Hp].
    + apply (NoDup_map_inv blk_of). apply sorted_nodup; assumption.
    + exact Dj.
Qed.

(* a good block T and an aligned E that is either disjoint from T or an initial part of it *)
Lemma excl_one T m : wf_cblk w T -> aligned w (blk_of T) -> rchild w (blk_of T) ->
  wf_cblk w m -> aligned w (blk_of m) ->
  (forall x, ~ (inb w (blk_of T) x /\ inb w (blk_of m) x)) \/ (fst T = fst m /\ sub w (blk_of m) (blk_of T)) ->
  exists l, cidr_exclude w T m = Ok l /\ good l /\
    forall x, covered w (blks_of l) x <-> inb w (blk_of T) x /\ ~ inb w (blk_of m) x.
Proof.
  intros HT AT RT Hm Am Pos.
  pose proof (aligned_hostfree T AT) as FT. pose proof (hostfree_last T FT) as LT.
  pose proof (aligned_hostfree m Am) as Fm. pose proof (hostfree_last m Fm) as Lm.
  pose proof (aligned_pos w _ AT) as PT. pose proof (aligned_pos w _ Am) as Pm.
  unfold bsize, blk_of in PT, Pm; cbn [bp] in PT, Pm.
  destruct Pos as [Dj|(Hd & Sub)].
  - exists [T]. split; [|split].
    + rewrite <- (hostfree_cidr T FT) at 2. apply excl_other; auto.
      rewrite Lm, LT, <- FT, <- Fm.
      destruct (Z_lt_le_dec (fst m + 2 ^ (w - snd m) - 1) (fst T)) as [|G1]; [now left|].
      destruct (Z_lt_le_dec (fst T + 2 ^ (w - snd T) - 1) (fst m)) as [|G2]; [now right|].
      exfalso. apply (Dj (Z.max (fst T) (fst m))). rewrite !inb_blk_of. lia.
    + split; [|split].
      * intros c [<-|[]]. auto.
      * constructor; [intros []|constructor].
      * intros b1 b2 x [<-|[]] [<-|[]] _ _. reflexivity.
    + intros x. unfold blks_of; cbn [map]. rewrite covered_cons. split.
      * intros [I|C]; [|destruct (covered_nil w x C)]. split; [exact I|]. intros I'. apply (Dj x). split; assumption.
      * intros (I & _). left. exact I.
  - assert (I1: inb w (blk_of T) (fst m + 2 ^ (w - snd m) - 1)) by (apply Sub; rewrite inb_blk_of; lia).
    rewrite inb_blk_of in I1.
    destruct (excl_head T m HT Hm Am) as (l & E & G & Til). { rewrite <- FT. lia. } { rewrite LT. lia. }
    exists l. split; [exact E|split; [exact G|]].
    intros x. rewrite (Til x), !inb_blk_of, LT. lia.
Qed.

(* ---------------------------------------------------------------- one pass over the remaining blocks *)
Lemma efa_spec m : wf_cblk w m -> aligned w (blk_of m) -> forall rem,
  good rem ->
  (forall c, In c rem -> (forall x, ~ (inb w (blk_of c) x /\ inb w (blk_of m) x)) \/
                         (fst c = fst m /\ sub w (blk_of m) (blk_of c))) ->
  exists l, exclude_from_all w rem m = Ok l /\ good l /\
    (forall x, covered w (blks_of l) x <-> covered w (blks_of rem) x /\ ~ inb w (blk_of m) x) /\
    (forall c, In c l -> exists T, In T rem /\ sub w (blk_of c) (blk_of T)).
Proof.
  intros Hm Am. induction rem as [|T r IH]; intros G Pos.
  - exists []. split; [reflexivity|split; [exact good_nil|split]].
    + intros x. split; [intros C; destruct (covered_nil w x C)|intros (C & _); destruct (covered_nil w x C)].
    + intros c [].
  - destruct (good_tail T r G) as (Gr & NT).
    destruct (IH Gr) as (rest & Er & Grest & Crest & Srest). { intros c Hc. apply Pos. now right. }
    destruct G as (GT & NTr & DTr). destruct (GT T (or_introl eq_refl)) as (HT & AT & RT).
    destruct (excl_one T m HT AT RT Hm Am (Pos T (or_introl eq_refl))) as (here & Eh & Gh & Ch).
    exists (here ++ rest). split; [cbn [exclude_from_all]; rewrite Eh; cbn [bind]; rewrite Er; reflexivity|].
    (* pieces of T and pieces of the other blocks never meet *)
    assert (Sep: forall c c' x, In c here -> In c' rest -> inb w (blk_of c) x -> inb w (blk_of c') x -> False).
    { intros c c' x Hc Hc' I I'.
      assert (IT: inb w (blk_of T) x) by (apply (Ch x); exists (blk_of c); split; [apply in_blks, Hc|exact I]).
      destruct (Srest c' Hc') as (T' & HT' & S'). apply S' in I'.
      assert (blk_of T = blk_of T').
      { apply (DTr (blk_of T) (blk_of T') x); auto; unfold blks_of; cbn [map]; [now left|right; apply in_blks, HT']. }
      apply blk_of_inj in H. subst T'. exact (NT HT'). }
    destruct Gh as (Gh1 & Gh2 & Gh3). destruct Grest as (Gr1 & Gr2 & Gr3).
    split; [split; [|split]|split].
    + intros c Hc. apply in_app_or in Hc. destruct Hc; auto.
    + apply nodup_app; auto. intros c H1 H2.
      destruct (Gh1 c H1) as (_ & Ac & _). apply (Sep c c (fst c) H1 H2); apply (inb_self w _ Ac).
    + rewrite blks_app. intros b1 b2 x H1 H2 I1 I2. apply in_app_or in H1. apply in_app_or in H2.
      destruct H1 as [H1|H1], H2 as [H2|H2].
      * apply (Gh3 b1 b2 x); auto.
      * exfalso. apply blks_in in H1. destruct H1 as (c1 & -> & H1). apply blks_in in H2. destruct H2 as (c2 & -> & H2).
        exact (Sep c1 c2 x H1 H2 I1 I2).
      * exfalso. apply blks_in in H1. destruct H1 as (c1 & -> & H1). apply blks_in in H2. destruct H2 as (c2 & -> & H2).
        exact (Sep c2 c1 x H2 H1 I2 I1).
      * apply (Gr3 b1 b2 x); auto.
    + intros x. rewrite blks_app, covered_app, (Ch x), (Crest x).
      change (blks_of (T :: r)) with (blk_of T :: blks_of r). rewrite covered_cons. tauto.
    + intros c Hc. apply in_app_or in Hc. destruct Hc as [Hc|Hc].
      * exists T. split; [now left|]. intros x I. apply (Ch x). exists (blk_of c). split; [apply in_blks, Hc|exact I].
      * destruct (Srest c Hc) as (T' & HT' & S'). exists T'. split; [now right|exact S'].
Qed.

(* ---------------------------------------------------------------- the head of an ascending cover of [a, r) *)
Lemma sorted_head m todo a r :
  (forall c, In c (m :: todo) -> aligned w (blk_of c)) ->
  StronglySorted (below w) (blks_of (m :: todo)) ->
  (forall x, covered w (blks_of (m :: todo)) x <-> a <= x < r) ->
  fst m = a /\ fst m + 2 ^ (w - snd m) <= r /\
  (forall x, covered w (blks_of todo) x <-> fst m + 2 ^ (w - snd m) <= x < r).
Proof.
  intros Al S Cov. unfold blks_of in S; cbn [map] in S. fold (blks_of todo) in S.
  inversion S as [|? ? S' F]; subst. rewrite Forall_forall in F.
  pose proof (Al m (or_introl eq_refl)) as Am. pose proof (aligned_pos w _ Am) as Pm.
  unfold bsize, blk_of in Pm; cbn [bp] in Pm.
  assert (Cm: forall x, inb w (blk_of m) x -> a <= x < r).
  { intros x I. apply Cov. exists (blk_of m). split; [unfold blks_of; cbn [map]; now left|exact I]. }
  pose proof (Cm (fst m) ltac:(rewrite inb_blk_of; lia)) as C1.
  pose proof (Cm (fst m + 2 ^ (w - snd m) - 1) ltac:(rewrite inb_blk_of; lia)) as C2.
  assert (Above: forall b x, In b (blks_of todo) -> inb w b x -> fst m + 2 ^ (w - snd m) <= x).
  { intros b x Hb I. specialize (F b Hb). unfold below, bsize, blk_of in F; cbn [bv bp] in F. unfold inb in I. lia. }
  assert (Hfa: fst m = a).
  { destruct (proj2 (Cov a) ltac:(lia)) as (b & Hb & I). unfold blks_of in Hb; cbn [map] in Hb. destruct Hb as [<-|Hb].
    - rewrite inb_blk_of in I. lia.
    - pose proof (Above b a Hb I). lia. }
  split; [exact Hfa|split; [lia|]]. intros x. split.
  - intros (b & Hb & I). split; [exact (Above b x Hb I)|].
    apply Cov. exists b. split; [unfold blks_of; cbn [map]; right; exact Hb|exact I].
  - intros Hx. destruct (proj2 (Cov x) ltac:(lia)) as (b & Hb & I). unfold blks_of in Hb; cbn [map] in Hb.
    destruct Hb as [<-|Hb]; [rewrite inb_blk_of in I; lia|]. exists b. split; [exact Hb|exact I].
Qed.

(* ---------------------------------------------------------------- the whole loop, from a good remainder *)
Lemma exclude_each_spec : forall todo rem a r e,
  (forall m, In m todo -> wf_cblk w m /\ aligned w (blk_of m)) ->
  StronglySorted (below w) (blks_of todo) ->
  (forall x, covered w (blks_of todo) x <-> a <= x < r) -> a <= r <= e ->
  good rem -> tiles rem a e ->
  exists l, exclude_each w rem todo = Ok l /\ good l /\ tiles l r e.
Proof.
  induction todo as [|m todo IH]; intros rem a r e Hm S Cov Har G Til.
  - exists rem. split; [reflexivity|split; [exact G|]].
    assert (r = a). { destruct (Z.eq_dec r a); [assumption|exfalso]. destruct (proj2 (Cov a) ltac:(lia)) as (b & [] & _). }
    subst r. exact Til.
  - destruct (Hm m (or_introl eq_refl)) as (Wm & Am).
    destruct (sorted_head m todo a r (fun c Hc => proj2 (Hm c Hc)) S Cov) as (Hfa & Hend & Cov').
    pose proof (aligned_pos w _ Am) as Pm. unfold bsize, blk_of in Pm; cbn [bp] in Pm.
    (* m lies inside one remaining block, at its start *)
    destruct (L_cover w Hw (blks_of rem) (good_aligned rem G) (good_no_sib rem G) (Z.to_nat (w - bp (blk_of m))) (blk_of m) Am)
      as (b0 & Hb0 & Sub0). { destruct Am as (? & _). lia. }
    { intros x I. apply Til. rewrite inb_blk_of in I. lia. }
    apply blks_in in Hb0. destruct Hb0 as (c0 & -> & Hc0).
    assert (Pos: forall c, In c rem -> (forall x, ~ (inb w (blk_of c) x /\ inb w (blk_of m) x)) \/
                                        (fst c = fst m /\ sub w (blk_of m) (blk_of c))).
    { intros c Hc. pose proof (good_aligned rem G (blk_of c) (proj2 (in_blks c rem) Hc)) as Ac.
      pose proof (aligned_pos w _ Ac) as Pc. unfold bsize, blk_of in Pc; cbn [bp] in Pc.
      destruct (Z_lt_le_dec (fst c + 2 ^ (w - snd c) - 1) (fst m)) as [|G1].
      { left. intros x (I1 & I2). rewrite inb_blk_of in I1, I2. lia. }
      destruct (Z_lt_le_dec (fst m + 2 ^ (w - snd m) - 1) (fst c)) as [|G2].
      { left. intros x (I1 & I2). rewrite inb_blk_of in I1, I2. lia. }
      right. set (x := Z.max (fst c) (fst m)).
      assert (I1: inb w (blk_of c) x) by (rewrite inb_blk_of; lia).
      assert (I2: inb w (blk_of m) x) by (rewrite inb_blk_of; lia).
      assert (blk_of c = blk_of c0).
      { destruct G as (_ & _ & D). apply (D (blk_of c) (blk_of c0) x); auto; try (apply in_blks; assumption). }
      apply blk_of_inj in H. subst c0. split; [|exact Sub0].
      assert (Ca: a <= fst c) by (apply Til; exists (blk_of c); split; [apply in_blks, Hc|rewrite inb_blk_of; lia]).
      assert (I3: inb w (blk_of c) (fst m)) by (apply Sub0; rewrite inb_blk_of; lia).
      rewrite inb_blk_of in I3. lia. }
    destruct (efa_spec m Wm Am rem G Pos) as (rem' & E' & G' & C' & _).
    destruct (IH rem' (fst m + 2 ^ (w - snd m)) r e) as (l & El & Gl & Tl); auto.
    + intros m' Hm'. apply Hm. now right.
    + unfold blks_of in S; cbn [map] in S. inversion S; assumption.
    + lia.
    + intros x. rewrite (C' x), (Til x), inb_blk_of. lia.
    + exists l. split; [cbn [exclude_each]; rewrite E'; exact El|split; [exact Gl|exact Tl]].
Qed.

(* ... and from the chosen network itself (host bits allowed): [cidr] minus the ascending blocks of [first, r) *)
Lemma exclude_each_top cidr M r :
  wf_cblk w cidr ->
  (forall m, In m M -> wf_cblk w m /\ aligned w (blk_of m)) ->
  StronglySorted (below w) (blks_of M) ->
  (forall x, covered w (blks_of M) x <-> first_of w cidr <= x < r) ->
  first_of w cidr < r <= last_of w cidr + 1 ->
  exists l, exclude_each w [cidr] M = Ok l /\ good l /\ tiles l r (last_of w cidr + 1).
Proof.
  intros HC Hm S Cov Hr. destruct M as [|m M].
  { exfalso. destruct (proj2 (Cov (first_of w cidr)) ltac:(lia)) as (b & [] & _). }
  destruct (Hm m (or_introl eq_refl)) as (Wm & Am).
  destruct (sorted_head m M (first_of w cidr) r (fun c Hc => proj2 (Hm c Hc)) S Cov) as (Hfa & Hend & Cov').
  destruct (excl_head cidr m HC Wm Am Hfa ltac:(lia)) as (here & Eh & Gh & Th).
  destruct (exclude_each_spec M here (fst m + 2 ^ (w - snd m)) r (last_of w cidr + 1)) as (l & El & Gl & Tl); auto.
  - intros m' Hm'. apply Hm. now right.
  - unfold blks_of in S; cbn [map] in S. inversion S; assumption.
  - pose proof (aligned_pos w _ Am) as Pm. unfold bsize, blk_of in Pm; cbn [bp] in Pm. lia.
  - exists l. split; [|split; [exact Gl|exact Tl]].
    cbn [exclude_each exclude_from_all]. rewrite Eh. cbn [bind]. rewrite app_nil_r. exact El.
Qed.

(* ---------------------------------------------------------------- what a good tiling of [r, e) looks like *)
(* e the end of an aligned block C = [F, e) of prefix p, r = F + c * 2^(w-q) with F < r: every block has a prefix in
   (p, q], no two the same *)
Lemma good_prefixes l F p q r :
  0 <= p <= q -> q <= w -> 0 <= F -> (2 ^ (w - p) | F) -> (2 ^ (w - q) | r) -> F < r ->
  good l -> tiles l r (F + 2 ^ (w - p)) ->
  (forall c, In c l -> p < snd c <= q) /\ NoDup (map snd l).
Proof.
  intros Hpq Hq HF DF Dr Hr G Til.
  pose proof (good_aligned l G) as Al. pose proof (good_rchild l G) as Rc. pose proof (good_no_sib l G) as Ns.
  destruct G as (Ge & Nd & Dj).
  assert (Dq: (2 ^ (w - q) | 2 ^ (w - p))) by (apply pow2_divide; lia).
  assert (Rng: forall c, In c l -> p < snd c <= q).
  { intros c Hc. pose proof (proj2 (in_blks c l) Hc) as Hb. split.
    - destruct (Ge c Hc) as ((_ & Hp) & Ac & _). pose proof (aligned_pos w _ Ac) as Pc.
      unfold bsize, blk_of in Pc; cbn [bp] in Pc.
      assert (C1: r <= fst c) by (apply Til; exists (blk_of c); split; [exact Hb|rewrite inb_blk_of; lia]).
      assert (C2: fst c + 2 ^ (w - snd c) - 1 < F + 2 ^ (w - p))
        by (apply Til; exists (blk_of c); split; [exact Hb|rewrite inb_blk_of; lia]).
      destruct (Z_lt_le_dec p (snd c)) as [|Le]; [assumption|exfalso].
      pose proof (pow2_le (w - p) (w - snd c) ltac:(lia)). lia.
    - apply (coarse_enough w Hw (blks_of l) r (F + 2 ^ (w - p)) q ltac:(lia) Al Ns Dj ltac:(lia) Dr) with (b := blk_of c); auto.
      apply Z.divide_add_r; [eapply Z.divide_trans; [exact Dq|exact DF]|exact Dq]. }
  split; [exact Rng|].
  assert (Inj: forall c c', In c l -> In c' l -> snd c = snd c' -> c = c').
  { intros c c' Hc Hc' E. apply blk_of_inj.
    apply (distinct_sizes w Hw (blks_of l) r (F + 2 ^ (w - p)) Al Rc Dj Til); try (apply in_blks; assumption). exact E. }
  clear - Nd Inj. induction l as [|c l IH]; cbn; constructor.
  - intros Hin. apply in_map_iff in Hin. destruct Hin as (c' & E & Hc').
    inversion Nd; subst. assert (c = c') by (apply Inj; [now left|now right|now symmetry]). subst. contradiction.
  - inversion Nd; subst. apply IH; auto. intros; apply Inj; auto; now right.
Qed.

End Excl.
