(* Proofs/C05_range.v — iprange_to_cidrs returns the canonical list of exactly [start.first, end.last].
   Part 1: facts about one family (Base/Canon vocabulary over model blocks (value, prefixlen)).
   Part 2: what spanning_cidr [s; e] gives (from C13).   Part 3: lifting to lists of net objects (canon_nets). *)
From NV Require Import Base.Tac Base.PyVal Base.Bits Base.Canon Model.Ip Model.Partition Model.Span Model.Merge Model.Sets
  Proofs.C02 Proofs.C09 Proofs.C13 Proofs.NetDen.
From Coq Require Import Sorting.Sorted Sorting.Permutation.
Open Scope Z_scope.

(* ---------------------------------------------------------------- generic list facts *)
Lemma pop_last_app {A} (l : list A) x : pop_last (l ++ [x]) = Ok (l, x).
Proof.
  induction l as [|a l IH]; [reflexivity|].
  cbn [app]. destruct (l ++ [x]) as [|b r] eqn:E; [destruct l; discriminate|].
  change (pop_last (a :: b :: r)) with (do p <- pop_last (b :: r); Ok (a :: fst p, snd p)).
  rewrite IH. reflexivity.
Qed.

Lemma SS_app_inv {A} (R : A -> A -> Prop) l1 l2 :
  StronglySorted R (l1 ++ l2) ->
  StronglySorted R l1 /\ StronglySorted R l2 /\ (forall a b, In a l1 -> In b l2 -> R a b).
Proof.
  induction l1 as [|a l1 IH]; cbn [app]; intros S.
  - split; [constructor|split; [exact S|intros a b []]].
  - inversion S as [|? ? S' F]; subst. destruct (IH S') as (I1 & I2 & I3). rewrite Forall_forall in F.
    split; [|split; [exact I2|]].
    + constructor; [exact I1|]. apply Forall_forall. intros y Hy. apply F. apply in_or_app. now left.
    + intros x y [<-|Hx] Hy; [apply F; apply in_or_app; now right|auto].
Qed.

(* ---------------------------------------------------------------- one family *)
Section W.
Variable w : Z.
Hypothesis Hw : 0 <= w.

Lemma canon_app_inv l1 l2 : canon w (l1 ++ l2) ->
  canon w l1 /\ canon w l2 /\ (forall a b, In a l1 -> In b l2 -> below w a b).
Proof.
  intros (A & S & N). destruct (SS_app_inv _ _ _ S) as (S1 & S2 & S3).
  split; [|split; [|exact S3]].
  - split; [intros b Hb; apply A, in_or_app; now left|split; [exact S1|]].
    intros b1 b2 H1 H2. apply N; apply in_or_app; now left.
  - split; [intros b Hb; apply A, in_or_app; now right|split; [exact S2|]].
    intros b1 b2 H1 H2. apply N; apply in_or_app; now right.
Qed.

(* two aligned blocks that share an address are nested: the finer one lies inside the coarser one *)
Lemma aligned_nested a b x : aligned w a -> aligned w b -> bp b <= bp a -> inb w a x -> inb w b x -> sub w a b.
Proof.
  intros (Pa & Na & Da) (Pb & Nb & Db) Hp Ia Ib y Iy. unfold inb, bsize in *.
  pose proof (pow2_pos (w - bp a) ltac:(lia)) as PA. pose proof (pow2_pos (w - bp b) ltac:(lia)) as PB.
  assert (DD: (2 ^ (w - bp a) | 2 ^ (w - bp b))) by (apply pow2_divide; lia).
  destruct (nested_of_overlap (2 ^ (w - bp a)) (2 ^ (w - bp b)) (bv b) (bv a) PA DD PB Db Da ltac:(lia) ltac:(lia)).
  lia.
Qed.

(* a canonical list followed by a canonical list that starts where the first one's last covered block S' began:
   cl lies below the aligned block X, l2 lies inside X with prefixes longer than X's *)
Lemma canon_app_inside cl X l2 :
  canon w cl -> aligned w X -> canon w l2 ->
  (forall a, In a cl -> below w a X) ->
  (forall b, In b l2 -> bv X <= bv b /\ bp X < bp b) ->
  canon w (cl ++ l2).
Proof.
  intros (A1 & S1 & N1) AX (A2 & S2 & N2) B1 I2.
  split; [|split].
  - intros b Hb. apply in_app_or in Hb. destruct Hb; auto.
  - apply StronglySorted_app; auto. intros a b Ha Hb. specialize (B1 a Ha). destruct (I2 b Hb). unfold below in *. lia.
  - intros b1 b2 H1 H2 Hs. apply in_app_or in H1. apply in_app_or in H2.
    destruct H1 as [H1|H1], H2 as [H2|H2].
    + exact (N1 b1 b2 H1 H2 Hs).
    + (* b1 below X, b2 inside X and finer than X: their parent would straddle the start of X *)
      destruct Hs as (Sp & Sv & Sd). specialize (B1 b1 H1). destruct (I2 b2 H2) as (I2a & I2b).
      destruct (A1 b1 H1) as (P1 & _ & _). destruct AX as (PX & _ & DX).
      unfold below, bsize in *.
      pose proof (pow2_pos (w - bp b1) ltac:(lia)) as Pos.
      assert (DD: (2 * 2 ^ (w - bp b1) | 2 ^ (w - bp X))).
      { rewrite <- pow2_succ by lia. apply pow2_divide. lia. }
      destruct Sd as [k Hk]. destruct DX as [m Hm]. destruct DD as [j Hj].
      rewrite Hj in Hm. set (T := 2 ^ (w - bp b1)) in *. clearbody T.
      assert (k * 2 < m * j * 2) by nia. assert (m * j * 2 < (k + 1) * 2) by nia. lia.
    + destruct Hs as (Sp & Sv & Sd). specialize (B1 b2 H2). destruct (I2 b1 H1) as (I2a & I2b).
      pose proof (aligned_pos w b1 (A2 b1 H1)). pose proof (aligned_pos w b2 (A1 b2 H2)).
      unfold below in *. lia.
    + exact (N2 b1 b2 H1 H2 Hs).
Qed.

(* in a canonical list, the block covering the largest covered address is the last one *)
Lemma canon_last_block cl X top :
  canon w (cl ++ [X]) -> (forall y, covered w (cl ++ [X]) y -> y <= top) -> covered w (cl ++ [X]) top ->
  bv X + bsize w X = top + 1.
Proof.
  intros C Hle Htop. destruct (canon_app_inv _ _ C) as (C1 & (AX & _) & B).
  assert (AXX: aligned w X) by (apply AX; now left). pose proof (aligned_pos w X AXX) as Pos.
  assert (I1: covered w (cl ++ [X]) (bv X + bsize w X - 1)).
  { exists X. split; [apply in_or_app; right; now left|]. unfold inb. lia. }
  apply Hle in I1.
  destruct Htop as (b & Hb & Ib). apply in_app_or in Hb. destruct Hb as [Hb|[<-|[]]].
  - specialize (B b X Hb ltac:(now left)). unfold below, inb in *. lia.
  - unfold inb in Ib. lia.
Qed.

(* a block of a canonical list that ends where the aligned block U ends, U covered: U is inside it *)
Lemma canon_last_contains cl X U :
  canon w (cl ++ [X]) -> aligned w U -> (forall y, inb w U y -> covered w (cl ++ [X]) y) ->
  bv U + bsize w U = bv X + bsize w X -> bv X <= bv U.
Proof.
  intros C AU HU E. pose proof C as (A & S & N).
  destruct (L_cover w Hw (cl ++ [X]) A N (Z.to_nat (w - bp U)) U AU) as (B & HB & SB).
  { destruct AU as (P & _). lia. }
  { exact HU. }
  destruct (canon_app_inv _ _ C) as (_ & _ & Bl).
  pose proof (aligned_pos w U AU) as PU.
  assert (PX: 0 < bsize w X) by (apply aligned_pos, A, in_or_app; right; now left).
  assert (IU: inb w B (bv U + bsize w U - 1)) by (apply SB; unfold inb; lia).
  assert (I0: inb w B (bv U)) by (apply SB; unfold inb; lia).
  apply in_app_or in HB. destruct HB as [HB|[<-|[]]].
  - specialize (Bl B X HB ltac:(now left)). unfold below, inb in *. lia.
  - unfold inb in I0. lia.
Qed.

End W.

(* ---------------------------------------------------------------- the body of iprange_to_cidrs after the span *)
Definition range_left (ver lo : Z) (cidr_span : net) : outcome (list cblk * cblk) :=
  let w := width ver in
  if nfirst width cidr_span <? lo then
    do exclude <- Span.net_of_tuple width ver (lo - 1) w;
    do parts <- cidr_partition w (cblk_of_net cidr_span) (cblk_of_net exclude);
    let '(_, _, after) := parts in
    do p <- pop_last after;
    Ok (fst p, snd p)
  else Ok ([], cblk_of_net cidr_span).

Definition range_right (ver hi : Z) (st : list cblk * cblk) : outcome (list net) :=
  let w := width ver in
  let '(cidr_list, span) := st in
  if net_last w (fst span) (snd span) >? hi then
    do exclude <- Span.net_of_tuple width ver (hi + 1) w;
    do parts <- cidr_partition w span (cblk_of_net exclude);
    let '(before, _, _) := parts in
    Ok (map (net_of_cblk ver) (cidr_list ++ before))
  else Ok (map (net_of_cblk ver) (cidr_list ++ [span])).

Lemma iprange_unfold s e :
  iprange_to_cidrs s e =
  do cidr_span <- spanning_cidr [s; e];
  do st <- range_left (nver s) (nfirst width s) cidr_span;
  range_right (nver s) (nlast width e) st.
Proof. reflexivity. Qed.

Lemma span_net_of_tuple_ok ver v p : 0 <= v < 2 ^ width ver -> 0 <= p <= width ver ->
  Span.net_of_tuple width ver v p = Ok {| nver := ver; nval := v; nplen := p |}.
Proof.
  intros Hv Hp. unfold Span.net_of_tuple, max_int_w.
  case_leb 0 v; [|lia]. case_leb v (2 ^ width ver - 1); [|lia]. case_leb 0 p; [|lia]. case_leb p (width ver); [|lia].
  reflexivity.
Qed.

Section Core.
Variables ver w : Z.
Hypothesis Hwd : width ver = w.
Hypothesis Hw : 0 <= w.
Variables lo hi : Z.

Definition RInv (cl : list cblk) (X : cblk) : Prop :=
  canon w (blks_of (cl ++ [X])) /\
  (forall y, covered w (blks_of (cl ++ [X])) y <-> lo <= y <= fst X + 2 ^ (w - snd X) - 1) /\
  fst X <= hi <= fst X + 2 ^ (w - snd X) - 1 /\ fst X + 2 ^ (w - snd X) <= 2 ^ w.

(* an address as a /w block *)
Lemma addr_cblk v : 0 <= v < 2 ^ w -> wf_cblk w (v, w) /\ first_of w (v, w) = v /\ last_of w (v, w) = v.
Proof.
  intros Hv. unfold wf_cblk, last_of, first_of; cbn [fst snd]. replace (w - w) with 0 by lia.
  change (2 ^ 0) with 1. rewrite Z.mod_1_r. lia.
Qed.

Lemma aligned_first_of c : aligned w (blk_of c) -> first_of w c = fst c /\ last_of w c = fst c + 2 ^ (w - snd c) - 1.
Proof.
  intros (P & N & D). unfold bsize, blk_of in *; cbn [bv bp] in *. unfold last_of, first_of.
  pose proof (pow2_pos (w - snd c) ltac:(lia)). apply Z.mod_divide in D; [|lia]. rewrite D. lia.
Qed.

Lemma left_trim r q :
  0 <= q <= w -> 0 <= r -> r + 2 ^ (w - q) <= 2 ^ w -> (2 ^ (w - q) | r) ->
  r <= lo <= hi -> hi <= r + 2 ^ (w - q) - 1 ->
  (r < lo -> exists U, aligned w U /\ lo <= bv U <= hi /\ bv U + bsize w U = r + 2 ^ (w - q)) ->
  exists cl X, range_left ver lo {| nver := ver; nval := r; nplen := q |} = Ok (cl, X) /\ RInv cl X.
Proof.
  intros Hq Hr Hr2 Dr Hlo Hhi HU.
  pose proof (pow2_pos (w - q) ltac:(lia)) as PS.
  assert (AS: aligned w (blk_of (r, q))) by (unfold aligned, bsize, blk_of; cbn [bv bp fst snd]; auto).
  destruct (aligned_first_of (r, q) AS) as (FS & LS). cbn [fst snd] in FS, LS.
  assert (WS: wf_cblk w (r, q)) by (unfold wf_cblk; cbn [fst snd]; lia).
  unfold range_left, nfirst. cbn [nver nval nplen]. rewrite Hwd.
  assert (F2: floor2 r (w - q) = r) by exact FS.
  rewrite net_first_eq by lia. rewrite F2.
  destruct (Z.ltb_spec r lo) as [Hlt|Hge].
  - (* left trim *)
    rewrite span_net_of_tuple_ok by (rewrite Hwd; lia). cbn [bind].
    unfold cblk_of_net; cbn [nval nplen].
    destruct (addr_cblk (lo - 1) ltac:(lia)) as (WE & FE & LE).
    assert (Hqw: q < w).
    { destruct (Z.eq_dec q w) as [->|]; [|lia]. replace (w - w) with 0 in * by lia. change (2 ^ 0) with 1 in *. lia. }
    assert (SP: splits w (r, q) (lo - 1, w)) by (unfold splits; rewrite FS, LS, FE, LE; cbn [snd]; lia).
    destruct (partition_total w (r, q) (lo - 1, w) Hw WS WE) as (((b & m) & a) & HP).
    destruct (partition_split w (r, q) (lo - 1, w) b m a Hw WS WE SP HP) as (_ & _ & _ & _ & _ & CA & DA & _ & _).
    rewrite HP. cbn [bind]. rewrite FS, LS, LE in DA.
    assert (Hne: a <> []).
    { intros ->. destruct (proj2 (DA lo) ltac:(lia)) as (? & [] & _). }
    destruct (exists_last Hne) as (cl & X & ->). rewrite pop_last_app. cbn [bind fst snd].
    exists cl, X. split; [reflexivity|].
    unfold blks_of in *. rewrite map_app in *. cbn [map] in *.
    assert (AX: aligned w (blk_of X)). { destruct CA as (A & _). apply A, in_or_app. right. now left. }
    assert (EX: bv (blk_of X) + bsize w (blk_of X) = r + 2 ^ (w - q) - 1 + 1).
    { apply (canon_last_block w (map blk_of cl)); [exact CA| |].
      - intros y Hy. apply DA in Hy. lia.
      - apply DA. lia. }
    destruct (HU Hlt) as (U & AU & (U1 & U2) & U3).
    assert (BX: bv (blk_of X) <= bv U).
    { apply (canon_last_contains w Hw (map blk_of cl)); [exact CA|exact AU| |lia].
      intros y Iy. apply DA. pose proof (aligned_pos w U AU). unfold inb in Iy. lia. }
    unfold blk_of, bsize in EX, BX; cbn [bv bp] in EX, BX.
    unfold RInv, blks_of. rewrite map_app. cbn [map].
    split; [exact CA|]. split; [|lia].
    intros y. rewrite DA. lia.
  - (* span starts at lo *)
    cbn [cblk_of_net nval nplen]. exists [], (r, q). split; [reflexivity|].
    unfold RInv. cbn [app fst snd]. split; [apply canon_single; exact AS|]. split; [|lia].
    intros y. unfold blks_of; cbn [map]. rewrite covered_cons.
    unfold inb, bsize, blk_of; cbn [bv bp fst snd]. split; [intros [I|I]; [lia|destruct (covered_nil w y I)]|intros I; left; lia].
Qed.

Lemma right_trim cl X : lo <= hi -> RInv cl X ->
  exists L, range_right ver hi (cl, X) = Ok (map (net_of_cblk ver) L) /\
    canon w (blks_of L) /\ (forall y, covered w (blks_of L) y <-> lo <= y <= hi).
Proof.
  intros Hlh (CA & DA & (X1 & X2) & X3).
  unfold blks_of in CA, DA. rewrite map_app in CA, DA. cbn [map] in CA, DA.
  destruct (canon_app_inv w _ _ CA) as (C1 & (AX0 & _) & BL).
  assert (AX: aligned w (blk_of X)) by (apply AX0; now left).
  destruct (aligned_first_of X AX) as (FX & LX).
  pose proof AX as (PX & NX & DX). unfold blk_of, bsize in PX, NX, DX; cbn [bv bp] in PX, NX, DX.
  pose proof (pow2_pos (w - snd X) ltac:(lia)) as PS.
  assert (WX: wf_cblk w X) by (unfold wf_cblk; lia).
  (* cl covers exactly [lo, fst X) *)
  assert (Dcl: forall y, covered w (map blk_of cl) y <-> lo <= y < fst X).
  { intros y. split.
    - intros I. assert (I2: covered w (map blk_of cl ++ [blk_of X]) y) by (apply covered_app; now left).
      apply DA in I2. destruct I as (b & Hb & Ib). specialize (BL b (blk_of X) Hb ltac:(now left)).
      unfold below, inb, blk_of in *; cbn [bv bp] in *. lia.
    - intros I. assert (I2: covered w (map blk_of cl ++ [blk_of X]) y) by (apply DA; lia).
      apply covered_app in I2. destruct I2 as [I2|I2]; [exact I2|].
      apply covered_cons in I2. destruct I2 as [I2|I2]; [|destruct (covered_nil w y I2)].
      unfold inb, blk_of in I2; cbn [bv bp] in I2. lia. }
  assert (LoX: lo <= fst X).
  { assert (I: covered w (map blk_of cl ++ [blk_of X]) (fst X)).
    { apply covered_app. right. apply covered_cons. left. apply (inb_self w (blk_of X) AX). }
    apply DA in I. lia. }
  unfold range_right. rewrite Hwd.
  rewrite net_last_eq by lia. change (floor2 (fst X) (w - snd X)) with (first_of w X). rewrite FX.
  destruct (Z.gtb_spec (fst X + 2 ^ (w - snd X) - 1) hi) as [Hgt|Hle].
  - rewrite span_net_of_tuple_ok by (rewrite Hwd; lia). cbn [bind]. unfold cblk_of_net; cbn [nval nplen].
    destruct (addr_cblk (hi + 1) ltac:(lia)) as (WE & FE & LE).
    assert (Hqw: snd X < w).
    { destruct (Z.eq_dec (snd X) w) as [E|]; [|lia]. rewrite E in *. replace (w - w) with 0 in * by lia.
      change (2 ^ 0) with 1 in *. lia. }
    assert (SP: splits w X (hi + 1, w)) by (unfold splits; rewrite FX, LX, FE, LE; cbn [snd]; lia).
    destruct (partition_total w X (hi + 1, w) Hw WX WE) as (((b & m) & a) & HP).
    destruct (partition_split w X (hi + 1, w) b m a Hw WX WE SP HP) as (_ & _ & _ & CB & DB & _ & _ & (_ & FB) & _).
    rewrite HP. cbn [bind]. rewrite FX, LX, FE in DB.
    exists (cl ++ b). split; [reflexivity|].
    unfold blks_of in *. rewrite map_app. split.
    + apply (canon_app_inside w (map blk_of cl) (blk_of X)); auto.
      * intros a0 Ha. apply BL; [exact Ha|now left].
      * intros c Hc. apply in_map_iff in Hc. destruct Hc as (c0 & <- & Hc0).
        rewrite Forall_forall in FB. specialize (FB c0 Hc0).
        assert (I: covered w (map blk_of b) (fst c0)).
        { exists (blk_of c0). split; [apply in_map; exact Hc0|].
          apply inb_self. destruct CB as (AB & _). apply AB. apply in_map. exact Hc0. }
        apply DB in I. unfold blk_of; cbn [bv bp]. lia.
    + intros y. rewrite covered_app, Dcl, DB. lia.
  - exists (cl ++ [X]). split; [reflexivity|]. unfold blks_of. rewrite map_app. cbn [map].
    split; [exact CA|]. intros y. rewrite DA. lia.
Qed.

(* the whole body: for an aligned block S = (r, q) of the family containing [lo, hi] and, when it starts below lo,
   an aligned block U inside [lo, last S] that ends with S and contains hi *)
Lemma range_body r q :
  0 <= q <= w -> 0 <= r -> r + 2 ^ (w - q) <= 2 ^ w -> (2 ^ (w - q) | r) ->
  r <= lo <= hi -> hi <= r + 2 ^ (w - q) - 1 ->
  (r < lo -> exists U, aligned w U /\ lo <= bv U <= hi /\ bv U + bsize w U = r + 2 ^ (w - q)) ->
  exists L, (do st <- range_left ver lo {| nver := ver; nval := r; nplen := q |}; range_right ver hi st)
            = Ok (map (net_of_cblk ver) L) /\
    canon w (blks_of L) /\ (forall y, covered w (blks_of L) y <-> lo <= y <= hi).
Proof.
  intros Hq Hr Hr2 Dr Hlo Hhi HU.
  destruct (left_trim r q Hq Hr Hr2 Dr Hlo Hhi HU) as (cl & X & E & I).
  rewrite E. cbn [bind]. apply right_trim; [lia|exact I].
Qed.
End Core.

(* ---------------------------------------------------------------- what the span of [s; e] provides *)
(* pure arithmetic: two aligned blocks (fs, Ss), (fe, Se) with fs <= le; S = (r, T) the smallest aligned block containing
   both, given by its minimality among aligned blocks (r', T') *)
Lemma span_upper_block w s e :
  wf_net s -> wf_net e -> nver s = nver e -> width (nver s) = w -> nf s <= nl e ->
  exists r q, spanning_cidr [s; e] = Ok {| nver := nver s; nval := r; nplen := q |} /\
    0 <= q <= w /\ 0 <= r /\ r + 2 ^ (w - q) <= 2 ^ w /\ (2 ^ (w - q) | r) /\ r <= nf s /\ nl e <= r + 2 ^ (w - q) - 1 /\
    (r < nf s -> exists U, aligned w U /\ nf s <= bv U <= nl e /\ bv U + bsize w U = r + 2 ^ (w - q)).
Proof.
  intros Ws We Hv Hwd Hle.
  pose proof Ws as (Vs & Hvs & Hps). pose proof We as (Ve & Hve & Hpe).
  assert (Hw: 0 <= w) by (rewrite <- Hwd; apply width_nonneg).
  pose proof (nf_eq s Ws) as Fs. pose proof (nl_eq s Ws) as Ls.
  pose proof (nf_eq e We) as Fe. pose proof (nl_eq e We) as Le.
  rewrite <- Hv in Fe, Le, Hve, Hpe. rewrite Hwd in *.
  assert (Ds: (2 ^ (w - nplen s) | nf s)) by (rewrite Fs; apply floor2_divide; lia).
  assert (De: (2 ^ (w - nplen e) | nf e)) by (rewrite Fe; apply floor2_divide; lia).
  pose proof (pow2_pos (w - nplen s) ltac:(lia)) as PSs. pose proof (pow2_pos (w - nplen e) ltac:(lia)) as PSe.
  assert (WF: wf_inputs width (nver s) [s; e]).
  { apply wf_inputs_width. intros n [<-|[<-|[]]]; rewrite ?Hwd; repeat split; try lia. }
  assert (LF: lowest_first width [s; e] (Z.min (nf s) (nf e))).
  { split.
    - destruct (Z.min_spec (nf s) (nf e)) as [(_ & ->)|(_ & ->)]; [exists s|exists e]; (split; [cbn; tauto|reflexivity]).
    - intros n [<-|[<-|[]]]; unfold nf; lia. }
  assert (HL: highest_last width [s; e] (Z.max (nl s) (nl e))).
  { split.
    - destruct (Z.max_spec (nl s) (nl e)) as [(_ & ->)|(_ & ->)]; [exists e|exists s]; (split; [cbn; tauto|reflexivity]).
    - intros n [<-|[<-|[]]]; unfold nl; lia. }
  destruct (span_correct width (nver s) [s; e] _ _ WF ltac:(cbn; lia) LF HL) as
    (r & q & E & Hq & Hr & Hr2 & Dr & Rlo & Rhi & _ & MIN).
  rewrite Hwd in *.
  assert (MIN': forall r' q', 0 <= q' <= w -> (2 ^ (w - q') | r') ->
            r' <= nf s -> r' <= nf e -> nl s <= r' + 2 ^ (w - q') - 1 -> nl e <= r' + 2 ^ (w - q') - 1 ->
            q' <= q /\ r' <= r /\ r + 2 ^ (w - q) - 1 <= r' + 2 ^ (w - q') - 1).
  { intros r' q' Hq' D' A1 A2 A3 A4. apply MIN; [exact Hq'| |].
    - pose proof (pow2_pos (w - q') ltac:(lia)). apply Z.mod_divide; [lia|exact D'].
    - intros n [<-|[<-|[]]]; (split; [exact A1 || exact A2|exact A3 || exact A4]). }
  clear MIN.
  pose proof (pow2_pos (w - q) ltac:(lia)) as PT.
  apply Z.mod_divide in Dr; [|lia].
  exists r, q. split; [exact E|]. split; [exact Hq|]. split; [exact Hr|]. split; [lia|]. split; [exact Dr|].
  split; [lia|]. split; [lia|]. intros Hlt.
  clear E WF LF HL Fs Fe.
  set (fs := nf s) in *. set (fe := nf e) in *. set (ls := nl s) in *. set (le := nl e) in *.
  clearbody fs fe ls le.
  destruct (Z_lt_le_dec fe fs) as [C1|C1].
  - (* e starts below s and overlaps it: s inside e, the span ends at le *)
    destruct (Z_le_gt_dec (nplen e) (nplen s)) as [P|P].
    + assert (DD: (2 ^ (w - nplen s) | 2 ^ (w - nplen e))) by (apply pow2_divide; lia).
      destruct (nested_of_overlap _ _ fe fs PSs DD PSe De Ds ltac:(lia) ltac:(lia)) as (N1 & N2).
      destruct (MIN' fe (nplen e) ltac:(lia) De ltac:(lia) ltac:(lia) ltac:(lia) ltac:(lia)) as (_ & _ & M).
      exists {| bv := le; bp := w |}. unfold aligned, bsize; cbn [bv bp]. replace (w - w) with 0 by lia.
      change (2 ^ 0) with 1. split; [split; [lia|split; [lia|apply Z.divide_1_l]]|]. lia.
    + assert (DD: (2 ^ (w - nplen e) | 2 ^ (w - nplen s))) by (apply pow2_divide; lia).
      destruct (nested_of_overlap _ _ fs fe PSe DD PSs Ds De ltac:(lia) ltac:(lia)) as (N1 & N2). lia.
  - destruct (Z_lt_le_dec le ls) as [C2|C2].
    + (* e inside s: the span is s and starts at lo *)
      exfalso. destruct (Z_le_gt_dec (nplen s) (nplen e)) as [P|P].
      * assert (DD: (2 ^ (w - nplen e) | 2 ^ (w - nplen s))) by (apply pow2_divide; lia).
        destruct (nested_of_overlap _ _ fs fe PSe DD PSs Ds De ltac:(lia) ltac:(lia)) as (N1 & N2).
        destruct (MIN' fs (nplen s) ltac:(lia) Ds ltac:(lia) ltac:(lia) ltac:(lia) ltac:(lia)) as (_ & M & _). lia.
      * assert (DD: (2 ^ (w - nplen s) | 2 ^ (w - nplen e))) by (apply pow2_divide; lia).
        destruct (nested_of_overlap _ _ fe fs PSs DD PSe De Ds ltac:(lia) ltac:(lia)) as (N1 & N2). lia.
    + (* lo = lowest first, hi = highest last: the span is minimal for [lo, hi]; U = its upper half *)
      assert (Hqw: q < w).
      { destruct (Z.eq_dec q w) as [->|]; [|lia]. replace (w - w) with 0 in * by lia. change (2 ^ 0) with 1 in *. lia. }
      assert (E2: 2 ^ (w - q) = 2 * 2 ^ (w - (q + 1))).
      { rewrite <- pow2_succ by lia. f_equal. lia. }
      pose proof (pow2_pos (w - (q + 1)) ltac:(lia)) as PH.
      remember (2 ^ (w - (q + 1))) as H eqn:EH.
      assert (DH: (H | r)). { destruct Dr as [k Hk]. exists (k * 2). lia. }
      assert (DH2: (H | r + H)) by (apply Z.divide_add_r; [exact DH|apply Z.divide_refl]).
      exists {| bv := r + H; bp := q + 1 |}. unfold aligned, bsize; cbn [bv bp]. rewrite <- EH.
      split; [split; [lia|split; [lia|exact DH2]]|].
      split; [|lia].
      split.
      * destruct (Z_le_gt_dec fs (r + H)) as [|G]; [assumption|exfalso].
        destruct (MIN' (r + H) (q + 1) ltac:(lia)) as (M & _); rewrite <- ?EH; try lia. exact DH2.
      * destruct (Z_le_gt_dec (r + H) le) as [|G]; [assumption|exfalso].
        destruct (MIN' r (q + 1) ltac:(lia)) as (M & _); rewrite <- ?EH; try lia. exact DH.
Qed.

(* ---------------------------------------------------------------- lists of net objects: families *)
Lemma fam_app ver l1 l2 : fam ver (l1 ++ l2) = fam ver l1 ++ fam ver l2.
Proof. apply filter_app. Qed.

Lemma fam_blks_app ver l1 l2 : fam_blks ver (l1 ++ l2) = fam_blks ver l1 ++ fam_blks ver l2.
Proof. unfold fam_blks. rewrite fam_app. apply map_app. Qed.

Lemma fam_all ver l : (forall n, In n l -> nver n = ver) -> fam ver l = l.
Proof.
  induction l as [|a l IH]; intros H; [reflexivity|]. cbn [fam filter].
  rewrite (proj2 (Z.eqb_eq _ _) (H a ltac:(now left))). f_equal. apply IH. intros n Hn. apply H. now right.
Qed.

Lemma fam_none ver l : (forall n, In n l -> nver n <> ver) -> fam ver l = [].
Proof.
  induction l as [|a l IH]; intros H; [reflexivity|]. cbn [fam filter].
  rewrite (proj2 (Z.eqb_neq _ _) (H a ltac:(now left))). apply IH. intros n Hn. apply H. now right.
Qed.

Lemma in_fam ver l n : In n (fam ver l) <-> In n l /\ nver n = ver.
Proof. unfold fam. rewrite filter_In, Z.eqb_eq. tauto. Qed.

Lemma fam_fam ver l : fam ver (fam ver l) = fam ver l.
Proof. apply fam_all. intros n Hn. apply in_fam in Hn. tauto. Qed.

Lemma fam_fam_other v1 v2 l : v1 <> v2 -> fam v1 (fam v2 l) = [].
Proof. intros N. apply fam_none. intros n Hn. apply in_fam in Hn. lia. Qed.

(* the denotation of a list of well-formed networks, family by family, in Base/Canon vocabulary *)
Lemma den_fam l ver x : Forall wf_net l -> (den l ver x <-> covered (width ver) (fam_blks ver l) x).
Proof.
  intros F. rewrite Forall_forall in F. unfold den, covered, fam_blks. split.
  - intros (n & Hn & I). pose proof I as (Ev & _). apply (in_net_inb n ver x (F n Hn)) in I. destruct I as (_ & I).
    exists (net_blk n). split; [apply in_map, in_fam; tauto|rewrite <- Ev; exact I].
  - intros (b & Hb & I). apply in_map_iff in Hb. destruct Hb as (n & <- & Hn). apply in_fam in Hn. destruct Hn as (Hn & Ev).
    exists n. split; [exact Hn|]. apply (in_net_inb n ver x (F n Hn)). split; [exact Ev|rewrite Ev; exact I].
Qed.

Lemma den_wrong_version l ver x : Forall wf_net l -> den l ver x -> valid_ver ver = true.
Proof.
  intros F (n & Hn & (Ev & _)). rewrite Forall_forall in F. destruct (F n Hn) as (V & _). rewrite <- Ev. exact V.
Qed.

Lemma wfh_wf l : Forall wfh l -> Forall wf_net l.
Proof. apply Forall_impl. intros n (W & _). exact W. Qed.

(* a canonical list of one family is a canon_nets list *)
Lemma canon_nets_one_family ver l :
  valid_ver ver = true -> Forall wfh l -> (forall n, In n l -> nver n = ver) -> canon (width ver) (map net_blk l) ->
  canon_nets l.
Proof.
  intros V F E C. destruct (width_cases ver V) as [(-> & Hw)|(-> & Hw)]; rewrite Hw in C.
  - assert (E4: fam 4 l = l) by (apply fam_all; exact E).
    assert (E6: fam 6 l = []) by (apply fam_none; intros n Hn; rewrite (E n Hn); lia).
    unfold canon_nets, fam_blks. rewrite E4, E6. cbn [map]. rewrite app_nil_r.
    split; [exact F|]. split; [reflexivity|]. split; [exact C|apply canon_nil].
  - assert (E6: fam 6 l = l) by (apply fam_all; exact E).
    assert (E4: fam 4 l = []) by (apply fam_none; intros n Hn; rewrite (E n Hn); lia).
    unfold canon_nets, fam_blks. rewrite E4, E6. cbn [map app].
    split; [exact F|]. split; [reflexivity|]. split; [apply canon_nil|exact C].
Qed.

(* model blocks (value, prefixlen) of one family as net objects *)
Lemma net_of_cblk_facts ver c : valid_ver ver = true -> aligned (width ver) (blk_of c) -> fst c + 2 ^ (width ver - snd c) <= 2 ^ width ver ->
  wfh (net_of_cblk ver c) /\ net_blk (net_of_cblk ver c) = blk_of c.
Proof.
  intros V A B. pose proof (width_nonneg ver) as Hw.
  destruct (aligned_first_of (width ver) c A) as (FX & _). pose proof A as (P & N & _).
  unfold blk_of in P, N; cbn [bv bp] in P, N. pose proof (pow2_pos (width ver - snd c) ltac:(lia)).
  assert (W: wf_net (net_of_cblk ver c)) by (unfold wf_net, net_of_cblk; cbn [nver nval nplen]; repeat split; try assumption; lia).
  assert (Fn: nf (net_of_cblk ver c) = fst c).
  { rewrite nf_eq by exact W. cbn [net_of_cblk nver nval nplen]. exact FX. }
  split; [split; [exact W|unfold hostfree; rewrite Fn; reflexivity]|].
  unfold net_blk. rewrite Fn. reflexivity.
Qed.

Lemma canon_nets_of_cblks ver L :
  valid_ver ver = true -> canon (width ver) (blks_of L) ->
  (forall y, covered (width ver) (blks_of L) y -> y < 2 ^ width ver) ->
  canon_nets (map (net_of_cblk ver) L) /\
  (forall v x, den (map (net_of_cblk ver) L) v x <-> v = ver /\ covered (width ver) (blks_of L) x).
Proof.
  intros V C B. pose proof (width_nonneg ver) as Hw. pose proof C as (A & _).
  assert (FA: forall c, In c L -> wfh (net_of_cblk ver c) /\ net_blk (net_of_cblk ver c) = blk_of c).
  { intros c Hc. assert (Ac: aligned (width ver) (blk_of c)) by (apply A, in_map, Hc).
    apply net_of_cblk_facts; [exact V|exact Ac|].
    pose proof (aligned_pos _ _ Ac) as Pos.
    assert (I: covered (width ver) (blks_of L) (fst c + 2 ^ (width ver - snd c) - 1)).
    { exists (blk_of c). split; [apply in_map, Hc|]. unfold inb, bsize, blk_of in *; cbn [bv bp] in *. lia. }
    apply B in I. lia. }
  assert (EM: map net_blk (map (net_of_cblk ver) L) = blks_of L).
  { unfold blks_of. rewrite map_map. apply map_ext_in. intros c Hc. apply FA, Hc. }
  assert (FW: Forall wfh (map (net_of_cblk ver) L)).
  { apply Forall_forall. intros n Hn. apply in_map_iff in Hn. destruct Hn as (c & <- & Hc). apply FA, Hc. }
  assert (EV: forall n, In n (map (net_of_cblk ver) L) -> nver n = ver).
  { intros n Hn. apply in_map_iff in Hn. destruct Hn as (c & <- & Hc). reflexivity. }
  split.
  - apply (canon_nets_one_family ver); auto. rewrite EM. exact C.
  - intros v x. split.
    + intros D. pose proof D as (n & Hn & (Ev & _)). rewrite (EV n Hn) in Ev. subst v. split; [reflexivity|].
      apply den_fam in D; [|apply wfh_wf, FW]. unfold fam_blks in D. rewrite fam_all, EM in D by exact EV. exact D.
    + intros (-> & D). apply den_fam; [apply wfh_wf, FW|]. unfold fam_blks. rewrite fam_all, EM by exact EV. exact D.
Qed.

(* ---------------------------------------------------------------- the theorem *)
Theorem C05_range : iprange_to_cidrs_spec.
Proof.
  intros s e Ws We Hv Hle.
  pose proof Ws as (V & _). pose proof (width_nonneg (nver s)) as Hw.
  destruct (span_upper_block (width (nver s)) s e Ws We Hv eq_refl Hle) as (r & q & E & Hq & Hr & Hr2 & Dr & Rlo & Rhi & HU).
  pose proof (nf_eq s Ws) as Fs. pose proof (nl_eq e We) as Le. pose proof (nf_eq e We) as Fe.
  assert (Hlh: nf s <= nl e) by exact Hle.
  destruct (range_body (nver s) (width (nver s)) eq_refl Hw (nf s) (nl e) r q Hq Hr Hr2 Dr ltac:(lia) Rhi HU) as (L & EL & CL & DL).
  exists (map (net_of_cblk (nver s)) L). split.
  - rewrite iprange_unfold, E. cbn [bind]. exact EL.
  - destruct (canon_nets_of_cblks (nver s) L V CL) as (K1 & K2).
    { intros y Hy. apply DL in Hy. pose proof (pow2_pos (width (nver s) - q) ltac:(lia)). lia. }
    split; [exact K1|]. intros ver x. rewrite K2, DL. tauto.
Qed.
