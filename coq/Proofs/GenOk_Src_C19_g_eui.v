(* Proofs/GenOk_Src_C19_g_eui.v -- source tie for C19, tag SRCG, second part: the identifier classes OUI / IAB of
   netaddr/eui/__init__.py (Gen/pysrc_euig_gen.v).  The constructors on an int argument against Model/Ieee.v oui_lookup / iab_lookup:
   the model takes the index rows of the identifier with the bytes already read, the generated definitions take the index dict
   (ieee.OUI_INDEX / IAB_INDEX) and the registry file (REGISTRY_FILE name offset size = seek + read + decode) as Section variables;
   `reg_rows` reads the one from the other.  Hypothesis: the index has no EMPTY entry for the identifier (the code tests `key in
   index`, the model `rows = []`; ieee.load_index creates an entry only together with its first row).  The small methods (==, !=,
   reg_count, registration, __getstate__, __setstate__, __repr__, __hex__, __oct__) have no model counterpart and are stated directly. *)
From Coq Require Import String Ascii.
From NV Require Import Base.Tac Base.PyVal Base.PyStr Model.Ip Model.Ieee Model.Eui Model.SrcPrelude Model.SrcPreludeStr Model.SrcPreludeSRCE
  Model.SrcPreludeViews Model.SrcPreludeEui2 Model.SrcPreludeIeee Model.SrcPreludeG Gen.pysrc_eui_gen Gen.pysrc_euic_gen Gen.pysrc_euib_gen Gen.pysrc_euig_gen
  Proofs.GenOk_Src_C19_b Proofs.GenOk_Src_C08_f Proofs.Coherence_Text.
Import ListNotations.
Open Scope list_scope.
Open Scope Z_scope.

(* the model's rows of identifier k: its index rows with what the file answers for each *)
Definition reg_rows (index : eindex) (read : Z -> Z -> string) (k : Z) : list idxrow :=
  map (fun os => (fst os, snd os, read (fst os) (snd os))) (match py_eidx_find index k with Some l => l | None => [] end).

Lemma omap_keep5_inv {A} (x : outcome orec) (y : outcome A) f : omap keep5 x = omap f y ->
  match x, y with Ok r, Ok r' => keep5 r = f r' | Raise e, Raise e' => e = e' | _, _ => False end.
Proof. destruct x, y; cbn; intros H; inversion H; auto. Qed.

Lemma oui_loop_ok FILE v rows : forall acc,
  omap (map keep5) (src_OUI_init_int_loop1 FILE v rows acc) =
  omap (fun rs => map keep5 acc ++ rs) (oui_records v (map (fun os => (fst os, snd os, FILE "oui.txt"%string (fst os) (snd os))) rows)).
Proof.
  induction rows as [|[o s] t IH]; intros acc.
  - cbn. rewrite app_nil_r. reflexivity.
  - cbn [src_OUI_init_int_loop1 map oui_records fst snd]. cbv zeta.
    pose proof (omap_keep5_inv _ _ _ (src_OUI_parse_data_ok v (FILE "oui.txt"%string o s) o s)) as H.
    destruct (src_OUI_parse_data v (FILE "oui.txt"%string o s) o s) as [r|e], (parse_data v (FILE "oui.txt"%string o s)) as [r'|e'];
      try contradiction; cbn [bind].
    + rewrite IH. rewrite map_app. cbn [map]. rewrite H.
      destruct (oui_records v _); cbn; [rewrite <- app_assoc; reflexivity|reflexivity].
    + subst. reflexivity.
Qed.

Lemma src_OUI_init_ok OUI FILE v0 oui : py_eidx_find OUI oui <> Some [] ->
  omap (fun st => (fst st, map keep5 (snd st))) (src_OUI_init_int OUI FILE v0 oui) =
  omap (fun rs => (oui, rs)) (oui_lookup oui (reg_rows OUI (FILE "oui.txt"%string) oui)).
Proof.
  intros Hne. unfold src_OUI_init_int, oui_lookup, reg_rows, py_eidx_mem, py_eidx_get. cbv zeta.
  change 0xffffff with 16777215.
  destruct ((0 <=? oui) && (oui <=? 16777215)); [|reflexivity].
  destruct (py_eidx_find OUI oui) as [l|]; [|reflexivity]. cbn [bind].
  destruct l as [|os t]; [contradiction Hne; reflexivity|].
  pose proof (oui_loop_ok FILE oui (os :: t) []) as H. cbn [map app] in H.
  cbn [map]. destruct (src_OUI_init_int_loop1 FILE oui (os :: t) []) as [rs|e]; cbn [omap bind] in *.
  - destruct (oui_records oui _) as [rs'|e'] eqn:E; cbn [omap] in H; inversion H. cbn. reflexivity.
  - destruct (oui_records oui _) as [rs'|e'] eqn:E; cbn [omap] in H; inversion H. reflexivity.
Qed.

Lemma src_IAB_init_ok IAB FILE v0 iab :
  (forall k, iab_value iab = Ok k -> py_eidx_find IAB k <> Some []) ->
  omap (fun st => (fst st, keep5 (snd st))) (src_IAB_init_int IAB FILE v0 iab false) =
  (do k <- iab_value iab; omap (fun r => (k, r)) (iab_lookup iab (reg_rows IAB (FILE "iab.txt"%string) k))).
Proof.
  intros Hne. unfold src_IAB_init_int, iab_lookup, reg_rows, py_eidx_mem, py_eidx_get. cbv zeta.
  rewrite src_split_iab_mac_ok, coh_iab_value.
  destruct (split_iab_mac iab false) as [[k u]|e] eqn:Es; cbn [omap bind fst snd py_pair_of_list]; [|reflexivity].
  assert (Hk : iab_value iab = Ok k) by (rewrite coh_iab_value, Es; reflexivity).
  specialize (Hne k Hk).
  destruct (py_eidx_find IAB k) as [l|]; [|reflexivity]. cbn [bind].
  destruct l as [|[o s] t]; [contradiction Hne; reflexivity|].
  cbn [py_index map fst snd bind]. unfold py_index. cbn.
  unfold py_rec_set. cbn.
  pose proof (omap_keep5_inv _ _ _ (src_IAB_parse_data_ok k (FILE "iab.txt"%string o s) o s 0 "" "" [] o s)) as H.
  unfold parse_data, pdata0.
  destruct (src_IAB_parse_data k (FILE "iab.txt"%string o s) o s 0 "" "" [] o s) as [r|e],
           (parse_lines k (0, ""%string, []) (split_nl (FILE "iab.txt"%string o s))) as [r'|e']; try contradiction; cbn.
  - rewrite H. reflexivity.
  - subst. reflexivity.
Qed.

(* the small methods, stated directly *)
Lemma src_id_small_ok :
  (forall v o, src_OUI_eq_oui v o = (v =? o) /\ src_OUI_ne_oui v o = negb (v =? o) /\
               src_IAB_eq_iab v o = (v =? o) /\ src_IAB_ne_iab v o = negb (v =? o)) /\
  (forall v (recs : list orec), src_OUI_reg_count v recs = Z.of_nat (List.length recs)) /\
  (forall v (recs : list orec) i, src_OUI_registration v recs i = py_index recs i) /\
  (forall v (recs : list orec), src_OUI_getstate v recs = (v, recs)) /\
  (forall v0 v (recs : list orec), src_OUI_setstate v0 (v, recs) = (v, recs)) /\
  (forall v (r : orec), src_IAB_registration v r = r /\ src_IAB_getstate v r = (v, r)) /\
  (forall v0 v (r : orec), src_IAB_setstate v0 (v, r) = (v, r)) /\
  (forall v, src_OUI_repr v = omap (fun s => append "OUI('" (append s "')")) (src_OUI_str v)) /\
  (forall v, src_IAB_repr v = omap (fun s => append "IAB('" (append s "')")) (src_IAB_str v)) /\
  (forall v, src_BaseIdentifier_hex v = AddrOps.view_hex v) /\
  (forall v, src_BaseIdentifier_oct v = if v =? 0 then "0"%string else py_fmt_oct "0" v).
Proof.
  repeat split; intros; try reflexivity.
  unfold src_OUI_registration, orec in *. destruct (py_index recs i); reflexivity.
Qed.

Lemma C19_tie_g_eui_ok :
  (forall OUI FILE v0 oui, py_eidx_find OUI oui <> Some [] ->
     omap (fun st => (fst st, map keep5 (snd st))) (src_OUI_init_int OUI FILE v0 oui) =
     omap (fun rs => (oui, rs)) (oui_lookup oui (reg_rows OUI (FILE "oui.txt"%string) oui))) /\
  (forall IAB FILE v0 iab, (forall k, iab_value iab = Ok k -> py_eidx_find IAB k <> Some []) ->
     omap (fun st => (fst st, keep5 (snd st))) (src_IAB_init_int IAB FILE v0 iab false) =
     (do k <- iab_value iab; omap (fun r => (k, r)) (iab_lookup iab (reg_rows IAB (FILE "iab.txt"%string) k)))).
Proof. split; [exact src_OUI_init_ok | exact src_IAB_init_ok]. Qed.

(* EUI.__repr__ and EUI.info: no model counterpart; stated directly over the translated __str__ and the translated constructors *)
Definition reg_of {A} (o : option Z) (f : Z -> outcome A) : outcome A :=
  match o with None => Raise AttributeError | Some e => f e end.

Lemma C19_tie_g_info_ok :
  (forall ver v d, src_EUI_repr ver v d = omap (fun s => append "EUI('" (append s "')")) (src_EUI_str ver v d)) /\
  (forall OUI IAB FILE ver v, src_EUI_info OUI IAB FILE ver v =
     (do r0 <- reg_of (src_EUI_oui ver v) (fun e => do st <- src_OUI_init_int OUI FILE 0 e; SrcPreludeSRCE.py_index (snd st) 0);
      if src_EUI_is_iab ver v
      then do r <- reg_of (src_EUI_iab ver v) (fun e => do st <- src_IAB_init_int IAB FILE 0 e false; Ok (snd st)); Ok (r0, Some r)
      else Ok (r0, None))).
Proof.
  split; [reflexivity|]. intros OUI IAB FILE ver v. unfold src_EUI_info, reg_of, src_OUI_registration, src_IAB_registration. cbv zeta.
  destruct (src_EUI_oui ver v) as [e|]; [|reflexivity].
  destruct (src_OUI_init_int OUI FILE 0 e) as [st|x]; [|reflexivity]. cbn [bind fst snd].
  unfold orec. destruct (SrcPreludeSRCE.py_index (snd st) 0) as [r0|x]; [|reflexivity]. cbn [bind fst snd].
  destruct (src_EUI_is_iab ver v); [|reflexivity].
  destruct (src_EUI_iab ver v) as [i|]; [|reflexivity].
  destruct (src_IAB_init_int IAB FILE 0 i false) as [st2|x]; reflexivity.
Qed.
