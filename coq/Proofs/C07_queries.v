(* Proofs/C07_queries.v — C07 part B (queries of an IPSet): final statements under the order-free invariant SetInv of
   Proofs/NetDen.v, assembled from C07_qbase / C07_qsort / C07_qranges / C07_qsize, and the non-vacuity example. *)
From NV Require Import Base.Tac Base.PyVal Base.Bits Base.Canon Model.Ip Model.Partition Model.Span Model.Merge Model.Sets
  Proofs.C02 Proofs.NetDen.
From NV Require Export Proofs.C07_qbase Proofs.C07_qsort Proofs.C07_qranges Proofs.C07_qsize.
From Coq Require Import Sorting.Sorted Sorting.Permutation.
Open Scope Z_scope.

(* 1. membership of a network (host bits allowed) / of an address *)
Lemma C07q_contains d n : SetInv d -> wf_net n ->
  (set_contains d n = true <-> forall x, in_net n (nver n) x -> den d (nver n) x).
Proof. intros I W. apply q_contains; [apply q_inv_wf, I|apply q_inv_nosib, I|exact W]. Qed.

Lemma C07q_contains_addr d ver v : SetInv d -> valid_ver ver = true -> 0 <= v < 2 ^ width ver ->
  (set_contains d (addr_net ver v) = true <-> den d ver v).
Proof. intros I. apply q_contains_addr; [apply q_inv_wf, I|apply q_inv_nosib, I]. Qed.

(* 2. issubset / issuperset (also <= and >=) *)
Lemma C07q_subset a b : SetInv a -> SetInv b ->
  (set_issubset a b = true <-> forall ver x, den a ver x -> den b ver x) /\
  (set_issuperset a b = true <-> forall ver x, den b ver x -> den a ver x).
Proof.
  intros Ia Ib. split.
  - apply q_subset; [apply q_inv_wf, Ia|apply q_inv_wf, Ib|apply q_inv_nosib, Ib].
  - apply q_superset; [apply q_inv_wf, Ia|apply q_inv_wf, Ib|apply q_inv_nosib, Ia].
Qed.

(* 3. size *)
Lemma q_sum_zero d : Forall wf_net d -> (q_sum d = 0 <-> d = []).
Proof.
  intros F. split; [|intros ->; reflexivity]. destruct F as [|k d W F]; [reflexivity|].
  cbn [q_sum fold_right]. fold (q_sum d). pose proof (q_sum_nonneg d F). pose proof (q_nsize_pos k W). lia.
Qed.

Lemma C07q_size d : SetInv d ->
  set_size d = fold_right (fun k acc => 2 ^ (width (nver k) - nplen k) + acc) 0 d /\
  0 <= set_size d /\
  (set_size d = 0 <-> forall ver x, ~ den d ver x).
Proof.
  intros I. pose proof (q_inv_wf d I) as F. split; [apply q_size_pow, F|]. rewrite q_size_sum.
  split; [apply q_sum_nonneg, F|]. rewrite (q_sum_zero d F). split.
  - intros -> ver x. apply den_nil.
  - intros H. destruct d as [|k d]; [reflexivity|exfalso]. inversion F as [|? ? W _]; subst.
    pose proof (q_nf_le_nl k W). apply (H (nver k) (nf k)). exists k. split; [now left|split; [reflexivity|lia]].
Qed.

Lemma C07q_size_card a b : SetInv a -> SetInv b -> (forall ver x, den a ver x -> den b ver x) ->
  set_size a <= set_size b /\ (set_size a = set_size b <-> forall ver x, den b ver x -> den a ver x).
Proof. exact (q_size_card a b). Qed.

Lemma C07q_size_ext a b : SetInv a -> SetInv b -> (forall ver x, den a ver x <-> den b ver x) -> set_size a = set_size b.
Proof.
  intros Ia Ib E. apply (q_size_card a b Ia Ib); intros ver x; apply E.
Qed.

(* 4. < and >, == *)
Lemma C07q_order a b : SetInv a -> SetInv b ->
  (set_lt a b = true <->
   (forall ver x, den a ver x -> den b ver x) /\ ~ (forall ver x, den b ver x -> den a ver x)) /\
  (set_gt a b = true <->
   (forall ver x, den b ver x -> den a ver x) /\ ~ (forall ver x, den a ver x -> den b ver x)).
Proof. intros Ia Ib. split; [exact (q_lt a b Ia Ib)|exact (q_gt a b Ia Ib)]. Qed.

Lemma C07q_eq a b : SetInv a -> SetInv b ->
  (dict_eqb a b = true <-> forall ver x, den a ver x <-> den b ver x).
Proof. exact (q_eq a b). Qed.

(* 5. __len__ *)
Lemma C07q_len d :
  (set_size d <= 2 ^ 63 - 1 -> set_len d = Ok (set_size d)) /\
  (2 ^ 63 - 1 < set_size d -> set_len d = Raise IndexError).
Proof. exact (q_len d). Qed.

(* 6. iter_ipranges: the maximal intervals, ascending, IPv4 first *)
Lemma C07q_ranges d : SetInv d ->
  (forall v s e, In (v, s, e) (set_iter_ipranges d) ->
     s <= e /\ (forall x, s <= x <= e -> den d v x) /\ ~ den d v (s - 1) /\ ~ den d v (e + 1)) /\
  StronglySorted (fun r r' => q_rv r < q_rv r' \/ (q_rv r = q_rv r' /\ q_re r + 1 < q_rs r')) (set_iter_ipranges d) /\
  (forall ver x, den d ver x <-> exists s e, In (ver, s, e) (set_iter_ipranges d) /\ s <= x <= e).
Proof.
  intros I. destruct (q_ranges d I) as (F & S & D). split; [|split; [exact S|]].
  - intros v s e H. exact (q_ranges_maximal d (v, s, e) I H).
  - intros ver x. rewrite <- D. split.
    + intros ([[v s] e] & Hr & Ev & Hx). unfold q_rv, q_rs, q_re in *; cbn in *. subst v. exists s, e. split; assumption.
    + intros (s & e & Hr & Hx). exists (ver, s, e). split; [exact Hr|split; [reflexivity|exact Hx]].
Qed.

(* 7. iscontiguous / iprange *)
Lemma C07q_contiguous d : SetInv d ->
  (set_iscontiguous d = true <->
   (forall v x, ~ den d v x) \/ exists ver s e, forall v x, den d v x <-> v = ver /\ s <= x <= e).
Proof. exact (q_contiguous d). Qed.

Lemma C07q_iprange d : SetInv d ->
  match set_iprange d with
  | Ok None => forall v x, ~ den d v x
  | Ok (Some (ver, s, e)) => s <= e /\ forall v x, den d v x <-> v = ver /\ s <= x <= e
  | Raise ValueError =>
      ~ ((forall v x, ~ den d v x) \/ exists ver s e, forall v x, den d v x <-> v = ver /\ s <= x <= e)
  | Raise _ => False
  end.
Proof. exact (q_iprange d). Qed.

Lemma C07q_iprange_total d : SetInv d ->
  (set_iscontiguous d = true -> exists o, set_iprange d = Ok o) /\
  (set_iscontiguous d = false -> set_iprange d = Raise ValueError).
Proof. exact (q_iprange_total d). Qed.

(* 8. iteration order: the sorted blocks *)
Lemma C07q_iter_order d : SetInv d ->
  Permutation (sorted d) d /\
  StronglySorted (fun k1 k2 => nver k1 < nver k2 \/ (nver k1 = nver k2 /\ nl k1 < nf k2)) (sorted d) /\
  (forall l1 k1 k2 l2, sorted d = l1 ++ k1 :: k2 :: l2 -> nver k1 < nver k2 \/ (nver k1 = nver k2 /\ nl k1 < nf k2)).
Proof.
  intros I. split; [apply q_sorted_perm|split; [exact (q_sorted_before d I)|]].
  intros l1 k1 k2 l2. apply q_iter_order, I.
Qed.

(* ---------------------------------------------------------------- non-vacuity *)
(* 10.0.0.0/25, 10.0.0.192/26, ::/127, 255.255.255.254/31 (insertion order as stored) *)
Definition q_ex : dict :=
  [ {| nver := 4; nval := 167772160; nplen := 25 |}; {| nver := 4; nval := 167772352; nplen := 26 |};
    {| nver := 6; nval := 0; nplen := 127 |}; {| nver := 4; nval := 4294967294; nplen := 31 |} ].

Lemma q_ex_inv : SetInv q_ex.
Proof.
  assert (F : Forall wfh q_ex).
  { unfold q_ex. repeat constructor; vm_compute; intuition discriminate. }
  set (k1 := {| nver := 4; nval := 167772160; nplen := 25 |}).
  set (k2 := {| nver := 4; nval := 167772352; nplen := 26 |}).
  set (k3 := {| nver := 6; nval := 0; nplen := 127 |}).
  set (k4 := {| nver := 4; nval := 4294967294; nplen := 31 |}).
  assert (A1 : nf k1 = 167772160 /\ nl k1 = 167772287) by (vm_compute; split; reflexivity).
  assert (A2 : nf k2 = 167772352 /\ nl k2 = 167772415) by (vm_compute; split; reflexivity).
  assert (A3 : nf k3 = 0 /\ nl k3 = 1) by (vm_compute; split; reflexivity).
  assert (A4 : nf k4 = 4294967294 /\ nl k4 = 4294967295) by (vm_compute; split; reflexivity).
  assert (V : nver k1 = 4 /\ nver k2 = 4 /\ nver k3 = 6 /\ nver k4 = 4) by (repeat split; reflexivity).
  assert (P : nplen k1 = 25 /\ nplen k2 = 26 /\ nplen k3 = 127 /\ nplen k4 = 31) by (repeat split; reflexivity).
  assert (B : 2 ^ (width 4 - 25) = 128 /\ 2 ^ (width 4 - 26) = 64 /\ 2 ^ (width 6 - 127) = 2 /\ 2 ^ (width 4 - 31) = 2)
    by (vm_compute; repeat split; reflexivity).
  change q_ex with [k1; k2; k3; k4] in *. clearbody k1 k2 k3 k4.
  split; [exact F|split].
  - repeat (apply FOP_cons || apply FOP_nil || apply Forall_cons || apply Forall_nil);
      intros (ver & x & [V1 I1] & [V2 I2]); lia.
  - intros a b Ha Hb [Ev (Hp & Hv & _)]. unfold net_blk, bsize in Hp, Hv. cbn [bv bp] in Hp, Hv.
    cbn [In] in Ha, Hb.
    destruct Ha as [<-|[<-|[<-|[<-|[]]]]], Hb as [<-|[<-|[<-|[<-|[]]]]]; try lia;
      destruct V as (V1 & V2 & V3 & V4), P as (P1 & P2 & P3 & P4);
      rewrite ?V1, ?V2, ?V3, ?V4, ?P1, ?P2, ?P3, ?P4 in Hv; lia.
Qed.

Lemma C07q_example :
  SetInv q_ex /\
  set_contains q_ex {| nver := 4; nval := 167772365; nplen := 29 |} = true /\
  set_contains q_ex {| nver := 4; nval := 167772288; nplen := 32 |} = false /\
  set_iter_ipranges q_ex =
    [(4, 167772160, 167772287); (4, 167772352, 167772415); (4, 4294967294, 4294967295); (6, 0, 1)] /\
  set_iscontiguous q_ex = false /\ set_iprange q_ex = Raise ValueError /\
  set_size q_ex = 196 /\ set_len q_ex = Ok 196 /\
  set_lt [ {| nver := 6; nval := 0; nplen := 127 |} ] q_ex = true.
Proof. split; [exact q_ex_inv|]. vm_compute. repeat split; reflexivity. Qed.
