(* Proofs/GenOk_Src_C05_merge.v -- source tie for C05, second part: the definitions regenerated from the text of cidr_merge
   and IPRange.cidrs (Gen/pysrc_merge_gen.v) equal the hand-written model Merge.cidr_merge / Merge.iprange_to_cidrs on
   address endpoints.
   cidr_merge is translated as written: the building `for` loop (src_cidr_merge_loop1), `ranges.sort()` (symbol
   py_sort_ranges = Merge.rt_sort), the index-driven backward `while i > 0` scan with `ranges[i][k]`, `ranges[i - 1] = ..`,
   `del ranges[i]` (src_cidr_merge_loop2, on SrcPreludeSRCE.py_index / py_setitem / py_delitem, fuel len(ranges) + 1) and
   the emitting `for` loop with its three branches (src_cidr_merge_loop3).  The model walks a zipper instead of an index
   (Merge.merge_scan); lemma src_merge_scan_ok is the correspondence: ranges = rev before ++ cur :: done, i = |before|.
   Hypothesis of the emitting loop (and of the whole function): the merged tuples are `emit_ok` -- the constructor calls the
   code makes on them (IPAddress(int, version), `.cidr` through IPNetwork((v, p), version)) succeed with the value the model
   writes down without a constructor.  cidr_merge_wf discharges it for well-formed items (version 4 / 6, value and
   prefix in range, range ends in range). *)
From NV Require Import Base.Tac Base.PyVal Base.Bits Model.Ip Model.Partition Model.Span Model.Merge Model.SrcPrelude
  Model.SrcPreludeSRCE Model.SrcPreludeMerge
  Gen.pysrc_gen Gen.pysrc_iprange_gen Gen.pysrc_merge_gen
  Proofs.C02 Proofs.GenOk_Src_Const Proofs.GenOk_Src_C02 Proofs.GenOk_Src_C05.
Import ListNotations.
Open Scope Z_scope.

(* ---- IPRange.cidrs ---- *)
Lemma src_range_cidrs_ok ver w s e : valid_ver ver = true ->
  src_IPRange_cidrs ver w s e = iprange_to_cidrs (addr_net ver s) (addr_net ver e).
Proof. intros Hv. unfold src_IPRange_cidrs. apply src_iprange_to_cidrs_ok. exact Hv. Qed.

(* ---- list indexing at the end of a prefix ---- *)
Lemma norm_index_mid {A} (l1 : list A) x l2 : py_norm_index (l1 ++ x :: l2) (Z.of_nat (length l1)) = Some (length l1).
Proof.
  unfold py_norm_index. rewrite app_length. cbn [length].
  replace ((0 <=? Z.of_nat (length l1)) && (Z.of_nat (length l1) <? Z.of_nat (length l1 + S (length l2)))) with true by lia.
  rewrite Nat2Z.id. reflexivity.
Qed.
Lemma nth_o_mid {A} (l1 : list A) x l2 : nth_o (l1 ++ x :: l2) (length l1) = Ok x.
Proof. induction l1 as [|y r IH]; [reflexivity|exact IH]. Qed.
Lemma set_nth_mid {A} (l1 : list A) x y l2 : set_nth (l1 ++ x :: l2) (length l1) y = l1 ++ y :: l2.
Proof. induction l1 as [|z r IH]; [reflexivity|]. cbn [app length set_nth]. rewrite IH. reflexivity. Qed.
Lemma del_nth_mid {A} (l1 : list A) x l2 : del_nth (l1 ++ x :: l2) (length l1) = l1 ++ l2.
Proof. induction l1 as [|z r IH]; [reflexivity|]. cbn [app length del_nth]. rewrite IH. reflexivity. Qed.

Lemma py_index_mid {A} (l1 : list A) x l2 i : i = Z.of_nat (length l1) -> py_index (l1 ++ x :: l2) i = Ok x.
Proof. intros ->. unfold py_index. rewrite norm_index_mid. apply nth_o_mid. Qed.
Lemma py_setitem_mid {A} (l1 : list A) x y l2 i : i = Z.of_nat (length l1) -> py_setitem (l1 ++ x :: l2) i y = Ok (l1 ++ y :: l2).
Proof. intros ->. unfold py_setitem. rewrite norm_index_mid, set_nth_mid. reflexivity. Qed.
Lemma py_delitem_mid {A} (l1 : list A) x l2 i : i = Z.of_nat (length l1) -> py_delitem (l1 ++ x :: l2) i = Ok (l1 ++ l2).
Proof. intros ->. unfold py_delitem. rewrite norm_index_mid, del_nth_mid. reflexivity. Qed.

(* ---- the building loop ---- *)
Definition rt_of (m : mitem) : rtuple := (mi_ver m, mi_last m, mi_first m, Some m).
Lemma src_merge_build_ok xs : forall acc, src_cidr_merge_loop1 xs acc = acc ++ map rt_of xs.
Proof.
  induction xs as [|m r IH]; intros acc; [symmetry; apply app_nil_r|].
  cbn [src_cidr_merge_loop1 map]. cbv zeta. rewrite IH, <- app_assoc. destruct m; reflexivity.
Qed.

(* ---- the backward scan: index i over `ranges` = the model's zipper (cur, before, done) ---- *)
Lemma src_merge_scan_ok : forall before cur done fuel, (length before < fuel)%nat ->
  src_cidr_merge_loop2 fuel (Z.of_nat (length before)) (rev before ++ cur :: done) = Ok (merge_scan cur before done).
Proof.
  induction before as [|prev before' IH]; intros cur done fuel Hf.
  - destruct fuel as [|f]; [inversion Hf|]. reflexivity.
  - destruct fuel as [|f]; [inversion Hf|]. cbn [length] in Hf.
    cbn [src_cidr_merge_loop2 merge_scan].
    replace (Z.of_nat (length (prev :: before')) >? 0) with true by (cbn [length]; lia).
    cbn [rev]. rewrite <- app_assoc. cbn [app].
    assert (Hi : Z.of_nat (length (prev :: before')) = Z.of_nat (length (rev before' ++ [prev]))).
    { rewrite app_length, rev_length. cbn [length]. lia. }
    assert (Hi1 : Z.of_nat (length (prev :: before')) - 1 = Z.of_nat (length (rev before'))).
    { rewrite rev_length. cbn [length]. lia. }
    assert (Hcur : py_index (rev before' ++ prev :: cur :: done) (Z.of_nat (length (prev :: before'))) = Ok cur).
    { change (rev before' ++ prev :: cur :: done) with (rev before' ++ [prev] ++ cur :: done). rewrite app_assoc.
      apply py_index_mid. exact Hi. }
    assert (Hprev : py_index (rev before' ++ prev :: cur :: done) (Z.of_nat (length (prev :: before')) - 1) = Ok prev).
    { apply py_index_mid. exact Hi1. }
    rewrite !Hcur, !Hprev. cbn [bind].
    change (fst (fst (fst cur))) with (rt_ver cur). change (fst (fst (fst prev))) with (rt_ver prev).
    change (snd (fst cur)) with (rt_first cur). change (snd (fst prev)) with (rt_first prev).
    change (snd (fst (fst prev))) with (rt_last prev). change (snd (fst (fst cur))) with (rt_last cur).
    destruct (rt_ver cur =? rt_ver prev); cbn [bind andb].
    + destruct (rt_first cur - 1 <=? rt_last prev); cbn [bind].
      * rewrite (py_setitem_mid (rev before') prev _ (cur :: done)) by exact Hi1. cbn [bind].
        change (rev before' ++ (rt_ver cur, rt_last cur, Z.min (rt_first prev) (rt_first cur), None) :: cur :: done)
          with (rev before' ++ [(rt_ver cur, rt_last cur, Z.min (rt_first prev) (rt_first cur), None)] ++ cur :: done).
        rewrite app_assoc.
        rewrite (py_delitem_mid _ cur done).
        2:{ rewrite app_length, rev_length. cbn [length]. lia. }
        cbn [bind]. cbv zeta. rewrite <- app_assoc. cbn [app]. rewrite Hi1, rev_length. apply IH. lia.
      * cbv zeta. rewrite Hi1, rev_length. apply (IH prev (cur :: done)). lia.
    + cbv zeta. rewrite Hi1, rev_length. apply (IH prev (cur :: done)). lia.
Qed.

Lemma src_merge_ranges_ok l :
  src_cidr_merge_loop2 (Z.to_nat (Z.of_nat (length l)) + 1) (Z.of_nat (length l) - 1) l =
    Ok (match rev l with [] => [] | last :: before => merge_scan last before [] end).
Proof.
  rewrite Nat2Z.id. destruct (rev l) as [|last before] eqn:E.
  - assert (l = []) by (rewrite <- (rev_involutive l), E; reflexivity). subst l. reflexivity.
  - assert (Hl : l = rev before ++ [last]) by (rewrite <- (rev_involutive l), E; reflexivity).
    rewrite Hl at 3. rewrite Hl at 1. rewrite Hl at 1. rewrite app_length, rev_length. cbn [length].
    replace (Z.of_nat (length before + 1) - 1) with (Z.of_nat (length before)) by lia.
    apply src_merge_scan_ok. lia.
Qed.

(* ---- the emitting loop ---- *)
(* what the code's constructor calls need of one merged tuple *)
Definition emit_ok (t : rtuple) : Prop :=
  match rt_orig t with
  | Some (MNet n) => valid_ver (nver n) = true /\ 0 <= nplen n <= width (nver n) /\ 0 <= nval n < 2 ^ width (nver n)
  | Some (MRange ver s e) => valid_ver ver = true
  | None => valid_ver (rt_ver t) = true /\ in_range_w (width (rt_ver t)) (rt_first t) = true
            /\ in_range_w (width (rt_ver t)) (rt_last t) = true
  end.

Lemma src_merge_emit_ok xs : Forall emit_ok xs -> forall merged,
  src_cidr_merge_loop3 xs merged = omap (fun r => merged ++ r) (emit_merged xs).
Proof.
  induction 1 as [|t r Ht Hr IH]; intros merged; [cbn; rewrite app_nil_r; reflexivity|].
  cbn [src_cidr_merge_loop3 emit_merged].
  destruct t as [[[tv tl] tf] [[n|ver s e]|]]; unfold emit_ok in Ht; cbn [rt_orig snd fst rt_ver rt_first rt_last] in *.
  - destruct Ht as (Hv & Hp & Hn). cbv zeta.
    rewrite (src_cidr_wf (nver n) (nval n) (nplen n) Hv Hp Hn). cbn [bind]. rewrite IH.
    destruct (emit_merged r) as [rest|]; [|reflexivity]. cbn [omap bind]. rewrite <- app_assoc. reflexivity.
  - cbv zeta. rewrite (src_range_cidrs_ok ver (width ver) s e Ht).
    destruct (iprange_to_cidrs (addr_net ver s) (addr_net ver e)) as [here|]; [|reflexivity]. cbn [bind]. rewrite IH.
    destruct (emit_merged r) as [rest|]; [|reflexivity]. cbn [omap bind]. rewrite <- app_assoc. reflexivity.
  - destruct Ht as (Hv & Hf & Hl). cbv zeta.
    rewrite (mk_addr_ok tv tf Hv Hf), (mk_addr_ok tv tl Hv Hl). cbn [bind].
    change (py_net_of_addr (tv, tf)) with (addr_net tv tf). change (py_net_of_addr (tv, tl)) with (addr_net tv tl).
    rewrite (src_iprange_to_cidrs_ok (addr_net tv tf) (addr_net tv tl) Hv).
    destruct (iprange_to_cidrs (addr_net tv tf) (addr_net tv tl)) as [here|]; [|reflexivity]. cbn [bind]. rewrite IH.
    destruct (emit_merged r) as [rest|]; [|reflexivity]. cbn [omap bind]. rewrite <- app_assoc. reflexivity.
Qed.

(* ---- the whole function ---- *)
Lemma src_cidr_merge_ok items : Forall emit_ok (merge_ranges (map rt_of items)) -> src_cidr_merge items = cidr_merge items.
Proof.
  intros H. unfold src_cidr_merge, cidr_merge. cbv zeta. rewrite src_merge_build_ok. cbn [app].
  unfold py_sort_ranges. rewrite src_merge_ranges_ok. cbn [bind].
  change (map (fun m => (mi_ver m, mi_last m, mi_first m, Some m)) items) with (map rt_of items).
  fold (merge_ranges (map rt_of items)).
  rewrite (src_merge_emit_ok _ H []).
  destruct (emit_merged (merge_ranges (map rt_of items))) as [l|]; reflexivity.
Qed.

(* ---- the hypothesis holds for well-formed items (NetDen.wf_mitem, the hypothesis of the theorems of Props/C05.v) ---- *)
From NV Require Import Proofs.NetDen.

(* a tuple the scan may hold: its constructor calls succeed, and its ends are addresses of its family *)
Definition rt_good (t : rtuple) : Prop :=
  emit_ok t /\ valid_ver (rt_ver t) = true /\ in_range_w (width (rt_ver t)) (rt_first t) = true
  /\ in_range_w (width (rt_ver t)) (rt_last t) = true.

Lemma rt_of_good m : wf_mitem m -> rt_good (rt_of m).
Proof.
  destruct m as [n|ver s e]; unfold wf_mitem, rt_good, emit_ok, rt_of; cbn [rt_orig rt_ver rt_first rt_last fst snd mi_ver mi_first mi_last].
  - intros (Hv & Hn & Hp). unfold nfirst, nlast.
    pose proof (identities_w (width (nver n)) (nval n) (nplen n) Hp Hn) as I. cbn zeta in I.
    destruct I as (_ & _ & _ & _ & If & Il & _ & _ & _ & _ & _ & I0 & I1).
    pose proof (pow2_pos (width (nver n) - nplen n) ltac:(lia)).
    rewrite !in_range_w_iff. repeat split; try assumption; lia.
  - intros (Hv & Hs & He). rewrite !in_range_w_iff. repeat split; try assumption; lia.
Qed.

Lemma rt_insert_good x l : rt_good x -> Forall rt_good l -> Forall rt_good (rt_insert x l).
Proof.
  intros Hx. induction 1 as [|y r Hy Hr IH]; [constructor; [exact Hx|constructor]|].
  cbn [rt_insert]. destruct (rt_leb x y).
  - constructor; [exact Hx|]. constructor; assumption.
  - constructor; assumption.
Qed.
Lemma rt_sort_good l : Forall rt_good l -> Forall rt_good (rt_sort l).
Proof. induction 1 as [|x r Hx Hr IH]; [constructor|]. cbn. apply rt_insert_good; assumption. Qed.

Lemma merge_scan_good : forall before cur done,
  rt_good cur -> Forall rt_good before -> Forall rt_good done -> Forall rt_good (merge_scan cur before done).
Proof.
  induction before as [|prev before' IH]; intros cur done Hc Hb Hd; [constructor; assumption|].
  inversion Hb as [|? ? Hp Hb']; subst. cbn [merge_scan].
  destruct (rt_ver cur =? rt_ver prev) eqn:Ev; cbn [andb]; [|apply IH; [assumption|assumption|constructor; assumption]].
  destruct (rt_first cur - 1 <=? rt_last prev); [|apply IH; [assumption|assumption|constructor; assumption]].
  apply IH; [|assumption|assumption].
  apply Z.eqb_eq in Ev. destruct Hc as (_ & Hcv & Hcf & Hcl). destruct Hp as (_ & _ & Hpf & _). rewrite <- Ev in Hpf.
  assert (Hm : in_range_w (width (rt_ver cur)) (Z.min (rt_first prev) (rt_first cur)) = true).
  { apply in_range_w_iff. apply in_range_w_iff in Hcf. apply in_range_w_iff in Hpf. lia. }
  unfold rt_good, emit_ok. cbn [rt_orig rt_ver rt_first rt_last fst snd]. repeat split; assumption.
Qed.

Lemma merge_ranges_good l : Forall rt_good l -> Forall rt_good (merge_ranges l).
Proof.
  intros H. unfold merge_ranges. pose proof (Forall_rev (rt_sort_good l H)) as R.
  destruct (rev (rt_sort l)) as [|last before]; [constructor|].
  inversion R; subst. apply merge_scan_good; [assumption|assumption|constructor].
Qed.

Lemma src_cidr_merge_wf items : Forall wf_mitem items -> src_cidr_merge items = cidr_merge items.
Proof.
  intros H. apply src_cidr_merge_ok.
  assert (G : Forall rt_good (map rt_of items)).
  { induction H as [|m r Hm Hr IH]; [constructor|]. cbn [map]. constructor; [apply rt_of_good; exact Hm|exact IH]. }
  apply merge_ranges_good in G. eapply Forall_impl; [|exact G]. intros t Ht. exact (proj1 Ht).
Qed.

(* the symbol that stands for cidr_merge in the SubnetSplitter unit (Model/SrcPreludeSplitter.v, check C20) is the regenerated
   cidr_merge on IPNetwork objects *)
From NV Require Model.Subnet Model.Splitter Model.SrcPreludeSplitter.
Lemma splitter_cidr_merge_src l : Forall wf_net l -> SrcPreludeSplitter.py_cidr_merge l = src_cidr_merge (map MNet l).
Proof.
  intros H. unfold SrcPreludeSplitter.py_cidr_merge. symmetry. apply src_cidr_merge_wf.
  induction H as [|n r Hn Hr IH]; [constructor|]. cbn [map]. constructor; [exact Hn|exact IH].
Qed.

(* everything the second C05 source tie states (Props/C05_src_merge.v) *)
Lemma C05_merge_tie_ok :
  (forall items, Forall wf_mitem items -> src_cidr_merge items = cidr_merge items) /\
  (forall items, Forall emit_ok (merge_ranges (map rt_of items)) -> src_cidr_merge items = cidr_merge items) /\
  (forall before cur done fuel, (length before < fuel)%nat ->
     src_cidr_merge_loop2 fuel (Z.of_nat (length before)) (rev before ++ cur :: done) = Ok (merge_scan cur before done)) /\
  (forall xs acc, src_cidr_merge_loop1 xs acc = acc ++ map rt_of xs) /\
  (forall xs, Forall emit_ok xs -> forall merged, src_cidr_merge_loop3 xs merged = omap (fun r => merged ++ r) (emit_merged xs)) /\
  (forall ver w s e, valid_ver ver = true -> src_IPRange_cidrs ver w s e = iprange_to_cidrs (addr_net ver s) (addr_net ver e)) /\
  (forall l, Forall wf_net l -> SrcPreludeSplitter.py_cidr_merge l = src_cidr_merge (map MNet l)).
Proof.
  split; [exact src_cidr_merge_wf|]. split; [exact src_cidr_merge_ok|]. split; [exact src_merge_scan_ok|].
  split; [exact src_merge_build_ok|]. split; [exact src_merge_emit_ok|]. split; [exact src_range_cidrs_ok|exact splitter_cidr_merge_src].
Qed.
