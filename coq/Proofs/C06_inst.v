(* Proofs/C06_inst.v — C06 part A with the hypotheses discharged: iprange_to_cidrs_spec and cidr_merge_spec by
   Proofs/C05 (C05_range, C05_merge), add_spec and remove_spec by Proofs/C06_add.v (part B).  What remains
   hypothetical in the history theorems is inter_spec / diff_spec / xor_spec (the operator sweeps of C07). *)
From NV Require Import Base.Tac Base.PyVal Base.Bits Base.Canon Model.Ip Model.Partition Model.Span Model.Merge Model.Sets
  Proofs.C02 Proofs.NetDen.
From NV Require Proofs.C05 Proofs.C06_add.
From NV Require Import Proofs.C06_inv Proofs.C06_bulk.
From NV Require Import Extract.Cmd_Sets.
Open Scope Z_scope.

Lemma range_spec_holds : iprange_to_cidrs_spec.
Proof. exact C05_range.C05_range. Qed.

Lemma merge_spec_holds : cidr_merge_spec.
Proof. exact C05_merge.C05_merge. Qed.

Lemma add_spec_holds : add_spec.
Proof. exact (C06_add.add_spec_proof range_spec_holds merge_spec_holds). Qed.

Lemma remove_spec_holds : remove_spec.
Proof. exact (C06_add.remove_spec_proof range_spec_holds merge_spec_holds). Qed.

Theorem C06_init_inst a : wf_sarg a ->
  exists d, set_init a = Ok d /\ SetInv d /\ forall ver x, den d ver x <-> in_sarg a ver x.
Proof. exact (C06_init range_spec_holds merge_spec_holds a). Qed.

Theorem C06_compact_inst d : Forall wf_net d ->
  exists d', set_compact d = Ok d' /\ SetInv d' /\ canon_nets d' /\ forall ver x, den d' ver x <-> den d ver x.
Proof. exact (C06_compact merge_spec_holds d). Qed.

Theorem C06_update_inst d a : SetInv d -> wf_sarg a -> a <> ANone ->
  exists d', set_update d a = Ok d' /\ SetInv d' /\ forall ver x, den d' ver x <-> den d ver x \/ in_sarg a ver x.
Proof. exact (C06_update range_spec_holds merge_spec_holds add_spec_holds d a). Qed.

Theorem C06_add_range_inst d ver s e : Forall wf_net d -> valid_ver ver = true -> 0 <= s <= e -> e < 2 ^ width ver ->
  exists d', set_add d (ERange ver s e) = Ok d' /\ SetInv d' /\ canon_nets d' /\
    forall ver' x, den d' ver' x <-> den d ver' x \/ (ver' = ver /\ s <= x <= e).
Proof. exact (set_add_range range_spec_holds merge_spec_holds d ver s e). Qed.

Theorem C06_union_inst a b : SetInv a -> SetInv b ->
  exists d, set_union a b = Ok d /\ SetInv d /\ forall ver x, den d ver x <-> den a ver x \/ den b ver x.
Proof. exact (C06_union merge_spec_holds a b). Qed.

(* ---- histories without & - ^ : nothing left to assume ---- *)
Theorem C06_step_core_inst rs s o : sweep_free o -> Rel rs s -> wf_op o ->
  exists s', astep s o s' /\ Rel (ostep rs o) s'.
Proof. exact (C06_step_core range_spec_holds merge_spec_holds add_spec_holds remove_spec_holds rs s o). Qed.

Theorem C06_reachable_core_inst ops rs s : Rel rs s -> Forall wf_op ops -> Forall sweep_free ops ->
  exists s', aruns s ops s' /\ Rel (fold_left ostep ops rs) s'.
Proof. exact (C06_reachable_core range_spec_holds merge_spec_holds add_spec_holds remove_spec_holds ops rs s). Qed.

Theorem C06_reachable_shown_core_inst ops : Forall wf_op ops -> Forall sweep_free ops ->
  exists s', aruns aregs0 ops s' /\ shown_ok (fold_left ostep ops regs0) s'.
Proof. exact (C06_reachable_shown_core range_spec_holds merge_spec_holds add_spec_holds remove_spec_holds ops). Qed.

(* ---- all operations: the three sweeps of C07 remain as hypotheses ---- *)
Section Sweeps.
Hypothesis HI : inter_spec.
Hypothesis HD : diff_spec.
Hypothesis HX : xor_spec.

Theorem C06_step_inst rs s o : Rel rs s -> wf_op o -> exists s', astep s o s' /\ Rel (ostep rs o) s'.
Proof. exact (C06_step range_spec_holds merge_spec_holds add_spec_holds remove_spec_holds HI HD HX rs s o). Qed.

Theorem C06_reachable_inst ops rs s : Rel rs s -> Forall wf_op ops ->
  exists s', aruns s ops s' /\ Rel (fold_left ostep ops rs) s'.
Proof. exact (C06_reachable range_spec_holds merge_spec_holds add_spec_holds remove_spec_holds HI HD HX ops rs s). Qed.

Theorem C06_reachable_shown_inst ops : Forall wf_op ops ->
  exists s', aruns aregs0 ops s' /\ shown_ok (fold_left ostep ops regs0) s'.
Proof. exact (C06_reachable_shown range_spec_holds merge_spec_holds add_spec_holds remove_spec_holds HI HD HX ops). Qed.
End Sweeps.
