(* Proofs/GenOk_Src_C05_g.v -- source tie for C05, tag SRCG: iter_unique_ips (Gen/pysrc_uniq_gen.v) against Model/UniqueIps.v.
   The generated definition calls the translated cidr_merge (tied to Merge.cidr_merge for well-formed items: C05_source_tie_merge),
   `for ip in cidr` is the prelude symbol py_net_addrs (the hand model of iterating an IPNetwork). *)
From NV Require Import Base.Tac Base.PyVal Model.Ip Model.Span Model.Sets Model.Merge Model.UniqueIps Model.SrcPrelude Model.SrcPreludeG
  Proofs.C02 Proofs.NetDen Proofs.C05_unique Proofs.GenOk_Src_C05_merge Gen.pysrc_merge_gen Gen.pysrc_uniq_gen.
Import ListNotations.
Open Scope Z_scope.

Lemma py_net_addrs_ok n : py_net_addrs n = net_addrs n.
Proof. reflexivity. Qed.

Lemma src_unique_ips_ok items : Forall wf_mitem items -> src_iter_unique_ips items = unique_ips items.
Proof.
  intros H. unfold src_iter_unique_ips, unique_ips. rewrite (src_cidr_merge_wf items H). reflexivity.
Qed.

Lemma C05_tie_g_ok :
  (forall items, Forall wf_mitem items -> src_iter_unique_ips items = unique_ips items) /\
  (forall items, Forall wf_mitem items ->
     exists ips, src_iter_unique_ips items = Ok ips /\ NoDup ips /\ (forall ver x, In (ver, x) ips <-> den_items items ver x)).
Proof.
  split; [exact src_unique_ips_ok|]. intros items H. rewrite (src_unique_ips_ok items H). exact (unique_ips_spec items H).
Qed.
