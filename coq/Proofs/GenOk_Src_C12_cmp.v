(* Proofs/GenOk_Src_C12_cmp.v -- source tie for C12, second part: the definitions regenerated from the text of BaseIP.__eq__
   __ne__ __lt__ __le__ __gt__ __ge__ __hash__ (one copy per receiver class IPAddress / IPNetwork / IPRange), IPRange.sort_key and
   IPAddress.__long__ (Gen/pysrc_cmp_gen.v) equal the hand-written model of Model/Order.v.
   `try: return self.key() == other.key() / except (AttributeError, TypeError): return NotImplemented`: `other` is an
   operand (SrcPrelude.operand); for the three BaseIP kinds the body is translated without anything that can raise, so the
   handler is dead; for anything else the method answers NotImplemented (reflected operation: out of scope, Raise Unsupported).
   The comparison of two key tuples is the symbol py_tuple_<op> (= Order.tuple_cmp), core.num_bits is py_num_bits
   (= Order.num_bits), `hash` is a parameter of the generated __hash__ (the model's Section variable H).  No hypothesis. *)
From NV Require Import Base.Tac Base.PyVal Model.Ip Model.Order Model.SrcPrelude Model.SrcPreludeSRCE Model.SrcPreludeCmp
  Gen.pysrc_gen Gen.pysrc_cmp_gen.
From NV Require Model.Contains Model.Sets Proofs.Coherence_Order.
Import ListNotations.
Open Scope Z_scope.

Definition operand_of_obj (x : obj) : operand :=
  match x with Addr ver v => OAddr ver v | Net ver v p => ONet ver v p | Range ver s e => ORng ver s e end.

(* the generated method of the receiver's class *)
Definition src_cmp (op : cmpop) (a : obj) (o : operand) : outcome bool :=
  match a with
  | Addr ver v =>
      match op with
      | OpEq => src_IPAddress_eq ver (width ver) v o | OpNe => src_IPAddress_ne ver (width ver) v o
      | OpLt => src_IPAddress_lt ver (width ver) v o | OpLe => src_IPAddress_le ver (width ver) v o
      | OpGt => src_IPAddress_gt ver (width ver) v o | OpGe => src_IPAddress_ge ver (width ver) v o
      end
  | Net ver v p =>
      match op with
      | OpEq => src_IPNetwork_eq ver (width ver) v p o | OpNe => src_IPNetwork_ne ver (width ver) v p o
      | OpLt => src_IPNetwork_lt ver (width ver) v p o | OpLe => src_IPNetwork_le ver (width ver) v p o
      | OpGt => src_IPNetwork_gt ver (width ver) v p o | OpGe => src_IPNetwork_ge ver (width ver) v p o
      end
  | Range ver s e =>
      match op with
      | OpEq => src_IPRange_eq ver (width ver) s e o | OpNe => src_IPRange_ne ver (width ver) s e o
      | OpLt => src_IPRange_lt ver (width ver) s e o | OpLe => src_IPRange_le ver (width ver) s e o
      | OpGt => src_IPRange_gt ver (width ver) s e o | OpGe => src_IPRange_ge ver (width ver) s e o
      end
  end.

(* the model's rich comparison for the operator *)
Definition py_cmp (op : cmpop) (a b : obj) : bool :=
  match op with
  | OpEq => py_eq a b | OpNe => py_ne a b | OpLt => py_lt a b | OpLe => py_le a b | OpGt => py_gt a b | OpGe => py_ge a b
  end.

Lemma src_range_sort_key_ok ver s e : src_IPRange_sort_key ver (width ver) s e = sort_key (Range ver s e).
Proof. reflexivity. Qed.

Lemma src_cmp_ok op a b : src_cmp op a (operand_of_obj b) = Ok (py_cmp op a b).
Proof. destruct op, a, b; reflexivity. Qed.

Lemma src_cmp_other op a : src_cmp op a OOther = Raise Unsupported.
Proof. destruct op, a; reflexivity. Qed.

Lemma src_hash_ok (H : list Z -> Z) :
  (forall ver w v, src_IPAddress_hash ver w v H = py_hash H (Addr ver v)) /\
  (forall ver v p, src_IPNetwork_hash ver (width ver) v p H = py_hash H (Net ver v p)) /\
  (forall ver w s e, src_IPRange_hash ver w s e H = py_hash H (Range ver s e)).
Proof. repeat split; reflexivity. Qed.

(* the `<` that sorted() of the matching functions uses (Contains.net_lt, Model/SrcPreludeMatch.v) is the regenerated __lt__ *)
Lemma src_net_lt_sorted a b :
  src_IPNetwork_lt (nver a) (width (nver a)) (nval a) (nplen a) (ONet (nver b) (nval b) (nplen b)) = Ok (Contains.net_lt width a b).
Proof.
  destruct (Coherence_Order.coh_net_lt a b) as [E1 E2]. rewrite E2, E1.
  exact (src_cmp_ok OpLt (Net (nver a) (nval a) (nplen a)) (Net (nver b) (nval b) (nplen b))).
Qed.

Lemma C12_cmp_tie_ok :
  (forall op a b, src_cmp op a (operand_of_obj b) = Ok (py_cmp op a b)) /\
  (forall op a, src_cmp op a OOther = Raise Unsupported) /\
  (forall ver s e, src_IPRange_sort_key ver (width ver) s e = sort_key (Range ver s e)) /\
  (forall H : list Z -> Z,
     (forall ver w v, src_IPAddress_hash ver w v H = py_hash H (Addr ver v)) /\
     (forall ver v p, src_IPNetwork_hash ver (width ver) v p H = py_hash H (Net ver v p)) /\
     (forall ver w s e, src_IPRange_hash ver w s e H = py_hash H (Range ver s e))) /\
  (forall a b, src_IPNetwork_lt (nver a) (width (nver a)) (nval a) (nplen a) (ONet (nver b) (nval b) (nplen b))
               = Ok (Contains.net_lt width a b)) /\
  (forall ver w v, src_IPAddress_long ver w v = v).
Proof.
  split; [exact src_cmp_ok|]. split; [exact src_cmp_other|]. split; [exact src_range_sort_key_ok|].
  split; [exact src_hash_ok|]. split; [exact src_net_lt_sorted|reflexivity].
Qed.
