(* Proofs/C01_Grammar.v — C01_grammar: an INDEPENDENT, DECLARATIVE statement of the two standard text grammars
   (strict dotted quad; RFC 4291 section 2.2 forms 1-3), and the proof that the executable oracles of
   Model/IpText.v accept exactly the derivable strings with exactly the derived values:

       Std4.pton4_chars l = Some q  <->  DottedQuad l q          (grammar_v4)
       Std6.pton6_chars l = Some g  <->  Rfc4291 l g             (grammar_v6, in Proofs/C01_Grammar_V6.v)

   for ALL strings l (no bound on the length).  PART 1 below is the whole specification: it is written with
   inductive digit tables, positional numerals, and explicit `++` concatenations only; it mentions no function of
   the model (no split, no fold, no option).  A reader checks PART 1 against the RFC; Coq checks the rest.

   Strings are lists of characters (`chars s` of a Coq string s). *)
From Coq Require Import String Ascii.
From NV Require Import Base.Tac Base.PyVal Base.PyStr Base.PyStrFacts Model.IpText
  Proofs.C01_Chars Proofs.C01_V6 Proofs.C01_V4 Proofs.C01_Strict6.
Open Scope Z_scope.

(* ================================================================================================== *)
(** * PART 1 — the grammar                                                                            *)
(* ================================================================================================== *)

(* ---- alphabet: a digit character and its value ---- *)
Inductive DecDigit : ascii -> Z -> Prop :=
| dec_0 : DecDigit "0" 0 | dec_1 : DecDigit "1" 1 | dec_2 : DecDigit "2" 2 | dec_3 : DecDigit "3" 3
| dec_4 : DecDigit "4" 4 | dec_5 : DecDigit "5" 5 | dec_6 : DecDigit "6" 6 | dec_7 : DecDigit "7" 7
| dec_8 : DecDigit "8" 8 | dec_9 : DecDigit "9" 9.

Inductive HexDigit : ascii -> Z -> Prop :=
| hex_a : HexDigit "a" 10 | hex_b : HexDigit "b" 11 | hex_c : HexDigit "c" 12
| hex_d : HexDigit "d" 13 | hex_e : HexDigit "e" 14 | hex_f : HexDigit "f" 15
| hex_A : HexDigit "A" 10 | hex_B : HexDigit "B" 11 | hex_C : HexDigit "C" 12
| hex_D : HexDigit "D" 13 | hex_E : HexDigit "E" 14 | hex_F : HexDigit "F" 15
| hex_dec c d : DecDigit c d -> HexDigit c d.

(* ---- a non-empty positional numeral, most significant digit first, and its value ---- *)
Inductive Numeral (Digit : ascii -> Z -> Prop) (base : Z) : list ascii -> Z -> Prop :=
| num_one c d : Digit c d -> Numeral Digit base [c] d
| num_snoc t n c d : Numeral Digit base t n -> Digit c d -> Numeral Digit base (t ++ [c]) (n * base + d).

(* one field of a strict dotted quad: 1-3 decimal digits, no leading zero unless the field is "0", value <= 255 *)
Definition dec_octet (t : list ascii) (n : Z) : Prop :=
  Numeral DecDigit 10 t n /\ (List.length t <= 3)%nat /\ (forall r, t = "0"%char :: r -> r = []) /\ n <= 255.

(* one RFC 4291 group: 1-4 hexadecimal digits of either case (leading zeros allowed) *)
Definition hextet (t : list ascii) (h : Z) : Prop :=
  Numeral HexDigit 16 t h /\ (List.length t <= 4)%nat.

(* ---- separators ---- *)
Definition DOT : list ascii := ["."%char].
Definition COLON : list ascii := [":"%char].
Definition DCOLON : list ascii := [":"%char; ":"%char].

(* ---- strict dotted quad  d.d.d.d  and its four octets ---- *)
Inductive DottedQuad : list ascii -> list Z -> Prop :=
| dotted_quad t1 t2 t3 t4 a b c d :
    dec_octet t1 a -> dec_octet t2 b -> dec_octet t3 c -> dec_octet t4 d ->
    DottedQuad (t1 ++ DOT ++ t2 ++ DOT ++ t3 ++ DOT ++ t4) [a; b; c; d].

(* ---- h1:h2:...:hk (k >= 1) and its k groups ---- *)
Inductive Hextets : list ascii -> list Z -> Prop :=
| hextets_one t h : hextet t h -> Hextets t [h]
| hextets_cons t h l g : hextet t h -> Hextets l g -> Hextets (t ++ COLON ++ l) (h :: g).

(* ---- a ':'-joined list of groups whose LAST element may be a dotted quad (worth two groups) ---- *)
Inductive Groups : list ascii -> list Z -> Prop :=
| groups_hextets l g : Hextets l g -> Groups l g
| groups_quad q a b c d : DottedQuad q [a; b; c; d] -> Groups q [a * 256 + b; c * 256 + d]
| groups_hextets_quad l g q a b c d :
    Hextets l g -> DottedQuad q [a; b; c; d] -> Groups (l ++ COLON ++ q) (g ++ [a * 256 + b; c * 256 + d]).

(* "possibly empty": the empty string with no groups, or G *)
Definition opt (G : list ascii -> list Z -> Prop) (l : list ascii) (g : list Z) : Prop :=
  (l = [] /\ g = []) \/ G l g.

(* ---- RFC 4291 section 2.2: the text representations of an IPv6 address and its 8 sixteen-bit groups ----
   rfc_full:        x:x:x:x:x:x:x:x   or   x:x:x:x:x:x:d.d.d.d           (forms 1 and 3, nothing omitted)
   rfc_compressed:  P::Q  — ONE "::" standing for 8-k-m >= 1 zero groups, where P is k >= 0 hextets and Q is
                    m >= 0 groups (a final dotted quad counting 2); only Q may end in a dotted quad *)
Inductive Rfc4291 : list ascii -> list Z -> Prop :=
| rfc_full l g :
    Groups l g -> List.length g = 8%nat -> Rfc4291 l g
| rfc_compressed P gp Q gq :
    opt Hextets P gp -> opt Groups Q gq -> (List.length gp + List.length gq <= 7)%nat ->
    Rfc4291 (P ++ DCOLON ++ Q) (gp ++ repeat 0 (8 - (List.length gp + List.length gq)) ++ gq).

(* ================================================================================================== *)
(** * PART 2 — tokens: the model's digit tables / field functions are the grammar's                   *)
(* ================================================================================================== *)

Lemma DecDigit_iff c d : DecDigit c d <-> dec_digit c = Some d.
Proof. split.
  - destruct 1; reflexivity.
  - destruct c as [[] [] [] [] [] [] [] []]; cbn; intros H; try discriminate H; injection H as <-; constructor. Qed.

Lemma HexDigit_iff c d : HexDigit c d <-> hex_digit c = Some d.
Proof. split.
  - destruct 1 as [| | | | | | | | | | | |c d H]; try reflexivity. destruct H; reflexivity.
  - destruct c as [[] [] [] [] [] [] [] []]; cbn; intros H; try discriminate H; injection H as <-; repeat constructor. Qed.

Lemma digits_value_snoc tab base t c :
  digits_value tab base (t ++ [c]) = digits_value tab base t * base + match tab c with Some d => d | None => 0 end.
Proof. unfold digits_value. now rewrite fold_left_app. Qed.

(* a numeral over a digit relation given by a table = a non-empty all-digit string, valued by the model's fold *)
Lemma Numeral_iff (Dig : ascii -> Z -> Prop) (tab : ascii -> option Z) base
  (HD : forall c d, Dig c d <-> tab c = Some d) t n :
  Numeral Dig base t n <-> t <> [] /\ forallb (fun c => is_some (tab c)) t = true /\ n = digits_value tab base t.
Proof. split.
  - induction 1 as [c d H|t n c d _ IH H].
    + apply HD in H. split; [discriminate|]. cbn [forallb]. unfold digits_value. cbn [fold_left]. rewrite H.
      cbn [is_some andb]. split; [reflexivity|lia].
    + apply HD in H. destruct IH as (Hne & F & ->). split; [destruct t; discriminate|].
      rewrite forallb_app, F, digits_value_snoc. cbn [forallb]. rewrite H. cbn [is_some andb]. split; reflexivity.
  - revert n. induction t as [|c t IH] using rev_ind; intros n (Hne & F & ->); [congruence|].
    rewrite forallb_app in F. apply andb_true_iff in F. destruct F as [Ft Fc]. cbn [forallb] in Fc.
    destruct (tab c) as [d|] eqn:E; [|discriminate Fc]. apply HD in E.
    destruct t as [|c0 t'].
    + cbn [app]. unfold digits_value. cbn [fold_left]. apply HD in E. rewrite E. apply HD in E.
      replace (0 * base + d) with d by lia. now constructor.
    + rewrite digits_value_snoc. apply HD in E. rewrite E. apply HD in E. constructor; [|exact E].
      apply IH. split; [discriminate|]. split; [exact Ft|reflexivity]. Qed.

Lemma DecNumeral_iff t n :
  Numeral DecDigit 10 t n <-> t <> [] /\ forallb is_dec t = true /\ n = digits_value dec_digit 10 t.
Proof. apply (Numeral_iff DecDigit dec_digit 10 DecDigit_iff). Qed.

Lemma HexNumeral_iff t n :
  Numeral HexDigit 16 t n <-> t <> [] /\ forallb is_hex t = true /\ n = digits_value hex_digit 16 t.
Proof. apply (Numeral_iff HexDigit hex_digit 16 HexDigit_iff). Qed.

Theorem octet_iff t n : Std4.octet t = Some n <-> dec_octet t n.
Proof. unfold dec_octet, Std4.octet. split.
  - destruct t as [|c r]; [discriminate|].
    destruct (forallb is_dec (c :: r)) eqn:F; [|discriminate]. destruct (Nat.leb _ 3) eqn:L; [|discriminate].
    cbn [andb]. destruct (negb _) eqn:Z0; [|discriminate]. cbv zeta.
    destruct (_ <=? 255) eqn:V; [|discriminate]. intros E. injection E as <-.
    split; [apply DecNumeral_iff; split; [discriminate|split; [exact F|reflexivity]]|].
    split; [now apply Nat.leb_le|]. split; [|lia].
    intros r' E. injection E as -> <-. rewrite ascii_eqb_refl in Z0. cbn [andb] in Z0.
    destruct r; [reflexivity|discriminate Z0].
  - intros (N & L & Z0 & V). apply DecNumeral_iff in N. destruct N as (Hne & F & ->).
    destruct t as [|c r]; [congruence|]. rewrite F. apply Nat.leb_le in L. rewrite L. cbn [andb].
    assert (Z1 : negb (ascii_eqb c ch_0 && negb (is_nil r)) = true).
    { destruct (ascii_eqb c ch_0) eqn:E; [|reflexivity]. apply ascii_eqb_eq in E. subst c.
      rewrite (Z0 r eq_refl). reflexivity. }
    rewrite Z1. cbv zeta. apply Z.leb_le in V. now rewrite V. Qed.

Theorem hextet_iff t h : Std6.hextet t = Some h <-> hextet t h.
Proof. unfold hextet, Std6.hextet. split.
  - destruct (Nat.leb 1 _) eqn:L1; [|discriminate]. destruct (Nat.leb _ 4) eqn:L4; [|discriminate].
    destruct (forallb is_hex t) eqn:F; [|discriminate]. cbn [andb]. intros E. injection E as <-.
    apply Nat.leb_le in L1, L4. split; [|exact L4]. apply HexNumeral_iff.
    split; [destruct t; [cbn in L1; lia|discriminate]|]. split; [exact F|reflexivity].
  - intros (N & L4). apply HexNumeral_iff in N. destruct N as (Hne & F & ->).
    assert (L1 : Nat.leb 1 (List.length t) = true) by (apply Nat.leb_le; destruct t; [congruence|cbn; lia]).
    apply Nat.leb_le in L4. now rewrite L1, L4, F. Qed.

(* tokens are non-empty and contain no separator *)
Lemma dec_no_char x t : is_dec x = false -> forallb is_dec t = true -> existsb (ascii_eqb x) t = false.
Proof. intros Hx. induction t as [|c t IH]; [reflexivity|]. cbn [forallb existsb]. intros F.
  apply andb_true_iff in F. destruct F as [Fc Ft]. rewrite (IH Ft), orb_false_r.
  destruct (ascii_eqb x c) eqn:E; [|reflexivity]. apply ascii_eqb_eq in E. congruence. Qed.

Lemma hex_no_char x t : is_hex x = false -> forallb is_hex t = true -> existsb (ascii_eqb x) t = false.
Proof. intros Hx. induction t as [|c t IH]; [reflexivity|]. cbn [forallb existsb]. intros F.
  apply andb_true_iff in F. destruct F as [Fc Ft]. rewrite (IH Ft), orb_false_r.
  destruct (ascii_eqb x c) eqn:E; [|reflexivity]. apply ascii_eqb_eq in E. congruence. Qed.

Lemma dec_octet_tok t n : dec_octet t n ->
  t <> [] /\ existsb (ascii_eqb ch_dot) t = false /\ existsb (ascii_eqb ch_colon) t = false.
Proof. intros (N & _). apply DecNumeral_iff in N. destruct N as (Hne & F & _).
  split; [exact Hne|]. split; apply dec_no_char; auto. Qed.

Lemma hextet_tok t h : hextet t h ->
  t <> [] /\ existsb (ascii_eqb ch_dot) t = false /\ existsb (ascii_eqb ch_colon) t = false.
Proof. intros (N & _). apply HexNumeral_iff in N. destruct N as (Hne & F & _).
  split; [exact Hne|]. split; apply hex_no_char; auto. Qed.

Lemma hextet_good t h : hextet t h -> good_tok t.
Proof. intros H. destruct (hextet_tok t h H) as (A & _ & B). split; assumption. Qed.

(* ================================================================================================== *)
(** * PART 3 — IPv4: the strict dotted quad                                                           *)
(* ================================================================================================== *)

Theorem grammar_v4 l q : Std4.pton4_chars l = Some q <-> DottedQuad l q.
Proof. split.
  - unfold Std4.pton4_chars. pose proof (join_chars_split_chars ch_dot l []) as J. cbn [rev app] in J.
    destruct (Nat.eqb _ 4) eqn:L; [|discriminate]. apply Nat.eqb_eq in L.
    destruct (split_chars ch_dot l []) as [|t1 [|t2 [|t3 [|t4 [|t5 r]]]]]; try discriminate L.
    cbn [map_opt]. destruct (Std4.octet t1) eqn:E1; [|discriminate]. destruct (Std4.octet t2) eqn:E2; [|discriminate].
    destruct (Std4.octet t3) eqn:E3; [|discriminate]. destruct (Std4.octet t4) eqn:E4; [|discriminate].
    intros E. injection E as <-. rewrite <- J. apply octet_iff in E1, E2, E3, E4.
    exact (dotted_quad t1 t2 t3 t4 _ _ _ _ E1 E2 E3 E4).
  - intros [t1 t2 t3 t4 a b c d H1 H2 H3 H4]. unfold Std4.pton4_chars.
    change (t1 ++ DOT ++ t2 ++ DOT ++ t3 ++ DOT ++ t4) with (join_chars [ch_dot] [t1; t2; t3; t4]).
    rewrite split_chars_join; [|discriminate|].
    + apply octet_iff in H1, H2, H3, H4. cbn [List.length Nat.eqb map_opt]. now rewrite H1, H2, H3, H4.
    + repeat constructor; eapply dec_octet_tok; eauto. Qed.

Corollary grammar_v4_unique l q q' : DottedQuad l q -> DottedQuad l q' -> q = q'.
Proof. intros H H'. apply grammar_v4 in H, H'. congruence. Qed.

Lemma dec_octet_range t n : dec_octet t n -> 0 <= n <= 255.
Proof. intros H. apply octet_iff in H. eapply octet_range; eauto. Qed.

(* the four octets are octets; the address value is the big-endian number they spell *)
Corollary grammar_v4_value l q : DottedQuad l q ->
  exists a b c d, q = [a; b; c; d] /\ 0 <= a <= 255 /\ 0 <= b <= 255 /\ 0 <= c <= 255 /\ 0 <= d <= 255 /\
                  0 <= a * 2 ^ 24 + b * 2 ^ 16 + c * 2 ^ 8 + d < 2 ^ 32.
Proof. intros [t1 t2 t3 t4 a b c d H1 H2 H3 H4]. apply dec_octet_range in H1, H2, H3, H4.
  exists a, b, c, d. change (2 ^ 24) with 16777216. change (2 ^ 16) with 65536. change (2 ^ 8) with 256.
  change (2 ^ 32) with 4294967296. repeat (split; [first [reflexivity|lia]|]). lia. Qed.

Lemma DottedQuad_tok q o : DottedQuad q o ->
  q <> [] /\ has_dot q = true /\ existsb (ascii_eqb ch_colon) q = false.
Proof. intros [t1 t2 t3 t4 a b c d H1 H2 H3 H4].
  destruct (dec_octet_tok _ _ H1) as (N1 & _ & C1). destruct (dec_octet_tok _ _ H2) as (_ & _ & C2).
  destruct (dec_octet_tok _ _ H3) as (_ & _ & C3). destruct (dec_octet_tok _ _ H4) as (_ & _ & C4).
  split; [destruct t1; [congruence|discriminate]|]. unfold has_dot, DOT.
  rewrite !existsb_app, C1, C2, C3, C4. cbn [existsb]. rewrite ascii_eqb_refl. split; [apply orb_true_r|reflexivity]. Qed.
