(* Proofs/GenOk_Src_C06_bulk.v -- SRCA: source tie for C06, the remaining argument forms that need no parsing.  The definitions
   regenerated from the text of netaddr/ip/sets.py (Gen/pysrc_sets_bulk_gen.v: IPSet.add / remove for an IPRange object,
   IPSet.update for an IPNetwork, an IPRange and a list of IPNetwork objects, IPSet.__init__ for None, an IPNetwork, an IPRange,
   an IPSet and a list of IPNetwork objects) equal the hand-written model of Model/Sets.v (set_add / set_remove (ERange ..),
   set_update (ANet / ARange / AIter (map ENet l)), set_init).  An IPRange object is (version, start value, end value).
   HYPOTHESES.  A valid range (valid_ver, 0 <= start <= end < 2^width) wherever `addr[0]`, `addr[-1]` go through
   IPListMixin.__getitem__ and the range-checking IPAddress constructor; a well-formed network wherever `.cidr` is taken;
   SetInv of the set for remove (as for remove(<IPNetwork>)); valid_ver of the first bound for the translated
   iprange_to_cidrs (tie C05).  None for __init__(None), __init__(<IPSet>), __init__(<list>), update(<list>).
   __init__ takes the (ignored) old state first, like every stateful method. *)
From NV Require Import Base.Tac Base.PyVal Base.Bits Model.Ip Model.Partition Model.Span Model.Merge Model.Sets Model.PySlice
  Model.SrcPrelude Model.SrcPreludeSplitter Model.SrcPreludeSets Gen.pysrc_gen Gen.pysrc_iprange_gen Gen.pysrc_listlike_gen
  Gen.pysrc_sets_gen Gen.pysrc_sets_mut_gen Gen.pysrc_sets_add_gen Gen.pysrc_sets_bulk_gen
  Proofs.C02 Proofs.NetDen Proofs.GenOk_Src_C05 Proofs.GenOk_Src_C07 Proofs.GenOk_Src_C07_ops Proofs.GenOk_Src_C06 Proofs.GenOk_Src_C06_add
  Proofs.C07_sweeps Proofs.C07_sweeps_ranges.
From NV Require Proofs.C06_inst.
Import ListNotations.
Open Scope Z_scope.

Definition wf_range (ver s e : Z) : Prop := valid_ver ver = true /\ 0 <= s <= e /\ e < 2 ^ width ver.

(* ---------------------------------------------------------------- addr[0], addr[-1] of an IPRange object *)
Lemma src_range_first ver s e : wf_range ver s e -> src_IPRange_getitem_int ver (width ver) s e 0 = Ok (ver, s).
Proof.
  intros (V & A & B). unfold src_IPRange_getitem_int, src_IPRange_size, src_IPRange_first, src_IPRange_last, src_IPAddress_int.
  change (0 <? 0) with false. rewrite andb_false_r. replace ((0 <=? 0) && (0 <=? e - s + 1 - 1)) with true by lia.
  rewrite (mk_addr_ok ver (s + 0) V) by lia. cbn [bind py_except]. f_equal. f_equal. lia.
Qed.

Lemma src_range_last ver s e : wf_range ver s e -> src_IPRange_getitem_int ver (width ver) s e (-1) = Ok (ver, e).
Proof.
  intros (V & A & B). unfold src_IPRange_getitem_int, src_IPRange_size, src_IPRange_first, src_IPRange_last, src_IPAddress_int.
  replace ((- (e - s + 1) <=? -1) && (-1 <? 0)) with true by lia.
  rewrite (mk_addr_ok ver (e + -1 + 1) V) by lia. cbn [bind py_except]. f_equal. f_equal. lia.
Qed.

(* iprange_to_cidrs(addr[0], addr[-1]) *)
Ltac range_cidrs W :=
  cbv iota beta; rewrite (src_range_first _ _ _ W), (src_range_last _ _ _ W); cbn [bind]; rewrite (src_range_cidrs _ _ _ (proj1 W)).

(* ---------------------------------------------------------------- add / remove / update for an IPRange, update for an IPNetwork *)
Lemma src_add_iprange_ok d ver s e flags : wf_range ver s e -> src_IPSet_add_iprange d (ver, s, e) flags = set_add d (ERange ver s e).
Proof.
  intros W. unfold src_IPSet_add_iprange, set_add. range_cidrs W.
  destruct (iprange_to_cidrs (addr_net ver s) (addr_net ver e)) as [cs|]; [|reflexivity]. cbn [bind]. cbv zeta.
  rewrite src_compact_ok. unfold py_dict_update, py_dict_fromkeys. destruct (set_compact (dupdate d (dfromkeys cs))); reflexivity.
Qed.

Lemma src_remove_iprange_loop_ok : forall cs d, SetInv d -> Forall wf_net cs ->
  src_IPSet_remove_iprange_loop1 cs d = remove_all d cs.
Proof.
  induction cs as [|c r IH]; intros d I F; [reflexivity|]. inversion F as [|? ? Wc Fr]; subst.
  cbn [src_IPSet_remove_iprange_loop1 remove_all]. rewrite (src_remove_net_ok d c 0 I Wc).
  destruct (C06_inst.remove_spec_holds d (ENet c) I Wc) as (d' & E & I' & _). cbn [set_remove] in E |- *. rewrite E. cbn [bind].
  exact (IH d' I' Fr).
Qed.

Lemma src_remove_iprange_ok d ver s e flags : SetInv d -> wf_range ver s e ->
  src_IPSet_remove_iprange d (ver, s, e) flags = set_remove d (ERange ver s e).
Proof.
  intros I W. unfold src_IPSet_remove_iprange, set_remove. range_cidrs W.
  destruct W as (V & A & B).
  destruct (s_addr_net_facts ver s V ltac:(lia)) as (Ws & Vs & Fs & Ls).
  destruct (s_addr_net_facts ver e V ltac:(lia)) as (We & Ve & Fe & Le).
  destruct (C06_inst.range_spec_holds (addr_net ver s) (addr_net ver e) Ws We ltac:(congruence) ltac:(lia)) as (cs & E & (Fc & _) & _).
  rewrite E. cbn [bind].
  rewrite (src_remove_iprange_loop_ok cs d I); [destruct (remove_all d cs); reflexivity|].
  eapply Forall_impl; [|exact Fc]. intros x Hx. exact (proj1 Hx).
Qed.

Lemma src_update_net_ok d n flags : wf_net n -> src_IPSet_update_net d n flags = set_update d (ANet n).
Proof.
  intros W. unfold src_IPSet_update_net, set_update. rewrite (src_add_net_ok d n 0 W). destruct (set_add d (ENet n)); reflexivity.
Qed.

Lemma src_update_iprange_ok d ver s e flags : wf_range ver s e ->
  src_IPSet_update_iprange d (ver, s, e) flags = set_update d (ARange ver s e).
Proof.
  intros W. unfold src_IPSet_update_iprange, set_update. rewrite (src_add_iprange_ok d ver s e 0 W).
  destruct (set_add d (ERange ver s e)); reflexivity.
Qed.

(* ---------------------------------------------------------------- update / __init__ for a list of IPNetwork objects *)
Lemma mitems_of_nets l : mitems_of (map ENet l) = Ok (map MNet l).
Proof. induction l as [|n r IH]; [reflexivity|]. cbn [map mitems_of mitem_of_elem bind]. rewrite IH. reflexivity. Qed.

Lemma src_update_list_loop1_ok : forall xs acc, src_IPSet_update_list_loop1 xs acc = acc ++ xs.
Proof. induction xs as [|x r IH]; intros acc; [rewrite app_nil_r; reflexivity|]. cbn [src_IPSet_update_list_loop1]. rewrite IH, <- app_assoc. reflexivity. Qed.
Lemma src_update_list_loop2_ok : forall xs d, src_IPSet_update_list_loop2 xs d = fold_left dset xs d.
Proof. induction xs as [|x r IH]; intros d; [reflexivity|]. cbn [src_IPSet_update_list_loop2 fold_left]. apply IH. Qed.
Lemma src_init_list_loop1_ok : forall xs acc, src_IPSet_init_list_loop1 xs acc = acc ++ xs.
Proof. induction xs as [|x r IH]; intros acc; [rewrite app_nil_r; reflexivity|]. cbn [src_IPSet_init_list_loop1]. rewrite IH, <- app_assoc. reflexivity. Qed.
Lemma src_init_list_loop2_ok : forall xs d, src_IPSet_init_list_loop2 xs d = fold_left dset xs d.
Proof. induction xs as [|x r IH]; intros d; [reflexivity|]. cbn [src_IPSet_init_list_loop2 fold_left]. apply IH. Qed.

Lemma src_update_list_ok d l flags : src_IPSet_update_list d l flags = set_update d (AIter (map ENet l)).
Proof.
  unfold src_IPSet_update_list, set_update. cbv zeta. rewrite mitems_of_nets. cbn [bind]. rewrite src_update_list_loop1_ok. cbn [app].
  unfold py_cidr_merge. rewrite map_app. destruct (cidr_merge (map MNet d ++ map MNet l)) as [cs|]; [|reflexivity]. cbn [bind].
  rewrite src_update_list_loop2_ok, src_compact_ok. destruct (set_compact (fold_left dset cs d)); reflexivity.
Qed.

Lemma src_init_list_ok d0 l flags : src_IPSet_init_list d0 l flags = set_init (AIter (map ENet l)).
Proof.
  unfold src_IPSet_init_list, set_init. cbv zeta. rewrite mitems_of_nets. cbn [bind]. rewrite src_init_list_loop1_ok. cbn [app].
  unfold py_cidr_merge. destruct (cidr_merge (map MNet l)) as [cs|]; [|reflexivity]. cbn [bind]. rewrite src_init_list_loop2_ok. reflexivity.
Qed.

(* ---------------------------------------------------------------- the other forms of __init__ *)
Lemma src_init_none_ok d0 flags : Ok (src_IPSet_init_none d0 tt flags) = set_init ANone.
Proof. reflexivity. Qed.

Lemma src_init_net_ok d0 n flags : wf_net n -> src_IPSet_init_net d0 n flags = set_init (ANet n).
Proof. intros W. unfold src_IPSet_init_net, set_init. rewrite (src_cidr_ncidr n W). reflexivity. Qed.

Lemma src_init_iprange_ok d0 ver s e flags : wf_range ver s e -> src_IPSet_init_iprange d0 (ver, s, e) flags = set_init (ARange ver s e).
Proof.
  intros W. unfold src_IPSet_init_iprange, set_init. range_cidrs W.
  destruct (iprange_to_cidrs (addr_net ver s) (addr_net ver e)); reflexivity.
Qed.

Lemma src_init_ipset_ok d0 o flags : Ok (src_IPSet_init_ipset d0 o flags) = set_init (ASet o).
Proof. reflexivity. Qed.

(* everything the C06 source tie (other argument forms) states (Props/C06_src_bulk.v) *)
Lemma C06_bulk_tie_ok :
  (forall d ver s e flags, wf_range ver s e -> src_IPSet_add_iprange d (ver, s, e) flags = set_add d (ERange ver s e)) /\
  (forall d ver s e flags, SetInv d -> wf_range ver s e -> src_IPSet_remove_iprange d (ver, s, e) flags = set_remove d (ERange ver s e)) /\
  (forall d n flags, wf_net n -> src_IPSet_update_net d n flags = set_update d (ANet n)) /\
  (forall d ver s e flags, wf_range ver s e -> src_IPSet_update_iprange d (ver, s, e) flags = set_update d (ARange ver s e)) /\
  (forall d l flags, src_IPSet_update_list d l flags = set_update d (AIter (map ENet l))) /\
  (forall d0 flags, Ok (src_IPSet_init_none d0 tt flags) = set_init ANone) /\
  (forall d0 n flags, wf_net n -> src_IPSet_init_net d0 n flags = set_init (ANet n)) /\
  (forall d0 ver s e flags, wf_range ver s e -> src_IPSet_init_iprange d0 (ver, s, e) flags = set_init (ARange ver s e)) /\
  (forall d0 o flags, Ok (src_IPSet_init_ipset d0 o flags) = set_init (ASet o)) /\
  (forall d0 l flags, src_IPSet_init_list d0 l flags = set_init (AIter (map ENet l))).
Proof.
  split; [exact src_add_iprange_ok|]. split; [exact src_remove_iprange_ok|]. split; [exact src_update_net_ok|].
  split; [exact src_update_iprange_ok|]. split; [exact src_update_list_ok|]. split; [exact src_init_none_ok|].
  split; [exact src_init_net_ok|]. split; [exact src_init_iprange_ok|]. split; [exact src_init_ipset_ok|exact src_init_list_ok].
Qed.
