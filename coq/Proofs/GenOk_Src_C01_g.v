(* Proofs/GenOk_Src_C01_g.v -- source tie for C01, tag SRCG: the text renderings of netaddr/ip/__init__.py that were left
   (Gen/pysrc_ipg_gen.v): IPAddress.__repr__, IPNetwork.__repr__, IPRange.__str__, IPRange.__repr__ as text around the models of
   the already tied __str__ (AddrText.addr_str, NetText.net_str), IPAddress.__oct__ (Python 2 only; no model: stated directly). *)
From Coq Require Import String Ascii.
From NV Require Import Base.Tac Base.PyVal Base.PyStr Model.Ip Model.AddrText Model.NetText Model.SrcPrelude Model.SrcPreludeCtor Model.SrcPreludeG
  Gen.pysrc_gen Gen.pysrc_ctor_gen Gen.pysrc_parse_gen Gen.pysrc_ipg_gen Proofs.GenOk_Src_C03.
Import ListNotations.
Open Scope Z_scope.

Lemma C01_tie_g_ok :
  (forall be ver w v, src_IPAddress_repr be ver w v = omap (fun s => "IPAddress('" ++ s ++ "')")%string (addr_str be ver v)) /\
  (forall be ver v p, src_IPNetwork_repr be ver (width ver) v p =
     omap (fun s => "IPNetwork('" ++ s ++ "')")%string (net_str be {| nver := ver; nval := v; nplen := p |})) /\
  (forall be ver w s e, src_IPRange_str be ver w s e = (do a <- addr_str be ver s; do b <- addr_str be ver e; Ok (a ++ "-" ++ b)%string)) /\
  (forall be ver w s e, src_IPRange_repr be ver w s e =
     (do a <- addr_str be ver s; do b <- addr_str be ver e; Ok ("IPRange('" ++ a ++ "', '" ++ b ++ "')")%string)) /\
  (forall ver w v, src_IPAddress_oct ver w v = if v =? 0 then "0"%string else py_fmt_oct "0" v).
Proof.
  repeat split; intros; reflexivity.
Qed.
