(* Proofs/GenOk_Src_C01_g.v -- source tie for C01, tag SRCG: the text renderings of netaddr/ip/__init__.py that were left
   (Gen/pysrc_ipg_gen.v): IPAddress.__repr__, IPNetwork.__repr__, IPRange.__str__, IPRange.__repr__ as text around the models of
   the already tied __str__ (AddrText.addr_str, NetText.net_str), IPAddress.__oct__ (Python 2 only; no model: stated directly). *)
From Coq Require Import String Ascii.
From NV Require Import Base.Tac Base.PyVal Base.PyStr Model.Ip Model.AddrText Model.NetText Model.SrcPrelude Model.SrcPreludeCtor Model.SrcPreludeG
  Model.SrcPreludeText Gen.pysrc_gen Gen.pysrc_ctor_gen Gen.pysrc_parse_gen Gen.pysrc_ipv4_gen Gen.pysrc_ipv6_gen Gen.pysrc_ipg_gen
  Proofs.GenOk_Src_C03 Proofs.GenOk_Src_C01_text.
Import ListNotations.
Open Scope Z_scope.

Lemma C01_tie_g_ok :
  (forall be ver w v, src_IPAddress_repr be ver w v = omap (fun s => "IPAddress('" ++ s ++ "')")%string (addr_str be ver v)) /\
  (forall be ver v p, src_IPNetwork_repr be ver (width ver) v p =
     omap (fun s => "IPNetwork('" ++ s ++ "')")%string (net_str be {| nver := ver; nval := v; nplen := p |})) /\
  (forall be ver w s e, src_IPRange_str be ver w s e = (do a <- addr_str be ver s; do b <- addr_str be ver e; Ok (a ++ "-" ++ b)%string)) /\
  (forall be ver w s e, src_IPRange_repr be ver w s e =
     (do a <- addr_str be ver s; do b <- addr_str be ver e; Ok ("IPRange('" ++ a ++ "', '" ++ b ++ "')")%string)) /\
  (forall ver w v, src_IPAddress_oct ver w v = if v =? 0 then "0"%string else py_fmt_oct "0" v).
Proof.
  repeat split; intros; reflexivity.
Qed.

(* IPAddress.format: the dialect argument of the model (None or one of the dialect records) as the generated code sees it *)
Definition d6_of (d : option dialect) : darg6 := match d with None => D6None | Some d => D6Class (dcls d) end.

Lemma src_format_ok be ver w v d : ver = 4 \/ ver = 6 -> src_IPAddress_format be ver w v (d6_of d) = int_to_str be ver v d.
Proof.
  destruct C01_tie_text1_ok as (_ & _ & H4 & _ & _ & _ & _ & H6 & _).
  intros [-> | ->]; destruct d as [d|]; cbn [d6_of src_IPAddress_format].
  - change (4 =? src_ipv4_version) with true. cbv iota. apply H4.
  - change (4 =? src_ipv4_version) with true. cbv iota. apply H4.
  - change (6 =? src_ipv4_version) with false. change (6 =? src_ipv6_version) with true. cbv iota. apply (H6 be v (Some d)).
  - change (6 =? src_ipv4_version) with false. change (6 =? src_ipv6_version) with true. cbv iota. apply (H6 be v None).
Qed.

Lemma C01_tie_g_format_ok :
  (forall be ver w v d, ver = 4 \/ ver = 6 -> src_IPAddress_format be ver w v (d6_of d) = int_to_str be ver v d) /\
  (forall be ver w v, src_IPAddress_format be ver w v D6Other = Raise TypeError).
Proof. split; [exact src_format_ok|reflexivity]. Qed.
