(* Proofs/GenOk_Src_C08_f.v — source tie for C08, sixth part (tag SRCF): EUI.__setstate__ and IAB.split_iab_mac
   (Gen/pysrc_euib_gen.v).  split_iab_mac equals Model/Eui.v split_iab_mac (the pair as a two-element list); __setstate__ has no
   model function, its result is stated directly: version 48 / 64 selects the module, the dialect goes through validate_dialect,
   any other version raises ValueError. *)
From Coq Require Import String Ascii.
From NV Require Import Base.Tac Base.PyVal Base.PyStr Model.Ip Model.Eui Model.SrcPrelude Model.SrcPreludeStr
  Model.SrcPreludeEui Model.SrcPreludeEui2 Gen.pysrc_eui_gen Gen.pysrc_eui48b_gen Gen.pysrc_eui64b_gen Gen.pysrc_euib_gen
  Proofs.GenOk_Src_C08_c Proofs.GenOk_Src_C08_e.
Import ListNotations.
Open Scope Z_scope.

Definition setstate_spec (value version : Z) (a : darg) : outcome eui :=
  if version =? 48 then do dd <- validate_dialect 48 a; Ok {| ever := 48; evalue := value; edialect := dd |}
  else if version =? 64 then do dd <- validate_dialect 64 a; Ok {| ever := 64; evalue := value; edialect := dd |}
  else Raise ValueError.

Lemma src_eui_setstate_ok value version a : src_EUI_setstate (value, version, a) = setstate_spec value version a.
Proof.
  unfold src_EUI_setstate, setstate_spec. cbv iota beta. rewrite !src_set_dialect_validate.
  destruct (version =? 48); [reflexivity|]. destruct (version =? 64); reflexivity.
Qed.

Lemma src_split_iab_mac_ok i strict :
  src_IAB_split_iab_mac i strict = omap (fun r => [fst r; snd r]) (split_iab_mac i strict).
Proof.
  unfold src_IAB_split_iab_mac, split_iab_mac, zmem, iab_values.
  change [0x50c2; 0x40d855] with [20674; 4249685].
  destruct (existsb (Z.eqb (Z.shiftr i 12)) [20674; 4249685]); [reflexivity|]. cbv zeta.
  destruct (existsb (Z.eqb (Z.shiftr (Z.shiftr i 12) 12)) [20674; 4249685]); [|reflexivity].
  destruct (strict && negb (_ =? 0)); reflexivity.
Qed.

Lemma C08_tie_f_ok :
  (forall value version a, src_EUI_setstate (value, version, a) = setstate_spec value version a) /\
  (forall i strict, src_IAB_split_iab_mac i strict = omap (fun r => [fst r; snd r]) (split_iab_mac i strict)) /\
  (forall ver v, src_EUI_index ver v = v /\ src_EUI_long ver v = v /\ src_EUI_int ver v = v).
Proof. split; [exact src_eui_setstate_ok|]. split; [exact src_split_iab_mac_ok|]. intros ver v. repeat split. Qed.
