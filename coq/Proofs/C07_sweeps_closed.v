(* Proofs/C07_sweeps_closed.v — the operator specifications with the C05 hypotheses discharged
   (C05_range : iprange_to_cidrs_spec, C05_merge : cidr_merge_spec), in the shapes inter_spec / diff_spec / xor_spec
   consumed by the C06 history proofs. *)
From NV Require Import Base.Tac Base.PyVal Base.Canon Model.Ip Model.Merge Model.Sets Proofs.C02 Proofs.NetDen
  Proofs.C05_range Proofs.C05_merge
  Proofs.C07_sweeps Proofs.C07_sweeps_inter Proofs.C07_sweeps_ranges Proofs.C07_sweeps_xor Proofs.C07_sweeps_diff
  Proofs.C07_sweeps_union.
Open Scope Z_scope.

Theorem set_intersection_den a b : SetInv a -> SetInv b ->
  exists d, set_intersection a b = Ok d /\ SetInv d /\
    forall ver x, den d ver x <-> den a ver x /\ den b ver x.
Proof.
  intros Ia Ib. destruct (set_intersection_spec a b Ia Ib) as (r & Hr & Ir & D & _). exists r. auto.
Qed.

Theorem set_difference_closed : forall a b, SetInv a -> SetInv b ->
  exists d, set_difference a b = Ok d /\ SetInv d /\
    forall ver x, den d ver x <-> den a ver x /\ ~ den b ver x.
Proof. exact (set_difference_spec C05_range). Qed.

Theorem set_symdiff_closed : forall a b, SetInv a -> SetInv b ->
  exists d, set_symdiff a b = Ok d /\ SetInv d /\
    forall ver x, den d ver x <-> (den a ver x /\ ~ den b ver x) \/ (den b ver x /\ ~ den a ver x).
Proof. exact (set_symdiff_spec C05_range). Qed.

Theorem set_union_closed : forall a b, SetInv a -> SetInv b ->
  exists d, set_union a b = Ok d /\ SetInv d /\ canon_nets d /\
    forall ver x, den d ver x <-> den a ver x \/ den b ver x.
Proof. exact (set_union_spec C05_merge). Qed.

(* IPSet.update(other IPSet): the in-place form of union *)
Theorem set_update_set_closed : forall a b, SetInv a -> SetInv b ->
  exists d, set_update a (ASet b) = Ok d /\ SetInv d /\ canon_nets d /\
    forall ver x, den d ver x <-> den a ver x \/ den b ver x.
Proof.
  intros a b Ia Ib. destruct (set_union_closed a b Ia Ib) as (r & Hr & H).
  unfold set_union in Hr. rewrite (s_dupdate_nil a Ia) in Hr. exists r. split; [exact Hr|exact H].
Qed.
