(* Proofs/C03_Str.v — string-level lemmas for C03: int() rejects text holding '.', ':' or '/';
   splitting "a/t"; dotted tokens of partial IPv4 forms; the two text transformations on canonical spellings. *)
From Coq Require Import String Ascii.
From NV Require Import Base.Tac Base.PyVal Base.PyStr Base.PyStrFacts Model.IpText Model.FbSocket Model.AddrText Model.Ip
  Model.NetText Proofs.C01_Chars Proofs.C01_V6 Proofs.C01_V4.
Import ListNotations.
Open Scope Z_scope.

(* ================================================================ int(s): a character that cannot occur *)
(* a character int() can neither skip nor read, in base 10 *)
Definition bad10 (c : ascii) : Prop :=
  is_space_int c = false /\ ascii_eqb c ch_plus = false /\ ascii_eqb c ch_minus = false /\ ascii_eqb c ch_us = false /\
  digit_in 10 c = None.

Lemma bad10_dot : bad10 "."%char. Proof. repeat split. Qed.
Lemma bad10_colon : bad10 ":"%char. Proof. repeat split. Qed.
Lemma bad10_slash : bad10 "/"%char. Proof. repeat split. Qed.

Lemma neq_of_eqb_diff (f : ascii -> bool) c a : f c = false -> f a = true -> c <> a.
Proof. intros H1 H2 E. subst. congruence. Qed.

Lemma drop_space_int_in c l : is_space_int c = false -> In c l -> In c (drop_space_int l).
Proof. intros Hc. induction l as [|a r IH]; intros Hin; [exact Hin|]. cbn [drop_space_int].
  destruct (is_space_int a) eqn:Sa; [|exact Hin]. destruct Hin as [E|Hin]; [subst; congruence|]. now apply IH. Qed.

Lemma scan_digits_in base c l : digit_in base c = None -> ascii_eqb c ch_us = false ->
  forall acc n pu v rest, In c l -> scan_digits base l acc n pu = Some (v, rest) -> In c rest.
Proof. intros Hd Hu. induction l as [|a r IH]; intros acc n pu v rest Hin; [destruct Hin|]. cbn [scan_digits].
  destruct (digit_in base a) as [d|] eqn:Da.
  - destruct Hin as [E|Hin]; [subst; congruence|]. now apply IH.
  - destruct (ascii_eqb a ch_us) eqn:Ua.
    + destruct pu; [discriminate|]. destruct Hin as [E|Hin]; [subst; congruence|]. now apply IH.
    + destruct pu; [discriminate|]. destruct (Nat.eqb n 0); [discriminate|]. intros E. injection E as _ <-. exact Hin. Qed.

Lemma py_int_body_bad c neg l : bad10 c -> In c l -> py_int_body 10 neg l = None.
Proof. intros (Hs & Hp & Hm & Hu & Hd) Hin. unfold py_int_body.
  assert (E3 : match l with
               | z :: p :: r => if ascii_eqb z ch_0 && is_prefix_char 10 p
                                then match r with u :: r' => if ascii_eqb u ch_us then r' else r | [] => r end
                                else l
               | _ => l
               end = l).
  { destruct l as [|z [|p r]]; try reflexivity. change (is_prefix_char 10 p) with false. now rewrite andb_false_r. }
  rewrite E3. destruct l as [|a r]; [reflexivity|]. destruct (ascii_eqb a ch_us); [reflexivity|].
  destruct (scan_digits 10 (a :: r) 0 0 false) as [[v rest]|] eqn:S; [|reflexivity].
  pose proof (scan_digits_in 10 c (a :: r) Hd Hu _ _ _ _ _ Hin S) as Hr.
  pose proof (drop_space_int_in c rest Hs Hr) as Hr'. destruct (drop_space_int rest); [destruct Hr'|reflexivity]. Qed.

Lemma py_int_chars_bad c l : bad10 c -> In c l -> py_int_chars 10 l = None.
Proof. intros Hb Hin. pose proof Hb as (Hs & Hp & Hm & Hu & Hd).
  pose proof (drop_space_int_in c l Hs Hin) as H1. unfold py_int_chars.
  destruct (drop_space_int l) as [|a r] eqn:E; [destruct H1|].
  assert (G : forall neg l2, In c l2 -> py_int_body 10 neg l2 = None) by (intros; now apply (py_int_body_bad c)).
  unfold py_int_body in G.
  destruct (ascii_eqb a ch_plus) eqn:Pa.
  - destruct H1 as [X|H1]; [subst; congruence|]. exact (G false r H1).
  - destruct (ascii_eqb a ch_minus) eqn:Ma.
    + destruct H1 as [X|H1]; [subst; congruence|]. exact (G true r H1).
    + exact (G false (a :: r) H1). Qed.

Lemma py_int_bad c s : bad10 c -> contains_char c s = true -> py_int 10 s = None.
Proof. intros Hb Hc. apply contains_char_true_iff in Hc. unfold py_int. now apply (py_int_chars_bad c). Qed.

Lemma py_int_dot s : contains_char "." s = true -> py_int 10 s = None. Proof. apply py_int_bad, bad10_dot. Qed.
Lemma py_int_colon s : contains_char ":" s = true -> py_int 10 s = None. Proof. apply py_int_bad, bad10_colon. Qed.
Lemma py_int_slash s : contains_char "/" s = true -> py_int 10 s = None. Proof. apply py_int_bad, bad10_slash. Qed.

(* ================================================================ "a/t" *)
Lemma slash_split a t : contains_char "/" a = false ->
  contains_char "/" (a ++ "/" ++ t) = true /\ split1 "/" (a ++ "/" ++ t) = [a; t].
Proof. intros H. split.
  - rewrite contains_char_app. cbn. now rewrite orb_true_r.
  - change ("/" ++ t)%string with (String "/" t). now apply split1_app. Qed.

(* when '/' in s, s.split('/', 1) has exactly two parts *)
Lemma split1_two s : contains_char "/" s = true -> exists a t, split1 "/" s = [a; t] /\ contains_char "/" a = false /\
  s = (a ++ "/" ++ t)%string.
Proof. intros H. unfold contains_char in H. unfold split1.
  assert (G : forall l cur, existsb (ascii_eqb "/") l = true ->
            exists a t, split1_chars "/" l cur = [rev cur ++ a; t] /\ existsb (ascii_eqb "/") a = false /\ l = a ++ "/"%char :: t).
  { induction l as [|c r IH]; intros cur E; [discriminate|]. cbn [split1_chars].
    destruct (ascii_eqb c "/") eqn:C.
    - apply ascii_eqb_eq in C. subst. exists [], r. rewrite app_nil_r. repeat split.
    - cbn [existsb] in E. rewrite ascii_eqb_sym, C in E. cbn [orb] in E.
      destruct (IH (c :: cur) E) as (a & t & E1 & E2 & E3). exists (c :: a), t. split; [|split].
      + rewrite E1. cbn [rev]. now rewrite <- app_assoc.
      + cbn [existsb]. now rewrite ascii_eqb_sym, C.
      + now rewrite E3. }
  destruct (G (chars s) [] H) as (a & t & E1 & E2 & E3). exists (str_of a), (str_of t). split; [|split].
  - rewrite E1. reflexivity.
  - unfold contains_char. now rewrite chars_str_of.
  - apply chars_inj. rewrite E3, chars_app, chars_str_of. cbn. now rewrite chars_str_of. Qed.

(* ================================================================ dotted decimal tokens *)
Definition dtoks (os : list Z) : list string := map fmt_d os.
Definition dotted (os : list Z) : string := join "." (dtoks os).

Lemma dtoks_no_dot os : Forall (fun o => 0 <= o) os -> Forall (fun t => contains_char "." t = false) (dtoks os).
Proof. intros H. unfold dtoks. apply Forall_map. eapply Forall_impl; [|exact H]. intros o Ho. now apply fmt_d_no_dot. Qed.

Lemma split_dotted os : os <> [] -> Forall (fun o => 0 <= o) os -> split "." (dotted os) = dtoks os.
Proof. intros Hne H. unfold dotted. apply split_join.
  - unfold dtoks. destruct os; [congruence|discriminate].
  - now apply dtoks_no_dot. Qed.

Lemma ntoa_dotted a b c d : Std4.ntoa [a; b; c; d] = dotted [a; b; c; d].
Proof. apply ntoa_as_join. Qed.

Lemma contains_join c sep toks : contains_char c sep = false -> Forall (fun t => contains_char c t = false) toks ->
  contains_char c (join sep toks) = false.
Proof. intros Hs. induction toks as [|t [|u r] IH]; intros H.
  - reflexivity.
  - rewrite join_single. now inversion H.
  - rewrite join_cons, !contains_char_app. inversion H as [|? ? Ht Hr]; subst. rewrite Ht, Hs. cbn [orb]. now apply IH. Qed.

Lemma dotted_no_char c os : is_digit c = false -> ascii_eqb c "." = false -> Forall (fun o => 0 <= o) os ->
  contains_char c (dotted os) = false.
Proof. intros Hd Hdot H. unfold dotted. apply contains_join.
  - cbn. now rewrite Hdot.
  - unfold dtoks. apply Forall_map. eapply Forall_impl; [|exact H]. intros o Ho. now apply fmt_d_no_char. Qed.

Lemma dotted_has_dot a b r : contains_char "." (dotted (a :: b :: r)) = true.
Proof. unfold dotted, dtoks. cbn [map]. rewrite join_cons, !contains_char_app. cbn. now rewrite orb_true_r. Qed.
