(* Proofs/C02.v — CIDR bit identities, mask predicates, setters. *)
From NV Require Import Base.Tac Base.PyVal Base.Bits Model.Ip Proofs.Pow2Test.
Open Scope Z_scope.

Definition wf_net (n : net) : Prop :=
  valid_ver (nver n) = true /\ 0 <= nval n < 2 ^ width (nver n) /\ 0 <= nplen n <= width (nver n).

Lemma width_cases ver : valid_ver ver = true -> (ver = 4 /\ width ver = 32) \/ (ver = 6 /\ width ver = 128).
Proof. unfold valid_ver, width. intros H. case_eqb ver 4; [left|right]; split; try lia;
  destruct (Z.eqb_spec ver 6); try lia; try discriminate; subst; reflexivity. Qed.

Lemma width_nonneg ver : 0 <= width ver.
Proof. unfold width. destruct (ver =? 4); lia. Qed.

Section Ident.
Variables w v p : Z.
Hypothesis Hp : 0 <= p <= w.
Hypothesis Hv : 0 <= v < 2 ^ w.

Lemma hostmask_int_eq : hostmask_int w p = 2 ^ (w - p) - 1.
Proof. unfold hostmask_int. rewrite shiftl1 by lia. reflexivity. Qed.

Lemma hm_bounds : 0 <= 2 ^ (w - p) - 1 < 2 ^ w.
Proof. pose proof (pow2_pos (w - p)). pose proof (pow2_le (w - p) w). lia. Qed.

Lemma netmask_int_eq : netmask_int w p = 2 ^ w - 2 ^ (w - p).
Proof. unfold netmask_int, max_int_w. rewrite hostmask_int_eq, lxor_ones_sub by (try apply hm_bounds; lia). lia. Qed.

Lemma net_network_eq : net_network w v p = floor2 v (w - p).
Proof. unfold net_network, netmask_int, max_int_w. rewrite hostmask_int_eq. apply land_netmask; lia. Qed.

Lemma net_first_eq : net_first w v p = floor2 v (w - p).
Proof. unfold net_first, max_int_w. rewrite hostmask_int_eq. apply land_netmask; lia. Qed.

Lemma net_last_eq : net_last w v p = floor2 v (w - p) + 2 ^ (w - p) - 1.
Proof. unfold net_last. rewrite shiftl1 by lia. apply lor_ones; lia. Qed.

Lemma net_size_eq : net_size w v p = 2 ^ (w - p).
Proof. unfold net_size. rewrite net_last_eq, net_first_eq. lia. Qed.

Lemma net_netmask_eq : net_netmask w p = 2 ^ w - 2 ^ (w - p).
Proof. apply netmask_int_eq. Qed.

Lemma net_hostmask_eq : net_hostmask w p = 2 ^ (w - p) - 1.
Proof. apply hostmask_int_eq. Qed.

Lemma net_cidr_eq : net_cidr w v p = (floor2 v (w - p), p).
Proof. unfold net_cidr. fold (net_network w v p). rewrite net_network_eq. reflexivity. Qed.

Lemma first_last_in_range :
  0 <= floor2 v (w - p) /\ floor2 v (w - p) + 2 ^ (w - p) - 1 < 2 ^ w.
Proof.
  split; [apply floor2_nonneg; lia|].
  pose proof (floor2_divide v (w - p) ltac:(lia)) as [k Hk].
  pose proof (pow2_divide (w - p) w ltac:(lia)) as [m Hm].
  pose proof (floor2_bounds v (w - p) ltac:(lia)). pose proof (pow2_pos (w - p) ltac:(lia)).
  rewrite Hk, Hm in *. assert (k < m) by nia. nia.
Qed.

(* the whole statement of the property's first sentence, as one conjunction *)
Lemma identities_w :
  let H := 2 ^ (w - p) in
  let first := v - v mod H in
  net_hostmask w p = H - 1 /\
  net_netmask w p = 2 ^ w - 1 - (H - 1) /\
  net_network w v p = first /\
  net_network w v p = Z.land v (net_netmask w p) /\
  net_first w v p = first /\
  net_last w v p = first + (H - 1) /\
  net_size w v p = H /\
  net_size w v p = net_last w v p - net_first w v p + 1 /\
  net_ip v = v /\
  net_cidr w v p = (first, p) /\
  first mod H = 0 /\ 0 <= first /\ first + (H - 1) <= 2 ^ w - 1.
Proof.
  cbn zeta. pose proof first_last_in_range as [F1 F2]. unfold floor2 in F1, F2.
  split; [apply net_hostmask_eq|]. split; [rewrite net_netmask_eq; lia|].
  split; [apply net_network_eq|]. split; [reflexivity|]. split; [apply net_first_eq|].
  split; [rewrite net_last_eq; unfold floor2; lia|]. split; [apply net_size_eq|].
  split; [reflexivity|]. split; [reflexivity|]. split; [apply net_cidr_eq|].
  split; [|lia].
  pose proof (floor2_divide v (w - p) ltac:(lia)) as D. unfold floor2 in D.
  apply Z.mod_divide in D; [exact D|]. pose proof (pow2_pos (w - p)). lia.
Qed.
End Ident.

Lemma broadcast_eq ver v p : valid_ver ver = true -> 0 <= p <= width ver -> 0 <= v < 2 ^ width ver ->
  net_broadcast ver v p =
    if (ver =? 4) && (31 <=? p) then None else Some (net_last (width ver) v p).
Proof.
  intros Hver Hp Hv. unfold net_broadcast, net_last, hostmask_int.
  destruct (width_cases ver Hver) as [[-> W]|[-> W]]; rewrite W in *.
  - change (4 =? 4) with true. cbn [andb]. case_leb (32 - p) 1; case_leb 31 p; try lia; reflexivity.
  - change (6 =? 4) with false. cbn [andb]. reflexivity.
Qed.

(* ---- mask predicates ---- *)
Lemma is_hostmask_iff w x : 0 <= w -> 0 <= x < 2 ^ w ->
  (is_hostmask x = true <-> exists p, 0 <= p <= w /\ x = 2 ^ (w - p) - 1).
Proof.
  intros Hw Hx. unfold is_hostmask. cbn zeta. replace (x + 1 - 1) with x by lia.
  rewrite Z.eqb_eq, hostmask_test by lia. split.
  - intros (k & Hk & E). exists (w - k). replace (w - (w - k)) with k by lia. split; [|exact E].
    split; [|lia]. destruct (Z_le_gt_dec k w); [lia|]. pose proof (pow2_lt w k ltac:(lia)). lia.
  - intros (p & Hp & E). exists (w - p). split; [lia|exact E].
Qed.

Lemma is_netmask_iff w x : 0 <= w -> 0 <= x < 2 ^ w ->
  (is_netmask w x = true <-> exists p, 0 <= p <= w /\ x = 2 ^ w - 2 ^ (w - p)).
Proof.
  intros Hw Hx. unfold is_netmask, max_int_w. cbn zeta.
  rewrite Z.lxor_comm, lxor_ones_sub by lia.
  change (Z.land (2 ^ w - 1 - x + 1) (2 ^ w - 1 - x + 1 - 1) =? 0) with (is_hostmask (2 ^ w - 1 - x)).
  rewrite (is_hostmask_iff w) by lia. split; intros (p & Hp & E); exists p; split; try lia.
Qed.

Lemma nb_loop_some fuel : forall i acc, 0 <= i < 2 ^ Z.of_nat fuel -> (fuel > 0)%nat ->
  exists r, nb_loop fuel i acc = Some r.
Proof.
  induction fuel as [|f IH]; intros i acc Hi Hf; [lia|]. cbn [nb_loop].
  destruct (Z.gtb_spec i 0); [|eauto].
  destruct (Z.land i 1 =? 1) eqn:E; [eauto|].
  apply Z.eqb_neq in E. change 1 with (Z.ones 1) in E at 1. rewrite Z.land_ones in E by lia. change (2 ^ 1) with 2 in E.
  rewrite Z.shiftr_div_pow2 by lia. change (2 ^ 1) with 2.
  rewrite Nat2Z.inj_succ, Z.pow_succ_r in Hi by lia.
  apply IH.
  - split; [apply Z.div_pos; lia|]. apply Z.div_lt_upper_bound; lia.
  - destruct f; [|lia]. cbn in Hi. assert (i = 1) by lia. subst. cbn in E. lia.
Qed.

Lemma nb_loop_pow (k : nat) : forall fuel m acc, (fuel > k)%nat -> 0 < m -> m mod 2 = 1 ->
  nb_loop fuel (2 ^ Z.of_nat k * m) acc = Some (acc + Z.of_nat k).
Proof.
  induction k as [|k IH]; intros fuel m acc Hf Hm Hodd; (destruct fuel as [|f]; [lia|]); cbn [nb_loop].
  - change (2 ^ Z.of_nat 0) with 1. rewrite Z.mul_1_l.
    destruct (Z.gtb_spec m 0); [|lia].
    change 1 with (Z.ones 1) at 1. rewrite Z.land_ones by lia. change (2 ^ 1) with 2. rewrite Hodd. cbn. f_equal. lia.
  - rewrite Nat2Z.inj_succ, Z.pow_succ_r by lia.
    assert (P: 0 < 2 ^ Z.of_nat k) by (apply pow2_pos; lia).
    destruct (Z.gtb_spec (2 * 2 ^ Z.of_nat k * m) 0); [|nia].
    change 1 with (Z.ones 1) at 1. rewrite Z.land_ones by lia. change (2 ^ 1) with 2.
    replace (2 * 2 ^ Z.of_nat k * m) with (2 ^ Z.of_nat k * m * 2) by ring.
    rewrite Z.mod_mul by lia. cbn [Z.eqb].
    rewrite Z.shiftr_div_pow2 by lia. change (2 ^ 1) with 2. rewrite Z.div_mul by lia.
    rewrite IH by (try lia; assumption). f_equal. lia.
Qed.

Lemma pow2_minus1_odd p : 0 < p -> (2 ^ p - 1) mod 2 = 1.
Proof.
  intros Hp. replace p with (Z.succ (p - 1)) by lia. rewrite Z.pow_succ_r by lia.
  replace (2 * 2 ^ (p - 1) - 1) with (1 + (2 ^ (p - 1) - 1) * 2) by ring. rewrite Z.mod_add by lia. reflexivity.
Qed.

Lemma netmask_bits_of_prefix w p : 0 <= p <= w -> netmask_bits w (2 ^ w - 2 ^ (w - p)) = Ok p.
Proof.
  intros Hp. unfold netmask_bits.
  assert (Hw: 0 <= w) by lia.
  assert (R: 0 <= 2 ^ w - 2 ^ (w - p) < 2 ^ w).
  { pose proof (pow2_pos (w - p) ltac:(lia)). pose proof (pow2_le (w - p) w ltac:(lia)). lia. }
  assert (N: is_netmask w (2 ^ w - 2 ^ (w - p)) = true) by (apply is_netmask_iff; eauto).
  rewrite N. cbn [negb].
  destruct (Z.eq_dec p 0) as [->|Hp0].
  - replace (w - 0) with w by lia. replace (2 ^ w - 2 ^ w) with 0 by lia. reflexivity.
  - assert (E: 2 ^ w - 2 ^ (w - p) = 2 ^ (w - p) * (2 ^ p - 1)).
    { replace w with ((w - p) + p) at 1 by lia. rewrite Z.pow_add_r by lia. ring. }
    pose proof (pow2_pos (w - p) ltac:(lia)). pose proof (pow2_lt 0 p ltac:(lia)). change (2 ^ 0) with 1 in *.
    case_eqb (2 ^ w - 2 ^ (w - p)) 0; [nia|].
    rewrite E. rewrite <- (Z2Nat.id (w - p)) at 1 by lia.
    rewrite nb_loop_pow; [| lia | lia | apply pow2_minus1_odd; lia].
    rewrite Z2Nat.id by lia. replace (w - (0 + (w - p))) with p by lia.
    case_leb 0 p; case_leb p w; try lia. reflexivity.
Qed.

Lemma netmask_bits_not_mask w x : is_netmask w x = false -> netmask_bits w x = Ok w.
Proof. intros H. unfold netmask_bits. rewrite H. reflexivity. Qed.

Lemma netmask_bits_no_fuel w x : 0 <= w -> 0 <= x < 2 ^ w -> netmask_bits w x <> Raise OutOfFuel.
Proof.
  intros Hw Hx. destruct (is_netmask w x) eqn:N.
  - apply is_netmask_iff in N; try lia. destruct N as (p & Hp & ->). rewrite netmask_bits_of_prefix by lia. discriminate.
  - rewrite netmask_bits_not_mask by exact N. discriminate.
Qed.

(* ---- setters ---- *)
Definition setter_exn (e : exn) : Prop := e = AddrFormatError \/ e = ValueError \/ e = TypeError.

Lemma set_value_spec n a : wf_net n ->
  match set_value n a with
  | Ok n' => wf_net n' /\ nver n' = nver n /\ nplen n' = nplen n /\ a = SInt (nval n')
  | Raise e => setter_exn e
  end.
Proof.
  intros (Hv & Hval & Hp). unfold set_value. destruct a as [z| |]; try (right; right; reflexivity).
  unfold in_range_w, max_int_w. case_leb 0 z; case_leb z (2 ^ width (nver n) - 1); cbn [andb]; try (left; reflexivity).
  cbn. unfold wf_net; cbn. repeat split; try assumption; lia.
Qed.

Lemma set_prefixlen_spec n a : wf_net n ->
  match set_prefixlen n a with
  | Ok n' => wf_net n' /\ nver n' = nver n /\ nval n' = nval n /\ a = SInt (nplen n')
  | Raise e => setter_exn e
  end.
Proof.
  intros (Hv & Hval & Hp). unfold set_prefixlen. destruct a as [z| |]; try (right; right; reflexivity).
  case_leb 0 z; case_leb z (width (nver n)); cbn [andb]; try (left; reflexivity).
  cbn. unfold wf_net; cbn. repeat split; try assumption; lia.
Qed.

Lemma addr_of_int_spec i :
  match addr_of_int i with
  | Ok (ver, v) => v = i /\ ((ver = 4 /\ 0 <= i < 2 ^ 32) \/ (ver = 6 /\ 2 ^ 32 <= i < 2 ^ 128))
  | Raise e => e = AddrFormatError /\ ~ (0 <= i < 2 ^ 128)
  end.
Proof.
  unfold addr_of_int, max_int, max_int_w, width. change (4 =? 4) with true. change (6 =? 4) with false. cbn iota.
  case_leb 0 i; case_leb i (2 ^ 32 - 1); cbn [andb]; try (split; [reflexivity|left; lia]);
  case_ltb (2 ^ 32 - 1) i; case_leb i (2 ^ 128 - 1); cbn [andb]; try (split; [reflexivity|right; lia]);
  split; try reflexivity; lia.
Qed.

Lemma set_netmask_spec n a : wf_net n ->
  match set_netmask n a with
  | Ok n' => wf_net n' /\ nver n' = nver n /\ nval n' = nval n /\
             (forall ver m, (a = SAddr ver m \/ (a = SInt m /\ addr_of_int m = Ok (ver, m))) ->
                ver = nver n /\ 0 <= m < 2 ^ width ver ->
                m = 2 ^ width ver - 2 ^ (width ver - nplen n'))
  | Raise e => setter_exn e
  end.
Proof.
  intros Hwf. pose proof Hwf as (Hv & Hval & Hp). unfold set_netmask.
  set (ip := match a with SInt z => addr_of_int z | SAddr ver v => Ok (ver, v) | SOther => Raise AddrFormatError end).
  assert (Hip: match ip with
               | Ok (ver, m) => (a = SAddr ver m \/ (a = SInt m /\ addr_of_int m = Ok (ver, m)))
               | Raise e => e = AddrFormatError end).
  { subst ip. destruct a as [z|ver m|]; try reflexivity; [|left; reflexivity].
    pose proof (addr_of_int_spec z) as S. destruct (addr_of_int z) as [[ver m]|e] eqn:E.
    - destruct S as [-> _]. right. split; [reflexivity|exact E].
    - tauto. }
  destruct ip as [[ver m]|e]; cbn [bind]; [|left; exact Hip].
  case_eqb ver (nver n); cbn [negb]; [|right; left; reflexivity]. subst ver.
  destruct (is_netmask (width (nver n)) m) eqn:N; cbn [negb]; [|right; left; reflexivity].
  destruct (netmask_bits (width (nver n)) m) as [b|e] eqn:B; cbn [bind].
  2:{ unfold netmask_bits in B. rewrite N in B. cbn [negb] in B.
      destruct (m =? 0); [discriminate|].
      destruct (nb_loop _ _ _) as [nb|] eqn:L.
      - destruct ((0 <=? _) && _); [discriminate|]. injection B as <-. right; left; reflexivity.
      - (* out of fuel is excluded only for in-range masks; is_netmask alone already bounds m *)
        exfalso.
        unfold is_netmask, max_int_w in N. cbn zeta in N. clear -N L Hv.
        pose proof (width_nonneg (nver n)) as Hw.
        destruct (Z_lt_ge_dec m 0) as [Hneg|Hpos].
        + (* m < 0: the loop exits at once with Some *)
          destruct (Z.to_nat (width (nver n)) + 2)%nat eqn:F; [lia|]. cbn [nb_loop] in L.
          destruct (Z.gtb_spec m 0); [lia|discriminate].
        + destruct (Z_lt_ge_dec m (2 ^ (width (nver n) + 2))) as [Hlt|Hge].
          * destruct (nb_loop_some (Z.to_nat (width (nver n)) + 2) m 0) as [r Hr]; [|lia|congruence].
            rewrite Nat2Z.inj_add, Z2Nat.id by lia. change (Z.of_nat 2) with 2. lia.
          * (* m >= 2^(w+2): then m xor max_int = m - (m mod 2^w) + (max - m mod 2^w) ... not a mask; derive via hostmask_test *)
            apply Z.eqb_eq in N.
            set (y := Z.lxor m (2 ^ width (nver n) - 1)) in *.
            assert (Hy: 0 <= y) by (apply Z.lxor_nonneg; pose proof (pow2_pos (width (nver n)) Hw); lia).
            replace (y + 1 - 1) with y in N by lia.
            apply hostmask_test in N; [|lia]. destruct N as (k & Hk & Ey).
            (* y = 2^k - 1 means all low k bits set and none above; but m = y xor max has bit structure: bits >= w of m equal bits of y *)
            assert (Hm: m = Z.lxor y (2 ^ width (nver n) - 1)).
            { subst y. rewrite Z.lxor_assoc, Z.lxor_nilpotent, Z.lxor_0_r. reflexivity. }
            destruct (Z_le_gt_dec k (width (nver n))) as [Hkw|Hkw].
            -- assert (0 <= y < 2 ^ width (nver n)).
               { pose proof (pow2_le k (width (nver n)) ltac:(lia)). pose proof (pow2_pos k Hk). lia. }
               rewrite Z.lxor_comm, lxor_ones_sub in Hm by lia.
               pose proof (pow2_lt (width (nver n)) (width (nver n) + 2) ltac:(lia)). lia.
            -- (* k > w: m = 2^k - 2^w, whose trailing zeros = w, found within fuel w+2 *)
               assert (Em: m = 2 ^ width (nver n) * (2 ^ (k - width (nver n)) - 1)).
               { rewrite Hm, Ey. rewrite <- !ones_pow2 by lia.
                 apply Z.bits_inj'. intros i Hi.
                 rewrite Z.lxor_spec, !Z.testbit_ones by lia.
                 rewrite ones_pow2 by lia.
                 replace (2 ^ width (nver n) * (2 ^ (k - width (nver n)) - 1))
                   with ((2 ^ (k - width (nver n)) - 1) * 2 ^ width (nver n)) by ring.
                 rewrite <- Z.shiftl_mul_pow2 by lia.
                 destruct (Z_lt_ge_dec i (width (nver n))).
                 - rewrite Z.shiftl_spec_low by lia.
                   case_leb 0 i; case_ltb i k; case_ltb i (width (nver n)); try lia; reflexivity.
                 - rewrite Z.shiftl_spec by lia. rewrite <- ones_pow2 by lia. rewrite Z.testbit_ones by lia.
                   case_leb 0 i; case_ltb i k; case_ltb i (width (nver n)); case_leb 0 (i - width (nver n));
                     case_ltb (i - width (nver n)) (k - width (nver n)); try lia; reflexivity. }
               rewrite Em in L. rewrite <- (Z2Nat.id (width (nver n))) in L at 2 by lia.
               rewrite nb_loop_pow in L; [discriminate|lia| |apply pow2_minus1_odd; lia].
               pose proof (pow2_lt 0 (k - width (nver n)) ltac:(lia)). change (2 ^ 0) with 1 in *. lia. }
  pose proof (set_prefixlen_spec n (SInt b) Hwf) as S.
  destruct (set_prefixlen n (SInt b)) as [n'|e]; [|exact S].
  destruct S as (W' & V' & Val' & Eb). injection Eb as Eb. repeat split; try apply W'; try assumption.
  intros ver0 m0 Ha [Hver0 Hm0].
  assert (m0 = m /\ ver0 = nver n) as [-> ->].
  { destruct Hip as [Hip|[Hip1 Hip2]], Ha as [Ha|[Ha1 Ha2]]; try congruence; split; congruence. }
  apply is_netmask_iff in N; [|apply width_nonneg|lia]. destruct N as (q & Hq & Em).
  rewrite Em, netmask_bits_of_prefix in B by lia. injection B as B. rewrite Em, <- Eb, <- B. reflexivity.
Qed.

Lemma apply_setop_wf n o : wf_net n -> wf_net (fst (apply_setop n o)) /\
  match snd (apply_setop n o) with Some e => setter_exn e /\ fst (apply_setop n o) = n | None => True end.
Proof.
  intros Hwf. unfold apply_setop. destruct o as [a|a|a].
  - pose proof (set_value_spec n a Hwf). destruct (set_value n a); cbn; tauto.
  - pose proof (set_prefixlen_spec n a Hwf). destruct (set_prefixlen n a); cbn; tauto.
  - pose proof (set_netmask_spec n a Hwf). destruct (set_netmask n a); cbn; tauto.
Qed.

Lemma setops_history ops : forall n, wf_net n -> wf_net (fold_left (fun s o => fst (apply_setop s o)) ops n).
Proof.
  induction ops as [|o ops IH]; intros n Hwf; cbn [fold_left]; [exact Hwf|].
  apply IH. apply apply_setop_wf. exact Hwf.
Qed.

(* prefix tables *)
Lemma tab_nth w i : 0 <= i <= w ->
  assoc i (prefix_to_netmask_tab w) = Some (Z.lxor (max_int_w w) (2 ^ (w - i) - 1)) /\
  assoc i (prefix_to_hostmask_tab w) = Some (2 ^ (w - i) - 1).
Proof.
  intros Hi. unfold prefix_to_netmask_tab, prefix_to_hostmask_tab, zrange.
  assert (G: forall (f : Z -> Z) n s, (Z.of_nat s <= i < Z.of_nat s + Z.of_nat n) ->
            assoc i (map (fun j => (j, f j)) (map Z.of_nat (seq s n))) = Some (f i)).
  { intros f n. induction n as [|n IH]; intros s Hs; [lia|]. cbn [seq map assoc].
    case_eqb (Z.of_nat s) i; [subst; reflexivity|]. apply IH. lia. }
  split; apply (G (fun j => _)); rewrite Nat2Z.inj_add, Z2Nat.id by lia; cbn; lia.
Qed.
