(* Proofs/Code_C19.v — C19, part B (index rows produced by netaddr's own registry parsers delimit every record exactly) proved
   DIRECTLY about the definitions that harness/gen/pysrc.py regenerates on every run from the current text of
   OUIIndexParser.parse / IABIndexParser.parse (netaddr/eui/ieee.py; Gen/pysrc_ieee_gen.v: src_OUIIndexParser_parse,
   src_IABIndexParser_parse with their `while True` loops as Fixpoints on fuel).  The registry file self.fh is the list of its
   lines (terminator included), the second argument is the position tell() starts from (0); the generated function answers
   the rows notified, in order -- a row is the list [key; offset; size] (ints for the OUI parser, bytes-or-int values `bi` for
   the IAB parser, whose keys are ints BiI once the (base 16) line is read) -- or the exception.
   Every proof is: rewrite with the source tie (GenOk_Src_C19), apply the model theorem (Proofs/C19_ieee.v). *)
From Coq Require Import String Ascii.
From NV Require Import Base.Tac Base.PyVal Base.PyStr Model.Ip Model.Ieee Model.SrcPrelude Model.SrcPreludeStr
  Model.SrcPreludeIeee Gen.pysrc_ieee_gen Proofs.C19_ieee Proofs.GenOk_Src_C19.
Import ListNotations.
Open Scope Z_scope.

Lemma t_oui lines : src_OUIIndexParser_parse lines 0 = proj l3 [] (oui_parse lines).
Proof. destruct C19_tie_ok as (H & _). exact (H lines). Qed.
Lemma t_iab lines : src_IABIndexParser_parse lines 0 = proji [] (iab_parse lines).
Proof. destruct C19_tie_ok as (_ & H & _). exact (H lines). Qed.

(* a row as the generated parsers notify it *)
Definition oui_row (r : ouirow) : list Z := [fst (fst r); snd (fst r); snd r].
Definition iab_row (r : iabrow) : list bi :=
  [match fst (fst r) with KB s => BiB s | KI z => BiI z end; BiI (snd (fst r)); BiI (snd r)].

Lemma oui_row_l3 : forall rows, map l3 rows = map oui_row rows.
Proof. intros rows. apply map_ext. intros [[i o] s]. reflexivity. Qed.
Lemma iab_row_l3i : forall rows, map l3i rows = map iab_row rows.
Proof. intros rows. apply map_ext. intros [[k o] s]. destruct k; reflexivity. Qed.

Theorem index_exact_of_source :
  (forall hdr recs, Forall plain hdr -> recs <> [] -> Forall wf_orec recs ->
     src_OUIIndexParser_parse (hdr ++ flat_map olines recs) 0 = Ok (map oui_row (oui_expected (total hdr) recs)) /\
     abut (total hdr) (oui_expected (total hdr) recs) (total (hdr ++ flat_map olines recs)) /\
     map (fun x => fst (fst x)) (oui_expected (total hdr) recs) = map o_key recs) /\
  (forall hdr recs, Forall plain hdr -> recs <> [] -> Forall wf_irec recs ->
     src_IABIndexParser_parse (hdr ++ flat_map ilines recs) 0 = Ok (map iab_row (iab_expected (total hdr) recs)) /\
     abut (total hdr) (iab_expected (total hdr) recs) (total (hdr ++ flat_map ilines recs))).
Proof.
  destruct index_exact as (A & B). split; intros hdr recs Hh Hne Hr.
  - destruct (A hdr recs Hh Hne Hr) as (E & R). split; [|exact R].
    rewrite t_oui, E. cbn [proj app]. rewrite oui_row_l3. reflexivity.
  - destruct (B hdr recs Hh Hne Hr) as (E & R). split; [|exact R].
    rewrite t_iab, E. cbn [proji app]. rewrite iab_row_l3i. reflexivity.
Qed.

Theorem index_empty_raises_of_source : forall hdr, Forall plain hdr ->
  src_OUIIndexParser_parse hdr 0 = Raise AttributeError /\ src_IABIndexParser_parse hdr 0 = Raise AttributeError.
Proof.
  intros hdr H. destruct (index_empty_raises hdr H) as (A & B). rewrite t_oui, t_iab, A, B. split; reflexivity.
Qed.

(* for ANY file: the generated parser answers exactly the rows the model parser delivers when it ends normally, and raises
   the model's exception otherwise *)
Theorem parse_of_source : forall lines,
  (src_OUIIndexParser_parse lines 0 =
     match oui_parse lines with (rows, None) => Ok (map oui_row rows) | (_, Some e) => Raise e end) /\
  (src_IABIndexParser_parse lines 0 =
     match iab_parse lines with (rows, None) => Ok (map iab_row rows) | (_, Some e) => Raise e end).
Proof.
  intros lines. rewrite t_oui, t_iab. split.
  - destruct (oui_parse lines) as (rows, [e|]); cbn [proj app]; [reflexivity|]. rewrite oui_row_l3. reflexivity.
  - destruct (iab_parse lines) as (rows, [e|]); cbn [proji app]; [reflexivity|]. rewrite iab_row_l3i. reflexivity.
Qed.
