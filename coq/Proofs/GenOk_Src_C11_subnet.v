(* Proofs/GenOk_Src_C11_subnet.v -- source tie for C11, second part: the definitions regenerated from the text of
   IPNetwork.subnet (a generator), IPNetwork.next / previous and IPNetwork.iter_hosts (Gen/pysrc_subnet_gen.v) equal the
   hand-written model of Model/Subnet.v.
   A generator `<prologue>; while c: <body>; yield e` is translated into <f>_start (the prologue: the state the loop starts
   in, `Ok None` for a bare return) and <f>_next (one resumption: `Ok None` when the loop ends, `Ok (Some (e, state))` at the
   yield); the model has the same two pieces (subnet_start / subnet_next) with a record for the state and the pair
   (outcome of the element, next state) for a resumption.  `Class('%s/%d' % (a, prefixlen), version)` is the symbol
   py_net_of_cidr_text (the model's net_of_cidr_str on net records); `subnet.value += ..` / `subnet.prefixlen = ..` go
   through the regenerated setters; `ip_copy += step` is the regenerated __iadd__.  iter_hosts returns the not yet started
   generator iter_iprange(a, b) (ListLike.ItIprange) where the model of Subnet.v already runs its prologue: start_it. *)
From NV Require Import Base.Tac Base.PyVal Base.Bits Model.Ip Model.PySlice Model.ListLike Model.Subnet Model.SrcPrelude
  Model.SrcPreludeSRCE Gen.pysrc_gen Gen.pysrc_subnet_gen
  Proofs.C02 Proofs.GenOk_Src_Const Proofs.GenOk_Src_C02 Proofs.GenOk_Src_C11.
Import ListNotations.
Open Scope Z_scope.

(* the state of the subnet generator: the locals (i, count, base_subnet, prefixlen) its loop reads, in that order *)
Definition sg_state (g : subnet_gen) : Z * Z * Z * Z := (sg_i g, sg_count g, sg_base g, sg_q g).
Definition subnet_next_src (ver v p : Z) (st : Z * Z * Z * Z) : outcome (option (net * (Z * Z * Z * Z))) :=
  let '(i, count, base_subnet, prefixlen) := st in src_IPNetwork_subnet_next ver (width ver) v p i count base_subnet prefixlen.

Lemma src_subnet_start_ok ver v p prefixlen count fmt :
  src_IPNetwork_subnet_start ver (width ver) v p prefixlen count fmt =
    omap (option_map sg_state) (subnet_start (width ver) (v, p) prefixlen count).
Proof.
  unfold src_IPNetwork_subnet_start, subnet_start.
  change (src_IPNetwork_prefixlen ver (width ver) v p) with p.
  change (src_IPNetwork_first ver (width ver) v p) with (net_first (width ver) v p).
  destruct (negb ((0 <=? p) && (p <=? width ver))); [reflexivity|].
  destruct (negb (p <=? prefixlen)); [reflexivity|]. cbv zeta.
  destruct (width ver - prefixlen <? 0); [reflexivity|].
  destruct count as [c|]; cbv beta iota;
    match goal with |- context [negb ((1 <=? ?a) && (?a <=? ?b))] => destruct (negb ((1 <=? a) && (a <=? b))) end; reflexivity.
Qed.

Lemma src_subnet_next_ok ver v p g :
  subnet_next_src ver v p (sg_state g) =
    match subnet_next (width ver) g with
    | None => Ok None
    | Some (r, g') => omap (fun n => Some (wnet_net ver n, sg_state g')) r
    end.
Proof.
  unfold subnet_next_src, sg_state, src_IPNetwork_subnet_next, subnet_next.
  destruct (sg_i g <? sg_count g); [|reflexivity].
  unfold py_net_of_cidr_text, net_of_cidr_str.
  destruct (negb ((0 <=? sg_q g) && (sg_q g <=? width ver))); [reflexivity|].
  cbn [bind nver nval nplen fst snd]. unfold src_BaseIP_set_value, set_value_w.
  change (src_IPNetwork_size ver (width ver) (sg_base g) (sg_q g)) with (net_size (width ver) (sg_base g) (sg_q g)).
  destruct (negb ((0 <=? sg_base g + net_size (width ver) (sg_base g) (sg_q g) * sg_i g)
                  && (sg_base g + net_size (width ver) (sg_base g) (sg_q g) * sg_i g <=? max_int_w (width ver)))); [reflexivity|].
  cbn [bind nver nval nplen fst snd]. unfold src_IPNetwork_set_prefixlen, set_prefixlen_w.
  destruct (negb ((0 <=? sg_q g) && (sg_q g <=? width ver))); reflexivity.
Qed.

(* list(islice(gen, k)) of the generated pieces = the model's gen_take *)
Lemma src_subnet_take_loop_ok ver v p : forall k g,
  py_gen_take (subnet_next_src ver v p) k (sg_state g) = omap (map (wnet_net ver)) (gen_take (subnet_next (width ver)) k g).
Proof.
  induction k as [|k IH]; intros g; [reflexivity|].
  cbn [py_gen_take gen_take]. rewrite src_subnet_next_ok.
  destruct (subnet_next (width ver) g) as [[[a|e] g']|]; [|reflexivity|reflexivity].
  cbn [omap bind]. rewrite IH.
  destruct (gen_take (subnet_next (width ver)) k g') as [rest|]; reflexivity.
Qed.

Lemma src_subnet_take_ok ver v p prefixlen count fmt k :
  (do og <- src_IPNetwork_subnet_start ver (width ver) v p prefixlen count fmt;
   match og with
   | None => Ok (0, [])
   | Some st => do l <- py_gen_take (subnet_next_src ver v p) k st; Ok (snd (fst (fst st)), l)
   end) =
  omap (fun cl => (fst cl, map (wnet_net ver) (snd cl))) (subnet_take (width ver) (v, p) prefixlen count k).
Proof.
  rewrite src_subnet_start_ok. unfold subnet_take.
  destruct (subnet_start (width ver) (v, p) prefixlen count) as [[g|]|]; [|reflexivity|reflexivity].
  cbn [omap option_map bind]. rewrite src_subnet_take_loop_ok.
  destruct (gen_take (subnet_next (width ver)) k g) as [l|]; reflexivity.
Qed.

(* the symbol that stands for list(cidr.subnet(prefix, count=count)) in the SubnetSplitter unit (Model/SrcPreludeSplitter.v, check
   C20) is the regenerated generator, run for `count` elements (the model's reading of list(..): the loop `while i < count`
   yields at most count elements) *)
From NV Require Model.Splitter Model.SrcPreludeSplitter.
Lemma splitter_list_subnet_src cidr prefix count fmt :
  SrcPreludeSplitter.py_list_subnet cidr prefix count =
    (do og <- src_IPNetwork_subnet_start (nver cidr) (width (nver cidr)) (nval cidr) (nplen cidr) prefix count fmt;
     match og with
     | None => Ok []
     | Some st => py_gen_take (subnet_next_src (nver cidr) (nval cidr) (nplen cidr)) (Z.to_nat (snd (fst (fst st)))) st
     end).
Proof.
  unfold SrcPreludeSplitter.py_list_subnet, Splitter.subnet_list. rewrite src_subnet_start_ok.
  change (Merge.cblk_of_net cidr) with (nval cidr, nplen cidr).
  destruct (subnet_start (width (nver cidr)) (nval cidr, nplen cidr) prefix count) as [[g|]|]; [|reflexivity|reflexivity].
  cbn [omap option_map bind]. change (snd (fst (fst (sg_state g)))) with (sg_count g).
  rewrite src_subnet_take_loop_ok. reflexivity.
Qed.

(* ---- next / previous ---- *)
Section Wf.
Variables ver v p : Z.
Hypothesis Hver : valid_ver ver = true.
Hypothesis Hp : 0 <= p <= width ver.
Hypothesis Hv : 0 <= v < 2 ^ width ver.

Lemma network_in_range : 0 <= net_network (width ver) v p < 2 ^ width ver.
Proof.
  pose proof (identities_w (width ver) v p Hp Hv) as I. cbn zeta in I.
  pose proof (pow2_pos (width ver - p) ltac:(lia)). lia.
Qed.

Lemma src_net_next_ok step :
  src_IPNetwork_next ver (width ver) v p step = omap (wnet_net ver) (net_next (width ver) (v, p) step).
Proof.
  unfold src_IPNetwork_next, net_next. rewrite (src_network_wf ver v p Hver Hp Hv). cbn [bind fst snd].
  rewrite Z.eqb_refl. cbn [negb]. change (src_IPNetwork_prefixlen ver (width ver) v p) with p.
  unfold py_net_of_cidr_text, net_of_cidr_str.
  destruct (negb ((0 <=? p) && (p <=? width ver))); [reflexivity|]. cbn [bind nver nval nplen].
  pose proof (src_net_iadd_ok ver (width ver) (net_network (width ver) v p) p step
                (network_ctor_ok ver (net_network (width ver) v p) p Hver Hp network_in_range)) as E.
  rewrite <- E. destruct (src_IPNetwork_iadd ver (width ver) (net_network (width ver) v p) p step); reflexivity.
Qed.

Lemma src_net_previous_ok step :
  src_IPNetwork_previous ver (width ver) v p step = omap (wnet_net ver) (net_previous (width ver) (v, p) step).
Proof.
  unfold src_IPNetwork_previous, net_previous. rewrite (src_network_wf ver v p Hver Hp Hv). cbn [bind fst snd].
  rewrite Z.eqb_refl. cbn [negb]. change (src_IPNetwork_prefixlen ver (width ver) v p) with p.
  unfold py_net_of_cidr_text, net_of_cidr_str.
  destruct (negb ((0 <=? p) && (p <=? width ver))); [reflexivity|]. cbn [bind nver nval nplen].
  pose proof (src_net_isub_ok ver (width ver) (net_network (width ver) v p) p step
                (network_ctor_ok ver (net_network (width ver) v p) p Hver Hp network_in_range)) as E.
  rewrite <- E. destruct (src_IPNetwork_isub ver (width ver) (net_network (width ver) v p) p step); reflexivity.
Qed.
End Wf.

(* ---- iter_hosts ---- *)
(* the first next() of the returned iterator runs the prologue of iter_iprange: Subnet.iter_hosts has it run already *)
Definition start_it (it : iterator) : outcome (option iprange_gen) :=
  match it with
  | ItEmpty => Ok None
  | ItIprange sver sv ever ev step => omap Some (Subnet.iter_iprange (sver, sv) (ever, ev) step)
  end.

Lemma src_iter_hosts_ok ver v p :
  (do it <- src_IPNetwork_iter_hosts ver (width ver) v p; start_it it) = iter_hosts ver (v, p).
Proof.
  unfold src_IPNetwork_iter_hosts, iter_hosts. cbv zeta.
  change (src_IPNetwork_size ver (width ver) v p) with (net_size (width ver) v p).
  change (src_IPNetwork_first ver (width ver) v p) with (net_first (width ver) v p).
  change (src_IPNetwork_last ver (width ver) v p) with (net_last (width ver) v p).
  unfold mk_addr.
  destruct (ver =? 4).
  - destruct (net_size (width ver) v p >=? 4).
    + destruct (addr_of_int_ver (net_first (width ver) v p + 1) ver) as [[a1 a2]|]; [|reflexivity]. cbn [bind].
      destruct (addr_of_int_ver (net_last (width ver) v p - 1) ver) as [[b1 b2]|]; reflexivity.
    + destruct (addr_of_int_ver (net_first (width ver) v p) ver) as [[a1 a2]|]; [|reflexivity]. cbn [bind].
      destruct (addr_of_int_ver (net_last (width ver) v p) ver) as [[b1 b2]|]; reflexivity.
  - destruct (net_size (width ver) v p >=? 2); [|reflexivity].
    destruct (addr_of_int_ver (net_first (width ver) v p + 1) ver) as [[a1 a2]|]; [|reflexivity]. cbn [bind].
    destruct (addr_of_int_ver (net_last (width ver) v p) ver) as [[b1 b2]|]; reflexivity.
Qed.

(* everything the second C11 source tie states (Props/C11_src_subnet.v) *)
Lemma C11_subnet_tie_ok :
  (forall ver v p prefixlen count fmt,
     src_IPNetwork_subnet_start ver (width ver) v p prefixlen count fmt =
       omap (option_map sg_state) (subnet_start (width ver) (v, p) prefixlen count)) /\
  (forall ver v p g,
     subnet_next_src ver v p (sg_state g) =
       match subnet_next (width ver) g with
       | None => Ok None
       | Some (r, g') => omap (fun n => Some (wnet_net ver n, sg_state g')) r
       end) /\
  (forall ver v p prefixlen count fmt k,
     (do og <- src_IPNetwork_subnet_start ver (width ver) v p prefixlen count fmt;
      match og with
      | None => Ok (0, [])
      | Some st => do l <- py_gen_take (subnet_next_src ver v p) k st; Ok (snd (fst (fst st)), l)
      end) =
     omap (fun cl => (fst cl, map (wnet_net ver) (snd cl))) (subnet_take (width ver) (v, p) prefixlen count k)) /\
  (forall ver v p step, valid_ver ver = true -> 0 <= p <= width ver -> 0 <= v < 2 ^ width ver ->
     src_IPNetwork_next ver (width ver) v p step = omap (wnet_net ver) (net_next (width ver) (v, p) step) /\
     src_IPNetwork_previous ver (width ver) v p step = omap (wnet_net ver) (net_previous (width ver) (v, p) step)) /\
  (forall ver v p, (do it <- src_IPNetwork_iter_hosts ver (width ver) v p; start_it it) = iter_hosts ver (v, p)) /\
  (forall cidr prefix count fmt,
     SrcPreludeSplitter.py_list_subnet cidr prefix count =
       (do og <- src_IPNetwork_subnet_start (nver cidr) (width (nver cidr)) (nval cidr) (nplen cidr) prefix count fmt;
        match og with
        | None => Ok []
        | Some st => py_gen_take (subnet_next_src (nver cidr) (nval cidr) (nplen cidr)) (Z.to_nat (snd (fst (fst st)))) st
        end)).
Proof.
  split; [exact src_subnet_start_ok|]. split; [exact src_subnet_next_ok|]. split; [exact src_subnet_take_ok|].
  split; [intros; split; [apply src_net_next_ok|apply src_net_previous_ok]; assumption|].
  split; [exact src_iter_hosts_ok|exact splitter_list_subnet_src].
Qed.
