(* Proofs/GenOk_Src_C14_ctor.v — source tie for C14, constructor part: the definitions regenerated from the text of
   IPAddress.__init__ (netaddr/ip/__init__.py), specialised to an int argument and to an IPAddress argument (copy construction),
   equal the hand-written constructor models of Model/AddrOps.v (ctor_int = Ip.addr_of_int / addr_of_int_ver, ctor_copy).
   Also: for an explicit version the generated integer constructor IS the constructor symbol mk_addr that the translation of
   every other method uses for `IPAddress(e, version)` (Model/SrcPrelude.v), so that symbol is now tied to the source too. *)
From NV Require Import Base.Tac Base.PyVal Model.Ip Model.AddrOps Model.SrcPrelude Gen.pysrc_gen Gen.pysrc_ctor_gen
  Proofs.GenOk_Src_Const.
Open Scope Z_scope.

Lemma src_init_int_ok i version flags : src_IPAddress_init_int i version flags = ctor_int i version.
Proof. destruct version as [ver|]; reflexivity. Qed.

Lemma src_init_int_mk_addr i ver flags : src_IPAddress_init_int i (Some ver) flags = mk_addr ver i.
Proof. reflexivity. Qed.

Lemma src_init_copy_ok ver v version flags : src_IPAddress_init_copy (ver, v) version flags = ctor_copy ver v version.
Proof. destruct version as [ver'|]; reflexivity. Qed.

Lemma C14_ctor_tie_ok :
  (forall i version flags, src_IPAddress_init_int i version flags = ctor_int i version) /\
  (forall i ver flags, src_IPAddress_init_int i (Some ver) flags = mk_addr ver i) /\
  (forall ver v version flags, src_IPAddress_init_copy (ver, v) version flags = ctor_copy ver v version).
Proof.
  split; [exact src_init_int_ok|]. split; [exact src_init_int_mk_addr|exact src_init_copy_ok].
Qed.
