(* Proofs/GenOk_Src_C10_iter.v -- source tie for C10, second part: the definitions regenerated from the text of the generator
   iter_iprange and of IPListMixin.__iter__ / __nonzero__ (Gen/pysrc_iter_gen.v, receiver classes IPNetwork and IPRange) equal
   the hand-written model of Model/ListLike.v.
   The generator is translated into its prologue (src_iter_iprange_start: the locals (step, negative_step, index, stop,
   version) its `while True` loop starts with; TypeError / ValueError of the prologue) and one resumption
   (src_iter_iprange_next: `Ok None` at a `break`, else the yielded IPAddress and the next state).  The model observes an
   iterator through it_take (at most `fuel` elements, then Done / More / Raised e); gen_observe below observes the two
   generated pieces in exactly that way, and iter_iprange_take is equal to it.  The yielded objects are (version, value)
   pairs; the model lists the values. *)
From NV Require Import Base.Tac Base.PyVal Model.Ip Model.PySlice Model.ListLike Model.SrcPrelude Model.SrcPreludeSRCE
  Gen.pysrc_gen Gen.pysrc_iter_gen Proofs.GenOk_Src_C02.
Import ListNotations.
Open Scope Z_scope.

(* pull at most `fuel` elements out of a generator given by its resumption function, as ListLike.it_take does *)
Fixpoint gen_observe {St A} (next : St -> outcome (option (A * St))) (fuel : nat) (s : St) {struct fuel} : list A * gstatus :=
  match next s with
  | Raise e => ([], Raised e)
  | Ok None => ([], Done)
  | Ok (Some (a, s')) =>
      match fuel with
      | O => ([], More)
      | S f => let '(l, g) := gen_observe next f s' in (a :: l, g)
      end
  end.

Definition iprange_next_src (st : Z * bool * Z * Z * Z) : outcome (option ((Z * Z) * (Z * bool * Z * Z * Z))) :=
  let '(step, negative_step, index, stop, version) := st in src_iter_iprange_next step negative_step index stop version.

(* iter_iprange(start, end, step) observed: the prologue, then the loop *)
Definition iter_iprange_src_take (fuel : nat) (sver sv ever ev step : Z) : list Z * gstatus :=
  match src_iter_iprange_start (sver, sv) (ever, ev) step with
  | Raise e => ([], Raised e)
  | Ok st => let '(l, g) := gen_observe iprange_next_src fuel st in (map snd l, g)
  end.

Lemma addr_of_int_ver_snd i ver a : addr_of_int_ver i ver = Ok a -> snd a = i.
Proof.
  unfold addr_of_int_ver. destruct (ver =? 4).
  - destruct (in_range_w 32 i); [|discriminate]. intros H; inversion H; reflexivity.
  - destruct (ver =? 6); [|discriminate]. destruct (in_range_w 128 i); [|discriminate]. intros H; inversion H; reflexivity.
Qed.

Lemma src_iprange_loop_ok version step stop neg : forall fuel index,
  iprange_loop fuel version index step stop neg =
    (let '(l, g) := gen_observe iprange_next_src fuel (step, neg, index, stop, version) in (map snd l, g)).
Proof.
  induction fuel as [|f IH]; intros index.
  - cbn [iprange_loop gen_observe iprange_next_src]. unfold src_iter_iprange_next, mk_addr. cbv zeta.
    destruct neg.
    + destruct (negb (index + step >=? stop)); [reflexivity|].
      destruct (addr_of_int_ver (index + step) version) as [a|e]; reflexivity.
    + destruct (negb (index + step <=? stop)); [reflexivity|].
      destruct (addr_of_int_ver (index + step) version) as [a|e]; reflexivity.
  - cbn [iprange_loop gen_observe iprange_next_src]. unfold src_iter_iprange_next, mk_addr. cbv zeta.
    destruct neg.
    + destruct (negb (index + step >=? stop)); [reflexivity|].
      destruct (addr_of_int_ver (index + step) version) as [a|e] eqn:E; [|reflexivity]. cbn [bind].
      rewrite IH.
      destruct (gen_observe iprange_next_src f (step, true, index + step, stop, version)) as [l g].
      cbn [map]. rewrite (addr_of_int_ver_snd _ _ _ E). reflexivity.
    + destruct (negb (index + step <=? stop)); [reflexivity|].
      destruct (addr_of_int_ver (index + step) version) as [a|e] eqn:E; [|reflexivity]. cbn [bind].
      rewrite IH.
      destruct (gen_observe iprange_next_src f (step, false, index + step, stop, version)) as [l g].
      cbn [map]. rewrite (addr_of_int_ver_snd _ _ _ E). reflexivity.
Qed.

Lemma src_iter_iprange_ok fuel sver sv ever ev step :
  iter_iprange_src_take fuel sver sv ever ev step = iter_iprange_take fuel sver sv ever ev step.
Proof.
  unfold iter_iprange_src_take, iter_iprange_take, src_iter_iprange_start. cbn [fst snd].
  change (src_IPAddress_version sver (width sver) sv) with sver. change (src_IPAddress_version ever (width ever) ev) with ever.
  change (src_IPAddress_int sver (width sver) sv) with sv. change (src_IPAddress_int ever (width ever) ev) with ev.
  destruct (negb (sver =? ever)); [reflexivity|]. cbv zeta.
  destruct (step =? 0); [reflexivity|].
  rewrite src_iprange_loop_ok. destruct (step <? 0); reflexivity.
Qed.

(* the iterators the model hands out, observed through the generated generator *)
Definition it_take_src (fuel : nat) (it : iterator) : list Z * gstatus :=
  match it with
  | ItEmpty => ([], Done)
  | ItIprange sver sv ever ev step => iter_iprange_src_take fuel sver sv ever ev step
  end.
Lemma it_take_src_ok fuel it : it_take_src fuel it = it_take fuel it.
Proof. destruct it; [reflexivity|apply src_iter_iprange_ok]. Qed.

(* ---- __iter__, __nonzero__ ---- *)
Lemma src_net_iter_ok ver v p : src_IPNetwork_iter ver (width ver) v p = r_iter (RNet ver v p).
Proof. reflexivity. Qed.
Lemma src_range_iter_ok ver w s e : src_IPRange_iter ver w s e = r_iter (RRange ver s e).
Proof. reflexivity. Qed.

(* everything the second C10 source tie states (Props/C10_src_iter.v) *)
Lemma C10_iter_tie_ok :
  (forall fuel sver sv ever ev step, iter_iprange_src_take fuel sver sv ever ev step = iter_iprange_take fuel sver sv ever ev step) /\
  (forall version step stop neg fuel index,
     iprange_loop fuel version index step stop neg =
       (let '(l, g) := gen_observe iprange_next_src fuel (step, neg, index, stop, version) in (map snd l, g))) /\
  (forall fuel it, it_take_src fuel it = it_take fuel it) /\
  (forall ver v p, src_IPNetwork_iter ver (width ver) v p = r_iter (RNet ver v p)) /\
  (forall ver w s e, src_IPRange_iter ver w s e = r_iter (RRange ver s e)) /\
  (forall w s e, src_IPRange_iter 4 w s e = r_iter (RGlob s e)) /\
  (forall ver w v p s e, src_IPNetwork_nonzero ver w v p = true /\ src_IPRange_nonzero ver w s e = true).
Proof.
  split; [exact src_iter_iprange_ok|]. split; [exact src_iprange_loop_ok|]. split; [exact it_take_src_ok|].
  split; [exact src_net_iter_ok|]. split; [exact src_range_iter_ok|]. split; [reflexivity|]. intros; split; reflexivity.
Qed.
