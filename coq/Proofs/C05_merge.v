(* Proofs/C05_merge.v — cidr_merge returns the canonical list of exactly the union of its inputs.
   Part 1: canon_nets algebra (concatenation across versions / gaps, uniqueness, minimality).
   Part 2: ranges.sort() (rt_sort) is a sorted permutation.   Part 3: the backward merging scan.
   Part 4: emit_merged and the theorem. *)
From NV Require Import Base.Tac Base.PyVal Base.Bits Base.Canon Model.Ip Model.Partition Model.Span Model.Merge Model.Sets
  Proofs.C02 Proofs.C09 Proofs.NetDen Proofs.C05_range.
From Coq Require Import Sorting.Sorted Sorting.Permutation.
Open Scope Z_scope.

(* ---------------------------------------------------------------- canon_nets algebra *)
Lemma canon_nets_nil : canon_nets [].
Proof. split; [constructor|]. split; [reflexivity|]. split; apply canon_nil. Qed.

Lemma canon_nets_wf l : canon_nets l -> Forall wf_net l.
Proof. intros (F & _). apply wfh_wf, F. Qed.

Lemma canon_nets_versions l n : canon_nets l -> In n l -> nver n = 4 \/ nver n = 6.
Proof.
  intros (_ & E & _) Hn. rewrite E in Hn. apply in_app_or in Hn.
  destruct Hn as [Hn|Hn]; apply in_fam in Hn; tauto.
Qed.

(* l1 entirely before l2: lower version, or same version and a gap of at least one address *)
Definition nets_sep (a b : net) : Prop := nver a < nver b \/ (nver a = nver b /\ nl a + 1 < nf b).

Lemma fam_blks_gap ver l1 l2 : Forall wf_net l1 ->
  (forall a b, In a l1 -> In b l2 -> nets_sep a b) -> gap_below (width ver) (fam_blks ver l1) (fam_blks ver l2).
Proof.
  intros F H a b Ha Hb. unfold fam_blks in *. rewrite Forall_forall in F.
  apply in_map_iff in Ha. destruct Ha as (n1 & <- & H1). apply in_map_iff in Hb. destruct Hb as (n2 & <- & H2).
  apply in_fam in H1. apply in_fam in H2. destruct H1 as (H1 & V1), H2 as (H2 & V2).
  destruct (H n1 n2 H1 H2) as [L|(_ & G)]; [lia|].
  pose proof (nl_eq n1 (F n1 H1)) as E. rewrite V1 in E. unfold net_blk, bsize; cbn [bv bp]. lia.
Qed.

(* concatenation across versions and across gaps *)
Lemma canon_nets_app_versions l1 l2 : canon_nets l1 -> canon_nets l2 ->
  (forall a b, In a l1 -> In b l2 -> nets_sep a b) -> canon_nets (l1 ++ l2).
Proof.
  intros (F1 & E1 & C14 & C16) (F2 & E2 & C24 & C26) H.
  split; [apply Forall_app; split; assumption|]. split; [|split].
  - rewrite !fam_app.
    assert (X: fam 6 l1 ++ fam 4 l2 = fam 4 l2 ++ fam 6 l1).
    { destruct (fam 6 l1) as [|a r1] eqn:Ea; [rewrite app_nil_r; reflexivity|].
      destruct (fam 4 l2) as [|b r2] eqn:Eb; [rewrite app_nil_r; reflexivity|]. exfalso.
      assert (Ha: In a (fam 6 l1)) by (rewrite Ea; now left). assert (Hb: In b (fam 4 l2)) by (rewrite Eb; now left).
      apply in_fam in Ha. apply in_fam in Hb. destruct Ha as (Ha & Va), Hb as (Hb & Vb).
      destruct (H a b Ha Hb) as [L|(L & _)]; lia. }
    rewrite E1 at 1. rewrite E2 at 1. rewrite <- !app_assoc. f_equal. rewrite !app_assoc. f_equal. exact X.
  - rewrite fam_blks_app. apply (canon_app 32); [assumption|assumption|].
    apply (fam_blks_gap 4); [apply wfh_wf, F1|exact H].
  - rewrite fam_blks_app. apply (canon_app 128); [assumption|assumption|].
    apply (fam_blks_gap 6); [apply wfh_wf, F1|exact H].
Qed.

(* a host-bit-free network is determined by its version and its Canon block *)
Lemma net_blk_inj a b : hostfree a -> hostfree b -> nver a = nver b -> net_blk a = net_blk b -> a = b.
Proof.
  unfold hostfree, net_blk. intros Ha Hb Ev E. injection E as E1 E2.
  destruct a as [va xa pa], b as [vb xb pb]; cbn [nver nval nplen] in *. congruence.
Qed.

Lemma map_inj_on {A B} (f : A -> B) l1 l2 :
  (forall a b, In a l1 -> In b l2 -> f a = f b -> a = b) -> map f l1 = map f l2 -> l1 = l2.
Proof.
  revert l2. induction l1 as [|a l1 IH]; intros [|b l2] H E; try discriminate; [reflexivity|].
  cbn [map] in E. injection E as E1 E2. f_equal.
  - apply H; [now left|now left|exact E1].
  - apply IH; [|exact E2]. intros x y Hx Hy. apply H; now right.
Qed.

Lemma fam_unique ver l1 l2 : 0 <= width ver -> Forall wfh l1 -> Forall wfh l2 ->
  canon (width ver) (fam_blks ver l1) -> canon (width ver) (fam_blks ver l2) ->
  (forall x, den l1 ver x <-> den l2 ver x) -> fam ver l1 = fam ver l2.
Proof.
  intros Hw F1 F2 C1 C2 D.
  assert (E: fam_blks ver l1 = fam_blks ver l2).
  { apply (canon_unique (width ver) Hw); [assumption|assumption|].
    intros x. rewrite <- !den_fam by (apply wfh_wf; assumption). apply D. }
  unfold fam_blks in E. apply (map_inj_on net_blk); [|exact E].
  rewrite Forall_forall in F1, F2.
  intros a b Ha Hb Eab. apply in_fam in Ha. apply in_fam in Hb.
  apply net_blk_inj; [apply F1; tauto|apply F2; tauto|lia|exact Eab].
Qed.

(* a set of addresses of both families has at most one canon_nets description *)
Theorem canon_nets_unique l1 l2 : canon_nets l1 -> canon_nets l2 ->
  (forall ver x, den l1 ver x <-> den l2 ver x) -> l1 = l2.
Proof.
  intros (F1 & E1 & C14 & C16) (F2 & E2 & C24 & C26) D.
  rewrite E1, E2. f_equal.
  - apply fam_unique; auto. change (width 4) with 32. lia.
  - apply fam_unique; auto. change (width 6) with 128. lia.
Qed.

Lemma fam_length_le l : (length (fam 4 l) + length (fam 6 l) <= length l)%nat.
Proof.
  induction l as [|a l IH]; [cbn; lia|]. cbn [fam filter]. fold (fam 4 l). fold (fam 6 l).
  destruct (Z.eqb_spec (nver a) 4) as [E|E]; destruct (Z.eqb_spec (nver a) 6) as [E'|E']; cbn [length]; lia.
Qed.

(* no list of well-formed networks (host bits allowed) with the same addresses is shorter, family by family *)
Theorem canon_nets_minimal l l' : canon_nets l -> Forall wf_net l' ->
  (forall ver x, den l ver x <-> den l' ver x) ->
  (length (fam 4 l) <= length (fam 4 l'))%nat /\ (length (fam 6 l) <= length (fam 6 l'))%nat /\
  (length l <= length l')%nat.
Proof.
  intros (F & E & C4 & C6) F' D.
  assert (M: forall ver, 0 <= width ver -> canon (width ver) (fam_blks ver l) ->
             (length (fam ver l) <= length (fam ver l'))%nat).
  { intros ver Hw C. rewrite <- (map_length net_blk (fam ver l)), <- (map_length net_blk (fam ver l')).
    apply (canon_minimal (width ver) Hw); [exact C| |].
    - intros b Hb. apply in_map_iff in Hb. destruct Hb as (n & <- & Hn). apply in_fam in Hn. destruct Hn as (Hn & <-).
      apply net_blk_aligned. rewrite Forall_forall in F'. apply F', Hn.
    - intros x. fold (fam_blks ver l). fold (fam_blks ver l').
      rewrite <- !den_fam; [apply D|exact F'|apply wfh_wf, F]. }
  pose proof (M 4 ltac:(change (width 4) with 32; lia) C4) as M4.
  pose proof (M 6 ltac:(change (width 6) with 128; lia) C6) as M6.
  split; [exact M4|]. split; [exact M6|].
  pose proof (fam_length_le l'). rewrite E at 1. rewrite app_length. lia.
Qed.

(* ---------------------------------------------------------------- ranges.sort() *)
(* the tuple order on the first three components (version, last, first) *)
Definition rt_key_le (a b : rtuple) : Prop :=
  rt_ver a < rt_ver b \/
  (rt_ver a = rt_ver b /\ (rt_last a < rt_last b \/ (rt_last a = rt_last b /\ rt_first a <= rt_first b))).

Lemma rt_leb_spec a b : rt_leb a b = true <-> rt_key_le a b.
Proof.
  unfold rt_leb, rt_key_le.
  case_ltb (rt_ver a) (rt_ver b); [split; [intros _; lia|reflexivity]|].
  case_ltb (rt_ver b) (rt_ver a); [split; [discriminate|lia]|].
  case_ltb (rt_last a) (rt_last b); [split; [intros _; lia|reflexivity]|].
  case_ltb (rt_last b) (rt_last a); [split; [discriminate|lia]|].
  rewrite Z.leb_le. lia.
Qed.

Lemma rt_key_le_total a b : rt_key_le a b \/ rt_key_le b a.
Proof. unfold rt_key_le. lia. Qed.

Lemma rt_key_le_trans a b c : rt_key_le a b -> rt_key_le b c -> rt_key_le a c.
Proof. unfold rt_key_le. lia. Qed.

Lemma rt_insert_perm x l : Permutation (rt_insert x l) (x :: l).
Proof.
  induction l as [|y r IH]; cbn [rt_insert]; [apply Permutation_refl|].
  destruct (rt_leb x y); [apply Permutation_refl|].
  eapply Permutation_trans; [apply perm_skip, IH|apply perm_swap].
Qed.

Lemma rt_sort_perm l : Permutation (rt_sort l) l.
Proof.
  induction l as [|x l IH]; cbn [rt_sort fold_right]; [constructor|].
  eapply Permutation_trans; [apply rt_insert_perm|apply perm_skip, IH].
Qed.

Lemma rt_insert_sorted x l : StronglySorted rt_key_le l -> StronglySorted rt_key_le (rt_insert x l).
Proof.
  intros S. induction S as [|y r S IH F]; cbn [rt_insert]; [repeat constructor|].
  rewrite Forall_forall in F.
  destruct (rt_leb x y) eqn:E.
  - apply rt_leb_spec in E. constructor; [constructor; [exact S|apply Forall_forall; exact F]|].
    constructor; [exact E|]. apply Forall_forall. intros z Hz. eapply rt_key_le_trans; [exact E|apply F, Hz].
  - assert (E': rt_key_le y x).
    { destruct (rt_key_le_total x y) as [T|T]; [apply rt_leb_spec in T; congruence|exact T]. }
    constructor; [exact IH|]. apply Forall_forall. intros z Hz.
    apply (Permutation_in _ (rt_insert_perm x r)) in Hz. destruct Hz as [<-|Hz]; [exact E'|apply F, Hz].
Qed.

Lemma rt_sort_sorted l : StronglySorted rt_key_le (rt_sort l).
Proof. induction l as [|x l IH]; cbn [rt_sort fold_right]; [constructor|apply rt_insert_sorted, IH]. Qed.

(* ---------------------------------------------------------------- tuples: well-formedness and denotation *)
Definition wf_rt (t : rtuple) : Prop :=
  valid_ver (rt_ver t) = true /\ 0 <= rt_first t <= rt_last t /\ rt_last t < 2 ^ width (rt_ver t) /\
  match rt_orig t with
  | Some m => wf_mitem m /\ mi_ver m = rt_ver t /\ mi_first m = rt_first t /\ mi_last m = rt_last t
  | None => True
  end.
Definition in_rt (t : rtuple) (ver x : Z) : Prop := rt_ver t = ver /\ rt_first t <= x <= rt_last t.
Definition den_rt (l : list rtuple) (ver x : Z) : Prop := exists t, In t l /\ in_rt t ver x.

Lemma den_rt_cons t l ver x : den_rt (t :: l) ver x <-> in_rt t ver x \/ den_rt l ver x.
Proof.
  unfold den_rt. split.
  - intros (m & [<-|Hm] & I); [left; exact I|right; eauto].
  - intros [I|(m & Hm & I)]; [exists t; split; [now left|exact I]|exists m; split; [now right|exact I]].
Qed.

Lemma den_rt_app l1 l2 ver x : den_rt (l1 ++ l2) ver x <-> den_rt l1 ver x \/ den_rt l2 ver x.
Proof.
  unfold den_rt. split.
  - intros (n & Hn & I). apply in_app_or in Hn. destruct Hn; [left|right]; eauto.
  - intros [(n & Hn & I)|(n & Hn & I)]; exists n; split; auto; apply in_or_app; auto.
Qed.

Lemma den_rt_perm l1 l2 ver x : Permutation l1 l2 -> (den_rt l1 ver x <-> den_rt l2 ver x).
Proof.
  intros P. unfold den_rt. split; intros (n & Hn & I); exists n; split; auto.
  - eapply Permutation_in; eauto.
  - eapply Permutation_in; [apply Permutation_sym|]; eauto.
Qed.

Lemma den_rt_nil ver x : ~ den_rt [] ver x.
Proof. intros (t & [] & _). Qed.

(* ---------------------------------------------------------------- the backward scan *)
(* order by (version, last) only, and strict separation: lower version, or same version and a gap >= 1 *)
Definition le_vl (a b : rtuple) : Prop := rt_ver a < rt_ver b \/ (rt_ver a = rt_ver b /\ rt_last a <= rt_last b).
Definition rt_sep (a b : rtuple) : Prop := rt_ver a < rt_ver b \/ (rt_ver a = rt_ver b /\ rt_last a + 1 < rt_first b).

Lemma rt_key_le_vl a b : rt_key_le a b -> le_vl a b.
Proof. unfold rt_key_le, le_vl. lia. Qed.

Lemma merge_scan_spec : forall before cur done,
  wf_rt cur -> Forall wf_rt before -> Forall wf_rt done ->
  Forall (fun p => le_vl p cur) before -> StronglySorted (fun a b => le_vl b a) before ->
  Forall (rt_sep cur) done -> StronglySorted rt_sep done ->
  let R := merge_scan cur before done in
  Forall wf_rt R /\ StronglySorted rt_sep R /\
  (forall ver x, den_rt R ver x <-> den_rt (cur :: before ++ done) ver x).
Proof.
  induction before as [|prev before IH]; intros cur done Wc Wb Wd Lb Sb Sd SSd; cbn [merge_scan]; cbn zeta.
  - split; [constructor; assumption|]. split; [constructor; assumption|]. intros ver x. cbn [app]. tauto.
  - inversion Wb as [|? ? Wp Wb']; subst. inversion Lb as [|? ? Lp Lb']; subst.
    inversion Sb as [|? ? Sb' Fp]; subst.
    pose proof Wc as (Vc & Rc & Bc & Oc). pose proof Wp as (Vp & Rp & Bp & Op).
    destruct (Z.eqb_spec (rt_ver cur) (rt_ver prev)) as [Ev|Ev]; cbn [andb].
    + destruct (Z.leb_spec (rt_first cur - 1) (rt_last prev)) as [Hm|Hn].
      * (* merge prev into cur *)
        set (cur' := (rt_ver cur, rt_last cur, Z.min (rt_first prev) (rt_first cur), @None mitem)).
        assert (Lpc: rt_last prev <= rt_last cur) by (unfold le_vl in Lp; lia).
        destruct (IH cur' done) as (K1 & K2 & K3); try assumption.
        { unfold wf_rt, cur', rt_ver, rt_last, rt_first, rt_orig in *; cbn [fst snd] in *.
          split; [exact Vc|]. split; [lia|]. split; [lia|exact I]. }
        split; [exact K1|]. split; [exact K2|]. intros ver x. rewrite K3. rewrite !den_rt_cons.
        assert (X: in_rt cur' ver x <-> in_rt cur ver x \/ in_rt prev ver x).
        { unfold in_rt, cur', rt_ver, rt_last, rt_first in *; cbn [fst snd] in *. lia. }
        rewrite X. cbn [app]. rewrite den_rt_cons. tauto.
      * (* gap: cur is final *)
        destruct (IH prev (cur :: done)) as (K1 & K2 & K3); try assumption.
        { constructor; assumption. }
        { constructor; [unfold rt_sep; lia|]. rewrite Forall_forall in *. intros d Hd. specialize (Sd d Hd).
          unfold rt_sep, le_vl in *. lia. }
        { constructor; assumption. }
        split; [exact K1|]. split; [exact K2|]. intros ver x. rewrite K3. cbn [app].
        rewrite !den_rt_cons, !den_rt_app, !den_rt_cons. tauto.
    + (* other version: cur is final *)
      destruct (IH prev (cur :: done)) as (K1 & K2 & K3); try assumption.
      { constructor; assumption. }
      { constructor; [unfold rt_sep, le_vl in *; lia|]. rewrite Forall_forall in *. intros d Hd. specialize (Sd d Hd).
        unfold rt_sep, le_vl in *. lia. }
      { constructor; assumption. }
      split; [exact K1|]. split; [exact K2|]. intros ver x. rewrite K3. cbn [app].
      rewrite !den_rt_cons, !den_rt_app, !den_rt_cons. tauto.
Qed.

Lemma merge_ranges_spec l : Forall wf_rt l ->
  Forall wf_rt (merge_ranges l) /\ StronglySorted rt_sep (merge_ranges l) /\
  (forall ver x, den_rt (merge_ranges l) ver x <-> den_rt l ver x).
Proof.
  intros W. unfold merge_ranges.
  pose proof (rt_sort_perm l) as P. pose proof (rt_sort_sorted l) as S.
  assert (P2: Permutation (rev (rt_sort l)) l) by (eapply Permutation_trans; [apply Permutation_sym, Permutation_rev|exact P]).
  apply SS_rev in S.
  destruct (rev (rt_sort l)) as [|last before] eqn:E.
  - split; [constructor|]. split; [constructor|]. intros ver x. apply den_rt_perm. exact P2.
  - assert (W2: Forall wf_rt (last :: before)).
    { apply Forall_forall. intros t Ht. rewrite Forall_forall in W. apply W. eapply Permutation_in; [exact P2|exact Ht]. }
    inversion W2 as [|? ? Wl Wb]; subst. inversion S as [|? ? Sb Fl]; subst.
    assert (A1: Forall (fun p => le_vl p last) before).
    { eapply Forall_impl; [|exact Fl]. intros a Ha. apply rt_key_le_vl. exact Ha. }
    assert (A2: StronglySorted (fun a b => le_vl b a) before).
    { eapply SS_weaken; [|exact Sb]. intros a b Hab. apply rt_key_le_vl. exact Hab. }
    destruct (merge_scan_spec before last [] Wl Wb (Forall_nil _) A1 A2 (Forall_nil _) (SSorted_nil _)) as (K1 & K2 & K3).
    split; [exact K1|]. split; [exact K2|]. intros ver x. rewrite K3, app_nil_r. apply den_rt_perm. exact P2.
Qed.

(* ---------------------------------------------------------------- emitting the merged intervals *)
Definition emit_one (t : rtuple) : outcome (list net) :=
  match rt_orig t with
  | Some (MRange ver s e) => iprange_to_cidrs (addr_net ver s) (addr_net ver e)
  | Some (MNet n) => let c := net_cidr (width (nver n)) (nval n) (nplen n) in
                     Ok [{| nver := nver n; nval := fst c; nplen := snd c |}]
  | None => iprange_to_cidrs (addr_net (rt_ver t) (rt_first t)) (addr_net (rt_ver t) (rt_last t))
  end.

Lemma emit_merged_cons t r :
  emit_merged (t :: r) = do here <- emit_one t; do rest <- emit_merged r; Ok (here ++ rest).
Proof. reflexivity. Qed.

Lemma addr_net_facts ver v : valid_ver ver = true -> 0 <= v < 2 ^ width ver ->
  wf_net (addr_net ver v) /\ nf (addr_net ver v) = v /\ nl (addr_net ver v) = v /\ nver (addr_net ver v) = ver.
Proof.
  intros V Hv. pose proof (width_nonneg ver) as Hw.
  assert (W: wf_net (addr_net ver v)) by (unfold wf_net, addr_net; cbn [nver nval nplen]; repeat split; try assumption; lia).
  assert (F: nf (addr_net ver v) = v).
  { rewrite nf_eq by exact W. cbn [addr_net nver nval nplen]. unfold floor2. replace (width ver - width ver) with 0 by lia.
    change (2 ^ 0) with 1. rewrite Z.mod_1_r. lia. }
  split; [exact W|]. split; [exact F|]. split; [|reflexivity].
  rewrite nl_eq by exact W. rewrite F. cbn [addr_net nver nval nplen]. replace (width ver - width ver) with 0 by lia.
  change (2 ^ 0) with 1. lia.
Qed.

(* IPNetwork.cidr of a well-formed network: host-bit-free, same addresses *)
Lemma net_cidr_facts n : wf_net n ->
  let c := net_cidr (width (nver n)) (nval n) (nplen n) in
  let cn := {| nver := nver n; nval := fst c; nplen := snd c |} in
  wfh cn /\ nf cn = nf n /\ nl cn = nl n.
Proof.
  intros W. pose proof W as (V & Hv & Hp). cbn zeta. rewrite net_cidr_eq by assumption. cbn [fst snd].
  set (cn := {| nver := nver n; nval := floor2 (nval n) (width (nver n) - nplen n); nplen := nplen n |}).
  pose proof (first_last_in_range _ _ _ Hp Hv) as (R1 & R2).
  pose proof (floor2_bounds (nval n) (width (nver n) - nplen n) ltac:(lia)) as FB.
  assert (Wc: wf_net cn) by (unfold wf_net, cn; cbn [nver nval nplen]; repeat split; try assumption; lia).
  assert (Fc: nf cn = nf n).
  { rewrite (nf_eq cn Wc), (nf_eq n W). unfold cn; cbn [nver nval nplen]. apply floor2_idem. lia. }
  split; [split; [exact Wc|]|split; [exact Fc|]].
  - unfold hostfree. rewrite Fc, (nf_eq n W). reflexivity.
  - rewrite (nl_eq cn Wc), (nl_eq n W), Fc. reflexivity.
Qed.

Lemma den_single n ver x : den [n] ver x <-> in_net n ver x.
Proof. rewrite den_cons. split; [intros [H|H]; [exact H|destruct (den_nil _ _ H)]|tauto]. Qed.

Lemma canon_nets_single n : wfh n -> canon_nets [n].
Proof.
  intros (W & H). pose proof W as (V & _).
  apply (canon_nets_one_family (nver n)); [exact V|constructor; [split; assumption|constructor]| |].
  - intros m [<-|[]]. reflexivity.
  - cbn [map]. apply canon_single. apply net_blk_aligned. exact W.
Qed.

Section Emit.
Hypothesis HR : iprange_to_cidrs_spec.

Lemma emit_range ver s e : valid_ver ver = true -> 0 <= s <= e -> e < 2 ^ width ver ->
  exists l, iprange_to_cidrs (addr_net ver s) (addr_net ver e) = Ok l /\ canon_nets l /\
    forall v x, den l v x <-> v = ver /\ s <= x <= e.
Proof.
  intros V Hs He.
  destruct (addr_net_facts ver s V ltac:(lia)) as (Ws & Fs & Ls & Vs).
  destruct (addr_net_facts ver e V ltac:(lia)) as (We & Fe & Le & Ve).
  destruct (HR (addr_net ver s) (addr_net ver e) Ws We ltac:(congruence) ltac:(lia)) as (l & E & C & D).
  exists l. split; [exact E|]. split; [exact C|]. intros v x. rewrite D, Vs, Fs, Le. tauto.
Qed.

Lemma emit_one_spec t : wf_rt t ->
  exists l, emit_one t = Ok l /\ canon_nets l /\ forall v x, den l v x <-> in_rt t v x.
Proof.
  intros (V & R & B & O). unfold emit_one. destruct (rt_orig t) as [[n|ver s e]|].
  - destruct O as (W & Ev & Ef & El). cbn [wf_mitem mi_ver mi_first mi_last] in *.
    destruct (net_cidr_facts n W) as (Wc & Fc & Lc). cbn zeta in *.
    eexists. split; [reflexivity|]. split; [apply canon_nets_single; exact Wc|].
    intros v x. rewrite den_single. unfold in_net, in_rt. rewrite Fc, Lc. cbn [nver].
    rewrite <- Ev, <- Ef, <- El. unfold nf, nl. tauto.
  - destruct O as ((V' & H1 & H2) & Ev & Ef & El). cbn [mi_ver mi_first mi_last] in *.
    destruct (emit_range ver s e V' H1 H2) as (l & E & C & D).
    exists l. split; [exact E|]. split; [exact C|]. intros v x. rewrite D. unfold in_rt.
    rewrite <- Ev, <- Ef, <- El. split; [intros (-> & I); tauto|intros (<- & I); tauto].
  - destruct (emit_range (rt_ver t) (rt_first t) (rt_last t) V R B) as (l & E & C & D).
    exists l. split; [exact E|]. split; [exact C|]. intros v x. rewrite D. unfold in_rt.
    split; [intros (-> & I); tauto|intros (<- & I); tauto].
Qed.

Lemma emit_merged_spec R : Forall wf_rt R -> StronglySorted rt_sep R ->
  exists l, emit_merged R = Ok l /\ canon_nets l /\ forall v x, den l v x <-> den_rt R v x.
Proof.
  intros W S. induction S as [|t r S IH F].
  - exists []. split; [reflexivity|]. split; [apply canon_nets_nil|]. intros v x.
    split; [intros D; destruct (den_nil _ _ D)|intros D; destruct (den_rt_nil _ _ D)].
  - inversion W as [|? ? Wt Wr]; subst. destruct (IH Wr) as (rest & Er & Cr & Dr).
    destruct (emit_one_spec t Wt) as (here & Eh & Ch & Dh).
    exists (here ++ rest). rewrite emit_merged_cons, Eh. cbn [bind]. rewrite Er. cbn [bind].
    split; [reflexivity|]. split.
    + apply canon_nets_app_versions; [exact Ch|exact Cr|].
      intros a b Ha Hb.
      pose proof (canon_nets_wf _ Ch) as Fh. pose proof (canon_nets_wf _ Cr) as Fr. rewrite Forall_forall in Fh, Fr, F.
      pose proof (nl_eq a (Fh a Ha)) as La. pose proof (nl_eq b (Fr b Hb)) as Lb.
      pose proof (Fh a Ha) as (_ & _ & Pa). pose proof (Fr b Hb) as (_ & _ & Pb).
      pose proof (pow2_pos (width (nver a) - nplen a) ltac:(lia)). pose proof (pow2_pos (width (nver b) - nplen b) ltac:(lia)).
      assert (Ia: den here (nver a) (nl a)) by (exists a; split; [exact Ha|unfold in_net; split; [reflexivity|lia]]).
      assert (Ib: den rest (nver b) (nf b)) by (exists b; split; [exact Hb|unfold in_net; split; [reflexivity|lia]]).
      apply Dh in Ia. apply Dr in Ib. destruct Ib as (t' & Ht' & Ib). specialize (F t' Ht').
      unfold in_rt in Ia, Ib. unfold rt_sep in F. unfold nets_sep. lia.
    + intros v x. rewrite den_app, den_rt_cons, Dh, Dr. tauto.
Qed.

(* the input tuples *)
Definition tup_of (m : mitem) : rtuple := (mi_ver m, mi_last m, mi_first m, Some m).

Lemma tup_of_wf m : wf_mitem m -> wf_rt (tup_of m).
Proof.
  intros W. unfold wf_rt, tup_of, rt_ver, rt_first, rt_last, rt_orig; cbn [fst snd].
  destruct m as [n|ver s e]; cbn [wf_mitem mi_ver mi_first mi_last] in *.
  - pose proof W as (V & Hv & Hp). pose proof (nf_eq n W) as Fn. pose proof (nl_eq n W) as Ln.
    pose proof (first_last_in_range _ _ _ Hp Hv) as (R1 & R2).
    pose proof (pow2_pos (width (nver n) - nplen n) ltac:(lia)).
    fold (nf n). fold (nl n). split; [exact V|]. split; [lia|]. split; [lia|]. tauto.
  - destruct W as (V & H1 & H2). split; [exact V|]. split; [lia|]. split; [lia|]. tauto.
Qed.

Lemma den_tups items ver x : den_rt (map tup_of items) ver x <-> den_items items ver x.
Proof.
  unfold den_rt, den_items. split.
  - intros (t & Ht & I). apply in_map_iff in Ht. destruct Ht as (m & <- & Hm). exists m. split; [exact Hm|exact I].
  - intros (m & Hm & I). exists (tup_of m). split; [apply in_map, Hm|exact I].
Qed.

Theorem cidr_merge_from_range : cidr_merge_spec.
Proof.
  intros items W. unfold cidr_merge. fold tup_of.
  assert (WT: Forall wf_rt (map tup_of items)).
  { apply Forall_forall. intros t Ht. apply in_map_iff in Ht. destruct Ht as (m & <- & Hm).
    rewrite Forall_forall in W. apply tup_of_wf, W, Hm. }
  destruct (merge_ranges_spec _ WT) as (K1 & K2 & K3).
  destruct (emit_merged_spec _ K1 K2) as (l & E & C & D).
  exists l. split; [exact E|]. split; [exact C|]. intros ver x. rewrite D, K3. apply den_tups.
Qed.
End Emit.

Theorem C05_merge : cidr_merge_spec.
Proof. exact (cidr_merge_from_range C05_range). Qed.
