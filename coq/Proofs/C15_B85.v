(* Proofs/C15_B85.v — the RFC 1924 decoder: characterisation, strictness, round trip. *)
From Coq Require Import String Ascii.
From NV Require Import Base.Tac Base.PyVal Base.Bits Base.PyStr Base.PyStrFacts Model.Ip Model.Codec
  Proofs.C15_Digits Proofs.C15 Proofs.GenOk_C15 Proofs.C15_Arpa.
Close Scope string_scope.
Open Scope Z_scope.

(* a boolean fact checked on the 256 characters holds for every character *)
Lemma ascii_sweep (P : ascii -> bool) :
  forallb P (map ascii_of_nat (seq 0 256)) = true -> forall c, P c = true.
Proof.
  intros H c. rewrite forallb_forall in H. apply H. apply in_map_iff. exists (nat_of_ascii c).
  split; [apply ascii_nat_embedding|]. apply in_seq. pose proof (nat_ascii_bounded c). lia.
Qed.

(* BASE_85_DICT is the index map of BASE_85 (finite check over the generated alphabet) *)
Definition dict_entry_ok (c : ascii) : bool :=
  match BASE_85_DICT c with
  | Some i => (0 <=? i) && (i <? 85) &&
              match nth_error BASE_85 (Z.to_nat i) with Some c' => ascii_eqb c' c | None => false end
  | None => negb (existsb (ascii_eqb c) BASE_85)
  end.

Lemma dict_ok_all : forall c, dict_entry_ok c = true.
Proof. apply ascii_sweep. vm_compute. reflexivity. Qed.

Lemma dict_Some c i : BASE_85_DICT c = Some i -> 0 <= i < 85 /\ spec_b85_char i = c.
Proof.
  intros E. pose proof (dict_ok_all c) as H. unfold dict_entry_ok in H. rewrite E in H.
  apply andb_true_iff in H. destruct H as [H1 H2]. split; [lia|].
  destruct (nth_error BASE_85 (Z.to_nat i)) as [c'|] eqn:En; [|discriminate].
  apply ascii_eqb_eq in H2. subst c'. unfold spec_b85_char. rewrite <- BASE_85_alphabet. now apply nth_error_nth.
Qed.

Lemma dict_of_char_all : forallb (fun n => match BASE_85_DICT (spec_b85_char (Z.of_nat n)) with
                                           | Some i => i =? Z.of_nat n | None => false end) (seq 0 85) = true.
Proof. vm_compute. reflexivity. Qed.

Lemma dict_of_char d : 0 <= d < 85 -> BASE_85_DICT (spec_b85_char d) = Some d.
Proof.
  intros Hd. pose proof dict_of_char_all as H. rewrite forallb_forall in H.
  specialize (H (Z.to_nat d)). rewrite Z2Nat.id in H by lia.
  assert (Hin : In (Z.to_nat d) (seq 0 85)) by (apply in_seq; lia). specialize (H Hin).
  destruct (BASE_85_DICT (spec_b85_char d)) as [i|]; [|discriminate]. apply Z.eqb_eq in H. now subst.
Qed.

Definition b85_idx (c : ascii) : Z := match BASE_85_DICT c with Some i => i | None => 0 end.
Definition b85_known (c : ascii) : bool := match BASE_85_DICT c with Some _ => true | None => false end.

Lemma b85_sum_char l : forall i acc, 0 <= i ->
  b85_sum l i acc =
  if forallb b85_known l then Ok (acc + 85 ^ i * lsb_value 85 (map b85_idx l)) else Raise KeyError.
Proof.
  induction l as [|c l IH]; intros i acc Hi.
  - cbn. f_equal. lia.
  - cbn [b85_sum forallb map lsb_value]. unfold b85_known at 1, b85_idx at 1.
    destruct (BASE_85_DICT c) as [num|]; cbn [andb]; [|reflexivity].
    rewrite IH by lia. destruct (forallb b85_known l); [|reflexivity].
    f_equal. rewrite Z.pow_add_r, Z.pow_1_r by lia. ring.
Qed.

Lemma b85_idx_range l : forallb b85_known l = true -> Forall (fun d => 0 <= d < 85) (map b85_idx l).
Proof.
  intros H. rewrite forallb_forall in H. apply Forall_forall. intros d Hd. apply in_map_iff in Hd.
  destruct Hd as (c & <- & Hc). specialize (H c Hc). unfold b85_known in H. unfold b85_idx.
  destruct (BASE_85_DICT c) as [i|] eqn:E; [|discriminate]. now apply dict_Some in E.
Qed.

Lemma b85_chars_of_idx l : forallb b85_known l = true -> map spec_b85_char (map b85_idx l) = l.
Proof.
  intros H. rewrite forallb_forall in H. rewrite map_map. rewrite <- (map_id l) at 2. apply map_ext_in.
  intros c Hc. specialize (H c Hc). unfold b85_known in H. unfold b85_idx.
  destruct (BASE_85_DICT c) as [i|] eqn:E; [|discriminate]. now apply dict_Some in E.
Qed.

Lemma forallb_rev_eq {A} (f : A -> bool) l : forallb f (rev l) = forallb f l.
Proof.
  induction l as [|x l IH]; [reflexivity|]. cbn [rev forallb]. rewrite forallb_app, IH. cbn [forallb].
  rewrite andb_true_r. apply andb_comm.
Qed.

(* exact behaviour of the decoder *)
Lemma base85_to_int_char s :
  base85_to_int s =
  if negb (Nat.eqb (String.length s) 20) then Raise AddrFormatError
  else if negb (forallb b85_known (chars s)) then Raise KeyError
  else let v := from_digits 85 (map b85_idx (chars s)) in
       if v <? 2 ^ 128 then Ok v else Raise AddrFormatError.
Proof.
  unfold base85_to_int. rewrite length_chars.
  destruct (Nat.eqb (String.length s) 20); cbn [negb]; [|reflexivity].
  rewrite b85_sum_char by lia. rewrite forallb_rev_eq.
  destruct (forallb b85_known (chars s)) eqn:Ek; cbn [negb bind]; [|reflexivity].
  rewrite Z.pow_0_r, Z.add_0_l, Z.mul_1_l, map_rev, lsb_value_rev. cbv zeta.
  set (v := from_digits 85 (map b85_idx (chars s))).
  assert (0 <= v) by (apply from_digits_nonneg; [lia|now apply b85_idx_range]).
  change (addr_of_int_ver v 6) with (if in_range_w 128 v then Ok (6, v) else Raise AddrFormatError).
  unfold in_range_w, max_int_w.
  destruct (Z.ltb_spec v (2 ^ 128)).
  - destruct ((0 <=? v) && (v <=? 2 ^ 128 - 1)) eqn:E; [reflexivity|lia].
  - destruct ((0 <=? v) && (v <=? 2 ^ 128 - 1)) eqn:E; [lia|reflexivity].
Qed.

Lemma base85_to_int_strict s v : base85_to_int s = Ok v -> s = spec_base85 v /\ 0 <= v < 2 ^ 128.
Proof.
  rewrite base85_to_int_char.
  destruct (Nat.eqb_spec (String.length s) 20) as [El|]; cbn [negb]; [|discriminate].
  destruct (forallb b85_known (chars s)) eqn:Ek; cbn [negb]; [|discriminate]. cbv zeta.
  destruct (Z.ltb_spec (from_digits 85 (map b85_idx (chars s))) (2 ^ 128)); [|discriminate].
  intros Hv. injection Hv as Hv. pose proof (b85_idx_range _ Ek) as HR.
  split.
  - unfold spec_base85. rewrite <- Hv.
    replace 20%nat with (List.length (map b85_idx (chars s))) by (now rewrite map_length, length_chars).
    rewrite digits_be_unique by (try lia; exact HR). rewrite b85_chars_of_idx by exact Ek. symmetry. apply str_of_chars.
  - subst v. split; [apply from_digits_nonneg; [lia|exact HR]|assumption].
Qed.

Lemma base85_to_int_roundtrip v : 0 <= v < 2 ^ 128 -> base85_to_int (spec_base85 v) = Ok v.
Proof.
  intros Hv. rewrite base85_to_int_char. unfold spec_base85. rewrite length_str_of, map_length, digits_be_length.
  cbn [Nat.eqb negb]. rewrite chars_str_of.
  pose proof (digits_be_range 85 20 v ltac:(lia)) as HR. rewrite Forall_forall in HR.
  assert (Hk : forallb b85_known (map spec_b85_char (digits_be 85 20 v)) = true).
  { apply forallb_forall. intros c Hc. apply in_map_iff in Hc. destruct Hc as (d & <- & Hd).
    unfold b85_known. now rewrite dict_of_char by (apply HR; exact Hd). }
  rewrite Hk. cbn [negb]. cbv zeta.
  assert (Hi : map b85_idx (map spec_b85_char (digits_be 85 20 v)) = digits_be 85 20 v).
  { rewrite map_map. rewrite <- (map_id (digits_be 85 20 v)) at 2. apply map_ext_in. intros d Hd.
    unfold b85_idx. now rewrite dict_of_char by (apply HR; exact Hd). }
  rewrite Hi. rewrite from_digits_digits_be_small.
  - destruct (Z.ltb_spec v (2 ^ 128)); [reflexivity|lia].
  - lia.
  - split; [lia|]. eapply Z.lt_trans; [apply Hv|]. reflexivity.
Qed.
