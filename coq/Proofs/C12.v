(* Proofs/C12.v — equality, hashing, ordering, sorting and state round trips of the IP objects. *)
From Coq Require Import Sorting.Sorted Sorting.Permutation.
From NV Require Import Base.Tac Base.PyVal Base.Bits Model.Ip Model.Order Proofs.C02 Proofs.C12_Lex.
Open Scope Z_scope.

(* ---- well-formed live objects and their arithmetic description ---- *)
Definition wf_obj (x : obj) : Prop :=
  match x with
  | Addr ver v => valid_ver ver = true /\ 0 <= v < 2 ^ width ver
  | Net ver v p => valid_ver ver = true /\ 0 <= v < 2 ^ width ver /\ 0 <= p <= width ver
  | Range ver s e => valid_ver ver = true /\ 0 <= s /\ s <= e /\ e < 2 ^ width ver
  end.

Definition is_block (x : obj) : bool := match x with Addr _ _ => false | _ => true end.
Definition over (x : obj) : Z := match x with Addr ver _ | Net ver _ _ | Range ver _ _ => ver end.
Definition ofirst (x : obj) : Z :=
  match x with
  | Addr _ v => v
  | Net ver v p => v - v mod 2 ^ (width ver - p)
  | Range _ s _ => s
  end.
Definition olast (x : obj) : Z :=
  match x with
  | Addr _ v => v
  | Net ver v p => v - v mod 2 ^ (width ver - p) + 2 ^ (width ver - p) - 1
  | Range _ _ e => e
  end.

Lemma net_first_arith ver v p : wf_obj (Net ver v p) ->
  net_first (width ver) v p = v - v mod 2 ^ (width ver - p).
Proof. intros (_ & Hv & Hp). rewrite net_first_eq by assumption. reflexivity. Qed.

Lemma net_last_arith ver v p : wf_obj (Net ver v p) ->
  net_last (width ver) v p = v - v mod 2 ^ (width ver - p) + 2 ^ (width ver - p) - 1.
Proof. intros (_ & Hv & Hp). rewrite net_last_eq by assumption. reflexivity. Qed.

Lemma key_spec x : wf_obj x ->
  key x = if is_block x then [over x; ofirst x; olast x] else [over x; ofirst x].
Proof.
  destruct x as [ver v|ver v p|ver s e]; intros H; cbn [key is_block over ofirst olast].
  - reflexivity.
  - rewrite net_first_arith, net_last_arith by assumption. reflexivity.
  - reflexivity.
Qed.

(* ---- num_bits is the bit length ---- *)
Lemma pos_bits_acc p : forall acc, pos_bits p acc = acc + pos_bits p 0.
Proof.
  induction p as [q IH|q IH|]; intros acc; cbn [pos_bits].
  - rewrite (IH (acc + 1)), (IH (0 + 1)). lia.
  - rewrite (IH (acc + 1)), (IH (0 + 1)). lia.
  - lia.
Qed.

Lemma pos_bits_spec p : 1 <= pos_bits p 0 /\ 2 ^ (pos_bits p 0 - 1) <= Z.pos p < 2 ^ pos_bits p 0.
Proof.
  induction p as [q IH|q IH|].
  - cbn [pos_bits]. rewrite pos_bits_acc. destruct IH as (B & L & U).
    set (b := pos_bits q 0) in *. replace (0 + 1 + b - 1) with (Z.succ (b - 1)) by lia.
    replace (0 + 1 + b) with (Z.succ b) by lia. rewrite !Z.pow_succ_r by lia.
    change (Z.pos q~1) with (2 * Z.pos q + 1). clearbody b. lia.
  - cbn [pos_bits]. rewrite pos_bits_acc. destruct IH as (B & L & U).
    set (b := pos_bits q 0) in *. replace (0 + 1 + b - 1) with (Z.succ (b - 1)) by lia.
    replace (0 + 1 + b) with (Z.succ b) by lia. rewrite !Z.pow_succ_r by lia.
    change (Z.pos q~0) with (2 * Z.pos q). clearbody b. lia.
  - cbn. lia.
Qed.

Lemma num_bits_spec n : 0 < n -> 1 <= num_bits n /\ 2 ^ (num_bits n - 1) <= n < 2 ^ num_bits n.
Proof. destruct n as [|p|p]; try lia. intros _. apply pos_bits_spec. Qed.

Lemma num_bits_zero : num_bits 0 = 0.
Proof. reflexivity. Qed.

Lemma num_bits_mono a b : 0 < a <= b -> num_bits a <= num_bits b.
Proof.
  intros H. destruct (num_bits_spec a ltac:(lia)) as (A1 & A2 & A3).
  destruct (num_bits_spec b ltac:(lia)) as (B1 & B2 & B3).
  destruct (Z_le_gt_dec (num_bits a) (num_bits b)) as [|G]; [assumption|].
  pose proof (pow2_le (num_bits b) (num_bits a - 1) ltac:(lia)). lia.
Qed.

(* ---- shape of the sort keys ---- *)
Definition sfirst (x : obj) : Z :=
  match x with Addr _ v => v | Net ver v p => net_first (width ver) v p | Range _ s _ => s end.

Lemma sort_key_shape x : exists tl, sort_key x = over x :: sfirst x :: tl.
Proof. destruct x; eexists; reflexivity. Qed.

Lemma sfirst_ofirst x : wf_obj x -> sfirst x = ofirst x.
Proof. destruct x as [ver v|ver v p|ver s e]; intros H; cbn [sfirst ofirst]; [reflexivity| |reflexivity].
  apply net_first_arith. exact H. Qed.

Lemma sort_key_net ver v p : wf_obj (Net ver v p) ->
  sort_key (Net ver v p) = [ver; ofirst (Net ver v p); p - 1; v mod 2 ^ (width ver - p)].
Proof.
  intros H. pose proof (net_first_arith ver v p H) as F. cbn [sort_key ofirst].
  change (Z.land v (Z.lxor (max_int ver) (hostmask_int (width ver) p))) with (net_first (width ver) v p).
  rewrite F. set (m := v mod 2 ^ (width ver - p)). replace (v - (v - m)) with m by lia. reflexivity.
Qed.

(* ---- equality ---- *)
Lemma eq_addr ver1 v1 ver2 v2 :
  py_eq (Addr ver1 v1) (Addr ver2 v2) = true <-> ver1 = ver2 /\ v1 = v2.
Proof.
  unfold py_eq. rewrite tcmp_eq_iff. cbn [key]. split.
  - intros H. injection H. auto.
  - intros [-> ->]. reflexivity.
Qed.

Lemma eq_block x y : is_block x = true -> is_block y = true -> wf_obj x -> wf_obj y ->
  (py_eq x y = true <-> over x = over y /\ ofirst x = ofirst y /\ olast x = olast y).
Proof.
  intros Bx By Wx Wy. unfold py_eq. rewrite tcmp_eq_iff, (key_spec x Wx), (key_spec y Wy), Bx, By. split.
  - intros H. injection H. auto.
  - intros (-> & -> & ->). reflexivity.
Qed.

Lemma key_length x : length (key x) = if is_block x then 3%nat else 2%nat.
Proof. destruct x; reflexivity. Qed.

Lemma addr_ne_block ver v y : is_block y = true ->
  py_eq (Addr ver v) y = false /\ py_eq y (Addr ver v) = false.
Proof.
  intros By. assert (N : py_eq (Addr ver v) y = false).
  { unfold py_eq. destruct (tuple_cmp OpEq (key (Addr ver v)) (key y)) eqn:E; [|reflexivity].
    apply tcmp_eq_iff in E. apply (f_equal (@length Z)) in E. rewrite !key_length, By in E. discriminate. }
  split; [exact N|]. unfold py_eq in *. rewrite tcmp_eq_sym. exact N.
Qed.

Lemma eq_iff_key x y : py_eq x y = true <-> key x = key y.
Proof. apply tcmp_eq_iff. Qed.

Lemma ne_negb_eq x y : py_ne x y = negb (py_eq x y).
Proof. apply tcmp_ne. Qed.

Lemma eq_equivalence :
  (forall x, py_eq x x = true) /\ (forall x y, py_eq x y = py_eq y x) /\
  (forall x y z, py_eq x y = true -> py_eq y z = true -> py_eq x z = true).
Proof.
  split; [intros; apply tcmp_eq_refl|]. split; [intros; apply tcmp_eq_sym|].
  intros x y z. rewrite !eq_iff_key. congruence.
Qed.

Lemma eq_hash (H : list Z -> Z) x y : py_eq x y = true -> py_hash H x = py_hash H y.
Proof. rewrite eq_iff_key. unfold py_hash. intros ->. reflexivity. Qed.

(* ---- ordering ---- *)
Lemma order_ops x y :
  py_lt x y = negb (py_le y x) /\ py_gt x y = py_lt y x /\ py_ge x y = py_le y x /\
  py_lt x y = py_le x y && negb (tuple_cmp OpEq (sort_key x) (sort_key y)).
Proof.
  unfold py_lt, py_le, py_gt, py_ge.
  split; [apply tcmp_lt_nle|]. split; [apply tcmp_gt|]. split; [apply tcmp_ge|]. apply tcmp_lt_le_ne.
Qed.

Lemma le_refl x : py_le x x = true.
Proof. apply tcmp_le_refl. Qed.

Lemma le_trans x y z : py_le x y = true -> py_le y z = true -> py_le x z = true.
Proof. apply tcmp_le_trans. Qed.

Lemma le_total x y : py_le x y = true \/ py_le y x = true.
Proof. apply tcmp_le_total. Qed.

Lemma lt_le x y : py_lt x y = true -> py_le x y = true.
Proof. apply tcmp_lt_le. Qed.

Lemma lt_trans x y z : py_lt x y = true -> py_lt y z = true -> py_lt x z = true.
Proof. apply tcmp_lt_trans. Qed.

Lemma le_antisym_key x y : py_le x y = true -> py_le y x = true -> sort_key x = sort_key y.
Proof. apply tcmp_le_antisym. Qed.

Lemma lt_by_version x y : over x < over y -> py_lt x y = true.
Proof.
  intros H. unfold py_lt. destruct (sort_key_shape x) as [tx ->]. destruct (sort_key_shape y) as [ty ->].
  apply tcmp_lt_head. exact H.
Qed.

Lemma lt_by_sfirst x y : over x = over y -> sfirst x < sfirst y -> py_lt x y = true.
Proof.
  intros V H. unfold py_lt. destruct (sort_key_shape x) as [tx ->]. destruct (sort_key_shape y) as [ty ->].
  rewrite V, tcmp_lt_tail. apply tcmp_lt_head. exact H.
Qed.

Lemma lt_by_first x y : wf_obj x -> wf_obj y -> over x = over y -> ofirst x < ofirst y -> py_lt x y = true.
Proof. intros Wx Wy V H. apply lt_by_sfirst; [exact V|]. rewrite !sfirst_ofirst by assumption. exact H. Qed.

Lemma lt_enclosing ver v1 p1 v2 p2 :
  let a := Net ver v1 p1 in let b := Net ver v2 p2 in
  wf_obj a -> wf_obj b -> ofirst a <= ofirst b -> olast b <= olast a ->
  (ofirst a <> ofirst b \/ olast a <> olast b) -> py_lt a b = true.
Proof.
  intros a b Wa Wb F L S.
  destruct (Z_lt_le_dec (ofirst a) (ofirst b)) as [Lt|Ge].
  - apply lt_by_first; try assumption. reflexivity.
  - assert (E : ofirst a = ofirst b) by lia.
    unfold py_lt. subst a b. rewrite (sort_key_net _ _ _ Wa), (sort_key_net _ _ _ Wb), E.
    rewrite !tcmp_lt_tail. apply tcmp_lt_head.
    cbn [ofirst olast] in *. destruct Wa as (_ & _ & Hp1). destruct Wb as (_ & _ & Hp2).
    destruct (Z_lt_le_dec p1 p2) as [|C]; [lia|].
    pose proof (pow2_le (width ver - p1) (width ver - p2) ltac:(lia)). lia.
Qed.

Lemma lt_addr_in_net ver v p a :
  wf_obj (Net ver v p) -> ofirst (Net ver v p) <= a <= olast (Net ver v p) ->
  py_lt (Net ver v p) (Addr ver a) = true.
Proof.
  intros W [Lo Hi]. destruct (Z_lt_le_dec (ofirst (Net ver v p)) a) as [Lt|Ge].
  - apply lt_by_sfirst; [reflexivity|]. rewrite sfirst_ofirst by assumption. exact Lt.
  - assert (E : ofirst (Net ver v p) = a) by lia. unfold py_lt. rewrite (sort_key_net _ _ _ W), E.
    cbn [sort_key]. rewrite !tcmp_lt_tail. apply tcmp_lt_head. destruct W as (_ & _ & Hp). lia.
Qed.

Lemma lt_range ver1 s1 e1 ver2 s2 e2 :
  (ver1 < ver2 \/ (ver1 = ver2 /\ s1 < s2)) -> py_lt (Range ver1 s1 e1) (Range ver2 s2 e2) = true.
Proof.
  intros [H|[V H]]; [apply lt_by_version; exact H|]. apply lt_by_sfirst; assumption.
Qed.

(* same version and start: the range needing more bits for its size comes first *)
Lemma lt_range_tie ver s e1 e2 :
  num_bits (range_size s e2) < num_bits (range_size s e1) ->
  py_lt (Range ver s e1) (Range ver s e2) = true.
Proof.
  intros H. unfold py_lt. cbn [sort_key]. rewrite !tcmp_lt_tail. apply tcmp_lt_head. lia.
Qed.

(* ---- sorted(): stable insertion by `<` ---- *)
Definition le_obj (a b : obj) : Prop := py_le a b = true.
Definition kle (a b : list Z) : Prop := tuple_cmp OpLe a b = true.

Lemma insert_perm x l : Permutation (insert_obj x l) (x :: l).
Proof.
  induction l as [|y t IH]; [apply Permutation_refl|]. cbn [insert_obj].
  destruct (py_lt y x); [|apply Permutation_refl].
  eapply perm_trans; [apply perm_skip; exact IH|apply perm_swap].
Qed.

Lemma sorted_permutation l : Permutation (sorted l) l.
Proof.
  induction l as [|x t IH]; [apply perm_nil|]. cbn [sorted fold_right]. fold (sorted t).
  eapply perm_trans; [apply insert_perm|]. apply perm_skip. exact IH.
Qed.

Lemma insert_sorted x l : StronglySorted le_obj l -> StronglySorted le_obj (insert_obj x l).
Proof.
  induction l as [|y t IH]; intros S.
  - cbn. constructor; constructor.
  - cbn [insert_obj]. inversion S as [|? ? St Ft]; subst. destruct (py_lt y x) eqn:E.
    + constructor; [apply IH; exact St|].
      eapply Permutation_Forall; [apply Permutation_sym; apply insert_perm|].
      constructor; [apply lt_le; exact E|exact Ft].
    + assert (Lxy : le_obj x y).
      { unfold le_obj. destruct (order_ops y x) as (Hn & _). rewrite Hn in E. apply negb_false_iff in E. exact E. }
      constructor; [exact S|]. constructor; [exact Lxy|].
      eapply Forall_impl; [|exact Ft]. intros z Hz. eapply le_trans; eassumption.
Qed.

Lemma sorted_sorted l : StronglySorted le_obj (sorted l).
Proof.
  induction l as [|x t IH]; [constructor|]. cbn [sorted fold_right]. fold (sorted t).
  apply insert_sorted. exact IH.
Qed.

Lemma ss_map l : StronglySorted le_obj l -> StronglySorted kle (map sort_key l).
Proof.
  induction 1 as [|x t S IH F]; cbn [map]; constructor; [exact IH|].
  apply Forall_map. exact F.
Qed.

Lemma sorted_unique k1 : forall k2, Permutation k1 k2 -> StronglySorted kle k1 -> StronglySorted kle k2 -> k1 = k2.
Proof.
  induction k1 as [|a t IH]; intros k2 P S1 S2.
  - apply Permutation_nil in P. subst. reflexivity.
  - destruct k2 as [|b t'].
    + apply Permutation_sym, Permutation_nil in P. discriminate.
    + inversion S1 as [|? ? St Ft]; subst. inversion S2 as [|? ? St' Ft']; subst.
      assert (Lab : kle a b).
      { assert (In b (a :: t)) as [->|I] by (eapply Permutation_in; [apply Permutation_sym; exact P|left; reflexivity]).
        - apply tcmp_le_refl.
        - rewrite Forall_forall in Ft. apply Ft. exact I. }
      assert (Lba : kle b a).
      { assert (In a (b :: t')) as [->|I] by (eapply Permutation_in; [exact P|left; reflexivity]).
        - apply tcmp_le_refl.
        - rewrite Forall_forall in Ft'. apply Ft'. exact I. }
      pose proof (tcmp_le_antisym a b Lab Lba). subst b.
      f_equal. apply IH; try assumption. eapply Permutation_cons_inv. exact P.
Qed.

Lemma sorted_perm_invariant l l' : Permutation l l' ->
  map sort_key (sorted l) = map sort_key (sorted l').
Proof.
  intros P. apply sorted_unique.
  - apply Permutation_map. eapply perm_trans; [apply sorted_permutation|].
    eapply perm_trans; [exact P|]. apply Permutation_sym. apply sorted_permutation.
  - apply ss_map, sorted_sorted.
  - apply ss_map, sorted_sorted.
Qed.

(* stability: the objects with one given sort key come out in their input order *)
Definition has_key (k : list Z) (y : obj) : bool := tuple_cmp OpEq (sort_key y) k.

Lemma filter_insert k x l : filter (has_key k) (insert_obj x l) = filter (has_key k) (x :: l).
Proof.
  induction l as [|y t IH]; [reflexivity|]. cbn [insert_obj]. destruct (py_lt y x) eqn:E; [|reflexivity].
  cbn [filter] in *. rewrite IH. destruct (has_key k y) eqn:Ky; [|reflexivity].
  destruct (has_key k x) eqn:Kx; [|reflexivity].
  unfold has_key in *. apply tcmp_eq_iff in Ky, Kx. unfold py_lt in E. rewrite Ky, Kx, tcmp_lt_irrefl in E.
  discriminate.
Qed.

Lemma sorted_stable k l : filter (has_key k) (sorted l) = filter (has_key k) l.
Proof.
  induction l as [|x t IH]; [reflexivity|]. cbn [sorted fold_right]. fold (sorted t).
  rewrite filter_insert. cbn [filter]. rewrite IH. reflexivity.
Qed.

(* ---- state round trips ---- *)
Lemma in_range_of_bounds w v : 0 <= v < 2 ^ w -> in_range_w w v = true.
Proof. intros H. unfold in_range_w, max_int_w. lia. Qed.

Lemma addr_of_int_ver_ok ver v : valid_ver ver = true -> 0 <= v < 2 ^ width ver ->
  addr_of_int_ver v ver = Ok (ver, v).
Proof.
  intros V H. unfold addr_of_int_ver. destruct (width_cases ver V) as [[-> W]|[-> W]]; rewrite W in H.
  - change (4 =? 4) with true. cbv iota. rewrite in_range_of_bounds by exact H. reflexivity.
  - change (6 =? 4) with false. change (6 =? 6) with true. cbv iota. rewrite in_range_of_bounds by exact H. reflexivity.
Qed.

Lemma state_roundtrip x : wf_obj x -> setstate (cls_of x) (getstate x) = Ok x.
Proof.
  destruct x as [ver v|ver v p|ver s e]; cbn [cls_of getstate setstate].
  - intros (V & _). unfold addr_setstate. destruct (width_cases ver V) as [[-> _]|[-> _]]; reflexivity.
  - intros (V & _ & Hp). unfold net_setstate. destruct (width_cases ver V) as [[-> W]|[-> W]].
    + change (4 =? 4) with true. cbv iota. cbn [bind]. rewrite W in *.
      replace ((0 <=? p) && (p <=? 32)) with true by lia. reflexivity.
    + change (6 =? 4) with false. change (6 =? 6) with true. cbv iota. cbn [bind]. rewrite W in *.
      replace ((0 <=? p) && (p <=? 128)) with true by lia. reflexivity.
  - intros (V & Hs & Hse & He). unfold range_setstate.
    rewrite !addr_of_int_ver_ok by (try assumption; lia). reflexivity.
Qed.

(* what __setstate__ accepts: exactly the states whose version is 4 or 6 (and, for a network, whose prefix is
   in range; for a range, whose ends are in range); the restored object has exactly the state's fields *)
Lemma addr_setstate_spec st :
  match addr_setstate st with
  | Ok x => getstate x = st /\ cls_of x = CAddr /\ valid_ver (over x) = true
  | Raise e => e = ValueError /\ forall v ver, st = [v; ver] -> valid_ver ver = false
  end.
Proof.
  unfold addr_setstate. destruct st as [|v [|ver [|? ?]]]; try (split; [reflexivity|intros; discriminate]).
  case_eqb ver 4; [subst; repeat split|]. case_eqb ver 6; [subst; repeat split|].
  split; [reflexivity|]. intros v' ver' E. injection E; intros; subst. unfold valid_ver. lia.
Qed.

Lemma net_setstate_spec st :
  match net_setstate st with
  | Ok x => getstate x = st /\ cls_of x = CNet /\ valid_ver (over x) = true /\
            exists v p, x = Net (over x) v p /\ 0 <= p <= width (over x)
  | Raise e => e = ValueError /\
               forall v p ver, st = [v; p; ver] -> valid_ver ver = false \/ ~ (0 <= p <= width ver)
  end.
Proof.
  unfold net_setstate. destruct st as [|v [|p [|ver [|? ?]]]]; try (split; [reflexivity|intros; discriminate]).
  case_eqb ver 4.
  - subst. cbn [bind]. change (width 4) with 32. destruct ((0 <=? p) && (p <=? 32)) eqn:E.
    + repeat split. exists v, p. cbn [over]. change (width 4) with 32. split; [reflexivity|lia].
    + split; [reflexivity|]. intros v' p' ver' Q. injection Q; intros; subst. right. change (width 4) with 32. lia.
  - case_eqb ver 6.
    + subst. cbn [bind]. change (width 6) with 128. destruct ((0 <=? p) && (p <=? 128)) eqn:E.
      * repeat split. exists v, p. cbn [over]. change (width 6) with 128. split; [reflexivity|lia].
      * split; [reflexivity|]. intros v' p' ver' Q. injection Q; intros; subst. right. change (width 6) with 128. lia.
    + cbn [bind]. split; [reflexivity|]. intros v' p' ver' Q. injection Q; intros; subst. left. unfold valid_ver. lia.
Qed.

Lemma addr_of_int_ver_spec i ver :
  match addr_of_int_ver i ver with
  | Ok r => r = (ver, i) /\ valid_ver ver = true /\ 0 <= i < 2 ^ width ver
  | Raise e => (e = ValueError /\ valid_ver ver = false) \/
               (e = AddrFormatError /\ valid_ver ver = true /\ ~ (0 <= i < 2 ^ width ver))
  end.
Proof.
  unfold addr_of_int_ver. case_eqb ver 4.
  - subst. change (width 4) with 32. unfold in_range_w, max_int_w.
    destruct ((0 <=? i) && (i <=? 2 ^ 32 - 1)) eqn:E.
    + split; [reflexivity|]. split; [reflexivity|lia].
    + right. split; [reflexivity|]. split; [reflexivity|lia].
  - case_eqb ver 6.
    + subst. change (width 6) with 128. unfold in_range_w, max_int_w.
      destruct ((0 <=? i) && (i <=? 2 ^ 128 - 1)) eqn:E.
      * split; [reflexivity|]. split; [reflexivity|lia].
      * right. split; [reflexivity|]. split; [reflexivity|lia].
    + left. split; [reflexivity|]. unfold valid_ver. lia.
Qed.

Lemma range_setstate_spec st :
  match range_setstate st with
  | Ok x => getstate x = st /\ cls_of x = CRange /\ valid_ver (over x) = true /\
            exists s e, x = Range (over x) s e /\ 0 <= s < 2 ^ width (over x) /\ 0 <= e < 2 ^ width (over x)
  | Raise e => e = ValueError \/ e = AddrFormatError
  end.
Proof.
  unfold range_setstate. destruct st as [|s [|e [|ver [|? ?]]]]; try (left; reflexivity).
  pose proof (addr_of_int_ver_spec s ver) as Hs. destruct (addr_of_int_ver s ver) as [rs|x].
  - destruct Hs as (-> & V & Rs). cbn [bind fst snd].
    pose proof (addr_of_int_ver_spec e ver) as He. destruct (addr_of_int_ver e ver) as [re|x].
    + destruct He as (-> & _ & Re). cbn [bind fst snd getstate cls_of over]. repeat split; try assumption.
      exists s, e. repeat split; try lia.
    + cbn [bind]. destruct He as [[-> _]|[-> _]]; [left|right]; reflexivity.
  - cbn [bind]. destruct Hs as [[-> _]|[-> _]]; [left|right]; reflexivity.
Qed.

(* EUI *)
Lemma eui_roundtrip ver v d : ver = 48 \/ ver = 64 -> eui_setstate (eui_getstate ver v d) = Ok (ver, v, d).
Proof. intros [-> | ->]; reflexivity. Qed.

(* IPSet: CIDRs are well-formed networks with pairwise different keys (they are pairwise disjoint) *)
Definition wf_cidr (x : obj) : Prop := match x with Net _ _ _ => wf_obj x | _ => False end.

Lemma net_of_tuple_ok ver v p : wf_obj (Net ver v p) -> net_of_tuple v p ver = Ok (Net ver v p).
Proof.
  intros (V & Hv & Hp). unfold net_of_tuple, parse_ip_network_tuple, max_int, max_int_w.
  destruct (width_cases ver V) as [[-> W]|[-> W]]; rewrite W in *.
  - change (4 =? 4) with true. cbv iota. change (width 4) with 32.
    replace ((0 <=? v) && (v <=? 2 ^ 32 - 1)) with true by lia.
    replace ((0 <=? p) && (p <=? 32)) with true by lia. reflexivity.
  - change (6 =? 4) with false. change (6 =? 6) with true. cbv iota. change (width 6) with 128.
    replace ((0 <=? v) && (v <=? 2 ^ 128 - 1)) with true by lia.
    replace ((0 <=? p) && (p <=? 128)) with true by lia. reflexivity.
Qed.

Lemma ipset_build_ok l : Forall wf_cidr l -> ipset_build (ipset_getstate l) = Ok l.
Proof.
  induction 1 as [|x t Hx Ht IH]; [reflexivity|].
  destruct x as [| ver v p |]; try contradiction. cbn [ipset_getstate map getstate ipset_build].
  rewrite net_of_tuple_ok by exact Hx. cbn [bind]. unfold ipset_getstate in IH. rewrite IH. reflexivity.
Qed.

Lemma existsb_eq_false x acc : ~ In (key x) (map key acc) -> existsb (fun y => py_eq y x) acc = false.
Proof.
  induction acc as [|y t IH]; intros N; [reflexivity|]. cbn [existsb map In] in *.
  rewrite IH by tauto. destruct (py_eq y x) eqn:E; [|reflexivity].
  apply eq_iff_key in E. exfalso. apply N. left. exact E.
Qed.

Lemma fromkeys_nodup l : forall acc, NoDup (map key (acc ++ l)) -> fromkeys acc l = acc ++ l.
Proof.
  induction l as [|x t IH]; intros acc N; cbn [fromkeys]; [rewrite app_nil_r; reflexivity|].
  rewrite map_app in N. cbn [map] in N.
  rewrite existsb_eq_false.
  - rewrite IH; [rewrite <- app_assoc; reflexivity|]. rewrite <- app_assoc. cbn [app]. rewrite map_app. exact N.
  - apply NoDup_remove_2 in N. intros I. apply N. apply in_or_app. left. exact I.
Qed.

Lemma ipset_roundtrip l : Forall wf_cidr l -> NoDup (map key l) ->
  ipset_setstate (ipset_getstate l) = Ok l.
Proof.
  intros W N. unfold ipset_setstate. rewrite ipset_build_ok by exact W. cbn [omap].
  rewrite fromkeys_nodup by exact N. reflexivity.
Qed.

(* ---- the statements of Props/C12.v ---- *)
Lemma order_all :
  (forall x, py_le x x = true) /\
  (forall x y z, py_le x y = true -> py_le y z = true -> py_le x z = true) /\
  (forall x y, py_le x y = true \/ py_le y x = true) /\
  (forall x y, py_lt x y = negb (py_le y x) /\ py_gt x y = py_lt y x /\ py_ge x y = py_le y x /\
               py_lt x y = py_le x y && negb (tuple_cmp OpEq (sort_key x) (sort_key y))) /\
  (forall x y z, py_lt x y = true -> py_lt y z = true -> py_lt x z = true) /\
  (forall x y, over x < over y -> py_lt x y = true) /\
  (forall x y, wf_obj x -> wf_obj y -> over x = over y -> ofirst x < ofirst y -> py_lt x y = true) /\
  (forall ver v1 p1 v2 p2, let a := Net ver v1 p1 in let b := Net ver v2 p2 in
     wf_obj a -> wf_obj b -> ofirst a <= ofirst b -> olast b <= olast a ->
     (ofirst a <> ofirst b \/ olast a <> olast b) -> py_lt a b = true) /\
  (forall ver v p a, wf_obj (Net ver v p) -> ofirst (Net ver v p) <= a <= olast (Net ver v p) ->
     py_lt (Net ver v p) (Addr ver a) = true) /\
  (forall ver1 s1 e1 ver2 s2 e2, (ver1 < ver2 \/ (ver1 = ver2 /\ s1 < s2)) ->
     py_lt (Range ver1 s1 e1) (Range ver2 s2 e2) = true) /\
  (forall ver s e1 e2, num_bits (range_size s e2) < num_bits (range_size s e1) ->
     py_lt (Range ver s e1) (Range ver s e2) = true).
Proof.
  split; [exact le_refl|]. split; [exact le_trans|]. split; [exact le_total|]. split; [exact order_ops|].
  split; [exact lt_trans|]. split; [exact lt_by_version|]. split; [exact lt_by_first|].
  split; [exact lt_enclosing|]. split; [exact lt_addr_in_net|]. split; [exact lt_range|]. exact lt_range_tie.
Qed.

Lemma sorted_spec l :
  Permutation (sorted l) l /\ StronglySorted (fun a b => py_le a b = true) (sorted l) /\
  (forall k, filter (fun y => tuple_cmp OpEq (sort_key y) k) (sorted l) =
             filter (fun y => tuple_cmp OpEq (sort_key y) k) l).
Proof.
  split; [apply sorted_permutation|]. split; [apply sorted_sorted|]. intros k. apply sorted_stable.
Qed.

Lemma state_roundtrip_full x : wf_obj x ->
  setstate (cls_of x) (getstate x) = Ok x /\
  (forall y, setstate (cls_of x) (getstate x) = Ok y ->
     py_eq x y = true /\ sort_key x = sort_key y /\ forall H, py_hash H x = py_hash H y).
Proof.
  intros W. rewrite (state_roundtrip x W). split; [reflexivity|]. intros y E. injection E as <-.
  split; [apply tcmp_eq_refl|]. split; reflexivity.
Qed.

Lemma setstate_spec :
  (forall st, match addr_setstate st with
     | Ok x => getstate x = st /\ cls_of x = CAddr /\ valid_ver (over x) = true
     | Raise e => e = ValueError /\ forall v ver, st = [v; ver] -> valid_ver ver = false end) /\
  (forall st, match net_setstate st with
     | Ok x => getstate x = st /\ cls_of x = CNet /\ valid_ver (over x) = true /\
               exists v p, x = Net (over x) v p /\ 0 <= p <= width (over x)
     | Raise e => e = ValueError /\
               forall v p ver, st = [v; p; ver] -> valid_ver ver = false \/ ~ (0 <= p <= width ver) end) /\
  (forall st, match range_setstate st with
     | Ok x => getstate x = st /\ cls_of x = CRange /\ valid_ver (over x) = true /\
               exists s e, x = Range (over x) s e /\ 0 <= s < 2 ^ width (over x) /\ 0 <= e < 2 ^ width (over x)
     | Raise e => e = ValueError \/ e = AddrFormatError end).
Proof. split; [exact addr_setstate_spec|]. split; [exact net_setstate_spec|exact range_setstate_spec]. Qed.

Lemma num_bits_all :
  num_bits 0 = 0 /\ (forall n, 0 < n -> 1 <= num_bits n /\ 2 ^ (num_bits n - 1) <= n < 2 ^ num_bits n) /\
  (forall a b, 0 < a <= b -> num_bits a <= num_bits b).
Proof. split; [reflexivity|]. split; [exact num_bits_spec|exact num_bits_mono]. Qed.

Lemma ipset_restore_ok l : Forall wf_cidr l -> NoDup (map key l) -> ipset_restore l = Ok l.
Proof. exact (ipset_roundtrip l). Qed.
