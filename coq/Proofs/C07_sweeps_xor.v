(* Proofs/C07_sweeps_xor.v — IPSet.symmetric_difference: the two-cursor sweep collects, in ascending order,
   the address ranges lying in exactly one operand; merged and re-split into CIDR blocks they form a SetInv dict
   denoting the symmetric difference. *)
From NV Require Import Base.Tac Base.PyVal Base.Bits Base.Canon Model.Ip Model.Partition Model.Span Model.Merge Model.Sets
  Proofs.C02 Proofs.NetDen Proofs.C07_sweeps Proofs.C07_sweeps_inter Proofs.C07_sweeps_ranges.
From Coq Require Import Sorting.Sorted Sorting.Permutation.
Open Scope Z_scope.

(* r lies inside one block of l *)
Definition rng_from (l : list net) (r : rng) : Prop := exists n, In n l /\ rinside r (rng_of n).

Lemma rng_from_incl l l' r : (forall n, In n l -> In n l') -> rng_from l r -> rng_from l' r.
Proof. intros H (n & Hn & I). exists n. auto. Qed.

Lemma s_cross_below a b t n : rinside a (rng_of t) -> nbelow t n -> rinside b (rng_of n) -> rbelow a b.
Proof. intros. rsimp. lia. Qed.

Lemma SS_map {A B} (R : B -> B -> Prop) (f : A -> B) l :
  StronglySorted (fun a b => R (f a) (f b)) l -> StronglySorted R (map f l).
Proof.
  intros S. induction S as [|a l S IH F]; cbn [map]; constructor; [exact IH|].
  rewrite Forall_forall in *. intros y Hy. apply in_map_iff in Hy. destruct Hy as (x & <- & Hx). auto.
Qed.

(* whole blocks as ranges *)
Lemma map_rng_of_spec l : Good l ->
  Forall rvalid (map rng_of l) /\ StronglySorted rbelow (map rng_of l) /\
  (forall r, In r (map rng_of l) -> rng_from l r) /\
  (forall ver x, rden (map rng_of l) ver x <-> den l ver x).
Proof.
  intros (F & S). split; [|split; [|split]].
  - rewrite Forall_forall in *. intros r Hr. apply in_map_iff in Hr. destruct Hr as (n & <- & Hn). apply s_wfh_rvalid, F, Hn.
  - apply SS_map. exact S.
  - intros r Hr. apply in_map_iff in Hr. destruct Hr as (n & <- & Hn). exists n. split; [exact Hn|]. rsimp. lia.
  - apply rden_map_rng_of.
Qed.

Definition xor_post (own other : list net) (G : list rng) : Prop :=
  Forall rvalid G /\ StronglySorted rbelow G /\
  (forall r, In r G -> rng_from (own ++ other) r) /\
  (forall ver x, rden G ver x <-> (den own ver x /\ ~ den other ver x) \/ (den other ver x /\ ~ den own ver x)).

Lemma symdiff_loop_spec : forall fuel own other ranges, Good own -> Good other ->
  (length own + length other < fuel)%nat ->
  exists G, symdiff_loop fuel own other ranges = Ok (ranges ++ G) /\ xor_post own other G.
Proof.
  induction fuel as [|f IH]; intros own other ranges Go Gt Hf; [lia|].
  destruct other as [|tc other'].
  { exists (map rng_of own). split; [destruct own; reflexivity|].
    destruct (map_rng_of_spec own Go) as (F & S & M & D). split; [exact F|split; [exact S|split]].
    - intros r Hr. rewrite app_nil_r. apply M, Hr.
    - intros ver x. rewrite D. pose proof (den_nil ver x). tauto. }
  destruct own as [|oc own'].
  { exists (map rng_of (tc :: other')). split; [reflexivity|].
    destruct (map_rng_of_spec _ Gt) as (F & S & M & D). split; [exact F|split; [exact S|split]].
    - intros r Hr. apply M, Hr.
    - intros ver x. rewrite D. pose proof (den_nil ver x). tauto. }
  cbn [length] in Hf. cbn [symdiff_loop].
  pose proof (Good_head _ _ Go) as Ho. pose proof (Good_head _ _ Gt) as Ht.
  pose proof (Good_tail _ _ Go) as Go'. pose proof (Good_tail _ _ Gt) as Gt'.
  destruct (s_cmp_case oc tc Ho Ht) as [K E|K N1 I NE|K N1 N2 I NE|K N1 N2 L B|K N1 N2 L B].
  - (* equal blocks: skip both *)
    rewrite K. destruct (IH own' other' ranges Go' Gt') as (G & HG & F & S & M & D); [lia|].
    exists G. split; [exact HG|]. split; [exact F|split; [exact S|split]].
    + intros r Hr. eapply rng_from_incl; [|apply M, Hr]. intros n Hn. apply in_app_or in Hn.
      destruct Hn; [apply in_or_app; left; now right|apply in_or_app; right; now right].
    + intros ver x. rewrite D, !den_cons.
      assert (Eq: in_net oc ver x <-> in_net tc ver x).
      { change (in_rng (rng_of oc) ver x <-> in_rng (rng_of tc) ver x). rewrite E. tauto. }
      assert (X1: in_net oc ver x -> ~ den own' ver x).
      { intros Io. apply s_below_all_not_den with (a := oc); [intros; eapply Good_head_below; eauto|exact Io]. }
      assert (X2: in_net tc ver x -> ~ den other' ver x).
      { intros Io. apply s_below_all_not_den with (a := tc); [intros; eapply Good_head_below; eauto|exact Io]. }
      tauto.
  - (* oc strictly inside tc: gaps of tc not covered by own's blocks inside it *)
    rewrite K, N1.
    destruct (subtract_spec tc oc own' ranges Ht Go I) as (ins & rest & G1 & ES & Esub & Hins & Hrest & F1 & S1 & D1).
    rewrite Esub. cbn [bind fst snd].
    rewrite ES in Go. destruct (Good_app_inv _ _ Go) as (Gins & Grest & Hcross).
    assert (Len: (length rest < length (oc :: own'))%nat) by (rewrite ES, app_length; cbn [length]; lia).
    cbn [length] in Len.
    destruct (IH rest other' (ranges ++ G1) Grest Gt') as (G2 & HG & F2 & S2 & M2 & D2); [lia|].
    exists (G1 ++ G2). split; [rewrite HG, app_assoc; reflexivity|].
    rewrite Forall_forall in F1.
    assert (Above: forall n, In n (rest ++ other') -> nbelow tc n).
    { intros n Hn. apply in_app_or in Hn. destruct Hn as [Hn|Hn]; [auto|eapply Good_head_below; eauto]. }
    split; [|split; [|split]].
    + apply Forall_app. split; [rewrite Forall_forall; intros r Hr; apply (F1 r Hr)|exact F2].
    + apply SS_app; auto. intros a b Ha Hb. destruct (M2 b Hb) as (n & Hn & Ib).
      eapply s_cross_below; [apply (F1 a Ha)|apply Above, Hn|exact Ib].
    + intros r Hr. apply in_app_or in Hr. destruct Hr as [Hr|Hr].
      * exists tc. split; [apply in_or_app; right; now left|apply (F1 r Hr)].
      * eapply rng_from_incl; [|apply M2, Hr]. intros n Hn. apply in_app_or in Hn. rewrite ES.
        destruct Hn; [apply in_or_app; left; apply in_or_app; now right|apply in_or_app; right; now right].
    + intros ver x. rewrite rden_app, D1, D2, ES, den_app, (den_cons tc).
      assert (X0: den (oc :: ins) ver x -> in_net tc ver x).
      { intros (n & Hn & In_). eapply s_inside_in; [apply Hins, Hn|exact In_]. }
      assert (X1: in_net tc ver x -> ~ den rest ver x).
      { intros It. apply s_below_all_not_den with (a := tc); [exact Hrest|exact It]. }
      assert (X2: in_net tc ver x -> ~ den other' ver x).
      { intros It. apply s_below_all_not_den with (a := tc); [intros; eapply Good_head_below; eauto|exact It]. }
      tauto.
  - (* tc strictly inside oc: gaps of oc not covered by other's blocks inside it *)
    rewrite K, N1, N2.
    destruct (subtract_spec oc tc other' ranges Ho Gt I) as (ins & rest & G1 & ES & Esub & Hins & Hrest & F1 & S1 & D1).
    rewrite Esub. cbn [bind fst snd].
    rewrite ES in Gt. destruct (Good_app_inv _ _ Gt) as (Gins & Grest & Hcross).
    assert (Len: (length rest < length (tc :: other'))%nat) by (rewrite ES, app_length; cbn [length]; lia).
    cbn [length] in Len.
    destruct (IH own' rest (ranges ++ G1) Go' Grest) as (G2 & HG & F2 & S2 & M2 & D2); [lia|].
    exists (G1 ++ G2). split; [rewrite HG, app_assoc; reflexivity|].
    rewrite Forall_forall in F1.
    assert (Above: forall n, In n (own' ++ rest) -> nbelow oc n).
    { intros n Hn. apply in_app_or in Hn. destruct Hn as [Hn|Hn]; [eapply Good_head_below; eauto|auto]. }
    split; [|split; [|split]].
    + apply Forall_app. split; [rewrite Forall_forall; intros r Hr; apply (F1 r Hr)|exact F2].
    + apply SS_app; auto. intros a b Ha Hb. destruct (M2 b Hb) as (n & Hn & Ib).
      eapply s_cross_below; [apply (F1 a Ha)|apply Above, Hn|exact Ib].
    + intros r Hr. apply in_app_or in Hr. destruct Hr as [Hr|Hr].
      * exists oc. split; [apply in_or_app; left; now left|apply (F1 r Hr)].
      * eapply rng_from_incl; [|apply M2, Hr]. intros n Hn. apply in_app_or in Hn. rewrite ES.
        destruct Hn; [apply in_or_app; left; now right|apply in_or_app; right; apply in_or_app; now right].
    + intros ver x. rewrite rden_app, D1, D2, ES, den_app, (den_cons oc).
      assert (X0: den (tc :: ins) ver x -> in_net oc ver x).
      { intros (n & Hn & In_). eapply s_inside_in; [apply Hins, Hn|exact In_]. }
      assert (X1: in_net oc ver x -> ~ den rest ver x).
      { intros It. apply s_below_all_not_den with (a := oc); [exact Hrest|exact It]. }
      assert (X2: in_net oc ver x -> ~ den own' ver x).
      { intros It. apply s_below_all_not_den with (a := oc); [intros; eapply Good_head_below; eauto|exact It]. }
      tauto.
  - (* oc entirely before tc: oc is in the result *)
    rewrite K, N1, N2, L.
    destruct (IH own' (tc :: other') (ranges ++ [rng_of oc]) Go' Gt) as (G2 & HG & F2 & S2 & M2 & D2); [cbn [length]; lia|].
    exists (rng_of oc :: G2). split; [rewrite HG, <- app_assoc; reflexivity|].
    assert (Above: forall n, In n (own' ++ tc :: other') -> nbelow oc n).
    { intros n Hn. apply in_app_or in Hn. destruct Hn as [Hn|Hn]; [eapply Good_head_below; eauto|exact (Good_below_all oc tc other' Gt B n Hn)]. }
    split; [|split; [|split]].
    + constructor; [apply s_wfh_rvalid, Ho|exact F2].
    + constructor; [exact S2|]. rewrite Forall_forall. intros b Hb. destruct (M2 b Hb) as (n & Hn & Ib).
      eapply s_cross_below; [|apply Above, Hn|exact Ib]. rsimp. lia.
    + intros r [<-|Hr].
      * exists oc. split; [now left|rsimp; lia].
      * eapply rng_from_incl; [|apply M2, Hr]. intros n Hn. now right.
    + intros ver x. rewrite rden_cons, D2, (den_cons oc). change (in_rng (rng_of oc) ver x) with (in_net oc ver x).
      assert (X1: in_net oc ver x -> ~ den own' ver x).
      { intros It. apply s_below_all_not_den with (a := oc); [intros; eapply Good_head_below; eauto|exact It]. }
      assert (X2: in_net oc ver x -> ~ den (tc :: other') ver x).
      { intros It. apply s_below_all_not_den with (a := oc); [exact (Good_below_all oc tc other' Gt B)|exact It]. }
      tauto.
  - (* tc entirely before oc: tc is in the result *)
    rewrite K, N1, N2, L.
    destruct (IH (oc :: own') other' (ranges ++ [rng_of tc]) Go Gt') as (G2 & HG & F2 & S2 & M2 & D2); [cbn [length]; lia|].
    exists (rng_of tc :: G2). split; [rewrite HG, <- app_assoc; reflexivity|].
    assert (Above: forall n, In n ((oc :: own') ++ other') -> nbelow tc n).
    { intros n Hn. apply in_app_or in Hn. destruct Hn as [Hn|Hn]; [exact (Good_below_all tc oc own' Go B n Hn)|eapply Good_head_below; eauto]. }
    split; [|split; [|split]].
    + constructor; [apply s_wfh_rvalid, Ht|exact F2].
    + constructor; [exact S2|]. rewrite Forall_forall. intros b Hb. destruct (M2 b Hb) as (n & Hn & Ib).
      eapply s_cross_below; [|apply Above, Hn|exact Ib]. rsimp. lia.
    + intros r [<-|Hr].
      * exists tc. split; [apply in_or_app; right; now left|rsimp; lia].
      * eapply rng_from_incl; [|apply M2, Hr]. intros n Hn. apply in_app_or in Hn.
        destruct Hn; [apply in_or_app; now left|apply in_or_app; right; now right].
    + intros ver x. rewrite rden_cons, D2, (den_cons tc). change (in_rng (rng_of tc) ver x) with (in_net tc ver x).
      assert (X1: in_net tc ver x -> ~ den other' ver x).
      { intros It. apply s_below_all_not_den with (a := tc); [intros; eapply Good_head_below; eauto|exact It]. }
      assert (X2: in_net tc ver x -> ~ den (oc :: own') ver x).
      { intros It. apply s_below_all_not_den with (a := tc); [exact (Good_below_all tc oc own' Go B)|exact It]. }
      tauto.
Qed.

(* IPSet.symmetric_difference / __xor__ *)
Theorem set_symdiff_spec : iprange_to_cidrs_spec -> forall a b, SetInv a -> SetInv b ->
  exists r, set_symdiff a b = Ok r /\ SetInv r /\
    forall ver x, den r ver x <-> (den a ver x /\ ~ den b ver x) \/ (den b ver x /\ ~ den a ver x).
Proof.
  intros Spec a b Ia Ib. unfold set_symdiff.
  pose proof (s_sorted_good a Ia) as Ga. pose proof (s_sorted_good b Ib) as Gb.
  destruct (symdiff_loop_spec (length a + length b + 1) (sorted a) (sorted b) [] Ga Gb) as (G & HG & F & S & M & D).
  { rewrite !s_sorted_length. lia. }
  cbn [app] in HG. rewrite HG. cbn [bind].
  destruct (iter_merged_ranges_spec G (conj F S)) as (Sep & Dm).
  destruct (cidrs_of_ranges_spec Spec _ Sep) as (cs & Ec & Gc & _ & Dc & Nc).
  rewrite Ec. cbn [bind]. rewrite (s_fold_dset_nil cs Gc).
  exists cs. split; [reflexivity|]. split; [apply s_good_SetInv; assumption|].
  intros ver x. rewrite Dc, Dm, D, !s_sorted_den. tauto.
Qed.
