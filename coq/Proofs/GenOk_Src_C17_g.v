(* Proofs/GenOk_Src_C17_g.v -- source tie for C17, tag SRCG: IPGlob.__repr__ (Gen/pysrc_globg_gen.v), the text around what the
   translated glob getter answers (the same value __str__ prints; AttributeError while the slot is unset). *)
From Coq Require Import String Ascii.
From NV Require Import Base.Tac Base.PyVal Base.PyStr Model.Ip Model.SrcPrelude Model.SrcPreludeGlob Gen.pysrc_glob_gen Gen.pysrc_globg_gen.
Import ListNotations.
Open Scope Z_scope.

Lemma C17_tie_g_ok : forall s e g,
  src_IPGlob_repr s e g = omap (fun t => "IPGlob('" ++ t ++ "')")%string (src_IPGlob_get_glob s e g).
Proof. intros. reflexivity. Qed.
