(* Proofs/C06_final.v — closes the C06 history theorems: the three operator specifications that Proofs/C06_inst.v
   still assumed are discharged with the C07 sweep theorems (Proofs/C07_sweeps_closed.v). *)
From NV Require Import Base.PyVal Model.Ip Model.Sets Proofs.NetDen Proofs.C06_inv Proofs.C06_bulk Proofs.C07_sweeps_closed.
From NV Require Proofs.C06_inst.
From Coq Require Import List ZArith.

Lemma inter_spec_holds : inter_spec.
Proof. exact set_intersection_den. Qed.
Lemma diff_spec_holds : diff_spec.
Proof. exact set_difference_closed. Qed.
Lemma xor_spec_holds : xor_spec.
Proof. exact set_symdiff_closed. Qed.

Definition C06_step_closed := C06_inst.C06_step_inst inter_spec_holds diff_spec_holds xor_spec_holds.
Definition C06_reachable_closed := C06_inst.C06_reachable_inst inter_spec_holds diff_spec_holds xor_spec_holds.
Definition C06_reachable_shown_closed := C06_inst.C06_reachable_shown_inst inter_spec_holds diff_spec_holds xor_spec_holds.
