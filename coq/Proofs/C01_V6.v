(* Proofs/C01_V6.v — IPv6 text: the standard parser reads back everything the printers emit. *)
From Coq Require Import String Ascii.
From NV Require Import Base.Tac Base.PyVal Base.PyStr Base.PyStrFacts Model.IpText Model.FbSocket Proofs.C01_Chars.
Open Scope Z_scope.

Definition word (w : Z) : Prop := 0 <= w < 65536.
Definition octetP (a : Z) : Prop := 0 <= a < 256.

(* ---------------------------------------------------------------- dotted quads *)
Lemma ntoa_chars_4 a b c d : Std4.ntoa_chars [a; b; c; d] = D a ++ ch_dot :: D b ++ ch_dot :: D c ++ ch_dot :: D d.
Proof. reflexivity. Qed.

Lemma pton4_ntoa a b c d : octetP a -> octetP b -> octetP c -> octetP d ->
  Std4.pton4_chars (Std4.ntoa_chars [a; b; c; d]) = Some [a; b; c; d].
Proof. unfold octetP. intros Ha Hb Hc Hd. unfold Std4.pton4_chars, Std4.ntoa_chars.
  rewrite split_chars_join; [|discriminate|].
  - cbn [map List.length Nat.eqb]. cbn [map_opt]. fold (D a) (D b) (D c) (D d). rewrite !octet_D by assumption. reflexivity.
  - cbn [map]. fold (D a) (D b) (D c) (D d). repeat constructor; apply D_no_dot; lia. Qed.

Lemma ntoa_has_dot a b c d : existsb (ascii_eqb ch_dot) (Std4.ntoa_chars [a; b; c; d]) = true.
Proof. rewrite ntoa_chars_4. rewrite existsb_app. cbn [existsb]. rewrite ascii_eqb_refl. cbn. apply orb_true_r. Qed.

Lemma ntoa_no_colon a b c d : 0 <= a -> 0 <= b -> 0 <= c -> 0 <= d ->
  existsb (ascii_eqb ch_colon) (Std4.ntoa_chars [a; b; c; d]) = false.
Proof. intros. rewrite ntoa_chars_4. rewrite !existsb_app. cbn [existsb]. rewrite !existsb_app. cbn [existsb].
  rewrite !existsb_app. cbn [existsb]. rewrite !D_no_colon by lia. reflexivity. Qed.

Lemma ntoa_nonempty a b c d : Std4.ntoa_chars [a; b; c; d] <> [].
Proof. rewrite ntoa_chars_4. destruct (D a); discriminate. Qed.

(* ---------------------------------------------------------------- groups of printed tokens *)
Section Tok.
Variable f : Z -> list ascii.
Hypothesis f_hextet : forall w, word w -> Std6.hextet (f w) = Some w.
Hypothesis f_no_dot : forall w, word w -> existsb (ascii_eqb ch_dot) (f w) = false.
Hypothesis f_no_colon : forall w, word w -> existsb (ascii_eqb ch_colon) (f w) = false.
Hypothesis f_nonempty : forall w, word w -> f w <> [].

Lemma f_good ws : Forall word ws -> Forall good_tok (map f ws).
Proof. intros H. induction H; cbn [map]; constructor; auto. split; auto. Qed.

Lemma hextets_map ws : Forall word ws -> map_opt Std6.hextet (map f ws) = Some ws.
Proof. intros H. apply map_opt_map. intros w Hw. apply f_hextet. eapply Forall_forall; eauto. Qed.

Lemma groups_tail_map ws : Forall word ws -> Std6.groups_tail (map f ws) = Some ws.
Proof. induction 1 as [|w ws Hw HF IH]; [reflexivity|]. cbn [map Std6.groups_tail].
  destruct (map f ws) as [|t r] eqn:E.
  - destruct ws; [|discriminate]. rewrite f_no_dot, f_hextet by assumption. reflexivity.
  - rewrite f_hextet by assumption. rewrite IH. reflexivity. Qed.

Lemma groups_tail_quad ws a b c d : Forall word ws -> octetP a -> octetP b -> octetP c -> octetP d ->
  Std6.groups_tail (map f ws ++ [Std4.ntoa_chars [a; b; c; d]]) = Some (ws ++ [a * 256 + b; c * 256 + d]).
Proof. intros HF Ha Hb Hc Hd. induction HF as [|w ws Hw HF IH].
  - cbn [map app Std6.groups_tail]. rewrite ntoa_has_dot, pton4_ntoa by assumption. reflexivity.
  - cbn [map app Std6.groups_tail].
    destruct (map f ws ++ [Std4.ntoa_chars [a; b; c; d]]) as [|t r] eqn:E.
    + destruct (map f ws); discriminate.
    + rewrite f_hextet by assumption. rewrite IH. reflexivity. Qed.

(* ---- the three printed shapes are read back *)
Lemma pton6_plain ws : Forall word ws -> List.length ws = 8%nat ->
  Std6.pton6_chars (Std6.join_colon (map f ws)) = Some ws.
Proof. intros HF L. unfold Std6.pton6_chars.
  rewrite (split_dc_no_dc _ []) by (apply join_colon_no_dc, f_good, HF). cbn [rev app].
  rewrite split_colon_join; [|destruct ws; [discriminate L|discriminate]|apply f_good, HF].
  rewrite groups_tail_map by exact HF. rewrite L. reflexivity. Qed.

Lemma pton6_plain_quad ws a b c d : Forall word ws -> List.length ws = 6%nat ->
  octetP a -> octetP b -> octetP c -> octetP d ->
  Std6.pton6_chars (Std6.join_colon (map f ws ++ [Std4.ntoa_chars [a; b; c; d]])) = Some (ws ++ [a * 256 + b; c * 256 + d]).
Proof. intros HF L Ha Hb Hc Hd. unfold Std6.pton6_chars.
  assert (G : Forall good_tok (map f ws ++ [Std4.ntoa_chars [a; b; c; d]])).
  { apply Forall_app. split; [apply f_good, HF|]. constructor; [|constructor]. split; [apply ntoa_nonempty|].
    unfold octetP in *. apply ntoa_no_colon; lia. }
  rewrite (split_dc_no_dc _ []) by (apply join_colon_no_dc, G). cbn [rev app].
  rewrite split_colon_join; [|destruct (map f ws); discriminate|exact G].
  rewrite groups_tail_quad by assumption. rewrite app_length, L. reflexivity. Qed.

Lemma pton6_dc pre post : Forall word pre -> Forall word post -> (List.length pre + List.length post <= 7)%nat ->
  Std6.pton6_chars (Std6.join_colon (map f pre) ++ Std6.dcolon ++ Std6.join_colon (map f post)) =
  Some (pre ++ Std6.zeros (8 - (List.length pre + List.length post)) ++ post).
Proof. intros Hp Hq L. unfold Std6.pton6_chars.
  rewrite split_dc_mid; [|apply join_colon_no_dc, f_good, Hp|apply join_colon_last', f_good, Hp
                         |apply join_colon_no_dc, f_good, Hq|apply join_colon_first', f_good, Hq].
  cbn [rev app]. rewrite !colon_toks_join by (apply f_good; assumption).
  rewrite hextets_map, groups_tail_map by assumption.
  apply Nat.leb_le in L. rewrite L. reflexivity. Qed.

Lemma pton6_dc_quad pre post a b c d : Forall word pre -> Forall word post ->
  (List.length pre + List.length post <= 5)%nat -> octetP a -> octetP b -> octetP c -> octetP d ->
  Std6.pton6_chars (Std6.join_colon (map f pre) ++ Std6.dcolon ++
                    Std6.join_colon (map f post ++ [Std4.ntoa_chars [a; b; c; d]])) =
  Some (pre ++ Std6.zeros (6 - (List.length pre + List.length post)) ++ post ++ [a * 256 + b; c * 256 + d]).
Proof. intros Hp Hq L Ha Hb Hc Hd. unfold Std6.pton6_chars.
  assert (G : Forall good_tok (map f post ++ [Std4.ntoa_chars [a; b; c; d]])).
  { apply Forall_app. split; [apply f_good, Hq|]. constructor; [|constructor]. split; [apply ntoa_nonempty|].
    unfold octetP in *. apply ntoa_no_colon; lia. }
  rewrite split_dc_mid; [|apply join_colon_no_dc, f_good, Hp|apply join_colon_last', f_good, Hp
                         |apply join_colon_no_dc, G|apply join_colon_first', G].
  cbn [rev app]. rewrite colon_toks_join by (apply f_good; assumption). rewrite colon_toks_join by exact G.
  rewrite hextets_map, groups_tail_quad by assumption.
  rewrite app_length. cbn [List.length].
  assert (E : Nat.leb (List.length pre + (List.length post + 2)) 7 = true) by (apply Nat.leb_le; lia).
  rewrite E. f_equal. f_equal. f_equal. f_equal. lia. Qed.
End Tok.

(* instances *)
Lemma T_word_hextet w : word w -> Std6.hextet (T w) = Some w. Proof. apply hextet_T. Qed.
Lemma T4_word_hextet w : word w -> Std6.hextet (T4 w) = Some w. Proof. apply hextet_T4. Qed.
Lemma T_word_no_dot w : word w -> existsb (ascii_eqb ch_dot) (T w) = false. Proof. intros [? ?]. now apply T_no_dot. Qed.
Lemma T_word_no_colon w : word w -> existsb (ascii_eqb ch_colon) (T w) = false. Proof. intros [? ?]. now apply T_no_colon. Qed.
Lemma T4_word_no_dot w : word w -> existsb (ascii_eqb ch_dot) (T4 w) = false. Proof. intros [? ?]. now apply T4_no_dot. Qed.
Lemma T4_word_no_colon w : word w -> existsb (ascii_eqb ch_colon) (T4 w) = false. Proof. intros [? ?]. now apply T4_no_colon. Qed.
Lemma T_word_nonempty w : word w -> T w <> []. Proof. intros _. apply T_nonempty. Qed.
Lemma T4_word_nonempty w : word w -> T4 w <> [].
Proof. intros Hw E. pose proof (T4_length w Hw) as L. rewrite E in L. discriminate. Qed.

(* ---------------------------------------------------------------- which zero run is compressed *)
Fixpoint all_pats (n : nat) : list (list bool) :=
  match n with O => [[]] | S k => flat_map (fun p => [true :: p; false :: p]) (all_pats k) end.

Lemma all_pats_complete p : In p (all_pats (List.length p)).
Proof. induction p as [|b p IH]; [left; reflexivity|]. cbn [List.length all_pats]. apply in_flat_map.
  exists p. split; [exact IH|]. destruct b; [left|right; left]; reflexivity. Qed.

Definition run_ok (pat : list bool) : bool :=
  match Std6.best_run pat with
  | None => true
  | Some (b, n) => Nat.leb (b + n) (List.length pat) && Nat.leb 2 n && forallb (fun x => x) (firstn n (skipn b pat))
  end.

Lemma run_ok_8 : forallb run_ok (all_pats 8) = true.
Proof. vm_compute. reflexivity. Qed.

Lemma zeros_of_pattern ws : forallb (fun x => x) (Std6.zero_pattern ws) = true -> ws = Std6.zeros (List.length ws).
Proof. induction ws as [|w ws IH]; [reflexivity|]. cbn [Std6.zero_pattern map forallb List.length Std6.zeros].
  intros H. apply andb_true_iff in H. destruct H as [H1 H2]. apply Z.eqb_eq in H1. subst w. f_equal. now apply IH. Qed.

Lemma zero_pattern_firstn n ws : firstn n (Std6.zero_pattern ws) = Std6.zero_pattern (firstn n ws).
Proof. unfold Std6.zero_pattern. apply firstn_map. Qed.
Lemma zero_pattern_skipn n ws : skipn n (Std6.zero_pattern ws) = Std6.zero_pattern (skipn n ws).
Proof. unfold Std6.zero_pattern. apply skipn_map. Qed.

Lemma skipn_skipn' {A} n m (l : list A) : skipn n (skipn m l) = skipn (m + n) l.
Proof. revert l. induction m as [|m IH]; intros l; [reflexivity|]. destruct l; [now rewrite !skipn_nil|]. cbn. apply IH. Qed.

Lemma best_run_split ws b n : List.length ws = 8%nat -> Std6.best_run (Std6.zero_pattern ws) = Some (b, n) ->
  (b + n <= 8)%nat /\ (2 <= n)%nat /\ ws = firstn b ws ++ Std6.zeros n ++ skipn (b + n) ws.
Proof. intros L E.
  assert (P : In (Std6.zero_pattern ws) (all_pats 8)).
  { replace 8%nat with (List.length (Std6.zero_pattern ws)); [apply all_pats_complete|].
    unfold Std6.zero_pattern. now rewrite map_length. }
  pose proof run_ok_8 as R. rewrite forallb_forall in R. specialize (R _ P). unfold run_ok in R. rewrite E in R.
  apply andb_true_iff in R. destruct R as [R R3]. apply andb_true_iff in R. destruct R as [R1 R2].
  apply Nat.leb_le in R1, R2. unfold Std6.zero_pattern in R1. rewrite map_length, L in R1.
  split; [exact R1|]. split; [exact R2|].
  rewrite zero_pattern_skipn, zero_pattern_firstn in R3. apply zeros_of_pattern in R3.
  rewrite firstn_length, skipn_length, L in R3. replace (Nat.min n (8 - b)) with n in R3 by lia.
  rewrite <- R3. rewrite <- (firstn_skipn b ws) at 1. f_equal.
  rewrite <- (firstn_skipn n (skipn b ws)) at 1. f_equal. now rewrite skipn_skipn'. Qed.

(* ---------------------------------------------------------------- ntop6 is read back *)
Lemma Forall_firstn {A} (P : A -> Prop) n l : Forall P l -> Forall P (firstn n l).
Proof. revert l. induction n; intros l H; [constructor|]. destruct l; [constructor|]. inversion H; subst. cbn. constructor; auto. Qed.
Lemma Forall_skipn {A} (P : A -> Prop) n l : Forall P l -> Forall P (skipn n l).
Proof. revert l. induction n; intros l H; [exact H|]. destruct l; [constructor|]. inversion H; subst. cbn. auto. Qed.

Lemma zeros_length n : List.length (Std6.zeros n) = n.
Proof. induction n; cbn; auto. Qed.

(* the shape of the words when the dotted tail is used *)
Lemma dotted_shape w0 w1 w2 w3 w4 w5 w6 w7 :
  word w0 -> word w1 -> word w2 -> word w3 -> word w4 -> word w5 -> word w6 -> word w7 ->
  Std6.dotted_form [w0; w1; w2; w3; w4; w5; w6; w7] = true ->
  w0 = 0 /\ w1 = 0 /\ w2 = 0 /\ w3 = 0 /\ w4 = 0 /\ ((w5 = 0 /\ w6 <> 0) \/ w5 = 65535).
Proof. unfold word, Std6.dotted_form, Std6.words_value. cbn [fold_left]. intros.
  apply orb_true_iff in H7. destruct H7 as [H7|H7].
  - apply andb_true_iff in H7. destruct H7 as [A B]. apply Z.ltb_lt in A. apply Z.leb_le in B. lia.
  - apply Z.eqb_eq in H7.
    assert (E : (((((((0 * 65536 + w0) * 65536 + w1) * 65536 + w2) * 65536 + w3) * 65536 + w4) * 65536 + w5) * 65536 + w6) * 65536 + w7
                = (((((w0 * 65536 + w1) * 65536 + w2) * 65536 + w3) * 65536 + w4) * 65536 + w5) * 4294967296 + (w6 * 65536 + w7)) by lia.
    rewrite E in H7. rewrite Z.div_add_l in H7 by lia. rewrite Z.div_small in H7 by lia. lia. Qed.

Lemma tail_octets_eq w0 w1 w2 w3 w4 w5 w6 w7 :
  Std6.tail_octets [w0; w1; w2; w3; w4; w5; w6; w7] = [w6 / 256; w6 mod 256; w7 / 256; w7 mod 256].
Proof. reflexivity. Qed.

Lemma word_octets w : word w -> octetP (w / 256) /\ octetP (w mod 256) /\ (w / 256) * 256 + w mod 256 = w.
Proof. unfold word, octetP. intros. lia_dm. Qed.

Lemma length8 {A} (l : list A) : List.length l = 8%nat -> exists a b c d e f g h, l = [a; b; c; d; e; f; g; h].
Proof. intros L. do 8 (destruct l as [|? l]; [discriminate|]). destruct l; [|discriminate]. repeat eexists. Qed.

Lemma is_zero_cases w : word w -> (w = 0 /\ (0 =? w) = true) \/ (w <> 0 /\ (0 =? w) = false).
Proof. intros _. case_eqb 0 w; [left|right]; split; auto. Qed.

Theorem pton6_ntop6 ws : Forall word ws -> List.length ws = 8%nat ->
  Std6.pton6_chars (Std6.ntop6_chars ws) = Some ws.
Proof. intros HF L. unfold Std6.ntop6_chars.
  destruct (Std6.dotted_form ws) eqn:DF.
  - (* dotted tail: explicit shapes *)
    destruct (length8 ws L) as (w0 & w1 & w2 & w3 & w4 & w5 & w6 & w7 & ->).
    repeat match goal with H : Forall _ (_ :: _) |- _ => inversion H; clear H; subst end.
    match goal with H : Forall _ [] |- _ => clear H end.
    destruct (dotted_shape w0 w1 w2 w3 w4 w5 w6 w7) as (-> & -> & -> & -> & -> & S); auto.
    rewrite tail_octets_eq.
    destruct (word_octets w6) as (O1 & O2 & O3); auto. destruct (word_octets w7) as (O4 & O5 & O6); auto.
    destruct S as [[-> N6] | ->].
    + destruct (is_zero_cases w6) as [[? _]|[_ Z6]]; [assumption|congruence|].
      destruct (is_zero_cases w7) as [[-> Z7]|[_ Z7]]; [assumption| |];
      unfold Std6.zero_pattern; cbn [map firstn]; rewrite Z6, ?Z7; cbn [Z.eqb];
      change (Std6.best_run _) with (Some (0%nat, 6%nat));
      cbn [firstn skipn app Nat.add];
      (pose proof (pton6_dc_quad T T_word_hextet T_word_no_colon T_word_nonempty [] [] _ _ _ _
                     ltac:(constructor) ltac:(constructor) ltac:(cbn; lia) O1 O2 O4 O5) as Q;
       cbn [map app List.length Nat.add Nat.sub Std6.zeros] in Q; unfold T in Q; rewrite Q, ?O3, ?O6; reflexivity).
    + assert (W : word 65535) by (unfold word; lia).
      destruct (is_zero_cases w6) as [[-> Z6]|[_ Z6]]; [assumption| |];
      (destruct (is_zero_cases w7) as [[-> Z7]|[_ Z7]]; [assumption| |]);
      unfold Std6.zero_pattern; cbn [map firstn]; rewrite ?Z6, ?Z7; cbn [Z.eqb];
      change (Std6.best_run _) with (Some (0%nat, 5%nat));
      cbn [firstn skipn app Nat.add];
      (pose proof (pton6_dc_quad T T_word_hextet T_word_no_colon T_word_nonempty [] [65535] _ _ _ _
                     ltac:(constructor) ltac:(repeat constructor; apply W) ltac:(cbn; lia) O1 O2 O4 O5) as Q;
       cbn [map app List.length Nat.add Nat.sub Std6.zeros] in Q; unfold T in Q; rewrite Q, ?O3, ?O6; reflexivity).
  - change (fun w : Z => chars (fmt_x w)) with T.
    destruct (Std6.best_run (Std6.zero_pattern ws)) as [[b n]|] eqn:E.
    + destruct (best_run_split ws b n L E) as (B1 & B2 & S).
      rewrite <- !firstn_map, <- !skipn_map || idtac.
      rewrite firstn_map, skipn_map.
      rewrite (pton6_dc T T_word_hextet T_word_no_dot T_word_no_colon T_word_nonempty);
        [|apply Forall_firstn, HF|apply Forall_skipn, HF|rewrite firstn_length, skipn_length; lia].
      rewrite firstn_length, skipn_length, L.
      replace (8 - (Nat.min b 8 + (8 - (b + n))))%nat with n by lia. now rewrite <- S.
    + apply (pton6_plain T T_word_hextet T_word_no_dot T_word_no_colon T_word_nonempty); assumption. Qed.
