(* Proofs/GenOk_Src_C11.v — source tie for C11: the definitions regenerated from the text of IPNetwork.__iadd__ /
   __isub__ (with the properties network, size, first, last they read) and of the two setters used by subnet() equal the
   hand-written model of Model/Subnet.v.  The Python code reads `int(self.network)`, i.e. it builds an IPAddress from
   the network address first; the model uses the integer directly, so the equality is stated under the hypothesis that
   this constructor call succeeds (its weakest form), and discharged for every well-formed network. *)
From NV Require Import Base.Tac Base.PyVal Base.Bits Model.Ip Model.Subnet Model.SrcPrelude Gen.pysrc_gen
  Proofs.C02 Proofs.GenOk_Src_Const.
Open Scope Z_scope.

Lemma src_net_iadd_ok ver w v p num : mk_addr ver (net_network w v p) = Ok (ver, net_network w v p) ->
  omap (fun nv => (nv, p)) (src_IPNetwork_iadd ver w v p num) = net_iadd w (v, p) num.
Proof.
  intros H. unfold src_IPNetwork_iadd, net_iadd.
  change (src_IPNetwork_network ver w v p) with (mk_addr ver (net_network w v p)). rewrite H. cbn [bind fst snd].
  change (src_IPNetwork_size ver w v p) with (net_size w v p).
  change (src_IPAddress_int ver (width ver) (net_network w v p)) with (net_network w v p). cbv zeta.
  destruct (net_network w v p + net_size w v p * num + (net_size w v p - 1) >? max_int_w w); [reflexivity|].
  destruct (net_network w v p + net_size w v p * num <? 0); reflexivity.
Qed.

Lemma src_net_isub_ok ver w v p num : mk_addr ver (net_network w v p) = Ok (ver, net_network w v p) ->
  omap (fun nv => (nv, p)) (src_IPNetwork_isub ver w v p num) = net_isub w (v, p) num.
Proof.
  intros H. unfold src_IPNetwork_isub, net_isub.
  change (src_IPNetwork_network ver w v p) with (mk_addr ver (net_network w v p)). rewrite H. cbn [bind fst snd].
  change (src_IPNetwork_size ver w v p) with (net_size w v p).
  change (src_IPAddress_int ver (width ver) (net_network w v p)) with (net_network w v p). cbv zeta.
  destruct (net_network w v p - net_size w v p * num <? 0); [reflexivity|].
  destruct (net_network w v p - net_size w v p * num + (net_size w v p - 1) >? max_int_w w); reflexivity.
Qed.

Lemma network_ctor_ok ver v p : valid_ver ver = true -> 0 <= p <= width ver -> 0 <= v < 2 ^ width ver ->
  mk_addr ver (net_network (width ver) v p) = Ok (ver, net_network (width ver) v p).
Proof.
  intros Hver Hp Hv. apply mk_addr_ok; [exact Hver|]. apply in_range_w_iff.
  pose proof (identities_w (width ver) v p Hp Hv) as I. cbn zeta in I. lia.
Qed.

Lemma src_set_value_w_ok ver w n z :
  omap (fun x => (x, snd n)) (src_BaseIP_set_value ver w (fst n) (SInt z)) = set_value_w w n z.
Proof. unfold src_BaseIP_set_value, set_value_w. destruct (negb ((0 <=? z) && (z <=? max_int_w w))); reflexivity. Qed.
Lemma src_set_prefixlen_w_ok ver w n z :
  omap (fun x => (fst n, x)) (src_IPNetwork_set_prefixlen ver w (fst n) (snd n) (SInt z)) = set_prefixlen_w w n z.
Proof. unfold src_IPNetwork_set_prefixlen, set_prefixlen_w. destruct (negb ((0 <=? z) && (z <=? w))); reflexivity. Qed.

Lemma C11_tie_ok :
  (forall ver w v p num, mk_addr ver (net_network w v p) = Ok (ver, net_network w v p) ->
     omap (fun nv => (nv, p)) (src_IPNetwork_iadd ver w v p num) = net_iadd w (v, p) num /\
     omap (fun nv => (nv, p)) (src_IPNetwork_isub ver w v p num) = net_isub w (v, p) num) /\
  (forall ver v p num, valid_ver ver = true -> 0 <= p <= width ver -> 0 <= v < 2 ^ width ver ->
     omap (fun nv => (nv, p)) (src_IPNetwork_iadd ver (width ver) v p num) = net_iadd (width ver) (v, p) num /\
     omap (fun nv => (nv, p)) (src_IPNetwork_isub ver (width ver) v p num) = net_isub (width ver) (v, p) num) /\
  (forall ver w v p,
     src_IPNetwork_network ver w v p = mk_addr ver (net_network w v p) /\
     src_IPNetwork_size ver w v p = net_size w v p /\
     src_IPNetwork_first ver w v p = net_first w v p /\
     src_IPNetwork_last ver w v p = net_last w v p) /\
  (forall ver w n z,
     omap (fun x => (x, snd n)) (src_BaseIP_set_value ver w (fst n) (SInt z)) = set_value_w w n z /\
     omap (fun x => (fst n, x)) (src_IPNetwork_set_prefixlen ver w (fst n) (snd n) (SInt z)) = set_prefixlen_w w n z) /\
  (src_ipv4_version = 4 /\ src_ipv6_version = 6 /\
   src_ipv4_width = width src_ipv4_version /\ src_ipv6_width = width src_ipv6_version /\
   src_ipv4_max_int = max_int_w src_ipv4_width /\ src_ipv6_max_int = max_int_w src_ipv6_width /\
   src_ipv4_max_int = max_int 4 /\ src_ipv6_max_int = max_int 6).
Proof.
  split; [intros; split; [apply src_net_iadd_ok|apply src_net_isub_ok]; assumption|].
  split; [intros ver v p num Hver Hp Hv; pose proof (network_ctor_ok ver v p Hver Hp Hv);
          split; [apply src_net_iadd_ok|apply src_net_isub_ok]; assumption|].
  split; [intros; repeat split; reflexivity|].
  split; [intros; split; [apply src_set_value_w_ok|apply src_set_prefixlen_w_ok]|exact src_consts_ok].
Qed.
