(* Proofs/GenOk_Src_C11.v — source tie for C11: the definitions regenerated from the text of IPNetwork.__iadd__ /
   __isub__ (with the properties network, size, first, last they read) and of the two setters used by subnet() equal the
   hand-written model of Model/Subnet.v.  The Python code reads `int(self.network)`, i.e. it builds an IPAddress from
   the network address first; the model uses the integer directly, so the equality is stated under the hypothesis that
   this constructor call succeeds (its weakest form), and discharged for every well-formed network. *)
From NV Require Import Base.Tac Base.PyVal Base.Bits Model.Ip Model.Subnet Model.SrcPrelude Gen.pysrc_gen
  Proofs.C02 Proofs.GenOk_Src_Const.
Open Scope Z_scope.

Lemma src_net_iadd_ok ver w v p num : mk_addr ver (net_network w v p) = Ok (ver, net_network w v p) ->
  omap (fun nv => (nv, p)) (src_IPNetwork_iadd ver w v p num) = net_iadd w (v, p) num.
Proof.
  intros H. unfold src_IPNetwork_iadd, net_iadd.
  change (src_IPNetwork_network ver w v p) with (mk_addr ver (net_network w v p)). rewrite H. cbn [bind fst snd].
  change (src_IPNetwork_size ver w v p) with (net_size w v p).
  change (src_IPAddress_int ver (width ver) (net_network w v p)) with (net_network w v p). cbv zeta.
  destruct (net_network w v p + net_size w v p * num + (net_size w v p - 1) >? max_int_w w); [reflexivity|].
  destruct (net_network w v p + net_size w v p * num <? 0); reflexivity.
Qed.

Lemma src_net_isub_ok ver w v p num : mk_addr ver (net_network w v p) = Ok (ver, net_network w v p) ->
  omap (fun nv => (nv, p)) (src_IPNetwork_isub ver w v p num) = net_isub w (v, p) num.
Proof.
  intros H. unfold src_IPNetwork_isub, net_isub.
  change (src_IPNetwork_network ver w v p) with (mk_addr ver (net_network w v p)). rewrite H. cbn [bind fst snd].
  change (src_IPNetwork_size ver w v p) with (net_size w v p).
  change (src_IPAddress_int ver (width ver) (net_network w v p)) with (net_network w v p). cbv zeta.
  destruct (net_network w v p - net_size w v p * num <? 0); [reflexivity|].
  destruct (net_network w v p - net_size w v p * num + (net_size w v p - 1) >? max_int_w w); reflexivity.
Qed.

Lemma network_ctor_ok ver v p : valid_ver ver = true -> 0 <= p <= width ver -> 0 <= v < 2 ^ width ver ->
  mk_addr ver (net_network (width ver) v p) = Ok (ver, net_network (width ver) v p).
Proof.
  intros Hver Hp Hv. apply mk_addr_ok; [exact Hver|]. apply in_range_w_iff.
  pose proof (identities_w (width ver) v p Hp Hv) as I. cbn zeta in I. lia.
Qed.

Lemma src_set_value_w_ok ver w n z :
  omap (fun x => (x, snd n)) (src_BaseIP_set_value ver w (fst n) (SInt z)) = set_value_w w n z.
Proof. unfold src_BaseIP_set_value, set_value_w. destruct (negb ((0 <=? z) && (z <=? max_int_w w))); reflexivity. Qed.
Lemma src_set_prefixlen_w_ok ver w n z :
  omap (fun x => (fst n, x)) (src_IPNetwork_set_prefixlen ver w (fst n) (snd n) (SInt z)) = set_prefixlen_w w n z.
Proof. unfold src_IPNetwork_set_prefixlen, set_prefixlen_w. destruct (negb ((0 <=? z) && (z <=? w))); reflexivity. Qed.

(* ---- IPNetwork.supernet: `supernet = self.cidr; supernet._prefixlen = prefixlen; while supernet._prefixlen != self._prefixlen:
   supernets.append(supernet.cidr); supernet._prefixlen += 1`.  The attribute assignments on the local copy are record
   updates of a generated `net` value; the `while` loop is a generated Fixpoint on fuel (`Z.to_nat w + 2`, FUEL table) that
   accumulates with `++ [x]` where the model conses onto the recursive result.  Because _prefixlen is assigned directly (no
   setter), the generated loop tests the class invariant 0 <= prefixlen <= width before it reads `.cidr` (whose translation
   relies on it) and says `Raise Unsupported` where it fails; the model says ValueError there (CPython's negative shift count).
   Hence the hypotheses prefixlen <= p <= width: the loop then stops at p without leaving the invariant. ---- *)
Definition wnet_net (ver : Z) (n : wnet) : net := {| nver := ver; nval := fst n; nplen := snd n |}.

Lemma src_cidr_checked_ok ver v p : valid_ver ver = true -> p <= width ver ->
  src_IPNetwork_cidr ver (width ver) v p = omap (wnet_net ver) (cidr_checked (width ver) (v, p)).
Proof.
  intros Hv Hp. unfold cidr_checked. replace (width ver - p <? 0) with false by lia.
  change (src_IPNetwork_cidr ver (width ver) v p) with (mk_net ver (Z.land v (netmask_int (width ver) p)) p).
  unfold mk_net, max_int. rewrite Hv. cbv zeta.
  destruct (negb ((0 <=? Z.land v (netmask_int (width ver) p)) && (Z.land v (netmask_int (width ver) p) <=? max_int_w (width ver))));
    [reflexivity|].
  destruct (negb ((0 <=? p) && (p <=? width ver))); reflexivity.
Qed.

Lemma src_supernet_loop_ok ver v p : valid_ver ver = true -> p <= width ver ->
  forall fuel acc sv r, 0 <= r <= p ->
  src_IPNetwork_supernet_loop1 fuel ver (width ver) v p (map (wnet_net ver) acc) {| nver := ver; nval := sv; nplen := r |} =
    omap (fun rest => map (wnet_net ver) (acc ++ rest)) (supernet_loop fuel (width ver) sv r p).
Proof.
  intros Hv Hp. induction fuel as [|f IH]; intros acc sv r Hr; [reflexivity|].
  cbn [src_IPNetwork_supernet_loop1 supernet_loop nver nval nplen].
  destruct (r =? p) eqn:E; cbn [negb].
  - cbn [omap]. rewrite app_nil_r. reflexivity.
  - replace (negb ((0 <=? r) && (r <=? width ver))) with false by lia.
    rewrite (src_cidr_checked_ok ver sv r Hv) by lia.
    destruct (cidr_checked (width ver) (sv, r)) as [c|]; [|reflexivity]. cbn [omap bind]. cbv zeta.
    change [wnet_net ver c] with (map (wnet_net ver) [c]). rewrite <- map_app.
    rewrite IH by lia.
    destruct (supernet_loop f (width ver) sv (r + 1) p) as [rest|]; [|reflexivity].
    cbn [omap bind]. rewrite <- app_assoc. reflexivity.
Qed.

Lemma src_supernet_ok ver v p prefixlen : valid_ver ver = true -> p <= width ver -> prefixlen <= p ->
  src_IPNetwork_supernet ver (width ver) v p prefixlen = omap (map (wnet_net ver)) (supernet (width ver) (v, p) prefixlen).
Proof.
  intros Hv Hp Hq. unfold src_IPNetwork_supernet, supernet.
  destruct ((0 <=? prefixlen) && (prefixlen <=? width ver)) eqn:E; cbn [negb]; [|reflexivity].
  rewrite (src_cidr_checked_ok ver v p Hv Hp).
  destruct (cidr_checked (width ver) (v, p)) as [[sv p']|]; [|reflexivity]. cbn [omap bind fst snd]. cbv zeta.
  cbn [wnet_net nver nval nplen fst snd].
  change (@nil net) with (map (wnet_net ver) []).
  rewrite (src_supernet_loop_ok ver v p Hv Hp) by lia.
  destruct (supernet_loop (Z.to_nat (width ver) + 2) (width ver) sv prefixlen p) as [l|]; reflexivity.
Qed.

Lemma C11_tie_ok :
  (forall ver v p prefixlen, valid_ver ver = true -> p <= width ver -> prefixlen <= p ->
     src_IPNetwork_supernet ver (width ver) v p prefixlen =
       omap (map (wnet_net ver)) (supernet (width ver) (v, p) prefixlen)) /\
  (forall ver v p, valid_ver ver = true -> p <= width ver -> forall fuel acc sv r, 0 <= r <= p ->
     src_IPNetwork_supernet_loop1 fuel ver (width ver) v p (map (wnet_net ver) acc) {| nver := ver; nval := sv; nplen := r |} =
       omap (fun rest => map (wnet_net ver) (acc ++ rest)) (supernet_loop fuel (width ver) sv r p)) /\
  (forall ver w v p num, mk_addr ver (net_network w v p) = Ok (ver, net_network w v p) ->
     omap (fun nv => (nv, p)) (src_IPNetwork_iadd ver w v p num) = net_iadd w (v, p) num /\
     omap (fun nv => (nv, p)) (src_IPNetwork_isub ver w v p num) = net_isub w (v, p) num) /\
  (forall ver v p num, valid_ver ver = true -> 0 <= p <= width ver -> 0 <= v < 2 ^ width ver ->
     omap (fun nv => (nv, p)) (src_IPNetwork_iadd ver (width ver) v p num) = net_iadd (width ver) (v, p) num /\
     omap (fun nv => (nv, p)) (src_IPNetwork_isub ver (width ver) v p num) = net_isub (width ver) (v, p) num) /\
  (forall ver w v p,
     src_IPNetwork_network ver w v p = mk_addr ver (net_network w v p) /\
     src_IPNetwork_size ver w v p = net_size w v p /\
     src_IPNetwork_first ver w v p = net_first w v p /\
     src_IPNetwork_last ver w v p = net_last w v p) /\
  (forall ver w n z,
     omap (fun x => (x, snd n)) (src_BaseIP_set_value ver w (fst n) (SInt z)) = set_value_w w n z /\
     omap (fun x => (fst n, x)) (src_IPNetwork_set_prefixlen ver w (fst n) (snd n) (SInt z)) = set_prefixlen_w w n z) /\
  (src_ipv4_version = 4 /\ src_ipv6_version = 6 /\
   src_ipv4_width = width src_ipv4_version /\ src_ipv6_width = width src_ipv6_version /\
   src_ipv4_max_int = max_int_w src_ipv4_width /\ src_ipv6_max_int = max_int_w src_ipv6_width /\
   src_ipv4_max_int = max_int 4 /\ src_ipv6_max_int = max_int 6).
Proof.
  split; [exact src_supernet_ok|]. split; [exact src_supernet_loop_ok|].
  split; [intros; split; [apply src_net_iadd_ok|apply src_net_isub_ok]; assumption|].
  split; [intros ver v p num Hver Hp Hv; pose proof (network_ctor_ok ver v p Hver Hp Hv);
          split; [apply src_net_iadd_ok|apply src_net_isub_ok]; assumption|].
  split; [intros; repeat split; reflexivity|].
  split; [intros; split; [apply src_set_value_w_ok|apply src_set_prefixlen_w_ok]|exact src_consts_ok].
Qed.
