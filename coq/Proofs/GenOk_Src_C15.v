(* Proofs/GenOk_Src_C15.v — source tie for C15: the definitions regenerated from the text of valid_words / int_to_words /
   words_to_int of netaddr/strategy/__init__.py (Gen/pysrc_strategy_gen.v: `for i in words` with `return False` inside,
   `for _ in range(num_words)` as a Fixpoint on Z.to_nat num_words, `for i, num in enumerate(reversed(words))` as a Fixpoint
   on rev words that carries the counter, tuple(reversed(words)) = rev, len(words)) equal the hand-written model of
   Model/Codec.v (valid_words as a forallb, words_loop, lor_words).
   A word sequence is a list of ints (`hasattr(words, '__iter__')` is true for it).
   Hypotheses: 0 <= word_size (the generated code guards `2 ** word_size` -- a float in Python for a negative exponent --
   with Raise Unsupported and the shifts `>> word_size`, `<< word_size * i` with CPython's ValueError for a negative count;
   the model has plain 2 ^ word_size and Z.shiftr / Z.shiftl), and for int_to_words also 0 <= num_words (same guard on
   2 ** (num_words * word_size)).  Both hold for every dialect row (Gen/codec_gen.v). *)
From NV Require Import Base.Tac Base.PyVal Model.Ip Model.Codec Model.SrcPrelude Gen.pysrc_strategy_gen.
Import ListNotations.
Open Scope Z_scope.

(* `for i in words: if not 0 <= i <= max_word: return False` = forallb *)
Lemma src_valid_words_loop_ok mw xs :
  src_strategy_valid_words_loop1 mw xs = if forallb (fun i => (0 <=? i) && (i <=? mw)) xs then inr tt else inl false.
Proof.
  induction xs as [|i r IH]; [reflexivity|]. cbn [src_strategy_valid_words_loop1 forallb].
  destruct ((0 <=? i) && (i <=? mw)); [exact IH|reflexivity].
Qed.

Lemma src_valid_words_ok words ws nw : 0 <= ws ->
  src_strategy_valid_words words ws nw = Ok (valid_words words ws nw).
Proof.
  intros H. unfold src_strategy_valid_words, valid_words.
  destruct (negb (Z.of_nat (length words) =? nw)); [reflexivity|].
  replace (ws <? 0) with false by lia. cbv zeta. rewrite src_valid_words_loop_ok.
  destruct (forallb (fun i => (0 <=? i) && (i <=? 2 ^ ws - 1)) words); reflexivity.
Qed.

(* `for _ in range(num_words): word = int_val & max_word; words.append(int(word)); int_val >>= word_size` = words_loop *)
Lemma src_int_to_words_loop_ok mw ws : 0 <= ws -> forall fuel words iv,
  src_strategy_int_to_words_loop1 mw ws fuel words iv = Ok (words ++ words_loop fuel iv mw ws).
Proof.
  intros H. induction fuel as [|f IH]; intros words iv; cbn [src_strategy_int_to_words_loop1 words_loop].
  - rewrite app_nil_r. reflexivity.
  - cbv zeta. replace (ws <? 0) with false by lia. rewrite IH, <- app_assoc. reflexivity.
Qed.

Lemma src_int_to_words_ok iv ws nw : 0 <= ws -> 0 <= nw ->
  src_strategy_int_to_words iv ws nw = int_to_words iv ws nw.
Proof.
  intros H1 H2. unfold src_strategy_int_to_words, int_to_words.
  replace (nw * ws <? 0) with false by nia. cbv zeta.
  destruct (negb ((0 <=? iv) && (iv <=? 2 ^ (nw * ws) - 1))); [reflexivity|].
  replace (ws <? 0) with false by lia. rewrite (src_int_to_words_loop_ok _ _ H1). reflexivity.
Qed.

(* `for i, num in enumerate(reversed(words)): word = num << word_size * i; int_val |= word` = lor_words *)
Lemma src_words_to_int_loop_ok ws : 0 <= ws -> forall xs i iv, 0 <= i ->
  src_strategy_words_to_int_loop1 ws xs i iv = Ok (lor_words xs i ws iv).
Proof.
  intros H. induction xs as [|num r IH]; intros i iv Hi; [reflexivity|].
  cbn [src_strategy_words_to_int_loop1 lor_words]. cbv zeta. replace (ws * i <? 0) with false by nia.
  apply IH. lia.
Qed.

Lemma src_words_to_int_ok words ws nw : 0 <= ws ->
  src_strategy_words_to_int words ws nw = words_to_int words ws nw.
Proof.
  intros H. unfold src_strategy_words_to_int, words_to_int. rewrite (src_valid_words_ok _ _ _ H). cbn [bind].
  destruct (negb (valid_words words ws nw)); [reflexivity|]. cbv zeta.
  rewrite (src_words_to_int_loop_ok _ H) by lia. reflexivity.
Qed.

(* ---------------------------------------------------------------- the bit-string / binary-literal functions *)
From Coq Require Import String Ascii.
From NV Require Import Base.PyStr Model.SrcPreludeStr.

(* BIN_DIGITS.issuperset(s) *)
Lemma forallb_pointwise {A} (f g : A -> bool) l : (forall x, f x = g x) -> forallb f l = forallb g l.
Proof. intros H. induction l as [|x r IH]; [reflexivity|]. cbn [forallb]. rewrite H, IH. reflexivity. Qed.

Lemma chars_in_bin_digits s : py_chars_in ["0"%char; "1"%char] s = all_bin_digits s.
Proof.
  unfold py_chars_in, all_bin_digits. apply forallb_pointwise. intros c. unfold is_bin_digit. cbn [existsb].
  rewrite orb_false_r. reflexivity.
Qed.

(* `if word_sep != '': bits = bits.replace(word_sep, '')` *)
Lemma strip_sep_src word_sep bits :
  (if negb (String.eqb word_sep ""%string) then replace word_sep ""%string bits else bits) = strip_sep word_sep bits.
Proof. unfold strip_sep. destruct (String.eqb word_sep ""%string); reflexivity. Qed.

(* try: if 0 <= int(s, 2) <= max_int: return True / except ValueError: pass; then `return False` *)
Lemma int2_in_range_src s w :
  bind (py_except_pass ValueError
          (bind (py_int_o 2 s) (fun h => if (0 <=? h) && (h <=? 2 ^ w - 1) then Ok (inl true) else Ok (inr tt))))
       (fun h => match h with inl r => Ok r | inr _ => Ok false end) = Ok (int2_in_range s w).
Proof.
  unfold py_int_o, int2_in_range. destruct (py_int 2 s) as [v|]; [|reflexivity]. cbn [bind].
  destruct ((0 <=? v) && (v <=? 2 ^ w - 1)); reflexivity.
Qed.

Lemma str_len_nonneg s : 0 <= str_len s.
Proof. unfold str_len. lia. Qed.

Lemma src_valid_bits_ok bits w sep : src_strategy_valid_bits bits w sep = Ok (valid_bits bits w sep).
Proof.
  unfold src_strategy_valid_bits, valid_bits. rewrite strip_sep_src. cbv zeta. set (b := strip_sep sep bits).
  case_eqb (str_len b) w; cbn [negb]; [|reflexivity]. rewrite chars_in_bin_digits.
  destruct (negb (all_bin_digits b)); [reflexivity|].
  pose proof (str_len_nonneg b). replace (w <? 0) with false by lia. apply int2_in_range_src.
Qed.

Lemma src_bits_to_int_ok bits w sep : src_strategy_bits_to_int bits w sep = bits_to_int bits w sep.
Proof.
  unfold src_strategy_bits_to_int, bits_to_int. rewrite src_valid_bits_ok. cbn [bind].
  destruct (negb (valid_bits bits w sep)); [reflexivity|]. rewrite strip_sep_src. reflexivity.
Qed.

(* valid_bin compares len(bin_val[2:]) > width, which does not bound width from below: 2 ** width is guarded *)
Lemma src_valid_bin_ok s w : 0 <= w -> src_strategy_valid_bin s w = Ok (valid_bin s w).
Proof.
  intros H. unfold src_strategy_valid_bin, valid_bin. destruct (negb (starts_with "0b" s)); [reflexivity|]. cbv zeta.
  change (py_str_from 2 s) with (drop2 s).
  destruct (str_len (drop2 s) >? w); [reflexivity|]. rewrite chars_in_bin_digits.
  destruct (negb (all_bin_digits (drop2 s))); [reflexivity|].
  replace (w <? 0) with false by lia. apply int2_in_range_src.
Qed.

Lemma src_bin_to_int_ok s w : 0 <= w -> src_strategy_bin_to_int s w = bin_to_int s w.
Proof.
  intros H. unfold src_strategy_bin_to_int, bin_to_int. rewrite (src_valid_bin_ok s w H). cbn [bind].
  destruct (negb (valid_bin s w)); reflexivity.
Qed.

Lemma src_int_to_bin_ok v w : src_strategy_int_to_bin v w = int_to_bin v w.
Proof. reflexivity. Qed.

(* everything the C15 source tie states (Props/C15_src.v) *)
Lemma C15_tie_ok :
  (forall words ws nw, 0 <= ws -> src_strategy_valid_words words ws nw = Ok (valid_words words ws nw)) /\
  (forall iv ws nw, 0 <= ws -> 0 <= nw -> src_strategy_int_to_words iv ws nw = int_to_words iv ws nw) /\
  (forall words ws nw, 0 <= ws -> src_strategy_words_to_int words ws nw = words_to_int words ws nw) /\
  (forall mw xs, src_strategy_valid_words_loop1 mw xs = if forallb (fun i => (0 <=? i) && (i <=? mw)) xs then inr tt else inl false) /\
  (forall mw ws, 0 <= ws -> forall fuel words iv,
     src_strategy_int_to_words_loop1 mw ws fuel words iv = Ok (words ++ words_loop fuel iv mw ws)%list) /\
  (forall ws, 0 <= ws -> forall xs i iv, 0 <= i -> src_strategy_words_to_int_loop1 ws xs i iv = Ok (lor_words xs i ws iv)) /\
  (forall bits w sep, src_strategy_valid_bits bits w sep = Ok (valid_bits bits w sep)) /\
  (forall bits w sep, src_strategy_bits_to_int bits w sep = bits_to_int bits w sep) /\
  (forall s w, 0 <= w -> src_strategy_valid_bin s w = Ok (valid_bin s w)) /\
  (forall s w, 0 <= w -> src_strategy_bin_to_int s w = bin_to_int s w) /\
  (forall v w, src_strategy_int_to_bin v w = int_to_bin v w).
Proof.
  split; [exact src_valid_words_ok|]. split; [exact src_int_to_words_ok|]. split; [exact src_words_to_int_ok|].
  split; [exact src_valid_words_loop_ok|]. split; [exact src_int_to_words_loop_ok|]. split; [exact src_words_to_int_loop_ok|].
  split; [exact src_valid_bits_ok|]. split; [exact src_bits_to_int_ok|]. split; [exact src_valid_bin_ok|].
  split; [exact src_bin_to_int_ok|exact src_int_to_bin_ok].
Qed.
