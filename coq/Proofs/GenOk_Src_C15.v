(* Proofs/GenOk_Src_C15.v — source tie for C15: the definitions regenerated from the text of valid_words / int_to_words /
   words_to_int of netaddr/strategy/__init__.py (Gen/pysrc_strategy_gen.v: `for i in words` with `return False` inside,
   `for _ in range(num_words)` as a Fixpoint on Z.to_nat num_words, `for i, num in enumerate(reversed(words))` as a Fixpoint
   on rev words that carries the counter, tuple(reversed(words)) = rev, len(words)) equal the hand-written model of
   Model/Codec.v (valid_words as a forallb, words_loop, lor_words).
   A word sequence is a list of ints (`hasattr(words, '__iter__')` is true for it).
   Hypotheses: 0 <= word_size (the generated code guards `2 ** word_size` -- a float in Python for a negative exponent --
   with Raise Unsupported and the shifts `>> word_size`, `<< word_size * i` with CPython's ValueError for a negative count;
   the model has plain 2 ^ word_size and Z.shiftr / Z.shiftl), and for int_to_words also 0 <= num_words (same guard on
   2 ** (num_words * word_size)).  Both hold for every dialect row (Gen/codec_gen.v). *)
From NV Require Import Base.Tac Base.PyVal Model.Ip Model.Codec Model.SrcPrelude Gen.pysrc_strategy_gen.
Import ListNotations.
Open Scope Z_scope.

(* `for i in words: if not 0 <= i <= max_word: return False` = forallb *)
Lemma src_valid_words_loop_ok mw xs :
  src_strategy_valid_words_loop1 mw xs = if forallb (fun i => (0 <=? i) && (i <=? mw)) xs then inr tt else inl false.
Proof.
  induction xs as [|i r IH]; [reflexivity|]. cbn [src_strategy_valid_words_loop1 forallb].
  destruct ((0 <=? i) && (i <=? mw)); [exact IH|reflexivity].
Qed.

Lemma src_valid_words_ok words ws nw : 0 <= ws ->
  src_strategy_valid_words words ws nw = Ok (valid_words words ws nw).
Proof.
  intros H. unfold src_strategy_valid_words, valid_words.
  destruct (negb (Z.of_nat (length words) =? nw)); [reflexivity|].
  replace (ws <? 0) with false by lia. cbv zeta. rewrite src_valid_words_loop_ok.
  destruct (forallb (fun i => (0 <=? i) && (i <=? 2 ^ ws - 1)) words); reflexivity.
Qed.

(* `for _ in range(num_words): word = int_val & max_word; words.append(int(word)); int_val >>= word_size` = words_loop *)
Lemma src_int_to_words_loop_ok mw ws : 0 <= ws -> forall fuel words iv,
  src_strategy_int_to_words_loop1 mw ws fuel words iv = Ok (words ++ words_loop fuel iv mw ws).
Proof.
  intros H. induction fuel as [|f IH]; intros words iv; cbn [src_strategy_int_to_words_loop1 words_loop].
  - rewrite app_nil_r. reflexivity.
  - cbv zeta. replace (ws <? 0) with false by lia. rewrite IH, <- app_assoc. reflexivity.
Qed.

Lemma src_int_to_words_ok iv ws nw : 0 <= ws -> 0 <= nw ->
  src_strategy_int_to_words iv ws nw = int_to_words iv ws nw.
Proof.
  intros H1 H2. unfold src_strategy_int_to_words, int_to_words.
  replace (nw * ws <? 0) with false by nia. cbv zeta.
  destruct (negb ((0 <=? iv) && (iv <=? 2 ^ (nw * ws) - 1))); [reflexivity|].
  replace (ws <? 0) with false by lia. rewrite (src_int_to_words_loop_ok _ _ H1). reflexivity.
Qed.

(* `for i, num in enumerate(reversed(words)): word = num << word_size * i; int_val |= word` = lor_words *)
Lemma src_words_to_int_loop_ok ws : 0 <= ws -> forall xs i iv, 0 <= i ->
  src_strategy_words_to_int_loop1 ws xs i iv = Ok (lor_words xs i ws iv).
Proof.
  intros H. induction xs as [|num r IH]; intros i iv Hi; [reflexivity|].
  cbn [src_strategy_words_to_int_loop1 lor_words]. cbv zeta. replace (ws * i <? 0) with false by nia.
  apply IH. lia.
Qed.

Lemma src_words_to_int_ok words ws nw : 0 <= ws ->
  src_strategy_words_to_int words ws nw = words_to_int words ws nw.
Proof.
  intros H. unfold src_strategy_words_to_int, words_to_int. rewrite (src_valid_words_ok _ _ _ H). cbn [bind].
  destruct (negb (valid_words words ws nw)); [reflexivity|]. cbv zeta.
  rewrite (src_words_to_int_loop_ok _ H) by lia. reflexivity.
Qed.

(* everything the C15 source tie states (Props/C15_src.v) *)
Lemma C15_tie_ok :
  (forall words ws nw, 0 <= ws -> src_strategy_valid_words words ws nw = Ok (valid_words words ws nw)) /\
  (forall iv ws nw, 0 <= ws -> 0 <= nw -> src_strategy_int_to_words iv ws nw = int_to_words iv ws nw) /\
  (forall words ws nw, 0 <= ws -> src_strategy_words_to_int words ws nw = words_to_int words ws nw) /\
  (forall mw xs, src_strategy_valid_words_loop1 mw xs = if forallb (fun i => (0 <=? i) && (i <=? mw)) xs then inr tt else inl false) /\
  (forall mw ws, 0 <= ws -> forall fuel words iv,
     src_strategy_int_to_words_loop1 mw ws fuel words iv = Ok (words ++ words_loop fuel iv mw ws)) /\
  (forall ws, 0 <= ws -> forall xs i iv, 0 <= i -> src_strategy_words_to_int_loop1 ws xs i iv = Ok (lor_words xs i ws iv)).
Proof.
  split; [exact src_valid_words_ok|]. split; [exact src_int_to_words_ok|]. split; [exact src_words_to_int_ok|].
  split; [exact src_valid_words_loop_ok|]. split; [exact src_int_to_words_loop_ok|exact src_words_to_int_loop_ok].
Qed.
