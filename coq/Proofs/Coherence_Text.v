(* Proofs/Coherence_Text.v — coherence of the model copies, part 5:
     family 9   strict IPv4 text: Glob.pton4 (C17) vs IpText.Std4.pton4 (C01); the dotted-quad printers of AddrText,
                Glob, Conv and Codec; expand_partial_address of Nmap vs NetText
     family 10  word helpers of strategy/__init__.py (int_to_words / words_to_int): Eui (C08) vs Codec (C15) vs
                AddrText (C01), for every word size and count (so in particular at all EUI dialect rows) *)
From Coq Require Import String Ascii.
From NV Require Import Base.Tac Base.PyVal Base.Bits Base.PyStr Base.PyStrFacts Model.Ip.
From NV Require Model.IpText Model.FbSocket Model.AddrText Model.NetText Model.Glob Model.Nmap Model.Conv Model.Codec Model.Eui.
From NV Require Proofs.C01_Chars Proofs.C01_V4 Proofs.C01_Strict6 Proofs.C17_str Proofs.C15.
Open Scope Z_scope.

(* ================================================================ family 9: strict dotted quads *)
(* Python: socket.inet_pton(AF_INET, s) as reached through IPAddress(s, 4, flags=INET_PTON).  One field: *)
Lemma octet_canon_some t v : IpText.Std4.octet t = Some v -> Glob.canon_dec (str_of t) = Some v.
Proof.
  unfold IpText.Std4.octet. destruct t as [|c r]; [discriminate|].
  destruct (forallb IpText.is_dec (c :: r)) eqn:F; [|discriminate]. cbn [andb].
  destruct (Nat.leb _ 3); [|discriminate]. cbn [andb].
  destruct (negb (ascii_eqb c ch_0 && negb (IpText.is_nil r))) eqn:Z; [|discriminate].
  destruct (_ <=? 255); [|discriminate]. intros E. injection E as <-.
  destruct (C01_V4.py_int_dec_token (c :: r) ltac:(discriminate) F) as [P _].
  remember (str_of (c :: r)) as tok eqn:Et.
  assert (E1 : Glob.is_empty tok = false) by (subst tok; reflexivity).
  assert (E2 : existsb (fun c => negb (is_digit c)) (chars tok) = false).
  { subst tok. rewrite chars_str_of. apply C17_str.existsb_nondigit_false. apply C01_Chars.forallb_is_dec. exact F. }
  assert (E3 : match tok with
               | String c0 _ => ascii_eqb c0 ch_0 && negb (String.eqb tok "0")
               | EmptyString => false end = false).
  { subst tok. cbn [str_of]. destruct (ascii_eqb c ch_0) eqn:E0; [|reflexivity]. cbn [andb negb] in *.
    destruct r; [|discriminate]. apply ascii_eqb_eq in E0. subst c. reflexivity. }
  unfold Glob.canon_dec. rewrite E1, E2, E3. exact P.
Qed.

Lemma coh_octet t :
  IpText.Std4.octet (chars t) =
  match Glob.canon_dec t with Some v => if v <=? 255 then Some v else None | None => None end.
Proof.
  destruct (IpText.Std4.octet (chars t)) as [v|] eqn:E.
  - pose proof (C01_Strict6.octet_range _ _ E) as R. apply octet_canon_some in E. rewrite str_of_chars in E.
    rewrite E. replace (v <=? 255) with true by lia. reflexivity.
  - destruct (Glob.canon_dec t) as [v|] eqn:C; [|reflexivity].
    case_leb v 255; [|reflexivity]. exfalso.
    apply C17_str.canon_dec_inv in C. destruct C as [Hv ->].
    fold (C01_Chars.D v) in E. rewrite C01_Chars.octet_D in E by lia. discriminate.
Qed.

(* the whole address: Glob's parser returns the value, the platform oracle the four octets; same strings accepted,
   same number denoted — for EVERY string (no hypothesis) *)
Theorem coh_pton4 s : Glob.pton4 s = option_map Glob.of_octets (IpText.Std4.pton4 s).
Proof.
  unfold Glob.pton4, IpText.Std4.pton4, IpText.Std4.pton4_chars, split.
  change Glob.ch_dot with IpText.ch_dot.
  assert (T : forall t, IpText.Std4.octet t =
            match Glob.canon_dec (str_of t) with Some v => if v <=? 255 then Some v else None | None => None end).
  { intros t. rewrite <- (chars_str_of t) at 1. apply coh_octet. }
  destruct (split_chars IpText.ch_dot (chars s) []) as [|t1 [|t2 [|t3 [|t4 [|t5 r]]]]];
    cbn [List.length Nat.eqb map IpText.map_opt option_map].
  - reflexivity.
  - destruct (Glob.canon_dec (str_of t1)); reflexivity.
  - destruct (Glob.canon_dec (str_of t1)); [|reflexivity]. destruct (Glob.canon_dec (str_of t2)); reflexivity.
  - destruct (Glob.canon_dec (str_of t1)); [|reflexivity]. destruct (Glob.canon_dec (str_of t2)); [|reflexivity].
    destruct (Glob.canon_dec (str_of t3)); reflexivity.
  - rewrite !T.
    destruct (Glob.canon_dec (str_of t1)) as [a|]; [|reflexivity].
    destruct (Glob.canon_dec (str_of t2)) as [b|]; [|destruct (a <=? 255); reflexivity].
    destruct (Glob.canon_dec (str_of t3)) as [c|]; [|destruct (a <=? 255), (b <=? 255); reflexivity].
    destruct (Glob.canon_dec (str_of t4)) as [d|]; [|destruct (a <=? 255), (b <=? 255), (c <=? 255); reflexivity].
    destruct (a <=? 255), (b <=? 255), (c <=? 255), (d <=? 255); reflexivity.
  - destruct (Glob.canon_dec (str_of t1)); [|reflexivity]. destruct (Glob.canon_dec (str_of t2)); [|reflexivity].
    destruct (Glob.canon_dec (str_of t3)); [|reflexivity]. destruct (Glob.canon_dec (str_of t4)); [|reflexivity].
    destruct (Glob.canon_dec (str_of t5)); reflexivity.
Qed.

(* IPAddress(s, 4, flags=INET_PTON): Nmap's spelling (through Glob.pton4) and the C01 constructor of AddrText, on either
   back-end, for every string without '/' (with a '/' the constructor refuses with ValueError before parsing; Nmap
   only calls it on the part before the first '/') *)
Theorem coh_ipaddress4_pton be s : contains_char "/" s = false ->
  Nmap.ipaddress4_pton s = omap snd (AddrText.init_str be s (Some 4) AddrText.INET_PTON).
Proof.
  intros Hs. unfold Nmap.ipaddress4_pton, AddrText.init_str. change (4 =? 4) with true. cbn [bind]. rewrite Hs.
  unfold AddrText.str_to_int. change (4 =? 4) with true. cbv iota.
  unfold AddrText.v4_str_to_int, AddrText.v4_parse.
  change (AddrText.has_flag AddrText.INET_PTON AddrText.ZEROFILL) with false.
  change (AddrText.has_flag AddrText.INET_PTON AddrText.INET_PTON) with true. cbn [bind].
  assert (E : AddrText.inet_pton4 be s = AddrText.of_option (IpText.Std4.pton4 s)).
  { destruct be; [reflexivity|apply C01_V4.fb_pton4_eq]. }
  rewrite E, coh_pton4.
  destruct (IpText.Std4.pton4 s) as [o|] eqn:P; cbn [AddrText.of_option bind option_map omap]; [|reflexivity].
  destruct (C01_Strict6.pton4_chars_shape _ _ P) as (a & b & c & d & -> & _).
  cbn [AddrText.unpack_I]. rewrite C17_str.of_octets4. reflexivity.
Qed.

(* Python: strategy/ipv4.int_to_str — AddrText.v4_int_to_str (C01), Glob.int_to_str4 (C17), and the octets of
   Codec.ipv4_int_to_words (C15) joined with dots; Conv.ipv4_int_to_str keeps only the range check.
   For every integer (no hypothesis). *)
Lemma join4 a b c d : join "." [a; b; c; d] = (a ++ "." ++ b ++ "." ++ c ++ "." ++ d)%string.
Proof.
  unfold join. cbn [map join_chars]. change (chars ".") with ["."%char].
  rewrite <- (str_of_chars (a ++ "." ++ b ++ "." ++ c ++ "." ++ d)). f_equal.
  rewrite !chars_app. reflexivity.
Qed.
Theorem coh_int_to_str4 v :
  Glob.int_to_str4 v = AddrText.v4_int_to_str v /\
  AddrText.v4_int_to_str v = (do ws <- Codec.on_exception ValueError (Codec.ipv4_int_to_words v);
                              Ok (join "." (map fmt_d ws))) /\
  Conv.ipv4_int_to_str v = (do _ <- AddrText.v4_int_to_str v; Ok v).
Proof.
  unfold Glob.int_to_str4, AddrText.v4_int_to_str, Codec.ipv4_int_to_words, Conv.ipv4_int_to_str.
  change (max_int 4) with 4294967295. change (2 ^ 32 - 1) with 4294967295.
  destruct ((0 <=? v) && (v <=? 4294967295)); cbn [negb Codec.on_exception bind map]; [|repeat split].
  rewrite join4. repeat split.
Qed.

(* Python: strategy/ipv4.expand_partial_address (str argument): Nmap's copy and NetText's copy, every string *)
Lemma map_outcome_map_out {A B} (f : A -> outcome B) l : Glob.map_outcome f l = FbSocket.Fb.map_out f l.
Proof. induction l as [|x l IH]; cbn [Glob.map_outcome FbSocket.Fb.map_out]; [reflexivity|]. rewrite IH. reflexivity. Qed.

Theorem coh_expand_partial_address addr : Nmap.expand_partial_address addr = NetText.expand_partial_address addr.
Proof.
  unfold Nmap.expand_partial_address, NetText.expand_partial_address.
  change Nmap.ch_colon with ":"%char. change Glob.ch_dot with "."%char.
  destruct (contains_char ":" addr); [reflexivity|].
  fold NetText.int_token.
  assert (E : Glob.map_outcome NetText.int_token (if contains_char "." addr then split "." addr else [addr]) =
              (if contains_char "." addr then FbSocket.Fb.map_out NetText.int_token (split "." addr)
               else do t <- NetText.int_token addr; Ok [t])).
  { destruct (contains_char "." addr); [apply map_outcome_map_out|].
    cbn [Glob.map_outcome]. destruct (NetText.int_token addr); reflexivity. }
  rewrite E. clear E.
  destruct (if contains_char "." addr then _ else _) as [tokens|e]; cbn [bind]; [|reflexivity].
  unfold Glob.len, NetText.len, NetText.pad_tokens.
  destruct tokens as [|a [|b [|c [|d [|e r]]]]]; cbn [List.length Nat.sub repeat app];
    try reflexivity; try (rewrite join4; reflexivity).
  replace (Z.of_nat (S (S (S (S (S (List.length r))))) ) <=? 4) with false by lia.
  rewrite andb_false_r. reflexivity.
Qed.

(* ================================================================ family 10: word helpers *)
(* Python: strategy.int_to_words (the loop + reversed()) *)
Lemma eui_words_loop n : forall v ws acc,
  Eui.words_loop n v ws acc = (rev (Codec.words_loop n v (2 ^ ws - 1) ws) ++ acc)%list.
Proof.
  induction n as [|k IH]; intros v ws acc; cbn [Eui.words_loop Codec.words_loop rev]; [reflexivity|].
  rewrite IH, <- app_assoc. reflexivity.
Qed.
Lemma addrtext_words_loop n : forall v mw ws words,
  AddrText.int_to_words_loop n v mw ws words = (words ++ Codec.words_loop n v mw ws)%list.
Proof.
  induction n as [|k IH]; intros v mw ws words; cbn [AddrText.int_to_words_loop Codec.words_loop].
  - rewrite app_nil_r. reflexivity.
  - rewrite IH, <- app_assoc. reflexivity.
Qed.

(* Eui refuses negative sizes (2 ** negative is a float); elsewhere the two are the same function *)
Theorem coh_int_to_words v ws nw : 0 <= ws -> 0 <= nw -> Eui.int_to_words v ws nw = Codec.int_to_words v ws nw.
Proof.
  intros Hws Hnw. unfold Eui.int_to_words, Codec.int_to_words.
  case_ltb ws 0; [lia|]. case_ltb nw 0; [lia|]. cbn [orb].
  destruct (negb _); [reflexivity|]. rewrite eui_words_loop, app_nil_r. reflexivity.
Qed.
Theorem coh_int_to_words_addrtext v ws (n : nat) :
  AddrText.int_to_words v ws n = Codec.int_to_words v ws (Z.of_nat n).
Proof.
  unfold AddrText.int_to_words, Codec.int_to_words. rewrite Nat2Z.id.
  destruct (negb _); [reflexivity|]. rewrite addrtext_words_loop. reflexivity.
Qed.

(* Python: strategy.words_to_int *)
Lemma w2i_lor_words rw : forall i ws acc, Eui.w2i_loop rw i ws acc = Codec.lor_words rw i ws acc.
Proof. induction rw as [|x r IH]; intros; cbn [Eui.w2i_loop Codec.lor_words]; [reflexivity|apply IH]. Qed.
Lemma coh_valid_words words ws nw : Eui.valid_words words ws nw = Codec.valid_words words ws nw.
Proof. unfold Eui.valid_words, Codec.valid_words. destruct (_ =? nw); reflexivity. Qed.
Theorem coh_words_to_int words ws nw : 0 <= ws -> Eui.words_to_int words ws nw = Codec.words_to_int words ws nw.
Proof.
  intros Hws. unfold Eui.words_to_int, Codec.words_to_int. case_ltb ws 0; [lia|].
  rewrite coh_valid_words. destruct (negb _); [reflexivity|]. rewrite w2i_lor_words. reflexivity.
Qed.

(* Python: strategy.int_to_bits / BYTES_TO_BITS.  One table entry (256 of them: finite sweep): *)
Lemma byte_bits_sweep :
  forallb (fun n => String.eqb (str_of (Eui.byte_bits (Z.of_nat n))) (str_of (Codec.byte_bits (Z.of_nat n)))) (seq 0 256) = true.
Proof. vm_compute. reflexivity. Qed.
Lemma coh_byte_bits b : 0 <= b < 256 -> Eui.byte_bits b = Codec.byte_bits b.
Proof.
  intros Hb. pose proof byte_bits_sweep as S. rewrite forallb_forall in S.
  specialize (S (Z.to_nat b)). rewrite Z2Nat.id in S by lia.
  assert (I : In (Z.to_nat b) (seq 0 256)) by (apply in_seq; lia).
  apply S, String.eqb_eq in I. rewrite <- (chars_str_of (Eui.byte_bits b)), I. apply chars_str_of.
Qed.

(* the `while word:` loops: Eui conses (bits.reverse() for free), Codec appends and reverses; any fuels that suffice *)
Lemma bits_loops f1 : forall f2 word a2, 0 <= word < 256 ^ Z.of_nat f1 -> word < 256 ^ Z.of_nat f2 ->
  exists bs, Eui.bits_loop f1 word (rev a2) = Some (rev bs) /\ Codec.word_bytes_loop f2 word a2 = Ok bs.
Proof.
  induction f1 as [|k IH]; intros f2 word a2 H1 H2.
  - change (256 ^ Z.of_nat 0) with 1 in H1. assert (word = 0) by lia. subst word. exists a2.
    destruct f2; split; reflexivity.
  - destruct (Z.eq_dec word 0) as [->|Hz].
    + exists a2. destruct f2; split; reflexivity.
    + destruct f2 as [|j]; [change (256 ^ Z.of_nat 0) with 1 in H2; lia|].
      cbn [Eui.bits_loop Codec.word_bytes_loop]. case_eqb word 0; [lia|].
      rewrite !Nat2Z.inj_succ, !Z.pow_succ_r in * by lia.
      assert (R : 0 <= Z.land word 255 < 256).
      { change 255 with (Z.ones 8). rewrite Z.land_ones by lia. apply Z.mod_pos_bound. lia. }
      rewrite (coh_byte_bits _ R).
      destruct (IH j (Z.shiftr word 8) (a2 ++ [Codec.byte_bits (Z.land word 255)])%list) as (bs & E1 & E2).
      * rewrite Z.shiftr_div_pow2 by lia. change (2 ^ 8) with 256. split; [apply Z.div_pos; lia|].
        apply Z.div_lt_upper_bound; lia.
      * rewrite Z.shiftr_div_pow2 by lia. change (2 ^ 8) with 256. apply Z.div_lt_upper_bound; lia.
      * exists bs. rewrite rev_app_distr in E1. cbn [rev app] in E1. split; assumption.
Qed.

Theorem coh_word_bits ws word : 0 < ws -> 0 <= word < 2 ^ ws -> Eui.word_bits ws word = Codec.word_bits ws word.
Proof.
  intros Hws Hw. unfold Eui.word_bits, Codec.word_bits.
  destruct (bits_loops (Z.to_nat (Z.log2 word / 8 + 2)) (Z.to_nat ws + 1) word []) as (bs & E1 & E2).
  - split; [lia|]. rewrite C15.pow2_256.
    destruct (Z.eq_dec word 0) as [->|Hz]; [apply pow2_pos; lia|].
    pose proof (Z.log2_spec word ltac:(lia)) as [_ L]. pose proof (Z.log2_nonneg word).
    eapply Z.lt_le_trans; [exact L|]. replace (Z.succ (Z.log2 word)) with (Z.log2 word + 1) by lia.
    apply pow2_le. lia_dm.
  - rewrite C15.pow2_256. eapply Z.lt_le_trans; [apply Hw|]. apply pow2_le. lia.
  - cbn [rev] in E1. rewrite E1, E2. cbn [bind]. case_eqb ws 0; [lia|].
    change ch_0 with "0"%char. f_equal.
    unfold Codec.last_n, Eui.last_n. destruct (Z.to_nat ws) eqn:En; [lia|].
    destruct (concat (rev bs)); reflexivity.
Qed.

Lemma map_outcome_agree {A B} (P : A -> Prop) (f g : A -> outcome B) l :
  Forall P l -> (forall x, P x -> f x = g x) -> Eui.map_outcome f l = Codec.map_outcome g l.
Proof.
  intros F H. induction F as [|x l Hx _ IH]; cbn [Eui.map_outcome Codec.map_outcome]; [reflexivity|].
  rewrite (H x Hx), IH. reflexivity.
Qed.
Lemma words_loop_range ws n : 0 <= ws -> forall v,
  Forall (fun w => 0 <= w < 2 ^ ws) (Codec.words_loop n v (2 ^ ws - 1) ws).
Proof.
  intros Hws. induction n as [|k IH]; intros v; cbn [Codec.words_loop]; constructor; [|apply IH].
  rewrite Z.land_comm. apply land_range; [lia|]. pose proof (pow2_pos ws Hws). lia.
Qed.

(* strategy.int_to_bits for every word size > 0, count >= 0, separator and integer: EUI.bits() (Eui, at the default
   dialect rows (8, 6) and (8, 8)) and IPAddress.bits() / the module functions (Codec) are one function *)
Theorem coh_int_to_bits v ws nw sep : 0 < ws -> 0 <= nw ->
  Eui.int_to_bits v ws nw sep = Codec.int_to_bits v ws nw sep.
Proof.
  intros Hws Hnw. unfold Eui.int_to_bits, Codec.int_to_bits. rewrite coh_int_to_words by lia.
  destruct (Codec.int_to_words v ws nw) as [words|e] eqn:E; cbn [bind]; [|reflexivity].
  assert (F : Forall (fun w => 0 <= w < 2 ^ ws) words).
  { unfold Codec.int_to_words in E. destruct (negb _); [discriminate|]. injection E as <-.
    apply Forall_rev. apply words_loop_range. lia. }
  rewrite (map_outcome_agree _ _ (Codec.word_bits ws) words F) by (intros x Hx; apply coh_word_bits; assumption).
  destruct (Codec.map_outcome (Codec.word_bits ws) words) as [bws|e']; cbn [bind]; [|reflexivity].
  unfold join. rewrite map_chars_str_of. reflexivity.
Qed.
Corollary coh_eui_bits e sep :
  Eui.eui_bits e sep =
  Codec.int_to_bits (Eui.evalue e) 8 (if Eui.ever e =? 64 then 8 else 6)
    (match sep with Some s => s | None => "-"%string end).
Proof.
  unfold Eui.eui_bits, Eui.default_dialect.
  destruct (Eui.ever e =? 64); cbn [Eui.word_size Eui.num_words Eui.word_sep Eui.eui64_base Eui.mac_eui48];
    rewrite coh_int_to_bits by lia; destruct sep; reflexivity.
Qed.
