(* Proofs/Coherence_Text.v — coherence of the model copies, part 5:
     family 9   strict IPv4 text: Glob.pton4 (C17) vs IpText.Std4.pton4 (C01); the dotted-quad printers of AddrText,
                Glob, Conv and Codec; expand_partial_address of Nmap vs NetText
     family 10  word helpers of strategy/__init__.py (int_to_words / words_to_int): Eui (C08) vs Codec (C15) vs
                AddrText (C01), for every word size and count (so in particular at all EUI dialect rows) *)
From Coq Require Import String Ascii.
From NV Require Import Base.Tac Base.PyVal Base.Bits Base.PyStr Base.PyStrFacts Model.Ip.
From NV Require Model.IpText Model.FbSocket Model.AddrText Model.NetText Model.Glob Model.Nmap Model.Conv Model.Codec Model.Eui Model.AddrOps Model.Ieee Model.Subnet.
From NV Require Proofs.C01_Chars Proofs.C01_V4 Proofs.C01_Strict6 Proofs.C17_str Proofs.C15 Proofs.C14 Proofs.C03 Proofs.C03_Str Proofs.C03_Total.
Open Scope Z_scope.

(* ================================================================ family 9: strict dotted quads *)
(* Python: socket.inet_pton(AF_INET, s) as reached through IPAddress(s, 4, flags=INET_PTON).  One field: *)
Lemma octet_canon_some t v : IpText.Std4.octet t = Some v -> Glob.canon_dec (str_of t) = Some v.
Proof.
  unfold IpText.Std4.octet. destruct t as [|c r]; [discriminate|].
  destruct (forallb IpText.is_dec (c :: r)) eqn:F; [|discriminate]. cbn [andb].
  destruct (Nat.leb _ 3); [|discriminate]. cbn [andb].
  destruct (negb (ascii_eqb c ch_0 && negb (IpText.is_nil r))) eqn:Z; [|discriminate].
  destruct (_ <=? 255); [|discriminate]. intros E. injection E as <-.
  destruct (C01_V4.py_int_dec_token (c :: r) ltac:(discriminate) F) as [P _].
  remember (str_of (c :: r)) as tok eqn:Et.
  assert (E1 : Glob.is_empty tok = false) by (subst tok; reflexivity).
  assert (E2 : existsb (fun c => negb (is_digit c)) (chars tok) = false).
  { subst tok. rewrite chars_str_of. apply C17_str.existsb_nondigit_false. apply C01_Chars.forallb_is_dec. exact F. }
  assert (E3 : match tok with
               | String c0 _ => ascii_eqb c0 ch_0 && negb (String.eqb tok "0")
               | EmptyString => false end = false).
  { subst tok. cbn [str_of]. destruct (ascii_eqb c ch_0) eqn:E0; [|reflexivity]. cbn [andb negb] in *.
    destruct r; [|discriminate]. apply ascii_eqb_eq in E0. subst c. reflexivity. }
  unfold Glob.canon_dec. rewrite E1, E2, E3. exact P.
Qed.

Lemma coh_octet t :
  IpText.Std4.octet (chars t) =
  match Glob.canon_dec t with Some v => if v <=? 255 then Some v else None | None => None end.
Proof.
  destruct (IpText.Std4.octet (chars t)) as [v|] eqn:E.
  - pose proof (C01_Strict6.octet_range _ _ E) as R. apply octet_canon_some in E. rewrite str_of_chars in E.
    rewrite E. replace (v <=? 255) with true by lia. reflexivity.
  - destruct (Glob.canon_dec t) as [v|] eqn:C; [|reflexivity].
    case_leb v 255; [|reflexivity]. exfalso.
    apply C17_str.canon_dec_inv in C. destruct C as [Hv ->].
    fold (C01_Chars.D v) in E. rewrite C01_Chars.octet_D in E by lia. discriminate.
Qed.

(* the whole address: Glob's parser returns the value, the platform oracle the four octets; same strings accepted,
   same number denoted — for EVERY string (no hypothesis) *)
Theorem coh_pton4 s : Glob.pton4 s = option_map Glob.of_octets (IpText.Std4.pton4 s).
Proof.
  unfold Glob.pton4, IpText.Std4.pton4, IpText.Std4.pton4_chars, split.
  change Glob.ch_dot with IpText.ch_dot.
  assert (T : forall t, IpText.Std4.octet t =
            match Glob.canon_dec (str_of t) with Some v => if v <=? 255 then Some v else None | None => None end).
  { intros t. rewrite <- (chars_str_of t) at 1. apply coh_octet. }
  destruct (split_chars IpText.ch_dot (chars s) []) as [|t1 [|t2 [|t3 [|t4 [|t5 r]]]]];
    cbn [List.length Nat.eqb map IpText.map_opt option_map].
  - reflexivity.
  - destruct (Glob.canon_dec (str_of t1)); reflexivity.
  - destruct (Glob.canon_dec (str_of t1)); [|reflexivity]. destruct (Glob.canon_dec (str_of t2)); reflexivity.
  - destruct (Glob.canon_dec (str_of t1)); [|reflexivity]. destruct (Glob.canon_dec (str_of t2)); [|reflexivity].
    destruct (Glob.canon_dec (str_of t3)); reflexivity.
  - rewrite !T.
    destruct (Glob.canon_dec (str_of t1)) as [a|]; [|reflexivity].
    destruct (Glob.canon_dec (str_of t2)) as [b|]; [|destruct (a <=? 255); reflexivity].
    destruct (Glob.canon_dec (str_of t3)) as [c|]; [|destruct (a <=? 255), (b <=? 255); reflexivity].
    destruct (Glob.canon_dec (str_of t4)) as [d|]; [|destruct (a <=? 255), (b <=? 255), (c <=? 255); reflexivity].
    destruct (a <=? 255), (b <=? 255), (c <=? 255), (d <=? 255); reflexivity.
  - destruct (Glob.canon_dec (str_of t1)); [|reflexivity]. destruct (Glob.canon_dec (str_of t2)); [|reflexivity].
    destruct (Glob.canon_dec (str_of t3)); [|reflexivity]. destruct (Glob.canon_dec (str_of t4)); [|reflexivity].
    destruct (Glob.canon_dec (str_of t5)); reflexivity.
Qed.

(* IPAddress(s, 4, flags=INET_PTON): Nmap's spelling (through Glob.pton4) and the C01 constructor of AddrText, on either
   back-end, for every string without '/' (with a '/' the constructor refuses with ValueError before parsing; Nmap
   only calls it on the part before the first '/') *)
Theorem coh_ipaddress4_pton be s : contains_char "/" s = false ->
  Nmap.ipaddress4_pton s = omap snd (AddrText.init_str be s (Some 4) AddrText.INET_PTON).
Proof.
  intros Hs. unfold Nmap.ipaddress4_pton, AddrText.init_str. change (4 =? 4) with true. cbn [bind]. rewrite Hs.
  unfold AddrText.str_to_int. change (4 =? 4) with true. cbv iota.
  unfold AddrText.v4_str_to_int, AddrText.v4_parse.
  change (AddrText.has_flag AddrText.INET_PTON AddrText.ZEROFILL) with false.
  change (AddrText.has_flag AddrText.INET_PTON AddrText.INET_PTON) with true. cbn [bind].
  assert (E : AddrText.inet_pton4 be s = AddrText.of_option (IpText.Std4.pton4 s)).
  { destruct be; [reflexivity|apply C01_V4.fb_pton4_eq]. }
  rewrite E, coh_pton4.
  destruct (IpText.Std4.pton4 s) as [o|] eqn:P; cbn [AddrText.of_option bind option_map omap]; [|reflexivity].
  destruct (C01_Strict6.pton4_chars_shape _ _ P) as (a & b & c & d & -> & _).
  cbn [AddrText.unpack_I]. rewrite C17_str.of_octets4. reflexivity.
Qed.

(* Python: strategy/ipv4.int_to_str — AddrText.v4_int_to_str (C01), Glob.int_to_str4 (C17), and the octets of
   Codec.ipv4_int_to_words (C15) joined with dots; Conv.ipv4_int_to_str keeps only the range check.
   For every integer (no hypothesis). *)
Lemma join4 a b c d : join "." [a; b; c; d] = (a ++ "." ++ b ++ "." ++ c ++ "." ++ d)%string.
Proof.
  unfold join. cbn [map join_chars]. change (chars ".") with ["."%char].
  rewrite <- (str_of_chars (a ++ "." ++ b ++ "." ++ c ++ "." ++ d)). f_equal.
  rewrite !chars_app. reflexivity.
Qed.
Theorem coh_int_to_str4 v :
  Glob.int_to_str4 v = AddrText.v4_int_to_str v /\
  AddrText.v4_int_to_str v = (do ws <- Codec.on_exception ValueError (Codec.ipv4_int_to_words v);
                              Ok (join "." (map fmt_d ws))) /\
  Conv.ipv4_int_to_str v = (do _ <- AddrText.v4_int_to_str v; Ok v).
Proof.
  unfold Glob.int_to_str4, AddrText.v4_int_to_str, Codec.ipv4_int_to_words, Conv.ipv4_int_to_str.
  change (max_int 4) with 4294967295. change (2 ^ 32 - 1) with 4294967295.
  destruct ((0 <=? v) && (v <=? 4294967295)); cbn [negb Codec.on_exception bind map]; [|repeat split].
  rewrite join4. repeat split.
Qed.

(* Python: strategy/ipv4.expand_partial_address (str argument): Nmap's copy and NetText's copy, every string *)
Lemma map_outcome_map_out {A B} (f : A -> outcome B) l : Glob.map_outcome f l = FbSocket.Fb.map_out f l.
Proof. induction l as [|x l IH]; cbn [Glob.map_outcome FbSocket.Fb.map_out]; [reflexivity|]. rewrite IH. reflexivity. Qed.

Theorem coh_expand_partial_address addr : Nmap.expand_partial_address addr = NetText.expand_partial_address addr.
Proof.
  unfold Nmap.expand_partial_address, NetText.expand_partial_address.
  change Nmap.ch_colon with ":"%char. change Glob.ch_dot with "."%char.
  destruct (contains_char ":" addr); [reflexivity|].
  fold NetText.int_token.
  assert (E : Glob.map_outcome NetText.int_token (if contains_char "." addr then split "." addr else [addr]) =
              (if contains_char "." addr then FbSocket.Fb.map_out NetText.int_token (split "." addr)
               else do t <- NetText.int_token addr; Ok [t])).
  { destruct (contains_char "." addr); [apply map_outcome_map_out|].
    cbn [Glob.map_outcome]. destruct (NetText.int_token addr); reflexivity. }
  rewrite E. clear E.
  destruct (if contains_char "." addr then _ else _) as [tokens|e]; cbn [bind]; [|reflexivity].
  unfold Glob.len, NetText.len, NetText.pad_tokens.
  destruct tokens as [|a [|b [|c [|d [|e r]]]]]; cbn [List.length Nat.sub repeat app];
    try reflexivity; try (rewrite join4; reflexivity).
  replace (Z.of_nat (S (S (S (S (S (List.length r))))) ) <=? 4) with false by lia.
  rewrite andb_false_r. reflexivity.
Qed.

(* ================================================================ family 10: word helpers *)
(* Python: strategy.int_to_words (the loop + reversed()) *)
Lemma eui_words_loop n : forall v ws acc,
  Eui.words_loop n v ws acc = (rev (Codec.words_loop n v (2 ^ ws - 1) ws) ++ acc)%list.
Proof.
  induction n as [|k IH]; intros v ws acc; cbn [Eui.words_loop Codec.words_loop rev]; [reflexivity|].
  rewrite IH, <- app_assoc. reflexivity.
Qed.
Lemma addrtext_words_loop n : forall v mw ws words,
  AddrText.int_to_words_loop n v mw ws words = (words ++ Codec.words_loop n v mw ws)%list.
Proof.
  induction n as [|k IH]; intros v mw ws words; cbn [AddrText.int_to_words_loop Codec.words_loop].
  - rewrite app_nil_r. reflexivity.
  - rewrite IH, <- app_assoc. reflexivity.
Qed.

(* Eui refuses negative sizes (2 ** negative is a float); elsewhere the two are the same function *)
Theorem coh_int_to_words v ws nw : 0 <= ws -> 0 <= nw -> Eui.int_to_words v ws nw = Codec.int_to_words v ws nw.
Proof.
  intros Hws Hnw. unfold Eui.int_to_words, Codec.int_to_words.
  case_ltb ws 0; [lia|]. case_ltb nw 0; [lia|]. cbn [orb].
  destruct (negb _); [reflexivity|]. rewrite eui_words_loop, app_nil_r. reflexivity.
Qed.
Theorem coh_int_to_words_addrtext v ws (n : nat) :
  AddrText.int_to_words v ws n = Codec.int_to_words v ws (Z.of_nat n).
Proof.
  unfold AddrText.int_to_words, Codec.int_to_words. rewrite Nat2Z.id.
  destruct (negb _); [reflexivity|]. rewrite addrtext_words_loop. reflexivity.
Qed.

(* Python: strategy.words_to_int *)
Lemma w2i_lor_words rw : forall i ws acc, Eui.w2i_loop rw i ws acc = Codec.lor_words rw i ws acc.
Proof. induction rw as [|x r IH]; intros; cbn [Eui.w2i_loop Codec.lor_words]; [reflexivity|apply IH]. Qed.
Lemma coh_valid_words words ws nw : Eui.valid_words words ws nw = Codec.valid_words words ws nw.
Proof. unfold Eui.valid_words, Codec.valid_words. destruct (_ =? nw); reflexivity. Qed.
Theorem coh_words_to_int words ws nw : 0 <= ws -> Eui.words_to_int words ws nw = Codec.words_to_int words ws nw.
Proof.
  intros Hws. unfold Eui.words_to_int, Codec.words_to_int. case_ltb ws 0; [lia|].
  rewrite coh_valid_words. destruct (negb _); [reflexivity|]. rewrite w2i_lor_words. reflexivity.
Qed.

(* Python: strategy.int_to_bits / BYTES_TO_BITS.  One table entry (256 of them: finite sweep): *)
Lemma byte_bits_sweep :
  forallb (fun n => String.eqb (str_of (Eui.byte_bits (Z.of_nat n))) (str_of (Codec.byte_bits (Z.of_nat n)))) (seq 0 256) = true.
Proof. vm_compute. reflexivity. Qed.
Lemma coh_byte_bits b : 0 <= b < 256 -> Eui.byte_bits b = Codec.byte_bits b.
Proof.
  intros Hb. pose proof byte_bits_sweep as S. rewrite forallb_forall in S.
  specialize (S (Z.to_nat b)). rewrite Z2Nat.id in S by lia.
  assert (I : In (Z.to_nat b) (seq 0 256)) by (apply in_seq; lia).
  apply S, String.eqb_eq in I. rewrite <- (chars_str_of (Eui.byte_bits b)), I. apply chars_str_of.
Qed.

(* the `while word:` loops: Eui conses (bits.reverse() for free), Codec appends and reverses; any fuels that suffice *)
Lemma bits_loops f1 : forall f2 word a2, 0 <= word < 256 ^ Z.of_nat f1 -> word < 256 ^ Z.of_nat f2 ->
  exists bs, Eui.bits_loop f1 word (rev a2) = Some (rev bs) /\ Codec.word_bytes_loop f2 word a2 = Ok bs.
Proof.
  induction f1 as [|k IH]; intros f2 word a2 H1 H2.
  - change (256 ^ Z.of_nat 0) with 1 in H1. assert (word = 0) by lia. subst word. exists a2.
    destruct f2; split; reflexivity.
  - destruct (Z.eq_dec word 0) as [->|Hz].
    + exists a2. destruct f2; split; reflexivity.
    + destruct f2 as [|j]; [change (256 ^ Z.of_nat 0) with 1 in H2; lia|].
      cbn [Eui.bits_loop Codec.word_bytes_loop]. case_eqb word 0; [lia|].
      rewrite !Nat2Z.inj_succ, !Z.pow_succ_r in * by lia.
      assert (R : 0 <= Z.land word 255 < 256).
      { change 255 with (Z.ones 8). rewrite Z.land_ones by lia. apply Z.mod_pos_bound. lia. }
      rewrite (coh_byte_bits _ R).
      destruct (IH j (Z.shiftr word 8) (a2 ++ [Codec.byte_bits (Z.land word 255)])%list) as (bs & E1 & E2).
      * rewrite Z.shiftr_div_pow2 by lia. change (2 ^ 8) with 256. split; [apply Z.div_pos; lia|].
        apply Z.div_lt_upper_bound; lia.
      * rewrite Z.shiftr_div_pow2 by lia. change (2 ^ 8) with 256. apply Z.div_lt_upper_bound; lia.
      * exists bs. rewrite rev_app_distr in E1. cbn [rev app] in E1. split; assumption.
Qed.

Theorem coh_word_bits ws word : 0 < ws -> 0 <= word < 2 ^ ws -> Eui.word_bits ws word = Codec.word_bits ws word.
Proof.
  intros Hws Hw. unfold Eui.word_bits, Codec.word_bits.
  destruct (bits_loops (Z.to_nat (Z.log2 word / 8 + 2)) (Z.to_nat ws + 1) word []) as (bs & E1 & E2).
  - split; [lia|]. rewrite C15.pow2_256.
    destruct (Z.eq_dec word 0) as [->|Hz]; [apply pow2_pos; lia|].
    pose proof (Z.log2_spec word ltac:(lia)) as [_ L]. pose proof (Z.log2_nonneg word).
    eapply Z.lt_le_trans; [exact L|]. replace (Z.succ (Z.log2 word)) with (Z.log2 word + 1) by lia.
    apply pow2_le. lia_dm.
  - rewrite C15.pow2_256. eapply Z.lt_le_trans; [apply Hw|]. apply pow2_le. lia.
  - cbn [rev] in E1. rewrite E1, E2. cbn [bind]. case_eqb ws 0; [lia|].
    change ch_0 with "0"%char. f_equal.
    unfold Codec.last_n, Eui.last_n. destruct (Z.to_nat ws) eqn:En; [lia|].
    destruct (concat (rev bs)); reflexivity.
Qed.

Lemma map_outcome_agree {A B} (P : A -> Prop) (f g : A -> outcome B) l :
  Forall P l -> (forall x, P x -> f x = g x) -> Eui.map_outcome f l = Codec.map_outcome g l.
Proof.
  intros F H. induction F as [|x l Hx _ IH]; cbn [Eui.map_outcome Codec.map_outcome]; [reflexivity|].
  rewrite (H x Hx), IH. reflexivity.
Qed.
Lemma words_loop_range ws n : 0 <= ws -> forall v,
  Forall (fun w => 0 <= w < 2 ^ ws) (Codec.words_loop n v (2 ^ ws - 1) ws).
Proof.
  intros Hws. induction n as [|k IH]; intros v; cbn [Codec.words_loop]; constructor; [|apply IH].
  rewrite Z.land_comm. apply land_range; [lia|]. pose proof (pow2_pos ws Hws). lia.
Qed.

(* strategy.int_to_bits for every word size > 0, count >= 0, separator and integer: EUI.bits() (Eui, at the default
   dialect rows (8, 6) and (8, 8)) and IPAddress.bits() / the module functions (Codec) are one function *)
Theorem coh_int_to_bits v ws nw sep : 0 < ws -> 0 <= nw ->
  Eui.int_to_bits v ws nw sep = Codec.int_to_bits v ws nw sep.
Proof.
  intros Hws Hnw. unfold Eui.int_to_bits, Codec.int_to_bits. rewrite coh_int_to_words by lia.
  destruct (Codec.int_to_words v ws nw) as [words|e] eqn:E; cbn [bind]; [|reflexivity].
  assert (F : Forall (fun w => 0 <= w < 2 ^ ws) words).
  { unfold Codec.int_to_words in E. destruct (negb _); [discriminate|]. injection E as <-.
    apply Forall_rev. apply words_loop_range. lia. }
  rewrite (map_outcome_agree _ _ (Codec.word_bits ws) words F) by (intros x Hx; apply coh_word_bits; assumption).
  destruct (Codec.map_outcome (Codec.word_bits ws) words) as [bws|e']; cbn [bind]; [|reflexivity].
  unfold join. rewrite map_chars_str_of. reflexivity.
Qed.
Corollary coh_eui_bits e sep :
  Eui.eui_bits e sep =
  Codec.int_to_bits (Eui.evalue e) 8 (if Eui.ever e =? 64 then 8 else 6)
    (match sep with Some s => s | None => "-"%string end).
Proof.
  unfold Eui.eui_bits, Eui.default_dialect.
  destruct (Eui.ever e =? 64); cbn [Eui.word_size Eui.num_words Eui.word_sep Eui.eui64_base Eui.mac_eui48];
    rewrite coh_int_to_bits by lia; destruct sep; reflexivity.
Qed.

(* ================================================================ '%x' % n *)
(* Python: the `%x` conversion (IPAddress.__hex__ in AddrOps (C14); the shared prelude PyStr.fmt_x everywhere else).
   Every integer. *)
Lemma eval16_from_digits ds : C14.eval16 ds = from_digits 16 ds.
Proof.
  unfold C14.eval16, from_digits. generalize 0. induction ds as [|d r IH]; intros a; cbn [fold_left]; [reflexivity|].
  rewrite IH. f_equal. lia.
Qed.
Lemma hex_digit_char d : 0 <= d < 16 -> AddrOps.hex_digit d = digit_char d.
Proof.
  intros H.
  assert (K: d = 0 \/ d = 1 \/ d = 2 \/ d = 3 \/ d = 4 \/ d = 5 \/ d = 6 \/ d = 7 \/ d = 8 \/ d = 9 \/
             d = 10 \/ d = 11 \/ d = 12 \/ d = 13 \/ d = 14 \/ d = 15) by lia.
  repeat (destruct K as [K|K]; [subst; reflexivity|]). subst; reflexivity.
Qed.
Lemma string_of_list_ascii_str_of l : string_of_list_ascii l = str_of l.
Proof. induction l as [|c r IH]; cbn; congruence. Qed.
Lemma hex_digits_fmt_nat v : 0 <= v ->
  exists ds, AddrOps.hex_digits v = Some ds /\ string_of_list_ascii (map AddrOps.hex_digit ds) = str_of (fmt_nat 16 false v).
Proof.
  intros Hv. destruct (C14.hex_digits_spec v Hv) as (ds & E & A & B & C). exists ds. split; [exact E|].
  rewrite string_of_list_ascii_str_of. f_equal. rewrite fmt_nat_eq.
  assert (U : digits_of 16 v = ds).
  { rewrite <- A, eval16_from_digits. apply digits_of_unique; [lia|exact B|].
    destruct C as [[_ ->]|[_ (d & t & -> & Hd)]]; [left; reflexivity|].
    right. exists d, t. split; [reflexivity|]. inversion B; subst. unfold C14.is_digit in *. lia. }
  rewrite U. apply map_ext_in. intros d Hd. rewrite Forall_forall in B. apply hex_digit_char, B, Hd.
Qed.
Theorem coh_fmt_x v : AddrOps.fmt_x v = Ok (fmt_x v).
Proof.
  unfold AddrOps.fmt_x, fmt_x. case_ltb v 0.
  - destruct (hex_digits_fmt_nat (- v) ltac:(lia)) as (ds & -> & ->). reflexivity.
  - destruct (hex_digits_fmt_nat v ltac:(lia)) as (ds & -> & ->). reflexivity.
Qed.

(* ================================================================ parse_ip_network (str argument), IPv4 *)
(* Python: parse_ip_network(_ipv4, "a/p") as reached from nmap._parse_nmap_target_spec: Nmap carries its own cut-down
   copy (integer prefix only; everything it does not model is `Unsupported`), NetText the full one (C03).
   Wherever the Nmap copy gives an answer at all, it is the answer of the full model, on both back-ends. *)
Lemma ipaddress4_pton_exn s e : Nmap.ipaddress4_pton s = Raise e -> e = AddrFormatError.
Proof. unfold Nmap.ipaddress4_pton. destruct (Glob.pton4 s); [discriminate|]. intros H. injection H as <-. reflexivity. Qed.

Lemma coh_addr_part4 be a : contains_char "/" a = false ->
  C03.addr_part be 4 a =
  match Nmap.ipaddress4_pton a with
  | Ok v => Ok v
  | Raise AddrFormatError => do ex <- Nmap.expand_partial_address a; Nmap.ipaddress4_pton ex
  | Raise e => Raise e
  end.
Proof.
  intros NS. unfold C03.addr_part. rewrite (coh_ipaddress4_pton be a NS).
  destruct (AddrText.init_str be a (Some 4) AddrText.INET_PTON) as [[x v]|e] eqn:I; cbn [omap snd]; [reflexivity|].
  pose proof (coh_ipaddress4_pton be a NS) as E. rewrite I in E. cbn [omap] in E.
  apply ipaddress4_pton_exn in E. subst e. change (4 =? 4) with true. cbv iota.
  rewrite coh_expand_partial_address.
  destruct (C03_Total.expand_total a) as [->|(ex & -> & NSe)]; cbn [bind]; [reflexivity|].
  rewrite (coh_ipaddress4_pton be ex NSe).
  destruct (AddrText.init_str be ex (Some 4) AddrText.INET_PTON) as [[x v]|e]; reflexivity.
Qed.

Theorem coh_nmap_parse_ip_network4 pton6 be addr :
  Nmap.parse_ip_network pton6 4 addr <> Raise Unsupported ->
  NetText.parse_str be 4 addr false = Nmap.parse_ip_network pton6 4 addr.
Proof.
  intros HU. unfold Nmap.parse_ip_network in *. change Nmap.ch_slash with "/"%char in *.
  destruct (contains_char "/" addr) eqn:C.
  - destruct (C03_Str.split1_two addr C) as (a & t & S & NS & ->). rewrite S in *.
    rewrite C03.parse_str_slash by exact NS. rewrite (coh_addr_part4 be a NS).
    change (4 =? 4) with true in *. cbv iota in *.
    destruct (match Nmap.ipaddress4_pton a with
              | Ok v => Ok v
              | Raise AddrFormatError => do ex <- Nmap.expand_partial_address a; Nmap.ipaddress4_pton ex
              | Raise e => Raise e end) as [value|e]; cbn [bind] in *; [|reflexivity].
    unfold C03.prefix_part. destruct (py_int 10 t) as [n|]; [|congruence]. cbn [bind]. reflexivity.
  - rewrite (split1_no_sep _ _ C) in HU. congruence.
Qed.

(* ================================================================ IAB.split_iab_mac (eui/__init__.py) *)
(* Python: IAB.split_iab_mac(eui_int, strict=False)[0] — Ieee (C19: registry lookups) vs Eui (C08).  Every integer. *)
Theorem coh_iab_value eui_int : Ieee.iab_value eui_int = omap fst (Eui.split_iab_mac eui_int false).
Proof.
  unfold Ieee.iab_value, Eui.split_iab_mac, Ieee.is_iab_eui, Eui.zmem, Eui.iab_values. cbn [existsb andb].
  rewrite !orb_false_r, (Z.eqb_sym (Z.shiftr eui_int 12) 20674), (Z.eqb_sym (Z.shiftr eui_int 12) 4249685).
  destruct ((20674 =? Z.shiftr eui_int 12) || (4249685 =? Z.shiftr eui_int 12)); [reflexivity|].
  cbv zeta. rewrite (Z.eqb_sym (Z.shiftr (Z.shiftr eui_int 12) 12) 20674), (Z.eqb_sym (Z.shiftr (Z.shiftr eui_int 12) 12) 4249685).
  destruct ((20674 =? _) || (4249685 =? _)); reflexivity.
Qed.

(* ================================================================ constructor calls on printed text *)
(* Python: IPNetwork('%s/%d' % (addr, prefixlen), version) with addr a printed address of the family (IPNetwork.next /
   previous / subnet: Subnet.net_of_cidr_str; IPNetwork.ipv4(): Conv.net_of_text_v4).  Subnet and Conv represent the
   text by the value it prints and keep only the prefix check; NetText (C03) runs the real text through the real
   parser.  Equal for every in-range value and EVERY integer prefix (also the rejected ones), both back-ends. *)
Theorem coh_net_of_cidr_str be ver v p ip : valid_ver ver = true -> 0 <= v < 2 ^ width ver ->
  (do a <- AddrText.int_to_str be ver v None;
   NetText.net_init be (NetText.AStr (a ++ "/" ++ fmt_d p)) ip (Some ver) 0) =
  omap (fun c => {| nver := ver; nval := fst c; nplen := snd c |}) (Subnet.net_of_cidr_str (width ver) v p).
Proof.
  intros Hver Hv. assert (R : C03.vrange ver v) by (split; assumption).
  unfold Subnet.net_of_cidr_str.
  destruct (Z_le_dec 0 p) as [L0|L0]; [destruct (Z_le_dec p (width ver)) as [L1|L1]|].
  - replace ((0 <=? p) && (p <=? width ver)) with true by lia. cbn [negb omap fst snd].
    rewrite (C03.notations_prefix be ver v p ip (Some ver) 0 R (conj L0 L1) (or_introl eq_refl)). reflexivity.
  - replace ((0 <=? p) && (p <=? width ver)) with false by lia. cbn [negb omap].
    destruct (C03.printed_exists be ver v R) as (a & P). rewrite (C03.pr_text _ _ _ _ P). cbn [bind].
    apply (C03.notation_reject be ver v a (fmt_d p) ip (Some ver) 0 R P (or_introl eq_refl)).
    right. exists p. split; [apply C03.prefix_part_int, py_int_fmt_d|lia].
  - replace ((0 <=? p) && (p <=? width ver)) with false by lia. cbn [negb omap].
    destruct (C03.printed_exists be ver v R) as (a & P). rewrite (C03.pr_text _ _ _ _ P). cbn [bind].
    apply (C03.notation_reject be ver v a (fmt_d p) ip (Some ver) 0 R P (or_introl eq_refl)).
    right. exists p. split; [apply C03.prefix_part_int, py_int_fmt_d|lia].
Qed.

Theorem coh_net_of_text_v4 be v p ip : 0 <= v < 2 ^ 32 ->
  (do a <- AddrText.int_to_str be 4 v None;
   NetText.net_init be (NetText.AStr (a ++ "/" ++ fmt_d p)) ip None 0) = Conv.net_of_text_v4 v p.
Proof.
  intros Hv. assert (R : C03.vrange 4 v) by (split; [reflexivity|exact Hv]).
  unfold Conv.net_of_text_v4.
  destruct (Z_le_dec 0 p) as [L0|L0]; [destruct (Z_le_dec p (width 4)) as [L1|L1]|].
  - replace ((0 <=? p) && (p <=? width 4)) with true by lia.
    rewrite (C03.notations_prefix be 4 v p ip None 0 R (conj L0 L1) (or_intror eq_refl)). reflexivity.
  - replace ((0 <=? p) && (p <=? width 4)) with false by lia.
    destruct (C03.printed_exists be 4 v R) as (a & P). rewrite (C03.pr_text _ _ _ _ P). cbn [bind].
    apply (C03.notation_reject be 4 v a (fmt_d p) ip None 0 R P (or_intror eq_refl)).
    right. exists p. split; [apply C03.prefix_part_int, py_int_fmt_d|lia].
  - replace ((0 <=? p) && (p <=? width 4)) with false by lia.
    destruct (C03.printed_exists be 4 v R) as (a & P). rewrite (C03.pr_text _ _ _ _ P). cbn [bind].
    apply (C03.notation_reject be 4 v a (fmt_d p) ip None 0 R P (or_intror eq_refl)).
    right. exists p. split; [apply C03.prefix_part_int, py_int_fmt_d|lia].
Qed.

(* ================================================================ family 10, packed *)
(* Python: EUI.packed (eui/__init__.py) = strategy/eui48.int_to_packed / strategy/eui64.int_to_packed: Eui (C08, bytes
   as a latin-1 string) vs Codec (C15, bytes as integers).  Every EUI object, in or out of range (no hypothesis). *)
Lemma eui_be_bytes_snoc k : forall n,
  Eui.be_bytes (S k) n = (Eui.be_bytes k (n / 256) ++ [chr (Z.land n 255)])%list.
Proof.
  induction k as [|k IH]; intros n.
  - cbn [Eui.be_bytes app]. change (8 * Z.of_nat 0) with 0. rewrite Z.shiftr_0_r. reflexivity.
  - change (Eui.be_bytes (S (S k)) n) with (chr (Z.land (Z.shiftr n (8 * Z.of_nat (S k))) 255) :: Eui.be_bytes (S k) n).
    rewrite IH. change (Eui.be_bytes (S k) (n / 256)) with (chr (Z.land (Z.shiftr (n / 256) (8 * Z.of_nat k)) 255) :: Eui.be_bytes k (n / 256)).
    cbn [app]. f_equal. f_equal. f_equal.
    change 256 with (2 ^ 8). rewrite <- Z.shiftr_div_pow2, Z.shiftr_shiftr by lia. f_equal. lia.
Qed.
Lemma coh_be_bytes k : forall n, map chr (Codec.be_bytes k n) = Eui.be_bytes k n.
Proof.
  induction k as [|k IH]; intros n; [reflexivity|].
  rewrite eui_be_bytes_snoc. cbn [Codec.be_bytes]. rewrite map_app, IH. cbn [map]. f_equal. f_equal. f_equal.
  change 255 with (Z.ones 8). rewrite Z.land_ones by lia. reflexivity.
Qed.

Lemma words_loop_length n : forall v mw ws, List.length (Codec.words_loop n v mw ws) = n.
Proof. induction n as [|k IH]; intros; cbn [Codec.words_loop List.length]; [reflexivity|]. rewrite IH. reflexivity. Qed.

Lemma int_to_words_shape v ws nw l : 0 <= ws -> Codec.int_to_words v ws nw = Ok l ->
  Forall (fun w => 0 <= w < 2 ^ ws) l /\ List.length l = Z.to_nat nw.
Proof.
  intros Hws W. unfold Codec.int_to_words in W. destruct (negb _); [discriminate|].
  assert (E : rev (Codec.words_loop (Z.to_nat nw) v (2 ^ ws - 1) ws) = l) by (injection W as W; exact W).
  subst l. split; [apply Forall_rev, words_loop_range; exact Hws|].
  rewrite rev_length, words_loop_length. reflexivity.
Qed.

Theorem coh_eui_packed e dflt : Codec.d_ws dflt = 8 -> Codec.d_nw dflt = 8 ->
  Eui.eui_packed e =
  omap Codec.str_of_bytes
    (if Eui.ever e =? 64 then Codec.eui64_int_to_packed dflt (Eui.evalue e) else Codec.eui48_int_to_packed (Eui.evalue e)).
Proof.
  intros E1 E2. unfold Eui.eui_packed. destruct (Eui.ever e =? 64) eqn:Ev.
  - unfold Eui.eui_words, Eui.default_dialect, Codec.eui64_int_to_packed. rewrite Ev, E1, E2.
    cbn [Eui.word_size Eui.num_words Eui.eui64_base]. rewrite coh_int_to_words by lia.
    destruct (Codec.int_to_words (Eui.evalue e) 8 8) as [ws|ex] eqn:W; cbn [bind omap]; [|reflexivity].
    assert (F : Forall (fun w => 0 <= w < 2 ^ 8) ws /\ List.length ws = Z.to_nat 8)
      by (apply (int_to_words_shape _ 8 8 ws ltac:(lia) W)).
    destruct F as [F L]. change (Z.to_nat 8) with 8%nat in L.
    destruct ws as [|w1 [|w2 [|w3 [|w4 [|w5 [|w6 [|w7 [|w8 [|w9 r]]]]]]]]]; try discriminate L.
    repeat match goal with X : Forall _ (_ :: _) |- _ => inversion X; clear X; subst end.
    change (2 ^ 8) with 256 in *.
    cbn [List.length Nat.eqb forallb andb Codec.struct_pack]. change (256 ^ Z.of_nat 1) with 256.
    repeat match goal with
           | H : 0 <= ?w < 256 |- context [(0 <=? ?w) && (?w <=? 255)] => replace ((0 <=? w) && (w <=? 255)) with true by lia
           end.
    repeat match goal with
           | H : 0 <= ?w < 256 |- context [(0 <=? ?w) && (?w <? 256)] => replace ((0 <=? w) && (w <? 256)) with true by lia
           end.
    cbn [andb bind omap Codec.be_bytes app]. unfold Codec.str_of_bytes. cbn [map].
    repeat match goal with
           | H : 0 <= ?w < 256 |- context [?w mod 256] => rewrite (Z.mod_small w 256) by lia
           end.
    reflexivity.
  - unfold Codec.eui48_int_to_packed. cbn [Codec.struct_pack].
    set (hi := Z.shiftr (Eui.evalue e) 32). set (lo := Z.land (Eui.evalue e) 4294967295).
    assert (Hlo : 0 <= lo < 256 ^ Z.of_nat 4).
    { unfold lo. change 4294967295 with (Z.ones 32). rewrite Z.land_ones by lia.
      change (256 ^ Z.of_nat 4) with (2 ^ 32). apply Z.mod_pos_bound. lia. }
    replace ((0 <=? lo) && (lo <? 256 ^ Z.of_nat 4)) with true by lia.
    change (256 ^ Z.of_nat 2) with 65536.
    replace (hi <? 65536) with (hi <=? 65535) by lia.
    destruct ((0 <=? hi) && (hi <=? 65535)); cbn [bind omap]; [|reflexivity].
    unfold Codec.str_of_bytes. rewrite app_nil_r, map_app, !coh_be_bytes. reflexivity.
Qed.

(* ================================================================ strategy/ipv6.int_to_packed / int_to_str (verbose) *)
(* Python: strategy/ipv6.int_to_packed — AddrText (C01) keeps the 16 bytes as eight 16-bit words, Codec (C15) as 16
   bytes which its verbose printer unpacks with '>8H'.  Same eight words, same exceptions, every integer. *)
Lemma pair16 a : 0 <= a < 4294967296 ->
  ((0 * 256 + a / 256 / 256 / 256 mod 256) * 256 + a / 256 / 256 mod 256 = a / 65536) /\
  ((0 * 256 + a / 256 mod 256) * 256 + a mod 256 = a mod 65536).
Proof. intros H. split; lia_dm. Qed.

Theorem coh_ipv6_int_to_packed v :
  (do packed <- Codec.ipv6_int_to_packed v;
   Codec.struct_unpack [2%nat; 2%nat; 2%nat; 2%nat; 2%nat; 2%nat; 2%nat; 2%nat] packed) = AddrText.int_to_packed v.
Proof.
  unfold Codec.ipv6_int_to_packed, AddrText.int_to_packed. rewrite (coh_int_to_words_addrtext v 32 4).
  change (Z.of_nat 4) with 4.
  destruct (Codec.int_to_words v 32 4) as [ws|ex] eqn:W; cbn [bind]; [|reflexivity].
  destruct (int_to_words_shape _ 32 4 ws ltac:(lia) W) as [F L]. change (Z.to_nat 4) with 4%nat in L.
  destruct ws as [|a [|b [|c [|d [|x r]]]]]; try discriminate L.
  repeat match goal with X : Forall _ (_ :: _) |- _ => inversion X; clear X; subst end.
  change (2 ^ 32) with 4294967296 in *.
  unfold AddrText.pack_4I. cbn [forallb]. cbn [Codec.struct_pack]. change (256 ^ Z.of_nat 4) with 4294967296.
  repeat match goal with
         | H : 0 <= ?w < 4294967296 |- context [(0 <=? ?w) && (?w <=? 4294967295)] =>
             replace ((0 <=? w) && (w <=? 4294967295)) with true by lia
         end.
  repeat match goal with
         | H : 0 <= ?w < 4294967296 |- context [(0 <=? ?w) && (?w <? 4294967296)] =>
             replace ((0 <=? w) && (w <? 4294967296)) with true by lia
         end.
  cbn [andb bind Codec.be_bytes app]. unfold Codec.struct_unpack.
  cbn [List.length fold_right Nat.add Nat.eqb Codec.split_fields firstn skipn Codec.from_be].
  repeat match goal with
         | H : 0 <= ?w < 4294967296 |- _ => destruct (pair16 w H) as [-> ->]; clear H
         end.
  reflexivity.
Qed.

(* Python: strategy/ipv6.int_to_str(int_val, ipv6_verbose) (used by int_to_arpa): the C15 copy and the C01 function *)
Theorem coh_ipv6_int_to_str_verbose be d v : Codec.d_sep d = ":"%string ->
  Codec.ipv6_int_to_str_verbose d v = AddrText.v6_int_to_str be v (Some AddrText.ipv6_verbose).
Proof.
  intros Es. unfold Codec.ipv6_int_to_str_verbose, AddrText.v6_int_to_str.
  cbn [AddrText.compact AddrText.pad4 AddrText.ipv6_verbose]. rewrite <- coh_ipv6_int_to_packed, Es.
  destruct (Codec.ipv6_int_to_packed v) as [p|ex]; cbn [bind Codec.on_exception]; [|reflexivity].
  destruct (Codec.struct_unpack _ p); reflexivity.
Qed.

(* Python: the loop `for i, num in enumerate(reversed(words)): int_val |= num << word_size * i` (strategy.words_to_int,
   ipv6.packed_to_int, fbsocket.inet_ntop) is written three times: one function *)
Lemma coh_or_words bits rw : forall i acc,
  FbSocket.Fb.or_words bits rw i acc = Codec.lor_words rw i bits acc /\
  Codec.lor_words rw i bits acc = Eui.w2i_loop rw i bits acc.
Proof.
  induction rw as [|w r IH]; intros i acc; cbn [FbSocket.Fb.or_words Codec.lor_words Eui.w2i_loop]; [split; reflexivity|].
  apply IH.
Qed.

(* Python: strategy/ipv6.packed_to_int — Codec (16 bytes, '>4I') vs AddrText (eight 16-bit words).  Every byte list
   (wrong lengths raise struct.error on both sides). *)
Theorem coh_ipv6_packed_to_int b :
  Codec.ipv6_packed_to_int b =
  (do ws <- Codec.struct_unpack [2%nat; 2%nat; 2%nat; 2%nat; 2%nat; 2%nat; 2%nat; 2%nat] b; AddrText.packed_to_int ws).
Proof.
  do 16 (destruct b as [|? b]; [reflexivity|]). destruct b; [|reflexivity].
  unfold Codec.ipv6_packed_to_int, Codec.struct_unpack.
  cbn [List.length fold_right Nat.add Nat.eqb Codec.split_fields firstn skipn Codec.from_be bind
       AddrText.packed_to_int AddrText.unpack_4I].
  rewrite (proj1 (coh_or_words 32 _ 0 0)). do 2 f_equal.
  repeat (f_equal; try lia).
Qed.
