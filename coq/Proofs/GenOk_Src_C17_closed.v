(* Proofs/GenOk_Src_C17_closed.v -- the hypotheses of the C17 source tie that concern iprange_to_cidrs, discharged: for valid ordered
   IPv4 bounds the TRANSLATED iprange_to_cidrs (= its model by the C05 source tie) returns the maximal aligned blocks
   Glob.cover 32 0 lo hi (Proofs/Coherence_Cidrs.v, from C05), which are IPv4 blocks inside the address space.  Kept apart from
   GenOk_Src_C17.v so that the equalities there do not depend on the C05 / C09 proofs. *)
From Coq Require Import String Ascii.
From NV Require Import Base.Tac Base.PyVal Base.PyStr Model.Ip Model.Glob Model.SrcPrelude Model.SrcPreludeGlob
  Gen.pysrc_gen Gen.pysrc_iprange_gen Gen.pysrc_glob_gen Proofs.GenOk_Src_C17.
From NV Require Proofs.C02 Proofs.C17 Proofs.GenOk_Src_C05 Proofs.Coherence_Cidrs Model.Merge.
Import ListNotations.
Open Scope Z_scope.

Lemma block_net4_ok c : C17.block_ok c -> net4_ok (Merge.net_of_cblk 4 c).
Proof.
  intros H. destruct (C17.block_first_last c H) as [F L]. destruct H as (Hp & H0 & Hl & _).
  pose proof (Bits.pow2_pos (32 - snd c) ltac:(lia)).
  unfold net4_ok, Merge.net_of_cblk. cbn [nver nval nplen]. rewrite F, L. change (max_int 4) with (2 ^ 32 - 1).
  split; [reflexivity|]. split; lia.
Qed.

(* the translated iprange_to_cidrs on valid ordered IPv4 bounds *)
Lemma src_cidrs_cover lo hi : 0 <= lo <= hi -> hi < 2 ^ 32 ->
  src_iprange_to_cidrs (py_net_of_addr (4, lo)) (py_net_of_addr (4, hi)) = Ok (map (Merge.net_of_cblk 4) (cover 32 0 lo hi)).
Proof.
  intros H1 H2. rewrite GenOk_Src_C05.src_iprange_to_cidrs_ok by reflexivity.
  exact (Coherence_Cidrs.coh_iprange_to_cidrs_cover lo hi H1 H2).
Qed.

Lemma to_cidrs_wf_holds : to_cidrs_wf.
Proof.
  intros s e nets H1 H2 E. pose proof (src_cidrs_cover s e H1 H2) as EC.
  destruct (Coherence_Cidrs.cover_tile s e H1 H2) as [F _].
  set (C := cover 32 0 s e) in *. clearbody C. rewrite EC in E. injection E as <-.
  apply Forall_map. eapply Forall_impl; [|exact F]. intros c Hc. apply block_net4_ok. exact Hc.
Qed.

Lemma blocks_of_cblks L : blocks_of (map (Merge.net_of_cblk 4) L) = L.
Proof. unfold blocks_of. rewrite map_map. rewrite <- (map_id L) at 2. apply map_ext. intros [v p]. reflexivity. Qed.

(* the instance of the model's parameter is, on valid bounds, the executable decomposition of the correspondence commands *)
Lemma src_to_cidrs_exec lo hi : 0 <= lo <= hi -> hi < 2 ^ 32 -> src_to_cidrs lo hi = to_cidrs_exec lo hi.
Proof.
  intros H1 H2. unfold src_to_cidrs, to_cidrs_exec. pose proof (src_cidrs_cover lo hi H1 H2) as EC.
  set (C := cover 32 0 lo hi) in *. clearbody C. rewrite EC. cbn [omap]. rewrite blocks_of_cblks. reflexivity.
Qed.

Lemma src_iprange_to_globs_closed s e : 0 <= s <= e -> e < 2 ^ 32 ->
  src_iprange_to_globs (4, s) (4, e) = iprange_to_globs src_to_cidrs (4, s) (4, e).
Proof. intros H1 H2. apply src_iprange_to_globs_v4_ok. intros nets. exact (to_cidrs_wf_holds s e nets H1 H2). Qed.

Lemma src_cidr_to_glob_closed ver v p : valid_ver ver = true -> 0 <= p <= width ver -> 0 <= v < 2 ^ width ver ->
  src_cidr_to_glob {| nver := ver; nval := v; nplen := p |} = cidr_to_glob src_to_cidrs ver v p.
Proof.
  intros V Hp Hv. destruct (C02.width_cases ver V) as [[-> W]|[-> W]]; rewrite W in *.
  - destruct (C02.identities_w 32 v p ltac:(lia) ltac:(lia)) as (_ & _ & _ & _ & F & L & _ & _ & _ & _ & A & B & C).
    pose proof (Bits.pow2_pos (32 - p) ltac:(lia)).
    apply src_cidr_to_glob_v4_ok.
    + unfold net4_ok. cbn [nver nval nplen]. rewrite F, L. change (max_int 4) with (2 ^ 32 - 1). split; [reflexivity|]. split; lia.
    + intros nets E. apply (to_cidrs_wf_holds (net_first 32 v p) (net_last 32 v p) nets); [rewrite F, L; lia|rewrite L; lia|exact E].
  - destruct (C02.identities_w 128 v p ltac:(lia) ltac:(lia)) as (_ & _ & _ & _ & F & L & _ & _ & _ & _ & A & B & C).
    pose proof (Bits.pow2_pos (128 - p) ltac:(lia)).
    apply src_cidr_to_glob_v6_ok; rewrite ?F, ?L; [lia|]. change (max_int 6) with (2 ^ 128 - 1). lia.
Qed.

(* everything Props/C17_src_closed.v states *)
Lemma C17_tie_closed_ok :
  to_cidrs_wf /\
  (forall lo hi, 0 <= lo <= hi -> hi < 2 ^ 32 -> src_to_cidrs lo hi = to_cidrs_exec lo hi) /\
  (forall s e, 0 <= s <= e -> e < 2 ^ 32 -> src_iprange_to_globs (4, s) (4, e) = iprange_to_globs src_to_cidrs (4, s) (4, e)) /\
  (forall ver v p, valid_ver ver = true -> 0 <= p <= width ver -> 0 <= v < 2 ^ width ver ->
     src_cidr_to_glob {| nver := ver; nval := v; nplen := p |} = cidr_to_glob src_to_cidrs ver v p) /\
  (forall s e g ipglob,
     src_IPGlob_set_glob s e g ipglob =
     match set_glob src_to_cidrs (obj_of s e g) ipglob with (o', None) => Ok (st_of o') | (_, Some ex) => Raise ex end) /\
  (forall ipglob, src_IPGlob_init ipglob = omap st_of (ipglob_new src_to_cidrs ipglob)) /\
  (forall s e ver, s <= e -> src_IPGlob_setstate (s, e, ver) = omap st_of (ipglob_setstate src_to_cidrs (s, e, ver))).
Proof.
  split; [exact to_cidrs_wf_holds|]. split; [exact src_to_cidrs_exec|]. split; [exact src_iprange_to_globs_closed|].
  split; [exact src_cidr_to_glob_closed|].
  split; [intros; apply src_ipglob_set_ok; exact to_cidrs_wf_holds|].
  split; [intros; apply src_ipglob_init_ok; exact to_cidrs_wf_holds|].
  intros s e ver H. apply src_ipglob_setstate_ok; [exact H|exact to_cidrs_wf_holds].
Qed.
