(* Base/PyStrFacts.v — proved facts about the CPython string/integer models of Base/PyStr.v:
   digit lists, characters produced by the formatters, int(format(n)) round trips, split/join/strip/lower. *)
From NV Require Import Base.Tac Base.PyStr.
From Coq Require Import String Ascii NArith.
Open Scope Z_scope.

Definition from_digits (base : Z) (l : list Z) : Z := fold_left (fun acc d => acc * base + d) l 0.

(* ------------------------------------------------------------------------------------------ *)
(** * strings <-> char lists *)

Lemma chars_str_of l : chars (str_of l) = l.
Proof. induction l; cbn; congruence. Qed.

Lemma str_of_chars s : str_of (chars s) = s.
Proof. induction s; cbn; congruence. Qed.

Lemma chars_app (a b : string) : chars (a ++ b)%string = (chars a ++ chars b)%list.
Proof. induction a; cbn; congruence. Qed.

Lemma str_of_app (a b : list ascii) : str_of (a ++ b)%list = (str_of a ++ str_of b)%string.
Proof. induction a; cbn; congruence. Qed.

Lemma chars_inj a b : chars a = chars b -> a = b.
Proof. intros H. rewrite <- (str_of_chars a), <- (str_of_chars b). now rewrite H. Qed.

Lemma str_of_inj a b : str_of a = str_of b -> a = b.
Proof. intros H. rewrite <- (chars_str_of a), <- (chars_str_of b). now rewrite H. Qed.

Lemma map_str_of_chars l : map str_of (map chars l) = l.
Proof. induction l; cbn; [reflexivity|]. now rewrite str_of_chars, IHl. Qed.

Lemma map_chars_str_of l : map chars (map str_of l) = l.
Proof. induction l; cbn; [reflexivity|]. now rewrite chars_str_of, IHl. Qed.

Lemma length_str_of l : String.length (str_of l) = List.length l.
Proof. induction l; cbn; congruence. Qed.

Lemma length_chars s : List.length (chars s) = String.length s.
Proof. induction s; cbn; congruence. Qed.

Lemma chars_nil_iff s : chars s = [] <-> s = EmptyString.
Proof. destruct s; cbn; split; congruence. Qed.

Lemma str_of_nil_iff l : str_of l = EmptyString <-> l = [].
Proof. destruct l; cbn; split; congruence. Qed.

(* ------------------------------------------------------------------------------------------ *)
(** * character codes *)

Lemma code_range c : 0 <= code c < 256.
Proof. unfold code. pose proof (N_ascii_bounded c). lia. Qed.

Lemma chr_code c : chr (code c) = c.
Proof. unfold chr, code. rewrite N2Z.id. apply ascii_N_embedding. Qed.

Lemma code_chr z : 0 <= z < 256 -> code (chr z) = z.
Proof. intros H. unfold chr, code. rewrite N_ascii_embedding by lia. lia. Qed.

Lemma code_inj a b : code a = code b -> a = b.
Proof. intros H. rewrite <- (chr_code a), <- (chr_code b). now rewrite H. Qed.

Lemma ascii_eqb_eq a b : ascii_eqb a b = true <-> a = b.
Proof. apply Ascii.eqb_eq. Qed.

Lemma ascii_eqb_neq a b : ascii_eqb a b = false <-> a <> b.
Proof. apply Ascii.eqb_neq. Qed.

Lemma ascii_eqb_refl a : ascii_eqb a a = true.
Proof. apply Ascii.eqb_refl. Qed.

Lemma ascii_eqb_sym a b : ascii_eqb a b = ascii_eqb b a.
Proof. apply Ascii.eqb_sym. Qed.

Lemma ascii_eqb_code a b : ascii_eqb a b = (code a =? code b).
Proof.
  destruct (Ascii.eqb_spec a b) as [->|N]; unfold ascii_eqb.
  - rewrite Ascii.eqb_refl. symmetry. apply Z.eqb_refl.
  - apply Ascii.eqb_neq in N. rewrite N. symmetry. apply Z.eqb_neq. intros E. apply code_inj in E.
    apply Ascii.eqb_neq in N. contradiction.
Qed.

(* ------------------------------------------------------------------------------------------ *)
(** * digit lists *)

Definition dstep (base : Z) (acc d : Z) : Z := acc * base + d.

Lemma from_digits_fold base l : from_digits base l = fold_left (dstep base) l 0.
Proof. reflexivity. Qed.

Lemma fold_dstep_app base a b acc :
  fold_left (dstep base) (a ++ b) acc = fold_left (dstep base) b (fold_left (dstep base) a acc).
Proof. apply fold_left_app. Qed.

Lemma from_digits_snoc base l d : from_digits base (l ++ [d]) = from_digits base l * base + d.
Proof. unfold from_digits. now rewrite fold_left_app. Qed.

Lemma from_digits_nil base : from_digits base [] = 0.
Proof. reflexivity. Qed.

Lemma from_digits_single base d : from_digits base [d] = d.
Proof. unfold from_digits; cbn. lia. Qed.

(* general accumulator form: fold from `acc` = acc * base^len + value *)
Lemma fold_dstep_acc base l acc :
  fold_left (dstep base) l acc = acc * base ^ Z.of_nat (List.length l) + from_digits base l.
Proof.
  revert acc. induction l as [|d l IH] using rev_ind; intros acc.
  - cbn. lia.
  - rewrite fold_left_app, from_digits_snoc, IH, app_length. cbn [List.length fold_left].
    replace (Z.of_nat (List.length l + 1)) with (Z.succ (Z.of_nat (List.length l))) by lia.
    rewrite Z.pow_succ_r by lia. unfold dstep. ring.
Qed.

Lemma from_digits_app base a b :
  from_digits base (a ++ b) = from_digits base a * base ^ Z.of_nat (List.length b) + from_digits base b.
Proof. unfold from_digits at 1. rewrite fold_left_app. apply fold_dstep_acc. Qed.

Lemma from_digits_cons base d l :
  from_digits base (d :: l) = d * base ^ Z.of_nat (List.length l) + from_digits base l.
Proof. change (d :: l) with ([d] ++ l). now rewrite from_digits_app, from_digits_single. Qed.

Lemma from_digits_repeat0 base k l : from_digits base (repeat 0 k ++ l) = from_digits base l.
Proof.
  induction k as [|k IH]; [reflexivity|].
  cbn [repeat app]. rewrite from_digits_cons. rewrite IH. lia.
Qed.

Lemma from_digits_nonneg base l : 0 <= base -> Forall (fun d => 0 <= d < base) l -> 0 <= from_digits base l.
Proof.
  intros Hb. induction l as [|d l IH] using rev_ind; intros HF.
  - cbn. lia.
  - apply Forall_app in HF. destruct HF as [Hl Hd]. inversion Hd; subst.
    rewrite from_digits_snoc. specialize (IH Hl). nia.
Qed.

Lemma from_digits_bound base l : 0 <= base -> Forall (fun d => 0 <= d < base) l ->
  from_digits base l < base ^ Z.of_nat (List.length l).
Proof.
  intros Hb. induction l as [|d l IH] using rev_ind; intros HF.
  - cbn. lia.
  - apply Forall_app in HF. destruct HF as [Hl Hd]. inversion Hd; subst.
    rewrite from_digits_snoc, app_length. cbn [List.length].
    replace (Z.of_nat (List.length l + 1)) with (Z.succ (Z.of_nat (List.length l))) by lia.
    rewrite Z.pow_succ_r by lia. specialize (IH Hl). nia.
Qed.

Lemma from_digits_pos base d r : 2 <= base -> 0 < d -> Forall (fun d => 0 <= d < base) r ->
  0 < from_digits base (d :: r).
Proof.
  intros Hb Hd HF. rewrite from_digits_cons.
  pose proof (from_digits_nonneg base r ltac:(lia) HF).
  assert (0 < base ^ Z.of_nat (List.length r)) by (apply Z.pow_pos_nonneg; lia). nia.
Qed.

(* to_digits: the accumulator is only appended *)
Lemma to_digits_acc fuel base n acc : to_digits fuel base n acc = to_digits fuel base n [] ++ acc.
Proof.
  revert n acc. induction fuel as [|f IH]; intros n acc; cbn [to_digits].
  - destruct (n <? base); reflexivity.
  - destruct (n <? base); [reflexivity|].
    rewrite (IH (n / base) (n mod base :: acc)), (IH (n / base) [n mod base]).
    now rewrite <- app_assoc.
Qed.

Lemma to_digits_small fuel base n : n < base -> to_digits fuel base n [] = [n].
Proof. intros H. destruct fuel; cbn [to_digits]; case_ltb n base; try lia; reflexivity. Qed.

Lemma to_digits_step f base n : base <= n ->
  to_digits (S f) base n [] = to_digits f base (n / base) [] ++ [n mod base].
Proof. intros H. cbn [to_digits]. case_ltb n base; [lia|]. apply to_digits_acc. Qed.

Lemma div_lt_pow base n k : 2 <= base -> 0 <= n < base ^ (k + 1) -> 0 <= k -> 0 <= n / base < base ^ k.
Proof.
  intros Hb Hn Hk. rewrite Z.pow_add_r, Z.pow_1_r in Hn by lia. split.
  - apply Z.div_pos; lia.
  - apply Z.div_lt_upper_bound; lia.
Qed.

(* everything about to_digits with sufficient fuel, in one induction *)
Lemma to_digits_spec fuel base n : 2 <= base -> 0 <= n < base ^ (Z.of_nat fuel + 1) ->
  Forall (fun d => 0 <= d < base) (to_digits fuel base n []) /\
  from_digits base (to_digits fuel base n []) = n /\
  (0 < n -> exists d r, to_digits fuel base n [] = d :: r /\ 0 < d).
Proof.
  intros Hb. revert n. induction fuel as [|f IH]; intros n Hn.
  - cbn [Z.of_nat] in Hn. rewrite Z.pow_1_r in Hn. rewrite to_digits_small by lia.
    split; [|split].
    + constructor; [lia|constructor].
    + apply from_digits_single.
    + intros; eauto.
  - case_ltb n base.
    + rewrite to_digits_small by lia. split; [|split].
      * constructor; [lia|constructor].
      * apply from_digits_single.
      * intros; eauto.
    + rewrite to_digits_step by lia.
      assert (Hq : 0 <= n / base < base ^ (Z.of_nat f + 1)).
      { apply div_lt_pow; [lia| |lia]. replace (Z.of_nat f + 1 + 1) with (Z.of_nat (S f) + 1) by lia. exact Hn. }
      destruct (IH _ Hq) as (HF & HV & HL). split; [|split].
      * apply Forall_app. split; [exact HF|]. constructor; [|constructor].
        apply Z.mod_pos_bound. lia.
      * rewrite from_digits_snoc, HV. pose proof (Z.div_mod n base ltac:(lia)). lia.
      * intros _. assert (0 < n / base) by (apply Z.div_str_pos; lia).
        destruct (HL H0) as (d & r & E & Hd). rewrite E. exists d, (r ++ [n mod base]). split; [reflexivity|exact Hd].
Qed.

Lemma to_digits_nonempty fuel base n acc : to_digits fuel base n acc <> [].
Proof.
  revert n acc. induction fuel as [|f IH]; intros n acc; cbn [to_digits]; destruct (n <? base); try discriminate.
  apply IH.
Qed.

Lemma to_digits_length fuel base n k : 2 <= base -> 0 <= n < base ^ Z.of_nat k -> (0 < k)%nat ->
  (List.length (to_digits fuel base n []) <= k)%nat.
Proof.
  intros Hb. revert n k. induction fuel as [|f IH]; intros n k Hn Hk.
  - cbn [to_digits]. destruct (n <? base); cbn; lia.
  - case_ltb n base.
    + rewrite to_digits_small by lia. cbn; lia.
    + rewrite to_digits_step by lia. rewrite app_length. cbn [List.length].
      destruct k as [|k]; [lia|]. destruct k as [|k].
      { cbn [Z.of_nat] in Hn. change (Z.pos (Pos.of_succ_nat 0)) with 1 in Hn. rewrite Z.pow_1_r in Hn. lia. }
      assert (List.length (to_digits f base (n / base) []) <= S k)%nat; [|lia].
      apply IH; [|lia]. apply div_lt_pow; [lia| |lia].
      replace (Z.of_nat (S k) + 1) with (Z.of_nat (S (S k))) by lia. exact Hn.
Qed.

(* the fuel chosen by digits_of suffices *)
Lemma digits_of_fuel base n : 2 <= base -> 0 <= n ->
  0 <= n < base ^ (Z.of_nat (Z.to_nat (Z.log2 n) + 1) + 1).
Proof.
  intros Hb Hn. split; [exact Hn|].
  pose proof (Z.log2_nonneg n) as Hl.
  replace (Z.of_nat (Z.to_nat (Z.log2 n) + 1) + 1) with (Z.log2 n + 2) by lia.
  destruct (Z.eq_dec n 0) as [->|Hnz].
  - apply Z.pow_pos_nonneg; lia.
  - assert (n < 2 ^ Z.succ (Z.log2 n)) by (apply Z.log2_spec; lia).
    assert (2 ^ Z.succ (Z.log2 n) <= base ^ Z.succ (Z.log2 n)) by (apply Z.pow_le_mono_l; lia).
    assert (base ^ Z.succ (Z.log2 n) <= base ^ (Z.log2 n + 2)) by (apply Z.pow_le_mono_r; lia).
    lia.
Qed.

Lemma digits_of_spec base n : 2 <= base -> 0 <= n ->
  Forall (fun d => 0 <= d < base) (digits_of base n) /\
  from_digits base (digits_of base n) = n /\
  digits_of base n <> [].
Proof.
  intros Hb Hn. unfold digits_of.
  destruct (to_digits_spec _ base n Hb (digits_of_fuel base n Hb Hn)) as (HF & HV & _).
  split; [exact HF|split; [exact HV|apply to_digits_nonempty]].
Qed.

Lemma digits_of_range base n : 2 <= base -> 0 <= n -> Forall (fun d => 0 <= d < base) (digits_of base n).
Proof. intros; now apply digits_of_spec. Qed.

Lemma digits_of_value base n : 2 <= base -> 0 <= n -> from_digits base (digits_of base n) = n.
Proof. intros; now apply digits_of_spec. Qed.

Lemma digits_of_nonempty base n : digits_of base n <> [].
Proof. apply to_digits_nonempty. Qed.

Lemma digits_of_no_leading_zero base n : 2 <= base -> 0 < n ->
  exists d r, digits_of base n = d :: r /\ 0 < d.
Proof.
  intros Hb Hn. unfold digits_of.
  destruct (to_digits_spec _ base n Hb (digits_of_fuel base n Hb ltac:(lia))) as (_ & _ & HL). now apply HL.
Qed.

Lemma digits_of_small base n : n < base -> digits_of base n = [n].
Proof. intros. unfold digits_of. now apply to_digits_small. Qed.

Lemma digits_of_zero base : 2 <= base -> digits_of base 0 = [0].
Proof. intros. apply digits_of_small. lia. Qed.

Lemma digits_of_length base n k : 2 <= base -> 0 <= n < base ^ Z.of_nat k -> (0 < k)%nat ->
  (List.length (digits_of base n) <= k)%nat.
Proof. intros. unfold digits_of. now apply to_digits_length. Qed.

(* uniqueness: a digit list in range, without leading zero (or [0]), is THE digit list of its value *)
Definition canonical_digits (l : list Z) : Prop := l = [0] \/ exists d r, l = d :: r /\ 0 < d.

Lemma canonical_cases base l : 2 <= base ->
  Forall (fun d => 0 <= d < base) l -> canonical_digits l ->
  (exists m, l = [m] /\ 0 <= m < base) \/
  (exists X m, l = X ++ [m] /\ 0 <= m < base /\ Forall (fun d => 0 <= d < base) X /\
               canonical_digits X /\ 0 < from_digits base X).
Proof.
  intros Hb HF HC. destruct l as [|m X _] using rev_ind.
  { destruct HC as [HC|(d & r & HC & _)]; discriminate. }
  apply Forall_app in HF. destruct HF as [HX Hm]. inversion Hm as [|? ? Hm' _]; subst.
  destruct X as [|x X'].
  - left. exists m. split; [reflexivity|exact Hm'].
  - right. exists (x :: X'), m.
    assert (Hx : 0 < x).
    { destruct HC as [HC|(d & r & HC & Hd)].
      - destruct X'; discriminate.
      - cbn [app] in HC. injection HC as -> _. exact Hd. }
    inversion HX as [|? ? Hx' HX']; subst.
    split; [reflexivity|]. split; [exact Hm'|]. split; [exact HX|]. split.
    + right. eauto.
    + now apply from_digits_pos.
Qed.

Lemma to_digits_unique fuel base l : 2 <= base ->
  Forall (fun d => 0 <= d < base) l -> canonical_digits l ->
  from_digits base l < base ^ (Z.of_nat fuel + 1) ->
  to_digits fuel base (from_digits base l) [] = l.
Proof.
  intros Hb. revert l. induction fuel as [|f IH]; intros l HF HC Hlt.
  - destruct (canonical_cases base l Hb HF HC) as [(m & -> & Hm)|(X & m & -> & Hm & HX & HCX & Hpos)].
    + rewrite from_digits_single. now apply to_digits_small.
    + rewrite from_digits_snoc in Hlt. cbn [Z.of_nat] in Hlt. rewrite Z.pow_1_r in Hlt. nia.
  - destruct (canonical_cases base l Hb HF HC) as [(m & -> & Hm)|(X & m & -> & Hm & HX & HCX & Hpos)].
    + rewrite from_digits_single. now apply to_digits_small.
    + rewrite from_digits_snoc in *. rewrite to_digits_step by nia.
      replace ((from_digits base X * base + m) / base) with (from_digits base X)
        by (apply Z.div_unique with m; lia).
      replace ((from_digits base X * base + m) mod base) with m
        by (apply Z.mod_unique with (from_digits base X); lia).
      f_equal. apply IH; [exact HX|exact HCX|].
      replace (Z.of_nat (S f) + 1) with (Z.succ (Z.of_nat f + 1)) in Hlt by lia.
      rewrite Z.pow_succ_r in Hlt by lia. nia.
Qed.

Lemma digits_of_unique base l : 2 <= base ->
  Forall (fun d => 0 <= d < base) l -> canonical_digits l ->
  digits_of base (from_digits base l) = l.
Proof.
  intros Hb HF HC. unfold digits_of. apply to_digits_unique; try assumption.
  apply digits_of_fuel; [exact Hb|]. apply from_digits_nonneg; [lia|exact HF].
Qed.

Lemma digits_of_canonical base n : 2 <= base -> 0 <= n -> canonical_digits (digits_of base n).
Proof.
  intros Hb Hn. destruct (Z.eq_dec n 0) as [->|].
  - left. now apply digits_of_zero.
  - right. apply digits_of_no_leading_zero; lia.
Qed.
