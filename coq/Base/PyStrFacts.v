(* Base/PyStrFacts.v — proved facts about the CPython string/integer models of Base/PyStr.v:
   digit lists, characters produced by the formatters, int(format(n)) round trips, split/join/strip/lower. *)
From NV Require Import Base.Tac Base.PyStr.
From Coq Require Import String Ascii NArith.
Open Scope Z_scope.

Definition from_digits (base : Z) (l : list Z) : Z := fold_left (fun acc d => acc * base + d) l 0.

(* ------------------------------------------------------------------------------------------ *)
(** * strings <-> char lists *)

Lemma chars_str_of l : chars (str_of l) = l.
Proof. induction l; cbn; congruence. Qed.

Lemma str_of_chars s : str_of (chars s) = s.
Proof. induction s; cbn; congruence. Qed.

Lemma chars_app (a b : string) : chars (a ++ b)%string = (chars a ++ chars b)%list.
Proof. induction a; cbn; congruence. Qed.

Lemma str_of_app (a b : list ascii) : str_of (a ++ b)%list = (str_of a ++ str_of b)%string.
Proof. induction a; cbn; congruence. Qed.

Lemma chars_inj a b : chars a = chars b -> a = b.
Proof. intros H. rewrite <- (str_of_chars a), <- (str_of_chars b). now rewrite H. Qed.

Lemma str_of_inj a b : str_of a = str_of b -> a = b.
Proof. intros H. rewrite <- (chars_str_of a), <- (chars_str_of b). now rewrite H. Qed.

Lemma map_str_of_chars l : map str_of (map chars l) = l.
Proof. induction l; cbn; [reflexivity|]. now rewrite str_of_chars, IHl. Qed.

Lemma map_chars_str_of l : map chars (map str_of l) = l.
Proof. induction l; cbn; [reflexivity|]. now rewrite chars_str_of, IHl. Qed.

Lemma length_str_of l : String.length (str_of l) = List.length l.
Proof. induction l; cbn; congruence. Qed.

Lemma length_chars s : List.length (chars s) = String.length s.
Proof. induction s; cbn; congruence. Qed.

Lemma chars_nil_iff s : chars s = [] <-> s = EmptyString.
Proof. destruct s; cbn; split; congruence. Qed.

Lemma str_of_nil_iff l : str_of l = EmptyString <-> l = [].
Proof. destruct l; cbn; split; congruence. Qed.

(* ------------------------------------------------------------------------------------------ *)
(** * character codes *)

Lemma code_range c : 0 <= code c < 256.
Proof. unfold code. pose proof (N_ascii_bounded c). lia. Qed.

Lemma chr_code c : chr (code c) = c.
Proof. unfold chr, code. rewrite N2Z.id. apply ascii_N_embedding. Qed.

Lemma code_chr z : 0 <= z < 256 -> code (chr z) = z.
Proof. intros H. unfold chr, code. rewrite N_ascii_embedding by lia. lia. Qed.

Lemma code_inj a b : code a = code b -> a = b.
Proof. intros H. rewrite <- (chr_code a), <- (chr_code b). now rewrite H. Qed.

Lemma ascii_eqb_eq a b : ascii_eqb a b = true <-> a = b.
Proof. apply Ascii.eqb_eq. Qed.

Lemma ascii_eqb_neq a b : ascii_eqb a b = false <-> a <> b.
Proof. apply Ascii.eqb_neq. Qed.

Lemma ascii_eqb_refl a : ascii_eqb a a = true.
Proof. apply Ascii.eqb_refl. Qed.

Lemma ascii_eqb_sym a b : ascii_eqb a b = ascii_eqb b a.
Proof. apply Ascii.eqb_sym. Qed.

Lemma ascii_eqb_code a b : ascii_eqb a b = (code a =? code b).
Proof.
  destruct (Ascii.eqb_spec a b) as [->|N]; unfold ascii_eqb.
  - rewrite Ascii.eqb_refl. symmetry. apply Z.eqb_refl.
  - apply Ascii.eqb_neq in N. rewrite N. symmetry. apply Z.eqb_neq. intros E. apply code_inj in E.
    apply Ascii.eqb_neq in N. contradiction.
Qed.

(* ------------------------------------------------------------------------------------------ *)
(** * digit lists *)

Definition dstep (base : Z) (acc d : Z) : Z := acc * base + d.

Lemma from_digits_fold base l : from_digits base l = fold_left (dstep base) l 0.
Proof. reflexivity. Qed.

Lemma fold_dstep_app base a b acc :
  fold_left (dstep base) (a ++ b) acc = fold_left (dstep base) b (fold_left (dstep base) a acc).
Proof. apply fold_left_app. Qed.

Lemma from_digits_snoc base l d : from_digits base (l ++ [d]) = from_digits base l * base + d.
Proof. unfold from_digits. now rewrite fold_left_app. Qed.

Lemma from_digits_nil base : from_digits base [] = 0.
Proof. reflexivity. Qed.

Lemma from_digits_single base d : from_digits base [d] = d.
Proof. unfold from_digits; cbn. lia. Qed.

(* general accumulator form: fold from `acc` = acc * base^len + value *)
Lemma fold_dstep_acc base l acc :
  fold_left (dstep base) l acc = acc * base ^ Z.of_nat (List.length l) + from_digits base l.
Proof.
  revert acc. induction l as [|d l IH] using rev_ind; intros acc.
  - cbn. lia.
  - rewrite fold_left_app, from_digits_snoc, IH, app_length. cbn [List.length fold_left].
    replace (Z.of_nat (List.length l + 1)) with (Z.succ (Z.of_nat (List.length l))) by lia.
    rewrite Z.pow_succ_r by lia. unfold dstep. ring.
Qed.

Lemma from_digits_app base a b :
  from_digits base (a ++ b) = from_digits base a * base ^ Z.of_nat (List.length b) + from_digits base b.
Proof. unfold from_digits at 1. rewrite fold_left_app. apply fold_dstep_acc. Qed.

Lemma from_digits_cons base d l :
  from_digits base (d :: l) = d * base ^ Z.of_nat (List.length l) + from_digits base l.
Proof. change (d :: l) with ([d] ++ l). now rewrite from_digits_app, from_digits_single. Qed.

Lemma from_digits_repeat0 base k l : from_digits base (repeat 0 k ++ l) = from_digits base l.
Proof.
  induction k as [|k IH]; [reflexivity|].
  cbn [repeat app]. rewrite from_digits_cons. rewrite IH. lia.
Qed.

Lemma from_digits_nonneg base l : 0 <= base -> Forall (fun d => 0 <= d < base) l -> 0 <= from_digits base l.
Proof.
  intros Hb. induction l as [|d l IH] using rev_ind; intros HF.
  - cbn. lia.
  - apply Forall_app in HF. destruct HF as [Hl Hd]. inversion Hd; subst.
    rewrite from_digits_snoc. specialize (IH Hl). nia.
Qed.

Lemma from_digits_bound base l : 0 <= base -> Forall (fun d => 0 <= d < base) l ->
  from_digits base l < base ^ Z.of_nat (List.length l).
Proof.
  intros Hb. induction l as [|d l IH] using rev_ind; intros HF.
  - cbn. lia.
  - apply Forall_app in HF. destruct HF as [Hl Hd]. inversion Hd; subst.
    rewrite from_digits_snoc, app_length. cbn [List.length].
    replace (Z.of_nat (List.length l + 1)) with (Z.succ (Z.of_nat (List.length l))) by lia.
    rewrite Z.pow_succ_r by lia. specialize (IH Hl). nia.
Qed.

Lemma from_digits_pos base d r : 2 <= base -> 0 < d -> Forall (fun d => 0 <= d < base) r ->
  0 < from_digits base (d :: r).
Proof.
  intros Hb Hd HF. rewrite from_digits_cons.
  pose proof (from_digits_nonneg base r ltac:(lia) HF).
  assert (0 < base ^ Z.of_nat (List.length r)) by (apply Z.pow_pos_nonneg; lia). nia.
Qed.

(* to_digits: the accumulator is only appended *)
Lemma to_digits_acc fuel base n acc : to_digits fuel base n acc = to_digits fuel base n [] ++ acc.
Proof.
  revert n acc. induction fuel as [|f IH]; intros n acc; cbn [to_digits].
  - destruct (n <? base); reflexivity.
  - destruct (n <? base); [reflexivity|].
    rewrite (IH (n / base) (n mod base :: acc)), (IH (n / base) [n mod base]).
    now rewrite <- app_assoc.
Qed.

Lemma to_digits_small fuel base n : n < base -> to_digits fuel base n [] = [n].
Proof. intros H. destruct fuel; cbn [to_digits]; case_ltb n base; try lia; reflexivity. Qed.

Lemma to_digits_step f base n : base <= n ->
  to_digits (S f) base n [] = to_digits f base (n / base) [] ++ [n mod base].
Proof. intros H. cbn [to_digits]. case_ltb n base; [lia|]. apply to_digits_acc. Qed.

Lemma div_lt_pow base n k : 2 <= base -> 0 <= n < base ^ (k + 1) -> 0 <= k -> 0 <= n / base < base ^ k.
Proof.
  intros Hb Hn Hk. rewrite Z.pow_add_r, Z.pow_1_r in Hn by lia. split.
  - apply Z.div_pos; lia.
  - apply Z.div_lt_upper_bound; lia.
Qed.

(* everything about to_digits with sufficient fuel, in one induction *)
Lemma to_digits_spec fuel base n : 2 <= base -> 0 <= n < base ^ (Z.of_nat fuel + 1) ->
  Forall (fun d => 0 <= d < base) (to_digits fuel base n []) /\
  from_digits base (to_digits fuel base n []) = n /\
  (0 < n -> exists d r, to_digits fuel base n [] = d :: r /\ 0 < d).
Proof.
  intros Hb. revert n. induction fuel as [|f IH]; intros n Hn.
  - cbn [Z.of_nat] in Hn. rewrite Z.pow_1_r in Hn. rewrite to_digits_small by lia.
    split; [|split].
    + constructor; [lia|constructor].
    + apply from_digits_single.
    + intros; eauto.
  - case_ltb n base.
    + rewrite to_digits_small by lia. split; [|split].
      * constructor; [lia|constructor].
      * apply from_digits_single.
      * intros; eauto.
    + rewrite to_digits_step by lia.
      assert (Hq : 0 <= n / base < base ^ (Z.of_nat f + 1)).
      { apply div_lt_pow; [lia| |lia]. replace (Z.of_nat f + 1 + 1) with (Z.of_nat (S f) + 1) by lia. exact Hn. }
      destruct (IH _ Hq) as (HF & HV & HL). split; [|split].
      * apply Forall_app. split; [exact HF|]. constructor; [|constructor].
        apply Z.mod_pos_bound. lia.
      * rewrite from_digits_snoc, HV. pose proof (Z.div_mod n base ltac:(lia)). lia.
      * intros _. assert (0 < n / base) by (apply Z.div_str_pos; lia).
        destruct (HL H0) as (d & r & E & Hd). rewrite E. exists d, (r ++ [n mod base]). split; [reflexivity|exact Hd].
Qed.

Lemma to_digits_nonempty fuel base n acc : to_digits fuel base n acc <> [].
Proof.
  revert n acc. induction fuel as [|f IH]; intros n acc; cbn [to_digits]; destruct (n <? base); try discriminate.
  apply IH.
Qed.

Lemma to_digits_length fuel base n k : 2 <= base -> 0 <= n < base ^ Z.of_nat k -> (0 < k)%nat ->
  (List.length (to_digits fuel base n []) <= k)%nat.
Proof.
  intros Hb. revert n k. induction fuel as [|f IH]; intros n k Hn Hk.
  - cbn [to_digits]. destruct (n <? base); cbn; lia.
  - case_ltb n base.
    + rewrite to_digits_small by lia. cbn; lia.
    + rewrite to_digits_step by lia. rewrite app_length. cbn [List.length].
      destruct k as [|k]; [lia|]. destruct k as [|k].
      { cbn [Z.of_nat] in Hn. change (Z.pos (Pos.of_succ_nat 0)) with 1 in Hn. rewrite Z.pow_1_r in Hn. lia. }
      assert (List.length (to_digits f base (n / base) []) <= S k)%nat; [|lia].
      apply IH; [|lia]. apply div_lt_pow; [lia| |lia].
      replace (Z.of_nat (S k) + 1) with (Z.of_nat (S (S k))) by lia. exact Hn.
Qed.

(* the fuel chosen by digits_of suffices *)
Lemma digits_of_fuel base n : 2 <= base -> 0 <= n ->
  0 <= n < base ^ (Z.of_nat (Z.to_nat (Z.log2 n) + 1) + 1).
Proof.
  intros Hb Hn. split; [exact Hn|].
  pose proof (Z.log2_nonneg n) as Hl.
  replace (Z.of_nat (Z.to_nat (Z.log2 n) + 1) + 1) with (Z.log2 n + 2) by lia.
  destruct (Z.eq_dec n 0) as [->|Hnz].
  - apply Z.pow_pos_nonneg; lia.
  - assert (n < 2 ^ Z.succ (Z.log2 n)) by (apply Z.log2_spec; lia).
    assert (2 ^ Z.succ (Z.log2 n) <= base ^ Z.succ (Z.log2 n)) by (apply Z.pow_le_mono_l; lia).
    assert (base ^ Z.succ (Z.log2 n) <= base ^ (Z.log2 n + 2)) by (apply Z.pow_le_mono_r; lia).
    lia.
Qed.

Lemma digits_of_spec base n : 2 <= base -> 0 <= n ->
  Forall (fun d => 0 <= d < base) (digits_of base n) /\
  from_digits base (digits_of base n) = n /\
  digits_of base n <> [].
Proof.
  intros Hb Hn. unfold digits_of.
  destruct (to_digits_spec _ base n Hb (digits_of_fuel base n Hb Hn)) as (HF & HV & _).
  split; [exact HF|split; [exact HV|apply to_digits_nonempty]].
Qed.

Lemma digits_of_range base n : 2 <= base -> 0 <= n -> Forall (fun d => 0 <= d < base) (digits_of base n).
Proof. intros; now apply digits_of_spec. Qed.

Lemma digits_of_value base n : 2 <= base -> 0 <= n -> from_digits base (digits_of base n) = n.
Proof. intros; now apply digits_of_spec. Qed.

Lemma digits_of_nonempty base n : digits_of base n <> [].
Proof. apply to_digits_nonempty. Qed.

Lemma digits_of_no_leading_zero base n : 2 <= base -> 0 < n ->
  exists d r, digits_of base n = d :: r /\ 0 < d.
Proof.
  intros Hb Hn. unfold digits_of.
  destruct (to_digits_spec _ base n Hb (digits_of_fuel base n Hb ltac:(lia))) as (_ & _ & HL). now apply HL.
Qed.

Lemma digits_of_small base n : n < base -> digits_of base n = [n].
Proof. intros. unfold digits_of. now apply to_digits_small. Qed.

Lemma digits_of_zero base : 2 <= base -> digits_of base 0 = [0].
Proof. intros. apply digits_of_small. lia. Qed.

Lemma digits_of_length base n k : 2 <= base -> 0 <= n < base ^ Z.of_nat k -> (0 < k)%nat ->
  (List.length (digits_of base n) <= k)%nat.
Proof. intros. unfold digits_of. now apply to_digits_length. Qed.

(* uniqueness: a digit list in range, without leading zero (or [0]), is THE digit list of its value *)
Definition canonical_digits (l : list Z) : Prop := l = [0] \/ exists d r, l = d :: r /\ 0 < d.

Lemma canonical_cases base l : 2 <= base ->
  Forall (fun d => 0 <= d < base) l -> canonical_digits l ->
  (exists m, l = [m] /\ 0 <= m < base) \/
  (exists X m, l = X ++ [m] /\ 0 <= m < base /\ Forall (fun d => 0 <= d < base) X /\
               canonical_digits X /\ 0 < from_digits base X).
Proof.
  intros Hb HF HC. destruct l as [|m X _] using rev_ind.
  { destruct HC as [HC|(d & r & HC & _)]; discriminate. }
  apply Forall_app in HF. destruct HF as [HX Hm]. inversion Hm as [|? ? Hm' _]; subst.
  destruct X as [|x X'].
  - left. exists m. split; [reflexivity|exact Hm'].
  - right. exists (x :: X'), m.
    assert (Hx : 0 < x).
    { destruct HC as [HC|(d & r & HC & Hd)].
      - destruct X'; discriminate.
      - cbn [app] in HC. injection HC as -> _. exact Hd. }
    inversion HX as [|? ? Hx' HX']; subst.
    split; [reflexivity|]. split; [exact Hm'|]. split; [exact HX|]. split.
    + right. eauto.
    + now apply from_digits_pos.
Qed.

Lemma to_digits_unique fuel base l : 2 <= base ->
  Forall (fun d => 0 <= d < base) l -> canonical_digits l ->
  from_digits base l < base ^ (Z.of_nat fuel + 1) ->
  to_digits fuel base (from_digits base l) [] = l.
Proof.
  intros Hb. revert l. induction fuel as [|f IH]; intros l HF HC Hlt.
  - destruct (canonical_cases base l Hb HF HC) as [(m & -> & Hm)|(X & m & -> & Hm & HX & HCX & Hpos)].
    + rewrite from_digits_single. now apply to_digits_small.
    + rewrite from_digits_snoc in Hlt. cbn [Z.of_nat] in Hlt. rewrite Z.pow_1_r in Hlt. nia.
  - destruct (canonical_cases base l Hb HF HC) as [(m & -> & Hm)|(X & m & -> & Hm & HX & HCX & Hpos)].
    + rewrite from_digits_single. now apply to_digits_small.
    + rewrite from_digits_snoc in *. rewrite to_digits_step by nia.
      replace ((from_digits base X * base + m) / base) with (from_digits base X)
        by (apply Z.div_unique with m; lia).
      replace ((from_digits base X * base + m) mod base) with m
        by (apply Z.mod_unique with (from_digits base X); lia).
      f_equal. apply IH; [exact HX|exact HCX|].
      replace (Z.of_nat (S f) + 1) with (Z.succ (Z.of_nat f + 1)) in Hlt by lia.
      rewrite Z.pow_succ_r in Hlt by lia. nia.
Qed.

Lemma digits_of_unique base l : 2 <= base ->
  Forall (fun d => 0 <= d < base) l -> canonical_digits l ->
  digits_of base (from_digits base l) = l.
Proof.
  intros Hb HF HC. unfold digits_of. apply to_digits_unique; try assumption.
  apply digits_of_fuel; [exact Hb|]. apply from_digits_nonneg; [lia|exact HF].
Qed.

Lemma digits_of_canonical base n : 2 <= base -> 0 <= n -> canonical_digits (digits_of base n).
Proof.
  intros Hb Hn. destruct (Z.eq_dec n 0) as [->|].
  - left. now apply digits_of_zero.
  - right. apply digits_of_no_leading_zero; lia.
Qed.

(* ------------------------------------------------------------------------------------------ *)
(** * digit characters *)

Lemma digit_val_code c d : digit_val c = Some d ->
  (48 <= code c <= 57 /\ d = code c - 48) \/ (97 <= code c <= 122 /\ d = code c - 87) \/
  (65 <= code c <= 90 /\ d = code c - 55).
Proof.
  unfold digit_val. intros H.
  destruct ((48 <=? code c) && (code c <=? 57)) eqn:E1; [injection H as <-; lia|].
  destruct ((97 <=? code c) && (code c <=? 122)) eqn:E2; [injection H as <-; lia|].
  destruct ((65 <=? code c) && (code c <=? 90)) eqn:E3; [injection H as <-; lia|discriminate].
Qed.

Lemma digit_val_range c d : digit_val c = Some d -> 0 <= d < 36.
Proof. intros H. apply digit_val_code in H. lia. Qed.

Lemma digit_in_Some base c d : digit_in base c = Some d <-> digit_val c = Some d /\ d < base.
Proof.
  unfold digit_in. destruct (digit_val c) as [d'|]; [|split; [discriminate|intros [? _]; discriminate]].
  case_ltb d' base; split.
  - intros E; injection E as ->. auto.
  - intros [E _]. exact E.
  - discriminate.
  - intros [E ?]. injection E as ->. lia.
Qed.

Lemma digit_in_range base c d : digit_in base c = Some d -> 0 <= d < base.
Proof. intros H. apply digit_in_Some in H. destruct H as [H ?]. apply digit_val_range in H. lia. Qed.

Lemma digit_in_code base c d : digit_in base c = Some d ->
  (48 <= code c <= 57 \/ 97 <= code c <= 122 \/ 65 <= code c <= 90).
Proof. intros H. apply digit_in_Some in H. destruct H as [H _]. apply digit_val_code in H. lia. Qed.

Lemma digit_in_mono base base' c d : base <= base' -> digit_in base c = Some d -> digit_in base' c = Some d.
Proof. intros Hb H. apply digit_in_Some in H. apply digit_in_Some. split; [tauto|lia]. Qed.

Lemma digit_val_digit_char d : 0 <= d < 36 -> digit_val (digit_char d) = Some d.
Proof.
  intros Hd. unfold digit_char, digit_val. case_ltb d 10; rewrite code_chr by lia.
  - destruct ((48 <=? 48 + d) && (48 + d <=? 57)) eqn:E1; [f_equal; lia|lia].
  - destruct ((48 <=? 87 + d) && (87 + d <=? 57)) eqn:E1; [lia|].
    destruct ((97 <=? 87 + d) && (87 + d <=? 122)) eqn:E2; [f_equal; lia|lia].
Qed.

Lemma digit_val_digit_char_upper d : 0 <= d < 36 -> digit_val (digit_char_upper d) = Some d.
Proof.
  intros Hd. unfold digit_char_upper, digit_val. case_ltb d 10; rewrite code_chr by lia.
  - destruct ((48 <=? 48 + d) && (48 + d <=? 57)) eqn:E1; [f_equal; lia|lia].
  - destruct ((48 <=? 55 + d) && (55 + d <=? 57)) eqn:E1; [lia|].
    destruct ((97 <=? 55 + d) && (55 + d <=? 122)) eqn:E2; [lia|].
    destruct ((65 <=? 55 + d) && (55 + d <=? 90)) eqn:E3; [f_equal; lia|lia].
Qed.

(* generalised: any base up to 36 (the task statement has 2 <= base <= 16) *)
Lemma digit_in_digit_char_gen base d : base <= 36 -> 0 <= d < base -> digit_in base (digit_char d) = Some d.
Proof. intros Hb Hd. apply digit_in_Some. split; [apply digit_val_digit_char; lia|lia]. Qed.

Lemma digit_in_digit_char_upper_gen base d : base <= 36 -> 0 <= d < base ->
  digit_in base (digit_char_upper d) = Some d.
Proof. intros Hb Hd. apply digit_in_Some. split; [apply digit_val_digit_char_upper; lia|lia]. Qed.

Lemma digit_in_digit_char base d : 2 <= base <= 16 -> 0 <= d < base -> digit_in base (digit_char d) = Some d.
Proof. intros Hb Hd. apply digit_in_digit_char_gen; lia. Qed.

Lemma digit_in_digit_char_upper base d : 2 <= base <= 16 -> 0 <= d < base ->
  digit_in base (digit_char_upper d) = Some d.
Proof. intros Hb Hd. apply digit_in_digit_char_upper_gen; lia. Qed.

Lemma digit_char_0 : digit_char 0 = ch_0.
Proof. reflexivity. Qed.
Lemma digit_char_upper_0 : digit_char_upper 0 = ch_0.
Proof. reflexivity. Qed.

Lemma code_digit_char d : 0 <= d < 36 -> code (digit_char d) = if d <? 10 then 48 + d else 87 + d.
Proof. intros. unfold digit_char. case_ltb d 10; apply code_chr; lia. Qed.

Lemma code_digit_char_upper d : 0 <= d < 36 -> code (digit_char_upper d) = if d <? 10 then 48 + d else 55 + d.
Proof. intros. unfold digit_char_upper. case_ltb d 10; apply code_chr; lia. Qed.

Lemma is_digit_digit_char d : 0 <= d < 10 -> is_digit (digit_char d) = true.
Proof. intros H. unfold is_digit. rewrite code_digit_char by lia. case_ltb d 10; lia. Qed.

Lemma is_digit_iff c : is_digit c = true <-> exists d, digit_in 10 c = Some d.
Proof.
  unfold is_digit. split.
  - intros H. exists (code c - 48). apply digit_in_Some. unfold digit_val. rewrite H. split; [reflexivity|lia].
  - intros [d H]. apply digit_in_Some in H. destruct H as [H Hd]. apply digit_val_code in H. lia.
Qed.

(* character classes of digit characters: never whitespace, sign, underscore, or a base-prefix letter *)
Definition digit_of (base : Z) (c : ascii) : Prop := exists d, digit_in base c = Some d.
Definition all_digits (base : Z) (l : list ascii) : Prop := Forall (digit_of base) l.
Definition dval (base : Z) (c : ascii) : Z := match digit_in base c with Some d => d | None => 0 end.

Lemma digit_not_space_int base c : digit_of base c -> is_space_int c = false.
Proof. intros [d H]. apply digit_in_code in H. unfold is_space_int. lia. Qed.

Lemma digit_not_space base c : digit_of base c -> is_space c = false.
Proof. intros [d H]. apply digit_in_code in H. unfold is_space. lia. Qed.

Lemma digit_not_char base c x : digit_of base c ->
  (48 <=? code x) && (code x <=? 57) || (97 <=? code x) && (code x <=? 122) || (65 <=? code x) && (code x <=? 90) = false ->
  ascii_eqb c x = false.
Proof. intros [d H] Hx. apply digit_in_code in H. rewrite ascii_eqb_code. lia. Qed.

Lemma digit_not_us base c : digit_of base c -> ascii_eqb c ch_us = false.
Proof. intros H. eapply digit_not_char; [exact H|reflexivity]. Qed.
Lemma digit_not_plus base c : digit_of base c -> ascii_eqb c ch_plus = false.
Proof. intros H. eapply digit_not_char; [exact H|reflexivity]. Qed.
Lemma digit_not_minus base c : digit_of base c -> ascii_eqb c ch_minus = false.
Proof. intros H. eapply digit_not_char; [exact H|reflexivity]. Qed.

Lemma digit_not_prefix base c : digit_of base c -> is_prefix_char base c = false.
Proof.
  intros [d H]. apply digit_in_Some in H. destruct H as [H Hd]. apply digit_val_code in H.
  unfold is_prefix_char. rewrite !ascii_eqb_code.
  change (code "x") with 120. change (code "X") with 88. change (code "b") with 98.
  change (code "B") with 66. change (code "o") with 111. change (code "O") with 79.
  case_eqb base 16; [lia|]. case_eqb base 2; [lia|]. case_eqb base 8; [lia|]. reflexivity.
Qed.

(* a character that is not a digit of the base does not occur among digit characters *)
Lemma all_digits_no_char base c l : all_digits base l -> digit_in base c = None ->
  existsb (ascii_eqb c) l = false.
Proof.
  intros HF Hc. induction HF as [|a l [d Ha] _ IH]; [reflexivity|].
  cbn [existsb]. rewrite IH, orb_false_r. apply ascii_eqb_neq. intros ->. congruence.
Qed.

Lemma contains_char_all_digits base c s : all_digits base (chars s) -> digit_in base c = None ->
  contains_char c s = false.
Proof. apply all_digits_no_char. Qed.

Lemma digit_in_None_nondigit base c : digit_val c = None -> digit_in base c = None.
Proof. unfold digit_in. now intros ->. Qed.

Lemma all_digits_mono base base' l : base <= base' -> all_digits base l -> all_digits base' l.
Proof.
  intros Hb HF. eapply Forall_impl; [|exact HF]. intros c [d H]. exists d. eapply digit_in_mono; eauto.
Qed.

Lemma all_digits_app base a b : all_digits base (a ++ b) <-> all_digits base a /\ all_digits base b.
Proof. apply Forall_app. Qed.

Lemma all_digits_map_digit_char base ds : base <= 36 -> Forall (fun d => 0 <= d < base) ds ->
  all_digits base (map digit_char ds).
Proof.
  intros Hb HF. induction HF as [|d ds Hd _ IH]; constructor; [|exact IH].
  exists d. now apply digit_in_digit_char_gen.
Qed.

Lemma all_digits_map_digit_char_upper base ds : base <= 36 -> Forall (fun d => 0 <= d < base) ds ->
  all_digits base (map digit_char_upper ds).
Proof.
  intros Hb HF. induction HF as [|d ds Hd _ IH]; constructor; [|exact IH].
  exists d. now apply digit_in_digit_char_upper_gen.
Qed.

Lemma map_dval_digit_char base ds : base <= 36 -> Forall (fun d => 0 <= d < base) ds ->
  map (dval base) (map digit_char ds) = ds.
Proof.
  intros Hb HF. induction HF as [|d ds Hd _ IH]; [reflexivity|].
  cbn [map]. rewrite IH. unfold dval. now rewrite digit_in_digit_char_gen.
Qed.

Lemma map_dval_digit_char_upper base ds : base <= 36 -> Forall (fun d => 0 <= d < base) ds ->
  map (dval base) (map digit_char_upper ds) = ds.
Proof.
  intros Hb HF. induction HF as [|d ds Hd _ IH]; [reflexivity|].
  cbn [map]. rewrite IH. unfold dval. now rewrite digit_in_digit_char_upper_gen.
Qed.

Lemma map_dval_range base l : all_digits base l -> Forall (fun d => 0 <= d < base) (map (dval base) l).
Proof.
  intros HF. induction HF as [|c l [d Hc] _ IH]; cbn [map]; constructor; [|exact IH].
  unfold dval. rewrite Hc. eapply digit_in_range; eauto.
Qed.

(* ---- characters produced by the formatters ---- *)

Definition fmt_digit (up : bool) : Z -> ascii := if up then digit_char_upper else digit_char.

Lemma fmt_nat_eq base up n : fmt_nat base up n = map (fmt_digit up) (digits_of base n).
Proof. reflexivity. Qed.

Lemma all_digits_map_fmt_digit base up ds : base <= 36 -> Forall (fun d => 0 <= d < base) ds ->
  all_digits base (map (fmt_digit up) ds).
Proof. destruct up; [apply all_digits_map_digit_char_upper|apply all_digits_map_digit_char]. Qed.

Lemma map_dval_fmt_digit base up ds : base <= 36 -> Forall (fun d => 0 <= d < base) ds ->
  map (dval base) (map (fmt_digit up) ds) = ds.
Proof. destruct up; [apply map_dval_digit_char_upper|apply map_dval_digit_char]. Qed.

Lemma fmt_nat_all_digits base up n : 2 <= base <= 36 -> 0 <= n -> all_digits base (fmt_nat base up n).
Proof.
  intros Hb Hn. rewrite fmt_nat_eq. apply all_digits_map_fmt_digit; [lia|]. apply digits_of_range; lia.
Qed.

Lemma fmt_nat_chars base up n : 2 <= base <= 16 -> 0 <= n ->
  Forall (fun c => exists d, digit_in base c = Some d) (fmt_nat base up n).
Proof. intros Hb Hn. apply (fmt_nat_all_digits base up n); lia. Qed.

Lemma fmt_nat_nonempty base up n : fmt_nat base up n <> [].
Proof.
  rewrite fmt_nat_eq. pose proof (digits_of_nonempty base n). destruct (digits_of base n); [congruence|discriminate].
Qed.

Lemma fmt_nat_length base up n : List.length (fmt_nat base up n) = List.length (digits_of base n).
Proof. rewrite fmt_nat_eq. apply map_length. Qed.

Lemma fmt_nat_dvals base up n : 2 <= base <= 36 -> 0 <= n ->
  map (dval base) (fmt_nat base up n) = digits_of base n.
Proof. intros Hb Hn. rewrite fmt_nat_eq. apply map_dval_fmt_digit; [lia|]. apply digits_of_range; lia. Qed.

Lemma repeat_char_repeat c k : repeat_char c k = repeat c k.
Proof. induction k; cbn; congruence. Qed.

Lemma repeat_char_length c k : List.length (repeat_char c k) = k.
Proof. rewrite repeat_char_repeat. apply repeat_length. Qed.

Lemma digit_of_ch_0 base : 0 < base -> digit_of base ch_0.
Proof. intros Hb. exists 0. apply digit_in_Some. split; [reflexivity|lia]. Qed.

Lemma dval_ch_0 base : dval base ch_0 = 0.
Proof. unfold dval, digit_in. change (digit_val ch_0) with (Some 0). cbv beta iota. destruct (0 <? base); reflexivity. Qed.

Lemma all_digits_repeat_0 base k : 0 < base -> all_digits base (repeat_char ch_0 k).
Proof. intros Hb. induction k; cbn; constructor; [now apply digit_of_ch_0|assumption]. Qed.

Lemma pad0_all_digits base k l : 0 < base -> all_digits base l -> all_digits base (pad0 k l).
Proof. intros Hb Hl. unfold pad0. apply all_digits_app. split; [now apply all_digits_repeat_0|exact Hl]. Qed.

Lemma map_dval_pad0 base k l :
  map (dval base) (pad0 k l) = repeat 0 (k - List.length l) ++ map (dval base) l.
Proof.
  unfold pad0. rewrite map_app. f_equal. induction (k - List.length l)%nat as [|j IH]; [reflexivity|].
  cbn [repeat_char map repeat]. now rewrite IH, dval_ch_0.
Qed.

Lemma pad0_length k l : (List.length l <= k)%nat -> List.length (pad0 k l) = k.
Proof. intros H. unfold pad0. rewrite app_length, repeat_char_length. lia. Qed.

Lemma pad0_length_ge k l : (k <= List.length l)%nat -> pad0 k l = l.
Proof. intros H. unfold pad0. replace (k - List.length l)%nat with 0%nat by lia. reflexivity. Qed.

Lemma pad0_nonempty k l : l <> [] -> pad0 k l <> [].
Proof. unfold pad0. intros H E. apply app_eq_nil in E. tauto. Qed.

(* chars of each formatter are digits of its base (for n >= 0) *)
Lemma fmt_d_nonneg n : 0 <= n -> fmt_d n = str_of (fmt_nat 10 false n).
Proof. intros H. unfold fmt_d. case_ltb n 0; [lia|reflexivity]. Qed.
Lemma fmt_x_nonneg n : 0 <= n -> fmt_x n = str_of (fmt_nat 16 false n).
Proof. intros H. unfold fmt_x. case_ltb n 0; [lia|reflexivity]. Qed.
Lemma fmt_X_nonneg n : 0 <= n -> fmt_X n = str_of (fmt_nat 16 true n).
Proof. intros H. unfold fmt_X. case_ltb n 0; [lia|reflexivity]. Qed.
Lemma fmt_d_neg n : n < 0 -> fmt_d n = String ch_minus (fmt_d (- n)).
Proof. intros H. unfold fmt_d. case_ltb n 0; [|lia]. case_ltb (- n) 0; [lia|reflexivity]. Qed.
Lemma fmt_x_neg n : n < 0 -> fmt_x n = String ch_minus (fmt_x (- n)).
Proof. intros H. unfold fmt_x. case_ltb n 0; [|lia]. case_ltb (- n) 0; [lia|reflexivity]. Qed.
Lemma fmt_X_neg n : n < 0 -> fmt_X n = String ch_minus (fmt_X (- n)).
Proof. intros H. unfold fmt_X. case_ltb n 0; [|lia]. case_ltb (- n) 0; [lia|reflexivity]. Qed.

Lemma fmt_d_digits n : 0 <= n -> all_digits 10 (chars (fmt_d n)).
Proof. intros H. rewrite fmt_d_nonneg, chars_str_of by lia. apply fmt_nat_all_digits; lia. Qed.
Lemma fmt_x_hexdigits n : 0 <= n -> all_digits 16 (chars (fmt_x n)).
Proof. intros H. rewrite fmt_x_nonneg, chars_str_of by lia. apply fmt_nat_all_digits; lia. Qed.
Lemma fmt_X_hexdigits n : 0 <= n -> all_digits 16 (chars (fmt_X n)).
Proof. intros H. rewrite fmt_X_nonneg, chars_str_of by lia. apply fmt_nat_all_digits; lia. Qed.
Lemma fmt_x_pad_hexdigits k n : 0 <= n -> all_digits 16 (chars (fmt_x_pad k n)).
Proof. intros H. unfold fmt_x_pad. rewrite chars_str_of. apply pad0_all_digits; [lia|]. apply fmt_nat_all_digits; lia. Qed.
Lemma fmt_X_pad_hexdigits k n : 0 <= n -> all_digits 16 (chars (fmt_X_pad k n)).
Proof. intros H. unfold fmt_X_pad. rewrite chars_str_of. apply pad0_all_digits; [lia|]. apply fmt_nat_all_digits; lia. Qed.
Lemma fmt_d_pad_digits k n : 0 <= n -> all_digits 10 (chars (fmt_d_pad k n)).
Proof. intros H. unfold fmt_d_pad. rewrite chars_str_of. apply pad0_all_digits; [lia|]. apply fmt_nat_all_digits; lia. Qed.
Lemma fmt_b_pad_bits k n : 0 <= n -> all_digits 2 (chars (fmt_b_pad k n)).
Proof. intros H. unfold fmt_b_pad. rewrite chars_str_of. apply pad0_all_digits; [lia|]. apply fmt_nat_all_digits; lia. Qed.

(* consequences: no '.', ':', '/', '-', '+', '_', ' ', 'x', 'X', whitespace ... in a printed numeral *)
Lemma fmt_d_no_char c n : 0 <= n -> is_digit c = false -> contains_char c (fmt_d n) = false.
Proof.
  intros Hn Hc. eapply contains_char_all_digits; [now apply fmt_d_digits|].
  destruct (digit_in 10 c) as [d|] eqn:E; [|reflexivity].
  assert (is_digit c = true) by (apply is_digit_iff; eauto). congruence.
Qed.

Lemma fmt_d_pad_no_char c k n : 0 <= n -> is_digit c = false -> contains_char c (fmt_d_pad k n) = false.
Proof.
  intros Hn Hc. eapply contains_char_all_digits; [now apply fmt_d_pad_digits|].
  destruct (digit_in 10 c) as [d|] eqn:E; [|reflexivity].
  assert (is_digit c = true) by (apply is_digit_iff; eauto). congruence.
Qed.

Lemma fmt_x_no_char c n : 0 <= n -> digit_in 16 c = None -> contains_char c (fmt_x n) = false.
Proof. intros Hn Hc. eapply contains_char_all_digits; [now apply fmt_x_hexdigits|exact Hc]. Qed.
Lemma fmt_X_no_char c n : 0 <= n -> digit_in 16 c = None -> contains_char c (fmt_X n) = false.
Proof. intros Hn Hc. eapply contains_char_all_digits; [now apply fmt_X_hexdigits|exact Hc]. Qed.
Lemma fmt_x_pad_no_char c k n : 0 <= n -> digit_in 16 c = None -> contains_char c (fmt_x_pad k n) = false.
Proof. intros Hn Hc. eapply contains_char_all_digits; [now apply fmt_x_pad_hexdigits|exact Hc]. Qed.
Lemma fmt_X_pad_no_char c k n : 0 <= n -> digit_in 16 c = None -> contains_char c (fmt_X_pad k n) = false.
Proof. intros Hn Hc. eapply contains_char_all_digits; [now apply fmt_X_pad_hexdigits|exact Hc]. Qed.
Lemma fmt_b_pad_no_char c k n : 0 <= n -> digit_in 2 c = None -> contains_char c (fmt_b_pad k n) = false.
Proof. intros Hn Hc. eapply contains_char_all_digits; [now apply fmt_b_pad_bits|exact Hc]. Qed.

Lemma fmt_x_no_colon n : 0 <= n -> contains_char ":" (fmt_x n) = false.
Proof. intros. now apply fmt_x_no_char. Qed.
Lemma fmt_x_no_dot n : 0 <= n -> contains_char "." (fmt_x n) = false.
Proof. intros. now apply fmt_x_no_char. Qed.
Lemma fmt_x_no_slash n : 0 <= n -> contains_char "/" (fmt_x n) = false.
Proof. intros. now apply fmt_x_no_char. Qed.
Lemma fmt_x_no_minus n : 0 <= n -> contains_char "-" (fmt_x n) = false.
Proof. intros. now apply fmt_x_no_char. Qed.
Lemma fmt_x_no_x n : 0 <= n -> contains_char "x" (fmt_x n) = false.
Proof. intros. now apply fmt_x_no_char. Qed.
Lemma fmt_d_no_dot n : 0 <= n -> contains_char "." (fmt_d n) = false.
Proof. intros. now apply fmt_d_no_char. Qed.
Lemma fmt_d_no_colon n : 0 <= n -> contains_char ":" (fmt_d n) = false.
Proof. intros. now apply fmt_d_no_char. Qed.
Lemma fmt_d_no_slash n : 0 <= n -> contains_char "/" (fmt_d n) = false.
Proof. intros. now apply fmt_d_no_char. Qed.
Lemma fmt_d_no_minus n : 0 <= n -> contains_char "-" (fmt_d n) = false.
Proof. intros. now apply fmt_d_no_char. Qed.
Lemma fmt_d_no_space n : 0 <= n -> contains_char " " (fmt_d n) = false.
Proof. intros. now apply fmt_d_no_char. Qed.
Lemma fmt_x_pad_no_colon k n : 0 <= n -> contains_char ":" (fmt_x_pad k n) = false.
Proof. intros. now apply fmt_x_pad_no_char. Qed.
Lemma fmt_x_pad_no_dot k n : 0 <= n -> contains_char "." (fmt_x_pad k n) = false.
Proof. intros. now apply fmt_x_pad_no_char. Qed.
Lemma fmt_X_pad_no_minus k n : 0 <= n -> contains_char "-" (fmt_X_pad k n) = false.
Proof. intros. now apply fmt_X_pad_no_char. Qed.
Lemma fmt_X_pad_no_colon k n : 0 <= n -> contains_char ":" (fmt_X_pad k n) = false.
Proof. intros. now apply fmt_X_pad_no_char. Qed.

(* ------------------------------------------------------------------------------------------ *)
(** * int(...) on digit-only text; parse-print round trips *)

Lemma scan_digits_all_digits base l acc k : all_digits base l -> (l <> [] \/ (0 < k)%nat) ->
  scan_digits base l acc k false = Some (fold_left (fun a d => a * base + d) (map (dval base) l) acc, []).
Proof.
  intros HF. revert acc k. induction HF as [|c l [d Hc] _ IH]; intros acc k Hk.
  - cbn [scan_digits map fold_left]. destruct Hk as [Hk|Hk]; [congruence|].
    destruct k; [lia|reflexivity].
  - cbn [scan_digits map fold_left]. unfold dval at 2. rewrite Hc. apply IH. right. lia.
Qed.

Lemma scan_digits_digits base ds acc k : 2 <= base <= 16 -> ds <> [] ->
  Forall (fun d => 0 <= d < base) ds ->
  scan_digits base (map digit_char ds) acc k false = Some (fold_left (fun a d => a * base + d) ds acc, []).
Proof.
  intros Hb Hne HF. rewrite scan_digits_all_digits.
  - now rewrite map_dval_digit_char by (try lia; assumption).
  - apply all_digits_map_digit_char; [lia|assumption].
  - left. destruct ds; [congruence|discriminate].
Qed.

Lemma scan_digits_digits_upper base ds acc k : 2 <= base <= 16 -> ds <> [] ->
  Forall (fun d => 0 <= d < base) ds ->
  scan_digits base (map digit_char_upper ds) acc k false = Some (fold_left (fun a d => a * base + d) ds acc, []).
Proof.
  intros Hb Hne HF. rewrite scan_digits_all_digits.
  - now rewrite map_dval_digit_char_upper by (try lia; assumption).
  - apply all_digits_map_digit_char_upper; [lia|assumption].
  - left. destruct ds; [congruence|discriminate].
Qed.

(* the part of py_int_chars after whitespace and sign have been consumed *)
Definition py_int_body (base : Z) (neg : bool) (l2 : list ascii) : option Z :=
  let l3 := match l2 with
            | z :: p :: r => if ascii_eqb z ch_0 && is_prefix_char base p
                             then match r with u :: r' => if ascii_eqb u ch_us then r' else r | [] => r end
                             else l2
            | _ => l2
            end in
  match l3 with
  | [] => None
  | c :: _ =>
      if ascii_eqb c ch_us then None
      else match scan_digits base l3 0 0 false with
           | None => None
           | Some (v, rest) =>
               match drop_space_int rest with
               | [] => Some (if neg then - v else v)
               | _ => None
               end
           end
  end.

Lemma py_int_body_digits base neg l : l <> [] -> all_digits base l ->
  py_int_body base neg l =
  Some (if neg then - from_digits base (map (dval base) l) else from_digits base (map (dval base) l)).
Proof.
  intros Hne HF. unfold py_int_body.
  assert (E3 : match l with
               | z :: p :: r => if ascii_eqb z ch_0 && is_prefix_char base p
                                then match r with u :: r' => if ascii_eqb u ch_us then r' else r | [] => r end
                                else l
               | _ => l
               end = l).
  { destruct l as [|z [|p r]]; try reflexivity.
    inversion HF as [|? ? _ HF']; subst. inversion HF' as [|? ? Hp _]; subst.
    now rewrite (digit_not_prefix base p Hp), andb_false_r. }
  rewrite E3. destruct l as [|c r]; [congruence|].
  inversion HF as [|? ? Hc _]; subst.
  rewrite (digit_not_us base c Hc).
  rewrite scan_digits_all_digits by (try assumption; left; discriminate).
  reflexivity.
Qed.

Lemma py_int_chars_nosign base c r :
  is_space_int c = false -> ascii_eqb c ch_plus = false -> ascii_eqb c ch_minus = false ->
  py_int_chars base (c :: r) = py_int_body base false (c :: r).
Proof.
  intros Hs Hp Hm. unfold py_int_chars. cbn [drop_space_int]. rewrite Hs, Hp, Hm. reflexivity.
Qed.

Lemma py_int_chars_minus base l : py_int_chars base (ch_minus :: l) = py_int_body base true l.
Proof. reflexivity. Qed.

Lemma py_int_chars_plus base l : py_int_chars base (ch_plus :: l) = py_int_body base false l.
Proof. reflexivity. Qed.

Lemma py_int_chars_digits base l : l <> [] -> all_digits base l ->
  py_int_chars base l = Some (from_digits base (map (dval base) l)).
Proof.
  intros Hne HF. destruct l as [|c r]; [congruence|].
  inversion HF as [|? ? Hc _]; subst.
  rewrite py_int_chars_nosign.
  - now apply (py_int_body_digits base false).
  - eapply digit_not_space_int; eauto.
  - eapply digit_not_plus; eauto.
  - eapply digit_not_minus; eauto.
Qed.

Lemma py_int_chars_minus_digits base l : l <> [] -> all_digits base l ->
  py_int_chars base (ch_minus :: l) = Some (- from_digits base (map (dval base) l)).
Proof. intros Hne HF. rewrite py_int_chars_minus. now apply (py_int_body_digits base true). Qed.

Lemma py_int_empty base : py_int base "" = None.
Proof. reflexivity. Qed.

(* the premise `2 <= base <= 16` and a "prefix rule not triggered" premise of the task statement are not
   needed: a digit of the base is never a prefix letter of that base (digit_not_prefix) *)
Lemma py_int_digits base s : s <> EmptyString ->
  (forall c, In c (chars s) -> exists d, digit_in base c = Some d) ->
  py_int base s = Some (from_digits base (map (dval base) (chars s))).
Proof.
  intros Hne HF. unfold py_int. apply py_int_chars_digits.
  - intros E. apply chars_nil_iff in E. contradiction.
  - apply Forall_forall. exact HF.
Qed.

(* same statement with the value function spelled out *)
Lemma py_int_digits' base s : s <> EmptyString ->
  (forall c, In c (chars s) -> exists d, digit_in base c = Some d) ->
  py_int base s = Some (from_digits base (map (fun c => match digit_in base c with Some d => d | None => 0 end) (chars s))).
Proof. apply py_int_digits. Qed.

(* strictness direction: digit-only text is accepted only with its positional value *)
Lemma py_int_only_digits_value base s v : 2 <= base -> all_digits base (chars s) -> py_int base s = Some v ->
  s <> EmptyString /\ v = from_digits base (map (dval base) (chars s)) /\
  0 <= v < base ^ Z.of_nat (String.length s).
Proof.
  intros Hb HF Hv. destruct s as [|c s'] eqn:Es; [discriminate|]. rewrite <- Es in *.
  assert (Hne : s <> EmptyString) by (rewrite Es; discriminate).
  rewrite py_int_digits in Hv by (try assumption; apply Forall_forall; exact HF).
  injection Hv as <-. split; [exact Hne|split; [reflexivity|]].
  pose proof (map_dval_range base _ HF) as HR. split.
  - apply from_digits_nonneg; [lia|exact HR].
  - rewrite <- length_chars, <- (map_length (dval base)). apply from_digits_bound; [lia|exact HR].
Qed.

(* ---- round trips ---- *)

Lemma from_digits_dvals_fmt_nat base up n : 2 <= base <= 36 -> 0 <= n ->
  from_digits base (map (dval base) (fmt_nat base up n)) = n.
Proof. intros Hb Hn. rewrite fmt_nat_dvals by lia. apply digits_of_value; lia. Qed.

Lemma py_int_chars_fmt_nat base up n : 2 <= base <= 36 -> 0 <= n ->
  py_int_chars base (fmt_nat base up n) = Some n.
Proof.
  intros Hb Hn. rewrite py_int_chars_digits.
  - now rewrite from_digits_dvals_fmt_nat.
  - apply fmt_nat_nonempty.
  - now apply fmt_nat_all_digits.
Qed.

Lemma py_int_chars_minus_fmt_nat base up n : 2 <= base <= 36 -> 0 <= n ->
  py_int_chars base (ch_minus :: fmt_nat base up n) = Some (- n).
Proof.
  intros Hb Hn. rewrite py_int_chars_minus_digits.
  - now rewrite from_digits_dvals_fmt_nat.
  - apply fmt_nat_nonempty.
  - now apply fmt_nat_all_digits.
Qed.

Lemma py_int_chars_pad0_fmt_nat base up k n : 2 <= base <= 36 -> 0 <= n ->
  py_int_chars base (pad0 k (fmt_nat base up n)) = Some n.
Proof.
  intros Hb Hn. rewrite py_int_chars_digits.
  - now rewrite map_dval_pad0, from_digits_repeat0, from_digits_dvals_fmt_nat.
  - apply pad0_nonempty, fmt_nat_nonempty.
  - apply pad0_all_digits; [lia|]. now apply fmt_nat_all_digits.
Qed.

Lemma py_int_fmt_d n : py_int 10 (fmt_d n) = Some n.
Proof.
  unfold py_int, fmt_d. case_ltb n 0; cbn [chars]; rewrite chars_str_of.
  - rewrite py_int_chars_minus_fmt_nat by lia. f_equal. lia.
  - apply py_int_chars_fmt_nat; lia.
Qed.

Lemma py_int_fmt_x_signed n : py_int 16 (fmt_x n) = Some n.
Proof.
  unfold py_int, fmt_x. case_ltb n 0; cbn [chars]; rewrite chars_str_of.
  - rewrite py_int_chars_minus_fmt_nat by lia. f_equal. lia.
  - apply py_int_chars_fmt_nat; lia.
Qed.

Lemma py_int_fmt_X_signed n : py_int 16 (fmt_X n) = Some n.
Proof.
  unfold py_int, fmt_X. case_ltb n 0; cbn [chars]; rewrite chars_str_of.
  - rewrite py_int_chars_minus_fmt_nat by lia. f_equal. lia.
  - apply py_int_chars_fmt_nat; lia.
Qed.

Lemma py_int_fmt_x n : 0 <= n -> py_int 16 (fmt_x n) = Some n.
Proof. intros _. apply py_int_fmt_x_signed. Qed.

Lemma py_int_fmt_X n : 0 <= n -> py_int 16 (fmt_X n) = Some n.
Proof. intros _. apply py_int_fmt_X_signed. Qed.

Lemma py_int_fmt_x_pad k n : 0 <= n -> py_int 16 (fmt_x_pad k n) = Some n.
Proof. intros Hn. unfold py_int, fmt_x_pad. rewrite chars_str_of. apply py_int_chars_pad0_fmt_nat; lia. Qed.

Lemma py_int_fmt_X_pad k n : 0 <= n -> py_int 16 (fmt_X_pad k n) = Some n.
Proof. intros Hn. unfold py_int, fmt_X_pad. rewrite chars_str_of. apply py_int_chars_pad0_fmt_nat; lia. Qed.

Lemma py_int_fmt_d_pad k n : 0 <= n -> py_int 10 (fmt_d_pad k n) = Some n.
Proof. intros Hn. unfold py_int, fmt_d_pad. rewrite chars_str_of. apply py_int_chars_pad0_fmt_nat; lia. Qed.

Lemma py_int_fmt_b_pad k n : 0 <= n -> py_int 2 (fmt_b_pad k n) = Some n.
Proof. intros Hn. unfold py_int, fmt_b_pad. rewrite chars_str_of. apply py_int_chars_pad0_fmt_nat; lia. Qed.

(* ---- lengths ---- *)

Lemma pad0_fmt_nat_length base up k n : 2 <= base -> 0 <= n < base ^ Z.of_nat k -> (0 < k)%nat ->
  List.length (pad0 k (fmt_nat base up n)) = k.
Proof. intros Hb Hn Hk. apply pad0_length. rewrite fmt_nat_length. now apply digits_of_length. Qed.

Lemma fmt_x_pad_length k n : 0 <= n < 16 ^ Z.of_nat k -> (0 < k)%nat -> String.length (fmt_x_pad k n) = k.
Proof. intros. unfold fmt_x_pad. rewrite length_str_of. apply pad0_fmt_nat_length; [lia|assumption..]. Qed.

Lemma fmt_X_pad_length k n : 0 <= n < 16 ^ Z.of_nat k -> (0 < k)%nat -> String.length (fmt_X_pad k n) = k.
Proof. intros. unfold fmt_X_pad. rewrite length_str_of. apply pad0_fmt_nat_length; [lia|assumption..]. Qed.

Lemma fmt_d_pad_length k n : 0 <= n < 10 ^ Z.of_nat k -> (0 < k)%nat -> String.length (fmt_d_pad k n) = k.
Proof. intros. unfold fmt_d_pad. rewrite length_str_of. apply pad0_fmt_nat_length; [lia|assumption..]. Qed.

Lemma fmt_b_pad_length k n : 0 <= n < 2 ^ Z.of_nat k -> (0 < k)%nat -> String.length (fmt_b_pad k n) = k.
Proof. intros. unfold fmt_b_pad. rewrite length_str_of. apply pad0_fmt_nat_length; [lia|assumption..]. Qed.

(* padding never truncates: at least k characters, and the unpadded text when k <= 1 *)
Lemma pad0_length_ge_k k l : (k <= List.length (pad0 k l))%nat.
Proof. unfold pad0. rewrite app_length, repeat_char_length. lia. Qed.

Lemma fmt_x_pad_small k n : (k <= 1)%nat -> 0 <= n -> fmt_x_pad k n = fmt_x n.
Proof.
  intros Hk Hn. rewrite fmt_x_nonneg by lia. unfold fmt_x_pad. f_equal. apply pad0_length_ge.
  pose proof (fmt_nat_nonempty 16 false n). destruct (fmt_nat 16 false n); [congruence|cbn; lia].
Qed.

Lemma fmt_d_pad_small k n : (k <= 1)%nat -> 0 <= n -> fmt_d_pad k n = fmt_d n.
Proof.
  intros Hk Hn. rewrite fmt_d_nonneg by lia. unfold fmt_d_pad. f_equal. apply pad0_length_ge.
  pose proof (fmt_nat_nonempty 10 false n). destruct (fmt_nat 10 false n); [congruence|cbn; lia].
Qed.

Lemma fmt_d_nonempty n : fmt_d n <> EmptyString.
Proof.
  unfold fmt_d. destruct (n <? 0); [discriminate|]. intros E. apply str_of_nil_iff in E.
  now apply fmt_nat_nonempty in E.
Qed.

Lemma fmt_x_nonempty n : fmt_x n <> EmptyString.
Proof.
  unfold fmt_x. destruct (n <? 0); [discriminate|]. intros E. apply str_of_nil_iff in E.
  now apply fmt_nat_nonempty in E.
Qed.

(* bound on the number of characters of an unpadded numeral *)
Lemma fmt_d_length n k : 0 <= n < 10 ^ Z.of_nat k -> (0 < k)%nat -> (1 <= String.length (fmt_d n) <= k)%nat.
Proof.
  intros Hn Hk. rewrite fmt_d_nonneg by lia. rewrite length_str_of, fmt_nat_length.
  pose proof (digits_of_length 10 n k ltac:(lia) Hn Hk). pose proof (digits_of_nonempty 10 n).
  destruct (digits_of 10 n); [congruence|cbn in *; lia].
Qed.

Lemma fmt_x_length n k : 0 <= n < 16 ^ Z.of_nat k -> (0 < k)%nat -> (1 <= String.length (fmt_x n) <= k)%nat.
Proof.
  intros Hn Hk. rewrite fmt_x_nonneg by lia. rewrite length_str_of, fmt_nat_length.
  pose proof (digits_of_length 16 n k ltac:(lia) Hn Hk). pose proof (digits_of_nonempty 16 n).
  destruct (digits_of 16 n); [congruence|cbn in *; lia].
Qed.

(* ------------------------------------------------------------------------------------------ *)
(** * contains_char / count_char *)

Lemma contains_char_app c a b : contains_char c (a ++ b)%string = contains_char c a || contains_char c b.
Proof. unfold contains_char. rewrite chars_app. apply existsb_app. Qed.

Lemma contains_char_cons c a s : contains_char c (String a s) = ascii_eqb c a || contains_char c s.
Proof. reflexivity. Qed.

Lemma contains_char_empty c : contains_char c EmptyString = false.
Proof. reflexivity. Qed.

Lemma contains_char_true_iff c s : contains_char c s = true <-> In c (chars s).
Proof.
  unfold contains_char. rewrite existsb_exists. split.
  - intros (x & Hx & E). apply ascii_eqb_eq in E. now subst.
  - intros H. exists c. split; [exact H|apply ascii_eqb_refl].
Qed.

Lemma contains_char_false_iff c s : contains_char c s = false <-> ~ In c (chars s).
Proof. rewrite <- contains_char_true_iff. destruct (contains_char c s); split; congruence. Qed.

Lemma no_char_filter c l : existsb (ascii_eqb c) l = false -> filter (ascii_eqb c) l = [].
Proof.
  induction l as [|a l IH]; [reflexivity|]. cbn [existsb filter]. intros H.
  apply orb_false_iff in H. destruct H as [Ha Hl]. rewrite Ha. now apply IH.
Qed.

Lemma count_char_nonneg c s : 0 <= count_char c s.
Proof. unfold count_char. lia. Qed.

Lemma count_char_app c a b : count_char c (a ++ b)%string = count_char c a + count_char c b.
Proof. unfold count_char. rewrite chars_app, filter_app, app_length. lia. Qed.

Lemma count_char_cons c a s : count_char c (String a s) = (if ascii_eqb c a then 1 else 0) + count_char c s.
Proof. unfold count_char. cbn [chars filter]. destruct (ascii_eqb c a); cbn [List.length]; lia. Qed.

Lemma count_char_zero_iff c s : count_char c s = 0 <-> contains_char c s = false.
Proof.
  unfold count_char, contains_char. induction (chars s) as [|a l IH]; [cbn; tauto|].
  cbn [filter existsb]. destruct (ascii_eqb c a); cbn [List.length orb].
  - split; [lia|discriminate].
  - exact IH.
Qed.

(* ------------------------------------------------------------------------------------------ *)
(** * split / join *)

Lemma split_chars_nonempty sep l cur : split_chars sep l cur <> [].
Proof.
  revert cur. induction l as [|a l IH]; intros cur; cbn [split_chars]; [discriminate|].
  destruct (ascii_eqb a sep); [discriminate|apply IH].
Qed.

Lemma split_nonempty c s : split c s <> [].
Proof.
  unfold split. pose proof (split_chars_nonempty c (chars s) []).
  destruct (split_chars c (chars s) []); [congruence|discriminate].
Qed.

(* a separator-free token followed by the separator: the token is emitted, scanning restarts *)
Lemma split_chars_token c t rest cur : existsb (ascii_eqb c) t = false ->
  split_chars c (t ++ c :: rest) cur = (rev cur ++ t) :: split_chars c rest [].
Proof.
  revert cur. induction t as [|a t IH]; intros cur H.
  - cbn [app split_chars]. rewrite ascii_eqb_refl. now rewrite app_nil_r.
  - cbn [existsb] in H. apply orb_false_iff in H. destruct H as [Ha Ht].
    cbn [app split_chars]. rewrite ascii_eqb_sym, Ha. rewrite IH by exact Ht.
    cbn [rev]. now rewrite <- app_assoc.
Qed.

Lemma split_chars_last c t cur : existsb (ascii_eqb c) t = false -> split_chars c t cur = [rev cur ++ t].
Proof.
  revert cur. induction t as [|a t IH]; intros cur H.
  - cbn [split_chars]. now rewrite app_nil_r.
  - cbn [existsb] in H. apply orb_false_iff in H. destruct H as [Ha Ht].
    cbn [split_chars]. rewrite ascii_eqb_sym, Ha. rewrite IH by exact Ht.
    cbn [rev]. now rewrite <- app_assoc.
Qed.

Lemma split_chars_join c toks : toks <> [] -> Forall (fun t => existsb (ascii_eqb c) t = false) toks ->
  split_chars c (join_chars [c] toks) [] = toks.
Proof.
  induction toks as [|t r IH]; intros Hne HF; [congruence|].
  inversion HF as [|? ? Ht Hr]; subst. destruct r as [|t2 r'].
  - cbn [join_chars]. now rewrite split_chars_last.
  - change (join_chars [c] (t :: t2 :: r')) with (t ++ c :: join_chars [c] (t2 :: r')).
    rewrite split_chars_token by exact Ht. cbn [rev app]. f_equal. apply IH; [discriminate|exact Hr].
Qed.

Lemma split_join c toks : toks <> [] -> Forall (fun t => contains_char c t = false) toks ->
  split c (join (String c EmptyString) toks) = toks.
Proof.
  intros Hne HF. unfold split, join. rewrite chars_str_of. cbn [chars].
  rewrite split_chars_join.
  - apply map_str_of_chars.
  - destruct toks; [congruence|discriminate].
  - apply Forall_map. exact HF.
Qed.

Lemma split_no_sep c s : contains_char c s = false -> split c s = [s].
Proof.
  intros H. unfold split. rewrite split_chars_last by exact H. cbn [rev app map]. now rewrite str_of_chars.
Qed.

Lemma split_empty c : split c EmptyString = [EmptyString].
Proof. reflexivity. Qed.

Lemma split_app c a b : contains_char c a = false -> split c (a ++ String c b)%string = a :: split c b.
Proof.
  intros H. unfold split. rewrite chars_app. cbn [chars]. rewrite split_chars_token by exact H.
  cbn [rev app map]. now rewrite str_of_chars.
Qed.

Lemma split_chars_length c l cur :
  List.length (split_chars c l cur) = S (List.length (filter (ascii_eqb c) l)).
Proof.
  revert cur. induction l as [|a l IH]; intros cur; [reflexivity|].
  cbn [split_chars filter]. rewrite (ascii_eqb_sym c a). destruct (ascii_eqb a c); cbn [List.length]; now rewrite IH.
Qed.

Lemma split_length c s : Z.of_nat (List.length (split c s)) = count_char c s + 1.
Proof. unfold split, count_char. rewrite map_length, split_chars_length. lia. Qed.

Lemma existsb_rev {A} (f : A -> bool) l : existsb f (rev l) = existsb f l.
Proof.
  induction l as [|a l IH]; [reflexivity|]. cbn [rev existsb]. rewrite existsb_app, IH. cbn [existsb].
  rewrite orb_false_r. apply orb_comm.
Qed.

(* no field of a split contains the separator, and joining gives the text back *)
Lemma split_chars_fields c l cur : existsb (ascii_eqb c) cur = false ->
  Forall (fun t => existsb (ascii_eqb c) t = false) (split_chars c l cur).
Proof.
  revert cur. induction l as [|a l IH]; intros cur Hc.
  - cbn [split_chars]. constructor; [|constructor]. now rewrite existsb_rev.
  - cbn [split_chars]. destruct (ascii_eqb a c) eqn:E.
    + constructor; [now rewrite existsb_rev|]. now apply IH.
    + apply IH. cbn [existsb]. now rewrite ascii_eqb_sym, E, Hc.
Qed.

Lemma split_fields c s : Forall (fun t => contains_char c t = false) (split c s).
Proof.
  unfold split. apply Forall_map. eapply Forall_impl; [|apply (split_chars_fields c (chars s) []); reflexivity].
  intros t Ht. unfold contains_char. now rewrite chars_str_of.
Qed.

Lemma join_chars_split_chars c l cur : join_chars [c] (split_chars c l cur) = rev cur ++ l.
Proof.
  revert cur. induction l as [|a l IH]; intros cur.
  - cbn [split_chars join_chars]. now rewrite app_nil_r.
  - cbn [split_chars]. destruct (ascii_eqb a c) eqn:E.
    + apply ascii_eqb_eq in E. subst a.
      pose proof (split_chars_nonempty c l []) as Hne. pose proof (IH []) as IH0.
      destruct (split_chars c l []) as [|x xs] eqn:Es; [congruence|].
      change (join_chars [c] (rev cur :: x :: xs)) with (rev cur ++ [c] ++ join_chars [c] (x :: xs)).
      rewrite IH0. reflexivity.
    + rewrite IH. cbn [rev]. now rewrite <- app_assoc.
Qed.

Lemma join_split c s : join (String c EmptyString) (split c s) = s.
Proof.
  unfold join, split. rewrite map_chars_str_of. cbn [chars]. rewrite join_chars_split_chars.
  cbn [rev app]. apply str_of_chars.
Qed.

(* ---- split1 ---- *)

Lemma split1_chars_token c t rest cur : existsb (ascii_eqb c) t = false ->
  split1_chars c (t ++ c :: rest) cur = [rev cur ++ t; rest].
Proof.
  revert cur. induction t as [|a t IH]; intros cur H.
  - cbn [app split1_chars]. rewrite ascii_eqb_refl. now rewrite app_nil_r.
  - cbn [existsb] in H. apply orb_false_iff in H. destruct H as [Ha Ht].
    cbn [app split1_chars]. rewrite ascii_eqb_sym, Ha. rewrite IH by exact Ht.
    cbn [rev]. now rewrite <- app_assoc.
Qed.

Lemma split1_chars_last c t cur : existsb (ascii_eqb c) t = false -> split1_chars c t cur = [rev cur ++ t].
Proof.
  revert cur. induction t as [|a t IH]; intros cur H.
  - cbn [split1_chars]. now rewrite app_nil_r.
  - cbn [existsb] in H. apply orb_false_iff in H. destruct H as [Ha Ht].
    cbn [split1_chars]. rewrite ascii_eqb_sym, Ha. rewrite IH by exact Ht.
    cbn [rev]. now rewrite <- app_assoc.
Qed.

Lemma split1_app c a b : contains_char c a = false -> split1 c (a ++ String c b)%string = [a; b].
Proof.
  intros H. unfold split1. rewrite chars_app. cbn [chars]. rewrite split1_chars_token by exact H.
  cbn [rev app map]. now rewrite !str_of_chars.
Qed.

Lemma split1_no_sep c s : contains_char c s = false -> split1 c s = [s].
Proof.
  intros H. unfold split1. rewrite split1_chars_last by exact H. cbn [rev app map]. now rewrite str_of_chars.
Qed.

(* every text is either separator-free or  a ++ c ++ b  with a separator-free: the two cases above are exhaustive *)
Lemma split1_cases c s :
  (contains_char c s = false /\ split1 c s = [s]) \/
  (exists a b, s = (a ++ String c b)%string /\ contains_char c a = false /\ split1 c s = [a; b]).
Proof.
  destruct (contains_char c s) eqn:E; [right|left; split; [reflexivity|now apply split1_no_sep]].
  induction s as [|x s IH]; [discriminate|].
  rewrite contains_char_cons in E. destruct (ascii_eqb c x) eqn:Ex.
  - apply ascii_eqb_eq in Ex. subst x. exists EmptyString, s. split; [reflexivity|]. split; [reflexivity|].
    now apply (split1_app c EmptyString s).
  - cbn [orb] in E. destruct (IH E) as (a & b & -> & Ha & _).
    exists (String x a), b. split; [reflexivity|]. split.
    + rewrite contains_char_cons, Ex, Ha. reflexivity.
    + apply (split1_app c (String x a) b). rewrite contains_char_cons, Ex, Ha. reflexivity.
Qed.

Lemma split1_length c s : (1 <= List.length (split1 c s) <= 2)%nat.
Proof.
  destruct (split1_cases c s) as [[_ ->]|(a & b & _ & _ & ->)]; cbn; lia.
Qed.

(* ---- join ---- *)

Lemma join_nil sep : join sep [] = EmptyString.
Proof. reflexivity. Qed.

Lemma join_single sep t : join sep [t] = t.
Proof. unfold join. cbn [map join_chars]. apply str_of_chars. Qed.

Lemma join_cons sep t u r : join sep (t :: u :: r) = (t ++ sep ++ join sep (u :: r))%string.
Proof.
  unfold join. cbn [map]. 
  change (join_chars (chars sep) (chars t :: chars u :: map chars r))
    with (chars t ++ chars sep ++ join_chars (chars sep) (chars u :: map chars r)).
  now rewrite !str_of_app, !str_of_chars.
Qed.

Lemma join_two sep t u : join sep [t; u] = (t ++ sep ++ u)%string.
Proof. now rewrite join_cons, join_single. Qed.

(* ------------------------------------------------------------------------------------------ *)
(** * strip *)

Lemma drop_space_id l : (forall c r, l = c :: r -> is_space c = false) -> drop_space l = l.
Proof. intros H. destruct l as [|c r]; [reflexivity|]. cbn [drop_space]. now rewrite (H c r eq_refl). Qed.

Lemma drop_space_head l c r : drop_space l = c :: r -> is_space c = false.
Proof.
  induction l as [|a l IH]; cbn [drop_space]; [discriminate|].
  destruct (is_space a) eqn:E; [exact IH|]. intros H. injection H as <- _. exact E.
Qed.

Lemma drop_space_spaces ws l : Forall (fun c => is_space c = true) ws -> drop_space (ws ++ l) = drop_space l.
Proof. intros H. induction H as [|a ws Ha _ IH]; [reflexivity|]. cbn [app drop_space]. now rewrite Ha. Qed.

Lemma drop_space_snoc l h : is_space h = false -> exists X, drop_space (l ++ [h]) = X ++ [h].
Proof.
  intros Hh. induction l as [|a l IH].
  - exists []. cbn [app drop_space]. now rewrite Hh.
  - cbn [app drop_space]. destruct (is_space a); [exact IH|]. now exists (a :: l).
Qed.

Lemma strip_no_space s :
  (forall c r, chars s = c :: r -> is_space c = false) ->
  (forall c r, rev (chars s) = c :: r -> is_space c = false) ->
  strip s = s.
Proof.
  intros H1 H2. unfold strip. rewrite (drop_space_id (chars s)) by exact H1.
  rewrite drop_space_id by exact H2. rewrite rev_involutive. apply str_of_chars.
Qed.

Lemma strip_empty : strip EmptyString = EmptyString.
Proof. reflexivity. Qed.

Lemma strip_all_nonspace s : (forall c, In c (chars s) -> is_space c = false) -> strip s = s.
Proof.
  intros H. apply strip_no_space.
  - intros c r E. apply H. rewrite E. now left.
  - intros c r E. apply H. apply in_rev. rewrite E. now left.
Qed.

Lemma strip_digits base s : all_digits base (chars s) -> strip s = s.
Proof.
  intros HF. apply strip_all_nonspace. intros c Hc. eapply digit_not_space.
  eapply (proj1 (Forall_forall _ _)) in HF; eauto.
Qed.

(* strip removes exactly the surrounding whitespace *)
Lemma strip_surrounded ws1 s ws2 :
  Forall (fun c => is_space c = true) (chars ws1) -> Forall (fun c => is_space c = true) (chars ws2) ->
  (forall c r, chars s = c :: r -> is_space c = false) ->
  (forall c r, rev (chars s) = c :: r -> is_space c = false) ->
  s <> EmptyString ->
  strip (ws1 ++ s ++ ws2)%string = s.
Proof.
  intros W1 W2 H1 H2 Hne. unfold strip. rewrite !chars_app.
  rewrite drop_space_spaces by exact W1.
  assert (E : drop_space (chars s ++ chars ws2) = chars s ++ chars ws2).
  { apply drop_space_id. intros c r E. destruct (chars s) as [|x xs] eqn:Es.
    - apply chars_nil_iff in Es. contradiction.
    - cbn [app] in E. injection E as -> _. eapply H1; reflexivity. }
  rewrite E, rev_app_distr. rewrite drop_space_spaces by (apply Forall_rev; exact W2).
  rewrite drop_space_id by exact H2. rewrite rev_involutive. apply str_of_chars.
Qed.

Lemma strip_trimmed s :
  (forall c r, chars (strip s) = c :: r -> is_space c = false) /\
  (forall c r, rev (chars (strip s)) = c :: r -> is_space c = false).
Proof.
  unfold strip. rewrite chars_str_of, rev_involutive. split; [|intros c r; apply drop_space_head].
  intros c r E. destruct (drop_space (chars s)) as [|h t] eqn:Ed.
  - cbn in E. discriminate.
  - pose proof (drop_space_head _ _ _ Ed) as Hh. cbn [rev] in E.
    destruct (drop_space_snoc (rev t) h Hh) as [X EX]. rewrite EX in E.
    rewrite rev_app_distr in E. cbn [rev app] in E. injection E as <- _. exact Hh.
Qed.

Lemma strip_idem s : strip (strip s) = strip s.
Proof. destruct (strip_trimmed s). now apply strip_no_space. Qed.

(* ------------------------------------------------------------------------------------------ *)
(** * lower *)

Definition is_upper (c : ascii) : bool := (65 <=? code c) && (code c <=? 90).
Definition is_letter (c : ascii) : bool :=
  ((65 <=? code c) && (code c <=? 90)) || ((97 <=? code c) && (code c <=? 122)).

Lemma lower_char_not_upper c : is_upper c = false -> lower_char c = c.
Proof. unfold is_upper, lower_char. now intros ->. Qed.

Lemma lower_char_upper c : is_upper c = true -> lower_char c = chr (code c + 32).
Proof. unfold is_upper, lower_char. now intros ->. Qed.

Lemma code_lower_char c : code (lower_char c) = if is_upper c then code c + 32 else code c.
Proof.
  destruct (is_upper c) eqn:E.
  - rewrite lower_char_upper by exact E. unfold is_upper in E. apply code_chr. lia.
  - now rewrite lower_char_not_upper.
Qed.

Lemma is_upper_lower_char c : is_upper (lower_char c) = false.
Proof.
  unfold is_upper at 1. rewrite code_lower_char. destruct (is_upper c) eqn:E; unfold is_upper in E; lia.
Qed.

Lemma lower_char_idem c : lower_char (lower_char c) = lower_char c.
Proof. apply lower_char_not_upper, is_upper_lower_char. Qed.

Lemma lower_idem s : lower (lower s) = lower s.
Proof.
  unfold lower. rewrite chars_str_of, map_map. f_equal. apply map_ext. intros c. apply lower_char_idem.
Qed.

Lemma lower_no_upper s : (forall c, In c (chars s) -> is_upper c = false) -> lower s = s.
Proof.
  intros H. unfold lower. rewrite <- (str_of_chars s) at 2. f_equal.
  rewrite <- (map_id (chars s)) at 2. apply map_ext_in. intros c Hc. apply lower_char_not_upper. now apply H.
Qed.

Lemma lower_empty : lower EmptyString = EmptyString.
Proof. reflexivity. Qed.

Lemma lower_cons c s : lower (String c s) = String (lower_char c) (lower s).
Proof. reflexivity. Qed.

Lemma lower_app a b : lower (a ++ b)%string = (lower a ++ lower b)%string.
Proof. unfold lower. now rewrite chars_app, map_app, str_of_app. Qed.

Lemma lower_length s : String.length (lower s) = String.length s.
Proof. unfold lower. now rewrite length_str_of, map_length, length_chars. Qed.

Lemma chars_lower s : chars (lower s) = map lower_char (chars s).
Proof. unfold lower. apply chars_str_of. Qed.

(* a non-letter is its own only preimage under lower_char *)
Lemma lower_char_eqb_nonletter c a : is_letter c = false -> ascii_eqb (lower_char a) c = ascii_eqb a c.
Proof.
  intros Hc. rewrite !ascii_eqb_code, code_lower_char. unfold is_letter in Hc.
  destruct (is_upper a) eqn:E; unfold is_upper in E; lia.
Qed.

Lemma contains_char_lower c s : is_letter c = false -> contains_char c (lower s) = contains_char c s.
Proof.
  intros Hc. unfold contains_char. rewrite chars_lower. induction (chars s) as [|a l IH]; [reflexivity|].
  cbn [map existsb]. rewrite IH. f_equal. rewrite (ascii_eqb_sym c), (ascii_eqb_sym c a).
  now apply lower_char_eqb_nonletter.
Qed.

Lemma count_char_lower c s : is_letter c = false -> count_char c (lower s) = count_char c s.
Proof.
  intros Hc. unfold count_char. rewrite chars_lower. f_equal. induction (chars s) as [|a l IH]; [reflexivity|].
  cbn [map filter]. rewrite (ascii_eqb_sym c), (ascii_eqb_sym c a), lower_char_eqb_nonletter by exact Hc.
  destruct (ascii_eqb a c); cbn [List.length]; now rewrite IH.
Qed.

Lemma split_chars_lower c l cur : is_letter c = false ->
  split_chars c (map lower_char l) (map lower_char cur) = map (map lower_char) (split_chars c l cur).
Proof.
  intros Hc. revert cur. induction l as [|a l IH]; intros cur.
  - cbn [map split_chars]. now rewrite map_rev.
  - cbn [map split_chars]. rewrite lower_char_eqb_nonletter by exact Hc. destruct (ascii_eqb a c).
    + cbn [map]. rewrite map_rev. f_equal. apply (IH []).
    + apply (IH (a :: cur)).
Qed.

Lemma split_lower c s : is_letter c = false -> split c (lower s) = map lower (split c s).
Proof.
  intros Hc. unfold split. rewrite chars_lower. change (@nil ascii) with (map lower_char []) at 1.
  rewrite (split_chars_lower c (chars s) []) by exact Hc.
  rewrite !map_map. apply map_ext. intros t. unfold lower. now rewrite chars_str_of.
Qed.

(* lower-case of printed numerals *)
Lemma lower_char_digit_char d : 0 <= d < 36 -> lower_char (digit_char d) = digit_char d.
Proof.
  intros Hd. apply lower_char_not_upper. unfold is_upper. rewrite code_digit_char by lia. case_ltb d 10; lia.
Qed.

Lemma lower_char_digit_char_upper d : 0 <= d < 36 -> lower_char (digit_char_upper d) = digit_char d.
Proof.
  intros Hd. apply code_inj. rewrite code_lower_char. unfold is_upper.
  rewrite code_digit_char_upper, code_digit_char by lia.
  case_ltb d 10; destruct ((65 <=? _) && _) eqn:E; lia.
Qed.

Lemma lower_char_ch_0 : lower_char ch_0 = ch_0.
Proof. reflexivity. Qed.

Lemma map_lower_fmt_nat base up n : 2 <= base <= 36 -> 0 <= n ->
  map lower_char (fmt_nat base up n) = fmt_nat base false n.
Proof.
  intros Hb Hn. rewrite !fmt_nat_eq, map_map. apply map_ext_in. intros d Hd.
  pose proof (digits_of_range base n ltac:(lia) Hn) as HR.
  eapply (proj1 (Forall_forall _ _)) in HR; [|exact Hd]. cbv beta in HR.
  destruct up; cbn [fmt_digit]; [apply lower_char_digit_char_upper|apply lower_char_digit_char]; lia.
Qed.

Lemma map_lower_pad0 k l : map lower_char (pad0 k l) = pad0 k (map lower_char l).
Proof.
  unfold pad0. rewrite map_app, map_length. f_equal.
  induction (k - List.length l)%nat as [|j IH]; [reflexivity|]. cbn [repeat_char map]. now rewrite IH.
Qed.

Lemma lower_fmt_x n : 0 <= n -> lower (fmt_x n) = fmt_x n.
Proof. intros Hn. rewrite fmt_x_nonneg by lia. unfold lower. rewrite chars_str_of, map_lower_fmt_nat by lia. reflexivity. Qed.

Lemma lower_fmt_X n : 0 <= n -> lower (fmt_X n) = fmt_x n.
Proof. intros Hn. rewrite fmt_x_nonneg, fmt_X_nonneg by lia. unfold lower. rewrite chars_str_of, map_lower_fmt_nat by lia. reflexivity. Qed.

Lemma lower_fmt_d n : 0 <= n -> lower (fmt_d n) = fmt_d n.
Proof. intros Hn. rewrite fmt_d_nonneg by lia. unfold lower. rewrite chars_str_of, map_lower_fmt_nat by lia. reflexivity. Qed.

Lemma lower_fmt_x_pad k n : 0 <= n -> lower (fmt_x_pad k n) = fmt_x_pad k n.
Proof. intros Hn. unfold fmt_x_pad, lower. rewrite chars_str_of, map_lower_pad0, map_lower_fmt_nat by lia. reflexivity. Qed.

Lemma lower_fmt_X_pad k n : 0 <= n -> lower (fmt_X_pad k n) = fmt_x_pad k n.
Proof. intros Hn. unfold fmt_X_pad, fmt_x_pad, lower. rewrite chars_str_of, map_lower_pad0, map_lower_fmt_nat by lia. reflexivity. Qed.

(* lower does not change what int() reads: digit values are case-insensitive *)
Lemma digit_val_lower_char c : digit_val (lower_char c) = digit_val c.
Proof.
  unfold digit_val. rewrite code_lower_char. destruct (is_upper c) eqn:E; [|reflexivity]. unfold is_upper in E.
  destruct ((48 <=? code c + 32) && (code c + 32 <=? 57)) eqn:E1; [lia|].
  destruct ((97 <=? code c + 32) && (code c + 32 <=? 122)) eqn:E2; [|lia].
  destruct ((48 <=? code c) && (code c <=? 57)) eqn:E3; [lia|].
  destruct ((97 <=? code c) && (code c <=? 122)) eqn:E4; [lia|].
  rewrite E. f_equal. lia.
Qed.

Lemma digit_in_lower_char base c : digit_in base (lower_char c) = digit_in base c.
Proof. unfold digit_in. now rewrite digit_val_lower_char. Qed.

(* ------------------------------------------------------------------------------------------ *)
(** * starts_with *)

Lemma starts_with_chars_iff p l : starts_with_chars p l = true <-> exists r, l = p ++ r.
Proof.
  revert l. induction p as [|a p IH]; intros l.
  - cbn. split; [eauto|reflexivity].
  - destruct l as [|b l]; cbn [starts_with_chars].
    + split; [discriminate|intros [r E]; discriminate].
    + rewrite andb_true_iff, ascii_eqb_eq, IH. split.
      * intros [-> [r ->]]. now exists r.
      * intros [r E]. cbn [app] in E. injection E as -> ->. eauto.
Qed.

Lemma starts_with_app p s : starts_with p (p ++ s)%string = true.
Proof. unfold starts_with. apply starts_with_chars_iff. exists (chars s). apply chars_app. Qed.

Lemma starts_with_iff p s : starts_with p s = true <-> exists r, s = (p ++ r)%string.
Proof.
  unfold starts_with. rewrite starts_with_chars_iff. split.
  - intros [r E]. exists (str_of r). apply chars_inj. now rewrite chars_app, chars_str_of.
  - intros [r ->]. exists (chars r). apply chars_app.
Qed.

Lemma str_len_app a b : str_len (a ++ b)%string = str_len a + str_len b.
Proof. unfold str_len. rewrite <- !length_chars, chars_app, app_length. lia. Qed.

Lemma str_len_nonneg s : 0 <= str_len s.
Proof. unfold str_len. lia. Qed.
