(* Base/Canon.v — aligned CIDR blocks of one family of width w, their denotation, canonical lists.
   Key results: L_cover (an aligned block covered by a sibling-free aligned list lies inside one element),
   canon_same_elems / canon_unique (a set of addresses has at most one canonical list),
   canon_minimal (no aligned cover of the same set is shorter), canon_app (concatenation across a gap). *)
From Coq Require Import ZArith Lia List Bool Sorting.Sorted.
Import ListNotations.
Open Scope Z_scope.

Record blk := { bv : Z; bp : Z }.

Section W.
Variable w : Z.
Hypothesis Hw : 0 <= w.

Definition bsize (b : blk) := 2 ^ (w - bp b).
Definition aligned (b : blk) := 0 <= bp b <= w /\ 0 <= bv b /\ (bsize b | bv b).
Definition inb (b : blk) (x : Z) := bv b <= x < bv b + bsize b.
Definition sub (a b : blk) := forall x, inb a x -> inb b x.
Definition covered (l : list blk) (x : Z) := exists b, In b l /\ inb b x.
(* b1 is the left sibling of b2 *)
Definition sib (b1 b2 : blk) :=
  bp b1 = bp b2 /\ bv b2 = bv b1 + bsize b1 /\ (2 * bsize b1 | bv b1).
Definition no_sib (l : list blk) := forall b1 b2, In b1 l -> In b2 l -> ~ sib b1 b2.

Lemma bsize_pos b : 0 <= bp b <= w -> 0 < bsize b.
Proof. intros. unfold bsize. apply Z.pow_pos_nonneg; lia. Qed.

Lemma bsize_double b : 0 <= bp b <= w -> bp b + 1 <= w ->
  2 ^ (w - bp b) = 2 * 2 ^ (w - (bp b + 1)).
Proof. intros. replace (w - bp b) with (Z.succ (w - (bp b + 1))) by lia.
  rewrite Z.pow_succ_r by lia. reflexivity. Qed.

(* size of a coarser block is a multiple of the size of a finer one *)
Lemma size_divides p q : 0 <= p <= q -> q <= w -> (2 ^ (w - q) | 2 ^ (w - p)).
Proof. intros. exists (2 ^ (q - p)). rewrite <- Z.pow_add_r by lia. f_equal. lia. Qed.

(* an aligned block B that contains point v (v multiple of T, T | size B) contains [v, v+T) *)
Lemma aligned_contains_chunk b S v T :
  0 < T -> (T | S) -> (S | b) -> (T | v) -> b <= v < b + S -> v + T <= b + S.
Proof.
  intros HT [k Hk] [m Hm] [n Hn] Hv. subst S b v.
  assert (m * (k * T) = (m * k) * T) by ring. rewrite H in *.
  assert (n < m * k + k) by nia. nia.
Qed.

Lemma mult_lower U b v t : 0 < U -> (U | b) -> (U | v) -> 0 <= t < U -> b <= v + t -> b <= v.
Proof. intros HU [m Hm] [n Hn] Ht H. subst. assert (m < n + 1) by nia. nia. Qed.

Lemma L_cover (l : list blk) :
  (forall b, In b l -> aligned b) -> no_sib l ->
  forall h : nat, forall X, aligned X -> w - bp X = Z.of_nat h ->
  (forall x, inb X x -> covered l x) -> exists B, In B l /\ sub X B.
Proof.
  intros Hal Hns. induction h as [|h IH]; intros X HX Hh Hcov.
  - (* single address *)
    destruct HX as (Hp & Hv & Hd).
    assert (Hs: bsize X = 1) by (unfold bsize; replace (w - bp X) with 0 by lia; reflexivity).
    destruct (Hcov (bv X)) as (B & HB & Hin). { unfold inb. lia. }
    exists B. split; [exact HB|]. intros x Hx. unfold inb in *. rewrite Hs in Hx.
    assert (x = bv X) by lia. subst x. exact Hin.
  - destruct HX as (Hp & Hv & Hd).
    set (p := bp X) in *. set (T := 2 ^ (w - (p + 1))).
    assert (HT: 0 < T) by (apply Z.pow_pos_nonneg; lia).
    assert (HS: bsize X = 2 * T).
    { unfold bsize, T. fold p. apply (bsize_double X); fold p; lia. }
    set (X0 := {| bv := bv X; bp := p + 1 |}).
    set (X1 := {| bv := bv X + T; bp := p + 1 |}).
    assert (HsX0: bsize X0 = T) by reflexivity.
    assert (HsX1: bsize X1 = T) by reflexivity.
    assert (Hp0': bp X0 = p + 1) by reflexivity. assert (Hv0': bv X0 = bv X) by reflexivity.
    assert (Hp1': bp X1 = p + 1) by reflexivity. assert (Hv1': bv X1 = bv X + T) by reflexivity.
    clearbody X0 X1.
    assert (HdT: (T | bv X)).
    { rewrite HS in Hd. eapply Z.divide_trans; [|exact Hd]. exists 2. ring. }
    assert (A0: aligned X0).
    { unfold aligned. rewrite HsX0, Hp0', Hv0'. split; [lia|split; [lia|exact HdT]]. }
    assert (A1: aligned X1).
    { unfold aligned. rewrite HsX1, Hp1', Hv1'. split; [lia|split; [lia|]].
      apply Z.divide_add_r; [exact HdT|apply Z.divide_refl]. }
    destruct (IH X0 A0) as (B0 & HB0 & S0). { rewrite Hp0'. lia. }
    { intros x Hx. apply Hcov. unfold inb in *. rewrite Hv0', HsX0 in Hx. rewrite HS. lia. }
    destruct (IH X1 A1) as (B1 & HB1 & S1). { rewrite Hp1'. lia. }
    { intros x Hx. apply Hcov. unfold inb in *. rewrite Hv1', HsX1 in Hx. rewrite HS. lia. }
    pose proof (Hal _ HB0) as (Hp0 & Hv0 & Hd0). pose proof (Hal _ HB1) as (Hp1 & Hv1 & Hd1).
    (* B0 contains X0's first point, B1 contains X1's first point *)
    assert (I0: inb B0 (bv X)). { apply S0. unfold inb. rewrite Hv0', HsX0. lia. }
    assert (I0': inb B0 (bv X + T - 1)). { apply S0. unfold inb. rewrite Hv0', HsX0. lia. }
    assert (I1: inb B1 (bv X + T)). { apply S1. unfold inb. rewrite Hv1', HsX1. lia. }
    assert (I1': inb B1 (bv X + 2*T - 1)). { apply S1. unfold inb. rewrite Hv1', HsX1. lia. }
    unfold inb in I0, I0', I1, I1'.
    (* sizes: bsize B0 >= T so bp B0 <= p+1 *)
    assert (P0: bp B0 <= p + 1).
    { destruct (Z_le_gt_dec (bp B0) (p+1)); [assumption|exfalso].
      assert (bsize B0 < T \/ bsize B0 = T -> False). 
      { intros _. assert (2 * bsize B0 <= T).
        { unfold bsize, T. replace (w - (p+1)) with (Z.succ (w - bp B0 + (bp B0 - (p + 1) - 1))) by lia.
          rewrite Z.pow_succ_r by lia. rewrite Z.pow_add_r by lia.
          assert (0 < 2 ^ (w - bp B0)) by (apply Z.pow_pos_nonneg; lia).
          assert (0 < 2 ^ (bp B0 - (p+1) - 1)) by (apply Z.pow_pos_nonneg; lia). nia. }
        assert (0 < bsize B0) by (apply bsize_pos; lia). lia. }
      apply H. left. 
      assert (2 * bsize B0 <= T).
        { unfold bsize, T. replace (w - (p+1)) with (Z.succ (w - bp B0 + (bp B0 - (p + 1) - 1))) by lia.
          rewrite Z.pow_succ_r by lia. rewrite Z.pow_add_r by lia.
          assert (0 < 2 ^ (w - bp B0)) by (apply Z.pow_pos_nonneg; lia).
          assert (0 < 2 ^ (bp B0 - (p+1) - 1)) by (apply Z.pow_pos_nonneg; lia). nia. }
      assert (0 < bsize B0) by (apply bsize_pos; lia). lia. }
    assert (P1: bp B1 <= p + 1).
    { destruct (Z_le_gt_dec (bp B1) (p+1)); [assumption|exfalso].
      assert (2 * bsize B1 <= T).
        { unfold bsize, T. replace (w - (p+1)) with (Z.succ (w - bp B1 + (bp B1 - (p + 1) - 1))) by lia.
          rewrite Z.pow_succ_r by lia. rewrite Z.pow_add_r by lia.
          assert (0 < 2 ^ (w - bp B1)) by (apply Z.pow_pos_nonneg; lia).
          assert (0 < 2 ^ (bp B1 - (p+1) - 1)) by (apply Z.pow_pos_nonneg; lia). nia. }
      assert (0 < bsize B1) by (apply bsize_pos; lia). lia. }
    destruct (Z.eq_dec (bp B0) (p + 1)) as [E0|N0]; [destruct (Z.eq_dec (bp B1) (p + 1)) as [E1|N1]|].
    + (* both exactly the halves: siblings, contradiction *)
      exfalso. assert (Z0: bsize B0 = T) by (unfold bsize, T; now rewrite E0).
      assert (Z1: bsize B1 = T) by (unfold bsize, T; now rewrite E1).
      rewrite Z0 in *. rewrite Z1 in *.
      assert (bv B0 = bv X).
      { destruct Hd0 as [k Hk]. destruct HdT as [n Hn]. nia. }
      assert (bv B1 = bv X + T).
      { destruct Hd1 as [k Hk]. destruct HdT as [n Hn]. nia. }
      apply (Hns B0 B1 HB0 HB1). unfold sib. rewrite Z0. split; [lia|split; [lia|]].
      rewrite H. rewrite <- HS. exact Hd.
    + (* B1 coarser: contains all of X *)
      exists B1. split; [exact HB1|]. intros x Hx. unfold inb in *. rewrite HS in Hx.
      assert (Hdiv: (2 * T | bsize B1)).
      { unfold bsize. rewrite <- HS. unfold bsize. fold p. apply size_divides; lia. }
      assert (bv B1 <= bv X).
      { apply (mult_lower (2*T) (bv B1) (bv X) T); try lia.
        - eapply Z.divide_trans; [exact Hdiv|exact Hd1].
        - rewrite <- HS. exact Hd. }
      lia.
    + exists B0. split; [exact HB0|]. intros x Hx. unfold inb in *. rewrite HS in Hx.
      assert (Hdiv: (2 * T | bsize B0)).
      { unfold bsize. rewrite <- HS. unfold bsize. fold p. apply size_divides; lia. }
      assert (bv X + 2 * T <= bv B0 + bsize B0).
      { rewrite HS in Hd. apply (aligned_contains_chunk (bv B0) (bsize B0) (bv X) (2*T)); try lia; assumption. }
      lia.
Qed.

Definition disj (l : list blk) := forall b1 b2 x, In b1 l -> In b2 l -> inb b1 x -> inb b2 x -> b1 = b2.

Lemma sub_antisym a b : aligned a -> aligned b -> sub a b -> sub b a -> a = b.
Proof.
  intros (Hpa & Hva & Hda) (Hpb & Hvb & Hdb) Hab Hba.
  pose proof (bsize_pos a Hpa). pose proof (bsize_pos b Hpb).
  assert (bv a = bv b).
  { assert (inb b (bv a)) by (apply Hab; unfold inb; lia).
    assert (inb a (bv b)) by (apply Hba; unfold inb; lia). unfold inb in *. lia. }
  assert (bsize a = bsize b).
  { assert (inb b (bv a + bsize a - 1)) by (apply Hab; unfold inb; lia).
    assert (inb a (bv b + bsize b - 1)) by (apply Hba; unfold inb; lia). unfold inb in *. lia. }
  unfold bsize in H2. apply Z.pow_inj_r in H2; try lia.
  destruct a, b; cbn in *. f_equal; lia.
Qed.

Theorem canon_same_elems l1 l2 :
  (forall b, In b l1 -> aligned b) -> (forall b, In b l2 -> aligned b) ->
  no_sib l1 -> no_sib l2 -> disj l1 ->
  (forall x, covered l1 x <-> covered l2 x) ->
  forall b, In b l1 -> In b l2.
Proof.
  intros A1 A2 N1 N2 D1 E b Hb.
  pose proof (A1 _ Hb) as Ab. destruct Ab as (Hp & Hv & Hd).
  destruct (L_cover l2 A2 N2 (Z.to_nat (w - bp b)) b (A1 _ Hb)) as (B' & HB' & S1).
  { lia. } { intros x Hx. apply E. exists b. auto. }
  pose proof (A2 _ HB') as AB'. destruct AB' as (Hp' & Hv' & Hd').
  destruct (L_cover l1 A1 N1 (Z.to_nat (w - bp B')) B' (A2 _ HB')) as (B'' & HB'' & S2).
  { lia. } { intros x Hx. apply E. exists B'. auto. }
  assert (b = B'').
  { apply (D1 b B'' (bv b) Hb HB'').
    - unfold inb. pose proof (bsize_pos b Hp). lia.
    - apply S2, S1. unfold inb. pose proof (bsize_pos b Hp). lia. }
  subst B''. assert (b = B') by (apply sub_antisym; auto). now subst.
Qed.

(* ---------------------------------------------------------------- canonical lists *)
(* strictly ascending and pairwise disjoint: each block ends before the next one starts *)
Definition below (a b : blk) := bv a + bsize a <= bv b.
Definition canon (l : list blk) :=
  (forall b, In b l -> aligned b) /\ StronglySorted below l /\ no_sib l.

Lemma aligned_pos b : aligned b -> 0 < bsize b.
Proof. intros (Hp & _). apply bsize_pos; exact Hp. Qed.

Lemma inb_self b : aligned b -> inb b (bv b).
Proof. intros A. pose proof (aligned_pos b A). unfold inb. lia. Qed.

Lemma sorted_disj l : (forall b, In b l -> aligned b) -> StronglySorted below l -> disj l.
Proof.
  intros Hal Hs. induction Hs as [|a l Hs IH Hall]; intros b1 b2 x H1 H2 I1 I2; [destruct H1|].
  rewrite Forall_forall in Hall.
  assert (Hal': forall b, In b l -> aligned b) by (intros; apply Hal; now right).
  destruct H1 as [<-|H1], H2 as [<-|H2]; auto.
  - specialize (Hall _ H2). unfold below, inb in *. lia.
  - specialize (Hall _ H1). unfold below, inb in *. lia.
  - eapply IH; eauto.
Qed.

Lemma sorted_eq_of_same_elems l1 l2 :
  (forall b, In b l1 -> aligned b) -> (forall b, In b l2 -> aligned b) ->
  StronglySorted below l1 -> StronglySorted below l2 ->
  (forall b, In b l1 <-> In b l2) -> l1 = l2.
Proof.
  intros A1 A2 S1. revert l2 A2. induction S1 as [|a l1 S1 IH F1]; intros l2 A2 S2 E.
  - destruct l2 as [|b l2]; [reflexivity|]. exfalso. apply (E b). now left.
  - rewrite Forall_forall in F1.
    destruct S2 as [|b l2 S2 F2]; [exfalso; apply (E a); now left|]. rewrite Forall_forall in F2.
    assert (Pa: 0 < bsize a) by (apply aligned_pos, A1; now left).
    assert (Pb: 0 < bsize b) by (apply aligned_pos, A2; now left).
    assert (a = b).
    { destruct (proj1 (E a) (or_introl eq_refl)) as [->|Hin]; [reflexivity|].
      destruct (proj2 (E b) (or_introl eq_refl)) as [->|Hin']; [reflexivity|].
      specialize (F2 _ Hin). specialize (F1 _ Hin'). unfold below in *. lia. }
    subst b. f_equal. apply IH; auto.
    + intros; apply A1; now right.
    + intros; apply A2; now right.
    + intros c. split; intros Hc.
      * destruct (proj1 (E c) (or_intror Hc)) as [<-|]; [|assumption].
        specialize (F1 _ Hc). unfold below in F1. lia.
      * destruct (proj2 (E c) (or_intror Hc)) as [<-|]; [|assumption].
        specialize (F2 _ Hc). unfold below in F2. lia.
Qed.

(* a set of addresses has at most one canonical description *)
Theorem canon_unique l1 l2 : canon l1 -> canon l2 ->
  (forall x, covered l1 x <-> covered l2 x) -> l1 = l2.
Proof.
  intros (A1 & S1 & N1) (A2 & S2 & N2) E.
  apply sorted_eq_of_same_elems; auto. intros b. split.
  - apply canon_same_elems; auto. apply sorted_disj; auto.
  - apply canon_same_elems; auto. apply sorted_disj; auto. intros x. symmetry. apply E.
Qed.

(* ---------------------------------------------------------------- minimality *)
Definition subb (a b : blk) : bool := (bv b <=? bv a) && (bv a + bsize a <=? bv b + bsize b).

Lemma subb_sub a b : aligned a -> (subb a b = true <-> sub a b).
Proof.
  intros A. pose proof (aligned_pos a A). unfold subb, sub, inb. rewrite andb_true_iff, Z.leb_le, Z.leb_le. split.
  - intros [? ?] x ?. lia.
  - intros S. pose proof (S (bv a) ltac:(lia)). pose proof (S (bv a + bsize a - 1) ltac:(lia)). lia.
Qed.

Definition host_of (l : list blk) (dflt a : blk) : blk :=
  match find (subb a) l with Some B => B | None => dflt end.

Theorem canon_minimal l l' : canon l -> (forall b, In b l' -> aligned b) ->
  (forall x, covered l x <-> covered l' x) -> (length l <= length l')%nat.
Proof.
  intros (A & S & N) A' E.
  destruct l as [|d l0] eqn:El; [cbn; lia|]. rewrite <- El in *.
  assert (ND: NoDup l).
  { clear -A S Hw. induction S as [|a l S IH F]; constructor.
    - intros Hin. rewrite Forall_forall in F. specialize (F _ Hin). unfold below in F.
      pose proof (aligned_pos a (A a (or_introl eq_refl))). lia.
    - apply IH. intros; apply A; now right. }
  assert (I: incl l (map (host_of l d) l')).
  { intros B HB. apply in_map_iff.
    (* the first address of B is covered by some b' of l' *)
    destruct (proj1 (E (bv B))) as (b' & Hb' & Ib'). { exists B. split; [exact HB|apply inb_self, A, HB]. }
    exists b'. split; [|exact Hb'].
    (* b' lies inside one block of l, found by `find`; it must be B by disjointness *)
    destruct (L_cover l A N (Z.to_nat (w - bp b')) b' (A' _ Hb')) as (B1 & HB1 & S1).
    { pose proof (A' _ Hb') as (? & _). lia. }
    { intros x Hx. apply E. exists b'. auto. }
    unfold host_of. destruct (find (subb b') l) as [B2|] eqn:F.
    - apply find_some in F. destruct F as [HB2 F]. apply subb_sub in F; [|apply A', Hb'].
      apply (sorted_disj l A S B2 B (bv B) HB2 HB); [apply F, Ib'|apply inb_self, A, HB].
    - exfalso. pose proof (find_none _ _ F B1 HB1) as Hn.
      apply subb_sub in S1; [congruence|apply A', Hb']. }
  pose proof (NoDup_incl_length ND I) as Hlen. rewrite map_length in Hlen. exact Hlen.
Qed.

(* ---------------------------------------------------------------- concatenation across a gap *)
Definition gap_below (l1 l2 : list blk) := forall a b, In a l1 -> In b l2 -> bv a + bsize a < bv b.

Lemma StronglySorted_app (R : blk -> blk -> Prop) l1 l2 :
  StronglySorted R l1 -> StronglySorted R l2 -> (forall a b, In a l1 -> In b l2 -> R a b) ->
  StronglySorted R (l1 ++ l2).
Proof.
  intros S1 S2 H. induction S1 as [|a l1 S1 IH F]; cbn; [exact S2|].
  constructor.
  - apply IH. intros; apply H; auto. now right.
  - rewrite Forall_forall in *. intros x Hx. apply in_app_or in Hx. destruct Hx; [auto|apply H; auto; now left].
Qed.

Theorem canon_app l1 l2 : canon l1 -> canon l2 -> gap_below l1 l2 -> canon (l1 ++ l2).
Proof.
  intros (A1 & S1 & N1) (A2 & S2 & N2) G. split; [|split].
  - intros b Hb. apply in_app_or in Hb. destruct Hb; auto.
  - apply StronglySorted_app; auto. intros a b Ha Hb. specialize (G a b Ha Hb). unfold below. lia.
  - intros b1 b2 H1 H2 (Hp & Hv & Hd). apply in_app_or in H1. apply in_app_or in H2.
    destruct H1 as [H1|H1], H2 as [H2|H2].
    + apply (N1 b1 b2 H1 H2). repeat split; assumption.
    + specialize (G b1 b2 H1 H2). lia.
    + specialize (G b2 b1 H2 H1). pose proof (aligned_pos _ (A1 _ H2)). pose proof (aligned_pos _ (A2 _ H1)). lia.
    + apply (N2 b1 b2 H1 H2). repeat split; assumption.
Qed.

Lemma canon_nil : canon [].
Proof. split; [intros b []|split; [constructor|intros b1 b2 []]]. Qed.

Lemma canon_single b : aligned b -> canon [b].
Proof.
  intros A. split; [intros c [<-|[]]; exact A|split; [repeat constructor|]].
  intros b1 b2 [<-|[]] [<-|[]] (Hp & Hv & Hd). pose proof (aligned_pos _ A). lia.
Qed.

Lemma covered_app l1 l2 x : covered (l1 ++ l2) x <-> covered l1 x \/ covered l2 x.
Proof.
  unfold covered. split.
  - intros (b & Hb & I). apply in_app_or in Hb. destruct Hb; [left|right]; eauto.
  - intros [(b & Hb & I)|(b & Hb & I)]; exists b; split; auto; apply in_or_app; auto.
Qed.

Lemma covered_cons b l x : covered (b :: l) x <-> inb b x \/ covered l x.
Proof.
  unfold covered. split.
  - intros (c & [<-|Hc] & I); [left; exact I|right; eauto].
  - intros [I|(c & Hc & I)]; [exists b; split; [now left|exact I]|exists c; split; [now right|exact I]].
Qed.

Lemma covered_nil x : ~ covered [] x.
Proof. intros (b & [] & _). Qed.

(* boolean membership *)
Definition inbb (b : blk) (x : Z) : bool := (bv b <=? x) && (x <? bv b + bsize b).
Lemma inbb_spec b x : inbb b x = true <-> inb b x.
Proof. unfold inbb, inb. rewrite andb_true_iff, Z.leb_le, Z.ltb_lt. tauto. Qed.
Definition memb (l : list blk) (x : Z) : bool := existsb (fun b => inbb b x) l.
Lemma memb_spec l x : memb l x = true <-> covered l x.
Proof.
  unfold memb, covered. rewrite existsb_exists. split; intros (b & Hb & I); exists b; split; auto; apply inbb_spec; auto.
Qed.

(* number of addresses *)
Definition total (l : list blk) : Z := fold_right (fun b acc => bsize b + acc) 0 l.

End W.
