(* Base/Bits.v — bit-level facts relating Python's & | ^ << >> on non-negative ints to arithmetic. *)
From Coq Require Import ZArith Lia Bool.
Open Scope Z_scope.

Lemma pow2_pos n : 0 <= n -> 0 < 2 ^ n.
Proof. intros. apply Z.pow_pos_nonneg; lia. Qed.

Lemma pow2_le a b : 0 <= a <= b -> 2 ^ a <= 2 ^ b.
Proof. intros. apply Z.pow_le_mono_r; lia. Qed.

Lemma pow2_lt a b : 0 <= a < b -> 2 ^ a < 2 ^ b.
Proof. intros. apply Z.pow_lt_mono_r; lia. Qed.

Lemma pow2_split a b : 0 <= a -> 0 <= b -> 2 ^ (a + b) = 2 ^ a * 2 ^ b.
Proof. intros. apply Z.pow_add_r; lia. Qed.

Lemma pow2_succ a : 0 <= a -> 2 ^ (a + 1) = 2 * 2 ^ a.
Proof. intros. rewrite Z.pow_add_r by lia. change (2 ^ 1) with 2. lia. Qed.

Lemma pow2_divide a b : 0 <= a <= b -> (2 ^ a | 2 ^ b).
Proof. intros. exists (2 ^ (b - a)). rewrite <- Z.pow_add_r by lia. f_equal. lia. Qed.

Lemma shiftl1 n : 0 <= n -> Z.shiftl 1 n = 2 ^ n.
Proof. intros. rewrite Z.shiftl_mul_pow2 by lia. lia. Qed.

Lemma ones_pow2 n : 0 <= n -> Z.ones n = 2 ^ n - 1.
Proof. intros. rewrite Z.ones_equiv. lia. Qed.

Lemma add_disjoint_lor a b : Z.land a b = 0 -> a + b = Z.lor a b.
Proof. intros H. rewrite Z.add_nocarry_lxor by exact H. apply Z.lxor_lor. exact H. Qed.

(* floor to a multiple of 2^h *)
Definition floor2 (v h : Z) : Z := v - v mod 2 ^ h.

Lemma floor2_div v h : 0 <= h -> floor2 v h = (v / 2 ^ h) * 2 ^ h.
Proof. intros. unfold floor2. pose proof (pow2_pos h H).
  rewrite (Z.div_mod v (2 ^ h)) at 1 by lia. lia. Qed.

Lemma floor2_divide v h : 0 <= h -> (2 ^ h | floor2 v h).
Proof. intros. rewrite floor2_div by lia. exists (v / 2 ^ h). lia. Qed.

Lemma floor2_bounds v h : 0 <= h -> floor2 v h <= v < floor2 v h + 2 ^ h.
Proof. intros. unfold floor2. pose proof (Z.mod_pos_bound v (2 ^ h) (pow2_pos h H)). lia. Qed.

Lemma floor2_nonneg v h : 0 <= h -> 0 <= v -> 0 <= floor2 v h.
Proof. intros. rewrite floor2_div by lia. pose proof (pow2_pos h H).
  assert (0 <= v / 2 ^ h) by (apply Z.div_pos; lia). nia. Qed.

Lemma floor2_unique v h b : 0 <= h -> (2 ^ h | b) -> b <= v < b + 2 ^ h -> b = floor2 v h.
Proof.
  intros Hh [k Hk] Hb. rewrite floor2_div by lia. subst b. f_equal.
  pose proof (pow2_pos h Hh). apply Z.div_unique with (r := v - k * 2 ^ h); lia.
Qed.

Lemma floor2_idem v h : 0 <= h -> floor2 (floor2 v h) h = floor2 v h.
Proof. intros. symmetry. apply floor2_unique; [lia|apply floor2_divide; lia|].
  pose proof (pow2_pos h H). lia. Qed.

(* a multiple of 2^h plus a small offset floors to the multiple *)
Lemma floor2_add_small b t h : 0 <= h -> (2 ^ h | b) -> 0 <= t < 2 ^ h -> floor2 (b + t) h = b.
Proof. intros. symmetry. apply floor2_unique; auto; lia. Qed.

Lemma shiftr_shiftl_floor v h : 0 <= h -> Z.shiftl (Z.shiftr v h) h = floor2 v h.
Proof. intros. rewrite Z.shiftl_mul_pow2, Z.shiftr_div_pow2, floor2_div by lia. reflexivity. Qed.

Lemma ldiff_ones_floor v h : 0 <= h -> Z.ldiff v (Z.ones h) = floor2 v h.
Proof. intros. rewrite Z.ldiff_ones_r by lia. apply shiftr_shiftl_floor; lia. Qed.

Lemma land_ones_mod v h : 0 <= h -> Z.land v (2 ^ h - 1) = v mod 2 ^ h.
Proof. intros. rewrite <- ones_pow2 by lia. apply Z.land_ones; lia. Qed.

(* v | (2^h - 1) *)
Lemma lor_ones v h : 0 <= h -> Z.lor v (2 ^ h - 1) = floor2 v h + 2 ^ h - 1.
Proof.
  intros Hh. rewrite <- ones_pow2 by lia.
  assert (E: Z.lor v (Z.ones h) = Z.lor (Z.ldiff v (Z.ones h)) (Z.ones h)).
  { apply Z.bits_inj'. intros n Hn. rewrite !Z.lor_spec, Z.ldiff_spec.
    destruct (Z.testbit v n), (Z.testbit (Z.ones h) n); reflexivity. }
  rewrite E.
  assert (D: Z.land (Z.ldiff v (Z.ones h)) (Z.ones h) = 0).
  { apply Z.bits_inj'. intros n Hn. rewrite Z.land_spec, Z.ldiff_spec, Z.bits_0.
    destruct (Z.testbit v n), (Z.testbit (Z.ones h) n); reflexivity. }
  pose proof (add_disjoint_lor _ _ D) as A.
  rewrite ldiff_ones_floor in * by lia. rewrite ones_pow2 in * by lia. lia.
Qed.

(* (2^w - 1) ^ m  for 0 <= m < 2^w *)
Lemma lxor_ones_sub w m : 0 <= w -> 0 <= m < 2 ^ w -> Z.lxor (2 ^ w - 1) m = 2 ^ w - 1 - m.
Proof.
  intros Hw Hm. rewrite <- ones_pow2 by lia.
  assert (L: Z.land m (Z.ones w) = m).
  { rewrite Z.land_ones by lia. apply Z.mod_small; lia. }
  assert (Sub: forall n, 0 <= n -> Z.testbit m n = true -> Z.testbit (Z.ones w) n = true).
  { intros n Hn Ht. rewrite <- L, Z.land_spec in Ht. apply andb_true_iff in Ht. tauto. }
  assert (E: Z.lxor (Z.ones w) m = Z.ldiff (Z.ones w) m).
  { apply Z.bits_inj'. intros n Hn. rewrite Z.lxor_spec, Z.ldiff_spec. specialize (Sub n Hn).
    destruct (Z.testbit (Z.ones w) n), (Z.testbit m n); try reflexivity. discriminate (Sub eq_refl). }
  rewrite E.
  assert (D: Z.land (Z.ldiff (Z.ones w) m) m = 0).
  { apply Z.bits_inj'. intros n Hn. rewrite Z.land_spec, Z.ldiff_spec, Z.bits_0.
    destruct (Z.testbit (Z.ones w) n), (Z.testbit m n); reflexivity. }
  assert (O: Z.lor (Z.ldiff (Z.ones w) m) m = Z.ones w).
  { apply Z.bits_inj'. intros n Hn. rewrite Z.lor_spec, Z.ldiff_spec. specialize (Sub n Hn).
    destruct (Z.testbit (Z.ones w) n), (Z.testbit m n); try reflexivity. discriminate (Sub eq_refl). }
  pose proof (add_disjoint_lor _ _ D) as A. rewrite O in A.
  rewrite ones_pow2 in * by lia. lia.
Qed.

(* v & netmask, with netmask spelled max_int ^ hostmask *)
Lemma land_netmask w v h : 0 <= h <= w -> 0 <= v < 2 ^ w ->
  Z.land v (Z.lxor (2 ^ w - 1) (2 ^ h - 1)) = floor2 v h.
Proof.
  intros Hh Hv.
  pose proof (pow2_le h w ltac:(lia)). pose proof (pow2_pos h ltac:(lia)).
  rewrite <- !ones_pow2 by lia.
  assert (L: Z.land v (Z.ones w) = v).
  { rewrite Z.land_ones by lia. apply Z.mod_small; lia. }
  rewrite <- ldiff_ones_floor by lia.
  assert (Sub: forall n, 0 <= n -> Z.testbit v n = true -> Z.testbit (Z.ones w) n = true).
  { intros n Hn Ht. rewrite <- L, Z.land_spec in Ht. apply andb_true_iff in Ht. tauto. }
  apply Z.bits_inj'. intros n Hn. rewrite Z.land_spec, Z.lxor_spec, Z.ldiff_spec. specialize (Sub n Hn).
  destruct (Z.testbit v n) eqn:?, (Z.testbit (Z.ones h) n) eqn:Eh, (Z.testbit (Z.ones w) n) eqn:Ew; try reflexivity;
    try discriminate (Sub eq_refl).
Qed.

(* v & -(2^h) *)
Lemma land_neg_pow2 v h : 0 <= h -> Z.land v (- 2 ^ h) = floor2 v h.
Proof.
  intros Hh. rewrite <- ldiff_ones_floor by lia.
  assert (E: - 2 ^ h = Z.lnot (Z.ones h)).
  { unfold Z.lnot. rewrite ones_pow2 by lia. lia. }
  rewrite E. apply Z.bits_inj'. intros n Hn.
  rewrite Z.land_spec, Z.ldiff_spec, Z.lnot_spec by lia. reflexivity.
Qed.

(* bounds on bitwise results *)
Lemma land_range a b w : 0 <= w -> 0 <= a < 2 ^ w -> 0 <= Z.land a b < 2 ^ w.
Proof.
  intros Hw Ha.
  assert (L: Z.land a (Z.ones w) = a) by (rewrite Z.land_ones by lia; apply Z.mod_small; lia).
  assert (E: Z.land a b = Z.land (Z.land a b) (Z.ones w)).
  { rewrite <- L at 1. rewrite <- !Z.land_assoc. f_equal. apply Z.land_comm. }
  rewrite E, Z.land_ones by lia. apply Z.mod_pos_bound. apply pow2_pos; lia.
Qed.

Lemma small_land_ones a w : 0 <= w -> 0 <= a < 2 ^ w -> Z.land a (Z.ones w) = a.
Proof. intros. rewrite Z.land_ones by lia. apply Z.mod_small; lia. Qed.

Lemma lor_range a b w : 0 <= w -> 0 <= a < 2 ^ w -> 0 <= b < 2 ^ w -> 0 <= Z.lor a b < 2 ^ w.
Proof.
  intros Hw Ha Hb.
  assert (E: Z.lor a b = Z.land (Z.lor a b) (Z.ones w)).
  { rewrite Z.land_lor_distr_l, !small_land_ones by lia. reflexivity. }
  rewrite E, Z.land_ones by lia. apply Z.mod_pos_bound. apply pow2_pos; lia.
Qed.

Lemma lxor_range a b w : 0 <= w -> 0 <= a < 2 ^ w -> 0 <= b < 2 ^ w -> 0 <= Z.lxor a b < 2 ^ w.
Proof.
  intros Hw Ha Hb.
  assert (E: Z.lxor a b = Z.land (Z.lxor a b) (Z.ones w)).
  { rewrite <- (small_land_ones a w) at 1 by lia. rewrite <- (small_land_ones b w) at 1 by lia.
    apply Z.bits_inj'. intros n Hn. rewrite !Z.land_spec, !Z.lxor_spec, !Z.land_spec.
    destruct (Z.testbit a n), (Z.testbit b n), (Z.testbit (Z.ones w) n); reflexivity. }
  rewrite E, Z.land_ones by lia. apply Z.mod_pos_bound. apply pow2_pos; lia.
Qed.

(* same high part  <->  same aligned block *)
Lemma shiftr_eq_iff a b h : 0 <= h -> (Z.shiftr a h = Z.shiftr b h <-> floor2 a h = floor2 b h).
Proof.
  intros Hh. rewrite !Z.shiftr_div_pow2, !floor2_div by lia. pose proof (pow2_pos h Hh). split; [congruence|nia].
Qed.
