(* Base/PyVal.v — outcomes, exception enum, and the untyped wire values exchanged with the harness. *)
From Coq Require Import ZArith List String.
Import ListNotations.
Open Scope Z_scope.

Inductive exn :=
| AddrFormatError | AddrConversionError | ValueError | TypeError | IndexError | KeyError
| StructError | NotRegisteredError | AttributeError | OverflowError
| OutOfFuel | Unsupported.

Inductive outcome (A : Type) := Ok (a : A) | Raise (e : exn).
Arguments Ok {A} a.
Arguments Raise {A} e.

Definition bind {A B} (o : outcome A) (f : A -> outcome B) : outcome B :=
  match o with Ok a => f a | Raise e => Raise e end.
Notation "'do' x <- o ; k" := (bind o (fun x => k)) (at level 200, x pattern, o at level 100, k at level 200).

Definition omap {A B} (f : A -> B) (o : outcome A) : outcome B :=
  match o with Ok a => Ok (f a) | Raise e => Raise e end.

Inductive pyval :=
| PInt (z : Z) | PStr (s : string) | PBool (b : bool) | PNone
| PList (l : list pyval) | PExn (e : exn).

Definition of_outcome {A} (f : A -> pyval) (o : outcome A) : pyval :=
  match o with Ok a => f a | Raise e => PExn e end.

Definition PInts (l : list Z) : pyval := PList (map PInt l).
Definition POpt {A} (f : A -> pyval) (o : option A) : pyval :=
  match o with Some a => f a | None => PNone end.

Definition exn_eqb (a b : exn) : bool :=
  match a, b with
  | AddrFormatError, AddrFormatError | AddrConversionError, AddrConversionError
  | ValueError, ValueError | TypeError, TypeError | IndexError, IndexError | KeyError, KeyError
  | StructError, StructError | NotRegisteredError, NotRegisteredError
  | AttributeError, AttributeError | OverflowError, OverflowError
  | OutOfFuel, OutOfFuel | Unsupported, Unsupported => true
  | _, _ => false
  end.

Fixpoint pyval_eqb (a b : pyval) {struct a} : bool :=
  match a, b with
  | PInt x, PInt y => Z.eqb x y
  | PStr x, PStr y => String.eqb x y
  | PBool x, PBool y => Bool.eqb x y
  | PNone, PNone => true
  | PExn x, PExn y => exn_eqb x y
  | PList xs, PList ys =>
      (fix go (xs ys : list pyval) {struct xs} : bool :=
         match xs, ys with
         | [], [] => true
         | x :: xs', y :: ys' => andb (pyval_eqb x y) (go xs' ys')
         | _, _ => false
         end) xs ys
  | _, _ => false
  end.
