(* Base/PyStr.v — executable models of the CPython 3.12 string/integer builtins netaddr relies on.
   ASCII only (Coq `string` over `ascii`).  Validated against CPython by the `pystr_*` correspondence
   commands (harness/pystr_cases.py) on every run of a check that uses them; facts are in Base/PyStrFacts.v. *)
From Coq Require Import ZArith List Bool String Ascii NArith.
Import ListNotations.
Open Scope Z_scope.

Definition code (c : ascii) : Z := Z.of_N (N_of_ascii c).
Definition chr (z : Z) : ascii := ascii_of_N (Z.to_N z).

Fixpoint chars (s : string) : list ascii :=
  match s with EmptyString => [] | String c r => c :: chars r end.
Fixpoint str_of (l : list ascii) : string :=
  match l with [] => EmptyString | c :: r => String c (str_of r) end.

(* ---- character classes ---- *)
(* str.isspace() on latin-1: \t \n \v \f \r, FS GS RS US, space, NEL, NBSP  (used by str.strip()) *)
Definition is_space (c : ascii) : bool :=
  let n := code c in ((9 <=? n) && (n <=? 13)) || ((28 <=? n) && (n <=? 32)) || (n =? 133) || (n =? 160).
(* whitespace skipped by int(): as above but NOT FS GS RS US (measured on CPython 3.12) *)
Definition is_space_int (c : ascii) : bool :=
  let n := code c in ((9 <=? n) && (n <=? 13)) || (n =? 32) || (n =? 133) || (n =? 160).
Definition is_digit (c : ascii) : bool := let n := code c in (48 <=? n) && (n <=? 57).

(* value of a digit character in bases up to 36 *)
Definition digit_val (c : ascii) : option Z :=
  let n := code c in
  if (48 <=? n) && (n <=? 57) then Some (n - 48)
  else if (97 <=? n) && (n <=? 122) then Some (n - 87)
  else if (65 <=? n) && (n <=? 90) then Some (n - 55)
  else None.

Definition digit_in (base : Z) (c : ascii) : option Z :=
  match digit_val c with Some d => if d <? base then Some d else None | None => None end.

Definition ch_plus : ascii := "+"%char.
Definition ch_minus : ascii := "-"%char.
Definition ch_us : ascii := "_"%char.
Definition ch_0 : ascii := "0"%char.

Definition ascii_eqb (a b : ascii) : bool := Ascii.eqb a b.

(* ---- int(s, base) for base in {2, 10, 16} (CPython PyLong_FromString on a str argument) ---- *)
Fixpoint drop_space (l : list ascii) : list ascii :=
  match l with c :: r => if is_space c then drop_space r else l | [] => [] end.
Fixpoint drop_space_int (l : list ascii) : list ascii :=
  match l with c :: r => if is_space_int c then drop_space_int r else l | [] => [] end.

(* digits with single underscores between them; returns value and the unconsumed rest.
   `prev_us`: previous char was an underscore; `ndig`: digits seen so far *)
Fixpoint scan_digits (base : Z) (l : list ascii) (acc : Z) (ndig : nat) (prev_us : bool)
  : option (Z * list ascii) :=
  match l with
  | [] => if prev_us then None else if Nat.eqb ndig 0 then None else Some (acc, [])
  | c :: r =>
      match digit_in base c with
      | Some d => scan_digits base r (acc * base + d) (S ndig) false
      | None =>
          if ascii_eqb c ch_us then
            (if prev_us then None else scan_digits base r acc ndig true)
          else if prev_us then None else if Nat.eqb ndig 0 then None else Some (acc, l)
      end
  end.

Definition is_prefix_char (base : Z) (c : ascii) : bool :=
  if base =? 16 then (ascii_eqb c "x"%char) || (ascii_eqb c "X"%char)
  else if base =? 2 then (ascii_eqb c "b"%char) || (ascii_eqb c "B"%char)
  else if base =? 8 then (ascii_eqb c "o"%char) || (ascii_eqb c "O"%char)
  else false.

Definition py_int_chars (base : Z) (l : list ascii) : option Z :=
  let l1 := drop_space_int l in
  let '(neg, l2) := match l1 with
                    | c :: r => if ascii_eqb c ch_plus then (false, r)
                                else if ascii_eqb c ch_minus then (true, r) else (false, l1)
                    | [] => (false, l1)
                    end in
  (* optional base prefix, consumed unconditionally when present; one underscore allowed after it *)
  let l3 := match l2 with
            | z :: p :: r => if ascii_eqb z ch_0 && is_prefix_char base p
                             then match r with u :: r' => if ascii_eqb u ch_us then r' else r | [] => r end
                             else l2
            | _ => l2
            end in
  match l3 with
  | [] => None
  | c :: _ =>
      if ascii_eqb c ch_us then None
      else match scan_digits base l3 0 0 false with
           | None => None
           | Some (v, rest) =>
               match drop_space_int rest with
               | [] => Some (if neg then - v else v)
               | _ => None
               end
           end
  end.

Definition py_int (base : Z) (s : string) : option Z := py_int_chars base (chars s).

(* ---- formatting ---- *)
Definition digit_char (d : Z) : ascii := if d <? 10 then chr (48 + d) else chr (87 + d).
Definition digit_char_upper (d : Z) : ascii := if d <? 10 then chr (48 + d) else chr (55 + d).

(* most-significant-first digits of n >= 0 in the given base (fuel = number of bits + 1 suffices) *)
Fixpoint to_digits (fuel : nat) (base n : Z) (acc : list Z) : list Z :=
  if n <? base then n :: acc
  else match fuel with
       | O => n :: acc
       | S f => to_digits f base (n / base) (n mod base :: acc)
       end.
Definition digits_of (base n : Z) : list Z := to_digits (Z.to_nat (Z.log2 n) + 1) base n [].

Definition fmt_nat (base : Z) (upper : bool) (n : Z) : list ascii :=
  map (if upper then digit_char_upper else digit_char) (digits_of base n).
(* '%d' % n *)
Definition fmt_d (n : Z) : string :=
  if n <? 0 then String ch_minus (str_of (fmt_nat 10 false (- n))) else str_of (fmt_nat 10 false n).
(* '%x' % n, '%X' % n for n >= 0 (negative: '-' + digits, as Python does) *)
Definition fmt_x (n : Z) : string :=
  if n <? 0 then String ch_minus (str_of (fmt_nat 16 false (- n))) else str_of (fmt_nat 16 false n).
Definition fmt_X (n : Z) : string :=
  if n <? 0 then String ch_minus (str_of (fmt_nat 16 true (- n))) else str_of (fmt_nat 16 true n).

Fixpoint repeat_char (c : ascii) (n : nat) : list ascii :=
  match n with O => [] | S k => c :: repeat_char c k end.
(* zero padding to a minimum number of digits: '%.4x', '%04x' (same for non-negative n) *)
Definition pad0 (k : nat) (l : list ascii) : list ascii := repeat_char ch_0 (k - List.length l) ++ l.
Definition fmt_x_pad (k : nat) (n : Z) : string := str_of (pad0 k (fmt_nat 16 false n)).
Definition fmt_X_pad (k : nat) (n : Z) : string := str_of (pad0 k (fmt_nat 16 true n)).
Definition fmt_d_pad (k : nat) (n : Z) : string := str_of (pad0 k (fmt_nat 10 false n)).
(* fixed-width binary: bin(n)[2:].zfill(k) *)
Definition fmt_b_pad (k : nat) (n : Z) : string := str_of (pad0 k (fmt_nat 2 false n)).

(* ---- split / join / strip / misc ---- *)
(* s.split(c) for a one-character separator: always at least one field *)
Fixpoint split_chars (sep : ascii) (l : list ascii) (cur : list ascii) : list (list ascii) :=
  match l with
  | [] => [rev cur]
  | c :: r => if ascii_eqb c sep then rev cur :: split_chars sep r [] else split_chars sep r (c :: cur)
  end.
Definition split (sep : ascii) (s : string) : list string := map str_of (split_chars sep (chars s) []).

(* s.split(c, 1) *)
Fixpoint split1_chars (sep : ascii) (l : list ascii) (cur : list ascii) : list (list ascii) :=
  match l with
  | [] => [rev cur]
  | c :: r => if ascii_eqb c sep then [rev cur; r] else split1_chars sep r (c :: cur)
  end.
Definition split1 (sep : ascii) (s : string) : list string := map str_of (split1_chars sep (chars s) []).

Fixpoint join_chars (sep : list ascii) (l : list (list ascii)) : list ascii :=
  match l with
  | [] => []
  | [x] => x
  | x :: r => x ++ sep ++ join_chars sep r
  end.
Definition join (sep : string) (l : list string) : string := str_of (join_chars (chars sep) (map chars l)).

Definition contains_char (c : ascii) (s : string) : bool := existsb (ascii_eqb c) (chars s).
Definition count_char (c : ascii) (s : string) : Z :=
  Z.of_nat (List.length (filter (ascii_eqb c) (chars s))).

Definition strip (s : string) : string := str_of (rev (drop_space (rev (drop_space (chars s))))).

Definition lower_char (c : ascii) : ascii :=
  let n := code c in if (65 <=? n) && (n <=? 90) then chr (n + 32) else c.
Definition lower (s : string) : string := str_of (map lower_char (chars s)).

Fixpoint starts_with_chars (p l : list ascii) : bool :=
  match p, l with
  | [], _ => true
  | a :: p', b :: l' => ascii_eqb a b && starts_with_chars p' l'
  | _ :: _, [] => false
  end.
Definition starts_with (p s : string) : bool := starts_with_chars (chars p) (chars s).

(* s.replace(old, new) for a non-empty `old` (left to right, non-overlapping) *)
Fixpoint replace_chars (fuel : nat) (old new l : list ascii) : list ascii :=
  match fuel with
  | O => l
  | S f =>
      match l with
      | [] => []
      | c :: r => if starts_with_chars old l
                  then new ++ replace_chars f old new (skipn (List.length old) l)
                  else c :: replace_chars f old new r
      end
  end.
Definition replace (old new s : string) : string :=
  str_of (replace_chars (S (String.length s)) (chars old) (chars new) (chars s)).

Definition str_len (s : string) : Z := Z.of_nat (String.length s).
