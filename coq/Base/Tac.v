(* Base/Tac.v — common imports and arithmetic tactics. *)
From Coq Require Export ZArith List Bool Lia ZifyBool.
Export ListNotations.
(* lia that also understands / and mod *)
Ltac lia_dm := Z.to_euclidean_division_equations; lia.
(* split a boolean comparison in the goal/hyps into its two arithmetic cases *)
Ltac case_leb a b := destruct (Z.leb_spec a b).
Ltac case_ltb a b := destruct (Z.ltb_spec a b).
Ltac case_eqb a b := destruct (Z.eqb_spec a b).
