(* History/C16_refuted.v — the code before the fix commit for F-15 violated C16's refusal clause.
   Faithful fragment of IPAddress.ipv4 / IPNetwork.ipv4 as they stood (netaddr/ip/__init__.py at
   c6dd8ba, lines 555-565 and 1184-1196): the second range test read
       elif _ipv4.max_int <= self._value <= 0xffffffffffff:
   and IPNetwork.ipv4 had no test on the prefix length. *)
From NV Require Import Base.Tac Base.PyVal Model.Ip Model.Conv.
Open Scope Z_scope.

Definition addr_ipv4_old (ver v : Z) : outcome (Z * Z) :=
  if ver =? 4 then addr_of_int_ver v 4
  else if ver =? 6 then
    if (0 <=? v) && (v <=? max_int 4) then addr_of_int_ver v 4
    else if (max_int 4 <=? v) && (v <=? 0xffffffffffff) then addr_of_int_ver (v - 0xffff00000000) 4
    else Raise AddrConversionError
  else Raise Unsupported.

Definition net_ipv4_old (ver v p : Z) : outcome net :=
  if ver =? 4 then
    do addr <- ipv4_int_to_str v; net_of_text_v4 addr p
  else if ver =? 6 then
    if (0 <=? v) && (v <=? max_int 4) then
      do addr <- ipv4_int_to_str v; net_of_text_v4 addr (p - 96)
    else if (max_int 4 <=? v) && (v <=? 0xffffffffffff) then
      do addr <- ipv4_int_to_str (v - 0xffff00000000); net_of_text_v4 addr (p - 96)
    else Raise AddrConversionError
  else Raise Unsupported.

(* IPAddress('::1:0:0').ipv4(): outside both /96 blocks, yet AddrFormatError (from klass(-0xfffe00000000, 4)) *)
Theorem C16_refuse_refuted : exists v,
  0 <= v < 2 ^ 128 /\ ~ (0 <= v <= 0xffffffff) /\ ~ (0xffff00000000 <= v <= 0xffffffffffff) /\
  addr_ipv4_old 6 v = Raise AddrFormatError /\ addr_ipv4_old 6 v <> Raise AddrConversionError.
Proof.
  exists 0x100000000. split; [|split; [|split; [|split]]]; try lia.
  - vm_compute. reflexivity.
  - vm_compute. discriminate.
Qed.

(* IPNetwork('::ffff:1.2.3.4/64').ipv4(): prefix shorter than /96, yet AddrFormatError (from '1.2.3.4/-32');
   IPNetwork('::1:0:0/100').ipv4(): outside both blocks, yet ValueError (from int_to_str of a negative) *)
Theorem C16_refuse_net_refuted :
  (exists v p, 0 <= v < 2 ^ 128 /\ 0 <= p < 96 /\ net_ipv4_old 6 v p = Raise AddrFormatError) /\
  (exists v p, 0 <= v < 2 ^ 128 /\ 96 <= p <= 128 /\
     ~ (0 <= v <= 0xffffffff) /\ ~ (0xffff00000000 <= v <= 0xffffffffffff) /\
     net_ipv4_old 6 v p = Raise ValueError).
Proof.
  split.
  - exists 0xffff01020304, 64. split; [lia|split; [lia|vm_compute; reflexivity]].
  - exists 0x100000000, 100. split; [lia|split; [lia|split; [lia|split; [lia|vm_compute; reflexivity]]]].
Qed.

(* the repaired model refuses the same inputs with the documented class *)
Theorem C16_witnesses_now_refused :
  addr_ipv4 6 0x100000000 = Raise AddrConversionError /\
  net_ipv4 6 0xffff01020304 64 = Raise AddrConversionError /\
  net_ipv4 6 0x100000000 100 = Raise AddrConversionError.
Proof. repeat split; vm_compute; reflexivity. Qed.
Print Assumptions C16_refuse_refuted.
Print Assumptions C16_refuse_net_refuted.
