(* History/C08_refuted.v — the code before the fix: commits for F-08..F-11 violated C08.
   Each fragment mirrors the pre-fix Python; each `_refuted` theorem exhibits the witness of DESIGN.md section 9. *)
From Coq Require Import String Ascii.
From NV Require Import Base.Tac Base.PyVal Base.PyStr Model.Ip Model.Eui.
Open Scope Z_scope.

Definition cisco_obj := {| ever := 48; evalue := 73588229205; edialect := mac_cisco |}.   (* 00-11-22-33-44-55 *)

(* ---- F-08: ei was '%02X-%02X-%02X' % tuple(self[3:6]) -- a slice of the DIALECT's words ---- *)
Definition ei_prefix (e : eui) : outcome (option string) :=
  let d := edialect e in
  if ever e =? 48 then
    do ws <- int_to_words (evalue e) (word_size d) (num_words d);
    let sl := firstn 3 (skipn 3 ws) in
    if Nat.eqb (length sl) 3 then Ok (Some (join "-" (map (fmt_X_pad 2) sl))) else Raise TypeError
  else if ever e =? 64 then
    do ws <- int_to_words (evalue e) (word_size d) (num_words d);
    let sl := firstn 5 (skipn 3 ws) in
    if Nat.eqb (length sl) 5 then Ok (Some (join "-" (map (fmt_X_pad 2) sl))) else Raise TypeError
  else Ok None.

Theorem F08_ei_refuted : exists e, ever e = 48 /\ 0 <= evalue e < 2 ^ 48 /\
  In ("mac_cisco"%string, (48, edialect e)) builtin_dialects /\
  ei_prefix e = Raise TypeError /\ eui_ei e = Ok (Some "33-44-55"%string).
Proof. exists cisco_obj. vm_compute. repeat split; try discriminate; tauto. Qed.

(* ---- F-09: __setitem__ checked value <= dialect.max_word (inherited 255 in every subclass) and rebuilt the
        value with words_to_int(words) = the module default dialect (8-bit words) ---- *)
Definition setitem_prefix (max_word : Z) (e : eui) (idx value : Z) : outcome eui :=
  let d := edialect e in
  let dd := default_dialect (ever e) in
  if negb ((0 <=? idx) && (idx <=? num_words d - 1)) then Raise IndexError
  else if negb ((0 <=? value) && (value <=? max_word)) then Raise IndexError
  else do words <- int_to_words (evalue e) (word_size d) (num_words d);
       if negb (Z.to_nat idx <? length words)%nat then Raise IndexError
       else do v <- words_to_int (list_set words (Z.to_nat idx) value) (word_size dd) (num_words dd);
            Ok {| ever := ever e; evalue := v; edialect := d |}.

Theorem F09_setitem_refuted : exists e idx x, 0 <= idx < num_words (edialect e) /\ 0 <= x < 2 ^ word_size (edialect e) /\
  setitem_prefix 255 e idx x = Raise ValueError /\
  eui_setitem e idx x = Ok {| ever := 48; evalue := 4868752469; edialect := mac_cisco |}.   (* 0001.2233.4455 *)
Proof. exists cisco_obj, 0, 1. vm_compute. repeat split; try reflexivity; try discriminate. Qed.

Theorem F09_word_cap_refuted : exists e idx x, 0 <= idx < num_words (edialect e) /\ 0 <= x < 2 ^ word_size (edialect e) /\
  setitem_prefix 255 e idx x = Raise IndexError.
Proof. exists cisco_obj, 0, 300. vm_compute. repeat split; try reflexivity; try discriminate. Qed.

(* ---- F-10: bits(word_sep) passed word_sep in the position of the strategy's `dialect` parameter:
        a str has no attribute word_size ---- *)
Definition bits_prefix (e : eui) (sep : option string) : outcome string :=
  match sep with
  | None => let d := default_dialect (ever e) in int_to_bits (evalue e) (word_size d) (num_words d) (word_sep d)
  | Some _ => Raise AttributeError
  end.

Theorem F10_bits_refuted : exists e sep, bits_prefix e (Some sep) = Raise AttributeError /\
  eui_bits e (Some sep) = Ok "00000000:00010001:00100010:00110011:01000100:01010101"%string.
Proof. exists cisco_obj, ":"%string. vm_compute. split; reflexivity. Qed.

(* ---- F-11: the integer fallback ran inside the per-module loop, before the EUI-64 parser was tried ---- *)
Definition detect_version_prefix (a : earg) : outcome (Z * Z) :=
  match str_to_int_48 (base_of a) with
  | Ok v => Ok (48, v)
  | Raise AddrFormatError =>
      match int_fallback a 48 with
      | Ok (Some i) => Ok (48, i)
      | Raise e => Raise e
      | Ok None =>
          match str_to_int_64 (base_of a) with
          | Ok v => Ok (64, v)
          | Raise AddrFormatError =>
              match int_fallback a 64 with
              | Ok (Some i) => Ok (64, i)
              | Ok None => Raise AddrFormatError
              | Raise e => Raise e
              end
          | Raise e => Raise e
          end
      end
  | Raise e => Raise e
  end.

Theorem F11_roundtrip_refuted : exists v s, 0 <= v < 2 ^ 64 /\ int_to_str v eui64_bare = Ok s /\
  detect_version_prefix (AStr s) = Ok (48, 41000000) /\ detect_version (AStr s) = Ok (64, v).
Proof. exists 1090519040, "0000000041000000"%string. vm_compute. repeat split; try reflexivity; try discriminate. Qed.
