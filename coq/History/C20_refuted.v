(* History/C20_refuted.v — defect F-17: SubnetSplitter.extract_subnet before repo commit 5ebd5df
   ("fix: SubnetSplitter.extract_subnet handed out the same space twice for counts that are not powers of two").
   The pre-fix body (netaddr/contrib/subnet_splitter.py 25-38 at 3b8d0b9):

        for cidr in self.available_subnets():
            subnets = list(cidr.subnet(prefix, count=count))
            if not subnets:
                continue
            self.remove_subnet(cidr)
            self._subnets = self._subnets.union(set(cidr_exclude(cidr, cidr_merge(subnets)[0])))
            return subnets
        return []

   Only the first merged block of the extraction is taken out of the chosen network.  The fragment below is that
   loop over the same helpers as Model/Splitter.v; the theorem exhibits a two-call history that hands out the same
   /26 twice. *)
From Coq Require Import ZArith List Bool.
From NV Require Import Base.PyVal Model.Ip Model.Partition Model.Span Model.Merge Model.Subnet Model.Splitter.
Import ListNotations.
Open Scope Z_scope.

Fixpoint extract_loop_old (ver : Z) (st : sp_state) (cands : list cblk) (prefix : Z) (count : option Z)
  : outcome (sp_state * list cblk) :=
  let w := width ver in
  match cands with
  | [] => Ok (st, [])
  | cidr :: r =>
      do subnets <- subnet_list w cidr prefix count;
      match subnets with
      | [] => extract_loop_old ver st r prefix count
      | _ =>
          do st1 <- remove_subnet w st cidr;
          do merged <- cidr_merge (map (fun b => MNet (net_of_cblk ver b)) subnets);
          do first <- (match merged with [] => Raise IndexError | m :: _ => Ok m end);     (* cidr_merge(subnets)[0] *)
          do remaining <- cidr_exclude w cidr (cblk_of_net first);
          Ok (fold_left (add_blk w) remaining st1, subnets)
      end
  end.

Definition extract_subnet_old (ver : Z) (st : sp_state) (prefix : Z) (count : option Z) :=
  extract_loop_old ver st (available_subnets st) prefix count.

(* SubnetSplitter('10.0.0.0/24'): extract_subnet(26, 3) returns 10.0.0.0/26, 10.0.0.64/26, 10.0.0.128/26 and leaves
   10.0.0.128/25 available; extract_subnet(26, 1) then returns 10.0.0.128/26 again. *)
Theorem C20_step_refuted : exists B q c1 c2 st1 s1 st2 s2 k,
  extract_subnet_old 4 [B] q (Some c1) = Ok (st1, s1) /\
  extract_subnet_old 4 st1 q (Some c2) = Ok (st2, s2) /\
  In k s1 /\ In k s2.
Proof.
  exists (167772160, 24), 26, 3, 1.
  exists [(167772288, 25)], [(167772160, 26); (167772224, 26); (167772288, 26)].
  exists [(167772352, 26)], [(167772288, 26)], (167772288, 26).
  split; [vm_compute; reflexivity|]. split; [vm_compute; reflexivity|].
  split; [right; right; left; reflexivity|left; reflexivity].
Qed.
Print Assumptions C20_step_refuted.

(* the repaired loop on the same history: the second call hands out 10.0.0.192/26 *)
Example C20_step_repaired :
  extract_subnet 4 [(167772160, 24)] 26 (Some 3) =
    Ok ([(167772352, 26)], [(167772160, 26); (167772224, 26); (167772288, 26)]) /\
  extract_subnet 4 [(167772352, 26)] 26 (Some 1) = Ok ([], [(167772352, 26)]).
Proof. split; vm_compute; reflexivity. Qed.
