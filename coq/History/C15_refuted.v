(* History/C15_refuted.v — defect F-14: the pre-fix valid_bits / valid_bin of netaddr/strategy/__init__.py
   (before the fix commit "fix: valid_bits/valid_bin accepted signs, whitespace, underscores and extra '0b' prefixes")
   relied on int(s, 2) alone and removed every '0b'.  Faithful model of the old fragment and the refutation of the
   strictness statement C15_decode_strict on it, by evaluation of concrete witnesses. *)
From Coq Require Import String Ascii.
From NV Require Import Base.Tac Base.PyVal Base.PyStr Model.Codec Proofs.C15_Dec.
Open Scope string_scope.
Open Scope Z_scope.

(* old: if len(bits) != width: False; try: 0 <= int(bits, 2) <= max_int *)
Definition valid_bits_old (bits : string) (width : Z) (word_sep : string) : bool :=
  let bits := strip_sep word_sep bits in
  if negb (str_len bits =? width) then false else int2_in_range bits width.

Definition bits_to_int_old (bits : string) (width : Z) (word_sep : string) : outcome Z :=
  if negb (valid_bits_old bits width word_sep) then Raise ValueError
  else match py_int 2 (strip_sep word_sep bits) with Some v => Ok v | None => Raise ValueError end.

(* old: bin_val = bin_val.replace('0b', '') *)
Definition valid_bin_old (bin_val : string) (width : Z) : bool :=
  if negb (starts_with "0b" bin_val) then false
  else let bin_val := replace "0b" "" bin_val in
       if str_len bin_val >? width then false else int2_in_range bin_val width.

Definition bin_to_int_old (bin_val : string) (width : Z) : outcome Z :=
  if negb (valid_bin_old bin_val width) then Raise ValueError
  else match py_int 2 (replace "0b" "" bin_val) with Some v => Ok v | None => Raise ValueError end.

(* malformed inputs (a sign, an underscore, leading whitespace, a '0b' prefix inside a bits string; a doubled or
   inner '0b', a sign, a blank, an underscore in a '0b' numeral) were decoded instead of raising *)
Theorem C15_decode_strict_refuted :
  (exists s v, bits_to_int_old s 32 "." = Ok v /\ bits_wf (strip_sep "." s) 32 = false) /\
  (exists s v, bin_to_int_old s 32 = Ok v /\ bin_wf s 32 = false) /\
  bits_to_int_old "+0000000.00000000.00000000.00000001" 32 "." = Ok 1 /\
  bits_to_int_old "0000_000.00000000.00000000.00000001" 32 "." = Ok 1 /\
  bits_to_int_old " 0000000.00000000.00000000.00000001" 32 "." = Ok 1 /\
  bits_to_int_old "0b000000.00000000.00000000.00000001" 32 "." = Ok 1 /\
  bin_to_int_old "0b0b1" 32 = Ok 1 /\
  bin_to_int_old "0b10b1" 32 = Ok 3 /\
  bin_to_int_old "0b+1" 32 = Ok 1 /\
  bin_to_int_old "0b 1" 32 = Ok 1 /\
  bin_to_int_old "0b1_1" 32 = Ok 3.
Proof.
  split; [exists "+0000000.00000000.00000000.00000001", 1; vm_compute; split; reflexivity|].
  split; [exists "0b0b1", 1; vm_compute; split; reflexivity|].
  vm_compute. repeat split; reflexivity.
Qed.
Print Assumptions C15_decode_strict_refuted.

(* the repaired functions refuse the same inputs *)
Example C15_repaired_refuses :
  bits_to_int "+0000000.00000000.00000000.00000001" 32 "." = Raise ValueError /\
  bits_to_int "0000_000.00000000.00000000.00000001" 32 "." = Raise ValueError /\
  bin_to_int "0b0b1" 32 = Raise ValueError /\ bin_to_int "0b1_1" 32 = Raise ValueError.
Proof. vm_compute. repeat split; reflexivity. Qed.
