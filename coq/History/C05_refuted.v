(* History/C05_refuted.v — cidr_merge as it was before the F-05 fix (netaddr/ip/__init__.py:1611-1619 at c6dd8ba):
   a network that was not merged with anything was appended as `original`, host bits included, instead of
   `original.cidr`.  Everything else is Model/Merge.v unchanged.  The property C05 is false for that code:
   witness by computation on the faithful model. *)
From NV Require Import Base.Tac Base.PyVal Model.Ip Model.Span Model.Merge Model.Sets Proofs.C02 Proofs.NetDen.
Open Scope Z_scope.

Fixpoint emit_merged_old (l : list rtuple) : outcome (list net) :=
  match l with
  | [] => Ok []
  | t :: r =>
      do here <- (match rt_orig t with
                  | Some (MRange ver s e) => iprange_to_cidrs (addr_net ver s) (addr_net ver e)
                  | Some (MNet n) => Ok [n]                       (* merged.append(original) *)
                  | None => iprange_to_cidrs (addr_net (rt_ver t) (rt_first t)) (addr_net (rt_ver t) (rt_last t))
                  end);
      do rest <- emit_merged_old r;
      Ok (here ++ rest)
  end.

Definition cidr_merge_old (items : list mitem) : outcome (list net) :=
  emit_merged_old (merge_ranges (map (fun m => (mi_ver m, mi_last m, mi_first m, Some m)) items)).

(* cidr_merge(['10.0.0.1/24']) returned IPNetwork('10.0.0.1/24'): a well-formed input whose result is not a
   canon_nets list (its only block has host bits), although the addresses are right *)
Theorem C05_merge_refuted :
  exists items l, Forall wf_mitem items /\ cidr_merge_old items = Ok l /\ ~ canon_nets l.
Proof.
  exists [MNet {| nver := 4; nval := 167772161; nplen := 24 |}], [{| nver := 4; nval := 167772161; nplen := 24 |}].
  split; [|split].
  - constructor; [|constructor]. unfold wf_mitem, wf_net; cbn [nver nval nplen]. change (width 4) with 32.
    split; [reflexivity|lia].
  - vm_compute. reflexivity.
  - intros (F & _). inversion F as [|? ? (_ & H) _]; subst. unfold hostfree in H. vm_compute in H. discriminate.
Qed.
Print Assumptions C05_merge_refuted.
