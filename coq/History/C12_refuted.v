(* History/C12_refuted.v — finding F-C12-1: before the `fix:` commit 3b8d0b9 in netaddr/ip/sets.py IPSet had no __reduce__.
   object.__reduce_ex__(protocol) with protocol 0 or 1 goes through copyreg._reduce_ex, which ends with
       if dict: return _reconstructor, args, dict  else: return _reconstructor, args
   so a FALSE state - the empty tuple, i.e. the state of the empty IPSet - is dropped, __setstate__ is never
   called, the slot _cidrs of the rebuilt object stays unset and every use of it raises AttributeError.
   Real code (pre-fix): pickle.loads(pickle.dumps(IPSet(), 0)) == IPSet()  ->  AttributeError. *)
From NV Require Import Base.Tac Base.PyVal Model.Ip Model.Order Proofs.C12.
Open Scope Z_scope.

(* faithful pre-fix fragment: the state reaches __setstate__ only if the protocol is >= 2 or the state is true *)
Definition ipset_restore_prefix (protocol : Z) (cidrs : list obj) : outcome (list obj) :=
  let state := ipset_getstate cidrs in
  if (protocol <? 2) && (match state with [] => true | _ => false end)
  then Raise AttributeError                 (* object without _cidrs *)
  else ipset_setstate state.

Theorem C12_ipset_pickle_refuted : exists protocol cidrs,
  0 <= protocol <= 5 /\ Forall wf_cidr cidrs /\ NoDup (map key cidrs) /\
  ipset_restore_prefix protocol cidrs <> Ok cidrs.
Proof.
  exists 0, []. split; [lia|]. split; [constructor|]. split; [constructor|]. vm_compute. discriminate.
Qed.
Print Assumptions C12_ipset_pickle_refuted.
