(* History/C04_refuted.v — F-04: IPRange.__contains__ as it stood before repo commit c6dd8ba
   ("fix: IPRange.__contains__ rejected networks ending at or just before the range end").
   The network branch compared `self._end._value > other_next_start`; the fragment below is that code,
   the theorem exhibits a well-formed (range, network) pair on which it differs from interval inclusion. *)
From NV Require Import Base.Tac Base.PyVal Base.Bits Model.Ip Model.Contains Proofs.C04.
Open Scope Z_scope.

(* pre-fix IPRange.__contains__ (lines 1419-1439 at 7d04be5); only the last comparison differs *)
Definition range_contains_prefix (W : Z -> Z) (sver ss se : Z) (other : ipobj) : outcome bool :=
  if negb (sver =? over other) then Ok false
  else
    match other with
    | Addr _ v => Ok ((ss <=? v) && (se >=? v))
    | Rng _ s e => Ok ((ss <=? s) && (se >=? e))
    | Net ver v p =>
        let shiftwidth := W ver - p in
        do hi <- py_shiftr v shiftwidth;
        do other_start <- py_shiftl hi shiftwidth;
        do one <- py_shiftl 1 shiftwidth;
        let other_next_start := other_start + one in
        Ok ((ss <=? other_start) && (se >? other_next_start))
    end.

(* IPNetwork('10.0.0.0/24') in IPRange('10.0.0.0', '10.0.0.255') was False *)
Theorem C04_contains_refuted : exists y x,
  is_container y /\ wf_obj width y /\ wf_obj width x /\
  (match y with Rng ver s e => range_contains_prefix width ver s e x | _ => Raise TypeError end)
  <> Ok (insideb width x y).
Proof.
  exists (Rng 4 167772160 167772415), (Net 4 167772160 24).
  split; [exact I|]. split; [|split].
  - unfold wf_obj. repeat split; vm_compute; (reflexivity || discriminate).
  - unfold wf_obj. repeat split; vm_compute; (reflexivity || discriminate).
  - vm_compute. discriminate.
Qed.
Print Assumptions C04_contains_refuted.
