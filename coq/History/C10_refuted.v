(* History/C10_refuted.v — defect F-12: IPListMixin.__getitem__(slice) before the fix (netaddr/ip/__init__.py
   715-729 at c6dd8ba).  Faithful model of the pre-fix slice branch and a refutation of C10_slice_list on it.

       (start, stop, step) = index.indices(self.size)
       if (start + step < 0) or (step > stop):
           item = iter([IPAddress(self.first, self._module.version)])
       else:
           start_ip = IPAddress(self.first + start, self._module.version)
           end_ip = IPAddress(self.first + stop - step, self._module.version)
           item = iter_iprange(start_ip, end_ip, step)                                              *)
From NV Require Import Base.Tac Base.PyVal Model.Ip Model.PySlice Model.ListLike Proofs.C10.
Open Scope Z_scope.

(* the pre-fix code can also return a list iterator over one address *)
Inductive iterator_old :=
| OItList (l : list Z)
| OItIprange (sver sv ever ev step : Z).

Definition it_take_old (fuel : nat) (it : iterator_old) : list Z * gstatus :=
  match it with
  | OItList l => list_take fuel l
  | OItIprange sver sv ever ev step => iter_iprange_take fuel sver sv ever ev step
  end.

Definition r_getitem_slice_old (x : ranged) (a b c : option Z) : outcome iterator_old :=
  if r_ver x =? 6 then Raise TypeError
  else
    do ind <- py_slice_indices a b c (r_size x);
    let '(start, stop, step) := ind in
    if (start + step <? 0) || (step >? stop) then
      do ip <- addr_of_int_ver (r_first x) (r_ver x); Ok (OItList [snd ip])
    else
      do start_ip <- addr_of_int_ver (r_first x + start) (r_ver x);
      do end_ip <- addr_of_int_ver (r_first x + stop - step) (r_ver x);
      Ok (OItIprange (fst start_ip) (snd start_ip) (fst end_ip) (snd end_ip) step).

(* the statement of C10_slice_list for the old code at one input *)
Definition slice_like_list_old (x : ranged) (a b c : option Z) : Prop :=
  match py_list_slice (r_addresses x) a b c with
  | Raise e => r_getitem_slice_old x a b c = Raise e
  | Ok l => exists it, r_getitem_slice_old x a b c = Ok it /\ forall n, it_take_old n it = list_take n l
  end.

Definition net10 := RNet 4 167772160 29.      (* IPNetwork('10.0.0.0/29') *)
Definition net0 := RNet 4 0 29.               (* IPNetwork('0.0.0.0/29') *)

Lemma net_wf v : 0 <= v < 4294967296 -> rwf (RNet 4 v 29).
Proof. intros H. cbn [rwf]. split; [reflexivity|]. unfold width. cbn [Z.eqb Pos.eqb].
  change (2 ^ 32) with 4294967296. lia. Qed.

(* what the old code yields at the three witnesses, against what the list would give *)
Example old_step3 :
  omap (it_take_old 10) (r_getitem_slice_old net10 None None (Some 3)) = Ok ([167772160; 167772163], Done) /\
  py_list_slice (r_addresses net10) None None (Some 3) = Ok [167772160; 167772163; 167772166].
Proof. split; vm_compute; reflexivity. Qed.

Example old_empty :
  omap (it_take_old 10) (r_getitem_slice_old net10 (Some 0) (Some 0) None) = Ok ([167772160], Done) /\
  py_list_slice (r_addresses net10) (Some 0) (Some 0) None = Ok [].
Proof. split; vm_compute; reflexivity. Qed.

Example old_negstep :
  omap (it_take_old 10) (r_getitem_slice_old net0 (Some 2) None (Some (-3))) = Ok ([0], Done) /\
  py_list_slice (r_addresses net0) (Some 2) None (Some (-3)) = Ok [2].
Proof. split; vm_compute; reflexivity. Qed.

Lemma refute x a b c l got :
  py_list_slice (r_addresses x) a b c = Ok l ->
  omap (it_take_old 10) (r_getitem_slice_old x a b c) = Ok got ->
  got <> list_take 10 l ->
  ~ slice_like_list_old x a b c.
Proof.
  intros E1 E2 NE H. unfold slice_like_list_old in H. rewrite E1 in H.
  destruct H as (it & E & T). rewrite E in E2. cbn [omap] in E2. inversion E2 as [E3].
  rewrite T in E3. congruence.
Qed.

Theorem C10_slice_refuted :
  exists x a b c, rwf x /\ r_ver x = 4 /\ ~ slice_like_list_old x a b c.
Proof.
  exists net10, None, None, (Some 3). split; [apply net_wf; lia|]. split; [reflexivity|].
  destruct old_step3 as [G L]. apply (refute _ _ _ _ _ _ L G). vm_compute. discriminate.
Qed.
Print Assumptions C10_slice_refuted.

Theorem C10_slice_refuted_empty :
  rwf net10 /\ ~ slice_like_list_old net10 (Some 0) (Some 0) None.
Proof.
  split; [apply net_wf; lia|].
  destruct old_empty as [G L]. apply (refute _ _ _ _ _ _ L G). vm_compute. discriminate.
Qed.
Print Assumptions C10_slice_refuted_empty.

Theorem C10_slice_refuted_negstep :
  rwf net0 /\ ~ slice_like_list_old net0 (Some 2) None (Some (-3)).
Proof.
  split; [apply net_wf; lia|].
  destruct old_negstep as [G L]. apply (refute _ _ _ _ _ _ L G). vm_compute. discriminate.
Qed.
Print Assumptions C10_slice_refuted_negstep.
