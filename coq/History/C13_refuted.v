(* History/C13_refuted.v — spanning_cidr as it was before the F-13 fix (netaddr/ip/__init__.py:1702-1745 at
   c6dd8ba): running min/max network chosen by `sort_key` comparison, widening started at the prefix length of
   the network that sorts last, and always at least once when its last address exceeds the lowest first.
   The property C13 is false for that code: two witnesses, by computation on the faithful model. *)
From NV Require Import Base.Tac Base.PyVal Model.Ip Model.Span.
Open Scope Z_scope.

(* IPNetwork.sort_key (lines 1166-1173): (version, first, prefixlen - 1, host_bits) *)
Definition sort_key (n : net) : Z * Z * Z * Z :=
  let w := width (nver n) in
  let net_size_bits := nplen n - 1 in
  let first := Z.land (nval n) (Z.lxor (max_int_w w) (hostmask_int w (nplen n))) in
  let host_bits := nval n - first in
  (nver n, first, net_size_bits, host_bits).

(* Python tuple `<` on 4-tuples of ints *)
Definition key_lt (a b : Z * Z * Z * Z) : bool :=
  let '(a1, a2, a3, a4) := a in
  let '(b1, b2, b3, b4) := b in
  if negb (a1 =? b1) then a1 <? b1
  else if negb (a2 =? b2) then a2 <? b2
  else if negb (a3 =? b3) then a3 <? b3
  else a4 <? b4.

Definition net_lt (a b : net) : bool := key_lt (sort_key a) (sort_key b).   (* BaseIP.__lt__ *)
Definition net_gt (a b : net) : bool := key_lt (sort_key b) (sort_key a).   (* BaseIP.__gt__ *)

Definition old_step (st : net * net) (network : net) : net * net :=
  let '(min_network, max_network) := st in
  (if net_lt network min_network then network else min_network,
   if net_gt network max_network then network else max_network).

Definition spanning_cidr_old (ip_addrs : list net) : outcome net :=
  match ip_addrs with
  | network_a :: network_b :: rest =>
      let st := if net_lt network_a network_b then (network_a, network_b) else (network_b, network_a) in
      let '(min_network, max_network) := fold_left old_step rest st in
      if negb (nver min_network =? nver max_network) then Raise TypeError
      else
        let ipnum := nlast width max_network in
        let prefixlen := nplen max_network in
        let lowest_ipnum := nfirst width min_network in
        let w := width (nver max_network) in
        do r <- span_loop (Z.to_nat w + 1) w lowest_ipnum ipnum prefixlen;
        net_of_tuple width (nver min_network) (fst r) (snd r)
  | _ => Raise ValueError
  end.

Definition N4 (v p : Z) : net := {| nver := 4; nval := v; nplen := p |}.

(* the block (r, q) of width 32 contains the whole of input n *)
Definition covers (r q : Z) (n : net) : Prop :=
  r <= nfirst width n /\ nlast width n <= r + 2 ^ (32 - q) - 1.

(* witness 1: ['10.0.0.0/8', '10.1.0.0/16'] |-> 10.0.0.0/15, which does not contain the /8;
   witness 2: ['10.0.0.0/24', '10.0.0.0/24'] |-> 10.0.0.0/23 although the /24 itself covers both inputs *)
Theorem C13_span_refuted :
  (exists l r q, spanning_cidr_old l = Ok (N4 r q) /\ exists n, In n l /\ ~ covers r q n) /\
  (exists l r q, spanning_cidr_old l = Ok (N4 r q) /\
     exists r' q', q < q' <= 32 /\ r' mod 2 ^ (32 - q') = 0 /\ forall n, In n l -> covers r' q' n).
Proof.
  split.
  - exists [N4 167772160 8; N4 167837696 16], 167772160, 15. split; [vm_compute; reflexivity|].
    exists (N4 167772160 8). split; [left; reflexivity|].
    unfold covers. vm_compute. intros [_ H]. apply H. reflexivity.
  - exists [N4 167772160 24; N4 167772160 24], 167772160, 23. split; [vm_compute; reflexivity|].
    exists 167772160, 24. split; [lia|]. split; [vm_compute; reflexivity|].
    intros n [<-|[<-|[]]]; unfold covers; vm_compute; split; discriminate.
Qed.
Print Assumptions C13_span_refuted.

(* the repaired function on the same inputs *)
Example C13_witnesses_repaired :
  spanning_cidr [N4 167772160 8; N4 167837696 16] = Ok (N4 167772160 8) /\
  spanning_cidr [N4 167772160 24; N4 167772160 24] = Ok (N4 167772160 24).
Proof. split; vm_compute; reflexivity. Qed.
