(* History/C17_refuted.v — defect F-16: the unrepaired valid_glob (numerals read by int()) accepts strings that are
   not globs of the grammar; the conversion functions then raise or read them as octal.
   Faithful pre-fix fragment of netaddr/ip/glob.py:16-67 (before commit "fix: valid_glob accepted octets ..."). *)
From Coq Require Import String Ascii.
From NV Require Import Base.Tac Base.PyVal Base.PyStr Model.Glob Proofs.C17.
Open Scope string_scope.
Open Scope Z_scope.

Fixpoint valid_glob_loop_prefix (octets : list string) (seen_hyphen seen_asterisk : bool) : bool :=
  match octets with
  | [] => true
  | octet :: rest =>
      if contains_char ch_hyphen octet then
        if seen_hyphen then false
        else if seen_asterisk then false
        else match map (py_int 10) (split ch_hyphen octet) with      (* [int(i) for i in octet.split('-')] *)
             | [Some octet1; Some octet2] =>
                 if octet1 >=? octet2 then false
                 else if negb ((0 <=? octet1) && (octet1 <=? 254)) then false
                 else if negb ((1 <=? octet2) && (octet2 <=? 255)) then false
                 else valid_glob_loop_prefix rest true seen_asterisk
             | _ => false
             end
      else if String.eqb octet "*" then valid_glob_loop_prefix rest seen_hyphen true
      else if seen_hyphen then false
      else if seen_asterisk then false
      else match py_int 10 octet with                                  (* int(octet) *)
           | Some v => if negb ((0 <=? v) && (v <=? 255)) then false
                       else valid_glob_loop_prefix rest seen_hyphen seen_asterisk
           | None => false
           end
  end.

Definition valid_glob_prefix (ipglob : string) : bool :=
  let octets := split ch_dot ipglob in
  if negb (len octets =? 4) then false else valid_glob_loop_prefix octets false false.

(* C17_valid fails for the unrepaired validator: accepted, but not in the grammar
   (real code: valid_glob('010.0.0.*') is True and the glob converts to 8.0.0.0/24) *)
Theorem C17_valid_refuted : exists s, valid_glob_prefix s = true /\ ~ glob_lang s.
Proof.
  exists "010.0.0.*". split; [vm_compute; reflexivity|].
  intros H. apply valid_glob_iff in H. vm_compute in H. discriminate.
Qed.
Print Assumptions C17_valid_refuted.

(* further witnesses: whitespace, sign and underscore numerals (conversion raises AddrFormatError on them) *)
Theorem C17_valid_refuted_more :
  Forall (fun s => valid_glob_prefix s = true /\ ~ glob_lang s) [" 1.2.3.4"; "+1.2.3.4"; "1_0.0.0.0"; "1.2.3.0-010"; "1.2.3.4 "].
Proof.
  repeat constructor; try (vm_compute; reflexivity);
    intros H; apply valid_glob_iff in H; vm_compute in H; discriminate.
Qed.
Print Assumptions C17_valid_refuted_more.
