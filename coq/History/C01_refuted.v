(* History/C01_refuted.v — the code BEFORE the fix commits F-01, F-02, F-03 violated property C01.
   Faithful pre-fix fragments of netaddr/fbsocket.py (`_inet_pton_af_inet`, `inet_pton(AF_INET6, .)`) and of
   netaddr/strategy/ipv4.py (`str_to_int`, ZEROFILL rewrite outside the `try`), with concrete witnesses. *)
From Coq Require Import ZArith List Bool String Ascii.
From NV Require Import Base.PyStr Base.PyVal Model.IpText Model.FbSocket Model.AddrText.
Import ListNotations.
Open Scope string_scope.
Open Scope list_scope.
Open Scope Z_scope.

Module Old.

(* ---- fbsocket._inet_pton_af_inet before F-02: octets parsed by int() alone *)
Definition pton4_octet (token : string) : outcome Z :=
  if starts_with "0x" token || (starts_with "0" token && (1 <? str_len token)) then Raise ValueError
  else match py_int 10 token with
       | None => Raise ValueError
       | Some octet => if Z.shiftr octet 8 =? 0 then Ok octet else Raise ValueError
       end.

Definition inet_pton4 (ip_string : string) : outcome (list Z) :=
  let tokens := split "." ip_string in
  if Nat.eqb (List.length tokens) 4 then Fb.map_out pton4_octet tokens else Raise ValueError.

Definition expand_quad (init : list string) (quad : string) : outcome (list string) :=
  do o <- inet_pton4 quad;
  match o with
  | [a; b; c; d] => Ok (init ++ [fmt_x (a * 256 + b); fmt_x (c * 256 + d)])
  | _ => Raise ValueError
  end.

(* tokens[:-1] *)
Definition but_last {A} (l : list A) : list A := match Fb.pop_last l with Some (i, _) => i | None => [] end.
Definition list_eqb (a b : list string) : bool :=
  Nat.eqb (List.length a) (List.length b) && forallb (fun p => String.eqb (fst p) (snd p)) (combine a b).

(* ---- fbsocket.inet_pton(AF_INET6, .) before F-01 *)
Definition inet_pton6 (ip_string : string) : outcome (list Z) :=
  if contains_char ch_x ip_string then Raise ValueError
  else if contains_dc_chars (chars ip_string) then
    if String.eqb ip_string "::" then Ok (Std6.zeros 8)
    else
      match map str_of (split_dc_chars (chars ip_string) []) with
      | [prefix; suffix] =>
          let l_prefix := if Fb.str_nonempty prefix then split ":" prefix else [] in
          let l_suffix0 := if Fb.str_nonempty suffix then split ":" suffix else [] in
          do l_suffix <-
            (match Fb.pop_last l_suffix0 with
             | Some (init, last) => if contains_char ch_dot last then expand_quad init last else Ok l_suffix0
             | None => Ok l_suffix0
             end);
          let token_count := (List.length l_prefix + List.length l_suffix)%nat in
          if negb (Nat.leb token_count 7) then Raise ValueError
          else
            do vp <- Fb.map_out Fb.pack_hex l_prefix;      (* int(i, 16) lenient; struct.error when out of range *)
            do vs <- Fb.map_out Fb.pack_hex l_suffix;
            do _chk <- Fb.map_out Fb.check_word (l_prefix ++ l_suffix);
            Ok (vp ++ Std6.zeros (8 - token_count) ++ vs)
      | _ => Raise ValueError
      end
  else if contains_char ch_colon ip_string then
    let tokens0 := split ":" ip_string in
    do tokens <-
      (if contains_char ch_dot ip_string then
         let ipv6_prefix := but_last tokens0 in
         if negb (list_eqb (but_last ipv6_prefix) ["0"; "0"; "0"; "0"; "0"]) then Raise ValueError
         else match Fb.pop_last ipv6_prefix with
              | None => Raise IndexError
              | Some (_, p5) =>
                  if negb (String.eqb (lower p5) "0" || String.eqb (lower p5) "ffff") then Raise ValueError
                  else if negb (Nat.eqb (List.length tokens0) 7) then Raise ValueError
                  else match Fb.pop_last tokens0 with
                       | Some (init, last) => do t <- expand_quad init last; do _v <- Fb.map_out Fb.pack_hex t; Ok t
                       | None => Raise ValueError
                       end
              end
       else if negb (Nat.eqb (List.length tokens0) 8) then Raise ValueError else Ok tokens0);
    do words <- Fb.map_out Fb.check_word tokens;
    Fb.map_out Fb.pack_H words
  else Raise ValueError.

(* ---- strategy/ipv4.str_to_int before F-03: the ZEROFILL rewrite ran OUTSIDE the try *)
Definition v4_str_to_int (addr : string) (flags : Z) : outcome Z :=
  do addr' <- (if has_flag flags ZEROFILL then zerofill_rewrite addr else Ok addr);   (* ValueError escapes *)
  match (if has_flag flags INET_PTON then do p <- of_option (Std4.pton4 addr'); unpack_I p
         else of_option (Std4.aton addr')) with
  | Ok v => Ok v
  | Raise _ => Raise AddrFormatError
  end.

(* IPAddress(addr, version=4, flags) *)
Definition init_v4 (addr : string) (flags : Z) : outcome (Z * Z) :=
  if contains_char "/" addr then Raise ValueError
  else match v4_str_to_int addr flags with
       | Ok v => Ok (4, v)
       | Raise AddrFormatError => Raise AddrFormatError
       | Raise e => Raise e
       end.
End Old.

Definition same_as_std {A} (fb : outcome A) (std : option A) : Prop :=
  match fb, std with Ok a, Some b => a = b | Raise _, None => True | _, _ => False end.

(* F-02: the fallback strict IPv4 parser accepted strings outside the standard dotted-quad grammar *)
Theorem C01_strict_exact_v4_refuted : exists s, ~ same_as_std (Old.inet_pton4 s) (Std4.pton4 s).
Proof. exists " 1.2.3.4". vm_compute. tauto. Qed.

Example F02_witnesses :
  Old.inet_pton4 " 1.2.3.4" = Ok [1; 2; 3; 4] /\ Std4.pton4 " 1.2.3.4" = None /\
  Old.inet_pton4 "+1.2.3.4" = Ok [1; 2; 3; 4] /\ Std4.pton4 "+1.2.3.4" = None /\
  Old.inet_pton4 "1_0.2.3.4" = Ok [10; 2; 3; 4] /\ Std4.pton4 "1_0.2.3.4" = None.
Proof. vm_compute. repeat split. Qed.

(* F-01: the fallback IPv6 parser accepted non-RFC 4291 text and rejected a valid form *)
Theorem C01_strict_exact_refuted : exists s, ~ same_as_std (Old.inet_pton6 s) (Std6.pton6 s).
Proof. exists ":: 1". vm_compute. tauto. Qed.

Example F01_witnesses :
  Old.inet_pton6 ":: 1" = Ok [0; 0; 0; 0; 0; 0; 0; 1] /\ Std6.pton6 ":: 1" = None /\
  Old.inet_pton6 "::+1" = Ok [0; 0; 0; 0; 0; 0; 0; 1] /\ Std6.pton6 "::+1" = None /\
  Old.inet_pton6 "00001::" = Ok [1; 0; 0; 0; 0; 0; 0; 0] /\ Std6.pton6 "00001::" = None /\
  Old.inet_pton6 "::1_0" = Ok [0; 0; 0; 0; 0; 0; 0; 16] /\ Std6.pton6 "::1_0" = None /\
  Old.inet_pton6 "0X1::" = Ok [1; 0; 0; 0; 0; 0; 0; 0] /\ Std6.pton6 "0X1::" = None /\
  Old.inet_pton6 "10000::" = Raise StructError /\
  Old.inet_pton6 "1:2:3:4:5:6:1.2.3.4" = Raise ValueError /\
  Std6.pton6 "1:2:3:4:5:6:1.2.3.4" = Some [1; 2; 3; 4; 5; 6; 258; 772].
Proof. vm_compute. repeat split. Qed.

(* F-03: a rejected address string raised ValueError although it contains no '/' *)
Theorem C01_reject_kind_refuted : exists s flags e,
  Old.init_v4 s flags = Raise e /\ e <> AddrFormatError /\ contains_char "/" s = false.
Proof. exists "a.b.c.d", ZEROFILL, ValueError. vm_compute. repeat split; discriminate. Qed.
