(* History/C06_refuted.v — the unrepaired IPSet.add kept the host bits of CIDR strings (F-06) and the unrepaired
   iscontiguous stepped past the top of an address family (F-07).  Faithful pre-fix fragments and witnesses. *)
From Coq Require Import ZArith List Bool.
From NV Require Import Base.PyVal Model.Ip Model.Sets Proofs.NetDen.
Import ListNotations.
Open Scope Z_scope.

(* pre-fix `add`: the `else: addr = IPNetwork(addr)` branch (strings, IPAddress objects) was not normalised with .cidr *)
Definition set_add_prefix_str (d : dict) (n : net) : outcome dict := compact_single (dset d n) n.

(* IPSet().add('10.0.0.1/24') stored 10.0.0.1/24: the stored key is not host-bit-free, so SetInv fails *)
Theorem C06_add_refuted :
  exists d, set_add_prefix_str [] {| nver := 4; nval := 167772161; nplen := 24 |} = Ok d /\ ~ SetInv d.
Proof.
  exists [{| nver := 4; nval := 167772161; nplen := 24 |}]. split; [vm_compute; reflexivity|].
  intros (W & _). inversion W as [|x l (Hw & Hh) _]; subst. unfold hostfree in Hh. vm_compute in Hh. discriminate.
Qed.
Print Assumptions C06_add_refuted.

(* pre-fix `iscontiguous`: `previous = cidr[-1] + 1` is IPAddress arithmetic and raises IndexError when a block that is
   not the only one ends at the last address of its family *)
Fixpoint contiguous_loop_old (previous : outcome Z) (pver : Z) (l : list net) : outcome bool :=
  match l with
  | [] => do _ <- previous; Ok true      (* the assignment `previous = cidr[-1] + 1` of the last iteration *)
  | c :: r =>
      do p <- previous;
      if negb (nver c =? pver) || negb (nf c =? p) then Ok false
      else contiguous_loop_old (addr_iadd (width (nver c)) (nl c) 1) (nver c) r
  end.
Definition set_iscontiguous_old (d : dict) : outcome bool :=
  match sorted d with
  | c0 :: ((_ :: _) as all) => contiguous_loop_old (Ok (nf c0)) (nver c0) (c0 :: all)
  | _ => Ok true
  end.

(* IPSet(IPRange('255.255.255.253', '255.255.255.255')).iscontiguous() raised IndexError *)
Theorem C07_contiguous_refuted :
  set_iscontiguous_old [ {| nver := 4; nval := 4294967293; nplen := 32 |}; {| nver := 4; nval := 4294967294; nplen := 31 |} ]
  = Raise IndexError.
Proof. vm_compute. reflexivity. Qed.
Print Assumptions C07_contiguous_refuted.
