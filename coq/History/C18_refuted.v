(* History/C18_refuted.v — F-04 as it affected C18 (repaired in /repo by c6dd8ba).
   Before the repair IPRange.__contains__(IPNetwork) ended with
       return (self._start._value <= other_start and self._end._value > other_next_start)
   i.e. it compared the range end with the address TWO past the network's last address, so a network was never
   found inside an IPRange row of the classification tables unless the row extended two addresses beyond it:
   IPNetwork('239.0.0.0/8').is_private() was False although 239.0.0.0/8 is exactly the documented block.
   Faithful pre-fix fragment (only the changed comparison differs from Model/Classify.v) + the witness. *)
From NV Require Import Base.Tac Base.PyVal Model.Ip Model.Classify Model.ClassifyGen Proofs.C02 Proofs.C18_lift Proofs.C18.
Open Scope Z_scope.

Definition range_contains_prefix (sver ss se : Z) (other : ipobj) : bool :=
  if negb (sver =? over other) then false
  else
    match other with
    | OAddr _ v => (ss <=? v) && (se >=? v)
    | ORange _ s e => (ss <=? s) && (se >=? e)
    | ONet over_ v p =>
        let shiftwidth := width over_ - p in
        let other_start := Z.shiftl (Z.shiftr v shiftwidth) shiftwidth in
        let other_next_start := other_start + Z.shiftl 1 shiftwidth in
        (ss <=? other_start) && (se >? other_next_start)
    end.

Definition contains_row_prefix (cidr : row) (self : ipobj) : bool :=
  let '(k, ver, a, b) := cidr in
  if k =? 0 then net_contains ver a b self else range_contains_prefix ver a b self.

Fixpoint scan_prefix (self : ipobj) (t : list row) : bool :=
  match t with
  | [] => false
  | cidr :: rest => if contains_row_prefix cidr self then true else scan_prefix self rest
  end.

Definition is_private_prefix (T : tables) (self : ipobj) : bool :=
  if (if over self =? 4 then scan_prefix self (t_private4 T)
      else if over self =? 6 then scan_prefix self (t_private6 T)
      else false)
  then true
  else if (if over self =? 4 then contains_row_prefix (t_link_local4 T) self
           else if over self =? 6 then contains_row_prefix (t_link_local6 T) self else false) then true
  else false.

(* the "blocks" clause fails: a well-formed network lying inside a single documented private block
   (indeed equal to it) for which the pre-fix is_private answers False *)
Theorem C18_blocks_refuted : exists o, wf_obj o /\
  (exists b, In b (spec Private (over o)) /\ fst b <= obj_first o /\ obj_last o <= snd b) /\
  is_private_prefix gen_tables o = false.
Proof.
  exists (ONet 4 (ip4 239 0 0 0) 8). split; [|split].
  - split; [reflexivity|]. vm_compute. intuition discriminate.
  - exists (ip4 239 0 0 0, ip4 239 255 255 255). split; [cbn; tauto|]. vm_compute. intuition discriminate.
  - vm_compute. reflexivity.
Qed.
Print Assumptions C18_blocks_refuted.
