(* History/C03_refuted.v — IPNetwork() as it was before the fix commits F-C03-1, F-C03-2, F-C03-3 (netaddr/ip/__init__.py at
   3a3a3af): (F-C03-1) the two copy-constructor branches of IPNetwork.__init__ never looked at `flags`; (F-C03-2) in
   cidr_abbrev_to_verbose the call `classful_prefix(tokens[0])` of the multi-octet path was guarded by
   `except ValueError` only, and because it runs inside the `except ValueError:` handler of the outer try statement
   the outer `except (TypeError, IndexError)` clause does not apply to it; (F-C03-3) in parse_ip_network the mask branch
   `IPAddress(val2, module.version, flags=INET_PTON)` let IPAddress's ValueError for a '/' in val2 escape.
   Property C03 is false for that code: three witnesses, by computation on the faithful pre-fix model. *)
From Coq Require Import String Ascii.
From NV Require Import Base.Tac Base.PyVal Base.PyStr Model.IpText Model.FbSocket Model.AddrText Model.Ip Model.NetText
  Proofs.C02 Proofs.C03 Proofs.C03_Total.
Import ListNotations.
Open Scope string_scope.
Open Scope list_scope.
Open Scope Z_scope.

(* cidr_abbrev_to_verbose before F-C03-2: identical to Model/NetText.v except for the marked line *)
Definition cidr_abbrev_to_verbose_old (abbrev_cidr : string) : outcome string :=
  if contains_char ":" abbrev_cidr || String.eqb abbrev_cidr "" then Ok abbrev_cidr
  else
    match py_int 10 abbrev_cidr with
    | Some i =>
        match classful_prefix_int i with
        | Ok p => Ok (fmt_d i ++ ".0.0.0/" ++ fmt_d p)%string
        | Raise IndexError => Ok abbrev_cidr
        | Raise TypeError => Ok abbrev_cidr
        | Raise e => Raise e
        end
    | None =>
        do pp <- (if contains_char "/" abbrev_cidr then
                    match split1 "/" abbrev_cidr with
                    | [part_addr; prefix] =>
                        match py_int 10 prefix with
                        | Some n => if (0 <=? n) && (n <=? 32) then Ok (Some (part_addr, Some prefix)) else Ok None
                        | None => Ok None
                        end
                    | _ => Raise ValueError
                    end
                  else Ok (Some (abbrev_cidr, None)));
        match pp with
        | None => Ok abbrev_cidr
        | Some (part_addr, prefix) =>
            let tokens := split "." part_addr in
            if 4 <? len tokens then Ok abbrev_cidr
            else
              let tokens := pad_tokens tokens in
              match prefix with
              | Some p => Ok (join "." tokens ++ "/" ++ p)%string
              | None =>
                  match tokens with
                  | [] => Raise IndexError
                  | t0 :: _ =>
                      match classful_prefix_str t0 with
                      | Ok p => Ok (join "." tokens ++ "/" ++ fmt_d p)%string
                      | Raise ValueError => Ok abbrev_cidr          (* except ValueError: return abbrev_cidr *)
                      | Raise e => Raise e                          (* <- IndexError escapes: raised inside a handler *)
                      end
                  end
              end
        end
    end.

(* parse_ip_network, string branch, before F-C03-2/F-C03-3 *)
Definition parse_str_old (be : backend) (ver : Z) (addr : string) (implicit_prefix : bool) : outcome (Z * Z) :=
  let w := width ver in
  do addr <- (if implicit_prefix then cidr_abbrev_to_verbose_old addr else Ok addr);
  do vals <- (if contains_char "/" addr then
                match split1 "/" addr with
                | [val1; val2] => Ok (val1, Some val2)
                | _ => Raise ValueError
                end
              else Ok (addr, None));
  let '(val1, val2) := vals in
  do value <- match init_str be val1 (Some ver) INET_PTON with
              | Ok ip => Ok (snd ip)
              | Raise AddrFormatError =>
                  if ver =? 4 then
                    do expanded_addr <- expand_partial_address val1;
                    do ip <- init_str be expanded_addr (Some ver) INET_PTON;
                    Ok (snd ip)
                  else Raise AddrFormatError
              | Raise e => Raise e
              end;
  do prefixlen <- match val2 with
                  | None => Ok w
                  | Some val2 =>
                      match py_int 10 val2 with
                      | Some n => Ok n
                      | None =>
                          do ip <- init_str be val2 (Some ver) INET_PTON;      (* <- ValueError for '/' in val2 escapes *)
                          let mask := snd ip in
                          if is_netmask w mask then netmask_to_prefix w mask
                          else if is_hostmask mask then hostmask_to_prefix w mask
                          else Raise AddrFormatError
                      end
                  end;
  if negb ((0 <=? prefixlen) && (prefixlen <=? w)) then Raise AddrFormatError
  else Ok (value, prefixlen).

Definition parse_ip_network_old (be : backend) (ver : Z) (addr : narg) (implicit_prefix : bool) (flags : Z)
  : outcome (Z * Z) :=
  let w := width ver in
  do vp <- match addr with
           | ATuple t =>
               match t with
               | [value; prefixlen] =>
                   if negb ((0 <=? value) && (value <=? max_int ver)) then Raise AddrFormatError
                   else if negb ((0 <=? prefixlen) && (prefixlen <=? w)) then Raise AddrFormatError
                   else Ok (value, prefixlen)
               | _ => Raise AddrFormatError
               end
           | AStr s => parse_str_old be ver s implicit_prefix
           | _ => Raise TypeError
           end;
  let '(value, prefixlen) := vp in
  do value <- apply_nohost w value prefixlen flags;
  Ok (value, prefixlen).

(* IPNetwork.__init__ before F-C03-1 *)
Definition net_init_old (be : backend) (addr : narg) (implicit_prefix : bool) (version : option Z) (flags : Z)
  : outcome net :=
  match addr with
  | ANet n => Ok {| nver := nver n; nval := nval n; nplen := nplen n |}            (* <- flags ignored *)
  | AAddr ver v => Ok {| nver := ver; nval := v; nplen := width ver |}             (* <- flags ignored *)
  | _ =>
      match version with
      | Some v =>
          if v =? 4 then do r <- parse_ip_network_old be 4 addr implicit_prefix flags; Ok (mk_net 4 r)
          else if v =? 6 then do r <- parse_ip_network_old be 6 addr implicit_prefix flags; Ok (mk_net 6 r)
          else Raise ValueError
      | None =>
          match parse_ip_network_old be 4 addr implicit_prefix flags with
          | Ok r => Ok (mk_net 4 r)
          | Raise AddrFormatError =>
              match parse_ip_network_old be 6 addr implicit_prefix flags with
              | Ok r => Ok (mk_net 6 r)
              | Raise AddrFormatError => Raise AddrFormatError
              | Raise e => Raise e
              end
          | Raise e => Raise e
          end
      end
  end.

(* F-C03-1: copy construction of 1.2.3.4/24 with NOHOST kept the host bits (C03_notations_copy_net fails) *)
Theorem C03_copy_nohost_refuted : exists be ver v p ip version flags,
  vrange ver v /\ 0 <= p <= width ver /\
  net_init_old be (ANet {| nver := ver; nval := v; nplen := p |}) ip version flags <> Ok (the_net ver v p flags).
Proof. exists Platform, 4, 16909060, 24, false, None, NOHOST. split; [split; [reflexivity|vm_compute; split; [discriminate|reflexivity]]|].
  split; [vm_compute; split; discriminate|]. vm_compute. discriminate. Qed.

(* F-C03-2 / F-C03-3: exceptions other than AddrFormatError escaped for malformed text (C03_exn_kind fails) *)
Definition allowed_exn (a : narg) (version : option Z) (e : exn) : Prop :=
  e = AddrFormatError \/
  (e = ValueError /\ exists v, version = Some v /\ v <> 4 /\ v <> 6) \/
  (e = TypeError /\ (forall t, a <> ATuple t) /\ (forall s, a <> AStr s)).

Theorem C03_exn_kind_refuted_index : exists be s ip version flags e,
  net_init_old be (AStr s) ip version flags = Raise e /\ ~ allowed_exn (AStr s) version e.
Proof. exists Platform, "256.1", true, None, 0, IndexError. split; [vm_compute; reflexivity|].
  intros [H | [[H _] | [H _]]]; discriminate. Qed.

Theorem C03_exn_kind_refuted_value : exists be s ip version flags e,
  net_init_old be (AStr s) ip version flags = Raise e /\ ~ allowed_exn (AStr s) version e.
Proof. exists Platform, "1.2.3.4/1/2", false, None, 0, ValueError. split; [vm_compute; reflexivity|].
  intros [H | [[_ (v & H & _)] | [H _]]]; discriminate. Qed.

Theorem C03_abbrev_total_refuted : exists s, cidr_abbrev_to_verbose_old s = Raise IndexError.
Proof. exists "999.1.1.1". vm_compute. reflexivity. Qed.
