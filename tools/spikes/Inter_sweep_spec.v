From Coq Require Import ZArith Lia List Bool Sorted.
Import ListNotations.
Open Scope Z_scope.

Section W.
Variable w : Z.
Hypothesis Hw : 0 <= w.

Record blk := { bv : Z; bp : Z }.
Definition bsize (b : blk) := 2 ^ (w - bp b).
Definition aligned (b : blk) := 0 <= bp b <= w /\ 0 <= bv b /\ (bsize b | bv b).
Definition inb (b : blk) (x : Z) := bv b <= x < bv b + bsize b.
Definition cov (l : list blk) (x : Z) := exists b, In b l /\ inb b x.
Definition blt (x y : blk) := bv x < bv y \/ (bv x = bv y /\ bp x < bp y).
Definition disj (l : list blk) := forall b1 b2 x, In b1 l -> In b2 l -> inb b1 x -> inb b2 x -> b1 = b2.
Definition good (l : list blk) := (forall b, In b l -> aligned b) /\ StronglySorted blt l /\ disj l.

Definition beqb (x y : blk) := (bv x =? bv y) && (bp x =? bp y).
(* x in y for two networks *)
Definition containsb (y x : blk) := (bv y <=? bv x) && (bv x + bsize x <=? bv y + bsize y).
Definition bltb (x y : blk) := (bv x <? bv y) || ((bv x =? bv y) && (bp x <? bp y)).

Fixpoint inter (fuel : nat) (a b : list blk) : option (list blk) :=
  match fuel with
  | O => None
  | S f =>
    match a, b with
    | [], _ => Some []
    | _, [] => Some []
    | x :: a', y :: b' =>
      if beqb x y then option_map (cons x) (inter f a' b')
      else if containsb y x then option_map (cons x) (inter f a' b)
      else if containsb x y then option_map (cons y) (inter f a b')
      else if bltb x y then inter f a' b else inter f a b'
    end
  end.

Lemma bsize_pos b : 0 <= bp b <= w -> 0 < bsize b.
Proof. intros. apply Z.pow_pos_nonneg; lia. Qed.

Lemma cov_cons b l x : cov (b :: l) x <-> inb b x \/ cov l x.
Proof. unfold cov. split.
  - intros (c & [->|Hc] & Hx); [left|right]; eauto.
  - intros [Hx|(c & Hc & Hx)]; [exists b|exists c]; cbn; auto. Qed.
Lemma cov_nil x : cov [] x <-> False.
Proof. unfold cov. split; [intros (b & [] & _)|tauto]. Qed.

(* two aligned blocks sharing a point are nested *)
Lemma share_nested x y z : aligned x -> aligned y -> inb x z -> inb y z -> bp y <= bp x ->
  bv y <= bv x /\ bv x + bsize x <= bv y + bsize y.
Proof.
  intros (Hpx & Hvx & [kx Hkx]) (Hpy & Hvy & [ky Hky]) Hx Hy Hp. unfold inb in *.
  assert (Hd: bsize y = 2 ^ (bp x - bp y) * bsize x).
  { unfold bsize. rewrite <- Z.pow_add_r by lia. f_equal. lia. }
  pose proof (bsize_pos x Hpx). assert (0 < 2 ^ (bp x - bp y)) by (apply Z.pow_pos_nonneg; lia).
  set (m := 2 ^ (bp x - bp y)) in *. set (sx := bsize x) in *. set (sy := bsize y) in *.
  rewrite Hkx, Hky, Hd in *.
  assert (ky * m <= kx) by nia. assert (kx < ky * m + m) by nia. nia.
Qed.

Lemma good_tail x l : good (x :: l) -> good l.
Proof. intros (A & S & D). split; [|split].
  - intros b Hb. apply A. now right.
  - now inversion S.
  - intros b1 b2 z H1 H2. apply D; now right. Qed.

(* in a good list the head lies entirely to the left of every later element *)
Lemma head_left x l e : good (x :: l) -> In e l -> bv x + bsize x <= bv e.
Proof.
  intros (A & S & D) He. inversion S as [|? ? _ HF]; subst.
  rewrite Forall_forall in HF. specialize (HF e He).
  assert (Ax: aligned x) by (apply A; now left). assert (Ae: aligned e) by (apply A; now right).
  destruct (Z_le_gt_dec (bv x + bsize x) (bv e)); [assumption|exfalso].
  pose proof (bsize_pos x (proj1 Ax)). pose proof (bsize_pos e (proj1 Ae)).
  assert (x = e).
  { destruct HF as [L|[E L]].
    - apply (D x e (bv e)); [now left|now right|unfold inb; lia|unfold inb; lia].
    - apply (D x e (bv e)); [now left|now right|unfold inb; lia|unfold inb; lia]. }
  subst e. destruct HF as [L|[E L]]; lia.
Qed.

Lemma beqb_eq x y : beqb x y = true -> x = y.
Proof. unfold beqb. intros H. apply andb_true_iff in H. destruct H as [H1 H2].
  apply Z.eqb_eq in H1, H2. destruct x, y; cbn in *; congruence. Qed.

Lemma containsb_spec y x : containsb y x = true -> forall z, inb x z -> inb y z.
Proof. unfold containsb, inb. intros H z Hz. apply andb_true_iff in H. destruct H as [H1 H2].
  apply Z.leb_le in H1, H2. lia. Qed.

(* neither contains the other => no common point *)
Lemma incomparable_disjoint x y z : aligned x -> aligned y ->
  containsb y x = false -> containsb x y = false -> inb x z -> inb y z -> False.
Proof.
  intros Ax Ay H1 H2 Hx Hy.
  destruct (Z_le_gt_dec (bp y) (bp x)).
  - destruct (share_nested x y z Ax Ay Hx Hy l) as [A B].
    unfold containsb in H1. apply andb_false_iff in H1. destruct H1 as [H|H];
      [apply Z.leb_gt in H|apply Z.leb_gt in H]; lia.
  - destruct (share_nested y x z Ay Ax Hy Hx ltac:(lia)) as [A B].
    unfold containsb in H2. apply andb_false_iff in H2. destruct H2 as [H|H];
      [apply Z.leb_gt in H|apply Z.leb_gt in H]; lia.
Qed.

Lemma not_cov_left x l z : good l -> (forall e, In e l -> bv x + bsize x <= bv e) -> inb x z -> ~ cov l z.
Proof. intros G H Hx (e & He & Hz). specialize (H e He). unfold inb in *. lia. Qed.

Theorem inter_spec : forall fuel a b, good a -> good b ->
  (length a + length b < fuel)%nat ->
  exists r, inter fuel a b = Some r /\ forall z, cov r z <-> cov a z /\ cov b z.
Proof.
  induction fuel as [|f IH]; intros a b Ga Gb Hf; [lia|].
  destruct a as [|x a']; [|destruct b as [|y b']].
  - exists []. split; [reflexivity|]. intros z. rewrite !cov_nil. tauto.
  - exists []. split; [reflexivity|]. intros z. rewrite !cov_nil. tauto.
  - cbn [inter]. cbn [length] in Hf.
    assert (Ax: aligned x) by (apply Ga; now left). assert (Ay: aligned y) by (apply Gb; now left).
    pose proof (good_tail _ _ Ga) as Ga'. pose proof (good_tail _ _ Gb) as Gb'.
    pose proof (bsize_pos x (proj1 Ax)) as Px. pose proof (bsize_pos y (proj1 Ay)) as Py.
    destruct (beqb x y) eqn:E.
    + apply beqb_eq in E. subst y.
      destruct (IH a' b' Ga' Gb') as (r & Hr & Hs); [lia|]. rewrite Hr.
      exists (x :: r). split; [reflexivity|]. intros z. rewrite !cov_cons, Hs.
      tauto.
    + destruct (containsb y x) eqn:C1.
      * destruct (IH a' (y :: b') Ga' Gb) as (r & Hr & Hs); [cbn [length]; lia|]. rewrite Hr.
        exists (x :: r). split; [reflexivity|]. intros z. rewrite !cov_cons, Hs, !cov_cons.
        pose proof (containsb_spec y x C1 z). tauto.
      * destruct (containsb x y) eqn:C2.
        -- destruct (IH (x :: a') b' Ga Gb') as (r & Hr & Hs); [cbn [length]; lia|]. rewrite Hr.
           exists (y :: r). split; [reflexivity|]. intros z. rewrite !cov_cons, Hs, !cov_cons.
           pose proof (containsb_spec x y C2 z). tauto.
        -- pose proof (fun z => incomparable_disjoint x y z Ax Ay C1 C2) as Dxy.
           destruct (bltb x y) eqn:L.
           ++ (* x entirely left of y and of all of b' *)
              assert (Hxy: bv x + bsize x <= bv y).
              { unfold bltb in L. apply orb_true_iff in L.
                assert (bv x <= bv y).
                { destruct L as [L|L]; [apply Z.ltb_lt in L; lia|].
                  apply andb_true_iff in L. destruct L as [L _]. apply Z.eqb_eq in L. lia. }
                destruct (Z_le_gt_dec (bv x + bsize x) (bv y)); [assumption|exfalso].
                apply (Dxy (bv y)); unfold inb; lia. }
              destruct (IH a' (y :: b') Ga' Gb) as (r & Hr & Hs); [cbn [length]; lia|]. rewrite Hr.
              exists r. split; [reflexivity|]. intros z. rewrite Hs, !cov_cons.
              split; [tauto|]. intros [[Hx|Ha] Hb]; [exfalso|tauto].
              destruct Hb as [Hy|Hb]; [eapply Dxy; eauto|].
              apply (not_cov_left x b' z Gb'); auto. intros e He.
              pose proof (head_left y b' e Gb He). lia.
           ++ assert (Hyx: bv y + bsize y <= bv x).
              { unfold bltb in L. apply orb_false_iff in L. destruct L as [L1 L2]. apply Z.ltb_ge in L1.
                destruct (Z_le_gt_dec (bv y + bsize y) (bv x)); [assumption|exfalso].
                apply (Dxy (bv x)); unfold inb; lia. }
              destruct (IH (x :: a') b' Ga Gb') as (r & Hr & Hs); [cbn [length]; lia|]. rewrite Hr.
              exists r. split; [reflexivity|]. intros z. rewrite Hs, !cov_cons.
              split; [tauto|]. intros [Ha [Hy|Hb]]; [exfalso|tauto].
              destruct Ha as [Hx|Ha]; [eapply Dxy; eauto|].
              apply (not_cov_left y a' z Ga'); auto. intros e He.
              pose proof (head_left x a' e Ga He). lia.
Qed.
End W.
Print Assumptions inter_spec.
