From Coq Require Import ZArith Lia List Bool Sorted.
Import ListNotations.
Open Scope Z_scope.

(* one family; an interval is (first, last) *)
Definition iv := (Z * Z)%type.
Definition inI (i : iv) (x : Z) := fst i <= x <= snd i.
Definition den (l : list iv) (x : Z) := exists i, In i l /\ inI i x.
Definition wfiv (i : iv) := fst i <= snd i.

(* the backward scan of cidr_merge, on the list in DEScending order of `last` *)
Fixpoint merge_desc (cur : iv) (rest : list iv) : list iv :=
  match rest with
  | [] => [cur]
  | r :: rest' =>
    if fst cur - 1 <=? snd r
    then merge_desc (Z.min (fst r) (fst cur), snd cur) rest'
    else cur :: merge_desc r rest'
  end.

Definition desc (cur : iv) (rest : list iv) := Forall (fun r => snd r <= snd cur) rest.

(* separated: each later (lower) interval ends at least 2 below the start of the earlier one *)
Fixpoint separated (l : list iv) : Prop :=
  match l with
  | [] => True
  | a :: t => Forall (fun b => snd b + 1 < fst a) t /\ separated t
  end.

Lemma den_cons i l x : den (i :: l) x <-> inI i x \/ den l x.
Proof. unfold den. split.
  - intros (j & [->|Hj] & Hx); [left|right]; eauto.
  - intros [Hx|(j & Hj & Hx)]; [exists i|exists j]; cbn; auto. Qed.

Lemma merge_desc_spec : forall rest cur,
  wfiv cur -> Forall wfiv rest -> desc cur rest -> StronglySorted (fun a b => snd b <= snd a) rest ->
  let R := merge_desc cur rest in
  (forall x, den R x <-> den (cur :: rest) x) /\
  separated R /\ Forall wfiv R /\
  Forall (fun b => snd b <= snd cur) R /\
  (exists f t, R = (f, snd cur) :: t /\ f <= fst cur).
Proof.
  induction rest as [|r rest IH]; intros cur Hc Hw Hd Hs; cbn [merge_desc].
  - cbn. repeat split; auto; try tauto.
    + constructor; [lia|constructor].
    + exists (fst cur), []. destruct cur; cbn. split; [reflexivity|lia].
  - inversion Hw as [|? ? Hr Hw']; subst. inversion Hd as [|? ? Hrc Hd']; subst.
    inversion Hs as [|? ? Hs' Hrr]; subst. unfold wfiv in *.
    destruct (Z.leb_spec (fst cur - 1) (snd r)) as [Hm|Hn].
    + (* merge *)
      set (cur' := (Z.min (fst r) (fst cur), snd cur)).
      destruct (IH cur') as (D & S & W & B & (f & t & E & Hf)).
      * unfold cur', wfiv; cbn. lia.
      * exact Hw'.
      * unfold desc, cur'; cbn. exact Hd'.
      * exact Hs'.
      * cbn zeta. split; [|split; [exact S|split; [exact W|split]]].
        -- intros x. rewrite D. rewrite !den_cons. unfold inI, cur'; cbn. split.
           ++ intros [H|H]; [|tauto]. destruct (Z_le_gt_dec (fst cur) x); [left; lia|right; left; lia].
           ++ intros [H|[H|H]]; [left; lia|left; lia|tauto].
        -- exact B.
        -- exists f, t. split; [exact E|]. unfold cur' in Hf; cbn in Hf. lia.
    + (* cur is final *)
      destruct (IH r) as (D & S & W & B & (f & t & E & Hf)).
      * exact Hr.
      * exact Hw'.
      * unfold desc. exact Hrr.
      * exact Hs'.
      * cbn zeta. split; [|split; [|split; [|split]]].
        -- intros x. rewrite den_cons, D, !den_cons. tauto.
        -- cbn [separated]. split; [|exact S].
           rewrite Forall_forall in *. intros b Hb. specialize (B b Hb). cbn in B. lia.
        -- constructor; [exact Hc|exact W].
        -- constructor; [lia|]. rewrite Forall_forall in *. intros b Hb. specialize (B b Hb). cbn in B. lia.
        -- exists (fst cur), (merge_desc r rest). destruct cur; cbn. split; [reflexivity|lia].
Qed.
Print Assumptions merge_desc_spec.
