From Coq Require Import ZArith Lia PArith.
Open Scope positive_scope.

(* is a positive a power of two? *)
Fixpoint ispow2 (p : positive) : bool :=
  match p with xH => true | xO q => ispow2 q | xI _ => false end.

Lemma ispow2_spec p : ispow2 p = true <-> exists k : nat, p = Pos.shiftl_nat 1 k.
Proof.
  induction p as [q IH|q IH|]; cbn.
  - split; [discriminate|]. intros [k Hk]. destruct k; cbn in Hk; discriminate.
  - rewrite IH. split; intros [k Hk].
    + exists (S k). cbn. now rewrite Hk.
    + destruct k; cbn in Hk; [discriminate|]. injection Hk as Hk. now exists k.
  - split; [intros _; now exists O|reflexivity].
Qed.

Open Scope Z_scope.
(* n & (n-1) = 0 for positive n  <->  n is a power of two *)
Lemma land_pred_pos p : Z.land (Z.pos p) (Z.pos p - 1) = 0 <-> ispow2 p = true.
Proof.
  induction p as [q IH|q IH|].
  - (* xI q : n-1 = xO q, land = xO q <> 0 *)
    replace (Z.pos q~1 - 1) with (2 * Z.pos q) by lia. change (Z.pos q~1) with (2 * Z.pos q + 1).
    assert (H: Z.land (2 * Z.pos q + 1) (2 * Z.pos q) = 2 * Z.pos q).
    { apply Z.bits_inj'. intros n Hn. rewrite Z.land_spec.
      destruct (Z.eq_dec n 0) as [->|Hn0].
      - rewrite Z.testbit_even_0, Z.testbit_odd_0. reflexivity.
      - replace n with (Z.succ (n - 1)) by lia. rewrite Z.testbit_even_succ, Z.testbit_odd_succ by lia.
        apply Bool.andb_diag. }
    rewrite H. cbn. split; [lia|discriminate].
  - (* xO q : n - 1 = 2(q-1)+1 *)
    cbn [ispow2]. rewrite <- IH. clear IH.
    change (Z.pos q~0) with (2 * Z.pos q).
    replace (2 * Z.pos q - 1) with (2 * (Z.pos q - 1) + 1) by lia.
    assert (H: Z.land (2 * Z.pos q) (2 * (Z.pos q - 1) + 1) = 2 * Z.land (Z.pos q) (Z.pos q - 1)).
    { apply Z.bits_inj'. intros n Hn. rewrite Z.land_spec.
      destruct (Z.eq_dec n 0) as [->|Hn0].
      - rewrite !Z.testbit_even_0, Z.testbit_odd_0. reflexivity.
      - replace n with (Z.succ (n - 1)) by lia. rewrite Z.testbit_even_succ, Z.testbit_odd_succ, Z.testbit_even_succ by lia.
        now rewrite Z.land_spec. }
    rewrite H. lia.
  - cbn. tauto.
Qed.

Theorem hostmask_test x : 0 <= x -> (Z.land (x + 1) x = 0 <-> exists k, 0 <= k /\ x = 2 ^ k - 1).
Proof.
  intros Hx. destruct (x + 1) as [|p|p] eqn:E; try lia.
  replace x with (Z.pos p - 1) by lia. rewrite land_pred_pos, ispow2_spec. split.
  - intros [k Hk]. exists (Z.of_nat k). split; [lia|]. rewrite Hk. clear.
    induction k as [|k IH]; [reflexivity|]. rewrite Nat2Z.inj_succ, Z.pow_succ_r by lia.
    cbn [Pos.shiftl_nat nat_rect]. change (Pos.shiftl_nat 1 k) with (nat_rect _ 1%positive (fun _ => xO) k) in *.
    rewrite Pos2Z.inj_xO. lia.
  - intros (k & Hk & Hv). exists (Z.to_nat k).
    assert (Z.pos p = 2 ^ k) by lia. clear Hv E Hx x.
    rewrite <- (Z2Nat.id k Hk) in H. generalize dependent p. induction (Z.to_nat k) as [|n IH]; intros p H.
    + cbn in H. now injection H.
    + rewrite Nat2Z.inj_succ, Z.pow_succ_r in H by lia.
      assert (0 < 2 ^ Z.of_nat n) by (apply Z.pow_pos_nonneg; lia).
      destruct p as [q|q|]; try lia.
      cbn [Pos.shiftl_nat nat_rect]. f_equal. apply IH. lia.
Qed.
Print Assumptions hostmask_test.
