From Coq Require Import ZArith Lia List Bool.
Import ListNotations.
Open Scope Z_scope.

Section W.
Variable w : Z.
Hypothesis Hw : 0 <= w.

Definition blk := (Z * Z)%type.  (* first address, prefix *)
Definition inb (b : blk) (x : Z) := fst b <= x < fst b + 2 ^ (w - snd b).
Definition cov (l : list blk) (x : Z) := exists b, In b l /\ inb b x.

Fixpoint part_loop (fuel : nat) (ef ep np lo up : Z) (l r : list blk) : option (list blk * list blk) :=
  match fuel with
  | O => None
  | S f =>
    if ep >=? np then
      let '(l', r', m) := if ef >=? up then (l ++ [(lo, np)], r, up) else (l, (up, np) :: r, lo) in
      let np' := np + 1 in
      if np' >? w then Some (l', r')
      else part_loop f ef ep np' m (m + 2 ^ (w - np')) l' r'
    else Some (l, r)
  end.

Lemma cov_app l1 l2 x : cov (l1 ++ l2) x <-> cov l1 x \/ cov l2 x.
Proof. unfold cov. split.
  - intros (b & Hb & Hx). apply in_app_or in Hb. destruct Hb; [left|right]; eauto.
  - intros [(b & Hb & Hx)|(b & Hb & Hx)]; exists b; split; auto; apply in_or_app; auto. Qed.
Lemma cov_cons b l x : cov (b :: l) x <-> inb b x \/ cov l x.
Proof. unfold cov. split.
  - intros (c & [->|Hc] & Hx); [left|right]; eauto.
  - intros [Hx|(c & Hc & Hx)]; [exists b|exists c]; cbn; auto. Qed.
Lemma cov_nil x : cov [] x <-> False.
Proof. unfold cov. split; [intros (b & [] & _)|tauto]. Qed.

Lemma pow_half q : 0 <= q -> q + 1 <= w -> 2 ^ (w - q) = 2 * 2 ^ (w - (q + 1)).
Proof. intros. replace (w - q) with (Z.succ (w - (q+1))) by lia. now rewrite Z.pow_succ_r by lia. Qed.

(* E = [ef, ef + 2^(w-ep)) aligned.  Invariant at the loop head with np = q:
   the block C = [lo, lo + 2^(w-(q-1))) of prefix q-1 is aligned and contains E. *)
Lemma loop_spec : forall (fuel : nat) ef ep,
  0 <= ep <= w -> (2 ^ (w - ep) | ef) ->
  forall q lo l r,
  1 <= q -> q - 1 <= ep -> (2 ^ (w - (q - 1)) | lo) ->
  lo <= ef -> ef + 2 ^ (w - ep) <= lo + 2 ^ (w - (q - 1)) ->
  (Z.of_nat fuel > ep - q + 1) ->
  exists l' r', part_loop fuel ef ep q lo (lo + 2 ^ (w - q)) l r = Some (l', r') /\
    (forall x, cov l' x <-> cov l x \/ lo <= x < ef) /\
    (forall x, cov r' x <-> cov r x \/ ef + 2 ^ (w - ep) <= x < lo + 2 ^ (w - (q - 1))).
Proof.
  induction fuel as [|f IH]; intros ef ep Hep Hde q lo l r Hq Hqe Hdl Hlo Hhi Hfuel; [lia|].
  cbn [part_loop].
  destruct (Z.geb_spec ep q) as [Hge|Hlt].
  2:{ (* loop exits: q - 1 = ep, so C = E *)
    assert (q - 1 = ep) by lia. subst ep.
    assert (ef = lo).
    { destruct Hde as [a Ha]. destruct Hdl as [b Hb].
      assert (0 < 2 ^ (w - (q-1))) by (apply Z.pow_pos_nonneg; lia). nia. }
    subst ef. exists l, r. split; [reflexivity|]. split; intros x; split; intros; try tauto; destruct H; auto; lia. }
  assert (Hq1: q <= w) by lia.
  set (T := 2 ^ (w - q)). assert (HT: 0 < T) by (apply Z.pow_pos_nonneg; lia).
  assert (HC: 2 ^ (w - (q - 1)) = 2 * T).
  { unfold T. replace (w - (q-1)) with (Z.succ (w - q)) by lia. now rewrite Z.pow_succ_r by lia. }
  rewrite HC in *.
  assert (HdT: (T | lo)). { eapply Z.divide_trans; [|exact Hdl]. exists 2; ring. }
  assert (HET: (2 ^ (w - ep) | T)).
  { unfold T. exists (2 ^ (ep - q)). rewrite <- Z.pow_add_r by lia. f_equal. lia. }
  assert (HEpos: 0 < 2 ^ (w - ep)) by (apply Z.pow_pos_nonneg; lia).
  (* E lies entirely in one half *)
  assert (Hhalf: ef + 2 ^ (w - ep) <= lo + T \/ lo + T <= ef).
  { destruct HET as [k Hk]. destruct Hde as [a Ha]. destruct HdT as [b Hb].
    set (e := 2 ^ (w - ep)) in *. rewrite Hk, Ha, Hb in *.
    destruct (Z_lt_le_dec a (b * k + k)); [left|right]; nia. }
  destruct (Z.geb_spec ef (lo + T)) as [Hup|Hdown].
  - (* E in the upper half: lower half goes to the left list *)
    destruct (Z.gtb_spec (q + 1) w) as [Hbrk|Hcont].
    + (* break: q = w, T = 1, upper half is a single address = E *)
      assert (Hqw: q = w) by lia. assert (Hepw: ep = w) by lia.
      assert (HT1: T = 1) by (unfold T; replace (w - q) with 0 by lia; reflexivity).
      assert (HE1: 2 ^ (w - ep) = 1) by (replace (w - ep) with 0 by lia; reflexivity).
      rewrite HE1 in *.
      exists (l ++ [(lo, q)]), r. split; [reflexivity|]. split; intros x.
      * rewrite cov_app, cov_cons, cov_nil. unfold inb; cbn [fst snd]. fold T.
        split; intros; intuition lia.
      * split; intros; intuition lia.
    + destruct (IH ef ep Hep Hde (q + 1) (lo + T) (l ++ [(lo, q)]) r) as (l' & r' & Hrun & HL & HR); try lia.
      * replace (q + 1 - 1) with q by lia. fold T. apply Z.divide_add_r; [exact HdT|apply Z.divide_refl].
      * replace (q + 1 - 1) with q by lia. fold T. lia.
      * exists l', r'. split; [exact Hrun|]. replace (q + 1 - 1) with q in * by lia. fold T in HR.
        split; intros x.
        -- rewrite HL, cov_app, cov_cons, cov_nil. unfold inb; cbn [fst snd]. fold T. split; intros; intuition lia.
        -- rewrite HR. split; intros; intuition lia.
  - (* E in the lower half: upper half goes to the right list *)
    assert (Hlow: ef + 2 ^ (w - ep) <= lo + T) by (destruct Hhalf; lia).
    destruct (Z.gtb_spec (q + 1) w) as [Hbrk|Hcont].
    + assert (Hqw: q = w) by lia. assert (Hepw: ep = w) by lia.
      assert (HT1: T = 1) by (unfold T; replace (w - q) with 0 by lia; reflexivity).
      assert (HE1: 2 ^ (w - ep) = 1) by (replace (w - ep) with 0 by lia; reflexivity).
      rewrite HE1 in *.
      exists l, ((lo + T, q) :: r). split; [reflexivity|]. split; intros x.
      * split; intros; intuition lia.
      * rewrite cov_cons. unfold inb; cbn [fst snd]. fold T.
        split; intros; intuition lia.
    + destruct (IH ef ep Hep Hde (q + 1) lo l ((lo + T, q) :: r)) as (l' & r' & Hrun & HL & HR); try lia.
      * replace (q + 1 - 1) with q by lia. fold T. exact HdT.
      * replace (q + 1 - 1) with q by lia. fold T. lia.
      * exists l', r'. split; [exact Hrun|]. replace (q + 1 - 1) with q in * by lia. fold T in HR.
        split; intros x.
        -- rewrite HL. tauto.
        -- rewrite HR, cov_cons. unfold inb; cbn [fst snd]. fold T. split; intros; intuition lia.
Qed.
End W.
Print Assumptions loop_spec.
