From Coq Require Import List Ascii String Bool Lia.
Import ListNotations.
Open Scope string_scope.

(* Python s.split(c) for a one-character separator: always returns >= 1 token *)
Fixpoint split_go (c : ascii) (s : string) (cur : string) : list string :=
  match s with
  | EmptyString => [cur]
  | String a r => if Ascii.eqb a c then cur :: split_go c r EmptyString
                  else split_go c r (cur ++ String a EmptyString)
  end.
Definition split (c : ascii) (s : string) := split_go c s EmptyString.

Fixpoint join (c : ascii) (l : list string) : string :=
  match l with
  | [] => EmptyString
  | [t] => t
  | t :: r => t ++ String c (join c r)
  end.

Fixpoint has (c : ascii) (s : string) : bool :=
  match s with EmptyString => false | String a r => Ascii.eqb a c || has c r end.

Lemma app_assoc_s (a b c : string) : (a ++ b) ++ c = a ++ (b ++ c).
Proof. induction a; cbn; congruence. Qed.
Lemma app_nil_r_s (a : string) : a ++ "" = a.
Proof. induction a; cbn; congruence. Qed.

Lemma split_go_token c t rest cur : has c t = false ->
  split_go c (t ++ String c rest) cur = (cur ++ t) :: split_go c rest EmptyString.
Proof.
  revert cur. induction t as [|a t IH]; intros cur H; cbn in *.
  - rewrite Ascii.eqb_refl. now rewrite app_nil_r_s.
  - apply orb_false_iff in H. destruct H as [Ha Ht]. rewrite Ha.
    rewrite IH by exact Ht. now rewrite app_assoc_s.
Qed.

Lemma split_go_last c t cur : has c t = false -> split_go c t cur = [cur ++ t].
Proof.
  revert cur. induction t as [|a t IH]; intros cur H; cbn in *.
  - now rewrite app_nil_r_s.
  - apply orb_false_iff in H. destruct H as [Ha Ht]. rewrite Ha. rewrite IH by exact Ht.
    now rewrite app_assoc_s.
Qed.

Theorem split_join c toks : toks <> [] -> Forall (fun t => has c t = false) toks ->
  split c (join c toks) = toks.
Proof.
  unfold split. induction toks as [|t r IH]; intros Hne HF; [congruence|].
  inversion HF as [|? ? Ht Hr]; subst. destruct r as [|t2 r'].
  - cbn [join]. now rewrite split_go_last.
  - change (join c (t :: t2 :: r')) with (t ++ String c (join c (t2 :: r'))).
    rewrite split_go_token by exact Ht. cbn [append]. f_equal. apply IH; [congruence|exact Hr].
Qed.
Print Assumptions split_join.
