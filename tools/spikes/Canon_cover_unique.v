From Coq Require Import ZArith Lia List Bool.
Import ListNotations.
Open Scope Z_scope.

Section W.
Variable w : Z.
Hypothesis Hw : 0 <= w.

Record blk := { bv : Z; bp : Z }.
Definition bsize (b : blk) := 2 ^ (w - bp b).
Definition aligned (b : blk) := 0 <= bp b <= w /\ 0 <= bv b /\ (bsize b | bv b).
Definition inb (b : blk) (x : Z) := bv b <= x < bv b + bsize b.
Definition sub (a b : blk) := forall x, inb a x -> inb b x.
Definition covered (l : list blk) (x : Z) := exists b, In b l /\ inb b x.
(* b1 is the left sibling of b2 *)
Definition sib (b1 b2 : blk) :=
  bp b1 = bp b2 /\ bv b2 = bv b1 + bsize b1 /\ (2 * bsize b1 | bv b1).
Definition no_sib (l : list blk) := forall b1 b2, In b1 l -> In b2 l -> ~ sib b1 b2.

Lemma bsize_pos b : 0 <= bp b <= w -> 0 < bsize b.
Proof. intros. unfold bsize. apply Z.pow_pos_nonneg; lia. Qed.

Lemma bsize_double b : 0 <= bp b <= w -> bp b + 1 <= w ->
  2 ^ (w - bp b) = 2 * 2 ^ (w - (bp b + 1)).
Proof. intros. replace (w - bp b) with (Z.succ (w - (bp b + 1))) by lia.
  rewrite Z.pow_succ_r by lia. reflexivity. Qed.

(* size of a coarser block is a multiple of the size of a finer one *)
Lemma size_divides p q : 0 <= p <= q -> q <= w -> (2 ^ (w - q) | 2 ^ (w - p)).
Proof. intros. exists (2 ^ (q - p)). rewrite <- Z.pow_add_r by lia. f_equal. lia. Qed.

(* an aligned block B that contains point v (v multiple of T, T | size B) contains [v, v+T) *)
Lemma aligned_contains_chunk b S v T :
  0 < T -> (T | S) -> (S | b) -> (T | v) -> b <= v < b + S -> v + T <= b + S.
Proof.
  intros HT [k Hk] [m Hm] [n Hn] Hv. subst S b v.
  assert (m * (k * T) = (m * k) * T) by ring. rewrite H in *.
  assert (n < m * k + k) by nia. nia.
Qed.

Lemma mult_lower U b v t : 0 < U -> (U | b) -> (U | v) -> 0 <= t < U -> b <= v + t -> b <= v.
Proof. intros HU [m Hm] [n Hn] Ht H. subst. assert (m < n + 1) by nia. nia. Qed.

Lemma L_cover (l : list blk) :
  (forall b, In b l -> aligned b) -> no_sib l ->
  forall h : nat, forall X, aligned X -> w - bp X = Z.of_nat h ->
  (forall x, inb X x -> covered l x) -> exists B, In B l /\ sub X B.
Proof.
  intros Hal Hns. induction h as [|h IH]; intros X HX Hh Hcov.
  - (* single address *)
    destruct HX as (Hp & Hv & Hd).
    assert (Hs: bsize X = 1) by (unfold bsize; replace (w - bp X) with 0 by lia; reflexivity).
    destruct (Hcov (bv X)) as (B & HB & Hin). { unfold inb. lia. }
    exists B. split; [exact HB|]. intros x Hx. unfold inb in *. rewrite Hs in Hx.
    assert (x = bv X) by lia. subst x. exact Hin.
  - destruct HX as (Hp & Hv & Hd).
    set (p := bp X) in *. set (T := 2 ^ (w - (p + 1))).
    assert (HT: 0 < T) by (apply Z.pow_pos_nonneg; lia).
    assert (HS: bsize X = 2 * T).
    { unfold bsize, T. fold p. apply (bsize_double X); fold p; lia. }
    set (X0 := {| bv := bv X; bp := p + 1 |}).
    set (X1 := {| bv := bv X + T; bp := p + 1 |}).
    assert (HsX0: bsize X0 = T) by reflexivity.
    assert (HsX1: bsize X1 = T) by reflexivity.
    assert (Hp0': bp X0 = p + 1) by reflexivity. assert (Hv0': bv X0 = bv X) by reflexivity.
    assert (Hp1': bp X1 = p + 1) by reflexivity. assert (Hv1': bv X1 = bv X + T) by reflexivity.
    clearbody X0 X1.
    assert (HdT: (T | bv X)).
    { rewrite HS in Hd. eapply Z.divide_trans; [|exact Hd]. exists 2. ring. }
    assert (A0: aligned X0).
    { unfold aligned. rewrite HsX0, Hp0', Hv0'. split; [lia|split; [lia|exact HdT]]. }
    assert (A1: aligned X1).
    { unfold aligned. rewrite HsX1, Hp1', Hv1'. split; [lia|split; [lia|]].
      apply Z.divide_add_r; [exact HdT|apply Z.divide_refl]. }
    destruct (IH X0 A0) as (B0 & HB0 & S0). { rewrite Hp0'. lia. }
    { intros x Hx. apply Hcov. unfold inb in *. rewrite Hv0', HsX0 in Hx. rewrite HS. lia. }
    destruct (IH X1 A1) as (B1 & HB1 & S1). { rewrite Hp1'. lia. }
    { intros x Hx. apply Hcov. unfold inb in *. rewrite Hv1', HsX1 in Hx. rewrite HS. lia. }
    pose proof (Hal _ HB0) as (Hp0 & Hv0 & Hd0). pose proof (Hal _ HB1) as (Hp1 & Hv1 & Hd1).
    (* B0 contains X0's first point, B1 contains X1's first point *)
    assert (I0: inb B0 (bv X)). { apply S0. unfold inb. rewrite Hv0', HsX0. lia. }
    assert (I0': inb B0 (bv X + T - 1)). { apply S0. unfold inb. rewrite Hv0', HsX0. lia. }
    assert (I1: inb B1 (bv X + T)). { apply S1. unfold inb. rewrite Hv1', HsX1. lia. }
    assert (I1': inb B1 (bv X + 2*T - 1)). { apply S1. unfold inb. rewrite Hv1', HsX1. lia. }
    unfold inb in I0, I0', I1, I1'.
    (* sizes: bsize B0 >= T so bp B0 <= p+1 *)
    assert (P0: bp B0 <= p + 1).
    { destruct (Z_le_gt_dec (bp B0) (p+1)); [assumption|exfalso].
      assert (bsize B0 < T \/ bsize B0 = T -> False). 
      { intros _. assert (2 * bsize B0 <= T).
        { unfold bsize, T. replace (w - (p+1)) with (Z.succ (w - bp B0 + (bp B0 - (p + 1) - 1))) by lia.
          rewrite Z.pow_succ_r by lia. rewrite Z.pow_add_r by lia.
          assert (0 < 2 ^ (w - bp B0)) by (apply Z.pow_pos_nonneg; lia).
          assert (0 < 2 ^ (bp B0 - (p+1) - 1)) by (apply Z.pow_pos_nonneg; lia). nia. }
        assert (0 < bsize B0) by (apply bsize_pos; lia). lia. }
      apply H. left. 
      assert (2 * bsize B0 <= T).
        { unfold bsize, T. replace (w - (p+1)) with (Z.succ (w - bp B0 + (bp B0 - (p + 1) - 1))) by lia.
          rewrite Z.pow_succ_r by lia. rewrite Z.pow_add_r by lia.
          assert (0 < 2 ^ (w - bp B0)) by (apply Z.pow_pos_nonneg; lia).
          assert (0 < 2 ^ (bp B0 - (p+1) - 1)) by (apply Z.pow_pos_nonneg; lia). nia. }
      assert (0 < bsize B0) by (apply bsize_pos; lia). lia. }
    assert (P1: bp B1 <= p + 1).
    { destruct (Z_le_gt_dec (bp B1) (p+1)); [assumption|exfalso].
      assert (2 * bsize B1 <= T).
        { unfold bsize, T. replace (w - (p+1)) with (Z.succ (w - bp B1 + (bp B1 - (p + 1) - 1))) by lia.
          rewrite Z.pow_succ_r by lia. rewrite Z.pow_add_r by lia.
          assert (0 < 2 ^ (w - bp B1)) by (apply Z.pow_pos_nonneg; lia).
          assert (0 < 2 ^ (bp B1 - (p+1) - 1)) by (apply Z.pow_pos_nonneg; lia). nia. }
      assert (0 < bsize B1) by (apply bsize_pos; lia). lia. }
    destruct (Z.eq_dec (bp B0) (p + 1)) as [E0|N0]; [destruct (Z.eq_dec (bp B1) (p + 1)) as [E1|N1]|].
    + (* both exactly the halves: siblings, contradiction *)
      exfalso. assert (Z0: bsize B0 = T) by (unfold bsize, T; now rewrite E0).
      assert (Z1: bsize B1 = T) by (unfold bsize, T; now rewrite E1).
      rewrite Z0 in *. rewrite Z1 in *.
      assert (bv B0 = bv X).
      { destruct Hd0 as [k Hk]. destruct HdT as [n Hn]. nia. }
      assert (bv B1 = bv X + T).
      { destruct Hd1 as [k Hk]. destruct HdT as [n Hn]. nia. }
      apply (Hns B0 B1 HB0 HB1). unfold sib. rewrite Z0. split; [lia|split; [lia|]].
      rewrite H. rewrite <- HS. exact Hd.
    + (* B1 coarser: contains all of X *)
      exists B1. split; [exact HB1|]. intros x Hx. unfold inb in *. rewrite HS in Hx.
      assert (Hdiv: (2 * T | bsize B1)).
      { unfold bsize. rewrite <- HS. unfold bsize. fold p. apply size_divides; lia. }
      assert (bv B1 <= bv X).
      { apply (mult_lower (2*T) (bv B1) (bv X) T); try lia.
        - eapply Z.divide_trans; [exact Hdiv|exact Hd1].
        - rewrite <- HS. exact Hd. }
      lia.
    + exists B0. split; [exact HB0|]. intros x Hx. unfold inb in *. rewrite HS in Hx.
      assert (Hdiv: (2 * T | bsize B0)).
      { unfold bsize. rewrite <- HS. unfold bsize. fold p. apply size_divides; lia. }
      assert (bv X + 2 * T <= bv B0 + bsize B0).
      { rewrite HS in Hd. apply (aligned_contains_chunk (bv B0) (bsize B0) (bv X) (2*T)); try lia; assumption. }
      lia.
Qed.

Definition disj (l : list blk) := forall b1 b2 x, In b1 l -> In b2 l -> inb b1 x -> inb b2 x -> b1 = b2.

Lemma sub_antisym a b : aligned a -> aligned b -> sub a b -> sub b a -> a = b.
Proof.
  intros (Hpa & Hva & Hda) (Hpb & Hvb & Hdb) Hab Hba.
  pose proof (bsize_pos a Hpa). pose proof (bsize_pos b Hpb).
  assert (bv a = bv b).
  { assert (inb b (bv a)) by (apply Hab; unfold inb; lia).
    assert (inb a (bv b)) by (apply Hba; unfold inb; lia). unfold inb in *. lia. }
  assert (bsize a = bsize b).
  { assert (inb b (bv a + bsize a - 1)) by (apply Hab; unfold inb; lia).
    assert (inb a (bv b + bsize b - 1)) by (apply Hba; unfold inb; lia). unfold inb in *. lia. }
  unfold bsize in H2. apply Z.pow_inj_r in H2; try lia.
  destruct a, b; cbn in *. f_equal; lia.
Qed.

Theorem canon_same_elems l1 l2 :
  (forall b, In b l1 -> aligned b) -> (forall b, In b l2 -> aligned b) ->
  no_sib l1 -> no_sib l2 -> disj l1 ->
  (forall x, covered l1 x <-> covered l2 x) ->
  forall b, In b l1 -> In b l2.
Proof.
  intros A1 A2 N1 N2 D1 E b Hb.
  pose proof (A1 _ Hb) as Ab. destruct Ab as (Hp & Hv & Hd).
  destruct (L_cover l2 A2 N2 (Z.to_nat (w - bp b)) b (A1 _ Hb)) as (B' & HB' & S1).
  { lia. } { intros x Hx. apply E. exists b. auto. }
  pose proof (A2 _ HB') as AB'. destruct AB' as (Hp' & Hv' & Hd').
  destruct (L_cover l1 A1 N1 (Z.to_nat (w - bp B')) B' (A2 _ HB')) as (B'' & HB'' & S2).
  { lia. } { intros x Hx. apply E. exists B'. auto. }
  assert (b = B'').
  { apply (D1 b B'' (bv b) Hb HB'').
    - unfold inb. pose proof (bsize_pos b Hp). lia.
    - apply S2, S1. unfold inb. pose proof (bsize_pos b Hp). lia. }
  subst B''. assert (b = B') by (apply sub_antisym; auto). now subst.
Qed.
End W.
Print Assumptions canon_same_elems.
