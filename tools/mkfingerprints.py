#!/venv/bin/python
"""Record the fingerprint of every source/data file of the pinned tree (run after every commit to /repo).
A check whose anchored files differ from this baseline multiplies its generated-case budget (harness/core.py)."""
import json, os, sys
sys.path.insert(0, os.path.dirname(os.path.dirname(os.path.abspath(__file__))))
from harness.fingerprint import fingerprint_tree
repo = os.environ.get("NV_REPO", "/repo")
fp = fingerprint_tree(repo)
json.dump(fp, open(os.path.join(os.path.dirname(os.path.abspath(__file__)), "fingerprints.json"), "w"), indent=1, sort_keys=True)
print("fingerprints of %d files recorded" % len(fp))
