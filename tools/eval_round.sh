#!/bin/sh
# tools/eval_round.sh <round-tag> <Cxx> ...   — confirm and evaluate /tmp/s<round>_<Cxx>/out/{1,2,3} as seeded/<Cxx>_r<round>_<n>
r="$1"; shift
for p in "$@"; do
  for n in 1 2 3; do
    d="/tmp/s${r}_$p/out/$n"
    [ -f "$d/patch.diff" ] || { echo "$p $n: no patch"; continue; }
    sh /verif/tools/eval_seeded.sh "$p" "$d" "${p}_r${r}_$n"
  done
done
