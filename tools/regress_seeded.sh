#!/bin/sh
# tools/regress_seeded.sh [pattern]  — re-run the quick check of every kept seeded change (seeded/<name>/patch.diff) against a scratch
# worktree of /repo with the change applied, from the verif tree this script lives in (works in a `vp run` snapshot).  Prints one line
# per change: <name> caught=<n violation lines> [with-input=<n lines that name a failing input>]; summary at the end.  Changes nothing
# under seeded/.  Run ./setup.sh first in a fresh tree.
V="$(cd "$(dirname "$0")/.." && pwd)"
pat="${1:-*}"
miss=0; tot=0
for d in "$V"/seeded/$pat/; do
  name=$(basename "$d")
  [ -f "$d/patch.diff" ] || continue
  prop=$(python3 -c "import json,sys; print(json.load(open(sys.argv[1]))['property'])" "$d/meta.json" 2>/dev/null) || continue
  T="/tmp/regress_$$_$name"
  git -C /repo worktree prune
  git -C /repo worktree add -q -f --detach "$T" HEAD || continue
  if ! git -C "$T" apply "$d/patch.diff" 2>/dev/null && ! git -C "$T" apply --3way "$d/patch.diff" 2>/dev/null; then
    echo "$name: PATCH DOES NOT APPLY (to the current /repo HEAD)"; git -C /repo worktree remove --force "$T"; continue
  fi
  out=$(cd "$V" && NV_REPO="$T" NV_NO_EVIDENCE=1 ./check "$prop" 2>&1)
  n=$(echo "$out" | grep -c '^VIOLATION')
  m=$(echo "$out" | grep '^VIOLATION' | grep -vc 'no-failing-input-found')
  tot=$((tot+1)); [ "$n" -gt 0 ] || miss=$((miss+1))
  echo "$name: caught=$n with-input=$m"
  git -C /repo worktree remove --force "$T"
done
echo "SUMMARY: $tot changes, $miss not reported"
