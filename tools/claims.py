# claims table read by tools/mkmanifest.py
PENDING = {}
BUILT = {
 "C02": {"ref": "DESIGN.md §7 C02",
   "text": "All attribute identities (hostmask, netmask, network, first, last, size, broadcast, ip, cidr) are proved for every width w>=0, "
           "every value 0<=v<2^w and prefix 0<=p<=w (C02_identities, C02_broadcast); is_netmask/is_hostmask are proved to hold exactly for "
           "contiguous masks and netmask_bits to invert the prefix table (C02_is_netmask, C02_is_hostmask, C02_netmask_bits_*); each setter is "
           "proved to keep the object well formed, change only the addressed field, or raise one of the three documented classes leaving the "
           "object unchanged, for every setter history by induction (C02_set_*, C02_history). The model is tied to the code by differential "
           "execution over every prefix x boundary/random values, all contiguous masks and corruptions, random setter histories.",
   "note": "Strings offered to the netmask setter go through the address parser (C01) and are exercised there; here setters receive ints, "
           "IPAddress objects and wrong-typed values."},
}
