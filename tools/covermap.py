#!/venv/bin/python
"""tools/covermap.py [Cxx ...] — which lines of /repo/netaddr does the implementation side of each quick check reach?
Writes tools/covermap.json {file: {line: [properties]}} and prints, per non-test source file, the executable lines no check
reaches.  (Line coverage of the correspondence/oracle runs; a support measurement, not part of any verdict.)"""
import glob, json, os, shutil, subprocess, sys, tempfile
import coverage
V = os.path.dirname(os.path.dirname(os.path.abspath(__file__)))
REPO = os.path.realpath(os.environ.get("NV_REPO", "/repo"))
props = sys.argv[1:] or ["C%02d" % i for i in range(1, 21)]
out = {}
mp = os.path.join(V, "tools", "covermap.json")
if os.path.exists(mp) and sys.argv[1:]:
    out = json.load(open(mp))
    for f in out:
        for l in out[f]:
            out[f][l] = [p for p in out[f][l] if p not in props]
for p in props:
    d = tempfile.mkdtemp(prefix="nvcov_")
    env = dict(os.environ, NV_COVER_DIR=d, NV_NO_EVIDENCE="1")
    r = subprocess.run([os.path.join(V, "check"), p], env=env, stdout=subprocess.PIPE, stderr=subprocess.STDOUT)
    print(p, r.stdout.decode().strip().split("\n")[-1], flush=True)
    for fn in glob.glob(d + "/*.cov"):
        data = coverage.CoverageData(basename=fn)
        data.read()
        for f in data.measured_files():
            rel = os.path.relpath(f, REPO)
            for l in data.lines(f) or []:
                s = out.setdefault(rel, {}).setdefault(str(l), [])
                if p not in s:
                    s.append(p)
    shutil.rmtree(d)
json.dump(out, open(mp, "w"), sort_keys=True)
