#!/bin/sh
# tools/eval_equiv.sh <PROP> <srcdir> <name> — a behaviour-preserving rewrite must not produce a failing input:
#   confirm (suite passes, equiv.py exits 0) in a scratch worktree, run ./check PROP against it, record the outcome under
#   /verif/seeded_equiv/<name>/.
set -u
prop="$1"; src="$2"; name="$3"
T="/tmp/confirm_$name"
rm -rf "$T"; git -C /repo worktree prune
git -C /repo worktree add -q -f --detach "$T" HEAD || exit 2
res="/verif/seeded_equiv/$name"
mkdir -p "$res"
cp "$src/patch.diff" "$src/equiv.py" "$src/meta.json" "$res/" 2>/dev/null
cd "$T"
if ! git apply "$res/patch.diff"; then echo "$name: PATCH DOES NOT APPLY"; git -C /repo worktree remove --force "$T"; exit 3; fi
suite=$(PYTHONPATH="$T" /venv/bin/python -m pytest -q -p no:cacheprovider --timeout=900 2>&1 | tail -1)
cd /verif
out=$(NV_REPO="$T" NV_NO_EVIDENCE=1 ./check "$prop" 2>&1 | tail -8)
nviol=$(echo "$out" | grep -c '^VIOLATION')
nconcrete=$(echo "$out" | grep '^VIOLATION' | grep -vc 'no-failing-input-found')
python3 - "$res" "$prop" "$suite" "$nviol" "$nconcrete" "$out" <<'PY'
import json, sys, os
res, prop, suite, nviol, nconcrete, out = sys.argv[1:7]
m = json.load(open(res + "/meta.json")) if os.path.exists(res + "/meta.json") else {}
m["confirmed"] = {"suite_with_change": suite, "check": "./check %s (quick) against the rewritten tree" % prop,
                  "violation_lines": int(nviol), "with_concrete_failing_input": int(nconcrete),
                  "check_output_tail": out.split("\n")[-6:]}
m["verdict"] = "quiet" if int(nviol) == 0 else ("tie-broken-no-failing-input" if int(nconcrete) == 0 else "ALARM-with-failing-input")
json.dump(m, open(res + "/meta.json", "w"), indent=1)
print("%s: %s | violations=%s concrete=%s -> %s" % (res.split('/')[-1], suite.strip(), nviol, nconcrete, m["verdict"]))
PY
git -C /repo worktree remove --force "$T"
