#!/venv/bin/python
"""tools/mutcampaign.py stage1|stage2|report  — mutation campaign (support experiment, see DESIGN §13).

stage1: every mutant of tools/mutants.py against the pinned suite (in scratch copies under /tmp/mut); the survivors are the
        "realistic slips the suite does not see".
stage2: every suite-surviving mutant against the quick checks whose implementation side reaches the mutated line
        (tools/covermap.json), in scratch copies of /verif (so the generated tables and the build stay private); stops at the
        first check that reports a VIOLATION.
Results accumulate in /tmp/mut/stage1.json and /tmp/mut/stage2.json; `report` writes tools/mutation_report.json."""
import json
import os
import shutil
import subprocess
import sys
import time
from concurrent.futures import ThreadPoolExecutor

sys.path.insert(0, os.path.dirname(os.path.abspath(__file__)))
import mutants as M

V = os.path.dirname(os.path.dirname(os.path.abspath(__file__)))
W = "/tmp/mut"
PY = "/venv/bin/python"
KNOWN_FAIL = ["netaddr/tests/eui/test_eui.py::test_eui_oui_information", "netaddr/tests/eui/test_eui.py::test_oui_constructor"]


def load(p, d):
    return json.load(open(p)) if os.path.exists(p) else d


def copy_repo(dst):
    shutil.rmtree(dst, ignore_errors=True)
    subprocess.run(["rsync", "-a", "--exclude", ".git", "--exclude", "__pycache__", "/repo/", dst + "/"], check=True)


def stage1(nw=10):
    ms = json.load(open(W + "/mutants.json"))
    res = load(W + "/stage1.json", {})
    todo = [m for m in ms if m["id"] not in res]
    print(len(todo), "to run", flush=True)

    def worker(k):
        repo = "%s/s1_%d" % (W, k)
        copy_repo(repo)
        for m in todo[k::nw]:
            p = os.path.join(repo, m["file"])
            orig = open(p, "rb").read()
            M.apply(repo, m)
            env = dict(os.environ, PYTHONPATH=repo, PYTHONDONTWRITEBYTECODE="1", PYTHONHASHSEED="0")
            cmd = [PY, "-B", "-m", "pytest", "-x", "-q", "-p", "no:cacheprovider", "--timeout=120"]
            for t in KNOWN_FAIL:
                cmd += ["--deselect", t]
            try:
                r = subprocess.run(cmd, cwd=repo, env=env, stdout=subprocess.PIPE, stderr=subprocess.STDOUT, timeout=300)
                tail = r.stdout.decode("utf-8", "replace").strip().split("\n")[-1]
                res[m["id"]] = "survived" if r.returncode == 0 else "killed: " + tail[:100]
            except subprocess.TimeoutExpired:
                res[m["id"]] = "killed: timeout"
            open(p, "wb").write(orig)
        shutil.rmtree(repo, ignore_errors=True)

    stop = [False]

    def saver():
        while not stop[0]:
            time.sleep(30)
            json.dump(dict(res), open(W + "/stage1.json", "w"))
    import threading
    th = threading.Thread(target=saver)
    th.start()
    with ThreadPoolExecutor(nw) as ex:
        list(ex.map(worker, range(nw)))
    stop[0] = True
    th.join()
    json.dump(res, open(W + "/stage1.json", "w"))
    print("stage1:", sum(1 for v in res.values() if v == "survived"), "survived of", len(res))


PRIO = [  # (file regex, function regex, properties to try first)
    (r"ip/sets", r"", ["C06", "C07", "C12"]), (r"ip/glob", r"", ["C17", "C05"]), (r"ip/nmap", r"", ["C17"]),
    (r"ip/iana|eui/ieee", r"", ["C19"]), (r"rfc1924", r"", ["C15"]), (r"subnet_splitter", r"", ["C20"]),
    (r"fbsocket|strategy/ipv[46]", r"bits|bin|words|packed|arpa", ["C15"]), (r"fbsocket|strategy/ipv[46]", r"", ["C01", "C03", "C15"]),
    (r"strategy/eui|eui/__init__", r"OUI|IAB|info", ["C19", "C08"]), (r"strategy/eui|eui/__init__", r"", ["C08", "C15", "C12"]),
    (r"strategy/__init__", r"", ["C15", "C08"]),
    (r"ip/__init__", r"is_ipv4|\.ipv[46]$", ["C16"]), (r"ip/__init__", r"\.is_|netmask_bits", ["C18", "C02"]),
    (r"ip/__init__", r"__(i?add|i?sub|radd|rsub|or|and|xor|lshift|rshift|int|index|hex|bool|nonzero)__|IPAddress.__init__", ["C14", "C01"]),
    (r"ip/__init__", r"sort_key|\.key|__(eq|ne|lt|le|gt|ge|hash|getstate|setstate|reduce)__", ["C12"]),
    (r"ip/__init__", r"subnet|supernet|next|previous|iter_hosts|IPNetwork.__i(add|sub)__", ["C11"]),
    (r"ip/__init__", r"__getitem__|__len__|__iter__|iter_iprange|\.size|iter_unique", ["C10"]),
    (r"ip/__init__", r"__contains__|matching_cidr", ["C04"]), (r"ip/__init__", r"cidr_merge|iprange_to_cidrs|\.cidrs", ["C05"]),
    (r"ip/__init__", r"cidr_partition|cidr_exclude", ["C09"]), (r"ip/__init__", r"spanning", ["C13"]),
    (r"ip/__init__", r"parse_ip_network|IPNetwork.__init__|cidr_abbrev|IPNetwork.__(str|repr)__|IPRange.__init__", ["C03", "C02"]),
    (r"ip/__init__", r"bits|bin|words|packed|reverse_dns|format|__str__|__repr__", ["C15", "C01"]),
    (r"ip/__init__", r"netmask|hostmask|first|last|network|broadcast|prefixlen|\.ip$|\.cidr$|_set_value", ["C02"]),
]
MAXCHECKS = int(os.environ.get("MUT_MAXCHECKS", "5"))


def order(m, props):
    import re
    first = []
    for fr, fn, ps in PRIO:
        if re.search(fr, m["file"]) and re.search(fn, m["func"]):
            first += [p for p in ps if p in props and p not in first]
    return (first + [p for p in sorted(props) if p not in first])[:MAXCHECKS]


def stage2(nw=4, only=None):
    first = {}
    ms = {m["id"]: m for m in json.load(open(W + "/mutants.json"))}
    s1 = json.load(open(W + "/stage1.json"))
    cov = json.load(open(V + "/tools/covermap.json"))
    res = load(W + "/stage2.json", {})
    todo = [ms[i] for i in sorted(s1) if s1[i] == "survived" and ((i not in res and only is None) or (only is not None and i in only))]
    for m in todo:      # a re-run keeps the first verdict for the record
        if m["id"] in res and "first_verdict" not in res[m["id"]]:
            first[m["id"]] = res[m["id"]]["verdict"]
    print(len(todo), "to run", flush=True)

    def worker(k):
        ver = "%s/v_%d" % (W, k)
        repo = "%s/v_%d_repo" % (W, k)
        if not os.path.isdir(ver):
            subprocess.run(["cp", "-a", V, ver], check=True)
        copy_repo(repo)
        for m in todo[k::nw]:
            props = cov.get(m["file"], {}).get(str(m["line"]), [])
            if not props:
                res[m["id"]] = {"verdict": "unreached", "props": []}
                continue
            p = os.path.join(repo, m["file"])
            orig = open(p, "rb").read()
            M.apply(repo, m)
            verdict, ran = "survived", []
            for pr in order(m, props):
                env = dict(os.environ, NV_REPO=repo, NV_NO_EVIDENCE="1")
                t0 = time.time()
                try:
                    r = subprocess.run([ver + "/check", pr], env=env, stdout=subprocess.PIPE, stderr=subprocess.STDOUT, timeout=2400)
                    o = r.stdout.decode("utf-8", "replace")
                except subprocess.TimeoutExpired:
                    o, r = "VIOLATION property=%s (check timed out)" % pr, None
                ran.append([pr, round(time.time() - t0)])
                v = [l for l in o.split("\n") if l.startswith("VIOLATION")]
                if v:
                    verdict = "killed %s%s" % (pr, " no-failing-input-found" if "no-failing-input-found" in v[0] else "")
                    break
                if r is not None and r.returncode != 0:
                    verdict = "check-error %s: %s" % (pr, o[-300:])
                    break
            open(p, "wb").write(orig)
            if verdict == "survived" and len(props) > len(ran):
                verdict = "survived (%d of %d reaching checks run)" % (len(ran), len(props))
            res[m["id"]] = {"verdict": verdict, "props": ran}
            if m["id"] in first:
                res[m["id"]]["first_verdict"] = first[m["id"]]
            json.dump(dict(res), open("%s/stage2.json.tmp%d" % (W, k), "w"))
            os.replace("%s/stage2.json.tmp%d" % (W, k), W + "/stage2.json")
            print(m["id"], m["file"], m["line"], m["func"], m["kind"], repr(m["old"][:30]), "->", repr(m["new"][:30]), "|", verdict[:80], ran, flush=True)

    with ThreadPoolExecutor(nw) as ex:
        list(ex.map(worker, range(nw)))
    json.dump(res, open(W + "/stage2.json", "w"))


def report():
    ms = json.load(open(W + "/mutants.json"))
    s1 = json.load(open(W + "/stage1.json"))
    s2 = load(W + "/stage2.json", {})
    tri = load(V + "/tools/mutation_triage.json", {})
    rows = []
    for m in ms:
        if s1.get(m["id"]) != "survived":
            continue
        r = s2.get(m["id"], {"verdict": "not-run", "props": []})
        rows.append({"id": m["id"], "file": m["file"], "line": m["line"], "func": m["func"], "kind": m["kind"], "old": m["old"][:80],
                     "new": m["new"][:80], "verdict": r["verdict"][:120], "first_verdict": r.get("first_verdict", r["verdict"])[:120],
                     "checks_run": [p for p, _ in r["props"]], "triage": tri.get(m["id"], "")})
    from collections import Counter
    summ = {"mutants": len(ms), "killed_by_pinned_suite": sum(1 for v in s1.values() if v != "survived"),
            "survived_suite": len(rows), "verdicts": Counter(r["verdict"].split()[0] for r in rows),
            "first_pass_verdicts": Counter(r["first_verdict"].split()[0] for r in rows),
            "killed_by": Counter(r["verdict"].split()[1] for r in rows if r["verdict"].startswith("killed"))}
    try:
        import subprocess
        unc = subprocess.run([PY, os.path.join(V, "tools", "uncovered.py")], stdout=subprocess.PIPE).stdout.decode().strip().split("\n")[-1]
        summ["coverage"] = unc.replace("total unreached", "statements no check reaches:")
    except Exception:
        pass
    json.dump({"summary": summ, "suite_survivors": rows}, open(V + "/tools/mutation_report.json", "w"), indent=1)
    print(summ)


if __name__ == "__main__":
    os.makedirs(W, exist_ok=True)
    a = sys.argv[1]
    if a == "stage1":
        stage1(int(sys.argv[2]) if len(sys.argv) > 2 else 10)
    elif a == "stage2":
        stage2(int(sys.argv[2]) if len(sys.argv) > 2 else 4, set(sys.argv[3:]) or None)
    else:
        report()
