#!/usr/bin/env python3
"""Regenerate MANIFEST.json from the table below (keeps it schema-valid at all times)."""
import json, os
HERE = os.path.dirname(os.path.dirname(os.path.abspath(__file__)))
ALL = ["C%02d" % i for i in range(1, 21)]

# property -> (design section, claim text, level note, technique)
BUILT = {}
PENDING = {}
cd = os.path.join(HERE, "tools", "claims")
for f in sorted(os.listdir(cd)):
    if f.endswith(".json"):
        BUILT[f[:-5]] = json.load(open(os.path.join(cd, f)))
if os.path.exists(os.path.join(cd, "PENDING.txt")):
    for ln in open(os.path.join(cd, "PENDING.txt")):
        if ":" in ln:
            k, v = ln.split(":", 1); PENDING[k.strip()] = v.strip()

NOTE_COMMON = ("Trusted: Coq 8.16.1 kernel incl. vm_compute (no native_compute); hand-written Gallina model tied to /repo by the "
               "function-granular correspondence run on every invocation (extracted OCaml driver vs the implementation); "
               "extraction with ExtrOcamlBasic/ExtrOcamlString only; harness generators/adapters; the source translator "
               "harness/gen/pysrc.py (its reading of Python syntax, its tables, the prelude symbols coq/Model/SrcPrelude*.v), whose output is "
               "regenerated from /repo on every run and proved equal to the model (`..._source_tie` theorems, all twenty checks; callee ties "
               "in harness/callee_ties.py; tools/srccover.json lists what is inside that tie); the table generators harness/gen/*.py. ")

m = {
    "version": 1,
    "setup_cmd": "./setup.sh",
    "hooks": {"guard": "NETADDR_VERIF", "enable": "no source hooks are needed: checks import /repo as it is (PYTHONPATH=/repo); "
              "the fallback back-end of C01 is selected inside the harness subprocess without touching the source",
              "baseline_off_cmd": "cd /repo && /venv/bin/python -m pytest -ra -q -p no:cacheprovider --timeout=900 --continue-on-collection-errors",
              "source_commits": [], "add_only": True},
    "engines": [{"name": "coq-proof+correspondence", "path": "check", "serves_properties": sorted(BUILT),
                 "kind_free_text": "Rocq/Coq 8.16.1 theorems over executable Gallina models (coq/), rebuilt on every run; "
                                   "model tied to /repo (a) by a source translator that regenerates Gallina definitions from the current source text on "
                                   "every run, each proved equal to the model function the property theorems are about, and (b) by differential "
                                   "execution of the extracted model against the implementation (harness/); generated tables re-proved against "
                                   "the working tree (coq/Gen)"}],
    "checks": [],
    "notes": "See DESIGN.md. Every check: ./check Cxx (quick) / ./check Cxx --tier thorough. known_findings.json lists recorded findings.",
    "not_applicable": [],
}
for pid in ALL:
    if pid in BUILT:
        b = BUILT[pid]
        m["checks"].append({
            "property_id": pid,
            "quick_cmd": "./check %s" % pid,
            "thorough_cmd": "./check %s --tier thorough" % pid,
            "evidence_file": "/verif/evidence/%s.json" % pid,
            "replay_cmd_template": "./check %s --replay {path}" % pid,
            "engine": "coq-proof+correspondence",
            "level_claimed": {"category": "proof", "text": b["text"], "design_ref": b["ref"]},
            "level_note": NOTE_COMMON + b.get("note", ""),
            "technique": b.get("technique", "machine-checked proof in Rocq (Coq 8.16.1) over an executable Gallina model; model tied to the code by a source translator with proved equalities (re-checked every run) and by differential execution"),
        })
    else:
        m["not_applicable"].append({"property_id": pid, "reason": PENDING.get(pid, "check not built yet in this session; no claim is made")})
json.dump(m, open(os.path.join(HERE, "MANIFEST.json"), "w"), indent=1)
print("MANIFEST.json: %d checks, %d not claimed" % (len(m["checks"]), len(m["not_applicable"])))
