#!/usr/bin/env python3
"""tools/srccover.py - how much of netaddr's source is inside the source tie (translated by harness/gen/pysrc.py and proved equal
to the model): per file, the function definitions whose line range appears in a generated coq/Gen/pysrc*_gen.v header comment,
against all function definitions of the file.  Statement counts exclude docstrings.  Prints a table; --json writes tools/srccover.json."""
import ast, glob, json, os, re, sys
REPO = os.environ.get("NV_REPO", "/repo")
V = os.path.join(os.path.dirname(os.path.abspath(__file__)), "..", "coq", "Gen")
cov = {}
for f in glob.glob(os.path.join(V, "pysrc*_gen.v")):
    for m in re.finditer(r"\(\* (netaddr/[\w/]+\.py): ([\w.]+)[^*]*?lines (\d+)-(\d+)", open(f).read()):
        if re.search(r", loop \d+ \(", m.group(0).split("lines")[0]):      # a loop's Fixpoint header (not a function named ..loop..)
            continue
        cov.setdefault(m.group(1), set()).add((m.group(2), int(m.group(3)), int(m.group(4))))
def nstmts(fn):
    n = 0
    for node in ast.walk(fn):
        if isinstance(node, ast.stmt) and node is not fn:
            if isinstance(node, ast.Expr) and isinstance(node.value, ast.Constant) and isinstance(node.value.value, str):
                continue
            n += 1
    return n
rows, tot = [], [0, 0, 0, 0]
out = {}
for root, _, files in os.walk(os.path.join(REPO, "netaddr")):
    if "tests" in root:
        continue
    for fn in sorted(files):
        if not fn.endswith(".py"):
            continue
        path = os.path.join(root, fn); rel = os.path.relpath(path, REPO)
        tree = ast.parse(open(path).read())
        funcs = []
        def walk(node, q):
            for ch in ast.iter_child_nodes(node):
                if isinstance(ch, (ast.FunctionDef,)):
                    funcs.append((".".join(q + [ch.name]), ch.lineno, ch.end_lineno, nstmts(ch)))
                    walk(ch, q + [ch.name])
                elif isinstance(ch, ast.ClassDef):
                    walk(ch, q + [ch.name])
                else:
                    walk(ch, q)
        walk(tree, [])
        if not funcs:
            continue
        ranges = cov.get(rel, set())
        tied = [f for f in funcs if any(a <= f[1] and f[2] <= b for _, a, b in ranges)]
        untied = [f for f in funcs if f not in tied]
        s_all = sum(f[3] for f in funcs); s_tied = sum(f[3] for f in tied)
        rows.append((rel, len(tied), len(funcs), s_tied, s_all))
        out[rel] = {"tied": [f[0] for f in tied], "untied": [f[0] for f in untied], "stmts_tied": s_tied, "stmts": s_all}
        for i, x in enumerate((len(tied), len(funcs), s_tied, s_all)):
            tot[i] += x
for r in sorted(rows):
    print("%-42s functions %3d/%3d   statements %4d/%4d" % r)
print("%-42s functions %3d/%3d   statements %4d/%4d" % (("TOTAL",) + tuple(tot)))
if "--json" in sys.argv:
    json.dump(out, open(os.path.join(os.path.dirname(os.path.abspath(__file__)), "srccover.json"), "w"), indent=1, sort_keys=True)
if "--untied" in sys.argv:
    for k in sorted(out):
        print(k, ":", " ".join(out[k]["untied"]))
