#!/venv/bin/python
"""tools/uncovered.py — executable statements of netaddr's non-test source that no quick check's implementation side reaches
(from tools/covermap.json), grouped by enclosing function."""
import ast, json, os, sys
import coverage
V = os.path.dirname(os.path.dirname(os.path.abspath(__file__)))
REPO = os.environ.get("NV_REPO", "/repo")
cm = json.load(open(V + "/tools/covermap.json"))
cov = coverage.Coverage(data_file=None)
tot = 0; miss = 0
for rel in sorted(cm):
    if "/tests/" in rel or rel.endswith("cli.py"):
        continue
    p = os.path.join(REPO, rel)
    _, stmts, _, _ = cov.analysis(p)
    hit = {int(l) for l in cm[rel]}
    un = [l for l in stmts if l not in hit]
    tot += len(stmts); miss += len(un)
    tree = ast.parse(open(p).read())
    spans = []
    def walk(n, q):
        for c in ast.iter_child_nodes(n):
            if isinstance(c, (ast.FunctionDef, ast.ClassDef)):
                spans.append((c.lineno, c.end_lineno, q + [c.name])); walk(c, q + [c.name])
            else:
                walk(c, q)
    walk(tree, [])
    by = {}
    for l in un:
        best = None
        for a, b, q in spans:
            if a <= l <= b and (best is None or a >= best[0]):
                best = (a, b, q)
        by.setdefault(".".join(best[2]) if best else "<module>", []).append(l)
    print("%s: %d/%d statements unreached" % (rel, len(un), len(stmts)))
    for f, ls in by.items():
        print("    %-50s %s" % (f, ls))
print("total unreached %d of %d" % (miss, tot))
