#!/venv/bin/python
"""tools/mutants.py — classic first-order mutants of netaddr's non-test source, as single-token text edits.

    mutants.py list                      -> writes <out>/mutants.json (id, file, line, func, kind, old, new, start, end)
Used by tools/mutcampaign.py.  A support experiment (does the machinery notice small realistic slips that the pinned suite
does not?), never part of a verdict."""
import ast
import json
import os
import re
import sys

FILES = ["netaddr/ip/__init__.py", "netaddr/ip/sets.py", "netaddr/ip/glob.py", "netaddr/ip/nmap.py", "netaddr/ip/rfc1924.py",
         "netaddr/ip/iana.py", "netaddr/strategy/__init__.py", "netaddr/strategy/ipv4.py", "netaddr/strategy/ipv6.py",
         "netaddr/strategy/eui48.py", "netaddr/strategy/eui64.py", "netaddr/eui/__init__.py", "netaddr/eui/ieee.py",
         "netaddr/fbsocket.py", "netaddr/compat.py", "netaddr/core.py", "netaddr/contrib/subnet_splitter.py"]

CMP = {"<": ["<="], "<=": ["<"], ">": [">="], ">=": [">"], "==": ["!="], "!=": ["=="], "is": ["is not"], "is not": ["is"],
       "in": ["not in"], "not in": ["in"]}
CMPNAME = {ast.Lt: "<", ast.LtE: "<=", ast.Gt: ">", ast.GtE: ">=", ast.Eq: "==", ast.NotEq: "!=", ast.Is: "is",
           ast.IsNot: "is not", ast.In: "in", ast.NotIn: "not in"}
BIN = {ast.Add: ("+", ["-"]), ast.Sub: ("-", ["+"]), ast.LShift: ("<<", [">>"]), ast.RShift: (">>", ["<<"]),
       ast.BitAnd: ("&", ["|"]), ast.BitOr: ("|", ["&", "^"]), ast.BitXor: ("^", ["|"]), ast.Mult: ("*", ["//"]),
       ast.FloorDiv: ("//", ["*"]), ast.Mod: ("%", ["//"])}


def offsets(src):
    offs = [0]
    for ln in src.split("\n"):
        offs.append(offs[-1] + len(ln.encode()) + 1)
    return offs


def mutants_of(rel, src):
    tree = ast.parse(src)
    bsrc = src.encode()
    offs = offsets(src)
    pos = lambda l, c: offs[l - 1] + c
    out = []
    parents = {}
    for n in ast.walk(tree):
        for c in ast.iter_child_nodes(n):
            parents[c] = n

    def qual(n):
        names = []
        while n in parents:
            n = parents[n]
            if isinstance(n, (ast.FunctionDef, ast.ClassDef)):
                names.append(n.name)
        return ".".join(reversed(names)) or "<module>"

    def in_raise_or_doc(n):
        m = n
        while m in parents:
            if isinstance(m, (ast.Raise, ast.Assert)):
                return True
            m = parents[m]
        return False

    def add(n, kind, s, e, new):
        old = bsrc[s:e].decode()
        if old == new:
            return
        out.append({"file": rel, "line": n.lineno, "func": qual(n), "kind": kind, "old": old, "new": new, "start": s, "end": e})

    def between(a, b, tok, n, kind, news):
        s, e = pos(a.end_lineno, a.end_col_offset), pos(b.lineno, b.col_offset)
        seg = bsrc[s:e].decode()
        # strip parentheses/whitespace around the operator token
        m = re.search(r"(?<![<>=!&|^*/%+\-\w])" + re.escape(tok) + r"(?![<>=&|^*/%+\-\w])" if not tok[0].isalpha()
                      else r"\b" + re.escape(tok).replace(r"\ ", r"\s+") + r"\b", seg)
        if not m:
            return
        for new in news:
            add(n, kind, s + len(seg[:m.start()].encode()), s + len(seg[:m.end()].encode()), new)

    for n in ast.walk(tree):
        if in_raise_or_doc(n):
            continue
        if isinstance(n, ast.Compare) and len(n.ops) == 1:
            tok = CMPNAME.get(type(n.ops[0]))
            if tok:
                between(n.left, n.comparators[0], tok, n, "cmp", CMP[tok])
        elif isinstance(n, ast.BinOp) and type(n.op) in BIN:
            if any(isinstance(x, ast.Constant) and isinstance(x.value, (str, bytes)) for x in (n.left, n.right)):
                continue
            if isinstance(n.left, ast.JoinedStr) or isinstance(n.right, ast.JoinedStr):
                continue
            tok, news = BIN[type(n.op)]
            between(n.left, n.right, tok, n, "binop", news)
        elif isinstance(n, ast.BoolOp):
            tok = "and" if isinstance(n.op, ast.And) else "or"
            for a, b in zip(n.values, n.values[1:]):
                between(a, b, tok, n, "boolop", ["or" if tok == "and" else "and"])
        elif isinstance(n, ast.UnaryOp) and isinstance(n.op, ast.Not):
            s, e = pos(n.lineno, n.col_offset), pos(n.operand.lineno, n.operand.col_offset)
            if bsrc[s:e].decode().strip() == "not":
                add(n, "not", s, e, "")
        elif isinstance(n, ast.Constant) and isinstance(n.value, int) and not isinstance(n.value, bool):
            s, e = pos(n.lineno, n.col_offset), pos(n.end_lineno, n.end_col_offset)
            txt = bsrc[s:e].decode()
            if re.fullmatch(r"\d+", txt) and n.value <= 4096:
                add(n, "const", s, e, str(n.value + 1))
                if n.value > 0:
                    add(n, "const", s, e, str(n.value - 1))
        elif isinstance(n, ast.Constant) and isinstance(n.value, bool):
            s, e = pos(n.lineno, n.col_offset), pos(n.end_lineno, n.end_col_offset)
            add(n, "bool", s, e, str(not n.value))
        elif isinstance(n, (ast.If, ast.While)) and not isinstance(n.test, ast.Constant):
            s, e = pos(n.test.lineno, n.test.col_offset), pos(n.test.end_lineno, n.test.end_col_offset)
            add(n, "negcond", s, e, "not (" + bsrc[s:e].decode() + ")")
        elif isinstance(n, (ast.Expr, ast.Assign, ast.AugAssign, ast.Delete)) and isinstance(parents.get(n), (
                ast.FunctionDef, ast.If, ast.For, ast.While, ast.Try, ast.With, ast.ExceptHandler)):
            if isinstance(n, ast.Expr) and isinstance(n.value, ast.Constant):
                continue    # docstring
            s, e = pos(n.lineno, n.col_offset), pos(n.end_lineno, n.end_col_offset)
            add(n, "delstmt", s, e, "pass")
        elif isinstance(n, (ast.Break, ast.Continue)):
            s, e = pos(n.lineno, n.col_offset), pos(n.end_lineno, n.end_col_offset)
            add(n, "brk", s, e, "continue" if isinstance(n, ast.Break) else "break")
    # keep syntactically valid ones only
    ok = []
    for m in out:
        new = (bsrc[:m["start"]] + m["new"].encode() + bsrc[m["end"]:]).decode()
        try:
            ast.parse(new)
        except SyntaxError:
            continue
        ok.append(m)
    return ok


def apply(repo, m):
    p = os.path.join(repo, m["file"])
    b = open(p, "rb").read()
    assert b[m["start"]:m["end"]].decode() == m["old"], "source moved"
    open(p, "wb").write(b[:m["start"]] + m["new"].encode() + b[m["end"]:])


def main():
    repo = os.environ.get("NV_REPO", "/repo")
    allm = []
    for rel in FILES:
        ms = mutants_of(rel, open(os.path.join(repo, rel)).read())
        allm += ms
    for i, m in enumerate(allm):
        m["id"] = "M%04d" % i
    json.dump(allm, open(sys.argv[2] if len(sys.argv) > 2 else "/dev/stdout", "w"), indent=0)
    from collections import Counter
    print(len(allm), "mutants", Counter(m["kind"] for m in allm), file=sys.stderr)
    print(Counter(m["file"] for m in allm), file=sys.stderr)


if __name__ == "__main__":
    main()
