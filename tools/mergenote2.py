import sys, json, subprocess, os
# merge tools/claims/Cxx.json whose "note" was appended to on both sides: ours + the suffix theirs added to the common ancestor
p = sys.argv[1]
def show(stage):
    return json.loads(subprocess.run(["git", "show", ":%d:%s" % (stage, p)], capture_output=True, text=True, check=True).stdout)
base, ours, theirs = show(1), show(2), show(3)
out = dict(ours)
for k in theirs:
    if k not in ours:
        out[k] = theirs[k]
    elif theirs[k] != base.get(k) and ours[k] == base.get(k):
        out[k] = theirs[k]
    elif theirs[k] != base.get(k) and ours[k] != base.get(k) and ours[k] != theirs[k]:
        b = base.get(k, "")
        assert isinstance(b, str) and theirs[k].startswith(b) and ours[k].startswith(b), (p, k)
        out[k] = ours[k] + theirs[k][len(b):]
json.dump(out, open(p, "w"), indent=1, ensure_ascii=False)
print("merged", p, {k: len(v) for k, v in out.items() if isinstance(v, str)})
