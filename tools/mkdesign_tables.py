#!/usr/bin/env python3
"""Regenerate the generated tail of DESIGN.md (§13 seeded changes, §14 status per property) from seeded/*/meta.json,
tools/claims/*.json, evidence/*.json and known_findings.json."""
import glob, json, os, re
V = os.path.dirname(os.path.dirname(os.path.abspath(__file__)))
s = open(os.path.join(V, "DESIGN.md")).read()
# ---- source-tie coverage table inside section 12 (between the srccover markers)
sc = os.path.join(V, "tools", "srccover.json")
if os.path.exists(sc) and "<!-- srccover:begin -->" in s:
    cov = json.load(open(sc))
    tab = "| file | functions tied | statements tied | not tied |\n|---|---|---|---|\n"
    ts = tt = fs = ft = 0
    for f in sorted(cov):
        c = cov[f]
        if c["stmts"] == 0:
            continue
        un = c["untied"]
        tab += "| `%s` | %d / %d | %d / %d | %s |\n" % (f.replace("netaddr/", ""), len(c["tied"]), len(c["tied"]) + len(un), c["stmts_tied"],
                                                      c["stmts"], (", ".join("`%s`" % u for u in un[:12]) + (" ..." if len(un) > 12 else "")) if un else "-")
        ts += c["stmts_tied"]; tt += c["stmts"]; fs += len(c["tied"]); ft += len(c["tied"]) + len(un)
    tab += "| **total** | **%d / %d** | **%d / %d** | |\n" % (fs, ft, ts, tt)
    a, b = s.index("<!-- srccover:begin -->"), s.index("<!-- srccover:end -->")
    s = s[:a] + "<!-- srccover:begin -->\n" + tab + s[b:]
marker = "\n## 13. Seeded changes"
if marker in s:
    s = s[:s.index(marker)]
rows = []
for d in sorted(glob.glob(os.path.join(V, "seeded", "*"))):
    m = json.load(open(d + "/meta.json"))
    name = os.path.basename(d)
    clean = lambda t, n: re.sub(r"\s+", " ", str(t)).replace("|", "/")[:n]
    rows.append((name, clean(m.get("summary", ""), 170), clean(m.get("needs", ""), 130), m.get("caught")))
r1 = [r for r in rows if not any(("_r%d_" % k) in r[0] for k in (2, 3, 4, 5, 6, 7))]
r7 = [r for r in rows if "_r7_" in r[0]]
r6 = [r for r in rows if "_r6_" in r[0]]
r4 = [r for r in rows if "_r4_" in r[0]]
r5 = [r for r in rows if "_r5_" in r[0]]
r2 = [r for r in rows if "_r2_" in r[0]]
r3 = [r for r in rows if "_r3_" in r[0]]
s += '''
## 13. Seeded changes: independent breakage and what catches it

For every property fresh sub-agents were given ONLY the property text and a scratch worktree of netaddr (nothing from
/verif) and asked for realistic changes that break the property while the library still imports and its suite still
passes, each with a demonstration program.  Round 1 asked for three changes of the agent's choice per property; round 2
asked for one change of each of three subtle kinds: STATE/ALIASING (stale memo, shared mutable state, partially updated
object — needs a sequence of calls), COOPERATING SITES (a helper/base class/table the property relies on indirectly),
RARE INPUT (a narrow class of valid inputs, often about 2^-96 of the space); round 3 asked for one change of each of:
ERROR PATH (which inputs are refused and with which exception, or a failed call leaving something behind), ARGUMENT FORM
(the same value handed over as another accepted type: string/int/tuple/object, list/tuple/generator/iterator, str
subclass, IPRange used as a sequence), PROTOCOL (pickle, copy, hash/eq, iteration, slicing, bool/len); round 4 asked for one
change of each of: OPTIMISATION / FAST PATH (early exits, closed forms and float `log2` replacing exact loops, memos keyed on too
little or not invalidated, skipped normalisation), MODERNISATION / REFACTORING (f-string padding, truthiness replacing `is None`,
`is` vs `==`, `range` loops with an off-by-one, reliance on dict order, helpers shared by callers they do not fit), DATA / TABLE /
CONSTANT / PATTERN (one wrong row of a lookup table, one character of an alphabet, a regex that lost its anchor, a limit off by
one, a narrowed block); round 5 (`tools/seed_prompt_r5.md`) asked for one change of each of: SCALE / THRESHOLD (right on small and
medium inputs, wrong beyond a size or magnitude: a fast path for long lists, bisection or batching with a bug at the chunk
boundary, float arithmetic beyond 2^53, values beyond `sys.maxsize`), INDIRECT PATH / COOPERATING SITES (right when called directly,
wrong through another entry point: `IPGlob` standing in for `IPRange`, objects that went through pickle / copy, keyword vs
positional arguments, a helper shared with other callers), EXOTIC BUT IN-SCOPE INPUT FORM OR ENVIRONMENT (trailing newline, Unicode
digits and blanks that `int()` / `isdigit()` / `\\d` accept, mixed-case hexadecimal, objects with `__index__`, one-shot iterators,
networks written with host bits, CPython's 4300-digit limit); round 6 (`tools/seed_prompt_r6.md`) asked for changes that do NOT edit
the body of a function the property's anchors name, one of each of: MODULE LEVEL / CLASS LEVEL / IMPORT TIME (a module-level table or
comprehension, a default argument, a class attribute, a `property(...)` or decorator line, an alias such as `__ior__ = update`, a
platform switch), HELPER OR GLUE OUTSIDE THE ANCHORS (a shared helper, a base-class or `compat.py` / `core.py` function, a `__repr__` /
`__iter__` / `__copy__` / `__reduce__` method, an error-message expression), ONE FAMILY ONLY (the IPv4 / IPv6, EUI-48 / EUI-64 or
platform / fallback sibling paths made to diverge for a narrow class of inputs of one of them); round 7 (`tools/seed_prompt_r7.md`, ten
properties: C04 C05 C06 C07 C08 C10 C11 C12 C15 C17) asked for one change of each of: CROSS-CLASS SEQUENCE (at least three public calls
across two classes with a value carried along), RARELY USED PARAMETER OR RESULT DETAIL (`step`, `count`, `word_sep=''`, negative steps;
the exact type, family, order or one-shot nature of a result), FAILURE ATOMICITY OR LAZY ERRORS (a refused call that leaves something
behind, errors that surface only when a generator is consumed, two things wrong at once).  Every change listed was confirmed by me in a
scratch worktree (`tools/eval_seeded.sh`: suite unchanged at 268 passed / 2 pre-existing failures; demo exits 0 on the
untouched tree and 1 with the change) and the property's quick check was run against the changed tree.  The patch, the
demo and `meta.json` (what it needs to manifest, what was run, the tail of the check output) are kept under `seeded/<name>/`.

**Result: all %d changes (%d round 1, %d round 2, %d round 3, %d round 4, %d round 5, %d round 6, %d round 7) are caught by the quick tier of the property's own check.**  That was
not so at first; the misses drove these additions:

* round 1, 3 of 57 missed: `C02_2` (memoised `netmask` not invalidated by the `prefixlen` setter) → setter histories read
  every derived attribute before the first and after every step; `C05_3` (memoised `IPRange.cidrs()` surviving the
  `IPGlob.glob` setter) → the C17 `ipglob_set` command reads all derived views around the assignment, the C05 adapter
  cross-checks `iprange_to_cidrs` with `glob_to_cidrs` and a re-assigned `IPGlob`; `C01_2` (length guard rejecting valid
  40–45 character IPv6 texts) → a stream of long mixed `x:…:d.d.d.d` spellings.
* round 2, 17 of 57 missed at first, 12 of them of the STATE/ALIASING kind, which function-level comparison on fresh objects
  cannot see → `harness/lifecycle.py` (used by 16 properties): (A) an object driven into a state by public mutators after
  every observer was read once must answer ~40 observers exactly like a fresh object of that state, (B) the result of an
  operation is not the operand, shares no state with it or with an earlier result of the same call, (C) a mutator that
  raises changes no observer.  The functional model has no hidden state, so its side of these cases is the constant
  "no discrepancy" (`Extract/Cmd_Life.v`).  The remaining misses were generator gaps: IPv4-mapped/compatible IPv6 values
  in the C15 and shared value pools; coarse sibling blocks (`::/1`…`::/34`) in IPSet histories; intervals that just cross
  an aligned boundary (`lo` aligned to 2^k, `hi = lo + 2^k + δ`) for C05/C13 (caught a float-`log2` rewrite of
  `spanning_cidr` that is wrong for about 2^-47 of IPv6 pairs); `address/netmask` string forms in C13.
* round 3, 6 of 54 missed at first, all of the ARGUMENT FORM / PROTOCOL kind: `C06_r3_2`, `C07_r3_2` (an iterable consumed
  twice, so a generator or iterator argument lost elements) → the IPSet register machine hands every bulk argument over as
  list, tuple, generator or one-shot iterator (chosen by a hash of the case), later also `cidr_merge` in C05; `C08_r3_3`
  (EUI slice indexing) → the lifecycle observer of an EUI reads a family of slices and compares them with the items;
  `C13_r3_3` (an `IPRange.__iter__` that re-detects the family from bare integers, so a low IPv6 range iterates as IPv4) →
  an `IPRange` object is handed to `spanning_cidr` as the sequence in the C13 adapter;
  `C01_r3_3` (an exact-type test `type(addr) is str` replacing `isinstance`) → a quarter of the C01 texts are passed as a
  `str` subclass; `C17_r3_2` (bounds of `iprange_to_globs` parsed with `IPNetwork()`, which refuses the integer form) → the adapter demands the same globs from
  string bounds, integer bounds and IPAddress bounds.  The same idea was then applied where no seed asked for it (CIDR-string
  and IPAddress arguments of `cidr_partition`/`cidr_exclude` in C09).
* round 4, 1 of 60 missed at first: `C05_r4_3` (netmask and hostmask lookup tables merged into one in which the hostmask rows
  win, so only the all-ones and all-zeros mask texts are read wrongly; the same change seeded for C13 was caught there by the
  mask-string form added in round 2) → `cidr_merge` items and IPSet elements are now also written as `address/netmask` and
  `address/hostmask` text.  The other 59 — among them three independent float-`log2` rewrites, four stale memos, the BASE_85
  alphabet with one wrong character, a MAC pattern without its `$`, `_sys_maxint` lowered to 2^31-1, an IANA multicast shortcut
  that ignores alignment — were reported at once, all but one with a concrete failing input.  That one, `C12_r4_1` (a memo of
  `IPNetwork.key()` that every mutator except the inherited `value` setter resets), was reported only through its broken source
  tie: every lifecycle history that assigned `.value` also assigned the prefix afterwards, which reset the memo → the lifecycle
  now reads all observers after EVERY mutator call and has single-mutator histories (`value=` alone, `prefixlen=` alone,
  `value=` twice, observers between the word assignments of an EUI); re-run: 29 failing inputs.
* round 5, 9 of 60 missed at first, 5 of them of the SCALE kind: `C04_r5_1` (`smallest_matching_cidr` scanning only the last width+1
  sorted candidates: needs more than 32 near misses) → candidate lists of 40…900 networks (thorough …4000) with a few true containers
  among host routes and ancestor siblings; `C03_r5_1` (a length bound of 79 characters on CIDR text: needs a fully written IPv6 address
  with a fully written mask) and `C17_r5_1` (nmap fast path computing `256 * wild` for `256 ** wild`), `C19_r5_2` (`EUI.oui` through
  dialect-sized slices) → reported once the functions were inside the source tie (fourth translator round, below);
  `C06_r5_1` (a lookup-based sweep used once the set holds more than 256 blocks) and `C07_r5_2` (a memoised sorted view that
  `update(IPSet)` does not drop) → `big_history` (sets of 262 / 300 lone hosts, then small blocks added and removed around them) and the
  public sorted views (`iter_cidrs`, `iter_ipranges`) read after EVERY mutating step of every history; `C20_r5_1` (`cidr_merge`
  dropping the 1025th pending entry) → requests for 1025…4095 subnets at once, and `harness/callee_ties.py`: the source-tie theorems of
  the callees a property's model composition relies on through hand-model symbols (`cidr_merge`, `subnet`, the constructors, `sorted`)
  are obligations of that property's check too; `C14_r5_3` (an `IndexError` message that prints the operand: `ValueError` beyond 4300
  digits) → operands of 4350 digits and shift counts in the thousands, which at once showed that the UNCHANGED tree had the same
  defect on the `AddrFormatError` side (F-19, repaired); `C19_r5_3` (a separator-stripping regex that also strips lower-case
  hexadecimal letters) → OUI / IAB text in upper, lower and mixed case and without hyphens.  Also added without a seed asking:
  lists of 150…2600 items for `cidr_merge` and 120…2300 for `spanning_cidr`; round-robin distribution of the cases over the worker
  processes (long cases no longer land in one worker); `harness/unistream.py` (text beyond latin-1 at the strict entry points).
  All 60 are now reported.
* round 6, 4 of 60 missed at first: `C04_r6_1` (the four prefix / mask dictionaries of the strategy modules filled by one import-time
  loop that stops before prefix = width; eight other round-6 seeds are variations of it and were caught through mask-form text) →
  the dictionaries AS LOADED are now a regenerated data tie (`harness/gen/prefix.py` → `coq/Gen/prefix_gen.v`, `Props/C03_tables.v`:
  equal to the model's tables row for row), an obligation of C02, C03 and, through `harness/callee_ties.py`, of every check whose
  model composition goes through the network parser; C04's text operands also come in `address/netmask` and `address/hostmask` form;
  `C06_r6_1` (a class-body alias `__ior__ = update`, so `s |= t` leaves `None`) → the IPSet histories use the operator syntax itself
  (`a | b`, not `a.__or__(b)`) and the augmented spellings `|= &= -= ^=` when the target register is the left operand; `C02_r6_2` (a
  helper of `parse_ip_network` that reads the all-ones netmask as prefix 0) → C02 builds "every network" in every spelling (tuple, CIDR
  text, netmask text, hostmask text; chosen from the content) and has the parser's source tie among its obligations; `C14_r6_1` (the
  error-message helper chosen once at import by `if sys.get_int_max_str_digits():`) → C14 runs every case under a second import-time
  configuration (digit limit off while netaddr is imported, on afterwards; `NV_BACKEND=nodigitcap` of `harness/implrun.py`).
  Recurring themes of the other 56, all reported at once: the IPv4-first family detection reached through a positional `version`
  (`IPNetwork((v, p), version)` binds `implicit_prefix`), memoised bounds of `IPRange` surviving the `IPGlob.glob` setter, state
  restored through a constructor that re-detects the family, regexes whose `$` tolerates a trailing newline, `isdigit()`.
* round 7 (30 changes, run after the structure tie and with 92 %% of the code inside the source tie): none missed; 25 reported with a
  concrete failing input at once, 5 first through a broken tie only.  Two of those five (`C06_r7_3`, `C07_r7_3`: `IPSet.update()` writing
  the elements into the set one by one, so that a refused element leaves the earlier ones behind, unmerged) now also give failing
  inputs: the bulk arguments of the IPSet histories carry, now and then, an element that must be refused AFTER good ones, and the oracle
  already demanded "raises and leaves the set as it was".  The other three stay tie-only: candidates handed to the matching helpers as a
  one-shot iterator that a refused call has drained (`C04_r7_3`), `IPSet.add` keeping the caller's own object (`C06_r7_1`; its
  round-2 sibling is reported with inputs, this variant hides behind a private copy in `remove`), `EUI.words` following the dialect
  (`C15_r7_1`, reported with inputs by C08, whose accessor theorem it breaks).
* after the rounds, the full regression (`tools/regress_seeded.sh`, every kept change against the final machinery in a `vp run`
  snapshot): all reported; the seven that a broken tie alone reported at that point were given generators (valid setter arguments must
  be accepted - C02; a dot-separated field without a digit under ZEROFILL - C01; `__index__`-only objects as indices and setter
  arguments - C10, C02; complete enumeration of nmap specs with full trailing octets - C17; the 45-character IPv6 spellings on both
  sides of the `/` - C03; OUI lookup through every dialect - C19) and now come with failing inputs.

| seeded change | what was changed | needs, to manifest | caught |
|---|---|---|---|
''' % (len(rows), len(r1), len(r2), len(r3), len(r4), len(r5), len(r6), len(r7))
for r in rows:
    s += "| `%s` | %s | %s | %s |\n" % (r[0], r[1], r[2], "yes" if r[3] else "NO")

# ---- behaviour-preserving rewrites
eq = []
for d in sorted(glob.glob(os.path.join(V, "seeded_equiv", "*"))):
    m = json.load(open(d + "/meta.json"))
    clean = lambda t, n: re.sub(r"\s+", " ", str(t)).replace("|", "/")[:n]
    eq.append((os.path.basename(d), clean(m.get("summary", ""), 200), m.get("verdict", "?")))
if eq:
    quiet = sum(1 for e in eq if e[2] == "quiet")
    tie = sum(1 for e in eq if e[2] == "tie-broken-no-failing-input")
    bad = sum(1 for e in eq if e[2].startswith("ALARM"))
    s += '''
### Behaviour-preserving rewrites (must not produce a failing input)

The converse experiment: fresh sub-agents (again given only the property text and a scratch worktree) produced %d realistic
BEHAVIOUR-PRESERVING rewrites of the anchored code (loop restructuring, equivalent arithmetic, extracted helpers, hoisted
locals, reworded messages, closed forms), each with a brute-force equivalence program.  Each was confirmed (suite unchanged)
and the property's quick check was run against the rewritten tree (`tools/eval_equiv.sh`, kept under `seeded_equiv/`):
**%d quiet (exit 0), %d reported as `VIOLATION … no-failing-input-found`, %d with a (false) failing input.**  The
`no-failing-input-found` ones are rewrites of methods covered by the source translator (§5.1b): the regenerated Gallina term
is no longer convertible/provably equal by the recorded proof, so a proof obligation fails while correspondence and oracles
find nothing — exactly the situation the interface prescribes that line for.  The differential-execution tie itself is
insensitive to how the code is written.  (The figures are those of the re-run at the end of session 3, when the source tie covered
92 %% of the code: in the first run, with 19 %% covered, 27 of the 30 were quiet and 3 broke a tie.  That is the price of the tie by
proof, and the interface names it: a rewrite that leaves the behaviour alone but not the generated term is reported without a failing
input.  None of the 30 ever produced a FALSE failing input.  `C14_eq_3` could not be re-run: after the F-19 repair its patch no longer applies.)

| rewrite | what was rewritten | check verdict |
|---|---|---|
''' % (len(eq), quiet, tie, bad)
    for e in eq:
        s += "| `%s` | %s | %s |\n" % e

# ---- mutation campaign
mr = os.path.join(V, "tools", "mutation_report.json")
if os.path.exists(mr):
    R = json.load(open(mr))
    sm = R["summary"]
    rowsm = R["suite_survivors"]
    killed = [r for r in rowsm if r["verdict"].startswith("killed")]
    kin = sum(1 for r in killed if "no-failing-input-found" not in r["verdict"])
    first_killed = [r for r in rowsm if r["first_verdict"].startswith("killed")]
    surv = [r for r in rowsm if not r["verdict"].startswith("killed")]
    gaps = [r for r in rowsm if r["triage"].startswith("GAP")]
    cls = lambda r: r["triage"].split(":")[0].split(" ")[0].lower().rstrip(",") if r["triage"] else "untriaged"
    from collections import Counter
    cc = Counter(cls(r) for r in surv)
    s += '''
### Mutation campaign (automatic first-order mutants; `tools/mutants.py`, `tools/mutcampaign.py`, `tools/covermap.py`)

A complement to the agent-written changes: every single-token mutant of netaddr's non-test source (comparison boundary/negation,
`+`/`-`, shifts, `&`/`|`/`^`, `*`/`//`/`%%`, integer constants ±1, `True`/`False`, `and`/`or`, dropped `not`, negated `if`/`while`
condition, statement replaced by `pass`, `break`/`continue`; nothing inside `raise`/`assert`) was generated as a text edit:
**%d mutants**.  Stage 1 ran the pinned suite on each (scratch copies under /tmp): %d are killed by the suite, **%d survive it** —
those are the "changes that still pass the tests".  Stage 2 ran, for each survivor, the quick checks whose implementation side
reaches the mutated line (line coverage of every check, `tools/covermap.py` → `tools/covermap.json`; %s), most specific first, at
most five, in scratch copies of /verif with `NV_REPO` pointing at the mutated copy; a mutant counts as noticed at the first
`VIOLATION` line.  **First pass: %d of the %d survivors reported.**  Every one of the others was read by hand
(`tools/mutation_triage.json`, one line per mutant): they are behaviour-preserving (dead Python-2 branches, defaults never used,
early exits of sorted scans, values of dicts used as sets, comparisons Python reflects, `|` vs `^` on disjoint bits, guards that a
later test repeats, ...), or outside every property (exception class for a non-string argument, address-family constants, an unclosed
file handle), or on lines no check reaches (`tools/uncovered.py`) — **except %d, which were genuine gaps of the generators** and were
closed: nmap CIDR targets with a prefix below 20 (never generated because they cannot be enumerated → model function `cidr_probe`,
theorem `C17_nmap_cidr_probe`, command `nmap_cidr_probe`), the `flags` defaults of `valid_ipv4`/`str_to_int`/`IPAddress`/`IPNetwork`
and the `dialect=None` defaults of the EUI strategy functions (adapters always passed them explicitly → default-valued arguments are
now left out), and comparison of an EUI with the text/integer form of another.  Those mutants were re-run and are reported.
**Final: %d of %d reported (%d with a concrete failing input, %d as `no-failing-input-found`, i.e. a source-tie obligation broken
by a behaviour-preserving edit); %d not reported: %s.**  Reported by: %s.  The coverage measurement itself also led to additions where
no mutant asked for them (OUI/IAB text form, pickling and `EUI.info` in C19, equality with foreign objects in C12).
The campaign is a support experiment (it samples one kind of change), not part of any verdict; its scratch data lived under /tmp/mut,
the committed record is `tools/mutation_report.json`.

| not-reported mutants by triage class | count |
|---|---|
''' % (sm["mutants"], sm["killed_by_pinned_suite"], sm["survived_suite"], sm.get("coverage", "see tools/uncovered.py"),
       len(first_killed), len(rowsm), len(gaps), len(killed), len(rowsm), kin, len(killed) - kin, len(surv),
       ", ".join("%d %s" % (n, k) for k, n in cc.most_common()),
       ", ".join("%s %d" % (k, n) for k, n in sorted(sm.get("killed_by", {}).items())))
    for k, n in cc.most_common():
        s += "| %s | %d |\n" % (k, n)
    s += "\n| gap found by the campaign | where | edit | what was added |\n|---|---|---|---|\n"
    for r in gaps:
        s += "| `%s` | %s:%d `%s` | `%s` → `%s` | %s |\n" % (r["id"], r["file"].replace("netaddr/", ""), r["line"], r["func"],
                  r["old"][:40].replace("|", "/").replace("\n", " "), r["new"][:40].replace("|", "/").replace("\n", " "),
                  r["triage"][14:].replace("|", "/"))

# ---- §14 status per property
kf = json.load(open(os.path.join(V, "known_findings.json")))["findings"]
s += '''
## 14. Status per property (generated from the claims, the evidence of the last run and known_findings.json)

| id | theorems (all closed under the global context) | cases, quick tier | defects repaired in /repo (`fix:` commits) |
|---|---|---|---|
'''
for i in range(1, 21):
    pid = "C%02d" % i
    ev = os.path.join(V, "evidence", pid + ".json")
    cov = json.load(open(ev))["coverage"] if os.path.exists(ev) else {}
    fx = sorted({"%s %s" % (f["id"], f.get("commit", "")) for f in kf if f["property"] == pid and f["status"] == "fixed"})
    s += "| %s | %s/%s obligations | %s | %s |\n" % (pid, cov.get("discharged", "?"), cov.get("obligations", "?"),
                                                    cov.get("evaluations", "?"), "; ".join(fx) or "—")
open(os.path.join(V, "DESIGN.md"), "w").write(s)
print("DESIGN.md tail regenerated: %d seeded rows" % len(rows))
