#!/venv/bin/python
"""tools/mkstructure.py - rewrite, from the CURRENT tree of /repo, the pinned structure literals coq/Proofs/GenOk_Structure_Cxx.v and the
theorem files coq/Props/Structure_Cxx.v of every property (run after a `fix:` commit to /repo, like tools/mkfingerprints.py).  The pinned
literal is what the models, the adapters and the translator tables are written against; harness/gen/structure.py regenerates the other
side from the source on every run.  Which groups a property relies on: table RELEVANT of harness/gen/structure.py."""
import os, sys
V = os.path.dirname(os.path.dirname(os.path.abspath(__file__)))
sys.path.insert(0, V)
from harness.gen import structure as S
import glob, importlib, re
COQ = os.path.join(V, "coq")
HDR = re.compile(r"\(\* (netaddr/[\w/]+\.py): ([\w.]+)[,:]")


def requires(vfile):
    txt = open(vfile).read()
    out = []
    for m in re.finditer(r"From\s+NV\s+Require\s+(?:Import\s+|Export\s+)?((?:[A-Za-z_]\w*\.[A-Za-z_]\w*\s*)+)\.", txt):
        out += m.group(1).split()
    return [os.path.join(COQ, x.replace(".", "/") + ".v") for x in out]


def closure(files):
    seen, todo = set(), list(files)
    while todo:
        f = todo.pop()
        if f in seen or not os.path.exists(f):
            continue
        seen.add(f)
        todo += requires(f)
    return seen


# every generated definition: name -> (source file, qualified python name) from the header comment above it, and name -> the src_
# names its body mentions
ENTRY = re.compile(r"\(\* (netaddr/[\w/]+\.py): ([\w.]+)[^*]*?\*\)\s*\n(?:Definition|Fixpoint)\s+(src_\w+)")
GEN_OF, DEPS = {}, {}
for _f in glob.glob(os.path.join(COQ, "Gen", "pysrc*_gen.v")):
    _t = open(_f).read()
    _ms = list(ENTRY.finditer(_t))
    for _i, _m in enumerate(_ms):
        _name = _m.group(3)
        GEN_OF[_name] = (_m.group(1), _m.group(2))
        _body = _t[_m.end():(_ms[_i + 1].start() if _i + 1 < len(_ms) else len(_t))]
        DEPS[_name] = set(re.findall(r"\bsrc_\w+", _body)) - {_name}
T_ALL = set(GEN_OF.values())


def translated_in(vfiles):
    """the (file, qualified name) of every translated function that the non-generated files among vfiles mention, directly or through
    the generated definitions they mention"""
    todo = set()
    for f in vfiles:
        if "/Gen/" not in f:
            todo |= set(re.findall(r"\bsrc_\w+", open(f).read()))
    seen = set()
    while todo:
        n = todo.pop()
        if n in seen:
            continue
        seen.add(n)
        todo |= DEPS.get(n, set())
    return {GEN_OF[n] for n in seen if n in GEN_OF}
from harness import callee_ties


def theorem_files(prop):
    mod = importlib.import_module("harness.props." + prop.lower())
    fs = [getattr(mod, "THEOREM_FILE", "Props/%s.v" % prop)] + list(getattr(mod, "EXTRA_THEOREM_FILES", []))
    fs += callee_ties.CALLEE_TIES.get(prop, [])
    return [os.path.join(COQ, f) for f in fs]


for prop in sorted(S.RELEVANT):
    T_P = translated_in(closure(theorem_files(prop)))
    proofs = ("(* Proofs/GenOk_Structure_%s.v -- WRITTEN BY tools/mkstructure.py from the pinned tree: signatures (parameter names, order, default\n"
              "   values), decorators, class bases and non-def class-body statements of the functions and classes %s relies on, as the models, the\n"
              "   harness adapters and the translator tables assume them; the regenerated lists (coq/Gen/structure_gen.v) must equal them. *)\n"
              "From Coq Require Import List String Bool.\nFrom NV Require Import Gen.structure_gen.\nImport ListNotations.\nOpen Scope string_scope.\n\n" % (prop, prop))
    stmts, lemmas, nrows = [], [], 0
    proofs += "@@DROP@@"
    byfile = {}
    for rel, top in S.relevant_groups(prop):
        byfile.setdefault(rel, []).append(top)
    for rel in sorted(byfile):
        gs = dict(S.groups_of(os.path.join(S.REPO, rel)))
        full = S.RELEVANT[prop][rel] == S.ALL
        if full:      # the whole file: also the list of its top-level names (a new class or function is a change)
            m = S.mangle(rel)
            proofs += "Lemma names_%s_ok : gen_names_%s = [%s].\nProof. reflexivity. Qed.\n\n" % (
                m, m, "; ".join(S.coq_str(t) for t in byfile[rel]))
            stmts.append("gen_names_%s = [%s]" % (m, "; ".join(S.coq_str(t) for t in byfile[rel])))
            lemmas.append("names_%s_ok" % m)
        for top in byfile[rel]:
            g = S.mangle(rel, top)
            assert top in gs, (prop, rel, top)
            # rows of functions that ARE translated somewhere but not in anything this property's theorems depend on are dropped: an
            # edit of their signature is another property's business; classes, untranslated functions and NEW functions stay
            drop = [a for a, _ in gs[top] if a.startswith("def ") and (rel, a[4:]) in T_ALL and (rel, a[4:]) not in T_P]
            kept = [r for r in gs[top] if r[0] not in drop]
            proofs += "Definition drop_%s : list string := [%s].\n" % (g, "; ".join(S.coq_str(d) for d in drop))
            proofs += "Definition pinned_struct_%s : list (string * string) := %s.\n" % (g, S.literal(kept))
            proofs += "Lemma struct_%s_ok : filter (keep drop_%s) gen_struct_%s = pinned_struct_%s.\nProof. vm_compute. reflexivity. Qed.\n\n" % (g, g, g, g)
            stmts.append("filter (keep drop_%s) gen_struct_%s = pinned_struct_%s" % (g, g, g))
            lemmas.append("struct_%s_ok" % g)
            nrows += len(kept)
    proofs = proofs.replace("@@DROP@@", "(* drop_<group>: functions translated by harness/gen/pysrc.py that nothing in the dependency closure of this property's theorem\n"
                            "   files mentions, directly or through the generated definitions they mention: their rows are another property's business\n"
                            "   (tools/mkstructure.py computes the lists); classes, untranslated functions and NEW functions are kept *)\n"
                            "Definition keep (drop : list string) (r : string * string) : bool := negb (existsb (String.eqb (fst r)) drop).\n\n")
    open(os.path.join(V, "coq", "Proofs", "GenOk_Structure_%s.v" % prop), "w").write(proofs)
    props = ("(* Props/Structure_%s.v -- WRITTEN BY tools/mkstructure.py.  Structure tie for %s: the parameter lists (names, order, default values),\n"
             "   decorators, class bases and non-def class-body statements (aliases, __slots__, property lines, class attributes) of the classes and\n"
             "   functions this property relies on (harness/gen/structure.py, table RELEVANT) -- and, for files it relies on entirely, the list of\n"
             "   their top-level names -- regenerated from the working tree on every run, are the ones the models, adapters and translator tables\n"
             "   were written against.  The source translator reads function BODIES; this covers what is around them.  %d groups, %d rows.\n"
             "   Statement closed by `exact`, followed by Print Assumptions. *)\n"
             "From Coq Require Import List String Bool.\nFrom NV Require Import Gen.structure_gen Proofs.GenOk_Structure_%s.\nImport ListNotations.\nOpen Scope string_scope.\n\n"
             "Theorem %s_structure_tie :\n  %s.\nProof. exact (%s). Qed.\nPrint Assumptions %s_structure_tie.\n" % (
                 prop, prop, len(lemmas), nrows, prop, prop, " /\\\n  ".join(stmts),
                 "conj " + " (conj ".join(lemmas[:-1]) + " " + lemmas[-1] + ")" * (len(lemmas) - 2) if len(lemmas) > 1 else lemmas[0], prop))
    open(os.path.join(V, "coq", "Props", "Structure_%s.v" % prop), "w").write(props)
print("pinned structure for %d properties" % len(S.RELEVANT))
