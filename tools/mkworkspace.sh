#!/bin/sh
# tools/mkworkspace.sh Cxx  — private clone of /verif and worktree of /repo under /tmp/w_Cxx
set -e
id="$1"; W="/tmp/w_$id"
rm -rf "$W"; mkdir -p "$W"
git clone -q /verif "$W/verif"
git -C /repo worktree prune
git -C /repo worktree add -q -f -B "w_$id" "$W/repo" HEAD
echo "$W"
