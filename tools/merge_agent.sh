#!/bin/sh
# tools/merge_agent.sh Cxx [fix-commit ...] — merge an agent's clone into /verif, cherry-pick its fix commits into /repo
set -e
id="$1"; shift
W="/tmp/w_$id"
cd /verif
git pull --no-rebase --no-edit -q "$W/verif" || { echo "MERGE CONFLICT"; exit 1; }
for c in "$@"; do
  git -C /repo cherry-pick -x "$c" || { echo "CHERRY-PICK FAILED $c"; exit 1; }
done
if [ -f "findings_$id.json" ]; then
  python3 - "$id" <<'PY'
import json, sys
id = sys.argv[1]
kf = json.load(open('known_findings.json'))
new = json.load(open('findings_%s.json' % id))
if isinstance(new, dict):
    new = new.get('findings', [new])
have = {(f.get('property'), f.get('id')) for f in kf['findings']}
for f in new:
    if (f.get('property'), f.get('id')) not in have:
        kf['findings'].append(f)
json.dump(kf, open('known_findings.json', 'w'), indent=1)
PY
  git rm -q --cached "findings_$id.json" 2>/dev/null || true
  mkdir -p tools/findings && mv "findings_$id.json" tools/findings/
fi
python3 tools/mkmanifest.py
echo merged $id
