import sys,re
for p in sys.argv[1:]:
    s=open(p).read()
    s=re.sub(r'<<<<<<< [^\n]*\n(.*?)=======\n(.*?)>>>>>>> [^\n]*\n', lambda m:m.group(1)+m.group(2), s, flags=re.S)
    open(p,'w').write(s)
