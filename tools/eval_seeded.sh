#!/bin/sh
# tools/eval_seeded.sh <PROP> <srcdir> <name>
#   confirm a seeded change (suite passes, demo fails with it and passes without it) in a scratch worktree of /repo,
#   store it under /verif/seeded/<name>/, run ./check PROP against the changed tree, record the outcome, clean up.
set -u
prop="$1"; src="$2"; name="$3"
T="/tmp/confirm_$name"
rm -rf "$T"; git -C /repo worktree prune
git -C /repo worktree add -q -f --detach "$T" HEAD || exit 2
res="/verif/seeded/$name"
mkdir -p "$res"
cp "$src/patch.diff" "$src/demo.py" "$src/meta.json" "$res/" 2>/dev/null
cd "$T"
d0=$(PYTHONPATH="$T" /venv/bin/python "$res/demo.py" >/dev/null 2>&1; echo $?)
if ! git apply "$res/patch.diff"; then echo "$name: PATCH DOES NOT APPLY"; git -C /repo worktree remove --force "$T"; exit 3; fi
suite=$(PYTHONPATH="$T" /venv/bin/python -m pytest -q -p no:cacheprovider --timeout=900 2>&1 | tail -1)
d1=$(PYTHONPATH="$T" /venv/bin/python "$res/demo.py" >/dev/null 2>&1; echo $?)
cd /verif
out=$(NV_REPO="$T" NV_NO_EVIDENCE=1 ./check "$prop" 2>&1 | tail -8)
nviol=$(echo "$out" | grep -c '^VIOLATION')
python3 - "$res" "$prop" "$d0" "$d1" "$suite" "$nviol" "$out" <<'PY'
import json, sys
res, prop, d0, d1, suite, nviol, out = sys.argv[1:8]
m = json.load(open(res + "/meta.json")) if __import__("os").path.exists(res + "/meta.json") else {}
m["confirmed"] = {"demo_exit_unchanged_tree": int(d0), "demo_exit_with_change": int(d1), "suite_with_change": suite,
                  "check": "./check %s (quick) against the changed tree" % prop, "violation_lines": int(nviol),
                  "check_output_tail": out.split("\n")[-6:]}
m["caught"] = int(nviol) > 0
json.dump(m, open(res + "/meta.json", "w"), indent=1)
print("%s: demo %s->%s | %s | caught=%s" % (res.split('/')[-1], d0, d1, suite.strip(), m["caught"]))
PY
git -C /repo worktree remove --force "$T"
