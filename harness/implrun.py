"""Run the implementation side of a shard of cases.

usage: python -B -m harness.implrun <PROP> <infile> <outfile>
Each input line is `<cmd> <wire args>`; each output line is `<wire result>\t<oracle message or empty>`.
Environment: NV_BACKEND=fallback forces netaddr's pure-Python socket fallback (no source change).
"""
import os
import sys
import importlib


def force_fallback_backend():
    # Pre-import what netaddr needs before faking the platform (shutil would import _winapi otherwise).
    import importlib.resources, shutil, tempfile, struct, re, csv, pprint, xml.sax, itertools, socket  # noqa
    real = sys.platform
    had = socket.has_ipv6
    sys.platform = "win32"
    socket.has_ipv6 = False
    try:
        import netaddr  # noqa
    finally:
        sys.platform = real
        socket.has_ipv6 = had
    from netaddr.strategy import ipv4, ipv6
    from netaddr import fbsocket
    assert ipv6.OPT_IMPORTS is False, "fallback back-end not selected for ipv6"
    assert ipv4._inet_pton is fbsocket.inet_pton, "fallback back-end not selected for ipv4"


def main():
    prop, infile, outfile = sys.argv[1:4]
    cov = None
    if os.environ.get("NV_COVER_DIR"):   # tools/covermap.py: which source lines does this check's implementation side reach
        import coverage
        cov = coverage.Coverage(data_file=os.path.join(os.environ["NV_COVER_DIR"], "%s.%d.cov" % (prop, os.getpid())),
                                include=[os.path.realpath(os.environ.get("NV_REPO", "/repo")) + "/netaddr/*"])
        cov.start()
    try:
        _main(prop, infile, outfile)
    finally:
        if cov is not None:
            cov.stop()
            cov.save()


def _main(prop, infile, outfile):
    assert os.path.realpath(sys.path[0] if sys.path[0] else ".") or True
    if os.environ.get("NV_BACKEND") == "fallback":
        force_fallback_backend()
    if os.environ.get("NV_BACKEND") == "nodigitcap":
        # import-time environment: CPython's int -> str digit limit switched off while netaddr is imported and back on (default
        # 4300) afterwards -- whatever the library decides at import time must not depend on it
        sys.set_int_max_str_digits(0)
        try:
            import netaddr  # noqa
        finally:
            sys.set_int_max_str_digits(4300)
    import netaddr
    assert os.path.dirname(os.path.dirname(os.path.realpath(netaddr.__file__))) == os.path.realpath(
        os.environ.get("NV_REPO", "/repo")), "netaddr not imported from the working tree: %s" % netaddr.__file__
    from harness import wire
    mod = importlib.import_module("harness.props." + prop.lower())
    impl = mod.IMPL
    oracle = getattr(mod, "ORACLE", {})
    with open(infile) as f, open(outfile, "w") as out:
        for line in f:
            line = line.rstrip("\n")
            if not line:
                out.write("\n")
                continue
            sp = line.split(" ", 1)
            cmd = sp[0]
            args = wire._dec(sp[1].split(), 0)[0] if len(sp) > 1 else []
            try:
                res = wire.norm(impl[cmd](*args))
            except RecursionError as e:
                res = wire.Exn("Other_RecursionError")
            except Exception as e:  # noqa
                res = wire.exn_of(e)
            msg = ""
            orc = oracle.get(cmd)
            if orc is not None:
                try:
                    m = orc(args, res)
                except Exception as e:  # an oracle crash is a harness defect; make it visible, never silent
                    m = "ORACLE-CRASH %s: %s" % (type(e).__name__, e)
                if m:
                    msg = str(m).replace("\n", " ").replace("\t", " ")
            out.write(wire.enc(res) + "\t" + msg + "\n")
            out.flush()


if __name__ == "__main__":
    main()
