"""Fingerprints of the anchored source files: comment- and docstring-insensitive AST hashes for Python files,
content hashes for data files.  A changed fingerprint is NOT an alarm; it multiplies the correspondence budget of the
properties anchored in that file, because the hand-written model may no longer mirror the code."""
import ast
import hashlib
import json
import os


def _strip_docstrings(tree):
    for node in ast.walk(tree):
        body = getattr(node, "body", None)
        if isinstance(body, list) and body and isinstance(body[0], ast.Expr) and \
                isinstance(getattr(body[0], "value", None), ast.Constant) and isinstance(body[0].value.value, str):
            if isinstance(node, (ast.Module, ast.ClassDef, ast.FunctionDef, ast.AsyncFunctionDef)):
                node.body = body[1:] or [ast.Pass()]
    return tree


def fingerprint_file(path):
    data = open(path, "rb").read()
    if path.endswith(".py"):
        try:
            tree = _strip_docstrings(ast.parse(data))
            return "ast:" + hashlib.sha1(ast.dump(tree, include_attributes=False).encode()).hexdigest()
        except SyntaxError:
            pass
    return "raw:" + hashlib.sha1(data).hexdigest()


def fingerprint_tree(repo):
    out = {}
    root = os.path.join(repo, "netaddr")
    for d, dirs, files in os.walk(root):
        if "tests" in d.split(os.sep) or "__pycache__" in d:
            continue
        for f in files:
            if f.endswith((".py", ".xml", ".idx", ".txt")):
                p = os.path.join(d, f)
                out[os.path.relpath(p, repo)] = fingerprint_file(p)
    return out


def changed_files(repo, verif, files):
    """the anchored files whose fingerprint differs from the recorded baseline (or that have none)"""
    bp = os.path.join(verif, "tools", "fingerprints.json")
    base = json.load(open(bp)) if os.path.exists(bp) else {}
    out = []
    for f in files:
        p = os.path.join(repo, f)
        cur = fingerprint_file(p) if os.path.exists(p) else "missing"
        if base.get(f) != cur:
            out.append(f)
    return out
