"""Shared by C06 and C07: implementation interpreter for the IPSet register machine (`sets_run`), an independent
interval-set oracle, and history generators."""
import zlib

from harness import gens
from harness.wire import Exn, exn_of

NREG = 4
MAXINT = 2 ** 63 - 1


# ------------------------------------------------------------------ implementation side
def _elem(e):
    import netaddr
    k = e[0]
    if k == "i":
        return e[1]
    if k == "a":
        return netaddr.IPAddress(e[2], e[1])
    if k == "as":
        return str(netaddr.IPAddress(e[2], e[1]))
    if k == "n":
        return netaddr.IPNetwork((e[2], e[3]), version=e[1])
    if k == "s":
        n = netaddr.IPNetwork((e[2], e[3]), version=e[1])
        w = 32 if e[1] == 4 else 128
        # the same network as text: CIDR, address/netmask or (prefix strictly inside 0..width) address/hostmask,
        # chosen from the content
        form = zlib.crc32(repr(e).encode()) % 4
        if form == 1:
            return "%s/%s" % (netaddr.IPAddress(e[2], e[1]), netaddr.IPAddress((1 << w) - (1 << (w - e[3])), e[1]))
        if form == 2 and 0 < e[3] < w:
            return "%s/%s" % (netaddr.IPAddress(e[2], e[1]), netaddr.IPAddress((1 << (w - e[3])) - 1, e[1]))
        return str(n)
    if k == "r":
        return netaddr.IPRange(netaddr.IPAddress(e[2], e[1]), netaddr.IPAddress(e[3], e[1]))
    if k == "g":
        g = netaddr.IPGlob(e[4])
        assert (g.first, g.last) == (e[2], e[3]), "glob text does not denote the generated range"
        return g
    raise KeyError(k)


def _sarg(regs, a):
    k = a[0]
    if k == "none":
        return None
    if k == "set":
        return regs[a[1]]
    if k == "iter":
        objs = [_elem(x) for x in a[1]]
        # the same elements handed over as a list, a tuple, a generator or a one-shot iterator (chosen from the content)
        form = zlib.crc32(repr(a[1]).encode()) % 4
        if form == 1:
            return tuple(objs)
        if form == 2:
            return (o for o in objs)
        if form == 3:
            return iter(objs)
        return objs
    return _elem(a)


def _dump(s):
    return [[n.version, n._value, n._prefixlen] for n in s._cidrs]


def _rng(r):
    return None if r is None else [r.version, r.first, r.last]


def _views_agree(s):
    """the public sorted views, read after EVERY mutating step (so that a view memoised by an earlier read and not dropped by the
    mutator shows): iter_cidrs() and iter_ipranges() must present exactly the stored blocks"""
    stored = sorted(_dump(s))
    shown = [[n.version, n._value, n._prefixlen] for n in s.iter_cidrs()]
    assert shown == stored, "iter_cidrs() %r does not show the stored blocks %r" % (shown[:4], stored[:4])
    if len(stored) <= 64:
        rs = norm([[v] + list(first_last(v, a, p)) for v, a, p in stored])
        got = [_rng(r) for r in s.iter_ipranges()]
        assert got == rs, "iter_ipranges() %r does not show the stored blocks (ranges %r)" % (got[:4], rs[:4])


def impl_sets_run(ops):
    import netaddr
    import pickle
    regs = [netaddr.IPSet() for _ in range(NREG)]
    out = []
    for op in ops:
        name = op[0]
        try:
            if name in ("init", "add", "remove", "update", "clear", "compact", "copy", "pickle",
                        "union", "inter", "diff", "xor"):
                r = op[1]
                err = None
                try:
                    if name == "init":
                        regs[r] = netaddr.IPSet(_sarg(regs, op[2]))
                    elif name == "add":
                        regs[r].add(_elem(op[2]))
                    elif name == "remove":
                        regs[r].remove(_elem(op[2]))
                    elif name == "update":
                        regs[r].update(_sarg(regs, op[2]))
                    elif name == "clear":
                        regs[r].clear()
                    elif name == "compact":
                        regs[r].compact()
                    elif name == "copy":
                        regs[r] = regs[op[2]].copy()
                    elif name == "pickle":
                        regs[r] = pickle.loads(pickle.dumps(regs[r], len(ops) % 6))
                    else:
                        a, b = regs[op[2]], regs[op[3]]
                        before = (_dump(a), _dump(b))
                        if r == op[2] and r != op[3]:
                            # target register = left operand: the augmented spelling  a |= b  (IPSet defines no in-place operators, so
                            # it means a = a | b: a stays an IPSet holding the result, b is unchanged)
                            t = a
                            if name == "union":
                                t |= b
                            elif name == "inter":
                                t &= b
                            elif name == "diff":
                                t -= b
                            else:
                                t ^= b
                            assert isinstance(t, netaddr.IPSet), "augmented operator left %r behind" % (t,)
                            assert _dump(b) == before[1], "augmented operator mutated the right operand"
                            res = t
                        else:
                            import operator as _op          # the operator syntax itself (a | b), not the method behind it
                            res = {"union": _op.or_, "inter": _op.and_, "diff": _op.sub, "xor": _op.xor}[name](a, b)
                            assert (_dump(a), _dump(b)) == before, "operator mutated an operand"
                        regs[r] = res
                except Exception as e:  # noqa
                    err = exn_of(e)
                _views_agree(regs[r])
                out.append([err, _dump(regs[r])])
            elif name == "pop":
                r = op[1]
                try:
                    k = regs[r].pop()
                    _views_agree(regs[r])
                    out.append([None, _dump(regs[r]), [k.version, k._value, k._prefixlen]])
                except AssertionError:
                    raise
                except Exception as e:  # noqa
                    out.append([exn_of(e), _dump(regs[r]), None])
            elif name == "contains":
                x = _elem(op[2])
                out.append([None, x in regs[op[1]]])
            elif name == "cmp":
                a, b = regs[op[1]], regs[op[2]]
                before = (_dump(a), _dump(b))
                try:
                    dj = a.isdisjoint(b)
                except Exception as e:  # noqa
                    dj = exn_of(e)
                res = [a == b, a != b, a < b, a <= b, a > b, a >= b, dj]
                assert a.issubset(b) == res[3] and a.issuperset(b) == res[5]
                assert (_dump(a), _dump(b)) == before, "comparison mutated an operand"
                out.append([None, res])
            elif name == "view":
                s = regs[op[1]]
                cid = [[n.version, n._value, n._prefixlen] for n in s.iter_cidrs()]
                assert repr(s) == "IPSet(%r)" % [str(n) for n in s.iter_cidrs()]
                try:
                    ln = len(s)
                except Exception as e:  # noqa
                    ln = exn_of(e)
                try:
                    cont = s.iscontiguous()
                except Exception as e:  # noqa
                    cont = exn_of(e)
                try:
                    ipr = _rng(s.iprange())
                except Exception as e:  # noqa
                    ipr = exn_of(e)
                rs = [_rng(r) for r in s.iter_ipranges()]
                # iteration order over addresses: first few addresses of the chain
                if s.size <= 300:
                    addrs = [(a.version, int(a)) for a in s]
                    exp = [(c[0], a) for c in cid for a in range(first_last(*c)[0], first_last(*c)[1] + 1)]
                    assert addrs == exp, "iteration does not enumerate the shown blocks in order"
                out.append([None, [cid, s.size, ln, cont, ipr, rs, bool(s)]])
            else:
                out.append(Exn("Unsupported"))
        except AssertionError:
            raise
    return out


# ------------------------------------------------------------------ independent oracle: interval sets
def first_last(ver, v, p):
    w = gens.W[ver]
    h = 1 << (w - p)
    f = v - v % h
    return f, f + h - 1


def norm(ivs):
    res = []
    for ver, lo, hi in sorted(ivs):
        if lo > hi:
            continue
        if res and res[-1][0] == ver and lo <= res[-1][2] + 1:
            res[-1][2] = max(res[-1][2], hi)
        else:
            res.append([ver, lo, hi])
    return res


def combine(a, b, f):
    """pointwise boolean combination of two normalised interval sets"""
    out = []
    for ver in (4, 6):
        pts = set()
        for s in (a, b):
            for v, lo, hi in s:
                if v == ver:
                    pts.add(lo)
                    pts.add(hi + 1)
        pts = sorted(pts)
        for i in range(len(pts) - 1):
            x = pts[i]
            ina = any(v == ver and lo <= x <= hi for v, lo, hi in a)
            inb = any(v == ver and lo <= x <= hi for v, lo, hi in b)
            if f(ina, inb):
                out.append((ver, x, pts[i + 1] - 1))
    return norm(out)


def min_cidrs(ver, lo, hi):
    w = gens.W[ver]
    out = []
    while lo <= hi:
        k = (lo & -lo).bit_length() - 1 if lo else w
        while (1 << k) > hi - lo + 1:
            k -= 1
        out.append([ver, lo, w - k])
        lo += 1 << k
    return out


def canon(den):
    return [c for (ver, lo, hi) in den for c in min_cidrs(ver, lo, hi)]


def den_elem(e):
    k = e[0]
    if k == "i":
        v = e[1]
        if 0 <= v <= 2 ** 32 - 1:
            return [[4, v, v]]
        if v <= 2 ** 128 - 1 and v > 0:
            return [[6, v, v]]
        return None
    if k in ("a", "as"):
        return [[e[1], e[2], e[2]]]
    if k in ("n", "s"):
        f, l = first_last(e[1], e[2], e[3])
        return [[e[1], f, l]]
    if k in ("r", "g"):
        return [[e[1], e[2], e[3]]]


def den_sarg(dens, a):
    k = a[0]
    if k == "none":
        return []
    if k == "set":
        return dens[a[1]]
    if k == "iter":
        out = []
        for x in a[1]:
            d = den_elem(x)
            if d is None:
                return None
            out += d
        return norm(out)
    return den_elem(a)


def size_of(den):
    return sum(hi - lo + 1 for _, lo, hi in den)


def oracle_sets_run(args, res):
    ops = args[0]
    if isinstance(res, Exn):
        return "history runner failed: %s" % res.name
    dens = [[] for _ in range(NREG)]
    for ix, (op, r) in enumerate(zip(ops, res)):
        name = op[0]
        where = "step %d %s" % (ix, name)
        if isinstance(r, Exn):
            return where + ": unsupported"
        if name in ("init", "add", "remove", "update", "clear", "compact", "copy", "pickle", "union", "inter", "diff",
                    "xor", "pop"):
            reg = op[1]
            err = r[0]
            shown = r[1]
            exp = dens[reg]
            valid = True
            if name == "init":
                exp = den_sarg(dens, op[2])
            elif name in ("add",):
                d = den_elem(op[2])
                exp = None if d is None else combine(dens[reg], norm(d), lambda x, y: x or y)
            elif name == "remove":
                d = den_elem(op[2])
                exp = None if d is None else combine(dens[reg], norm(d), lambda x, y: x and not y)
            elif name == "update":
                d = den_sarg(dens, op[2])
                valid = op[2][0] != "none"
                exp = None if d is None else combine(dens[reg], norm(d), lambda x, y: x or y)
            elif name == "clear":
                exp = []
            elif name == "copy":
                exp = dens[op[2]]
            elif name in ("union", "inter", "diff", "xor"):
                f = {"union": lambda x, y: x or y, "inter": lambda x, y: x and y,
                     "diff": lambda x, y: x and not y, "xor": lambda x, y: x != y}[name]
                exp = combine(dens[op[2]], dens[op[3]], f)
            elif name == "pop":
                if not dens[reg]:
                    if err != Exn("KeyError"):
                        return where + ": pop from an empty set must raise KeyError"
                    continue
                if err is not None:
                    return where + ": pop raised %s" % err.name
                popped = r[2]
                if popped not in canon(dens[reg]):
                    return where + ": popped %r is not one of the shown blocks" % (popped,)
                f, l = first_last(*popped)
                exp = combine(dens[reg], [[popped[0], f, l]], lambda x, y: x and not y)
            if exp is None or not valid:
                # invalid argument (e.g. out-of-range int): must raise and leave the set as it was
                if err is None:
                    return where + ": invalid argument accepted"
                exp = dens[reg]
            elif err is not None:
                return where + ": raised %s on a valid argument" % err.name
            # canonical display: the stored keys, sorted, are the unique minimal list of the denoted addresses
            if sorted(shown) != canon(exp):
                return where + ": shown %r is not the canonical list %r of the denoted set" % (sorted(shown)[:6], canon(exp)[:6])
            if len(set(map(tuple, shown))) != len(shown):
                return where + ": duplicate stored key"
            dens[reg] = exp
        elif name == "contains":
            d = norm(den_elem(op[2]))
            exp = combine(d, dens[op[1]], lambda x, y: x and not y) == []
            if r[1] != exp:
                return where + ": membership answered %r, set theory says %r" % (r[1], exp)
        elif name == "cmp":
            a, b = dens[op[1]], dens[op[2]]
            sub = combine(a, b, lambda x, y: x and not y) == []
            sup = combine(b, a, lambda x, y: x and not y) == []
            dj = combine(a, b, lambda x, y: x and y) == []
            exp = [a == b, a != b, sub and a != b, sub, sup and a != b, sup, dj]
            if r[1] != exp:
                return where + ": comparisons %r, set theory says %r" % (r[1], exp)
        elif name == "view":
            d = dens[op[1]]
            sz = size_of(d)
            one = len(d) <= 1
            exp = [canon(d), sz, sz if sz <= MAXINT else Exn("IndexError"), one,
                   (None if not d else d[0]) if one else Exn("ValueError"), d, bool(d)]
            got = r[1]
            if got != exp:
                names = ["iter_cidrs", "size", "len", "iscontiguous", "iprange", "iter_ipranges", "bool"]
                bad = [n for n, x, y in zip(names, got, exp) if x != y]
                return where + ": %s disagree with the denoted address set" % ",".join(bad)
    return None


# ------------------------------------------------------------------ generators
SMALL_ARENAS = [a for a in gens.ARENAS if 0 < gens.W[a[0]] - a[2] <= 8]


def glob_elem(rng):
    """a glob-shaped IPv4 range with its glob text"""
    a, b, c = rng.choice([(10, 0, 0), (255, 255, 255), (0, 0, 0), (192, 168, 1)])
    k = rng.random()
    if k < 0.4:
        x, y = sorted(rng.sample(range(256), 2))
        base = (a << 24) | (b << 16) | (c << 8)
        return ["g", 4, base + x, base + y, "%d.%d.%d.%d-%d" % (a, b, c, x, y)]
    if k < 0.7:
        base = (a << 24) | (b << 16) | (c << 8)
        return ["g", 4, base, base + 255, "%d.%d.%d.*" % (a, b, c)]
    base = (a << 24) | (b << 16)
    return ["g", 4, base, base + 65535, "%d.%d.*.*" % (a, b)]


def coarse_elem(rng, coarse):
    """a coarse block at the bottom or top of a family: adjacent ones are siblings that merge up towards /0.
    coarse = (version, p0): the history works with prefixes p0 and p0+1 so that sibling pairs meet often"""
    ver, p0 = coarse
    if rng.random() < 0.15:
        ver = 10 - ver
    w = gens.W[ver]
    p = min(w, max(1, p0 + rng.choice([0, 0, 0, 1, 1, -1])))
    i = rng.choice([0, 0, 0, 1, 1, 1, 2, 3, 2 ** p - 1, 2 ** p - 2]) % (2 ** p)
    return [rng.choice(["n", "s"]), ver, i << (w - p), p]


def rand_elem(rng, arenas, wide=0.08, coarse=None):
    if coarse is not None and rng.random() < 0.75:
        return coarse_elem(rng, coarse)
    if rng.random() < wide:
        k = rng.random()
        if k < 0.15:
            ver = rng.choice((4, 6))
            return ["n", ver, 0, 0]
        if k < 0.3:
            # coarse blocks next to each other at the bottom / top of a family (siblings that merge up to /0)
            ver = rng.choice((4, 6))
            w = gens.W[ver]
            p = rng.randint(1, 34 if ver == 6 else 8)
            i = rng.choice([0, 1, 2, 3, 2 ** p - 1, 2 ** p - 2]) % (2 ** p)
            return [rng.choice(["n", "s"]), ver, i << (w - p), p]
        if k < 0.5:
            ver, v, p = gens.rand_block(rng)
            return [rng.choice(["n", "s"]), ver, v, p]
        if k < 0.65:
            return glob_elem(rng)
        if k < 0.8:
            ver = rng.choice((4, 6))
            mx = 2 ** gens.W[ver] - 1
            s = rng.choice([0, mx - rng.randrange(5), rng.randrange(mx)])
            return ["r", ver, s, min(mx, s + rng.choice([0, 1, 2, 5, 255, 2 ** 20]))]
        return ["i", rng.choice([0, 1, 2 ** 32 - 1, 2 ** 32, 2 ** 128 - 1, rng.getrandbits(32), rng.getrandbits(128)])]
    ver, base, ap = rng.choice(arenas)
    w = gens.W[ver]
    span = 1 << (w - ap)
    k = rng.random()
    if k < 0.5:
        p = rng.randint(ap, w)
        v = base + rng.randrange(span)
        if rng.random() < 0.6:
            v = v >> (w - p) << (w - p)
        return [rng.choice(["n", "n", "s"]), ver, v, p]
    if k < 0.7:
        v = base + rng.choice([0, span - 1, rng.randrange(span)])
        form = rng.choice(["a", "as", "i"])
        if form == "i":
            if (ver == 4) != (v <= 2 ** 32 - 1):
                form = "a"      # the int form infers the family from the magnitude
            else:
                return ["i", v]
        return [form, ver, v]
    s = base + rng.randrange(span)
    e = min(base + span - 1, s + rng.choice([0, 1, 2, 3, 7, 15, rng.randrange(span)]))
    return ["r", ver, s, e]


def rand_sarg(rng, arenas, coarse=None):
    k = rng.random()
    if k < 0.08:
        return ["none"]
    if k < 0.25:
        return ["set", rng.randrange(NREG)]
    if k < 0.45:
        e = rand_elem(rng, arenas, coarse=coarse)
        while e[0] not in ("n", "r", "g"):
            e = rand_elem(rng, arenas, coarse=coarse)
        return e
    items = [rand_elem(rng, arenas, coarse=coarse) for _ in range(rng.randint(0, 7))]
    if items and rng.random() < 0.12:
        # an element that must be refused (an integer outside both families), after at least one good element: the whole call must
        # raise and leave the set exactly as it was
        items.insert(rng.randint(1, len(items)), ["i", rng.choice([2 ** 128, -1, 2 ** 128 + 5, -(2 ** 32)])])
    return ["iter", items]


def rand_history(rng, n, weights):
    arenas = rng.sample(SMALL_ARENAS, rng.choice([1, 1, 2, 3]))
    coarse = None                                     # a history about coarse blocks of one family
    if rng.random() < 0.15:
        cv = rng.choice((4, 6, 6))
        coarse = (cv, rng.randint(1, 33 if cv == 6 else 7))
    _re = rand_elem

    def rand_elem_(rng_, arenas_, wide=0.08):
        return _re(rng_, arenas_, wide=wide, coarse=coarse)
    ops = []
    names = list(weights)
    wts = [weights[k] for k in names]
    for _ in range(n):
        name = rng.choices(names, wts)[0]
        r = rng.randrange(NREG if rng.random() < 0.5 else 2)
        if name == "init":
            ops.append(["init", r, rand_sarg(rng, arenas, coarse)])
        elif name in ("add", "remove"):
            ops.append([name, r, rand_elem_(rng, arenas)])
        elif name == "update":
            a = rand_sarg(rng, arenas, coarse)
            ops.append(["update", r, a])
        elif name in ("clear", "compact", "pickle", "pop", "view"):
            ops.append([name, r])
        elif name == "copy":
            ops.append(["copy", r, rng.randrange(NREG)])
        elif name in ("union", "inter", "diff", "xor"):
            ops.append([name, r, rng.randrange(NREG), rng.randrange(NREG)])
        elif name == "contains":
            e = rand_elem_(rng, arenas, wide=0.03)
            while e[0] not in ("n", "s", "a", "as"):
                e = rand_elem_(rng, arenas, wide=0.03)
            if e[0] == "s":
                e[0] = "n"
            if e[0] == "as":
                e[0] = "a"
            ops.append(["contains", r, e])
        elif name == "cmp":
            ops.append(["cmp", r, rng.randrange(NREG)])
    return ops


def big_history(rng):
    """A history on sets with hundreds of blocks: register 0 starts with 262 or 300 lone hosts of one /20 (stride 2 or 3: nothing
    merges) plus a few small blocks, register 1 with a shifted copy; then small aligned blocks (/27../31, also as ranges) that hold
    some of those hosts are added and removed, with views, comparisons and operators in between -- a lookup structure, threshold or
    batch size that only matters for sets of this size needs such a history."""
    ver = rng.choice((4, 4, 6))
    w = gens.W[ver]
    base = rng.choice([0, (1 << w) - (1 << 12), rng.getrandbits(w - 12) << 12])
    n = rng.choice([262, 300])      # (the model's view costs n^2 key computations: 4 s at 300)
    stride = rng.choice([2, 3])
    off = rng.randrange(stride)

    def hosts(shift):
        xs = [base + ((off + shift + stride * i) % (1 << 12)) for i in range(n)]
        return [["a", ver, x] if rng.random() < 0.7 else ["n", ver, x, w] for x in sorted(set(xs))]
    ops = [["init", 0, ["iter", hosts(0)]], ["view", 0], ["init", 1, ["iter", hosts(1)[: n // 2]]]]

    def small_block():
        p = rng.randint(w - 5, w - 1)
        v = base + rng.randrange(1 << 12)
        f = v >> (w - p) << (w - p)
        k = rng.random()
        if k < 0.6:
            return [rng.choice(["n", "s"]), ver, rng.choice((f, v)), p]
        return ["r", ver, f, f + (1 << (w - p)) - 1]
    for _ in range(rng.randint(8, 18)):
        k = rng.random()
        r = rng.choice((0, 0, 1))
        if k < 0.35:
            ops.append(["add", r, small_block()])
        elif k < 0.6:
            ops.append(["remove", r, small_block()])
        elif k < 0.66:
            ops.append(["view", r])
        elif k < 0.8:
            ops.append([rng.choice(["inter", "diff", "xor", "union"]), 2, 0, 1])
        elif k < 0.9:
            ops.append(["cmp", rng.choice((0, 1, 2)), rng.choice((0, 1, 2))])
        else:
            e = small_block()
            if e[0] in ("n", "s"):
                ops.append(["contains", r, ["n"] + e[1:]])
    return ops
