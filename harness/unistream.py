"""Text beyond latin-1 (code points > 255) for the STRICT entry points.

The Gallina models read text as 8-bit strings, so their quantifier "for every string" covers code points 0..255 (NEL, NBSP and
the superscript digits included; the correspondence generators use them).  Python text can also hold characters that Python's
own int() / str.isdigit() / str.strip() / `\\d` treat as digits or blanks (Arabic-Indic, Devanagari, fullwidth and mathematical
digits, EM SPACE, IDEOGRAPHIC SPACE, ...) and look-alikes of the separators (fullwidth full stop, colon, hyphen-minus, asterisk,
solidus).  No standard address grammar contains any of them, so wherever a property says "exactly the strings of the grammar"
the prescribed behaviour for a string that contains one is refusal.  This stream substitutes such characters into valid texts
and asks the strict entry points to refuse them in the prescribed way.  It is implementation-only: the model-side command `uni`
answers "no discrepancy" for every argument (Extract/Cmd_Life.v) -- which is what the proved theorems say for every string over
the model's alphabet that is not in the grammar -- and the oracle reports every discrepancy the adapter lists as a concrete
failing input.  Only entry points whose refusal is prescribed are asked; lenient paths (ZEROFILL, prefix lengths and partial
IPv4 forms read with int(), nmap's integers, the integer fallback of EUI()) are deliberately left out.

A case is ("uni", [kind, utf8-bytes-as-latin-1-text]); kinds: ip4 ip6 (C01), glob (C17), bits4 bin4 bits6 (C15), mac (C08).
"""
from harness.wire import Exn

DIGIT_BASES = (0x0660, 0x06F0, 0x0966, 0xFF10, 0x1D7CE, 0x0E50)       # Nd families: int('\\u0661') == 1
LOOKALIKE = {".": "．。․", ":": "：ː꞉", "-": "－‐−–", "*": "＊∗",
             "/": "／∕", "x": "ｘ×", "b": "ｂ"}
SPACES = " 　    \u0085"                  # stripped by str.strip() and by int()
EXTRA = "²¹①ıKſ﻿​"            # isdigit()-only digits, case-folding traps, zero-width


def variants(rng, s, n):
    """n texts derived from the ASCII text s, each containing at least one character above U+00FF (or a latin-1 trap)"""
    out = []
    for _ in range(n):
        cs = list(s)
        k = rng.random()
        pos = [i for i, c in enumerate(cs) if c.isdigit()]
        hexpos = [i for i, c in enumerate(cs) if c in "abcdefABCDEF"]
        seppos = [i for i, c in enumerate(cs) if c in LOOKALIKE]
        if k < 0.45 and pos:
            base = rng.choice(DIGIT_BASES)
            for i in rng.sample(pos, min(len(pos), rng.choice((1, 1, 2, len(pos))))):
                cs[i] = chr(base + int(cs[i]))
        elif k < 0.55 and hexpos:
            i = rng.choice(hexpos)
            cs[i] = chr(0xFF21 + ord(cs[i].upper()) - 65) if rng.random() < 0.5 else chr(0xFF41 + ord(cs[i].lower()) - 97)
        elif k < 0.72 and seppos:
            i = rng.choice(seppos)
            cs[i] = rng.choice(LOOKALIKE[cs[i]])
        elif k < 0.9:
            sp = rng.choice(SPACES)
            w = rng.random()
            if w < 0.4:
                cs = [sp] + cs
            elif w < 0.8:
                cs = cs + [sp]
            else:
                cs.insert(rng.randrange(len(cs) + 1), sp)
        else:
            cs.insert(rng.randrange(len(cs) + 1), rng.choice(EXTRA))
        t = "".join(cs)
        if t != s and not t.isascii():
            out.append(t)
    return out


def _outcome(f):
    try:
        return ("ok", f())
    except Exception as e:  # noqa
        return ("exn", type(e).__name__)


def _refused(bad, what, f, classes):
    kind, val = _outcome(f)
    if kind == "ok":
        bad.append("%s accepted the text and gave %r" % (what, val if isinstance(val, (int, bool, str)) else repr(val)))
    elif val not in classes:
        bad.append("%s raised %s, not %s" % (what, val, "/".join(classes)))


def _false(bad, what, f):
    kind, val = _outcome(f)
    if kind != "ok" or val is not False:
        bad.append("%s answered %r, not False" % (what, val))


def impl_uni(kind, raw):
    import socket
    import netaddr
    from netaddr import fbsocket
    from netaddr.strategy import ipv4, ipv6, eui48
    u = raw.encode("latin-1").decode("utf-8")
    assert not u.isascii()
    bad = []
    P = netaddr.INET_PTON
    if kind in ("ip4", "ip6"):
        for ver in (None, 4, 6):
            _refused(bad, "IPAddress(text, %r, INET_PTON)" % ver, lambda: netaddr.IPAddress(u, ver, P), ("AddrFormatError",))
        _false(bad, "valid_ipv4(text, INET_PTON)", lambda: netaddr.valid_ipv4(u, P))
        _false(bad, "valid_ipv6(text)", lambda: netaddr.valid_ipv6(u))
        _refused(bad, "ipv4.str_to_int(text, INET_PTON)", lambda: ipv4.str_to_int(u, P), ("AddrFormatError",))
        _refused(bad, "ipv6.str_to_int(text)", lambda: ipv6.str_to_int(u), ("AddrFormatError",))
        _refused(bad, "fbsocket.inet_pton(AF_INET, text)", lambda: fbsocket.inet_pton(fbsocket.AF_INET, u), ("ValueError",))
        _refused(bad, "fbsocket.inet_pton(AF_INET6, text)", lambda: fbsocket.inet_pton(fbsocket.AF_INET6, u), ("ValueError",))
        # default mode reads what the platform's inet_aton reads (a blank followed by anything is its documented tail), else IPv6
        exp = _outcome(lambda: int.from_bytes(socket.inet_aton(u), "big"))
        got = _outcome(lambda: (lambda a: (a.version, int(a)))(netaddr.IPAddress(u)))
        if exp[0] == "ok":
            if got != ("ok", (4, exp[1])):
                bad.append("IPAddress(text) gave %r where inet_aton reads %r" % (got, exp[1]))
        elif got != ("exn", "AddrFormatError"):
            bad.append("IPAddress(text) gave %r for a text that neither inet_aton nor RFC 4291 accepts" % (got,))
        _refused(bad, "IPRange(text, text)", lambda: netaddr.IPRange(u, u, P), ("AddrFormatError",))
    elif kind == "glob":
        _false(bad, "valid_glob(text)", lambda: netaddr.valid_glob(u))
        for name in ("glob_to_iprange", "glob_to_iptuple", "glob_to_cidrs", "IPGlob"):
            _refused(bad, "%s(text)" % name, lambda n=name: getattr(netaddr, n)(u), ("AddrFormatError",))
    elif kind in ("bits4", "bits6", "bin4"):
        m = ipv6 if kind == "bits6" else ipv4
        if kind == "bin4":
            _false(bad, "ipv4.valid_bin(text)", lambda: m.valid_bin(u))
            _refused(bad, "ipv4.bin_to_int(text)", lambda: m.bin_to_int(u), ("ValueError",))
        else:
            _false(bad, "%s.valid_bits(text)" % m.__name__, lambda: m.valid_bits(u))
            _refused(bad, "%s.bits_to_int(text)" % m.__name__, lambda: m.bits_to_int(u), ("ValueError",))
    elif kind == "mac":
        _false(bad, "valid_mac(text)", lambda: netaddr.valid_mac(u))
        _refused(bad, "eui48.str_to_int(text)", lambda: eui48.str_to_int(u), ("AddrFormatError",))
        _false(bad, "valid_eui64(text)", lambda: netaddr.valid_eui64(u))
    else:
        raise KeyError(kind)
    return bad


def orc_uni(args, res):
    if isinstance(res, Exn):
        return "the adapter failed: %s" % res.name
    if res:
        return "text with characters beyond latin-1 (%r): %s" % (args[1].encode("latin-1").decode("utf-8"), "; ".join(res[:4]))
    return None


SEEDS = {
    "ip4": ["1.2.3.4", "10.0.0.1", "255.255.255.255", "0.0.0.0", "192.168.100.7", "127.1", "1.2.3", "0x7f.1", "010.1.1.1"],
    "ip6": ["::1", "::", "2001:db8::1", "fe80::a:b:c:d", "1:2:3:4:5:6:7:8", "::ffff:1.2.3.4", "::1.2.3.4", "ff02::fb", "abcd:ef01::"],
    "glob": ["1.2.3.*", "10.0.*.*", "192.168.1.5-9", "*.*.*.*", "1.2.3.4", "10.0.0.0-255"],
    "bits4": ["00000001.00000010.00000011.00000100", "11111111.11111111.11111111.11111111"],
    "bits6": [":".join(["0000000000000001"] * 8)],
    "bin4": ["0b" + "1" * 32, "0b1", "0b" + "01" * 16],
    "mac": ["00-1B-77-49-54-FD", "00:1b:77:49:54:fd", "001b.7749.54fd", "001b77:4954fd", "001B774954FD", "00-1B-77-FF-FE-49-54-FD"],
}


def cases(rng, tier, kinds):
    n = 6 if tier == "quick" else 120
    for kind in kinds:
        for s in SEEDS[kind]:
            for t in variants(rng, s, n):
                yield ("uni", [kind, t.encode("utf-8").decode("latin-1")], "uni_" + kind)


IMPL = {"uni": impl_uni}
ORACLE = {"uni": orc_uni}
