"""Source-tie obligations of CALLEES (DESIGN 5.1b, "callee ties").

A unit of the source translator may call a function of another unit through a prelude SYMBOL that is the callee's hand model
(EXTERN: py_cidr_merge, py_list_subnet, py_net_previous / py_net_next, py_sorted_nets, py_iprange, the string constructors
py_net_of_cidr_text / IPAddress(text) / IPNetwork(text), the strategy modules' str_to_int / int_to_str ...).  The equality
"generated definition = model" of the calling unit then does not mention the callee's source text, so an edit of the callee
would not reach the caller's obligation through the build dependencies.  The callee's own `..._source_tie` theorem closes that
gap, but it is an obligation of ANOTHER property's check.  This table makes it an obligation of the caller's check as well:
property -> theorem files (of other properties) whose statements its own model composition relies on.  Callees that the
generated code reaches through their TRANSLATED definitions need no entry: the caller's proof file imports the callee's
proof file, so the build dependency closure already attributes a broken callee tie to the caller.
"""
TABLES = "Props/C03_tables.v"      # the prefix / mask dictionaries the network parser, NOHOST and the netmask setter look things up in
CALLEE_TIES = {
    "C02": [TABLES, "Props/C03_src.v"],       # "every network": the constructor / parser that builds it
    "C14": [],
    # SubnetSplitter: cidr_merge (py_cidr_merge), list(cidr.subnet(..)) (py_list_subnet); cidr_exclude is reached translated
    "C20": ["Props/C05_src_merge.v", "Props/C11_src_subnet.v"],
    # IPSet mutators: cidr_merge (py_cidr_merge), IPNetwork.previous / next (py_net_previous / py_net_next), sorted() over
    # IPNetwork.__lt__ (py_sorted_nets), the element constructors IPNetwork(x) / IPAddress(int) of the argument forms
    "C06": ["Props/C05_src_merge.v", "Props/C11_src_subnet.v", "Props/C12_src_cmp.v", "Props/C03_src.v", "Props/C14_src_ctor.v"],
    # IPSet queries / sweeps: sorted(), IPRange(start, end) (py_iprange), cidr_merge behind update / union
    "C07": ["Props/C05_src_merge.v", "Props/C12_src_cmp.v", "Props/C12_src_state.v"],
    # matching helpers: sorted() over IPNetwork.__lt__
    "C04": ["Props/C12_src_cmp.v", "Props/C03_src.v", "Props/C01_src_ctor.v"],      # .. and the text fallbacks `IPNetwork(other) in self` / `IPAddress(other) in self`
    # cidr_merge / iprange_to_cidrs / spanning_cidr / cidr_partition: IPNetwork(ip) of each argument (constructor, parser)
    "C05": ["Props/C03_src.v"],
    "C09": ["Props/C03_src.v"],
    "C13": ["Props/C03_src.v"],
    # subnet / next / previous build their result from the text '%s/%d' (py_net_of_cidr_text): parser and printers
    "C11": ["Props/C03_src.v", "Props/C01_src.v"],
    # IPNetwork.ipv4 / ipv6 go through the text constructor as well
    "C16": ["Props/C03_src.v", "Props/C01_src.v"],
    # glob / nmap: IPAddress(text), IPRange(text, text), IPNetwork(text), iteration over a network
    "C17": ["Props/C01_src_ctor.v", "Props/C01_src.v", "Props/C12_src_state.v", "Props/C03_src.v", "Props/C10_src_iter.v"],
    # the network parser: the per-family str_to_int / int_to_str and the IPAddress constructor
    "C03": [TABLES, "Props/C01_src.v", "Props/C01_src_ctor.v", "Props/C14_src_ctor.v"],
    # pickled state / comparisons of objects built by the constructors
    "C12": ["Props/C14_src_ctor.v"],
    # indexing / iteration results are IPAddress(int, version)
    "C10": ["Props/C14_src_ctor.v"],
    # classification: `self in T` through the translated __contains__ (already a build dependency); the table rows are
    # IPNetwork(text) / IPRange(text, text) objects
    "C18": ["Props/C03_src.v", "Props/C12_src_state.v"],
    # EUI.ipv6 / ipv6_link_local build an IPAddress
    "C08": ["Props/C14_src_ctor.v"],
}
for _p, _fs in CALLEE_TIES.items():          # whoever relies on the network parser relies on its tables
    if "Props/C03_src.v" in _fs and TABLES not in _fs:
        _fs.append(TABLES)
