"""Wire format shared by the OCaml driver, the implementation runner and the harness.

tokens: i<hex> | i-<hex> | s<hexbytes> | T | F | N | [ ... ] | !<ExnName>
Python values: int, str, bool, None, list/tuple, Exn(name).
"""


class Exn:
    __slots__ = ("name",)

    def __init__(self, name):
        self.name = name

    def __eq__(self, o):
        return isinstance(o, Exn) and o.name == self.name

    def __hash__(self):
        return hash(("Exn", self.name))

    def __repr__(self):
        return "Exn(%s)" % self.name


KNOWN_EXN = {
    "AddrFormatError", "AddrConversionError", "ValueError", "TypeError", "IndexError", "KeyError",
    "NotRegisteredError", "AttributeError", "OverflowError",
}


def exn_of(e):
    """Map a Python exception instance to the model's enum (by class name)."""
    n = type(e).__name__
    if n == "error" and type(e).__module__ in ("struct", "_struct"):
        n = "StructError"
    if n in KNOWN_EXN or n == "StructError":
        return Exn(n)
    return Exn("Other_" + n)


def enc(v, out=None):
    top = out is None
    if top:
        out = []
    if v is True:
        out.append("T")
    elif v is False:
        out.append("F")
    elif v is None:
        out.append("N")
    elif isinstance(v, int):
        out.append("i%x" % v if v >= 0 else "i-%x" % (-v))
    elif isinstance(v, str):
        out.append("s" + v.encode("latin-1").hex())
    elif isinstance(v, (bytes, bytearray)):
        out.append("s" + bytes(v).hex())
    elif isinstance(v, (list, tuple)):
        out.append("[")
        for x in v:
            enc(x, out)
        out.append("]")
    elif isinstance(v, Exn):
        out.append("!" + v.name)
    else:
        raise TypeError("cannot encode %r" % (v,))
    if top:
        return " ".join(out)


def enc_args(args):
    out = []
    for a in args:
        enc(a, out)
    return " ".join(out)


def dec(s):
    toks = s.split()
    vals, rest = _dec(toks, 0)
    if len(vals) != 1:
        raise ValueError("expected one value: %r" % s)
    return vals[0]


def _dec(toks, i):
    vals = []
    while i < len(toks):
        t = toks[i]
        if t == "]":
            return vals, i + 1
        if t == "[":
            inner, i = _dec(toks, i + 1)
            vals.append(inner)
            continue
        c = t[0]
        if c == "i":
            vals.append(int(t[1:], 16))
        elif c == "s":
            vals.append(bytes.fromhex(t[1:]).decode("latin-1"))
        elif c == "T":
            vals.append(True)
        elif c == "F":
            vals.append(False)
        elif c == "N":
            vals.append(None)
        elif c == "!":
            vals.append(Exn(t[1:]))
        else:
            raise ValueError("bad token %r" % t)
        i += 1
    return vals, i


def norm(v):
    """Canonical comparable form (tuples -> lists)."""
    if isinstance(v, (list, tuple)):
        return [norm(x) for x in v]
    return v


def to_jsonable(v):
    if isinstance(v, Exn):
        return "!" + v.name
    if isinstance(v, (list, tuple)):
        return [to_jsonable(x) for x in v]
    if isinstance(v, int) and not isinstance(v, bool) and abs(v) > 2 ** 53:
        return hex(v)
    return v
