"""Validation of coq/Base/PyStr.v against CPython: cases + IMPL entries, merged into every property module that
relies on the string prelude (`from harness import pystr_cases; IMPL.update(pystr_cases.IMPL)`)."""
import itertools

ALPHA = [" ", "\t", "\x1c", "+", "-", "_", "0", "1", "9", "a", "f", "x", "X", "b", "B", "g", "\0", "\n", "7", ".", "\x85", "\xa0"]


def _int(s, base):
    return int(s, base)


def _fmt(kind, *a):
    if kind == "d":
        return "%d" % a[0]
    if kind == "x":
        return "%x" % a[0]
    if kind == "X":
        return "%X" % a[0]
    k, n = a
    if kind == "xpad":
        return "%.*x" % (k, n)
    if kind == "Xpad":
        return "%.*X" % (k, n)
    if kind == "dpad":
        return "%0*d" % (k, n)
    if kind == "bpad":
        return bin(n)[2:].zfill(k)
    raise KeyError(kind)


IMPL = {
    "pystr_int": _int,
    "pystr_fmt": _fmt,
    "pystr_split": lambda s, sep: s.split(sep),
    "pystr_split1": lambda s, sep: s.split(sep, 1),
    "pystr_join": lambda sep, l: sep.join(l),
    "pystr_strip": lambda s: s.strip(),
    "pystr_lower": lambda s: s.lower(),
    "pystr_replace": lambda s, old, new: s.replace(old, new),
    "pystr_startswith": lambda s, p: s.startswith(p),
    "pystr_contains": lambda s, c: c in s,
    "pystr_count": lambda s, c: s.count(c),
}

EXACT = tuple(IMPL)


def cases(rng, tier):
    maxlen = 3 if tier == "quick" else 4
    alpha = ALPHA if tier != "quick" else ALPHA[:17]
    for n in range(0, maxlen + 1):
        for t in itertools.product(alpha, repeat=n):
            s = "".join(t)
            if n == maxlen and tier == "quick" and rng.random() > 0.35:
                continue
            for base in (10, 16, 2):
                yield ("pystr_int", [s, base], "pystr_int")
    # longer structured numerals
    for _ in range(600 if tier == "quick" else 20000):
        base = rng.choice((10, 16, 2))
        digs = "0123456789abcdefABCDEF"[: {10: 10, 16: 22, 2: 2}[base]]
        body = "".join(rng.choice(digs + ("_" if rng.random() < 0.3 else "")) for _ in range(rng.randint(1, 40)))
        pre = rng.choice(["", "", "", "0x", "0X", "0b", "0B", "0x_", "0o"])
        s = rng.choice(["", "", " ", "\t", "\x1f"]) + rng.choice(["", "", "+", "-", "+ ", "--"]) + pre + body + \
            rng.choice(["", "", " ", "\n", " x", "_"])
        yield ("pystr_int", [s, base], "pystr_int_long")
    vals = [0, 1, 9, 10, 15, 16, 255, 256, 4095, 65535, 65536, 2 ** 32 - 1, 2 ** 32, 2 ** 64, 2 ** 128 - 1, 2 ** 128,
            10 ** 20, 10 ** 38, -1, -255, -2 ** 32]
    vals += [rng.getrandbits(rng.randint(1, 130)) for _ in range(200 if tier == "quick" else 5000)]
    for v in vals:
        for k in ("d", "x", "X"):
            yield ("pystr_fmt", [k, v], "pystr_fmt")
        if v >= 0:
            for k in ("xpad", "Xpad", "dpad", "bpad"):
                for w in (0, 1, 2, 4, 8, 12, 16, 32, 128):
                    yield ("pystr_fmt", [k, w, v], "pystr_fmt")
    salpha = "ab.:/-0 "
    for n in range(0, 5 if tier == "quick" else 6):
        for t in itertools.product(salpha[:5], repeat=n):
            s = "".join(t)
            for sep in (".", ":"):
                yield ("pystr_split", [s, sep], "pystr_split")
                yield ("pystr_split1", [s, sep], "pystr_split")
            yield ("pystr_count", [s, "."], "pystr_misc")
            yield ("pystr_contains", [s, ":"], "pystr_misc")
    for _ in range(500 if tier == "quick" else 10000):
        s = "".join(rng.choice(" \t\n\x1c\x85\xa0AbC0b.:") for _ in range(rng.randint(0, 12)))
        yield ("pystr_strip", [s], "pystr_misc")
        yield ("pystr_lower", [s], "pystr_misc")
        yield ("pystr_replace", [s, rng.choice(["0b", ".", "bC", " "]), rng.choice(["", "x", "0b0b"])], "pystr_misc")
        yield ("pystr_startswith", [s, rng.choice(["", " ", "0b", "Ab", s[:2]])], "pystr_misc")
        toks = [("".join(rng.choice("ab0") for _ in range(rng.randint(0, 3)))) for _ in range(rng.randint(0, 5))]
        yield ("pystr_join", [rng.choice([".", ":", "", "::"]), toks], "pystr_misc")
