"""Generic check orchestration: build proofs, run correspondence, classify, write evidence.

A property module `harness/props/cxx.py` provides:
  PROP          "Cxx"
  THEOREM_FILE  "Props/Cxx.v"
  cases(rng, tier) -> iterable of (cmd, args[, tag])    generated cases (every random choice from rng)
  IMPL          {cmd: callable(*args) -> wire value}     implementation adapters (run in a subprocess)
  ORACLE        {cmd: callable(args, impl_result) -> None | message}   the property evaluated on the
                implementation's own output (optional per cmd)
  BACKENDS      optional list of implementation configurations, default [None]
  TRUSTED       optional list of extra trusted-base strings
  RULE          text describing generation and the non-triviality rule
"""
import fcntl
import hashlib
import importlib
import json
import os
import random
import re
import shutil
import subprocess
import sys
import tempfile
import time
from concurrent.futures import ThreadPoolExecutor

from . import wire

VERIF = os.path.dirname(os.path.dirname(os.path.abspath(__file__)))
COQ = os.path.join(VERIF, "coq")
OCAML = os.path.join(VERIF, "ocaml")
REPO = os.environ.get("NV_REPO", "/repo")
PY = "/venv/bin/python"
NCPU = 16

ALLOWED_AXIOMS = {
    # axioms declared by the standard library itself; none is currently used, list kept explicit
    "Coq.Logic.FunctionalExtensionality.functional_extensionality_dep",
    "functional_extensionality_dep",
    "Coq.Logic.Classical_Prop.classic", "classic",
    "Coq.Logic.ProofIrrelevance.proof_irrelevance", "proof_irrelevance",
    "Coq.Logic.Eqdep.Eq_rect_eq.eq_rect_eq", "eq_rect_eq", "Eqdep.Eq_rect_eq.eq_rect_eq",
    "JMeq_eq", "Coq.Logic.JMeq.JMeq_eq",
}

BASE_TRUSTED = [
    "Coq 8.16.1 kernel (coqc), including the vm_compute bytecode VM; no native_compute",
    "hand-written Gallina models of the anchored netaddr functions (coq/Model/*.v), tied to /repo by the "
    "correspondence run of this check (function-granular differential execution on generated inputs)",
    "extraction: ExtrOcamlBasic + ExtrOcamlString only (bool/option/list/prod/unit/sumbool/ascii/string "
    "to OCaml natives); Z, N, positive, nat stay extracted inductives; no Extract Constant / Extract Inductive "
    "of our own; ocamlfind ocamlopt 4.13.1",
    "ocaml/driver.ml line protocol (hex integers, hex-encoded strings) and harness/wire.py",
    "harness generators, implementation adapters (harness/props/*.py), exception-class mapping by name",
    "CPython 3.12.1 running /repo with PYTHONPATH=/repo",
]


def sh(cmd, cwd=None, timeout=3600, env=None):
    p = subprocess.run(cmd, cwd=cwd, stdout=subprocess.PIPE, stderr=subprocess.STDOUT, timeout=timeout,
                       env=env, shell=isinstance(cmd, str))
    return p.returncode, p.stdout.decode("utf-8", "replace")


class Lock:
    def __init__(self, path):
        self.path = path

    def __enter__(self):
        self.f = open(self.path, "w")
        fcntl.flock(self.f, fcntl.LOCK_EX)

    def __exit__(self, *a):
        fcntl.flock(self.f, fcntl.LOCK_UN)
        self.f.close()


# ------------------------------------------------------------------ build

def write_coqproject():
    files = []
    for d in ("Base", "Model", "Gen", "Proofs", "Spec", "History", "Props", "Extract"):
        p = os.path.join(COQ, d)
        if os.path.isdir(p):
            for f in sorted(os.listdir(p)):
                if f.endswith(".v"):
                    files.append("%s/%s" % (d, f))
    text = "-Q . NV\n-arg -w -arg -notation-overridden,-deprecated-hint-without-locality,-deprecated-instance-without-locality\n" + "\n".join(files) + "\n"
    path = os.path.join(COQ, "_CoqProject")
    old = open(path).read() if os.path.exists(path) else None
    if old != text:
        with open(path, "w") as f:
            f.write(text)
        return True
    return False


def parse_deps():
    """{target.vo: set(direct .vo deps)} from coq_makefile's dependency file."""
    deps = {}
    p = os.path.join(COQ, ".Makefile.d")
    if not os.path.exists(p):
        return deps
    for line in open(p):
        if ":" not in line:
            continue
        lhs, rhs = line.split(":", 1)
        tgts = [t for t in lhs.split() if t.endswith(".vo")]
        ds = set(t for t in rhs.split() if t.endswith(".vo"))
        for t in tgts:
            deps.setdefault(t, set()).update(ds)
    return deps


def closure(target, deps):
    seen, todo = set(), [target]
    while todo:
        t = todo.pop()
        if t in seen:
            continue
        seen.add(t)
        todo.extend(deps.get(t, ()))
    return seen


def enclosing_statement(vfile, line):
    """Name of the Lemma/Theorem/... that contains `line` of `vfile`."""
    try:
        lines = open(os.path.join(COQ, vfile)).read().split("\n")
    except OSError:
        return None
    pat = re.compile(r"^\s*(?:Local\s+|Global\s+)?(Theorem|Lemma|Corollary|Example|Fact|Proposition|Definition|Fixpoint|Remark)\s+([A-Za-z0-9_']+)")
    for i in range(min(line, len(lines)) - 1, -1, -1):
        m = pat.match(lines[i])
        if m:
            return m.group(2)
    return None


def build(prop_file, gen=True):
    """Regenerate tables, rebuild the Coq development and the driver.  Returns a status dict."""
    t0 = time.time()
    st = {"errors": [], "obligations": [], "discharged": [], "assumptions": {}, "gen": {}}
    with Lock(os.path.join(VERIF, ".build.lock")):
        if gen:
            try:
                from . import gen_tables
                st["gen"] = gen_tables.main()
            except Exception as e:  # fail closed: a table that cannot be regenerated is a failed obligation
                st["errors"].append({"kind": "gen_tables", "error": "%s: %s" % (type(e).__name__, e)})
        changed = write_coqproject()
        if changed or not os.path.exists(os.path.join(COQ, "Makefile")):
            rc, out = sh("coq_makefile -f _CoqProject -o Makefile", cwd=COQ)
            if rc != 0:
                st["errors"].append({"kind": "coq_makefile", "error": out[-2000:]})
        rc, out = sh("timeout 3000 make -k -j%d 2>&1" % NCPU, cwd=COQ, timeout=3100)
        st["make_rc"] = rc
        st["make_log_tail"] = out[-3000:]
        failed = []
        for m in re.finditer(r'File "\./([^"]+)", line (\d+), characters [^\n]*\n((?:.|\n)*?)(?=\nmake|\nFile |\Z)', out):
            if "Error" in m.group(3):
                failed.append({"file": m.group(1), "line": int(m.group(2)),
                               "statement": enclosing_statement(m.group(1), int(m.group(2))),
                               "error": m.group(3).strip()[:1500]})
        st["failed_files"] = failed
        deps = parse_deps()
        tgt = prop_file.replace(".v", ".vo")
        clo = closure(tgt, deps)
        st["closure"] = sorted(clo)
        # is the property file up to date after the build?
        rcq, _ = sh("make -q %s" % tgt, cwd=COQ)
        st["props_up_to_date"] = (rcq == 0)
        st["relevant_failures"] = [f for f in failed if f["file"].replace(".v", ".vo") in clo]
        # theorem names and their Print Assumptions
        src = open(os.path.join(COQ, prop_file)).read()
        thms = re.findall(r"^\s*Theorem\s+([A-Za-z0-9_']+)", src, re.M)
        st["obligations"] = thms
        if st["props_up_to_date"]:
            rc2, out2 = sh("timeout 600 coqc -Q . NV %s" % prop_file, cwd=COQ, timeout=700)
            if rc2 != 0:
                st["errors"].append({"kind": "coqc", "file": prop_file, "error": out2[-2000:]})
            else:
                order = re.findall(r"^\s*Print Assumptions\s+([A-Za-z0-9_'.]+)\.", src, re.M)
                blocks = re.split(r"(?m)^(?=Closed under the global context|Axioms:)", out2)
                blocks = [b for b in blocks if b.startswith("Closed under") or b.startswith("Axioms:")]
                for name, blk in zip(order, blocks):
                    st["assumptions"][name] = blk.strip()
                for t in thms:
                    a = st["assumptions"].get(t)
                    if a is None:
                        st["errors"].append({"kind": "no_print_assumptions", "theorem": t})
                        continue
                    if a.startswith("Closed under"):
                        st["discharged"].append(t)
                    else:
                        names = re.findall(r"^([A-Za-z0-9_'.]+)\s*:", a, re.M)
                        bad = [n for n in names if n not in ALLOWED_AXIOMS]
                        if bad:
                            st["errors"].append({"kind": "axiom", "theorem": t, "axioms": bad})
                        else:
                            st["discharged"].append(t)
        # extraction + driver
        rce, _ = sh("make -q Extract/Extract.vo", cwd=COQ)
        st["extract_ok"] = (rce == 0) and os.path.exists(os.path.join(COQ, "model.ml"))
        if st["extract_ok"]:
            src_ml = os.path.join(COQ, "model.ml")
            dst_ml = os.path.join(OCAML, "model.ml")
            drv = os.path.join(OCAML, "driver")
            same = os.path.exists(dst_ml) and open(src_ml, "rb").read() == open(dst_ml, "rb").read()
            newer = os.path.exists(drv) and os.path.getmtime(drv) >= os.path.getmtime(os.path.join(OCAML, "driver.ml"))
            if not (same and newer):
                shutil.copy(src_ml, dst_ml)
                shutil.copy(os.path.join(COQ, "model.mli"), os.path.join(OCAML, "model.mli"))
                rc3, out3 = sh("ocamlfind ocamlopt -w -a -package str model.mli model.ml driver.ml -o driver.new && mv driver.new driver",
                               cwd=OCAML, timeout=600)
                if rc3 != 0:
                    st["errors"].append({"kind": "driver_build", "error": out3[-2000:]})
                    st["extract_ok"] = False
        else:
            st["errors"].append({"kind": "extraction", "error": "Extract/Extract.vo not up to date after make"})
    st["build_s"] = round(time.time() - t0, 2)
    return st


# ------------------------------------------------------------------ running cases

def chunks(lst, n):
    n = max(1, min(n, len(lst)))
    k, r = divmod(len(lst), n)
    out, i = [], 0
    for j in range(n):
        sz = k + (1 if j < r else 0)
        out.append(lst[i:i + sz])
        i += sz
    return out


def run_model(lines, tmp):
    """lines: list of 'cmd args' wire lines -> list of output wire lines."""
    if not lines:
        return []
    drv = os.path.join(OCAML, "driver")
    parts = chunks(lines, NCPU)

    def one(ix):
        fin = os.path.join(tmp, "m%d.in" % ix)
        with open(fin, "w") as f:
            f.write("\n".join(parts[ix]) + "\n")
        with open(fin) as f:
            p = subprocess.run(["/bin/sh", "-c", "ulimit -s unlimited 2>/dev/null; exec %s" % drv], stdin=f,
                               stdout=subprocess.PIPE, stderr=subprocess.PIPE, timeout=3000)
        out = p.stdout.decode().split("\n")
        if out and out[-1] == "":
            out.pop()
        if len(out) != len(parts[ix]):
            out = out + ["!DriverCrash"] * (len(parts[ix]) - len(out))
        return out

    with ThreadPoolExecutor(NCPU) as ex:
        res = list(ex.map(one, range(len(parts))))
    return [x for r in res for x in r]


def run_impl(prop, lines, tmp, backend=None, timeout=900):
    """-> list of (wire result line, oracle msg)."""
    if not lines:
        return []
    parts = chunks(lines, NCPU)
    env = dict(os.environ)
    env.update({"PYTHONPATH": REPO + os.pathsep + VERIF, "PYTHONHASHSEED": "0", "PYTHONDONTWRITEBYTECODE": "1",
                "NV_REPO": REPO})
    env.pop("NV_BACKEND", None)
    if backend:
        env["NV_BACKEND"] = backend

    def one(ix):
        fin = os.path.join(tmp, "i%d.in" % ix)
        fout = os.path.join(tmp, "i%d.out" % ix)
        with open(fin, "w") as f:
            f.write("\n".join(parts[ix]) + "\n")
        note = ""
        try:
            p = subprocess.run([PY, "-B", "-m", "harness.implrun", prop, fin, fout], cwd=VERIF, env=env,
                               stdout=subprocess.PIPE, stderr=subprocess.PIPE, timeout=timeout)
            if p.returncode != 0:
                note = "ImplCrash rc=%d %s" % (p.returncode, p.stderr.decode("utf-8", "replace")[-300:].replace("\n", " "))
        except subprocess.TimeoutExpired:
            note = "ImplTimeout after %ds" % timeout
        out = []
        if os.path.exists(fout):
            for ln in open(fout).read().split("\n")[:-1]:
                a, _, b = ln.partition("\t")
                out.append((a, b))
        while len(out) < len(parts[ix]):
            out.append(("!Other_" + (note.split()[0] if note else "ImplNoOutput"), note))
        return out

    with ThreadPoolExecutor(NCPU) as ex:
        res = list(ex.map(one, range(len(parts))))
    return [x for r in res for x in r]


# ------------------------------------------------------------------ known findings

def load_known():
    p = os.path.join(VERIF, "known_findings.json")
    if not os.path.exists(p):
        return []
    return json.load(open(p)).get("findings", [])


def match_known(known, prop, cmd, args, impl, model):
    for k in known:
        if k.get("status") != "known" or k.get("property") != prop:
            continue
        m = k.get("match", {})
        if m.get("cmd") not in (None, cmd):
            continue
        expr = m.get("where", "True")
        try:
            if eval(expr, {"__builtins__": {"len": len, "isinstance": isinstance, "int": int, "str": str, "list": list,
                                            "any": any, "all": all, "abs": abs, "min": min, "max": max}},
                    {"cmd": cmd, "args": args, "impl": impl, "model": model}):
                return k
        except Exception:
            continue
    return None


# ------------------------------------------------------------------ main

def load_corpus(prop):
    d = os.path.join(VERIF, "corpus", prop)
    out = []
    if os.path.isdir(d):
        for f in sorted(os.listdir(d)):
            if f.endswith(".wire"):
                for ln in open(os.path.join(d, f)):
                    ln = ln.strip()
                    if ln and not ln.startswith("#"):
                        out.append(ln)
    return out


def write_replay(prop, obj):
    d = os.path.join(VERIF, "replays")
    os.makedirs(d, exist_ok=True)
    h = hashlib.sha1(json.dumps(obj, sort_keys=True, default=str).encode()).hexdigest()[:10]
    p = os.path.join(d, "%s_%s.json" % (prop, h))
    with open(p, "w") as f:
        json.dump(obj, f, indent=1, default=str)
    return p


def main(argv=None):
    argv = list(sys.argv[1:] if argv is None else argv)
    prop = argv[0]
    tier = os.environ.get("VERIF_TIER", "quick")
    replay = None
    i = 1
    while i < len(argv):
        if argv[i] == "--tier":
            tier = argv[i + 1]; i += 2
        elif argv[i] == "--replay":
            replay = argv[i + 1]; i += 2
        else:
            i += 1
    seed = int(os.environ.get("VERIF_SEED", "20261001"))
    t0 = time.time()
    mod = importlib.import_module("harness.props." + prop.lower())
    prop_file = getattr(mod, "THEOREM_FILE", "Props/%s.v" % prop)
    backends = getattr(mod, "BACKENDS", [None])
    known = load_known()
    violations = []   # (replay_path, suffix)
    known_lines = []

    st = build(prop_file)

    # ---- cases
    rng = random.Random(seed)
    if replay:
        rp = json.load(open(replay))
        case_lines = [rp["wire"]] if rp.get("wire") else []
        tags = ["replay"] * len(case_lines)
        ncorpus = 0
    else:
        corpus = load_corpus(prop)
        ncorpus = len(corpus)
        gen = []
        tags = ["corpus"] * ncorpus
        seen = set(corpus)
        for c in mod.cases(rng, tier):
            cmd, args = c[0], c[1]
            tag = c[2] if len(c) > 2 else cmd
            ln = (cmd + " " + wire.enc_args(args)).strip()
            if ln in seen:
                continue
            seen.add(ln)
            gen.append(ln)
            tags.append(tag)
        case_lines = corpus + gen

    tmp = tempfile.mkdtemp(prefix="nv_%s_" % prop)
    disagreements = []
    oracle_fail = []
    dist = {}
    exn_classes = {}
    nontrivial = 0
    try:
        model_out = run_model(case_lines, tmp) if st.get("extract_ok") else ["!NoDriver"] * len(case_lines)
        per_backend = {}
        for be in backends:
            per_backend[be] = run_impl(prop, case_lines, tmp, backend=be,
                                       timeout=900 if tier == "quick" else 3000)
    finally:
        shutil.rmtree(tmp, ignore_errors=True)

    for ix, ln in enumerate(case_lines):
        cmd = ln.split(" ", 1)[0]
        dist[tags[ix]] = dist.get(tags[ix], 0) + 1
        m = model_out[ix]
        if m.startswith("!"):
            exn_classes[m] = exn_classes.get(m, 0) + 1
        if m not in ("!Unsupported", "!NoDriver", "!OutOfFuel", "!DriverCrash"):
            nontrivial += 1
        for be in backends:
            io, msg = per_backend[be][ix]
            if msg:
                oracle_fail.append((ix, be, msg))
            if io != m:
                disagreements.append((ix, be))

    def describe(ix, be):
        ln = case_lines[ix]
        cmd, _, rest = ln.partition(" ")
        args = wire._dec(rest.split(), 0)[0]
        io, msg = per_backend[be][ix]
        try:
            iv = wire.dec(io)
        except Exception:
            iv = io
        try:
            mv = wire.dec(model_out[ix])
        except Exception:
            mv = model_out[ix]
        return cmd, args, iv, mv, msg

    reported = set()
    # 1. property oracle failures on implementation output: concrete failing inputs
    for ix, be, msg in oracle_fail:
        cmd, args, iv, mv, _ = describe(ix, be)
        k = match_known(known, prop, cmd, args, iv, mv)
        if k:
            line = "KNOWN-FINDING: property=%s %s" % (prop, k.get("what", k.get("id")))
            if line not in known_lines:
                known_lines.append(line)
            reported.add((ix, be))
            continue
        if len(violations) < 5:
            rp = write_replay(prop, {"property": prop, "kind": "failing-input", "seed": seed, "backend": be,
                                     "wire": case_lines[ix], "cmd": cmd, "args": wire.to_jsonable(args),
                                     "impl": wire.to_jsonable(iv), "model": wire.to_jsonable(mv), "oracle": msg})
            violations.append((rp, ""))
        reported.add((ix, be))
    # 2. disagreements model/implementation not already explained by an oracle failure
    unexplained = [(ix, be) for (ix, be) in disagreements if (ix, be) not in reported]
    n_unexpl_reported = 0
    for ix, be in unexplained:
        cmd, args, iv, mv, msg = describe(ix, be)
        k = match_known(known, prop, cmd, args, iv, mv)
        if k:
            line = "KNOWN-FINDING: property=%s %s" % (prop, k.get("what", k.get("id")))
            if line not in known_lines:
                known_lines.append(line)
            continue
        exact = cmd in getattr(mod, "EXACT", ())
        if n_unexpl_reported < 3:
            rp = write_replay(prop, {"property": prop, "kind": "failing-input" if exact else "correspondence",
                                     "seed": seed, "backend": be, "wire": case_lines[ix], "cmd": cmd,
                                     "args": wire.to_jsonable(args), "impl": wire.to_jsonable(iv),
                                     "model": wire.to_jsonable(mv),
                                     "note": ("the model's answer is proved to be the only one the property allows "
                                              "(theorem in %s); the implementation differs at this input" % prop_file)
                                     if exact else
                                     ("correspondence model/implementation broken for %s at this input; the property "
                                      "oracle found no failing input among %d evaluated cases" % (cmd, len(case_lines)))})
            violations.append((rp, "" if exact else " no-failing-input-found"))
            n_unexpl_reported += 1
    # 3. proof obligations
    proof_broken = []
    if not st["props_up_to_date"] or st["errors"] or len(st["discharged"]) != len(st["obligations"]):
        proof_broken = st["relevant_failures"] or st["errors"] or [{"kind": "unknown", "log": st.get("make_log_tail", "")[-1500:]}]
        if not violations:
            # a broken proof with no failing input found by the correspondence/oracles above
            rp = write_replay(prop, {"property": prop, "kind": "proof", "seed": seed,
                                     "no_longer_checks": proof_broken,
                                     "note": "theorem or generated-table lemma no longer checks; searched %d cases on the "
                                             "implementation and the model without finding a failing input" % len(case_lines)})
            violations.append((rp, " no-failing-input-found"))

    wall = time.time() - t0
    # ---- evidence
    samples = []
    step = max(1, len(case_lines) // 6)
    for ix in range(0, len(case_lines), step):
        if len(samples) >= 8:
            break
        be = backends[0]
        cmd, args, iv, mv, _ = describe(ix, be)
        samples.append({"cmd": cmd, "args": wire.to_jsonable(args), "impl": wire.to_jsonable(iv),
                        "model": wire.to_jsonable(mv)})
    for t in st["obligations"][:40]:
        samples.append({"obligation": t, "print_assumptions": st["assumptions"].get(t, "NOT CHECKED")})
    ev = {
        "property_id": prop, "tier": tier if tier in ("quick", "thorough") else "quick", "seed": seed, "level": "proof",
        "coverage": {
            "obligations": max(1, len(st["obligations"])),
            "discharged": len(st["discharged"]),
            "checker_cmd": "cd /verif/coq && make -k -j16 && coqc -Q . NV %s   (full .vo build; Print Assumptions captured per theorem)" % prop_file,
            "trusted_base": BASE_TRUSTED + list(getattr(mod, "TRUSTED", [])),
            "theorems": st["obligations"],
            "print_assumptions": st["assumptions"],
            "proof_files_in_closure": st.get("closure", []),
            "evaluations": len(case_lines) * len(backends),
            "distinct_nontrivial": nontrivial,
            "rule": getattr(mod, "RULE", "") + " | distinct = distinct wire lines (cmd + arguments); non-trivial = the model "
                    "returned a value or a modelled exception (not Unsupported/OutOfFuel)",
            "samples": samples,
            "corpus_cases": ncorpus,
            "case_distribution": dist,
            "model_exception_classes": exn_classes,
            "backends": [b or "platform" for b in backends],
            "disagreements": len(disagreements),
            "oracle_failures": len(oracle_fail),
            "generated_tables": st.get("gen", {}),
            "build_s": st.get("build_s"),
            "exhaustive": False,
        },
        "assumptions": list(getattr(mod, "ASSUMPTIONS", [])),
        "wall_s": round(wall, 2),
        "violations": len(violations),
    }
    os.makedirs(os.path.join(VERIF, "evidence"), exist_ok=True)
    with open(os.path.join(VERIF, "evidence", "%s.json" % prop), "w") as f:
        json.dump(ev, f, indent=1, default=str)

    for ln in known_lines:
        print(ln)
    print("check %s tier=%s seed=%d: %d cases x %d backend(s), %d/%d obligations discharged, %d disagreements, "
          "%d oracle failures, %.1fs" % (prop, tier, seed, len(case_lines), len(backends), len(st["discharged"]),
                                         len(st["obligations"]), len(disagreements), len(oracle_fail), wall))
    if violations:
        for rp, suffix in violations:
            print("VIOLATION property=%s replay=%s%s" % (prop, rp, suffix))
        return 1
    return 0


if __name__ == "__main__":
    sys.exit(main())
