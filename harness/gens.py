"""Shared boundary-biased generators.  Every random choice comes from the rng passed in."""

W = {4: 32, 6: 128}


def maxint(ver):
    return 2 ** W[ver] - 1


def boundary_values(ver):
    w = W[ver]
    s = {0, 1, 2, maxint(ver), maxint(ver) - 1}
    for k in range(w + 1):
        for d in (-1, 0, 1):
            v = 2 ** k + d
            if 0 <= v <= maxint(ver):
                s.add(v)
            v = maxint(ver) - 2 ** k + d
            if 0 <= v <= maxint(ver):
                s.add(v)
    if ver == 6:
        # the IPv4-compatible and IPv4-mapped blocks and the integers that also fit IPv4
        for b in (0, 0xffff00000000, 0xfffe00000000, 0x1000000000000):
            for d in (-1, 0, 1, 0x01020304, 0xffffffff, 0x100000000):
                if 0 <= b + d <= maxint(6):
                    s.add(b + d)
    return sorted(s)


def rand_value(rng, ver):
    w = W[ver]
    r = rng.random()
    if r < 0.35:
        return rng.getrandbits(w)
    if r < 0.6:  # sparse bits
        v = 0
        for _ in range(rng.randint(1, 4)):
            v |= 1 << rng.randrange(w)
        return v
    if r < 0.8:  # dense bits
        v = maxint(ver)
        for _ in range(rng.randint(1, 4)):
            v &= ~(1 << rng.randrange(w))
        return v
    # aligned block +- small
    k = rng.randrange(w + 1)
    v = (rng.getrandbits(w) >> k << k) + rng.choice((-1, 0, 1, 2 ** k - 1 if k else 0))
    return max(0, min(maxint(ver), v))


def values(rng, ver, n_random, cap_boundary=None):
    b = boundary_values(ver)
    if cap_boundary is not None and len(b) > cap_boundary:
        keep = set(b[:8] + b[-8:])
        keep.update(rng.sample(b, cap_boundary - 16))
        b = sorted(keep)
    return b + [rand_value(rng, ver) for _ in range(n_random)]


# arenas: small sub-universes (ver, base, prefix) where nesting/adjacency happen constantly
ARENAS = [
    (4, 0, 26), (4, 2 ** 32 - 64, 26), (4, 0x0A000000, 24), (4, 0, 0),
    (6, 0, 122), (6, 2 ** 128 - 64, 122), (6, 0x20010DB8 << 96, 120), (6, 0, 0),
]


def arena_blocks(arena, max_depth=None):
    """All aligned blocks (ver, first, plen) inside the arena, from the arena prefix down to the host width."""
    ver, base, ap = arena
    w = W[ver]
    out = []
    lo_p = ap
    hi_p = w if max_depth is None else min(w, ap + max_depth)
    if w - ap > 8:
        return out
    for p in range(lo_p, hi_p + 1):
        size = 2 ** (w - p)
        for i in range(2 ** (p - ap)):
            out.append((ver, base + i * size, p))
    return out


def rand_block(rng, ver=None, with_host_bits=True):
    ver = ver or rng.choice((4, 6))
    w = W[ver]
    p = rng.randrange(w + 1)
    v = rand_value(rng, ver)
    if not with_host_bits or rng.random() < 0.5:
        v = v >> (w - p) << (w - p)
    return ver, v, p
