"""Object-lifecycle checks shared by the IP/EUI properties.

The Gallina models are purely functional: an object IS its state, every observation is a function of the state, and
every operation returns a fresh value.  These implementation-side checks establish the same for the Python objects, so
that the function-level correspondence (which builds a fresh object for every case) speaks for objects with a history:

  A. coherence under mutation: an object driven into state S by public mutators, after every observer has been read
     once in an earlier state (so that anything memoised is populated), answers every observer exactly like a freshly
     constructed object of state S;
  B. no aliasing: the result of an operation is not the operand and shares no state with it or with an earlier result
     of the same call (poking one never changes what the other shows; a repeated call gives the original answer);
  C. failure atomicity: a mutator that raises leaves every observer unchanged.

A case is `("life", [kind, ...])`; the implementation adapter returns the list of discrepancies found (empty when
coherent); the model-side command `life` returns the empty list for every argument (Extract/Cmd_Life.v); the oracle
reports a non-empty list as a concrete failing history.
"""
import zlib

from harness import gens
from harness.wire import Exn


def _safe(f):
    try:
        return f()
    except Exception as e:  # noqa
        return "!" + type(e).__name__


def _r(x):
    """canonical, identity-free rendering"""
    import netaddr
    if isinstance(x, (list, tuple)):
        return [_r(i) for i in x]
    if isinstance(x, (netaddr.IPAddress, netaddr.IPNetwork, netaddr.IPRange, netaddr.EUI, netaddr.IPSet)):
        return type(x).__name__ + ":" + _safe(lambda: repr(x))
    if isinstance(x, (bytes, bytearray)):
        return bytes(x).hex()
    if isinstance(x, (int, str, bool)) or x is None:
        return x
    return repr(x)


# ------------------------------------------------------------------ observers
def obs_addr(a):
    import netaddr
    o = {}
    for name in ("version", "value", "bin", "packed", "words", "reverse_dns"):
        o[name] = _safe(lambda n=name: _r(getattr(a, n)))
    for name in ("is_unicast", "is_multicast", "is_loopback", "is_private", "is_link_local", "is_reserved",
                 "is_ipv4_mapped", "is_ipv4_compat", "is_hostmask", "is_netmask", "netmask_bits", "key", "sort_key",
                 "bits", "ipv4", "ipv6", "format", "__hash__", "__int__", "__index__", "__bool__", "__str__",
                 "__repr__", "__getstate__", "__bytes__"):
        o[name] = _safe(lambda n=name: _r(getattr(a, n)()))
    o["eq_fresh"] = _safe(lambda: a == netaddr.IPAddress(a._value, a.version))
    o["info"] = _safe(lambda: repr(a.info))          # IANA registry lookup (C19)
    o["format_verbose"] = _safe(lambda: a.format(netaddr.ipv6_verbose) if a.version == 6 else None)
    return o


def obs_net(n):
    import netaddr
    o = {}
    for name in ("version", "value", "prefixlen", "ip", "network", "broadcast", "first", "last", "netmask", "hostmask",
                 "cidr", "size"):
        o[name] = _safe(lambda k=name: _r(getattr(n, k)))
    for name in ("is_unicast", "is_multicast", "is_loopback", "is_private", "is_link_local", "is_reserved", "key",
                 "sort_key", "ipv4", "ipv6", "__hash__", "__str__", "__repr__", "__getstate__", "__len__", "__bool__"):
        o[name] = _safe(lambda k=name: _r(getattr(n, k)()))
    w = gens.W[n.version]
    o["first_item"] = _safe(lambda: _r(n[0]))
    o["last_item"] = _safe(lambda: _r(n[-1]))
    o["contains_first"] = _safe(lambda: netaddr.IPAddress(n.first, n.version) in n)
    o["contains_cidr"] = _safe(lambda: n.cidr in n)
    o["supernet"] = _safe(lambda: _r(n.supernet()[-2:]))
    o["subnet"] = _safe(lambda: _r(list(n.subnet(min(w, n.prefixlen + 1)))[:2]))
    o["next"] = _safe(lambda: _r(n.next()))
    o["previous"] = _safe(lambda: _r(n.previous()))
    o["hosts"] = _safe(lambda: _r([h for _, h in zip(range(2), n.iter_hosts())]))
    o["iter"] = _safe(lambda: _r([h for _, h in zip(range(2), n)]))
    o["eq_fresh"] = _safe(lambda: n == netaddr.IPNetwork((n._value, n._prefixlen), version=n.version))
    return o


def obs_range(r):
    import netaddr
    o = {}
    for name in ("version", "first", "last", "size"):
        o[name] = _safe(lambda k=name: _r(getattr(r, k)))
    for name in ("is_unicast", "is_multicast", "is_loopback", "is_private", "is_link_local", "is_reserved", "key",
                 "sort_key", "cidrs", "__hash__", "__str__", "__repr__", "__getstate__", "__len__", "__bool__"):
        o[name] = _safe(lambda k=name: _r(getattr(r, k)()))
    o["first_item"] = _safe(lambda: _r(r[0]))
    o["last_item"] = _safe(lambda: _r(r[-1]))
    o["item_size"] = _safe(lambda: _r(r[r.size - 1]))
    o["slice"] = _safe(lambda: _r(list(r[0:3])) if r.version == 4 else None)
    o["iter"] = _safe(lambda: _r([h for _, h in zip(range(2), r)]))
    o["contains_first"] = _safe(lambda: netaddr.IPAddress(r.first, r.version) in r)
    o["contains_last"] = _safe(lambda: netaddr.IPAddress(r.last, r.version) in r)
    o["eq_fresh"] = _safe(lambda: r == netaddr.IPRange(netaddr.IPAddress(r.first, r.version),
                                                       netaddr.IPAddress(r.last, r.version)))
    if hasattr(r, "glob"):
        o["glob"] = _safe(lambda: r.glob)
        o["merge"] = _safe(lambda: _r(netaddr.cidr_merge([r])))
    return o


def obs_eui(e):
    import netaddr
    o = {}
    for name in ("version", "value", "words", "packed", "bin", "ei", "oui_value"):
        if name == "oui_value":
            o[name] = _safe(lambda: e._value >> (24 if e.version == 48 else 40))
        else:
            o[name] = _safe(lambda k=name: _r(getattr(e, k)))
    for name in ("bits", "is_iab", "eui64", "modified_eui64", "ipv6_link_local", "__hash__", "__int__", "__str__",
                 "__repr__", "__getstate__", "__index__"):
        o[name] = _safe(lambda k=name: _r(getattr(e, k)()))
    o["slices"] = _safe(lambda: [e[0:99], e[1:], e[::-1], e[-2:], e[::2]])
    o["slices_vs_items"] = _safe(lambda: e[0:99] == [e[i] for i in range(len(e[0:99]))] and len(e[0:99]) == e.dialect.num_words)
    o["item0"] = _safe(lambda: e[0])
    o["item_last"] = _safe(lambda: e[-1])
    o["bits_colon"] = _safe(lambda: e.bits(":"))
    o["ipv6"] = _safe(lambda: _r(e.ipv6(0x20010db8 << 96)))
    o["eq_fresh"] = _safe(lambda: e == netaddr.EUI(e._value, version=e.version))
    o["in_set"] = _safe(lambda: e in {netaddr.EUI(e._value, version=e.version)})
    return o


def observe(x):
    import netaddr
    if isinstance(x, netaddr.IPAddress):
        return obs_addr(x)
    if isinstance(x, netaddr.IPNetwork):
        return obs_net(x)
    if isinstance(x, netaddr.IPRange):
        return obs_range(x)
    if isinstance(x, netaddr.EUI):
        return obs_eui(x)
    if isinstance(x, netaddr.IPSet):
        return {"repr": _safe(lambda: repr(x)), "size": _safe(lambda: x.size), "state": _safe(lambda: _r(x.__getstate__()))}
    if isinstance(x, (list, tuple)):
        return {"items": [observe(i) for i in x]}
    return {"value": _r(x)}


def diff(a, b, where):
    out = []
    for k in sorted(set(a) | set(b)):
        if a.get(k) != b.get(k):
            out.append("%s: %s is %r, a fresh object of the same state gives %r" % (where, k, a.get(k), b.get(k)))
    return out[:6]


# ------------------------------------------------------------------ pokes (visible in-place changes)
def poke(x):
    """change x in place in a way every observer can see; returns False when x cannot be changed"""
    import netaddr
    if isinstance(x, netaddr.IPAddress):
        if x._value > 0:
            x -= 1
        else:
            x += 1
        return True
    if isinstance(x, netaddr.IPNetwork):
        w = gens.W[x.version]
        x.prefixlen = x.prefixlen - 1 if x.prefixlen > 0 else 1
        x.value = x._value ^ (1 << (w - 1))
        return True
    if isinstance(x, netaddr.IPGlob):
        x.glob = "203.0.113.7-9" if x.glob != "203.0.113.7-9" else "203.0.113.*"
        return True
    if isinstance(x, netaddr.EUI):
        x.value = x._value ^ 1
        return True
    if isinstance(x, netaddr.IPSet):
        x.add("203.0.113.77")
        x.remove("203.0.113.0/25") if x.size > 1 else None
        return True
    if isinstance(x, (list, tuple)):
        ok = False
        for i in x:
            ok = poke(i) or ok
        return ok
    return False


# ------------------------------------------------------------------ A. coherence under mutation
def life_addr(ver, v0, v, how):
    import netaddr
    a = netaddr.IPAddress(v0, ver)
    observe(a)
    if how == 0:
        a.value = v
    elif how == 1:
        a += (v - v0)
    elif how == 2:
        a -= (v0 - v)
    else:
        a.__setstate__((v, ver))
    return diff(observe(a), observe(netaddr.IPAddress(v, ver)), "IPAddress after %s" % ["value=", "+=", "-=", "setstate"][how])


def life_net(ver, v0, p0, v, p, how):
    """every observer is read after EVERY mutator call (so that anything memoised is filled in between the steps)"""
    import netaddr
    n = netaddr.IPNetwork((v0, p0), version=ver)
    observe(n)
    w = gens.W[ver]
    if how == 4 and p == 0:
        how = 0            # a /0 has no neighbour of its own size
    if how == 0:
        n.value = v
        observe(n)
        n.prefixlen = p
    elif how == 1:
        n.prefixlen = p
        observe(n)
        n.value = v
    elif how == 2:
        n.value = v
        observe(n)
        n.netmask = netaddr.IPAddress((2 ** w - 1) ^ ((1 << (w - p)) - 1), ver)
    elif how == 3:
        n.__setstate__((v, p, ver))
    elif how == 5:         # a single assignment to .value, the prefix stays
        n.value = v
        p = p0
    elif how == 6:         # a single assignment to .prefixlen, the address stays
        n.prefixlen = p
        v = v0
    elif how == 7:         # the value assigned twice
        n.value = v ^ 1
        observe(n)
        n.value = v
        p = p0
    else:
        # reach (v, p) through += / -= from an aligned neighbour of the same prefix
        size = 1 << (w - p)
        base = v - v % size
        k = 1 if base + 2 * size <= 2 ** w else -1
        n.value = base + k * size
        observe(n)
        n.prefixlen = p
        observe(n)
        if k == 1:
            n -= 1
        else:
            n += 1
        v = base
    names = {0: "value=,prefixlen=", 1: "prefixlen=,value=", 2: "value=,netmask=", 3: "setstate", 4: "+=/-=", 5: "value=",
             6: "prefixlen=", 7: "value=,value="}
    return diff(observe(n), observe(netaddr.IPNetwork((v, p), version=ver)), "IPNetwork after %s" % names[how])


def life_glob(g0, g1, how):
    import netaddr
    import pickle
    g = netaddr.IPGlob(g0)
    observe(g)
    if how == 0:
        g.glob = g1
    else:
        f = netaddr.IPGlob(g1)
        g.__setstate__(f.__getstate__())
    out = diff(observe(g), observe(netaddr.IPGlob(g1)), "IPGlob after %s" % ["glob=", "setstate"][how])
    g2 = pickle.loads(pickle.dumps(g, 2))
    out += diff(observe(g2), observe(netaddr.IPGlob(g1)), "IPGlob re-assigned then pickled")
    return out[:6]


def life_range_state(ver, s0, e0, s, e):
    import netaddr
    r = netaddr.IPRange(netaddr.IPAddress(s0, ver), netaddr.IPAddress(e0, ver))
    observe(r)
    r.__setstate__((s, e, ver))
    return diff(observe(r), observe(netaddr.IPRange(netaddr.IPAddress(s, ver), netaddr.IPAddress(e, ver))),
                "IPRange after setstate")


def _dialect(name):
    import netaddr
    return getattr(netaddr, name) if name else None


def life_eui(ver, v0, v, dname, how):
    import netaddr
    d = _dialect(dname)
    e = netaddr.EUI(v0, version=ver, dialect=d)
    observe(e)
    if how == 0:
        e.value = v
    elif how == 1:
        ws = d.word_size if d else 8
        nw = ver // ws
        for i in range(nw):
            e[i] = (v >> (ws * (nw - 1 - i))) & ((1 << ws) - 1)
            observe(e)
    else:
        e.__setstate__((v, ver, e.dialect))
    f = netaddr.EUI(v, version=ver, dialect=d)
    out = diff(observe(e), observe(f), "EUI after %s" % ["value=", "word assignment", "setstate"][how])
    if obs_eui(f).get("slices_vs_items") is not True:
        out.append("EUI slices disagree with word indexing: e[0:n] = %r but [e[i]] = %r" % (_safe(lambda: f[0:99]), _safe(lambda: [f[i] for i in range(f.dialect.num_words)])))
    return out[:6]


# ------------------------------------------------------------------ B. aliasing
def _alias(make, ops):
    """for each (name, op): result shares no state with the operand or with an earlier result"""
    out = []
    for name, op in ops:
        x = make()
        try:
            r1 = op(x)
        except Exception:  # noqa  (whether it may raise is the business of the function-level correspondence)
            continue
        if r1 is None or isinstance(r1, (int, str, bool, bytes)):
            continue
        s_x = observe(x)
        s_r = observe(r1)
        if r1 is x:
            out.append("%s returned the operand itself" % name)
            continue
        if not poke(r1):
            continue
        if observe(x) != s_x:
            out.append("%s: changing the result changed the operand" % name)
        r2 = op(x)
        if observe(r2) != s_r:
            out.append("%s: after the first result was changed in place a second call returns %r instead of %r"
                       % (name, _r(r2), s_r.get("__repr__", s_r)))
        y = make()
        r3 = op(y)
        s3 = observe(r3)
        if poke(y) and observe(r3) != s3:
            out.append("%s: changing the operand afterwards changed the earlier result" % name)
    return out[:6]


def alias_addr(ver, v):
    import netaddr
    mx = 2 ** gens.W[ver] - 1
    ops = [("a + 0", lambda a: a + 0), ("0 + a", lambda a: 0 + a), ("a - 0", lambda a: a - 0),
           ("a | 0", lambda a: a | 0), ("a & max", lambda a: a & mx), ("a ^ 0", lambda a: a ^ 0),
           ("a << 0", lambda a: a << 0), ("a >> 0", lambda a: a >> 0), ("a.ipv4()", lambda a: a.ipv4()),
           ("a.ipv6()", lambda a: a.ipv6()), ("a.ipv6(True)", lambda a: a.ipv6(ipv4_compatible=True)),
           ("IPAddress(a)", lambda a: netaddr.IPAddress(a)), ("IPNetwork(a)", lambda a: netaddr.IPNetwork(a)),
           ("copy", lambda a: __import__("copy").copy(a))]
    return _alias(lambda: netaddr.IPAddress(v, ver), ops)


def alias_net(ver, v, p):
    import netaddr
    import netaddr.ip
    w = gens.W[ver]
    assert all(hasattr(netaddr.ip, f) for f in ("cidr_partition", "cidr_exclude", "cidr_merge", "spanning_cidr",
                                                "iprange_to_cidrs", "all_matching_cidrs"))
    ops = [("n.cidr", lambda n: n.cidr), ("n.ip", lambda n: n.ip), ("n.network", lambda n: n.network),
           ("n.netmask", lambda n: n.netmask), ("n.hostmask", lambda n: n.hostmask), ("n.broadcast", lambda n: n.broadcast),
           ("n.ipv4()", lambda n: n.ipv4()), ("n.ipv6()", lambda n: n.ipv6()),
           ("n.ipv6(True)", lambda n: n.ipv6(ipv4_compatible=True)),
           ("n.next(0)", lambda n: n.next(0)), ("n.previous(0)", lambda n: n.previous(0)),
           ("IPNetwork(n)", lambda n: netaddr.IPNetwork(n)), ("copy", lambda n: __import__("copy").copy(n)),
           ("n.supernet()", lambda n: n.supernet()[-2:]), ("n.subnet()", lambda n: list(n.subnet(min(w, p + 1)))[:2]),
           ("cidr_merge([n])", lambda n: netaddr.cidr_merge([n])),
           ("cidr_merge([n, n])", lambda n: netaddr.cidr_merge([n, n])),
           ("spanning_cidr([n, n])", lambda n: netaddr.spanning_cidr([n, n])),
           ("spanning_cidr([n, n.ip])", lambda n: netaddr.spanning_cidr([n, n.ip])),
           ("cidr_partition(n, n)", lambda n: netaddr.ip.cidr_partition(n, n)),
           ("cidr_partition(n, n.ip)", lambda n: netaddr.ip.cidr_partition(n, n.ip)),
           ("cidr_exclude(n, first)", lambda n: netaddr.ip.cidr_exclude(n, netaddr.IPNetwork((n.first, w), version=ver))),
           ("iprange_to_cidrs(n, n)", lambda n: netaddr.iprange_to_cidrs(n, n)),
           ("all_matching_cidrs", lambda n: netaddr.all_matching_cidrs(n.ip, [n])),
           ("smallest_matching_cidr", lambda n: netaddr.smallest_matching_cidr(n.ip, [n])),
           ("largest_matching_cidr", lambda n: netaddr.largest_matching_cidr(n.ip, [n]))]
    return _alias(lambda: netaddr.IPNetwork((v, p), version=ver), ops)


def alias_glob(g):
    import netaddr
    from netaddr.ip.glob import glob_to_iptuple, glob_to_iprange, glob_to_cidrs
    out = []
    for name, f in (("glob_to_iptuple", glob_to_iptuple), ("glob_to_iprange", glob_to_iprange),
                    ("glob_to_cidrs", glob_to_cidrs), ("IPGlob", netaddr.IPGlob),
                    ("IPGlob.cidrs", lambda s: netaddr.IPGlob(s).cidrs())):
        r1 = f(g)
        s1 = observe(r1)
        if not poke(r1) and isinstance(r1, netaddr.IPRange):
            r1._start += 0
        r2 = f(g)
        if observe(r2) != s1:
            out.append("%s(%r): after the first result was changed in place a second call returns %r" % (name, g, _r(r2)))
    return out[:6]


def alias_eui(ver, v, dname):
    import netaddr
    d = _dialect(dname)
    ops = [("e.eui64()", lambda e: e.eui64()), ("e.modified_eui64()", lambda e: e.modified_eui64()),
           ("EUI(e)", lambda e: netaddr.EUI(e)), ("copy", lambda e: __import__("copy").copy(e)),
           ("e.ipv6_link_local()", lambda e: e.ipv6_link_local())]
    return _alias(lambda: netaddr.EUI(v, version=ver, dialect=d), ops)


# ------------------------------------------------------------------ C. failure atomicity
def atomic(kind, *a):
    import netaddr
    out = []

    def attempt(x, name, f):
        before = observe(x)
        try:
            f(x)
        except Exception:  # noqa
            if observe(x) != before:
                out.append("%s raised but changed the object: %s" % (name, "; ".join(diff(observe(x), before, name))[:300]))

    if kind == "addr":
        ver, v = a
        big = 2 ** 130

        def mk():
            return netaddr.IPAddress(v, ver)
        for name, f in (("a += 2^130", lambda x: x.__iadd__(big)), ("a -= 2^130", lambda x: x.__isub__(big)),
                        ("a.value = -1", lambda x: setattr(x, "value", -1)),
                        ("a.value = 2^130", lambda x: setattr(x, "value", big)),
                        ("a.value = 'x'", lambda x: setattr(x, "value", "x")),
                        ("a += to max+1", lambda x: x.__iadd__(2 ** gens.W[ver] - v)),
                        ("a -= below 0", lambda x: x.__isub__(v + 1))):
            attempt(mk(), name, f)
    elif kind == "net":
        ver, v, p = a
        w = gens.W[ver]
        size = 1 << (w - p)

        def mk():
            return netaddr.IPNetwork((v, p), version=ver)
        for name, f in (("n += past the top", lambda x: x.__iadd__((2 ** w) // size + 1)),
                        ("n -= below zero", lambda x: x.__isub__((2 ** w) // size + 1)),
                        ("n += exactly to the top", lambda x: x.__iadd__((2 ** w - (v - v % size)) // size)),
                        ("n.prefixlen = -1", lambda x: setattr(x, "prefixlen", -1)),
                        ("n.prefixlen = w+1", lambda x: setattr(x, "prefixlen", w + 1)),
                        ("n.value = -1", lambda x: setattr(x, "value", -1)),
                        ("n.value = 2^w", lambda x: setattr(x, "value", 2 ** w)),
                        ("n.netmask = non-contiguous", lambda x: setattr(x, "netmask", netaddr.IPAddress(5, ver))),
                        ("n.netmask = other family", lambda x: setattr(x, "netmask", netaddr.IPAddress(0, 10 - ver))),
                        ("n.netmask = 'junk'", lambda x: setattr(x, "netmask", "junk"))):
            attempt(mk(), name, f)
    elif kind == "glob":
        (g,) = a
        for bad in ("1.2.3", "1.2.3.256", "1.2.3.5-4", "1.2.*.4", "x", ""):
            attempt(netaddr.IPGlob(g), "g.glob = %r" % bad, lambda x, b=bad: setattr(x, "glob", b))
    elif kind == "eui":
        ver, v, dname = a
        d = _dialect(dname)

        def mk():
            return netaddr.EUI(v, version=ver, dialect=d)
        for name, f in (("e.value = -1", lambda x: setattr(x, "value", -1)),
                        ("e.value = 2^70", lambda x: setattr(x, "value", 2 ** 70)),
                        ("e.value = 'junk'", lambda x: setattr(x, "value", "junk")),
                        ("e[0] = -1", lambda x: x.__setitem__(0, -1)),
                        ("e[0] = 2^20", lambda x: x.__setitem__(0, 2 ** 20)),
                        ("e[99] = 1", lambda x: x.__setitem__(99, 1)),
                        ("e.dialect = int", lambda x: setattr(x, "dialect", int))):
            attempt(mk(), name, f)
    return out[:6]


# ------------------------------------------------------------------ dispatch, cases, oracle
def impl_life(kind, *a):
    return {
        "addr": life_addr, "net": life_net, "glob": life_glob, "range_state": life_range_state, "eui": life_eui,
        "alias_addr": alias_addr, "alias_net": alias_net, "alias_glob": alias_glob, "alias_eui": alias_eui,
        "atomic": atomic,
    }[kind](*a)


def orc_life(args, res):
    if isinstance(res, Exn):
        return "lifecycle check crashed: %s" % res.name
    if res:
        return "object with a history differs from a fresh one: " + " | ".join(res)[:600]


GLOBS = ["10.0.0.*", "10.0.0.1-7", "192.168.1-6.*", "0.0.0.0-255", "255.255.255.*", "1.2.3.4", "10.*.*.*", "*.*.*.*",
         "172.16-31.*.*", "0.0.0.*", "255.255.254-255.*", "192.0.2.0-255", "10.0.0-255.*"]
EUI48_DIALECTS = ["", "mac_eui48", "mac_unix", "mac_unix_expanded", "mac_cisco", "mac_bare", "mac_pgsql"]
EUI64_DIALECTS = ["", "eui64_base", "eui64_unix", "eui64_unix_expanded", "eui64_cisco", "eui64_bare"]


def cases(rng, tier, classes):
    """classes: subset of {'addr','net','glob','range','eui'}"""
    n = 40 if tier == "quick" else 1500
    for _ in range(n):
        ver = rng.choice((4, 6))
        w = gens.W[ver]
        vals = [0, 1, 2 ** w - 1, 2 ** w - 2, 2 ** 32 - 1 if ver == 6 else 2 ** 31, 2 ** 32 if ver == 6 else 2 ** 24,
                gens.rand_value(rng, ver), gens.rand_value(rng, ver), 0xffff00000000 + rng.getrandbits(32) if ver == 6 else rng.getrandbits(32),
                rng.getrandbits(32)]
        v, v0 = rng.choice(vals), rng.choice(vals)
        if "addr" in classes:
            yield ("life", ["addr", ver, v0, v, rng.randrange(4)], "life_addr")
            yield ("life", ["alias_addr", ver, v], "life_alias")
            yield ("life", ["atomic", "addr", ver, v], "life_atomic")
        if "net" in classes:
            p, p0 = rng.randrange(w + 1), rng.randrange(w + 1)
            yield ("life", ["net", ver, v0, p0, v, p, rng.randrange(8)], "life_net")
            yield ("life", ["alias_net", ver, v, p], "life_alias")
            yield ("life", ["atomic", "net", ver, v, p], "life_atomic")
        if "range" in classes:
            s0, e0 = sorted((v0, rng.choice(vals)))
            s, e = sorted((v, rng.choice(vals)))
            yield ("life", ["range_state", ver, s0, e0, s, e], "life_range")
        if "glob" in classes:
            g0, g1 = rng.choice(GLOBS), rng.choice(GLOBS)
            yield ("life", ["glob", g0, g1, rng.randrange(2)], "life_glob")
            yield ("life", ["alias_glob", g1], "life_alias")
            yield ("life", ["atomic", "glob", g1], "life_atomic")
        if "eui" in classes:
            ev = rng.choice((48, 64))
            dn = rng.choice(EUI48_DIALECTS if ev == 48 else EUI64_DIALECTS)
            evals = [0, 1, 2 ** ev - 1, 0x020000000001, rng.getrandbits(ev), rng.getrandbits(ev), rng.getrandbits(40), 0x0050c2000000 + rng.getrandbits(12)]
            a, b = rng.choice(evals) % 2 ** ev, rng.choice(evals) % 2 ** ev
            yield ("life", ["eui", ev, a, b, dn, rng.randrange(3)], "life_eui")
            yield ("life", ["alias_eui", ev, b, dn], "life_alias")
            yield ("life", ["atomic", "eui", ev, b, dn], "life_atomic")


IMPL = {"life": impl_life}
ORACLE = {"life": orc_life}
