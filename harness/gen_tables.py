"""Regenerate coq/Gen/*_gen.v from the current working tree of /repo (fail closed).

Every module harness/gen/<name>.py defines `generate() -> {filename: coq_text}` (filenames ending in `_gen.v`)
and may use `dump(expr)` below to evaluate Python expressions inside a fresh interpreter that imports the
working tree.  A file is rewritten only when its content changes, so an unchanged table costs no rebuild.
Anything a generator cannot serialise must raise: the caller records it as a failed obligation.
"""
import importlib
import json
import os
import pkgutil
import subprocess

VERIF = os.path.dirname(os.path.dirname(os.path.abspath(__file__)))
REPO = os.environ.get("NV_REPO", "/repo")
GEN_DIR = os.path.join(VERIF, "coq", "Gen")


def dump(script):
    """Run `script` (Python source that prints one JSON document) against the working tree; return the JSON."""
    env = dict(os.environ)
    env.update({"PYTHONPATH": REPO, "PYTHONHASHSEED": "0", "PYTHONDONTWRITEBYTECODE": "1"})
    p = subprocess.run(["/venv/bin/python", "-B", "-c", script], env=env, stdout=subprocess.PIPE,
                       stderr=subprocess.PIPE, timeout=300, cwd="/")
    if p.returncode != 0:
        raise RuntimeError("table dump failed: " + p.stderr.decode("utf-8", "replace")[-800:])
    return json.loads(p.stdout.decode())


def zlit(i):
    return "(%d)" % i if i < 0 else "%d" % i


def zlist(xs):
    return "[" + "; ".join(zlit(x) for x in xs) + "]"


def coq_string(s):
    """Coq string literal for an ASCII string (doubles the quote)."""
    assert all(32 <= ord(c) < 127 for c in s), "non-printable in table string: %r" % s
    return '"' + s.replace('"', '""') + '"'


def main():
    os.makedirs(GEN_DIR, exist_ok=True)
    from . import gen as genpkg
    summary = {}
    for m in sorted(pkgutil.iter_modules(genpkg.__path__), key=lambda x: x.name):
        try:
            mod = importlib.import_module("harness.gen." + m.name)
            files = mod.generate()
        except Exception as e:  # fail closed, but only for the properties that depend on this generator's file
            summary.setdefault("__errors__", {})[m.name] = "%s: %s" % (type(e).__name__, e)
            continue
        for fn, text in files.items():
            assert fn.endswith("_gen.v")
            path = os.path.join(GEN_DIR, fn)
            old = open(path).read() if os.path.exists(path) else None
            if old != text:
                with open(path, "w") as f:
                    f.write(text)
            summary[fn] = {"bytes": len(text), "changed": old != text}
    return summary
