"""Regenerate coq/Gen/*_gen.v from the current working tree of /repo (fail closed)."""


def main():
    return {}
