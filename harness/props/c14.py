"""C14 — address arithmetic and bitwise operators are exact and range-checked."""
from harness import gens
from harness.wire import Exn

PROP = "C14"
# every case also under the import-time configuration "digit cap off while netaddr is imported" (harness/implrun.py)
BACKENDS = [None, "nodigitcap"]
THEOREM_FILE = "Props/C14.v"
EXTRA_THEOREM_FILES = ["Props/C14_src.v"]     # source tie: translated source = model (DESIGN 5.1b)
EXTRA_THEOREM_FILES += ["Props/C14_src_ctor.v"]      # source tie of IPAddress.__init__ (int / copy branches)
EXTRA_THEOREM_FILES.append("Props/C14_code.v")     # (CODA) code-level theorems: the property about the regenerated definitions
RULE = ("13 operators (+ radd - rsub += -= | & ^ << >>) x both families x receiver values (0, 1, 2, max-2..max, "
        "2^31+-1, 2^32+-1, 2^(w-1)+-1, 2^k, random dense/sparse) x operands (0, +-1, +-2, +-2^31, +-2^32, +-2^127, "
        "+-2^128 and their +-1 neighbours, +-max, operands landing the result exactly on -1, 0, 1, max-1, max, max+1, "
        "random of both signs up to width+3 bits); bitwise forms also with IPAddress operands of the same and of the "
        "other family, complement / mask / negative (two's-complement) operands; every shift count -2..width+2 plus "
        "large counts; constructor over {-1, 0, 2^32-1, 2^32, 2^128-1, 2^128, ...} x version {None, 4, 6, invalid}; "
        "copy constructor x version; views int/index/hex/__hex__/bool.  Every adapter reports [version, value] of "
        "the result and the state of the receiver and of an address operand after the call")
EXACT = ("c14_ctor", "c14_copy", "c14_add", "c14_radd", "c14_sub", "c14_rsub", "c14_iadd", "c14_isub",
         "c14_or", "c14_and", "c14_xor", "c14_lshift", "c14_rshift", "c14_views")


# ------------------------------------------------------------------ implementation adapters
def _st(a):
    import netaddr
    assert type(a) is netaddr.IPAddress, "result is not an IPAddress: %r" % (a,)
    return [a.version, a._value]


def _mk(ver, v):
    import netaddr
    a = netaddr.IPAddress(v, ver)
    assert a.version == ver and a._value == v, "receiver not constructed as requested"
    return a


def _binary(fn):
    def f(ver, v, n):
        from harness.wire import exn_of
        a = _mk(ver, v)
        o = _mk(n[0], n[1]) if isinstance(n, list) else n
        try:
            res = _st(fn(a, o))
        except AssertionError:
            raise
        except Exception as e:  # noqa
            res = exn_of(e)
        return [res, _st(a), _st(o) if isinstance(n, list) else o]
    return f


def _inplace(which):
    def f(ver, v, n):
        from harness.wire import exn_of
        a = _mk(ver, v)
        orig = a
        try:
            if which == "iadd":
                a += n
            else:
                a -= n
            res = _st(a)
            post = res            # the name is now bound to the result
        except AssertionError:
            raise
        except Exception as e:  # noqa
            res = exn_of(e)
            post = _st(orig)      # the receiver after a failed in-place operation
        return [res, post, n]
    return f


def impl_ctor(i, version):
    import netaddr
    a = netaddr.IPAddress(i) if version is None else netaddr.IPAddress(i, version)
    return _st(a)


def impl_copy(ver, v, version):
    import netaddr
    from harness.wire import exn_of
    a = _mk(ver, v)
    try:
        b = netaddr.IPAddress(a) if version is None else netaddr.IPAddress(a, version)
        res = _st(b)
    except Exception as e:  # noqa
        res = exn_of(e)
    return [res, _st(a)]


def impl_views(ver, v):
    import operator
    a = _mk(ver, v)
    return [int(a), operator.index(a), hex(a), a.__hex__(), bool(a)]


IMPL = {
    "c14_ctor": impl_ctor,
    "c14_copy": impl_copy,
    "c14_add": _binary(lambda a, n: a + n),
    "c14_radd": _binary(lambda a, n: n + a),
    "c14_sub": _binary(lambda a, n: a - n),
    "c14_rsub": _binary(lambda a, n: n - a),
    "c14_iadd": _inplace("iadd"),
    "c14_isub": _inplace("isub"),
    "c14_or": _binary(lambda a, n: a | n),
    "c14_and": _binary(lambda a, n: a & n),
    "c14_xor": _binary(lambda a, n: a ^ n),
    "c14_lshift": _binary(lambda a, n: a << n),
    "c14_rshift": _binary(lambda a, n: a >> n),
    "c14_views": impl_views,
}


# ------------------------------------------------------------------ property oracles (plain integer arithmetic)
def _orc_binary(name, math, exc, shift=False, inplace=False):
    def f(args, res):
        ver, v, n = args
        if isinstance(res, Exn):
            return "%s: harness-level failure %s" % (name, res.name)
        r, recv, opnd = res
        ni = n[1] if isinstance(n, list) else n
        if shift and ni < 0:
            exp = Exn("ValueError")          # Python's own "negative shift count"
        else:
            x = math(v, ni)
            exp = [ver, x] if 0 <= x <= 2 ** gens.W[ver] - 1 else Exn(exc)
        if r != exp:
            if isinstance(r, list) and isinstance(exp, list) and r[0] != exp[0]:
                return "%s changed the version: %r, expected %r" % (name, r, exp)
            if isinstance(r, list) and not (0 <= r[1] <= 2 ** gens.W[ver] - 1):
                return "%s yielded an out-of-range value %r" % (name, r)
            return "%s%r = %r, expected %r" % (name, (ver, v, n), r, exp)
        if inplace and isinstance(r, list):
            if recv != r:
                return "%s: name not bound to the result" % name
        elif recv != [ver, v]:
            return "%s changed its receiver to %r" % (name, recv)
        if opnd != n:
            return "%s changed its operand to %r" % (name, opnd)
    return f


def orc_ctor(args, res):
    i, version = args
    if version is None:
        exp = [4, i] if 0 <= i <= 2 ** 32 - 1 else ([6, i] if 2 ** 32 <= i <= 2 ** 128 - 1 else Exn("AddrFormatError"))
    elif version not in (4, 6):
        exp = Exn("ValueError")
    else:
        exp = [version, i] if 0 <= i <= 2 ** gens.W[version] - 1 else Exn("AddrFormatError")
    if res != exp:
        return "IPAddress(%r, %r) -> %r, expected %r" % (i, version, res, exp)


def orc_copy(args, res):
    ver, v, version = args
    if isinstance(res, Exn):
        return "copy: harness-level failure %s" % res.name
    r, src = res
    exp = [ver, v] if version in (None, ver) else Exn("ValueError")
    if r != exp:
        return "IPAddress(IPAddress(%r, %r), %r) -> %r, expected %r" % (v, ver, version, r, exp)
    if src != [ver, v]:
        return "copy constructor changed its source"


def orc_views(args, res):
    ver, v = args
    if isinstance(res, Exn):
        return "view raised %s" % res.name
    i, ix, h, h2, b = res
    if i != v or ix != v:
        return "int()/index() is not the value"
    if b is not (v != 0):
        return "bool() is not value != 0"
    digits = "0123456789abcdef"
    s, x = "", v
    while True:
        s = digits[x % 16] + s
        x //= 16
        if x == 0:
            break
    if h != "0x" + s or h2 != "0x" + s:
        return "hex() is %r / %r, expected %r" % (h, h2, "0x" + s)


ORACLE = {
    "c14_ctor": orc_ctor,
    "c14_copy": orc_copy,
    "c14_add": _orc_binary("add", lambda v, n: v + n, "IndexError"),
    "c14_radd": _orc_binary("radd", lambda v, n: n + v, "IndexError"),
    "c14_sub": _orc_binary("sub", lambda v, n: v - n, "IndexError"),
    "c14_rsub": _orc_binary("rsub", lambda v, n: n - v, "IndexError"),
    "c14_iadd": _orc_binary("iadd", lambda v, n: v + n, "IndexError", inplace=True),
    "c14_isub": _orc_binary("isub", lambda v, n: v - n, "IndexError", inplace=True),
    "c14_or": _orc_binary("or", lambda v, n: v | n, "AddrFormatError"),
    "c14_and": _orc_binary("and", lambda v, n: v & n, "AddrFormatError"),
    "c14_xor": _orc_binary("xor", lambda v, n: v ^ n, "AddrFormatError"),
    "c14_lshift": _orc_binary("lshift", lambda v, n: v * 2 ** n, "AddrFormatError", shift=True),
    "c14_rshift": _orc_binary("rshift", lambda v, n: v // 2 ** n, "AddrFormatError", shift=True),
    "c14_views": orc_views,
}


# ------------------------------------------------------------------ generators
def recv_values(rng, ver, nrand):
    w = gens.W[ver]
    M = 2 ** w - 1
    s = {0, 1, 2, 3, M, M - 1, M - 2, 2 ** 31 - 1, 2 ** 31, 2 ** 31 + 1, 2 ** (w - 1) - 1, 2 ** (w - 1),
         2 ** (w - 1) + 1, 0xFFFF, 0x10000, 0xC0A80001, 0x7F000001}
    if ver == 6:
        s |= {2 ** 32 - 1, 2 ** 32, 2 ** 32 + 1, 2 ** 64 - 1, 2 ** 64, 2 ** 127 - 1, 2 ** 127 + 1, 0xFFFF00000000,
              0xFFFF7F000001, 1 << 120}
    for _ in range(3):
        s.add(1 << rng.randrange(w))
    out = sorted(x for x in s if 0 <= x <= M)
    return out + [gens.rand_value(rng, ver) for _ in range(nrand)]


def _pm(xs):
    out = set()
    for x in xs:
        out.add(x)
        out.add(-x)
    return out


BIG = [2 ** 31, 2 ** 32, 2 ** 127, 2 ** 128]


def arith_operands(rng, ver, v, nrand):
    w = gens.W[ver]
    M = 2 ** w - 1
    base = [0, 1, 2, M, M + 1, M + 2]
    for b in BIG:
        base += [b - 1, b, b + 1]
    s = _pm(base)
    targets = [-1, 0, 1, M - 1, M, M + 1] + [rng.getrandbits(w) for _ in range(max(3, nrand // 3))]
    for t in targets:
        s.add(t - v)      # v + n = t
        s.add(v - t)      # v - n = t
        s.add(t + v)      # n - v = t
    for _ in range(nrand):
        r = rng.random()
        if r < 0.4:
            n = rng.getrandbits(w)
        elif r < 0.6:
            n = rng.getrandbits(w + 3)
        elif r < 0.8:
            n = rng.randrange(1, 1000)
        else:
            n = rng.getrandbits(rng.randrange(1, w + 1))
        s.add(n if rng.random() < 0.5 else -n)
    return sorted(s)


def bitwise_operands(rng, ver, v, nrand):
    w = gens.W[ver]
    M = 2 ** w - 1
    over = 6 if ver == 4 else 4
    OM = 2 ** gens.W[over] - 1
    base = [0, 1, 2, M, M + 1, M + 2, 2 * M + 1]
    for b in BIG:
        base += [b - 1, b, b + 1]
    s = _pm(base)
    s |= {v, M ^ v, (M ^ v) + 1, ~v, -v, ~v & M, v | (M + 1), (M ^ v) | (M + 1), v - 1, v + 1, ~(M ^ v)}
    for _ in range(3):
        k = rng.randrange(w + 1)
        s |= {2 ** k, -(2 ** k), 2 ** k - 1, M ^ (2 ** k - 1), ~(2 ** k)}
    for _ in range(nrand):
        r = rng.random()
        n = rng.getrandbits(w) if r < 0.5 else (rng.getrandbits(w + 3) if r < 0.7 else gens.rand_value(rng, ver))
        s.add(n if rng.random() < 0.65 else -n)
    out = sorted(s)
    # IPAddress operands: same family, other family
    addrs = [[ver, x] for x in sorted({0, 1, M, v, M ^ v, rng.getrandbits(w), gens.rand_value(rng, ver)})]
    addrs += [[over, y] for y in sorted({0, 1, OM, v & OM, min(OM, M + 1), rng.getrandbits(gens.W[over]),
                                         gens.rand_value(rng, over)})]
    return out + addrs


CTOR_INTS = [-1, 0, 1, 2, 2 ** 31 - 1, 2 ** 31, 2 ** 32 - 2, 2 ** 32 - 1, 2 ** 32, 2 ** 32 + 1, 2 ** 33, 2 ** 64 - 1,
             2 ** 64, 2 ** 127, 2 ** 128 - 2, 2 ** 128 - 1, 2 ** 128, 2 ** 128 + 1, 2 ** 129, 2 ** 200,
             -2, -2 ** 31, -2 ** 32, -2 ** 32 + 1, -2 ** 127, -2 ** 128, -2 ** 128 - 1, 0xC0A80001, 0x20010DB8 << 96]
VERSIONS = [None, 4, 6, 0, 5, -4, -6, 7, 46, 32, 128, 2 ** 32 + 4]


def cases(rng, tier):
    quick = tier == "quick"
    nv = 8 if quick else 100
    nop = 10 if quick else 200
    arith = ("c14_add", "c14_radd", "c14_sub", "c14_rsub", "c14_iadd", "c14_isub")
    bitw = ("c14_or", "c14_and", "c14_xor")
    for ver in (4, 6):
        w = gens.W[ver]
        vals = recv_values(rng, ver, nv)
        for v in vals:
            for n in arith_operands(rng, ver, v, nop):
                for cmd in arith:
                    yield (cmd, [ver, v, n], "%s_v%d" % (cmd[4:], ver))
            for n in bitwise_operands(rng, ver, v, nop):
                for cmd in bitw:
                    yield (cmd, [ver, v, n], "%s_v%d%s" % (cmd[4:], ver, "_addr" if isinstance(n, list) else ""))
            counts = list(range(-2, w + 3)) + [w + 31, 200, 300, 1000, -31, -1000]
            if quick and v not in (0, 1, 2 ** w - 1, 2 ** (w - 1), 2 ** (w - 1) - 1):
                counts = rng.sample(counts, 24) + [-1, 0, 1, w - 1, w]
            for n in counts:
                yield ("c14_lshift", [ver, v, n], "lshift_v%d" % ver)
                yield ("c14_rshift", [ver, v, n], "rshift_v%d" % ver)
            yield ("c14_views", [ver, v], "views")
            for version in (None, 4, 6, 5, 0):
                yield ("c14_copy", [ver, v, version], "copy")
    # values just around every power of two for the views and the shifts' exactness
    for ver in (4, 6):
        w = gens.W[ver]
        for k in range(w + 1):
            for d in (-1, 0, 1):
                x = 2 ** k + d
                if 0 <= x <= 2 ** w - 1:
                    yield ("c14_views", [ver, x], "views")
                    if quick and d:
                        continue
                    yield ("c14_lshift", [ver, x, w - k - 1], "lshift_edge")
                    yield ("c14_lshift", [ver, x, w - k], "lshift_edge")
                    yield ("c14_rshift", [ver, x, k], "rshift_edge")
                    yield ("c14_rshift", [ver, x, k + 1], "rshift_edge")
    ints = list(CTOR_INTS)
    for _ in range(40 if quick else 4000):
        r = rng.random()
        bits = 32 if r < 0.3 else (128 if r < 0.6 else rng.choice((1, 8, 31, 33, 64, 127, 129, 140)))
        x = rng.getrandbits(bits)
        ints.append(x if rng.random() < 0.8 else -x)
    for k in (31, 32, 33, 127, 128, 129):
        for d in range(-3, 4):
            ints.append(2 ** k + d)
    for i in ints:
        for version in VERSIONS:
            yield ("c14_ctor", [i, version], "ctor_" + ("none" if version is None else
                                                        ("v%d" % version if version in (4, 6) else "badver")))


# ---- object-lifecycle checks (harness/lifecycle.py): objects with a history behave like fresh ones, results do not
# alias operands, failed mutators change nothing.  The functional model has no hidden state: its answer is "no discrepancy".
from harness import lifecycle as _life
IMPL.update(_life.IMPL)
ORACLE.update(_life.ORACLE)
EXACT = tuple(EXACT) + ("life",)
RULE = RULE + " | lifecycle: observe-mutate-observe vs a fresh object, aliasing of results, failure atomicity (addr)"
_cases_without_life = cases


def cases(rng, tier):
    yield from _cases_without_life(rng, tier)
    yield from _life.cases(rng, tier, {'addr'})


# ---- operands far beyond any address width (thousands of decimal digits: CPython refuses to print ints of more than 4300
# digits, so an error path that formats the operand or the result must not change the exception class), and shift counts in
# the thousands
_cases_without_huge = cases


def cases(rng, tier):
    yield from _cases_without_huge(rng, tier)
    huge = [10 ** 4350, -(10 ** 4350), 2 ** 20000 + 1, -(2 ** 16384), 10 ** 4299, 2 ** 4096 - 1]
    for ver in (4, 6):
        w = gens.W[ver]
        for v in (0, 1, 2 ** w - 1, rng.getrandbits(w)):
            for n in huge:
                for cmd in ("c14_add", "c14_radd", "c14_sub", "c14_rsub", "c14_iadd", "c14_isub", "c14_or", "c14_and", "c14_xor"):
                    yield (cmd, [ver, v, n], "%s_huge" % cmd[4:])
            for n in (5000, 20000):
                yield ("c14_lshift", [ver, v, n], "lshift_huge")
                yield ("c14_rshift", [ver, v, n], "rshift_huge")
    for n in huge:
        for version in (None, 4, 6):
            yield ("c14_ctor", [n, version], "ctor_huge")
