"""C03 — all network notations denote the same network and str() round-trips.

Every case runs under BOTH implementation configurations (platform socket functions / netaddr.fbsocket) and is compared
with ONE model answer (the model commands evaluate both back-ends and answer only if they coincide).

Oracles evaluate the property statement on the implementation's own output: address and mask texts are read by
Python's independent `ipaddress` module, partial IPv4 forms by a regular expression for decimal integer literals,
everything else is plain integer arithmetic — never netaddr, never the model.
"""
import ipaddress
import re

from harness import gens, pystr_cases
from harness.wire import Exn
from harness.props import c01 as _c01     # only its string generators (seed spellings, edit)

PROP = "C03"
THEOREM_FILE = "Props/C03.v"
EXTRA_THEOREM_FILES = []
EXTRA_THEOREM_FILES += ["Props/C03_src.v"]      # source tie: translated source = model (DESIGN 5.1b)
EXTRA_THEOREM_FILES.append("Props/C03_src_expand.v")     # SRCC: source tie for strategy/ipv4.py expand_partial_address (DESIGN 5.1b)
EXTRA_THEOREM_FILES.append("Props/C03_code.v")   # CODB: code-level theorems (the C03 theorems stated about the regenerated definitions)
BACKENDS = [None, "fallback"]
NOHOST = 4
RULE = ("every prefix 0..width of both families x boundary/random values with host bits x notation {a/p, a/netmask, "
        "a/hostmask, tuple, copy(IPNetwork), copy(IPAddress)} x flags {0, NOHOST} x implicit_prefix x version "
        "{None, own, other, invalid}; str() of each network and its re-parse; bare addresses; partial IPv4 forms of 1-4 "
        "octets (class boundaries 0,127,128,191,192,223,224,239,240,255,256; canonical and int()-lenient spellings) with / "
        "without prefix, implicit_prefix on/off; cidr_abbrev_to_verbose and expand_partial_address directly on that "
        "grammar plus near-misses (5 octets, octet 256, empty tokens, ':', signs, spaces, underscores); malformed stream: "
        "prefix texts -2,-1,w+1..w+3, huge, spaced/signed/underscored/hex/float digits, empty; every contiguous mask with "
        "1-2 flipped bits; C01's malformed address spellings and their edits with and without a prefix; '', '/', 'a/', "
        "'/p', 'a//', 'a/p/q'; tuples of wrong length / out of range; int, None, list, bytes, float arguments; plus the "
        "CPython prelude validation")
EXACT = ("c03_notation", "c03_roundtrip", "c03_str") + tuple(pystr_cases.EXACT)
TRUSTED = [
    "MODELLED, NOT VERIFIED: glibc 2.36 inet_pton / inet_ntop as reached through CPython's socket module (oracles "
    "Std4.pton4, Std4.ntoa, Std6.pton6, Std6.ntop6 of coq/Model/IpText.v, shared with C01 and validated there on "
    "every C01 run; here the address and mask texts of every case are additionally read by Python's ipaddress module)",
    "CPython builtins int(s), '%d' / '%s' formatting of ints, str.split('/', 1), str.split('.'), str.join, `in` "
    "(coq/Base/PyStr.v), validated on this run (commands pystr_*)",
    "non-ASCII input strings, tuples holding non-int members, and prefix texts longer than CPython's 4300-digit "
    "int() limit are outside the model and outside the quantifier of the theorems",
]
ASSUMPTIONS = ["input strings are ASCII (code points < 128); the platform is glibc 2.36 / CPython 3.12",
               "tuple arguments hold ints; copy-construction sources are well-formed IPNetwork / IPAddress objects"]

W = gens.W

OTHER = {"int": 5, "none": None, "list": [1, 2], "bytes": b"1.2.3.4/24", "float": 1.5, "dict": {}, "bigint": 2 ** 40}


# ------------------------------------------------------------------ implementation adapters
def _mk_arg(a):
    import netaddr
    kind = a[0]
    if kind == "t":
        return tuple(a[1])
    if kind == "s":
        return a[1]
    if kind == "n":
        n = netaddr.IPNetwork((a[2], a[3]), version=a[1])
        assert (n.version, n._value, n._prefixlen) == (a[1], a[2], a[3])
        return n
    if kind == "a":
        return netaddr.IPAddress(a[2], a[1])
    if kind == "o":
        return OTHER[a[1]]
    raise KeyError(kind)


def _out(n):
    assert n._module.version == n.version
    return [n.version, n._value, n._prefixlen]


def _kw(implicit_prefix, version, flags):
    """keyword arguments of the constructor; an argument that has its documented default value is left out (so that the
    defaults themselves are exercised) - the same call either way as far as the property is concerned"""
    kw = {}
    if implicit_prefix is not False:
        kw["implicit_prefix"] = implicit_prefix
    if version is not None:
        kw["version"] = version
    if flags != 0:
        kw["flags"] = flags
    return kw


def impl_init(a, implicit_prefix, version, flags):
    import netaddr
    return _out(netaddr.IPNetwork(_mk_arg(a), **_kw(implicit_prefix, version, flags)))


def impl_parse(ver, a, implicit_prefix, flags):
    from netaddr.ip import parse_ip_network
    from netaddr.strategy import ipv4, ipv6
    return list(parse_ip_network({4: ipv4, 6: ipv6}[ver], _mk_arg(a), implicit_prefix=implicit_prefix, flags=flags))


def _notation(ver, v, p, kind):
    import netaddr
    a = str(netaddr.IPAddress(v, ver))
    n = netaddr.IPNetwork((v, p), version=ver)
    if kind == "prefix":
        return "%s/%d" % (a, p)
    if kind == "netmask":
        return "%s/%s" % (a, n.netmask)
    if kind == "hostmask":
        return "%s/%s" % (a, n.hostmask)
    raise KeyError(kind)


def impl_notation(ver, v, p, kind, implicit_prefix, version, flags):
    import netaddr
    return _out(netaddr.IPNetwork(_notation(ver, v, p, kind), **_kw(implicit_prefix, version, flags)))


def impl_str(ver, v, p):
    import netaddr
    n = netaddr.IPNetwork((v, p), version=ver)
    s = str(n)
    assert repr(n) == "IPNetwork('%s')" % s
    return s


def impl_roundtrip(ver, v, p, implicit_prefix, version, flags):
    import netaddr
    n = netaddr.IPNetwork((v, p), version=ver)
    m = netaddr.IPNetwork(str(n), implicit_prefix=implicit_prefix, version=version, flags=flags)
    if flags == 0 and version in (None, ver):
        assert m == n and hash(m) == hash(n)
    return _out(m)


def impl_abbrev(s):
    from netaddr.ip import cidr_abbrev_to_verbose
    import netaddr
    assert netaddr.cidr_abbrev_to_verbose is cidr_abbrev_to_verbose
    return cidr_abbrev_to_verbose(s)


def impl_expand(s):
    from netaddr.strategy import ipv4
    return ipv4.expand_partial_address(s)


IMPL = {
    "c03_init": impl_init, "c03_parse": impl_parse, "c03_notation": impl_notation, "c03_str": impl_str,
    "c03_roundtrip": impl_roundtrip, "c03_abbrev": impl_abbrev, "c03_expand": impl_expand,
}
IMPL.update(pystr_cases.IMPL)


# ------------------------------------------------------------------ property oracles (independent computations)
def std4(s):
    try:
        return int(ipaddress.IPv4Address(s))
    except ValueError:
        return None


def std6(s):
    if "%" in s:
        return None
    try:
        return int(ipaddress.IPv6Address(s))
    except ValueError:
        return None


_WS = " \t\n\r\x0b\x0c"
_INT = re.compile(r"\A[%s]*([+-]?)([0-9]+(?:_[0-9]+)*)[%s]*\Z" % (_WS, _WS))
_CANON = re.compile(r"\A(?:0|[1-9][0-9]*)\Z")


def lenient_int(t):
    """value of a decimal integer literal as Python's int() accepts it (sign, blanks around, single underscores)"""
    m = _INT.match(t)
    if not m:
        return None
    v = 0
    for ch in m.group(2):
        if ch != "_":
            v = v * 10 + (ord(ch) - 48)
    return -v if m.group(1) == "-" else v


def partial4(t):
    """octets of a 1-4 token partial IPv4 form, None if it is not one"""
    if ":" in t:
        return None
    toks = t.split(".")
    if not 1 <= len(toks) <= 4:
        return None
    os_ = [lenient_int(x) for x in toks]
    if any(o is None or not 0 <= o <= 255 for o in os_):
        return None
    return os_


def classful(o):
    if o <= 127:
        return 8
    if o <= 191:
        return 16
    if o <= 223:
        return 24
    if o <= 239:
        return 4
    return 32


def floor_host(ver, v, p):
    h = 2 ** (W[ver] - p)
    return v - v % h


def read_in_family(ver, a, m, implicit_prefix):
    """(value, prefix) denoted by address text a and prefix/mask text m (None = absent) in family ver, or None"""
    w = W[ver]
    first_octet = None
    if ver == 4:
        v = std4(a)
        if v is not None:
            first_octet = v >> 24
        else:
            os_ = partial4(a)
            if os_ is None:
                return None
            os_ = os_ + [0] * (4 - len(os_))
            v = (os_[0] << 24) | (os_[1] << 16) | (os_[2] << 8) | os_[3]
            first_octet = os_[0]
    else:
        v = std6(a)
        if v is None:
            return None
    if m is None:
        p = classful(first_octet) if (implicit_prefix and ver == 4) else w
        return v, p
    p = lenient_int(m)
    if p is not None:
        return (v, p) if 0 <= p <= w else None
    mv = std4(m) if ver == 4 else std6(m)
    if mv is None:
        return None
    inv = 2 ** w - 1 - mv
    if (inv + 1) & inv == 0:                     # contiguous netmask (wins for all-zeros / all-ones)
        return v, w - (inv + 1).bit_length() + 1
    if (mv + 1) & mv == 0:                       # contiguous hostmask
        return v, w - (mv + 1).bit_length() + 1
    return None


def expected_str(s, implicit_prefix, version, flags):
    """what the property fixes about IPNetwork(s, implicit_prefix, version, flags): ('ok', [ver, v, p]) | ('reject',)"""
    if "/" in s:
        a, m = s.split("/", 1)
    else:
        a, m = s, None
    for ver in ((4, 6) if version is None else (version,)):
        r = read_in_family(ver, a, m, implicit_prefix)
        if r is not None:
            v, p = r
            if flags & NOHOST:
                v = floor_host(ver, v, p)
            return ("ok", [ver, v, p])
    return ("reject",)


def expected_init(a, implicit_prefix, version, flags):
    kind = a[0]
    if kind == "n":
        ver, v, p = a[1:]
        return ("ok", [ver, floor_host(ver, v, p) if flags & NOHOST else v, p])
    if kind == "a":
        ver, v = a[1:]
        return ("ok", [ver, v, W[ver]])
    if version not in (None, 4, 6):
        return ("exn", "ValueError")
    if kind == "o":
        return ("exn", "TypeError")
    if kind == "t":
        t = a[1]
        if len(t) != 2:
            return ("reject",)
        v, p = t
        for ver in ((4, 6) if version is None else (version,)):
            if 0 <= v <= 2 ** W[ver] - 1 and 0 <= p <= W[ver]:
                return ("ok", [ver, floor_host(ver, v, p) if flags & NOHOST else v, p])
        return ("reject",)
    return expected_str(a[1], implicit_prefix, version, flags)


def _judge(exp, res, what):
    if exp[0] == "ok":
        if res != exp[1]:
            return "%s built %r, the notation denotes %r" % (what, res, exp[1])
    elif exp[0] == "reject":
        if not (isinstance(res, Exn) and res.name == "AddrFormatError"):
            return "%s: malformed notation produced %r instead of AddrFormatError" % (what, res)
    else:
        if not (isinstance(res, Exn) and res.name == exp[1]):
            return "%s produced %r, expected %s" % (what, res, exp[1])


def _ascii(s):
    return all(ord(c) < 128 for c in s)


def orc_init(args, res):
    a, implicit_prefix, version, flags = args
    if a[0] == "s" and not _ascii(a[1]):
        return None
    return _judge(expected_init(a, implicit_prefix, version, flags), res, "IPNetwork(%r)" % (a[1:],))


def orc_parse(args, res):
    ver, a, implicit_prefix, flags = args
    exp = expected_init(a, implicit_prefix, ver, flags)
    if a[0] in ("n", "a"):
        exp = ("exn", "TypeError")
    if exp[0] == "ok":
        exp = ("ok", exp[1][1:])
    return _judge(exp, res, "parse_ip_network(%r)" % (a[1:],))


def orc_notation(args, res):
    ver, v, p, kind, implicit_prefix, version, flags = args
    w = W[ver]
    if version not in (None, 4, 6):
        exp = ("exn", "ValueError")
    elif version not in (None, ver):
        exp = ("reject",)
    else:
        q = p
        if kind == "hostmask" and p == 0:
            q = w              # all-ones: the netmask reading wins
        elif kind == "hostmask" and p == w:
            q = 0              # all-zeros: the netmask reading wins
        exp = ("ok", [ver, floor_host(ver, v, q) if flags & NOHOST else v, q])
    return _judge(exp, res, "%s notation of %r" % (kind, (ver, v, p)))


def orc_str(args, res):
    ver, v, p = args
    if isinstance(res, Exn):
        return "str() raised %s" % res.name
    if "/" not in res:
        return "str() = %r has no prefix" % res
    a, m = res.split("/", 1)
    if not _CANON.match(m) or int(m) != p:
        return "str() = %r does not show prefix %d" % (res, p)
    got = std4(a) if ver == 4 else std6(a)
    if got != v:
        return "str() = %r: the independent parser reads the address as %r, stored %r" % (res, got, v)


def orc_roundtrip(args, res):
    ver, v, p, implicit_prefix, version, flags = args
    if version not in (None, 4, 6):
        exp = ("exn", "ValueError")
    elif version not in (None, ver):
        exp = ("reject",)
    else:
        exp = ("ok", [ver, floor_host(ver, v, p) if flags & NOHOST else v, p])
    return _judge(exp, res, "str() round trip of %r" % ((ver, v, p),))


def _clean_abbrev(s):
    """(octets, prefix or None) of a clean abbreviation: 1-4 canonical decimal octets 0..255, optional /canonical 0..32"""
    a, _, m = s.partition("/")
    if "/" in s and (not _CANON.match(m) or int(m) > 32):
        return None
    toks = a.split(".")
    if not 1 <= len(toks) <= 4 or not all(_CANON.match(t) and int(t) <= 255 for t in toks):
        return None
    return [int(t) for t in toks], (int(m) if "/" in s else None)


def orc_abbrev(args, res):
    (s,) = args
    if isinstance(res, Exn):
        return "cidr_abbrev_to_verbose raised %s instead of returning its argument" % res.name
    if not isinstance(res, str):
        return "cidr_abbrev_to_verbose returned %r" % (res,)
    if ":" in s or s == "":
        if res != s:
            return "IPv6 / empty text changed to %r" % res
        return None
    # documented: "The original value if it was not recognised as a supported abbreviation" - more than four octets,
    # or a prefix part that is not an integer 0..32, is not an abbreviation
    a, slash, m = s.partition("/")
    if len(a.split(".")) > 4 and lenient_int(s) is None:
        if res != s:
            return "text with more than four octets changed to %r" % res
        return None
    if slash:
        pv = lenient_int(m)
        if pv is None or not 0 <= pv <= 32:
            if res != s:
                return "text whose prefix part is not an integer 0..32 changed to %r" % res
            return None
    c = _clean_abbrev(s)
    if c is not None:
        os_, p = c
        full = os_ + [0] * (4 - len(os_))
        exp = "%d.%d.%d.%d/%d" % (full[0], full[1], full[2], full[3], classful(os_[0]) if p is None else p)
        if res != exp:
            return "abbreviation expanded to %r, the octet-padding and class rules give %r" % (res, exp)


def orc_expand(args, res):
    (s,) = args
    if isinstance(res, Exn):
        if res.name != "AddrFormatError":
            return "expand_partial_address raised %s" % res.name
        if partial_tokens(s) is not None:
            return "partial address rejected"
        return None
    pt = partial_tokens(s)
    if pt is None:
        return "not a partial address, yet expanded to %r" % (res,)
    full = pt + [0] * (4 - len(pt))
    exp = "%d.%d.%d.%d" % tuple(full)
    if res != exp:
        return "expanded to %r, octet padding gives %r" % (res, exp)


def partial_tokens(t):
    """integer values of the 1-4 tokens (any integers: range checking is the address parser's business)"""
    if ":" in t:
        return None
    toks = t.split(".")
    if not 1 <= len(toks) <= 4:
        return None
    vals = [lenient_int(x) for x in toks]
    if any(v is None for v in vals):
        return None
    return vals


ORACLE = {
    "c03_init": orc_init, "c03_parse": orc_parse, "c03_notation": orc_notation, "c03_str": orc_str,
    "c03_roundtrip": orc_roundtrip, "c03_abbrev": orc_abbrev, "c03_expand": orc_expand,
}


# ------------------------------------------------------------------ generators
def print4(v):
    return "%d.%d.%d.%d" % (v >> 24, (v >> 16) & 255, (v >> 8) & 255, v & 255)


def print_addr(rng, ver, v):
    if ver == 4:
        return print4(v)
    return _c01.print6(v, rng.choice(("compact", "compact", "full", "verbose")))


def values_for(rng, ver, p, n):
    """values biased to the block structure of prefix p: block ends, +-1, host bits set/clear, family ends"""
    w = W[ver]
    h = 2 ** (w - p)
    mx = 2 ** w - 1
    out = []
    for _ in range(n):
        base = gens.rand_value(rng, ver)
        first = base - base % h
        out.append(rng.choice([base, first, first + h - 1, min(mx, first + 1), max(0, first + h - 2), first + h // 2,
                               0, mx, mx - mx % h, h - 1, min(mx, h), 1]))
    return out


BAD_PREFIX = ["-2", "-1", "-0", "+0", " 24", "24 ", "\t8\n", "+24", "2_4", "_24", "24_", "2__4", "", " ", "0x18", "24.0",
              "1e1", "00024", "0000", "1 2", "--1", "+-1", "24/", "/24", "1/2", "a", "::", "0.0.0.0", "255.255.255.255",
              "255.255.255.256", "255.255.255", "255.0.255.0", "0.255.255.255", "0.0.0.256", "ffff::", "::ffff",
              "ffff:ffff:ffff:ffff:ffff:ffff:ffff:ffff", "ffff::ffff", "::1", "8000::", "7fff::", "f000::/4",
              "10" * 20, "9" * 40, "\x0b3\x0c", "3\x1c", "\x1f3", "3\r", "\0", "3\0"]

PARTIAL_OCTETS = [0, 1, 9, 10, 99, 100, 126, 127, 128, 129, 190, 191, 192, 193, 222, 223, 224, 225, 238, 239, 240, 241,
                  254, 255, 256, 257, 300, 999, 1000, -1]
LENIENT = ["%d", "%d", "%d", "%d", "%03d", "%04d", " %d", "%d ", "+%d", "-%d", "%d_", "_%d", "\t%d", "0x%x", "%d.", "",
           "%de0", "0%o"]

ABBREV_EXTRA = ["", ":", "::", "::1", "1:2", "/", "//", "/8", "1/", "1//", "1/8/", "1/8/9", ".", "..", "...", "....", ".1",
                "1.", "1..2", "1.2.3.4.5", "1.2.3.4.5/8", "a", "a.b", "1.a", "a/8", "1/a", "1/ 8", "1/+8", "1/-0", "1/-1",
                "1/33", "1/32", "1/0", "1/032", "1/3_2", "256", "256/8", "256.1", "256.1/8", "999.1.1.1", "-1", "-1.2",
                "-0", "-0.1", "+1.2", " 1.2", "1 .2", "1_0", "1_0.2", "1__0", "0x10", "0x10.1", "1e1", "10/255.0.0.0",
                "10.1/0.0.255.255", "10.1/255.255.0.0", "10/8.0", "1.2.3.4/1/2", "00", "010", "010.1", "0.0.0.0", "0",
                "0/0", "255.255.255.255/32", "224", "239.255", "240.0.0", "127/8", "128", "191.255", "192", "223",
                "1.2.3.4 ", "1.2.3.4\n", "1.2.3.4/24 ", "\x0b1", "1\x1c", "1.2.3.4/", "1.2/16", "172.24.200"]


def mask_text(rng, ver, m):
    return print_addr(rng, ver, m)


def flipped_masks(rng, ver, per_mask):
    """every contiguous netmask / hostmask with 1-2 flipped bits"""
    w = W[ver]
    out = []
    for p in range(w + 1):
        for m in (2 ** w - 2 ** (w - p), 2 ** (w - p) - 1):
            out.append(m)
            # the bits next to the boundary and random ones
            cand = [w - p - 1, w - p, w - p + 1, 0, w - 1]
            for b in cand:
                if 0 <= b < w:
                    out.append(m ^ (1 << b))
            for _ in range(per_mask):
                x = m ^ (1 << rng.randrange(w))
                out.append(x)
                out.append(x ^ (1 << rng.randrange(w)))
    return out


GRID = [(ip, ver_arg, fl) for ip in (False, True) for ver_arg in ("none", "own") for fl in (0, NOHOST)]


def _ver(ver_arg, ver):
    return {"none": None, "own": ver, "other": 10 - ver, "bad": 5}[ver_arg]


def combos(rng, quick, k):
    return rng.sample(GRID, k) if quick else GRID


def cases(rng, tier):
    quick = tier == "quick"
    yield from pystr_cases.cases(rng, tier)

    # ---- every prefix x values x notations x flags x implicit_prefix x version
    for ver in (4, 6):
        w = W[ver]
        for p in range(w + 1):
            nv = (5 if ver == 4 else 3) if quick else 40
            for v in values_for(rng, ver, p, nv):
                for kind in ("prefix", "netmask", "hostmask"):
                    for ip, va, fl in combos(rng, quick, 2):
                        yield ("c03_notation", [ver, v, p, kind, ip, _ver(va, ver), fl], "notation_%s_v%d" % (kind, ver))
                for ip, va, fl in combos(rng, quick, 2):
                    # the tuple does not carry the family: implicit version reads small IPv6 values as IPv4
                    yield ("c03_init", [["t", [v, p]], ip, _ver(va, ver), fl], "tuple_v%d" % ver)
                    yield ("c03_init", [["n", ver, v, p], ip, _ver(va, ver), fl], "copy_net_v%d" % ver)
                for ip, va, fl in combos(rng, quick, 1):
                    yield ("c03_init", [["a", ver, v], ip, _ver(va, ver), fl], "copy_addr_v%d" % ver)
                    yield ("c03_roundtrip", [ver, v, p, ip, _ver(va, ver), fl], "roundtrip_v%d" % ver)
                    # bare address: full-width prefix (classful for IPv4 when implicit_prefix)
                    yield ("c03_init", [["s", print_addr(rng, ver, v)], ip, _ver(va, ver), fl], "bare_v%d" % ver)
                yield ("c03_str", [ver, v, p], "str_v%d" % ver)
                if rng.random() < (0.15 if quick else 0.3):
                    kind = rng.choice(("prefix", "netmask", "hostmask"))
                    yield ("c03_notation", [ver, v, p, kind, rng.random() < 0.5, rng.choice((10 - ver, 5, 0, 46)),
                                            rng.choice((0, NOHOST))], "notation_badver")
                    yield ("c03_roundtrip", [ver, v, p, False, 10 - ver, 0], "roundtrip_otherver")
                    yield ("c03_init", [["n", ver, v, p], False, rng.choice((10 - ver, 5)), NOHOST], "copy_otherver")
                    yield ("c03_init", [["a", ver, v], True, rng.choice((10 - ver, 5)), NOHOST], "copy_otherver")
                    yield ("c03_parse", [ver, ["t", [v, p]], False, rng.choice((0, NOHOST))], "parse_direct")
                    yield ("c03_parse", [ver, ["s", "%s/%d" % (print_addr(rng, ver, v), p)], rng.random() < 0.5,
                                         rng.choice((0, NOHOST))], "parse_direct")
                    yield ("c03_parse", [ver, ["n", ver, v, p], False, 0], "parse_direct")
                    # other flag bits are ignored by IPNetwork (only NOHOST is looked at)
                    yield ("c03_init", [["s", "%s/%d" % (print4(v) if ver == 4 else _c01.print6(v, "compact"), p)],
                                        False, None, rng.choice((1, 2, 3, 5, 6, 7, 8, 12))], "other_flags")

    # ---- malformed prefix texts and masks on valid printed addresses
    for ver in (4, 6):
        w = W[ver]
        addrs = [print_addr(rng, ver, v) for v in values_for(rng, ver, rng.randrange(w + 1), 12 if quick else 60)]
        texts = list(BAD_PREFIX) + [str(x) for x in (w + 1, w + 2, w + 3, w, 0, 2 ** 31, 2 ** 64, 10 ** 30, -w, 129, 33, 32,
                                                     128, 255, 256)]
        for t in texts:
            for a in (rng.sample(addrs, 3) if quick else addrs[:12]):
                for ip, va, fl in combos(rng, quick, 2):
                    yield ("c03_init", [["s", a + "/" + t], ip, _ver(va, ver), fl], "bad_prefix_v%d" % ver)
        masks = flipped_masks(rng, ver, 1 if quick else 6)
        if quick and ver == 6:
            masks = rng.sample(masks, 1200)
        for m in masks:
            a = rng.choice(addrs)
            ip, va, fl = rng.choice(GRID)
            yield ("c03_init", [["s", a + "/" + mask_text(rng, ver, m)], ip, _ver(va, ver), fl], "mask_v%d" % ver)
            if rng.random() < 0.08:      # the mask text with something after it that only a lenient reader would swallow
                yield ("c03_init", [["s", a + "/" + mask_text(rng, ver, m) + rng.choice(["\n", " ", "\t", "\n\n", "\x00"])], ip, _ver(va, ver), fl],
                       "mask_trailing_v%d" % ver)
        # masks of the other family / other spellings
        for _ in range(40 if quick else 800):
            a = rng.choice(addrs)
            ov = 10 - ver
            m = rng.choice(flipped_masks(rng, ov, 0))
            ip, va, fl = rng.choice(GRID)
            yield ("c03_init", [["s", a + "/" + mask_text(rng, ov, m)], ip, _ver(va, ver), fl], "mask_otherfamily")

    # ---- the longest spellings: six four-digit groups and a dotted quad (45 characters) on both sides of the '/', up to 91 characters
    # in all -- a length bound computed from the 39-character all-hextet form would refuse them
    def long6(v):
        return ":".join("%04x" % ((v >> (112 - 16 * i)) & 0xffff) for i in range(6)) + ":" + print4(v & 0xffffffff)
    for _ in range(60 if quick else 1500):
        v = rng.choice([rng.getrandbits(128), (1 << 128) - 1 - rng.getrandbits(20), rng.getrandbits(128) | 0x64646464, 0xffff00000000 | rng.getrandbits(32)])
        p = rng.randrange(129)
        ip, va, fl = rng.choice(GRID)
        k = rng.random()
        if k < 0.45:
            t = long6((1 << 128) - (1 << (128 - p)))          # netmask
        elif k < 0.8 and 0 < p < 128:
            t = long6((1 << (128 - p)) - 1)                   # hostmask
        else:
            t = "%d" % p
        yield ("c03_init", [["s", long6(v) + "/" + t], ip, _ver(va, 6), fl], "long_v6")

    # ---- malformed / unusual address parts (C01's spellings and their edits), bare and with a prefix
    s4, s6 = _c01.seeds()
    for fam, ss, alpha in ((4, s4, _c01.ALPHA4), (6, s6, _c01.ALPHA6)):
        for s in ss:
            cands = [s]
            for _ in range(6 if quick else 60):
                cands.append(_c01.edit(rng, s, alpha))
            for _ in range(2 if quick else 40):
                cands.append(_c01.edit(rng, _c01.edit(rng, s, alpha), alpha))
            for c in cands:
                if not _ascii(c):
                    continue
                suffix = rng.choice(["", "", "/%d" % rng.randrange(W[fam] + 1), "/0", "/%d" % W[fam], "/%d" % (W[fam] + 1),
                                     "/" + print_addr(rng, fam, 2 ** W[fam] - 2 ** rng.randrange(W[fam] + 1))])
                ip, va, fl = rng.choice(GRID)
                yield ("c03_init", [["s", c + suffix], ip, _ver(va, fam), fl], "addr_spelling_v%d" % fam)
                if rng.random() < 0.3:
                    yield ("c03_init", [["s", c + suffix], not ip, None, fl], "addr_spelling_v%d" % fam)

    # ---- structural near-misses
    for a in ("1.2.3.4", "::1", "10", "fe80::1", ""):
        for t in ("", "/", "//", "/24", "/24/", "/24/1", "/1/2", "/255.255.255.0/1", "/ffff::/1", "/ /", "/24 /"):
            for ip in (False, True):
                for va in (None, 4, 6):
                    yield ("c03_init", [["s", a + t], ip, va, rng.choice((0, NOHOST))], "slashes")
    for s in ("/", "/24", "/0", "//", " ", "/ ", "\n", "a", "1.2.3.4/24\n", " 1.2.3.4/24", "1.2.3.4 /24", "::1 /64",
              "1.2.3.4\0/24", "1.2.3.4/24\0"):
        for ip in (False, True):
            for va in (None, 4, 6, 5):
                yield ("c03_init", [["s", s], ip, va, rng.choice((0, NOHOST))], "slashes")

    # ---- tuples and non-str / non-tuple arguments
    for ver in (4, 6):
        w = W[ver]
        mx = 2 ** w - 1
        for v in (-2, -1, 0, 1, mx - 1, mx, mx + 1, mx + 2, 2 ** 32 - 1, 2 ** 32, 2 ** 128 - 1, 2 ** 128, 2 ** 200):
            for p in (-2, -1, 0, 1, 31, 32, 33, 34, 127, 128, 129, 130, w, w + 1, 10 ** 9):
                for va in (None, ver, 10 - ver):
                    yield ("c03_init", [["t", [v, p]], rng.random() < 0.5, va, rng.choice((0, NOHOST))], "tuple_range")
    for t in ([], [1], [1, 2, 3], [0, 0, 0, 0], [2 ** 40], [1, 2, 3, 4, 5]):
        for va in (None, 4, 6, 5):
            yield ("c03_init", [["t", t], False, va, rng.choice((0, NOHOST))], "tuple_len")
    for k in sorted(OTHER):
        for va in (None, 4, 6, 5):
            for ip in (False, True):
                yield ("c03_init", [["o", k], ip, va, rng.choice((0, NOHOST))], "other_type")
        yield ("c03_parse", [4, ["o", k], False, 0], "other_type")
        yield ("c03_parse", [6, ["o", k], True, NOHOST], "other_type")

    # ---- partial / classful IPv4 forms
    def octet_text(o, lenient):
        f = rng.choice(LENIENT) if lenient else "%d"
        try:
            return f % o if "%" in f else f
        except (TypeError, ValueError):
            return "%d" % o

    npart = 4000 if quick else 80000
    for i in range(npart):
        k = rng.choice((1, 1, 2, 2, 3, 3, 4, 5))
        lenient = rng.random() < 0.25
        os_ = [rng.choice(PARTIAL_OCTETS) if rng.random() < 0.7 else rng.randrange(256) for _ in range(k)]
        if rng.random() < 0.8:
            os_ = [min(255, max(0, o)) for o in os_]
        a = ".".join(octet_text(o, lenient and rng.random() < 0.5) for o in os_)
        r = rng.random()
        if r < 0.4:
            suffix = ""
        elif r < 0.8:
            suffix = "/%d" % rng.choice([0, 1, 4, 8, 16, 24, 31, 32, 33, rng.randrange(33)])
        elif r < 0.9:
            suffix = "/" + rng.choice([" 8", "+8", "0_8", "08", "-1", "33", "128", "", "8/", "x"])
        else:
            suffix = "/" + print4(rng.choice(flipped_masks(rng, 4, 0)))
        s = a + suffix
        ip = rng.random() < 0.6
        va = rng.choice((None, None, 4, 4, 6))
        fl = rng.choice((0, NOHOST))
        yield ("c03_init", [["s", s], ip, va, fl], "partial")
        if rng.random() < 0.5:
            yield ("c03_init", [["s", s], not ip, va, fl], "partial")
        yield ("c03_abbrev", [s], "abbrev")
        yield ("c03_expand", [a], "expand")
        if rng.random() < 0.2:
            yield ("c03_expand", [s], "expand")
    # every first octet 0..256 alone and with one more octet (class boundaries)
    for o in range(0, 258):
        for s in ("%d" % o, "%d.1" % o, "%d.0.0.1" % o, "%d/%d" % (o, rng.randrange(34))):
            yield ("c03_abbrev", [s], "abbrev_class")
            yield ("c03_init", [["s", s], True, rng.choice((None, 4)), rng.choice((0, NOHOST))], "partial_class")
            if o % 16 == 0:
                yield ("c03_init", [["s", s], False, rng.choice((None, 4)), 0], "partial_class")
    for s in ABBREV_EXTRA:
        yield ("c03_abbrev", [s], "abbrev_extra")
        yield ("c03_expand", [s], "expand_extra")
        for ip in (False, True):
            for va in (None, 4, 6):
                yield ("c03_init", [["s", s], ip, va, rng.choice((0, NOHOST))], "abbrev_extra")
    for s in ABBREV_EXTRA:
        for _ in range(4 if quick else 80):
            t = _c01.edit(rng, s, "0123456789./ +-_:a")
            yield ("c03_abbrev", [t], "abbrev_edit")
            yield ("c03_expand", [t], "expand_edit")
            yield ("c03_init", [["s", t], rng.random() < 0.6, rng.choice((None, 4)), rng.choice((0, NOHOST))], "abbrev_edit")


# ---- object-lifecycle checks (harness/lifecycle.py): objects with a history behave like fresh ones, results do not
# alias operands, failed mutators change nothing.  The functional model has no hidden state: its answer is "no discrepancy".
from harness import lifecycle as _life
IMPL.update(_life.IMPL)
ORACLE.update(_life.ORACLE)
EXACT = tuple(EXACT) + ("life",)
RULE = RULE + " | lifecycle: observe-mutate-observe vs a fresh object, aliasing of results, failure atomicity (net)"
_cases_without_life = cases


def cases(rng, tier):
    yield from _cases_without_life(rng, tier)
    yield from _life.cases(rng, tier, {'net'})
