"""C08 — EUI text round-trips in every dialect; derived identifiers follow the standards."""
from harness import pystr_cases
from harness.wire import Exn

PROP = "C08"
THEOREM_FILE = "Props/C08.v"
EXTRA_THEOREM_FILES = ["Props/C08_src.v"]     # source tie: translated source = model (DESIGN 5.1b)
EXTRA_THEOREM_FILES.append("Props/C08_src_b.v")     # SRCF: second part of the source tie (strategy/eui48, eui64 functions, EUI accessors)
EXTRA_THEOREM_FILES.append("Props/C08_src_c.v")     # SRCF: third part (int_to_str, dialect handling, __str__, format)
EXTRA_THEOREM_FILES.append("Props/C08_src_d.v")     # SRCF: fourth part (valid_str, str_to_int, _get_match_result)
EXTRA_THEOREM_FILES.append("Props/C08_src_e.v")     # SRCF: fifth part (EUI.__init__, _set_value)
EXTRA_THEOREM_FILES.append("Props/C08_src_f.v")     # SRCF: sixth part (EUI.__setstate__, IAB.split_iab_mac)
EXTRA_THEOREM_FILES.append("Props/C08_code.v")   # CODB: code-level theorems (the C08 theorems stated about the regenerated definitions)
RULE = ("objects: 11 built-in dialects + 7 user subclasses (custom separator / word_fmt / word size) x boundary values "
        "(0, max, 2^k, 2^k-1, a single non-zero octet 01/80/ff at each position, decimal-only digit patterns, both IAB "
        "OUIs) and random values x every accessor and conversion; every index -n-1..n and word assignment at both ends "
        "of the word range; spellings: each value printed in every accepted spelling (1-2 digit octets with : or -, "
        "1-4 digit hextets with : - ., PostgreSQL 5-6 digit halves, bare 12/11/16 digits, random case) parsed with "
        "implicit and explicit version; malformed stream: wrong group counts, 3-digit octets, 5-digit hextets, mixed "
        "separators, trailing newline(s), spaces, non-hex characters, decimal integers of 1..22 digits with signs / "
        "underscores / whitespace, through EUI(), valid_mac, valid_eui64, str_to_int and each regular expression "
        "separately; constructor with ints at the 2^48 / 2^64 boundaries, versions None/48/64/other, copy construction, "
        "bad dialect objects; pairs for comparison/hash with equal values in different dialects and versions; "
        "plus the CPython validation cases of the string prelude (pystr_*)")

W = {48: 48, 64: 64}
D48 = ["mac_eui48", "mac_unix", "mac_unix_expanded", "mac_cisco", "mac_bare", "mac_pgsql"]
D64 = ["eui64_base", "eui64_unix", "eui64_unix_expanded", "eui64_cisco", "eui64_bare"]
U48 = [[8, 6, ".", "%02x"], [8, 6, " ", "%.2X"], [16, 3, ":", "%.4X"], [24, 2, "-", "%06X"]]
U64 = [[8, 8, ".", "%02X"], [16, 4, ":", "%x"], [32, 2, "-", "%.8x"]]
BUILTIN = {"mac_eui48": (8, 6, "-", "%.2X"), "mac_unix": (8, 6, ":", "%x"), "mac_unix_expanded": (8, 6, ":", "%.2x"),
           "mac_cisco": (16, 3, ".", "%.4x"), "mac_bare": (48, 1, "", "%.12X"), "mac_pgsql": (24, 2, ":", "%.6x"),
           "eui64_base": (8, 8, "-", "%.2X"), "eui64_unix": (8, 8, ":", "%x"), "eui64_unix_expanded": (8, 8, ":", "%.2x"),
           "eui64_cisco": (16, 4, ".", "%.4x"), "eui64_bare": (64, 1, "", "%.16X")}
IAB_OUIS = (0x0050c2, 0x40d855)


# ------------------------------------------------------------------ implementation adapters
def _dialect(d):
    import netaddr
    from netaddr.strategy import eui48, eui64
    if d is None:
        return None
    if d == "<bad>":
        return "not a dialect class"
    if isinstance(d, str):
        return getattr(eui48, d) if hasattr(eui48, d) else getattr(eui64, d)
    ws, nw, sep, fmt = d
    base = netaddr.mac_eui48 if ws * nw != 64 else netaddr.eui64_base
    return type("user_dialect", (base,), dict(word_size=ws, num_words=nw, word_sep=sep, word_fmt=fmt))


def _ddesc(c):
    return [c.word_size, c.num_words, c.word_sep, c.word_fmt]


def _mk(ver, v, d):
    import netaddr
    return netaddr.EUI(v, version=ver, dialect=_dialect(d))


def _eui(e):
    return [e.version, int(e), _ddesc(e.dialect)]


def _try(f):
    try:
        return f()
    except Exception as ex:  # noqa
        from harness.wire import exn_of
        return exn_of(ex)


def _arg(a):
    if isinstance(a, list) and a and a[0] == "eui":
        return _mk(a[1], a[2], a[3])
    return a


class _Recorder(Exception):
    pass


def _captured(e, attr, cls_name):
    """The integer EUI.<attr> hands to the OUI / IAB constructor (the registry lookup is property C19)."""
    import netaddr.eui as E
    from netaddr.core import NotRegisteredError
    try:
        o = getattr(e, attr)
        return None if o is None else int(o)
    except NotRegisteredError:
        pass
    real = getattr(E, cls_name)
    got = []

    class Stub(object):
        IAB_EUI_VALUES = getattr(real, "IAB_EUI_VALUES", None)

        def __init__(self, x, *a, **k):
            got.append(x)

    setattr(E, cls_name, Stub)
    try:
        getattr(e, attr)
    finally:
        setattr(E, cls_name, real)
    (x,) = got
    if cls_name == "IAB":
        return real.split_iab_mac(x)[0]
    if not 0 <= x <= 0xffffff:
        raise ValueError("OUI int outside expected range")
    return x


def impl_re_match(ver, idx, s):
    from netaddr.strategy import eui48, eui64
    r = (eui64.RE_EUI64_FORMATS if ver == 64 else eui48.RE_MAC_FORMATS)[idx]
    m = r.findall(s)
    if len(m) == 0:
        return None
    return list(m[0]) if isinstance(m[0], tuple) else [m[0]]


def impl_valid_str(ver, s):
    import netaddr
    return netaddr.valid_eui64(s) if ver == 64 else netaddr.valid_mac(s)


def impl_str_to_int(ver, a):
    from netaddr.strategy import eui48, eui64
    return (eui64 if ver == 64 else eui48).str_to_int(a)


def impl_int_to_str(v, d):
    from netaddr.strategy import eui48, eui64
    c = _dialect(d)
    m = eui64 if c.word_size * c.num_words == 64 else eui48
    r = m.int_to_str(v, c)
    if c is (eui64.eui64_base if m is eui64 else eui48.mac_eui48):     # the documented default: leaving it out is the same call
        assert m.int_to_str(v) == r, "int_to_str without a dialect differs from the default dialect"
    return r


def impl_init(a, ver, d):
    import netaddr
    return _eui(netaddr.EUI(_arg(a), version=ver, dialect=_dialect(d)))


def impl_spelling(s, ver, exp_ver, exp_val):
    import netaddr
    e = netaddr.EUI(s) if ver is None else netaddr.EUI(s, version=ver)
    return [e.version, int(e)]


def impl_roundtrip(ver, v, d):
    import netaddr
    e = _mk(ver, v, d)
    s = _try(lambda: str(e))
    if isinstance(s, Exn):
        return s
    return [s, _try(lambda: _eui(netaddr.EUI(s))), _try(lambda: _eui(netaddr.EUI(s, version=ver)))]


def impl_access(ver, v, d):
    e = _mk(ver, v, d)
    nw = e.dialect.num_words
    return [_try(lambda: str(e)), _try(lambda: list(e.words)), _try(lambda: e.packed.decode("latin-1")),
            _try(lambda: e.bits()), _try(lambda: e.bin), _try(lambda: e.ei), _try(lambda: _captured(e, "oui", "OUI")),
            e.is_iab(), _try(lambda: _captured(e, "iab", "IAB")), e.version, int(e),
            [_try(lambda i=i: e[i]) for i in range(-nw - 1, nw + 1)]]


def impl_bits(ver, v, d, sep):
    e = _mk(ver, v, d)
    return e.bits() if sep is None else e.bits(sep)


def impl_getitem(ver, v, d, idx):
    return _mk(ver, v, d)[idx]


def _mut(e, f):
    x = None
    try:
        f()
    except Exception as ex:  # noqa
        from harness.wire import exn_of
        x = exn_of(ex)
    return [_eui(e), x]


def impl_setitem(ver, v, d, idx, x):
    e = _mk(ver, v, d)
    return _mut(e, lambda: e.__setitem__(idx, x))


def impl_set_value(ver, v, d, a):
    e = _mk(ver, v, d)
    a = _arg(a)
    return _mut(e, lambda: setattr(e, "value", a))


def impl_set_dialect(ver, v, d, d2):
    e = _mk(ver, v, d)
    return _mut(e, lambda: setattr(e, "dialect", _dialect(d2)))


def impl_format(ver, v, d, d2):
    return _mk(ver, v, d).format(_dialect(d2))


def impl_conv(ver, v, d):
    e = _mk(ver, v, d)

    def ll():
        a = e.ipv6_link_local()
        return [a.version, int(a)]
    return [_try(lambda: _eui(e.eui64())), _try(lambda: _eui(e.modified_eui64())), _try(ll)]


def impl_ipv6(ver, v, d, prefix):
    a = _mk(ver, v, d).ipv6(prefix)
    return [a.version, int(a)]


def impl_cmp(ver1, v1, d1, ver2, v2, d2):
    a, b = _mk(ver1, v1, d1), _mk(ver2, v2, d2)
    res = [a == b, a != b, a < b, a <= b, a > b, a >= b, hash(a) == hash((a.version, int(a))),
           (not (a == b)) or hash(a) == hash(b)]
    # the right operand given as its text (which parses back to the same version and value) or, when the bare integer
    # denotes the same identifier, as an int must compare exactly like the object; a foreign object is unequal
    import netaddr
    forms = []
    try:      # custom dialects may print text that is not an accepted spelling; the built-in ones are covered by eui_roundtrip
        t = netaddr.EUI(str(b))
        if (t.version, int(t)) == (b.version, int(b)):
            forms.append(str(b))
    except netaddr.AddrFormatError:
        pass
    if ver2 == 48 or v2 >= 2 ** 48:
        forms.append(v2)
    def _try(op):
        try:
            return op()
        except TypeError:
            return "unordered"
    for f in forms:
        got = [a == f, a != f, _try(lambda: a < f), _try(lambda: a <= f), _try(lambda: a > f), _try(lambda: a >= f)]
        # either the form is compared as the identifier it denotes, or it is not comparable at all - never something else
        assert got == res[:6] or got == [False, True] + ["unordered"] * 4, \
            "comparison with %r differs from comparison with the EUI: %r vs %r" % (f, got, res[:6])
    class _Foreign(object):
        pass
    o = _Foreign()
    assert (a == o) is False and (a != o) is True, "EUI equals a foreign object (whose hash is its own)"
    return res


def impl_split_iab_mac(i, strict):
    from netaddr.eui import IAB
    return list(IAB.split_iab_mac(i, strict))


def impl_words_to_int(ws, wsz, nw):
    from netaddr.strategy import words_to_int
    return words_to_int(ws, wsz, nw)


def impl_int_to_words(v, wsz, nw):
    from netaddr.strategy import int_to_words
    return list(int_to_words(v, wsz, nw))


def impl_int_to_bits(v, wsz, nw, sep):
    from netaddr.strategy import int_to_bits
    return int_to_bits(v, wsz, nw, sep)


IMPL = {
    "re_match": impl_re_match, "eui_valid_str": impl_valid_str, "eui_str_to_int": impl_str_to_int,
    "eui_int_to_str": impl_int_to_str, "eui_init": impl_init, "eui_spelling": impl_spelling,
    "eui_roundtrip": impl_roundtrip, "eui_access": impl_access, "eui_bits": impl_bits, "eui_getitem": impl_getitem,
    "eui_setitem": impl_setitem, "eui_set_value": impl_set_value, "eui_set_dialect": impl_set_dialect,
    "eui_format": impl_format, "eui_conv": impl_conv, "eui_ipv6": impl_ipv6, "eui_cmp": impl_cmp,
    "split_iab_mac": impl_split_iab_mac, "eui_words_to_int": impl_words_to_int,
    "eui_int_to_words": impl_int_to_words, "eui_int_to_bits": impl_int_to_bits,
}
IMPL.update(pystr_cases.IMPL)


# ------------------------------------------------------------------ property oracles (plain integer arithmetic)
def _shape(d, ver):
    """(word_size, num_words, sep, fmt) of a dialect argument."""
    if d is None:
        d = "eui64_base" if ver == 64 else "mac_eui48"
    return BUILTIN[d] if isinstance(d, str) else tuple(d)


def _fits(d, ver):
    ws, nw = _shape(d, ver)[:2]
    return ws * nw == W[ver]


def _octets(ver, v):
    n = W[ver] // 8
    return [(v >> (8 * (n - 1 - i))) & 0xff for i in range(n)]


def _text(ver, v, d):
    ws, nw, sep, fmt = _shape(d, ver)
    return sep.join(fmt % ((v >> (ws * (nw - 1 - i))) & (2 ** ws - 1)) for i in range(nw))


def _valid_obj(ver, v, d):
    return ver in W and 0 <= v < 2 ** W[ver] and d != "<bad>"


def orc_access(args, res):
    ver, v, d = args
    if not _valid_obj(ver, v, d):
        return None
    if isinstance(res, Exn):
        return "constructing a valid EUI raised %s" % res.name
    s, words, packed, bits, bn, ei, oui, is_iab, iab, version, value, items = res
    octs = _octets(ver, v)
    w = W[ver]
    exp_is_iab = (v >> 24) in IAB_OUIS
    checks = [
        ("words", words, octs),
        ("packed", packed, "".join(chr(o) for o in octs)),
        ("bits", bits, "-".join(format(o, "08b") for o in octs)),
        ("bin", bn, bin(v)),
        ("ei", ei, "-".join("%02X" % o for o in octs[3:])),
        ("oui", oui, v >> (w - 24)),
        ("version", version, ver), ("value", value, v),
    ]
    if ver == 48:
        checks += [("is_iab", is_iab, exp_is_iab), ("iab", iab, (v >> 12) if exp_is_iab else None)]
    if _fits(d, ver):
        ws, nw = _shape(d, ver)[:2]
        ws_words = [(v >> (ws * (nw - 1 - i))) & (2 ** ws - 1) for i in range(nw)]
        exp_items = [Exn("IndexError")] + ws_words + ws_words + [Exn("IndexError")]
        checks += [("items", items, exp_items), ("str", s, _text(ver, v, d))]
    bad = [n for n, a, b in checks if a != b]
    if bad:
        return "accessor(s) %s differ from the value's meaning (dialect %r)" % (",".join(bad), d)


def orc_bits(args, res):
    ver, v, d, sep = args
    if not _valid_obj(ver, v, d):
        return None
    exp = ("-" if sep is None else sep).join(format(o, "08b") for o in _octets(ver, v))
    if res != exp:
        return "bits(%r) is not the octets' binary digits joined by the separator" % (sep,)


def orc_getitem(args, res):
    ver, v, d, idx = args
    if not (_valid_obj(ver, v, d) and _fits(d, ver)):
        return None
    ws, nw = _shape(d, ver)[:2]
    if -nw <= idx < nw:
        exp = (v >> (ws * (nw - 1 - idx % nw))) & (2 ** ws - 1)
    else:
        exp = Exn("IndexError")
    if res != exp:
        return "e[%d] is not the %d-bit word at that index" % (idx, ws)


def orc_setitem(args, res):
    ver, v, d, idx, x = args
    if not (_valid_obj(ver, v, d) and _fits(d, ver)):
        return None
    if isinstance(res, Exn):
        return "constructing a valid EUI raised %s" % res.name
    ws, nw, sep, fmt = _shape(d, ver)
    post, e = res
    if 0 <= idx < nw and 0 <= x < 2 ** ws:
        sh = ws * (nw - 1 - idx)
        exp = (v & ~((2 ** ws - 1) << sh)) | (x << sh)
        if e is not None:
            return "assigning an in-range word raised %s" % e.name
        if post != [ver, exp, [ws, nw, sep, fmt]]:
            return "word assignment changed something other than word %d" % idx
    else:
        if e is None or e.name != "IndexError":
            return "out-of-range word assignment did not raise IndexError"
        if post[:2] != [ver, v]:
            return "failed word assignment changed the object"


def orc_conv(args, res):
    ver, v, d = args
    if not _valid_obj(ver, v, d):
        return None
    if isinstance(res, Exn):
        return "constructing a valid EUI raised %s" % res.name
    e64, mod, ll = res
    if ver == 48:
        o = _octets(48, v)
        iid = int.from_bytes(bytes(o[:3] + [0xff, 0xfe] + o[3:]), "big")
    else:
        iid = v
    if e64 != [64, iid, [8, 8, "-", "%.2X"]]:
        return "eui64() is not o0 o1 o2 FF FE o3 o4 o5"
    flipped = iid ^ (1 << 57)
    if mod[:2] != [64, flipped]:
        return "modified_eui64() does not flip exactly the universal/local bit"
    if ll != [6, (0xfe80 << 112) | flipped]:
        return "ipv6_link_local() is not fe80::/64 | interface identifier"


def _iid(ver, v):
    if ver == 48:
        v = ((v >> 24) << 40) | 0xfffe000000 | (v & 0xffffff)
    return v ^ (1 << 57)


def orc_ipv6(args, res):
    ver, v, d, prefix = args
    if not _valid_obj(ver, v, d):
        return None
    t = prefix + _iid(ver, v)
    exp = [6, t] if 0 <= t < 2 ** 128 else Exn("AddrFormatError")
    if res != exp:
        return "ipv6(prefix) is not prefix + interface identifier"


def orc_cmp(args, res):
    ver1, v1, d1, ver2, v2, d2 = args
    if not (_valid_obj(ver1, v1, d1) and _valid_obj(ver2, v2, d2)):
        return None
    a, b = (ver1, v1), (ver2, v2)
    exp = [a == b, a != b, a < b, a <= b, a > b, a >= b, True, True]
    if res != exp:
        return "comparison/hash is not the one of (version, value)"


def orc_roundtrip(args, res):
    ver, v, d = args
    if not (_valid_obj(ver, v, d) and (d is None or isinstance(d, str)) and _fits(d, ver)):
        return None
    if isinstance(res, Exn):
        return "printing a valid EUI raised %s" % res.name
    s, imp, exp = res
    dflt = list(BUILTIN["eui64_base" if ver == 64 else "mac_eui48"])
    if s != _text(ver, v, d):
        return "str() is not the dialect's rendering"
    if imp != [ver, v, dflt]:
        return "EUI(str(e)) is not e (implicit version)"
    if exp != [ver, v, dflt]:
        return "EUI(str(e), version) is not e (explicit version)"


def orc_spelling(args, res):
    s, ver, exp_ver, exp_val = args
    if exp_ver is None:
        return None
    if res != [exp_ver, exp_val]:
        return "accepted spelling %r does not yield the value it spells" % (s,)


def orc_text(args, res):
    if len(args) == 2:
        v, d = args
        ver = 64 if _shape(d, 48)[0] * _shape(d, 48)[1] == 64 else 48
    else:
        ver, v, d0, d = args
        if not _valid_obj(ver, v, d0):
            return None
    if d == "<bad>" or not _fits(d, ver) or not 0 <= v < 2 ** W[ver]:
        return None
    if res != _text(ver, v, d):
        return "formatted text is not sep.join(fmt % word)"


def orc_init(args, res):
    a, ver, d = args
    if isinstance(a, int) and ver is None and d != "<bad>":
        if 0 <= a < 2 ** 48:
            exp = [48, a]
        elif a < 2 ** 64 and a > 0:
            exp = [64, a]
        else:
            return None if isinstance(res, Exn) else "out-of-range integer accepted"
        if isinstance(res, Exn) or res[:2] != exp:
            return "EUI(int) did not choose the version by magnitude"


ORACLE = {
    "eui_access": orc_access, "eui_bits": orc_bits, "eui_getitem": orc_getitem, "eui_setitem": orc_setitem,
    "eui_conv": orc_conv, "eui_ipv6": orc_ipv6, "eui_cmp": orc_cmp, "eui_roundtrip": orc_roundtrip,
    "eui_spelling": orc_spelling, "eui_format": orc_text, "eui_int_to_str": orc_text, "eui_init": orc_init,
}

EXACT = ("eui_access", "eui_bits", "eui_getitem", "eui_setitem", "eui_conv", "eui_ipv6", "eui_cmp", "eui_roundtrip",
         "eui_spelling") + tuple(pystr_cases.EXACT)


# ------------------------------------------------------------------ generators
def boundary_values(ver):
    w = W[ver]
    n = w // 8
    s = {0, 1, 2 ** w - 1, 2 ** w - 2}
    for k in range(w):
        s.add(2 ** k)
        s.add(2 ** k - 1)
        s.add(2 ** w - 1 - 2 ** k)
    for i in range(n):
        for b in (0x01, 0x0a, 0x10, 0x80, 0xff):
            s.add(b << (8 * i))
            s.add((2 ** w - 1) ^ (b << (8 * i)))
    for oui in IAB_OUIS:
        base = oui << (w - 24)
        s.update({base, base + 1, base + 0x123456, base + 2 ** (w - 24) - 1, base - 1, base + 2 ** (w - 24)})
    s.add(0x41000000)
    return sorted(x for x in s if 0 <= x < 2 ** w)


def rand_value(rng, ver):
    w = W[ver]
    r = rng.random()
    if r < 0.3:
        return rng.getrandbits(w)
    if r < 0.55:   # decimal-only digit patterns (the hex text has no letters)
        nd = w // 4
        k = rng.choice([nd, nd, nd - 1, nd - 4, rng.randint(1, nd)])
        return int("".join(rng.choice("0123456789") for _ in range(k)), 16)
    if r < 0.7:    # sparse octets
        v = 0
        for _ in range(rng.randint(1, 3)):
            v |= rng.choice([1, 0x0f, 0x10, 0x80, 0xff, rng.getrandbits(8)]) << (8 * rng.randrange(w // 8))
        return v
    if r < 0.8:
        return (rng.choice(IAB_OUIS) << (w - 24)) | rng.getrandbits(w - 24)
    if r < 0.9:    # small
        return rng.getrandbits(rng.randint(1, 20))
    return (2 ** w - 1) ^ (rng.getrandbits(8) << (8 * rng.randrange(w // 8)))


def dialects(ver):
    return ([None] + D48 + U48) if ver == 48 else ([None] + D64 + U64)


def _case(rng, tok):
    return "".join(c.upper() if rng.random() < 0.5 else c.lower() for c in tok)


def spellings(rng, ver, v):
    """Every accepted spelling kind of (ver, v), with random zero-suppression and case."""
    w = W[ver]
    out = []
    octs = _octets(ver, v)

    def tok(x, maxd, mind=1):
        full = "%0*x" % (maxd, x)
        k = rng.choice([maxd, rng.randint(mind, maxd), mind])
        t = "%x" % x
        if len(t) < k:
            t = "0" * (k - len(t)) + t
        return _case(rng, t if rng.random() < 0.7 else full)

    for sep in ":-":
        out.append(sep.join(tok(o, 2) for o in octs))
    hx = [(v >> (16 * (w // 16 - 1 - i))) & 0xffff for i in range(w // 16)]
    for sep in ":-.":
        out.append(sep.join(tok(h, 4) for h in hx))
    if ver == 48:
        for sep in ":-":
            out.append(sep.join(tok(h, 6, 5) for h in (v >> 24, v & 0xffffff)))
        out.append(_case(rng, "%012x" % v))
        if v < 16 ** 11:
            out.append(_case(rng, "%011x" % v))
    else:
        out.append(_case(rng, "%016x" % v))
    return out


def mutate(rng, s):
    seps = ":-."
    k = rng.randrange(16)
    if k == 0:
        return s + "\n"
    if k == 1:
        return s + "\n\n"
    if k == 2:
        return " " + s
    if k == 3:
        return s + " "
    if k == 4 and len(s) > 1:
        i = rng.randrange(len(s))
        return s[:i] + rng.choice("gGzx_ +\n\t/") + s[i + 1:]
    if k == 5:   # extra group
        sep = next((c for c in s if c in seps), ":")
        return s + sep + rng.choice(["0", "ff", "1234", "123456"])
    if k == 6:   # drop a group
        sep = next((c for c in s if c in seps), None)
        return s if sep is None else sep.join(s.split(sep)[:-1])
    if k == 7:   # lengthen a group by one digit (3-digit octet, 5-digit hextet, 7-digit half, 13/17 bare)
        i = rng.randrange(len(s) + 1)
        return s[:i] + rng.choice("0123456789abcdefABCDEF") + s[i:]
    if k == 8:   # mixed separators
        idx = [i for i, c in enumerate(s) if c in seps]
        if idx:
            i = rng.choice(idx)
            return s[:i] + rng.choice([c for c in seps if c != s[i]]) + s[i + 1:]
        return s
    if k == 9:   # empty group
        idx = [i for i, c in enumerate(s) if c in seps]
        if idx:
            i = rng.choice(idx)
            return s[:i] + s[i] + s[i:]
        return ""
    if k == 10 and len(s) > 1:   # shorten by one character
        i = rng.randrange(len(s))
        return s[:i] + s[i + 1:]
    if k == 11:
        return "\n" + s
    if k == 12:
        return s + rng.choice(["\r", "\r\n", "\n ", "\x0b", "\x85", "\xa0"])
    if k == 13:
        return rng.choice(["0x", "0X", "+", "-"]) + s
    if k == 14:
        return s.replace(rng.choice(seps), "")
    return s + rng.choice(seps)


def int_strings(rng, n):
    fixed = ["", " ", "0", "1", "-1", "+5", " 12 ", "1_0", "_1", "1__0", "0x10", "0b1", "1e3", "1.0", "281474976710655",
             "281474976710656", "18446744073709551615", "18446744073709551616", "0000000041000000", "0000000041000000\n",
             " 0000000041000000", "000000004100000", "00000000410000000", "9999999999999999", "123456789012", "12345678901",
             "1234567890123", "12345678901\n", "\n", "00000000000\n", "-0", "+0", "00", "0_0", "１２"]
    for s in fixed:
        if all(ord(c) < 256 for c in s):
            yield s
    for _ in range(n):
        nd = rng.choice([1, 2, 5, 10, 11, 12, 13, 14, 15, 16, 16, 16, 17, 19, 20, 21, 22])
        body = "".join(rng.choice("0123456789") for _ in range(nd))
        if rng.random() < 0.3:
            body = rng.choice(["", " ", "\t", "+", "-", "0"]) + body + rng.choice(["", " ", "\n", "_", "_1"])
        yield body


def cases(rng, tier):
    quick = tier == "quick"
    nrand = 14 if quick else 700
    for ver in (48, 64):
        w = W[ver]
        bvals = boundary_values(ver)
        for d in dialects(ver):
            vals = (rng.sample(bvals, 45) if quick else bvals) + [0, 2 ** w - 1, 0x41000000] + \
                   [rand_value(rng, ver) for _ in range(nrand)]
            ws, nw = _shape(d, ver)[:2]
            for v in vals:
                yield ("eui_access", [ver, v, d], "access")
                yield ("eui_roundtrip", [ver, v, d], "roundtrip")
                yield ("eui_conv", [ver, v, d], "conv")
                sep = rng.choice([None, ":", "", " ", ".", "-", "::", "01"])
                yield ("eui_bits", [ver, v, d, sep], "bits")
                idx = rng.choice([0, nw - 1, -1, -nw, nw, -nw - 1, rng.randrange(nw), rng.randint(-nw - 2, nw + 2)])
                yield ("eui_getitem", [ver, v, d, idx], "getitem")
                for _ in range(2):
                    idx = rng.choice([0, nw - 1, rng.randrange(nw), rng.randrange(nw), -1, nw, rng.randint(-2, nw + 1)])
                    x = rng.choice([0, 1, 255, 256, 2 ** ws - 1, 2 ** ws, 2 ** ws - 2, -1, rng.getrandbits(ws),
                                    rng.getrandbits(ws), rng.getrandbits(max(1, ws // 2))])
                    yield ("eui_setitem", [ver, v, d, idx, x], "setitem")
                p = rng.choice([0, 0xfe80 << 112, 0x20010db8 << 96, (0x20010db8 << 96) + rng.getrandbits(64),
                                rng.getrandbits(64) << 64, rng.getrandbits(128), 2 ** 128 - 1, 2 ** 128 - 2 ** 64, -1,
                                -rng.getrandbits(66), 2 ** 128 - _iid(ver, v) - 1, 2 ** 128 - _iid(ver, v), -_iid(ver, v),
                                -_iid(ver, v) - 1])
                yield ("eui_ipv6", [ver, v, d, p], "ipv6")
                d2 = rng.choice(dialects(ver) + ["<bad>"])
                yield ("eui_format", [ver, v, d, d2], "format")
                if d is not None:
                    yield ("eui_int_to_str", [v, d], "int_to_str")
                # comparison partner: same value other dialect / other version / neighbours / random
                k = rng.randrange(6)
                ver2, v2 = ver, v
                if k == 1:
                    ver2 = 112 - ver
                    if v >= 2 ** W[ver2]:
                        v2 = v & (2 ** W[ver2] - 1)
                elif k == 2:
                    v2 = max(0, v - 1)
                elif k == 3:
                    v2 = min(2 ** w - 1, v + 1)
                elif k == 4:
                    v2 = rand_value(rng, ver)
                elif k == 5:
                    ver2 = 112 - ver
                    v2 = rand_value(rng, ver2)
                yield ("eui_cmp", [ver, v, d, ver2, v2, rng.choice(dialects(ver2))], "cmp")
                if rng.random() < 0.25:
                    a = rng.choice([v, 0, 2 ** w - 1, 2 ** w, -1, None, _text(ver, v, rng.choice(dialects(ver)[1:])),
                                    "%d" % v, "junk", ["eui", ver, rng.getrandbits(w), None],
                                    ["eui", 112 - ver, rng.getrandbits(40), None]])
                    yield ("eui_set_value", [ver, v, d, a], "set_value")
                    yield ("eui_set_dialect", [ver, v, d, d2], "set_dialect")
        # spellings of boundary and random values
        svals = (rng.sample(bvals, 60) if quick else bvals) + [rand_value(rng, ver) for _ in range(60 if quick else 3000)]
        for v in svals:
            for s in spellings(rng, ver, v):
                yield ("eui_spelling", [s, None, ver, v], "spelling")
                yield ("eui_spelling", [s, ver, ver, v], "spelling")
                yield ("eui_valid_str", [ver, s], "valid_str")
                yield ("eui_str_to_int", [ver, s], "str_to_int")
                if rng.random() < 0.3:
                    yield ("eui_spelling", [s, 112 - ver, None, None], "spelling_other_version")
                    yield ("eui_valid_str", [112 - ver, s], "valid_str")
                for _ in range(2 if quick else 4):
                    m = mutate(rng, s)
                    if rng.random() < 0.3:
                        m = mutate(rng, m)
                    yield ("eui_init", [m, rng.choice([None, None, ver, 112 - ver]), None], "malformed")
                    yield ("eui_valid_str", [rng.choice([48, 64]), m], "malformed")
                    yield ("eui_str_to_int", [rng.choice([48, 64]), m], "malformed")
                    mver = rng.choice([48, 64])
                    yield ("re_match", [mver, rng.randrange(9 if mver == 48 else 6), m], "re_match")
                pats = 9 if ver == 48 else 6
                yield ("re_match", [ver, rng.randrange(pats), s], "re_match")
                yield ("re_match", [112 - ver, rng.randrange(15 - pats), s], "re_match")
    # mismatched dialects (a 48-bit dialect on a 64-bit object and the reverse): model = code, no property claim
    for _ in range(150 if quick else 4000):
        ver = rng.choice((48, 64))
        d = rng.choice(dialects(112 - ver)[1:])
        v = rng.choice([rand_value(rng, ver), rand_value(rng, 48), 0, 2 ** W[ver] - 1])
        if v >= 2 ** W[ver]:
            continue
        yield ("eui_access", [ver, v, d], "mismatched_dialect")
        yield ("eui_roundtrip", [ver, v, d], "mismatched_dialect")
        yield ("eui_setitem", [ver, v, d, rng.randrange(8), rng.getrandbits(rng.choice([8, 16, 24]))], "mismatched_dialect")
    # constructor: integers at the boundaries, versions, copy construction, dialect objects
    ints = [0, 1, -1, 2 ** 48 - 1, 2 ** 48, 2 ** 48 + 1, 2 ** 64 - 1, 2 ** 64, 2 ** 64 + 1, -2 ** 48, 0x41000000, None]
    for a in ints + [rng.getrandbits(rng.choice([8, 47, 48, 49, 63, 64, 65])) for _ in range(40 if quick else 1500)]:
        for ver in (None, 48, 64, 4, 0, 6):
            yield ("eui_init", [a, ver, rng.choice([None, None, "mac_cisco", "eui64_bare", "<bad>", [8, 6, ".", "%02x"]])],
                   "init_int")
    for _ in range(60 if quick else 2000):
        ver = rng.choice((48, 64))
        src = ["eui", ver, rand_value(rng, ver), rng.choice(dialects(ver))]
        yield ("eui_init", [src, rng.choice([None, 48, 64, 7]), rng.choice([None, "mac_unix", "<bad>"])], "init_copy")
    for s in int_strings(rng, 300 if quick else 15000):
        for ver in (None, 48, 64):
            yield ("eui_init", [s, ver, None], "init_intstr")
        yield ("eui_valid_str", [48, s], "malformed")
        yield ("eui_valid_str", [64, s], "malformed")
    for a in [5, None]:
        yield ("eui_str_to_int", [48, a], "str_to_int_type")
        yield ("eui_str_to_int", [64, a], "str_to_int_type")
    # IAB splitting and the word helpers on their own
    for _ in range(300 if quick else 8000):
        oui = rng.choice(IAB_OUIS + (rng.getrandbits(24), 0x0050c3, 0x40d854))
        k = rng.choice([36, 48])
        i = (oui << (k - 24)) | rng.getrandbits(k - 24)
        if rng.random() < 0.3:
            i &= ~0xfff
        yield ("split_iab_mac", [i, rng.random() < 0.5], "split_iab")
        ws = rng.choice([8, 16, 24, 48, 64, 4, 1, 12])
        nw = rng.choice([1, 2, 3, 4, 6, 8])
        v = rng.choice([rng.getrandbits(ws * nw), 2 ** (ws * nw) - 1, 2 ** (ws * nw), 0, -1])
        yield ("eui_int_to_words", [v, ws, nw], "words")
        yield ("eui_int_to_bits", [v, ws, nw, rng.choice(["", "-", ":", "ab"])], "words")
        wl = [rng.choice([rng.getrandbits(ws), 0, 2 ** ws - 1, 2 ** ws, -1]) if rng.random() < 0.2 else rng.getrandbits(ws)
              for _ in range(rng.choice([nw, nw, nw, nw - 1, nw + 1]))]
        yield ("eui_words_to_int", [wl, ws, nw], "words")
    for c in pystr_cases.cases(rng, tier):
        yield c


# ---- object-lifecycle checks (harness/lifecycle.py): objects with a history behave like fresh ones, results do not
# alias operands, failed mutators change nothing.  The functional model has no hidden state: its answer is "no discrepancy".
from harness import lifecycle as _life
IMPL.update(_life.IMPL)
ORACLE.update(_life.ORACLE)
EXACT = tuple(EXACT) + ("life",)
RULE = RULE + " | lifecycle: observe-mutate-observe vs a fresh object, aliasing of results, failure atomicity (eui)"
_cases_without_life = cases


def cases(rng, tier):
    yield from _cases_without_life(rng, tier)
    yield from _life.cases(rng, tier, {'eui'})


# ---- text beyond latin-1 (harness/unistream.py): Unicode digits, blanks and separator look-alikes substituted into valid texts must
# be refused by the strict entry points in the prescribed way.  Outside the 8-bit alphabet of the model: its answer is "no discrepancy".
from harness import unistream as _uni
IMPL.update(_uni.IMPL)
ORACLE.update(_uni.ORACLE)
EXACT = tuple(EXACT) + ("uni",)
RULE = RULE + " | text beyond latin-1 (Unicode digits / blanks / look-alikes in valid texts) at the strict entry points: mac"
_cases_without_uni = cases


def cases(rng, tier):
    yield from _cases_without_uni(rng, tier)
    yield from _uni.cases(rng, tier, ('mac',))
