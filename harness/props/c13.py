"""C13 — spanning_cidr returns the smallest single block covering all inputs."""
import itertools

from harness import gens
from harness.wire import Exn

PROP = "C13"
THEOREM_FILE = "Props/C13.v"
EXTRA_THEOREM_FILES = ["Props/C13_src.v"]     # source tie: translated source = model (DESIGN 5.1b)
EXTRA_THEOREM_FILES.append("Props/C13_code.v")     # (CODA) code-level theorems: the property about the regenerated definitions
RULE = ("spanning_cidr on sequences of 0..6 elements [ver, value, prefixlen, form]: every ordered pair of aligned blocks "
        "of the small arenas at both ends and in the middle of both address spaces (nested, identical, adjacent, "
        "far apart, differing prefixes), triples..sextuples drawn from the arenas with host bits, in every order "
        "(all permutations for length <= 4, rotations/reversal/shuffles above), with repeated elements; sequences whose "
        "lowest-first / highest-last element (with host bits, possibly one block containing all others) sits at "
        "position >= 2; whole-space "
        "blocks of every prefix 0..width against boundary values; elements presented as IPNetwork objects, CIDR "
        "strings, bare address strings and IPAddress objects, in lists, tuples and generators; error stream: 0 and 1 "
        "elements, mixed families at every position")
EXACT = ("spanning_cidr",)

# element forms (how the adapter presents (ver, v, p) to spanning_cidr)
F_NET, F_CIDR_STR, F_ADDR_OBJ, F_ADDR_STR, F_MASK_STR = 0, 1, 2, 3, 4


def _addr_str(ver, v):
    if ver == 4:
        return "%d.%d.%d.%d" % (v >> 24 & 255, v >> 16 & 255, v >> 8 & 255, v & 255)
    return ":".join("%x" % (v >> (16 * i) & 0xFFFF) for i in range(7, -1, -1))


def _present(item):
    import netaddr
    ver, v, p, form = item
    w = gens.W[ver]
    if form == F_NET:
        n = netaddr.IPNetwork((v, p), version=ver)
        assert (n.version, n._value, n._prefixlen) == (ver, v, p)
        return n
    if form == F_CIDR_STR:
        return "%s/%d" % (_addr_str(ver, v), p)
    if form == F_MASK_STR:      # address/netmask notation (all-ones and all-zeros masks included)
        return "%s/%s" % (_addr_str(ver, v), _addr_str(ver, 2 ** w - 2 ** (w - p)))
    assert p == w, "address forms need a host prefix"
    if form == F_ADDR_OBJ:
        return netaddr.IPAddress(v, ver)
    return _addr_str(ver, v)


def impl_spanning_cidr(items, container):
    import netaddr
    objs = [_present(it) for it in items]
    # what the function's own IPNetwork(x) makes of each element must be the triple the model receives
    for it, o in zip(items, objs):
        n = netaddr.IPNetwork(o)
        assert [n.version, n._value, n._prefixlen] == it[:3], "element %r presented as %r parses as %r" % (it, o, n)
    if container == 1:
        seq = tuple(objs)
    elif container == 2:
        seq = (o for o in objs)
    elif container == 3:
        # the sequence is a ranged object iterated by spanning_cidr itself: the items are its consecutive addresses
        vs = [it[1] for it in items]
        assert vs == list(range(vs[0], vs[0] + len(vs))) and all(it[2] == gens.W[it[0]] for it in items)
        seq = netaddr.IPRange(netaddr.IPAddress(vs[0], items[0][0]), netaddr.IPAddress(vs[-1], items[0][0]))
    elif container == 4:
        seq = iter(objs)
    else:
        seq = objs
    r = netaddr.spanning_cidr(seq)
    assert type(r) is netaddr.IPNetwork
    return [r.version, r._value, r._prefixlen]


IMPL = {"spanning_cidr": impl_spanning_cidr}


# ---- property oracle: the statement evaluated on the implementation's output by plain integer arithmetic
def orc_spanning_cidr(args, res):
    items, _container = args
    if len(items) < 2:
        return None if res == Exn("ValueError") else "fewer than two inputs gave %r, not ValueError" % (res,)
    vers = set(it[0] for it in items)
    if len(vers) > 1:
        return None if res == Exn("TypeError") else "mixed families gave %r, not TypeError" % (res,)
    if isinstance(res, Exn):
        return "valid inputs raised %s" % res.name
    (ver,) = vers
    w = gens.W[ver]
    firsts, lasts = [], []
    for _, v, p, _f in items:
        size = 2 ** (w - p)
        f = v - v % size
        firsts.append(f)
        lasts.append(f + size - 1)
    lo, hi = min(firsts), max(lasts)
    rv, r, q = res
    if rv != ver:
        return "result family %r differs from the inputs' %r" % (rv, ver)
    if not (0 <= q <= w):
        return "result prefix %r out of range" % q
    size = 2 ** (w - q)
    if r % size != 0:
        return "result %d/%d has host bits" % (r, q)
    if not (0 <= r and r + size - 1 <= 2 ** w - 1):
        return "result %d/%d outside the address space" % (r, q)
    for f, l in zip(firsts, lasts):
        if not (r <= f and l <= r + size - 1):
            return "result %d/%d does not contain input [%d, %d]" % (r, q, f, l)
    # no longer-prefix block covers [lo, hi]: the only candidate at prefix q+1 is the one holding lo
    if q < w:
        half = size // 2
        b = lo - lo % half
        if hi <= b + half - 1:
            return "result %d/%d is not minimal: %d/%d covers all inputs" % (r, q, b, q + 1)
    # closed form of the smallest aligned block containing [lo, hi]
    h = (lo ^ hi).bit_length()
    if (r, q) != (lo >> h << h, w - h):
        return "result %d/%d is not the smallest block %d/%d containing [%d, %d]" % (r, q, lo >> h << h, w - h, lo, hi)
    return None


ORACLE = {"spanning_cidr": orc_spanning_cidr}


# ---- generators
def _form(rng, ver, p, objects_only=False):
    w = gens.W[ver]
    if p == w:
        return rng.choice((F_NET, F_ADDR_OBJ) if objects_only else (F_NET, F_CIDR_STR, F_ADDR_OBJ, F_ADDR_STR, F_MASK_STR))
    return F_NET if objects_only else rng.choice((F_NET, F_NET, F_CIDR_STR, F_MASK_STR))


def _item(rng, blk, host_bits=True, objects_only=False):
    ver, first, p = blk
    w = gens.W[ver]
    v = first
    if host_bits and p < w and rng.random() < 0.4:
        v = first + rng.choice((1, 2 ** (w - p) - 1, rng.randrange(2 ** (w - p))))
    return [ver, v, p, _form(rng, ver, p, objects_only)]


def _orders(rng, items):
    """All distinct orders for <= 4 elements; identity, reversal, rotations and shuffles above."""
    if len(items) <= 4:
        seen = []
        for perm in itertools.permutations(items):
            perm = list(perm)
            if perm not in seen:
                seen.append(perm)
        return seen
    out = [list(items), list(reversed(items))]
    for k in range(1, len(items)):
        out.append(items[k:] + items[:k])
    for _ in range(4):
        s = list(items)
        rng.shuffle(s)
        out.append(s)
    return out


def _small_arenas():
    return [a for a in gens.ARENAS if gens.W[a[0]] - a[2] <= 8]


def _pick_related(rng, blocks, k):
    """k blocks of one arena with a deliberate relation to the first one."""
    ver = blocks[0][0]
    w = gens.W[ver]
    index = {(f, p): (v, f, p) for (v, f, p) in blocks}
    base = rng.choice(blocks)
    out = [base]
    while len(out) < k:
        _, f, p = rng.choice(out)
        size = 2 ** (w - p)
        kind = rng.randrange(7)
        cand = None
        if kind == 0:                                   # identical
            cand = (f, p)
        elif kind == 1 and p < w:                       # nested child (either half, any depth)
            q = rng.randint(p + 1, w)
            cand = (f + rng.randrange(2 ** (q - p)) * 2 ** (w - q), q)
        elif kind == 2:                                 # parent / ancestor
            q = rng.randint(0, p)
            cand = (f - f % 2 ** (w - q), q)
        elif kind == 3:                                 # right neighbour, same or other prefix
            q = rng.randint(p, w)
            cand = (f + size, q)
        elif kind == 4:                                 # left neighbour's last sub-block
            q = rng.randint(p, w)
            cand = (f - 2 ** (w - q), q)
        elif kind == 5:                                 # sibling
            cand = (f ^ size, p)
        if cand is None or cand not in index:           # far apart / anything
            cand = rng.choice(blocks)[1:]
        out.append(index[cand])
    return out


def _edge_blocks(ver):
    """Blocks of every prefix at both ends of the address space."""
    w = gens.W[ver]
    out = []
    for p in range(w + 1):
        out.append((ver, 0, p))
        out.append((ver, 2 ** w - 2 ** (w - p), p))
    return out


def cases(rng, tier):
    quick = tier == "quick"
    cont = lambda: rng.choice((0, 0, 0, 1, 2))

    # -- error stream: 0 / 1 elements, mixed families at every position
    yield ("spanning_cidr", [[], 0], "too_few")
    yield ("spanning_cidr", [[], 2], "too_few")
    for ver in (4, 6):
        w = gens.W[ver]
        for blk in ((ver, 0, 0), (ver, 0, w), (ver, 2 ** w - 1, w), (ver, 2 ** (w - 1), 1)):
            for form in (F_NET, F_CIDR_STR) + ((F_ADDR_OBJ, F_ADDR_STR) if blk[2] == w else ()):
                yield ("spanning_cidr", [[[blk[0], blk[1], blk[2], form]], cont()], "too_few")
    for _ in range(300 if quick else 6000):
        k = rng.randint(2, 6)
        va = rng.choice((4, 6))
        vb = 10 - va
        vers = [va] * k
        for pos in rng.sample(range(k), rng.randint(1, k - 1)):
            vers[pos] = vb
        if len(set(vers)) == 1:
            vers[rng.randrange(k)] = 10 - vers[0]
        items = [_item(rng, gens.rand_block(rng, v, with_host_bits=False)) for v in vers]
        yield ("spanning_cidr", [items, cont()], "mixed")

    # -- every ordered pair of aligned blocks of each small arena (objects and strings alternate by rng)
    for arena in _small_arenas():
        blocks = gens.arena_blocks(arena, max_depth=4 if quick else 6)
        for a in blocks:
            for b in blocks:
                yield ("spanning_cidr", [[_item(rng, a, host_bits=False), _item(rng, b, host_bits=False)], 0], "pairs")

    # -- related groups of 2..6 blocks with host bits, in every order
    ngroups = 60 if quick else 2500
    for arena in _small_arenas():
        blocks = gens.arena_blocks(arena)
        for _ in range(ngroups):
            k = rng.choice((2, 3, 3, 4, 4, 5, 6))
            items = [_item(rng, b) for b in _pick_related(rng, blocks, k)]
            if rng.random() < 0.3:                       # repetition of an element
                items[rng.randrange(k)] = list(rng.choice(items))
            for order in _orders(rng, items):
                yield ("spanning_cidr", [order, cont()], "groups_%d" % min(k, 5))

    # -- the lowest first / highest last come from elements met inside the loop (position >= 2), which carry host bits
    for arena in _small_arenas():
        ver = arena[0]
        w = gens.W[ver]
        blocks = [b for b in gens.arena_blocks(arena) if b[2] < w]
        for _ in range(40 if quick else 1500):
            k = rng.randint(3, 6)
            grp = sorted(rng.sample(blocks, k), key=lambda b: b[1])
            if rng.random() < 0.35:      # one block contains all the others: it alone fixes both extremes
                par = rng.choice([b for b in blocks if b[2] <= w - 2])
                psize = 2 ** (w - par[2])
                inside = [b for b in blocks if par[1] <= b[1] < par[1] + psize and b[2] > par[2]]
                grp = [par] + [rng.choice(inside) for _ in range(k - 1)]
            lo_b = min(grp, key=lambda b: (b[1], b[2]))
            hi_b = max(grp, key=lambda b: (b[1] + 2 ** (w - b[2]), -b[2]))
            mid = [b for b in grp if b is not lo_b and b is not hi_b]
            while len(mid) < 2:
                mid.append(rng.choice(blocks))
            rng.shuffle(mid)
            tail = [lo_b, hi_b] + mid[2:]
            rng.shuffle(tail)
            items = []
            for b in mid[:2] + tail:
                size = 2 ** (w - b[2])
                v = b[1] + rng.choice((size - 1, 1, rng.randrange(1, size)))   # host bits always present
                items.append([ver, v, b[2], _form(rng, ver, b[2])])
            yield ("spanning_cidr", [items, cont()], "late_extremes")

    # -- both ends of both address spaces, every prefix, against boundary / random values
    for ver in (4, 6):
        w = gens.W[ver]
        edges = _edge_blocks(ver)
        vals = gens.values(rng, ver, 10 if quick else 200, cap_boundary=40 if quick else None)
        for e in edges:
            for v in (rng.sample(vals, 6) if quick else rng.sample(vals, 60)):
                p = rng.randrange(w + 1) if rng.random() < 0.5 else w
                other = [ver, v, p, _form(rng, ver, p)]
                pair = [_item(rng, e), other]
                yield ("spanning_cidr", [pair, cont()], "edges")
                yield ("spanning_cidr", [pair[::-1], cont()], "edges")
        # identical blocks of every prefix (the over-widening half of F-13) and [start, end] address pairs
        for p in range(w + 1):
            _, v, _ = gens.rand_block(rng, ver)
            v = v >> (w - p) << (w - p)
            it = [ver, v, p, _form(rng, ver, p)]
            yield ("spanning_cidr", [[it, [ver, v, p, _form(rng, ver, p)]], cont()], "identical")
            yield ("spanning_cidr", [[it, list(it), list(it)], cont()], "identical")

    # -- random whole-space sequences (far apart, differing prefixes), objects only as iprange_to_cidrs passes them
    for _ in range(1500 if quick else 60000):
        ver = rng.choice((4, 6))
        w = gens.W[ver]
        k = rng.choice((2, 2, 2, 3, 4, 5, 6))
        objects_only = rng.random() < 0.5
        items = []
        for _ in range(k):
            _, v, p = gens.rand_block(rng, ver)
            if rng.random() < 0.4:
                p = w
            items.append([ver, v, p, _form(rng, ver, p, objects_only)])
        if k >= 3 and rng.random() < 0.3:
            items[-1] = list(items[0])
        yield ("spanning_cidr", [items, cont()], "random")
        if k <= 3:
            yield ("spanning_cidr", [items[::-1], cont()], "random")


# ---- object-lifecycle checks (harness/lifecycle.py): objects with a history behave like fresh ones, results do not
# alias operands, failed mutators change nothing.  The functional model has no hidden state: its answer is "no discrepancy".
from harness import lifecycle as _life
IMPL.update(_life.IMPL)
ORACLE.update(_life.ORACLE)
EXACT = tuple(EXACT) + ("life",)
RULE = RULE + " | lifecycle: observe-mutate-observe vs a fresh object, aliasing of results, failure atomicity (net)"
_cases_without_life = cases


def cases(rng, tier):
    yield from _cases_without_life(rng, tier)
    yield from _life.cases(rng, tier, {'net'})


# ---- pairs whose span just crosses an aligned boundary (lo aligned to 2^k, hi a little past lo + 2^k), every k
_cases_without_cross = cases


def cases(rng, tier):
    yield from _cases_without_cross(rng, tier)
    for ver in (4, 6):
        w = gens.W[ver]
        mx = 2 ** w - 1
        for k in range(0, w):
            for _ in range(1 if tier == "quick" else 10):
                base = (rng.getrandbits(w) >> (k + 1) << (k + 1)) if k + 1 < w else 0
                d = rng.choice([0, 1, 2, rng.randrange(1 << min(k, 20)) if k else 0])
                hi = min(mx, base + (1 << k) + d)
                p2 = w - min(k, rng.choice([0, 1, 2]))
                yield ("spanning_cidr", [[[ver, base, w - k, F_NET], [ver, hi, p2, F_NET]], 0], "cross")
                yield ("spanning_cidr", [[[ver, hi, w, F_NET], [ver, base, w, F_NET]], 0], "cross")


# ---- the sequence handed over as an IPRange object (consecutive addresses), at the bottom/top of both families
_cases_without_ranges = cases


def cases(rng, tier):
    yield from _cases_without_ranges(rng, tier)
    for ver in (4, 6):
        w = gens.W[ver]
        mx = 2 ** w - 1
        starts = [0, 1, 5, mx - 9, 2 ** 32 - 3 if ver == 6 else 2 ** 31 - 3, 2 ** 32 if ver == 6 else 2 ** 24, rng.getrandbits(w) % (mx - 16)]
        for s0 in starts:
            for n in (2, 3, 6, 9):
                items = [[ver, s0 + i, w, F_NET] for i in range(n)]
                yield ("spanning_cidr", [items, 3], "range_as_sequence")
                yield ("spanning_cidr", [items, 4], "iterator")


# ---- long sequences (hundreds to thousands of blocks): the extremes sit at arbitrary positions of a long input
_cases_without_big = cases


def cases(rng, tier):
    yield from _cases_without_big(rng, tier)
    for size in ([120, 700, 2300] if tier == "quick" else [120, 700, 2300, 6000] * 4):
        for ver in (4, 6):
            w = gens.W[ver]
            top = rng.randrange(w - 20)
            base = rng.getrandbits(w) >> (w - top) << (w - top) if top else 0
            items = []
            for _ in range(size):
                p = rng.choice((w, w, rng.randint(max(top, w - 24), w)))
                v = base + rng.getrandbits(w - top)
                items.append([ver, v, p, F_NET])
            yield ("spanning_cidr", [items, 0], "big")
