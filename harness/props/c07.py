"""C07 — IPSet algebra and queries agree with plain set theory on addresses."""
from harness import sets_common as sc

PROP = "C07"
THEOREM_FILE = "Props/C07.v"
EXTRA_THEOREM_FILES = ["Props/C07_ops.v", "Props/C07_queries.v", "Props/C07_src.v", "Props/C07_src_ops.v"]   # part A (operators); the queries part adds its own file here
EXTRA_THEOREM_FILES += ["Props/C07_code.v", "Props/C07_code_queries.v"]   # CODC: the C07 theorems stated about the regenerated definitions
EXTRA_THEOREM_FILES.append("Props/C07_src_g.v")     # SRCG: IPSet.__iter__ / __hash__ / __reduce__ / __repr__
RULE = ("pairs of IPSets built by short random histories (empty, single/mixed family, touching address 0 or the top "
        "address, nested / interleaved / adjacent / identical operands), then all four operators, every comparison, "
        "isdisjoint, membership of addresses and networks at block boundaries, size/len, iteration, iter_ipranges, "
        "iscontiguous, iprange; answers compared with an independent interval-set algebra; operands checked unchanged")
EXACT = ()
IMPL = {"sets_run": sc.impl_sets_run}
ORACLE = {"sets_run": sc.oracle_sets_run}

W_BUILD = {"init": 5, "add": 5, "remove": 4, "update": 2, "copy": 1}
W_QUERY = {"union": 2, "inter": 3, "diff": 3, "xor": 3, "view": 4, "cmp": 5, "contains": 5, "add": 1, "remove": 1}


def cases(rng, tier):
    n = 1500 if tier == "quick" else 60000
    for _ in range(n):
        ops = sc.rand_history(rng, rng.randint(2, 8), W_BUILD)
        st = rng.getstate()
        q = sc.rand_history(rng, rng.randint(4, 16), W_QUERY)
        yield ("sets_run", [ops + q], "pair_queries")
    for _ in range(8 if tier == "quick" else 300):
        yield ("sets_run", [sc.big_history(rng)], "big_sets")
