"""C11 — subnetting, supernetting and stepping follow CIDR arithmetic."""
from harness import gens
from harness.wire import Exn

PROP = "C11"
THEOREM_FILE = "Props/C11.v"
EXTRA_THEOREM_FILES = ["Props/C11_src.v"]     # source tie: translated source = model (DESIGN 5.1b)
EXTRA_THEOREM_FILES.append("Props/C11_src_subnet.v")     # (SRCE) source tie of subnet / next / previous / iter_hosts
EXTRA_THEOREM_FILES.append("Props/C11_code.v")     # (CODA) code-level theorems: the property about the regenerated definitions
RULE = ("networks: every prefix 0..width of both families (quick: all IPv4 prefixes, a boundary-heavy sample of IPv6 "
        "prefixes) x {lowest block, highest block, random mid-space block} with host bits {0, 1, size-1, random}; "
        "subnet: every target prefix p..p+8 x counts {None,0,1,2,3,max-1,max,max+1,-1} fully exhausted, targets below p "
        "(incl. negative), wider prefix gaps with explicit small counts and first-k probes of huge generators, gaps 9..16 "
        "exhausted keeping both ends, receivers with an out-of-range _prefixlen; supernet: every q in 0..p, q just above p, "
        "q = width, q outside 0..width; += / -= / next / previous: steps {0,+-1,+-2,+-3, +-k_edge, +-(k_edge+1), random} where "
        "k_edge lands exactly on either address-space boundary, receiver state observed after every call; iter_hosts: every "
        "prefix (exhausted for the last 5 prefixes, first-k plus extent otherwise); iter_iprange on all small "
        "(start, end, step) at both ends of both address spaces")
EXACT = ("c11_subnet", "c11_subnet_ends", "c11_supernet", "c11_iadd", "c11_isub", "c11_next", "c11_previous",
         "c11_hosts")
W = gens.W


# ------------------------------------------------------------------ implementation adapters

def _net(ver, v, p):
    import netaddr
    if 0 <= p <= W[ver]:
        n = netaddr.IPNetwork((v, p), version=ver)
    else:
        # a prefix outside 0..width cannot get past the constructor or the setter; force it
        n = netaddr.IPNetwork((v, 0), version=ver)
        n._prefixlen = p
    assert n._value == v and n._prefixlen == p and n.version == ver
    return n


def _el(n):
    return [n.version, n._value, n._prefixlen]


def _ad(a):
    import netaddr
    assert isinstance(a, netaddr.IPAddress)
    return [a.version, a._value]


def _same(n, ver, v, p):
    assert _el(n) == [ver, v, p], "receiver changed"


def _subnet_gen(n, q, cnt, variant):
    if cnt is None and variant == 0:
        return n.subnet(q)
    if variant == 1:
        return n.subnet(q, count=cnt)
    return n.subnet(q, cnt)


def impl_subnet(ver, v, p, q, cnt, k):
    import itertools
    n = _net(ver, v, p)
    gen = _subnet_gen(n, q, cnt, (v + k) % 3)
    assert iter(gen) is gen
    try:
        lst = list(itertools.islice(gen, k))
    finally:
        _same(n, ver, v, p)
    fr = getattr(gen, "gi_frame", None)
    if len(lst) < k or fr is None:
        count = len(lst)          # exhausted: the number of blocks actually produced
    else:
        count = fr.f_locals["count"]   # suspended at a yield: the loop bound it is running towards
    assert len(set(map(id, lst))) == len(lst)
    return [count, [_el(x) for x in lst]]


def impl_subnet_ends(ver, v, p, q, cnt, k):
    import collections
    n = _net(ver, v, p)
    gen = _subnet_gen(n, q, cnt, (v + k) % 3)
    head, tail, total = [], collections.deque(maxlen=k), 0
    for x in gen:
        if total < k:
            head.append(_el(x))
        tail.append(x)
        total += 1
    _same(n, ver, v, p)
    tl = [_el(x) for x in tail]
    return [total, head, tl]


def impl_supernet(ver, v, p, q):
    n = _net(ver, v, p)
    try:
        r = n.supernet(q)
    finally:
        _same(n, ver, v, p)
    assert isinstance(r, list)
    return [_el(x) for x in r]


def impl_inplace(op):
    def f(ver, v, p, k):
        from harness.wire import exn_of
        n = _net(ver, v, p)
        alias = n
        e = None
        try:
            if op == "iadd":
                n += k
            else:
                n -= k
        except Exception as ex:  # noqa
            e = exn_of(ex)
        assert n is alias
        return [_el(alias), e]
    return f


def impl_stepped(op):
    def f(ver, v, p, k):
        from harness.wire import exn_of
        n = _net(ver, v, p)
        try:
            if k == 1 and v % 2 == 0:
                r = n.next() if op == "next" else n.previous()    # default step
            else:
                r = n.next(k) if op == "next" else n.previous(k)
            assert r is not n and type(r) is type(n)
            r = _el(r)
        except Exception as ex:  # noqa
            r = exn_of(ex)
        return [r, _el(n)]
    return f


def impl_hosts(ver, v, p, k):
    import itertools
    n = _net(ver, v, p)
    gen = n.iter_hosts()
    lst = list(itertools.islice(gen, k))
    _same(n, ver, v, p)
    fr = getattr(gen, "gi_frame", None)
    if len(lst) < k or fr is None:
        count = len(lst)
    else:
        loc = fr.f_locals
        assert loc["step"] == 1 and loc["negative_step"] is False
        count = loc["stop"] - loc["start"] + 1   # the inclusive extent the loop is running over
    return [count, [_ad(a) for a in lst]]


def impl_iprange(sver, s, ever, e, step, k):
    import itertools
    import netaddr
    gen = netaddr.iter_iprange(netaddr.IPAddress(s, sver), netaddr.IPAddress(e, ever), step)
    lst = list(itertools.islice(gen, k))
    assert len(lst) < k, "iter_iprange cases are always exhausted"
    return [len(lst), [_ad(a) for a in lst]]


IMPL = {
    "c11_subnet": impl_subnet, "c11_subnet_ends": impl_subnet_ends, "c11_supernet": impl_supernet,
    "c11_iadd": impl_inplace("iadd"), "c11_isub": impl_inplace("isub"),
    "c11_next": impl_stepped("next"), "c11_previous": impl_stepped("previous"),
    "c11_hosts": impl_hosts, "c11_iprange": impl_iprange,
}


# ------------------------------------------------------------------ property oracles (plain integer arithmetic)

def _block(ver, v, p):
    w = W[ver]
    size = 2 ** (w - p)
    first = v - v % size
    return w, size, first, first + size - 1


def _check_blocks(ver, v, p, q, c, head, tail, total, exhausted):
    """head = first len(head) results, tail = last len(tail) results of `total` results (tail may be [])."""
    w, size, first, last = _block(ver, v, p)
    step = 2 ** (w - q)
    M = 2 ** (q - p)
    if total != c:
        return "%d subnets announced/produced, expected %d" % (total, c)
    for off, part in ((0, head), (total - len(tail), tail)):
        for j, el in enumerate(part):
            i = off + j
            if len(el) != 3 or el[0] != ver or el[2] != q:
                return "subnet #%d is not an IPv%d /%d" % (i, ver, q)
            if el[1] % step != 0:
                return "subnet #%d is not aligned" % i
            if el[1] != first + i * step:
                return "subnet #%d starts at %d, expected %d" % (i, el[1], first + i * step)
            if not (first <= el[1] and el[1] + step - 1 <= last):
                return "subnet #%d leaves the network" % i
    if exhausted and c == M and tail:
        if tail[-1][1] + step - 1 != last:
            return "the subnets do not tile the network up to its last address"
    return None


def orc_subnet(args, res):
    ver, v, p, q, cnt, k = args
    w = W[ver]
    if not (0 <= p <= w) or q > w:
        return None     # outside the statement (ill-formed receiver / float arithmetic)
    if q < p:
        return None if res == [0, []] else "subnet(q<p) produced something: %r" % (res,)
    M = 2 ** (q - p)
    c = M if cnt is None else cnt
    if not (1 <= c <= M):
        return None if res == Exn("ValueError") else "count %r outside [1,%d] did not raise ValueError" % (cnt, M)
    if isinstance(res, Exn):
        return "valid subnet call raised %s" % res.name
    total, head = res
    if len(head) != min(k, c):
        return "%d subnets delivered, expected %d" % (len(head), min(k, c))
    exhausted = k >= c
    return _check_blocks(ver, v, p, q, c, head, head if exhausted else [], total, exhausted)


def orc_subnet_ends(args, res):
    ver, v, p, q, cnt, k = args
    w = W[ver]
    if not (0 <= p <= q <= w):
        return None
    M = 2 ** (q - p)
    c = M if cnt is None else cnt
    if not (1 <= c <= M):
        return None if res == Exn("ValueError") else "count %r outside [1,%d] did not raise ValueError" % (cnt, M)
    if isinstance(res, Exn):
        return "valid subnet call raised %s" % res.name
    total, head, tail = res
    if len(head) != min(k, c) or len(tail) != min(k, c):
        return "wrong number of subnets delivered"
    return _check_blocks(ver, v, p, q, c, head, tail, total, True)


def orc_supernet(args, res):
    ver, v, p, q = args
    w, size, first, last = _block(ver, v, p)
    if not (0 <= q <= p):
        return None     # the statement speaks about q <= p only
    if isinstance(res, Exn):
        return "supernet(%d) of a /%d raised %s" % (q, p, res.name)
    if len(res) != p - q:
        return "%d supernets, expected %d" % (len(res), p - q)
    for r, el in zip(range(q, p), res):
        if el[0] != ver or el[2] != r:
            return "supernet list is not /%d../%d outermost first" % (q, p - 1)
        s = 2 ** (w - r)
        if el[1] % s != 0:
            return "supernet /%d has host bits" % r
        if not (el[1] <= first and last <= el[1] + s - 1):
            return "supernet /%d does not contain the network" % r
    return None


def orc_step(kind):
    sign = 1 if kind in ("iadd", "next") else -1
    inplace = kind in ("iadd", "isub")

    def f(args, res):
        ver, v, p, k = args
        w, size, first, last = _block(ver, v, p)
        if isinstance(res, Exn):
            return "harness-level failure %s" % res.name
        nv = first + sign * k * size
        fits = 0 <= nv and nv + size - 1 <= 2 ** w - 1
        if inplace:
            post, e = res
            if fits:
                if e is not None:
                    return "step inside the address space raised %s" % e.name
                if post != [ver, nv, p]:
                    return "stepped to %r, expected %r" % (post, [ver, nv, p])
            else:
                if e != Exn("IndexError"):
                    return "step leaving the address space gave %r instead of IndexError" % (e,)
                if post != [ver, v, p]:
                    return "failed step changed the receiver"
        else:
            r, post = res
            if post != [ver, v, p]:
                return "%s changed the receiver" % kind
            if fits:
                if r != [ver, nv, p]:
                    return "%s gave %r, expected %r" % (kind, r, [ver, nv, p])
            elif r != Exn("IndexError"):
                return "step leaving the address space gave %r instead of IndexError" % (r,)
        return None
    return f


def orc_hosts(args, res):
    ver, v, p, k = args
    w, size, first, last = _block(ver, v, p)
    if isinstance(res, Exn):
        return "iter_hosts raised %s" % res.name
    if ver == 4:
        lo, hi = (first + 1, last - 1) if size >= 4 else (first, last)
    else:
        lo, hi = (first + 1, last) if size >= 2 else (1, 0)
    n = max(0, hi - lo + 1)
    total, head = res
    if total != n:
        return "%d hosts, expected %d" % (total, n)
    if head != [[ver, lo + i] for i in range(min(k, n))]:
        return "hosts are not %d.. in ascending order" % lo
    return None


def orc_iprange(args, res):
    sver, s, ever, e, step, k = args
    if sver != ever:
        return None if res == Exn("TypeError") else "mixed versions did not raise TypeError"
    if step == 0:
        return None if res == Exn("ValueError") else "zero step did not raise ValueError"
    exp = list(range(s, e + 1, step)) if step > 0 else list(range(s, e - 1, step))
    if res != [len(exp), [[sver, x] for x in exp]]:
        return "iter_iprange differs from range()"
    return None


ORACLE = {
    "c11_subnet": orc_subnet, "c11_subnet_ends": orc_subnet_ends, "c11_supernet": orc_supernet,
    "c11_iadd": orc_step("iadd"), "c11_isub": orc_step("isub"),
    "c11_next": orc_step("next"), "c11_previous": orc_step("previous"),
    "c11_hosts": orc_hosts, "c11_iprange": orc_iprange,
}


# ------------------------------------------------------------------ generators

def prefixes(rng, ver, tier):
    w = W[ver]
    if ver == 4 or tier != "quick":
        return list(range(w + 1))
    s = set(range(0, 4)) | set(range(w - 10, w + 1)) | {31, 32, 33, 63, 64, 65, 95, 96, 97}
    s.update(rng.sample(range(w + 1), 14))
    return sorted(s)


def receivers(rng, ver, p, nmid=1):
    """(value with host bits) for the lowest, the highest and nmid random blocks of prefix p."""
    w = W[ver]
    size = 2 ** (w - p)
    firsts = [0, 2 ** w - size] + [rng.randrange(2 ** p) * size for _ in range(nmid)]
    if ver == 6 and p <= 96 and rng.random() < 0.5:
        firsts[-1] = (0x20010DB8 << 96) >> (w - p) << (w - p)
    out = []
    for f in firsts:
        off = rng.choice((0, 0, 1, size - 1, rng.randrange(size), rng.randrange(size)))
        out.append(f + min(off, size - 1))
    return out


def counts_for(M):
    return [None] + sorted({0, 1, 2, 3, M - 1, M, M + 1, -1})


def subnet_cases(rng, tier):
    quick = tier == "quick"
    for ver in (4, 6):
        w = W[ver]
        for p in prefixes(rng, ver, tier):
            for v in receivers(rng, ver, p, 1 if quick else 10):
                # every target within 8 bits, fully exhausted
                for q in range(p, min(w, p + 8) + 1):
                    M = 2 ** (q - p)
                    cs = counts_for(M)
                    if quick and q - p > 5:
                        cs = [None] + rng.sample(cs[1:], 3)
                    for c in cs:
                        yield ("c11_subnet", [ver, v, p, q, c, M + 2], "subnet_d%d" % (q - p))
                # targets below the receiver's prefix: nothing
                for q in {p - 1, p - 2, 0, -1, -rng.randrange(2, 200), rng.randrange(0, p + 1) - 1}:
                    if q < p:
                        yield ("c11_subnet", [ver, v, p, q, rng.choice((None, 1, 0, 5)), 3], "subnet_below")
                # wide gaps: explicit counts, and first-k probes of generators too large to exhaust
                if w - p > 8:
                    for q in {w, rng.randrange(p + 9, w + 1), min(w, p + 9 + rng.randrange(0, 24))}:
                        M = 2 ** (q - p)
                        for c in (1, 2, 3, rng.randrange(4, 700), M + 1, 0, M + rng.randrange(2, 2 ** 20)):
                            yield ("c11_subnet", [ver, v, p, q, c, 800], "subnet_wide_count")
                        for c in (None, M, M - 1, rng.randrange(2 ** 12, M + 1) if M > 2 ** 12 else M):
                            yield ("c11_subnet", [ver, v, p, q, c, rng.choice((1, 2, 5, 40))], "subnet_wide_probe")
        # gaps of 9..16 bits exhausted, comparing both ends and the total
        dmax = 12 if quick else 16
        for _ in range(6 if quick else 120):
            d = rng.randrange(9, dmax + 1)
            p = rng.choice((0, w - d, rng.randrange(0, w - d + 1)))
            v = rng.choice(receivers(rng, ver, p, 1))
            M = 2 ** d
            yield ("c11_subnet_ends", [ver, v, p, p + d, rng.choice((None, M, M - 1, rng.randrange(1, M + 1))), 4],
                   "subnet_ends")
        yield ("c11_subnet_ends", [ver, 5 % 2 ** w, w - 3, w, None, 4], "subnet_ends")
        yield ("c11_subnet_ends", [ver, 2 ** w - 1, w - 9, w, 2 ** 9 + 1, 4], "subnet_ends")
        # ill-formed receivers (prefix outside 0..width forced past the setter): first range check of subnet()
        for p in (-1, w + 1, w + 8, -7):
            for q in (0, w, p, p + 1, rng.randrange(0, w + 1)):
                if q <= w:
                    yield ("c11_subnet", [ver, rng.getrandbits(w), p, q, rng.choice((None, 1)), 2], "subnet_bad_receiver")


def supernet_cases(rng, tier):
    quick = tier == "quick"
    for ver in (4, 6):
        w = W[ver]
        for p in prefixes(rng, ver, tier):
            for v in receivers(rng, ver, p, 1 if quick else 10):
                qs = range(0, p + 1)
                if quick and ver == 6 and p > 16:
                    qs = sorted({0, 1, p - 2, p - 1, p} | set(rng.sample(range(p + 1), 6)))
                for q in qs:
                    yield ("c11_supernet", [ver, v, p, q], "supernet")
                for q in {p + 1, p + 2, w, w - 1}:
                    if p < q <= w:
                        yield ("c11_supernet", [ver, v, p, q], "supernet_above")
                for q in (-1, w + 1, w + rng.randrange(2, 50), -rng.randrange(2, 50)):
                    yield ("c11_supernet", [ver, v, p, q], "supernet_invalid")


def step_cases(rng, tier):
    quick = tier == "quick"
    for ver in (4, 6):
        w = W[ver]
        for p in prefixes(rng, ver, tier):
            size = 2 ** (w - p)
            for v in receivers(rng, ver, p, 1 if quick else 10):
                first = v - v % size
                up = (2 ** w - size - first) // size      # blocks above: +up lands on the last block of the space
                down = first // size                      # blocks below: -down lands on address 0
                ks = {0, 1, -1, 2, -2, 3, -3, up, up + 1, -up, -(up + 1), down, down + 1, -down, -(down + 1),
                      up - 1, down - 1, 2 ** p, -(2 ** p), 2 ** p - 1,
                      rng.randrange(-(2 ** p) - 2, 2 ** p + 3), rng.randrange(-5, 6) * 2 ** w}
                for k in sorted(ks):
                    for cmd in ("c11_iadd", "c11_isub", "c11_next", "c11_previous"):
                        if quick and ver == 6 and rng.random() < 0.5:
                            continue
                        yield (cmd, [ver, v, p, k], cmd[4:])


def hosts_cases(rng, tier):
    quick = tier == "quick"
    for ver in (4, 6):
        w = W[ver]
        for p in range(w + 1):
            for v in receivers(rng, ver, p, 1 if quick else 12):
                size = 2 ** (w - p)
                if p >= w - 4:
                    yield ("c11_hosts", [ver, v, p, size + 2], "hosts_small")
                elif p >= w - 10 and not quick:
                    yield ("c11_hosts", [ver, v, p, size + 2], "hosts_medium")
                yield ("c11_hosts", [ver, v, p, rng.choice((1, 2, 3, 7))], "hosts_probe")


def iprange_cases(rng, tier):
    span = 5 if tier == "quick" else 9
    steps = [1, 2, 3, -1, -2, -3, 0, span + 2, -(span + 2), span]
    for ver, base in ((4, 0), (4, 2 ** 32 - span - 1), (6, 0), (6, 2 ** 32 - 2), (6, 2 ** 128 - span - 1),
                      (4, 0x0A000000)):
        for a in range(span + 1):
            for b in range(span + 1):
                for st in steps:
                    yield ("c11_iprange", [ver, base + a, ver, base + b, st, span + 3], "iprange")
    for st in (1, -1, 0):
        yield ("c11_iprange", [4, 5, 6, 7, st, 9], "iprange_mixed")
        yield ("c11_iprange", [6, 5, 4, 7, st, 9], "iprange_mixed")


def cases(rng, tier):
    for g in (subnet_cases, supernet_cases, step_cases, hosts_cases, iprange_cases):
        for c in g(rng, tier):
            yield c


# ---- object-lifecycle checks (harness/lifecycle.py): objects with a history behave like fresh ones, results do not
# alias operands, failed mutators change nothing.  The functional model has no hidden state: its answer is "no discrepancy".
from harness import lifecycle as _life
IMPL.update(_life.IMPL)
ORACLE.update(_life.ORACLE)
EXACT = tuple(EXACT) + ("life",)
RULE = RULE + " | lifecycle: observe-mutate-observe vs a fresh object, aliasing of results, failure atomicity (net)"
_cases_without_life = cases


def cases(rng, tier):
    yield from _cases_without_life(rng, tier)
    yield from _life.cases(rng, tier, {'net'})
