"""C09 — cidr_partition / cidr_exclude split a block exactly around the excluded part."""
from harness import gens
from harness.wire import Exn

PROP = "C09"
THEOREM_FILE = "Props/C09.v"
EXTRA_THEOREM_FILES = ["Props/C09_src.v"]     # source tie: translated source = model (DESIGN 5.1b)
EXTRA_THEOREM_FILES.append("Props/C09_code.v")     # (CODA) code-level theorems: the property about the regenerated definitions
RULE = ("cidr_partition and cidr_exclude on pairs (T, E) of IPNetwork objects of one family: exhaustively every "
        "aligned T x every aligned E inside the small arenas of harness/gens.py (E nested at every depth and offset, "
        "equal, supernet, sibling, adjacent, far; arenas at the bottom and top of both address spaces), host-bit "
        "variants of T and of E, E a supernet/neighbour of the arena at every shorter prefix, plus wide pairs at "
        "(T.prefixlen, E.prefixlen) combinations (all 33x33 for IPv4; sampled for IPv6 in quick, all 129x129 in "
        "thorough) in six relative positions (nested first/last/random sub-block, adjacent below/above, unrelated) "
        "anchored at the bottom, the top and random places of the address space")
EXACT = ("cidr_partition", "cidr_exclude")


def _net(ver, v, p):
    import netaddr
    n = netaddr.IPNetwork((v, p), version=ver)
    assert n._value == v and n._prefixlen == p and n.version == ver
    return n


def _out(ver, lst):
    import netaddr
    out = []
    for n in lst:
        assert isinstance(n, netaddr.IPNetwork) and n.version == ver
        out.append([n._value, n._prefixlen])
    return out


def impl_partition(ver, tv, tp, ev, ep):
    import netaddr
    t, e = _net(ver, tv, tp), _net(ver, ev, ep)
    r = netaddr.ip.cidr_partition(t, e)
    assert isinstance(r, tuple) and len(r) == 3
    assert (t._value, t._prefixlen, e._value, e._prefixlen) == (tv, tp, ev, ep)   # arguments are not mutated
    res = [_out(ver, r[0]), _out(ver, r[1]), _out(ver, r[2])]
    # the same networks handed over as CIDR strings must give the same partition (other argument form)
    import zlib
    if zlib.crc32(repr((ver, tv, tp, ev, ep)).encode()) % 3 == 0:
        r2 = netaddr.ip.cidr_partition(str(t), str(e))
        assert [_out(ver, r2[0]), _out(ver, r2[1]), _out(ver, r2[2])] == res, "string arguments give a different partition"
        # .. and written with a netmask / a hostmask after the '/' (prefix strictly inside 0..width for the hostmask: the two
        # extreme masks are netmasks by the documented precedence)
        w = gens.W[ver]

        def masked(v, p, host):
            m = ((1 << (w - p)) - 1) if host else ((1 << w) - (1 << (w - p)))
            return "%s/%s" % (netaddr.IPAddress(v, ver), netaddr.IPAddress(m, ver))
        r4 = netaddr.ip.cidr_partition(masked(tv, tp, False), masked(ev, ep, 0 < ep < w and (ev + ep) % 2 == 0))
        assert [_out(ver, x) for x in r4] == res, "netmask / hostmask spellings of the arguments give a different partition"
        if tp == gens.W[ver]:
            r3 = netaddr.ip.cidr_partition(netaddr.IPAddress(tv, ver), e)
            assert [_out(ver, x) for x in r3] == res, "IPAddress target gives a different partition"
    return res


def impl_exclude(ver, tv, tp, ev, ep):
    import netaddr
    t, e = _net(ver, tv, tp), _net(ver, ev, ep)
    r = netaddr.cidr_exclude(t, e)
    assert isinstance(r, list)
    return _out(ver, r)


IMPL = {"cidr_partition": impl_partition, "cidr_exclude": impl_exclude}


# ---- property oracles: plain interval / set arithmetic on integers
def _bounds(w, v, p):
    h = 1 << (w - p)
    f = v - v % h
    return f, f + h - 1


def _side(w, lst, lo, hi, tp, what):
    """lst must be the minimal ascending disjoint CIDR list covering exactly the integer interval [lo, hi]
    (empty interval when lo > hi); every prefix longer than tp."""
    if lo > hi:
        return None if lst == [] else "%s should be empty" % what
    nxt = lo
    seen = set()
    prev = None
    for v, p in lst:
        if not (isinstance(v, int) and isinstance(p, int) and 0 <= p <= w):
            return "%s holds an ill-formed block %r" % (what, [v, p])
        size = 1 << (w - p)
        if v % size:
            return "%s block %r has host bits" % (what, [v, p])
        if v != nxt:
            return "%s is not ascending, disjoint and gap-free from %d (block %r)" % (what, lo, [v, p])
        if p <= tp or p in seen:
            return "%s repeats a prefix length or is not finer than the target (block %r)" % (what, [v, p])
        if prev is not None and prev[1] == p and prev[0] % (2 * size) == 0:
            return "%s holds two mergeable siblings %r %r" % (what, prev, [v, p])
        seen.add(p)
        prev = (v, p)
        nxt = v + size
    if nxt != hi + 1:
        return "%s covers up to %d, expected up to %d" % (what, nxt - 1, hi)
    # minimal number of CIDR blocks for an interval that starts (or ends) on a boundary coarser than its
    # length: one block per set bit of the length
    if len(lst) != bin(hi - lo + 1).count("1"):
        return "%s is not minimal" % what
    return None


def _explicit(w, blocks):
    s = set()
    for v, p in blocks:
        s.update(range(v, v + (1 << (w - p))))
    return s


def orc_partition(args, res):
    ver, tv, tp, ev, ep = args
    if isinstance(res, Exn):
        return "cidr_partition raised %s" % res.name
    w = gens.W[ver]
    tf, tl = _bounds(w, tv, tp)
    ef, el = _bounds(w, ev, ep)
    b, m, a = res
    if el < tf:
        return None if (b, m, a) == ([], [], [[tf, tp]]) else "E below T: expected ([], [], [T.cidr])"
    if tl < ef:
        return None if (b, m, a) == ([[tf, tp]], [], []) else "E above T: expected ([T.cidr], [], [])"
    if ep <= tp:
        return None if (b, m, a) == ([], [[tv, tp]], []) else "E covers T: expected ([], [T], [])"
    if m != [[ev, ep]]:
        return "middle is not [E]"
    msg = _side(w, b, tf, ef - 1, tp, "before") or _side(w, a, el + 1, tl, tp, "after")
    if msg:
        return msg
    if tl - tf < 1024:   # small target: explicit sets; the three lists tile T
        sb, sa, se, st = _explicit(w, b), _explicit(w, a), set(range(ef, el + 1)), set(range(tf, tl + 1))
        if sb != {x for x in st if x < ef} or sa != {x for x in st if x > el}:
            return "explicit address sets differ"
        if (sb | se | sa) != st or len(sb) + len(se) + len(sa) != len(st):
            return "before, middle, after do not tile T"
    return None


def orc_exclude(args, res):
    ver, tv, tp, ev, ep = args
    if isinstance(res, Exn):
        return "cidr_exclude raised %s" % res.name
    w = gens.W[ver]
    tf, tl = _bounds(w, tv, tp)
    ef, el = _bounds(w, ev, ep)
    # expected remainder T \ E as maximal integer intervals
    if el < tf or tl < ef:
        want = [(tf, tl)]
    else:
        want = [iv for iv in ((tf, min(tl, ef - 1)), (max(tf, el + 1), tl)) if iv[0] <= iv[1]]
    got = []
    prev_end = None
    for v, p in res:
        if not (isinstance(p, int) and 0 <= p <= w):
            return "ill-formed block %r" % ([v, p],)
        size = 1 << (w - p)
        if v % size:
            return "block %r has host bits" % ([v, p],)
        if prev_end is not None and v <= prev_end:
            return "result not ascending/disjoint at %r" % ([v, p],)
        if got and got[-1][1] + 1 == v:
            got[-1] = (got[-1][0], v + size - 1)
        else:
            got.append((v, v + size - 1))
        prev_end = v + size - 1
    if got != want:
        return "cidr_exclude covers %r, expected %r" % (got[:3], want)
    n_min = sum(bin(hi - lo + 1).count("1") for lo, hi in want)
    if len(res) != n_min:
        return "cidr_exclude result is not minimal (%d blocks, %d suffice)" % (len(res), n_min)
    return None


ORACLE = {"cidr_partition": orc_partition, "cidr_exclude": orc_exclude}


# ---- generators
def _hostbits(rng, w, v, p):
    """a value inside the block (v, p) that is not its first address when the block has more than one address"""
    size = 1 << (w - p)
    if size == 1:
        return v
    return v + rng.choice((1, size - 1, rng.randrange(1, size)))


def _emit(ver, t, e, tag, exclude_too):
    yield ("cidr_partition", [ver, t[0], t[1], e[0], e[1]], tag)
    if exclude_too:
        yield ("cidr_exclude", [ver, t[0], t[1], e[0], e[1]], tag + "_x")


def arena_cases(rng, tier, arena):
    ver, base, ap = arena
    w = gens.W[ver]
    blocks = [(v, p) for (_, v, p) in gens.arena_blocks(arena)]
    if not blocks:
        return
    big = len(blocks) > 200
    name = "arena%d_%d" % (ver, ap)
    for t in blocks:
        if big and tier == "quick":
            # structured choice: relatives of T plus a random sample of the arena
            tsz = 1 << (w - t[1])
            es = {t, (t[0] - t[0] % (2 * tsz), t[1] - 1) if t[1] > ap else t}
            for q in range(t[1], w + 1):
                s = 1 << (w - q)
                es.update([(t[0], q), (t[0] + tsz - s, q), (t[0] - s, q), (t[0] + tsz, q)])
            es.update(rng.sample(blocks, 12))
            es = sorted(e for e in es if base <= e[0] < base + (1 << (w - ap)) and ap <= e[1])
        else:
            es = blocks
        for e in es:
            r = rng.random()
            for c in _emit(ver, t, e, name, r < 0.25):
                yield c
            # host-bit variants (T keeps them in the covering shortcut, E in the middle list)
            if r < (0.35 if tier == "quick" else 1.0):
                th = (_hostbits(rng, w, *t), t[1])
                eh = (_hostbits(rng, w, *e), e[1])
                pick = rng.randrange(3)
                tt, ee = ((th, e), (t, eh), (th, eh))[pick]
                if (tt, ee) != (t, e):
                    for c in _emit(ver, tt, ee, name + "_hostbits", r < 0.1):
                        yield c
        # E a supernet of the whole arena, or a neighbour of the arena, at every shorter prefix
        for q in range(0, ap):
            s = 1 << (w - q)
            sup = base - base % s
            for e in ((sup, q), (sup - s, q), (sup + s, q)):
                if 0 <= e[0] <= gens.maxint(ver) and (t[1] <= ap + 2 or rng.random() < 0.1):
                    ee = (_hostbits(rng, w, *e), q) if rng.random() < 0.3 else e
                    for c in _emit(ver, t, ee, name + "_outer", False):
                        yield c


def _sub(rng, w, outer, q, where):
    """an aligned block of prefix q >= outer prefix inside `outer`: first / last / random sub-block"""
    v, p = outer
    n = 1 << (q - p)
    i = {"first": 0, "last": n - 1}.get(where)
    if i is None:
        i = rng.randrange(n)
    return (v + i * (1 << (w - q)), q)


def wide_cases(rng, tier, ver):
    w = gens.W[ver]
    combos = [(tp, ep) for tp in range(w + 1) for ep in range(w + 1)]
    if ver == 6 and tier == "quick":
        edge = [c for c in combos if c[0] in (0, 1, w - 1, w) or c[1] in (0, 1, w - 1, w) or abs(c[0] - c[1]) <= 1]
        combos = sorted(set(rng.sample(edge, 500) + rng.sample(combos, 1200)))
    mx = gens.maxint(ver)
    for tp, ep in combos:
        tsz = 1 << (w - tp)
        anchors = [0, mx - mx % tsz, (rng.getrandbits(w) >> (w - tp)) << (w - tp)]
        if tier != "quick":
            anchors.append((gens.rand_value(rng, ver) >> (w - tp)) << (w - tp))
        for tv in anchors:
            t = (tv, tp)
            es = []
            if ep >= tp:
                es += [_sub(rng, w, t, ep, "first"), _sub(rng, w, t, ep, "last"), _sub(rng, w, t, ep, "rand")]
            else:
                es += [(tv - tv % (1 << (w - ep)), ep)]
            esz = 1 << (w - ep)
            below = ((tv - 1) - (tv - 1) % esz, ep) if tv > 0 else None
            above = ((tv + tsz) - (tv + tsz) % esz, ep) if tv + tsz <= mx else None
            es += [x for x in (below, above) if x is not None]
            es.append(((rng.getrandbits(w) >> (w - ep)) << (w - ep), ep))
            for e in es:
                r = rng.random()
                tt = (_hostbits(rng, w, *t), tp) if r < 0.3 else t
                ee = (_hostbits(rng, w, *e), ep) if 0.2 < r < 0.5 else e
                for c in _emit(ver, tt, ee, "wide_v%d" % ver, r < 0.34 or r > 0.9):
                    yield c


def cases(rng, tier):
    for arena in gens.ARENAS:
        for c in arena_cases(rng, tier, arena):
            yield c
    for ver in (4, 6):
        for c in wide_cases(rng, tier, ver):
            yield c


# ---- object-lifecycle checks (harness/lifecycle.py): objects with a history behave like fresh ones, results do not
# alias operands, failed mutators change nothing.  The functional model has no hidden state: its answer is "no discrepancy".
from harness import lifecycle as _life
IMPL.update(_life.IMPL)
ORACLE.update(_life.ORACLE)
EXACT = tuple(EXACT) + ("life",)
RULE = RULE + " | lifecycle: observe-mutate-observe vs a fresh object, aliasing of results, failure atomicity (net)"
_cases_without_life = cases


def cases(rng, tier):
    yield from _cases_without_life(rng, tier)
    yield from _life.cases(rng, tier, {'net'})
